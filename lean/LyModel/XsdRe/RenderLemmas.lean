import LyModel.XsdRe.Render
/-!
# Lemmas about the printer `Pat.render` and the parser (`Props/C18Parse` states the properties)

Part 1: the parser reads the canonical text back.
-/
set_option linter.unusedSimpArgs false
set_option linter.unusedVariables false
namespace LyModel.XsdRe

/-! ### `List.span` -/

theorem span_loop_eq {α} (p : α → Bool) (l acc : List α) :
    List.span.loop p l acc = (acc.reverse ++ l.takeWhile p, l.dropWhile p) := by
  induction l generalizing acc with
  | nil => simp [List.span.loop]
  | cons x xs ih =>
    cases hx : p x <;> simp [List.span.loop, hx, ih, List.takeWhile_cons, List.dropWhile_cons]

theorem span_eq {α} (p : α → Bool) (l : List α) : l.span p = (l.takeWhile p, l.dropWhile p) := by
  simp [List.span, span_loop_eq]

theorem span_append_stop {α} (p : α → Bool) (xs : List α) (c : α) (rest : List α)
    (h : ∀ x ∈ xs, p x = true) (hc : p c = false) : (xs ++ c :: rest).span p = (xs, c :: rest) := by
  rw [span_eq]
  induction xs with
  | nil => simp [List.takeWhile_cons, List.dropWhile_cons, hc]
  | cons x xs ih =>
    have hx : p x = true := h x (by simp)
    have := ih (fun y hy => h y (by simp [hy]))
    simp only [Prod.mk.injEq] at this
    simp [List.takeWhile_cons, List.dropWhile_cons, hx, this]

/-! ### the character tables as explicit lists -/

theorem singleEscChars_eq : singleEscChars = ['\\','|','.','?','*','+','(',')','{','}','-','[',']','^','$'] := by decide +kernel
theorem metaChars_eq : metaChars = ['\\','|','.','?','*','+','(',')','{','}','[',']'] := by decide +kernel
theorem clsMetaChars_eq : clsMetaChars = ['\\','[',']','-','^'] := by decide +kernel

/-! ### escapes -/

theorem parseEscape_single (d : Dialect) (c : Char) (r : List Char) (h : singleEscChars.contains c = true) :
    parseEscape d (c :: r) = .ok (.lit c, r) := by
  rw [singleEscChars_eq] at h
  simp at h
  rcases h with rfl|rfl|rfl|rfl|rfl|rfl|rfl|rfl|rfl|rfl|rfl|rfl|rfl|rfl|rfl <;>
    simp [parseEscape, parseEscape0, singleEscChars_eq, EscTok.allowed]

theorem parseEscape_n (d : Dialect) (r : List Char) : parseEscape d ('n' :: r) = .ok (.lit '\n', r) := by
  simp [parseEscape, parseEscape0, EscTok.allowed]
theorem parseEscape_r (d : Dialect) (r : List Char) : parseEscape d ('r' :: r) = .ok (.lit '\r', r) := by
  simp [parseEscape, parseEscape0, EscTok.allowed]
theorem parseEscape_t (d : Dialect) (r : List Char) : parseEscape d ('t' :: r) = .ok (.lit '\t', r) := by
  simp [parseEscape, parseEscape0, EscTok.allowed]

/-- the text of an escape after its backslash -/
def Esc.body (neg : Bool) : Esc → List Char
  | .dig => [if neg then 'D' else 'd']
  | .word => [if neg then 'W' else 'w']
  | .space => [if neg then 'S' else 's']
  | .nameStart => [if neg then 'I' else 'i']
  | .nameChar => [if neg then 'C' else 'c']
  | .cat n => (if neg then 'P' else 'p') :: '{' :: (n.toList ++ ['}'])
  | .block b => (if neg then 'P' else 'p') :: '{' :: 'I' :: 's' :: (b.toList ++ ['}'])

theorem Esc.render_eq (neg : Bool) (e : Esc) : e.render neg = '\\' :: e.body neg := by
  cases e <;> rfl

theorem isNameCh_close : isNameCh '}' = false := by decide

theorem parseProp_cat (neg : Bool) (n : String) (rest : List Char) (h : (Esc.cat n).wf = true) :
    parseProp neg ('{' :: (n.toList ++ '}' :: rest)) = .ok (.cls neg (.cat n), rest) := by
  simp only [Esc.wf, Bool.and_eq_true, List.all_eq_true] at h
  obtain ⟨⟨h1, h2⟩, h3⟩ := h
  simp only [parseProp, span_append_stop isNameCh n.toList '}' rest h2 isNameCh_close]
  split
  · rename_i b hb
    rw [hb] at h3
    simp at h3
  · simpa [String.ofList_toList] using h1

theorem parseProp_block (neg : Bool) (b : String) (rest : List Char) (h : (Esc.block b).wf = true) :
    parseProp neg ('{' :: 'I' :: 's' :: (b.toList ++ '}' :: rest)) = .ok (.cls neg (.block b), rest) := by
  simp only [Esc.wf, Bool.and_eq_true, List.all_eq_true] at h
  obtain ⟨h1, h2⟩ := h
  have hs : List.span isNameCh ('I' :: 's' :: (b.toList ++ '}' :: rest)) = ('I' :: 's' :: b.toList, '}' :: rest) := by
    have := span_append_stop isNameCh ('I' :: 's' :: b.toList) '}' rest (by
      intro x hx
      simp only [List.mem_cons] at hx
      rcases hx with rfl | rfl | hx
      · decide
      · decide
      · exact h2 x hx) isNameCh_close
    simpa using this
  simp only [parseProp, hs]
  simp [String.ofList_toList, h1]

theorem parseEscape_esc (d : Dialect) (neg : Bool) (e : Esc) (rest : List Char) (hw : e.wf = true) (hd : e.inDialect d = true) :
    parseEscape d (e.body neg ++ rest) = .ok (.cls neg e, rest) := by
  cases e with
  | cat n =>
    cases neg <;>
      simp [Esc.body, parseEscape, parseEscape0, parseProp_cat _ n rest hw, EscTok.allowed]
  | block b =>
    simp only [Esc.inDialect] at hd
    cases neg <;>
      simp [Esc.body, parseEscape, parseEscape0, parseProp_block _ b rest hw, EscTok.allowed, hd]
  | _ =>
    simp only [Esc.inDialect] at hd
    cases neg <;> simp [Esc.body, parseEscape, parseEscape0, EscTok.allowed, hd]

theorem Esc.body_length_pos (neg : Bool) (e : Esc) : 1 ≤ (e.body neg).length := by
  cases e <;> simp [Esc.body]

/-! ### numbers and quantifiers -/

theorem digit_char : ∀ k, k < 10 → (Char.ofNat (48 + k)).isDigit = true ∧ (Char.ofNat (48 + k)).toNat - 48 = k := by decide

theorem natDigits_spec (n : Nat) :
    (∀ c ∈ natDigits n, c.isDigit = true) ∧
    (natDigits n).foldl (fun a d => a * 10 + (d.toNat - 48)) 0 = n ∧ natDigits n ≠ [] := by
  induction n using natDigits.induct with
  | case1 n h =>
    rw [natDigits, if_pos h]
    have := digit_char n h
    simp [this.1, this.2]
  | case2 n h ih =>
    rw [natDigits, if_neg h]
    have := digit_char (n % 10) (Nat.mod_lt _ (by omega))
    obtain ⟨i1, i2, i3⟩ := ih
    refine ⟨?_, ?_, by simp⟩
    · intro c hc
      simp only [List.mem_append, List.mem_singleton] at hc
      rcases hc with hc | rfl
      · exact i1 c hc
      · exact this.1
    · rw [List.foldl_append, i2]
      simp only [List.foldl_cons, List.foldl_nil, this.2]
      omega

theorem parseNat_natDigits (n : Nat) (c : Char) (rest : List Char) (hc : c.isDigit = false) :
    parseNat (natDigits n ++ c :: rest) = some (n, c :: rest) := by
  obtain ⟨h1, h2, h3⟩ := natDigits_spec n
  simp only [parseNat, span_append_stop Char.isDigit (natDigits n) c rest h1 hc]
  simp [h3, h2]

theorem natDigits_head (n : Nat) : ∃ c t, natDigits n = c :: t ∧ c.isDigit = true := by
  obtain ⟨h1, _, h3⟩ := natDigits_spec n
  cases h : natDigits n with
  | nil => exact absurd h h3
  | cons c t => exact ⟨c, t, rfl, h1 c (by simp [h])⟩

theorem parseQuant0_render (lo : Nat) (hi : Option Nat) (rest : List Char) (h : Regex.hiOk lo hi = true) :
    parseQuant0 (renderQuant lo hi ++ rest) = .ok (some (lo, hi), rest) := by
  cases hi with
  | none =>
    simp only [renderQuant]
    split
    · subst_vars; rfl
    · split
      · subst_vars; rfl
      · simp [parseQuant0, parseNat_natDigits lo ',' _ (by decide)]
  | some m =>
    simp only [Regex.hiOk, decide_eq_true_eq] at h
    simp only [renderQuant]
    split
    · rename_i h0; obtain ⟨rfl, rfl⟩ := h0; rfl
    · split
      · subst_vars
        simp [parseQuant0, parseNat_natDigits _ '}' _ (by decide)]
      · obtain ⟨c, t, hct, hcd⟩ := natDigits_head m
        have hne : c ≠ '}' := by rintro rfl; revert hcd; decide
        have h2 := parseNat_natDigits m '}' rest (by decide)
        rw [hct, List.cons_append] at h2
        simp [parseQuant0, parseNat_natDigits lo ',' _ (by decide), hct, hne, h2, h]

/-! ### literal characters outside a class -/

theorem parseAtom_plain (d : Dialect) (f : Nat) (c : Char) (r : List Char)
    (h1 : metaChars.contains c = false) (h2 : (!d.rawAnchors && (c == '^' || c == '$')) = false) :
    parseAtom d (f+1) (c :: r) = .ok (.chr c, r) := by
  rw [metaChars_eq] at h1
  simp at h1
  unfold parseAtom
  split <;> simp_all

theorem parseAtom_escLit (d : Dialect) (f : Nat) (c : Char) (r r' : List Char) (h : parseEscape d r = .ok (.lit c, r')) :
    parseAtom d (f+1) ('\\' :: r) = .ok (.chr c, r') := by
  simp [parseAtom, h, bind, Except.bind]

theorem parseAtom_renderChr (d : Dialect) (f : Nat) (c : Char) (rest : List Char) :
    parseAtom d (f+1) (renderChr d c ++ rest) = .ok (.chr c, rest) := by
  unfold renderChr
  split
  · rename_i h; simp only [beq_iff_eq] at h; subst h
    exact parseAtom_escLit d f _ _ _ (parseEscape_n d rest)
  · split
    · rename_i h; simp only [beq_iff_eq] at h; subst h
      exact parseAtom_escLit d f _ _ _ (parseEscape_r d rest)
    · split
      · rename_i h; simp only [beq_iff_eq] at h; subst h
        exact parseAtom_escLit d f _ _ _ (parseEscape_t d rest)
      · split
        · rename_i h
          apply parseAtom_escLit
          apply parseEscape_single
          rw [singleEscChars_eq]
          rw [metaChars_eq] at h
          simp at h ⊢
          rcases h with h | h
          · rcases h with h|h|h|h|h|h|h|h|h|h|h|h <;> simp [h]
          · rcases h.2 with h|h <;> simp [h]
        · rename_i h
          simp only [Bool.or_eq_true, not_or, Bool.not_eq_true] at h
          exact parseAtom_plain d f c rest h.1 h.2

/-- the first character of the text of an atom: not `)`, `|` or the start of a quantifier -/
def headOk : List Char → Bool
  | [] => false
  | c :: _ => !(c == ')' || c == '|' || c == '*' || c == '+' || c == '?' || c == '{')

/-- the text does not start with a quantifier -/
def NoQuantStart : List Char → Bool
  | [] => true
  | c :: _ => !(c == '*' || c == '+' || c == '?' || c == '{')

theorem headOk_append (s rest : List Char) (h : headOk s = true) : headOk (s ++ rest) = true := by
  cases s with
  | nil => simp [headOk] at h
  | cons c t => simpa [headOk] using h

theorem noQuantStart_of_headOk (s : List Char) (h : headOk s = true) : NoQuantStart s = true := by
  cases s with
  | nil => rfl
  | cons c t => simp [headOk, NoQuantStart] at h ⊢; simp [h]

theorem headOk_renderChr (d : Dialect) (c : Char) : headOk (renderChr d c) = true := by
  unfold renderChr
  split; · rfl
  split; · rfl
  split; · rfl
  split; · rfl
  rename_i h
  rw [metaChars_eq] at h
  simp at h
  simp [headOk, h]

theorem renderChr_length_pos (d : Dialect) (c : Char) : 1 ≤ (renderChr d c).length := by
  unfold renderChr
  repeat' split
  all_goals simp

theorem parseQuant0_none (rest : List Char) (h : NoQuantStart rest = true) : parseQuant0 rest = .ok (none, rest) := by
  unfold parseQuant0
  split <;> simp_all [NoQuantStart]

theorem parseQuant_none (d : Dialect) (rest : List Char) (h : NoQuantStart rest = true) : parseQuant d rest = .ok (none, rest) := by
  simp [parseQuant, parseQuant0_none rest h]

theorem parseQuant_render (d : Dialect) (lo : Nat) (hi : Option Nat) (rest : List Char) (h : Regex.hiOk lo hi = true)
    (hq : quantAllowed d lo hi = true) :
    parseQuant d (renderQuant lo hi ++ rest) = .ok (some (lo, hi), rest) := by
  simp [parseQuant, parseQuant0_render lo hi rest h, hq]

/-- one piece: an atom and its optional quantifier -/
theorem parseSeq_piece (d : Dialect) (f : Nat) (g : Bool) (alts cur : List Pat) (s r1 r2 : List Char) (a : Pat)
    (q : Option (Nat × Option Nat)) (hs : headOk s = true)
    (ha : parseAtom d f s = .ok (a, r1)) (hq : parseQuant d r1 = .ok (q, r2)) :
    parseSeq d (f+1) g alts cur s =
      parseSeq d f g alts (cur ++ [match q with | none => a | some (lo, hi) => .rep a lo hi]) r2 := by
  cases s with
  | nil => simp [headOk] at hs
  | cons c t =>
    simp [headOk] at hs
    rw [parseSeq]
    · simp only [ha, hq, bind, Except.bind]
      rcases q with _ | ⟨lo, hi⟩ <;> rfl
    · intro h; simp at h
    · intro r h; simp at h; simp [h.1] at hs
    · intro r h; simp at h; simp [h.1] at hs

/-! ### character classes -/

/-- what may follow a class member: anything but a `-` that is not the `-[` of a subtraction -/
def ClsTail : List Char → Bool
  | [] => true
  | c :: t => c != '-' || (match t with | x :: _ => x == '[' | [] => false)

/-- the first character of a rendered class member -/
def clsHeadOk : List Char → Bool
  | [] => false
  | c :: _ => !(c == '-' || c == '^' || c == ']' || c == '[')

theorem clsTail_of_headOk (s : List Char) (h : clsHeadOk s = true) : ClsTail s = true := by
  cases s with
  | nil => rfl
  | cons c t => simp [clsHeadOk, ClsTail] at h ⊢; simp [h]

theorem clsHeadOk_append (s rest : List Char) (h : clsHeadOk s = true) : clsHeadOk (s ++ rest) = true := by
  cases s with
  | nil => simp [clsHeadOk] at h
  | cons c t => simpa [clsHeadOk] using h

theorem parseRangeOrChar_ch (d : Dialect) (c : Char) (rest : List Char) (h : ClsTail rest = true) :
    parseRangeOrChar d c rest = .ok (.ch c, rest) := by
  unfold parseRangeOrChar
  split
  · rfl
  · rfl
  · rename_i r2 h1 h2
    cases r2 with
    | nil => simp [ClsTail] at h
    | cons x t =>
      simp [ClsTail] at h
      subst h
      exact absurd rfl (h1 t)
  · rfl

/-- a literal class member, raw or escaped, is handed to `parseRangeOrChar` -/
theorem parseItems_lit (d : Dialect) (f : Nat) (neg : Bool) (acc : List CItem) (c : Char) (r : List Char) :
    parseItems d (f+1) neg acc (renderClsChr c ++ r) =
      (parseRangeOrChar d c r >>= fun x => parseItems d f neg (acc ++ [x.1]) x.2) := by
  have esc : ∀ r0, parseEscape d r0 = .ok (.lit c, r) → parseItems d (f+1) neg acc ('\\' :: r0) =
      (parseRangeOrChar d c r >>= fun x => parseItems d f neg (acc ++ [x.1]) x.2) := by
    intro r0 h
    simp only [parseItems, h, bind, Except.bind]
  unfold renderClsChr
  split
  · rename_i h; simp only [beq_iff_eq] at h; subst h
    exact esc _ (parseEscape_n d r)
  · split
    · rename_i h; simp only [beq_iff_eq] at h; subst h
      exact esc _ (parseEscape_r d r)
    · split
      · rename_i h; simp only [beq_iff_eq] at h; subst h
        exact esc _ (parseEscape_t d r)
      · split
        · rename_i h
          apply esc
          apply parseEscape_single
          rw [singleEscChars_eq]
          rw [clsMetaChars_eq] at h
          simp at h ⊢
          rcases h with h|h|h|h|h <;> simp [h]
        · rename_i h
          rw [clsMetaChars_eq] at h
          simp at h
          simp only [List.cons_append, List.nil_append]
          rw [parseItems]
          all_goals (intros; simp_all)

theorem clsHeadOk_renderClsChr (c : Char) : clsHeadOk (renderClsChr c) = true := by
  unfold renderClsChr
  split; · rfl
  split; · rfl
  split; · rfl
  split; · rfl
  rename_i h
  rw [clsMetaChars_eq] at h
  simp at h
  simp [clsHeadOk, h]

theorem renderClsChr_length_pos (c : Char) : 1 ≤ (renderClsChr c).length := by
  unfold renderClsChr
  repeat' split
  all_goals simp

theorem parseRangeHi_render (d : Dialect) (c : Char) (rest : List Char) :
    parseRangeHi d (renderClsChr c ++ rest) = .ok (c, rest) := by
  have esc : ∀ r0, parseEscape d r0 = .ok (.lit c, rest) → parseRangeHi d ('\\' :: r0) = .ok (c, rest) := by
    intro r0 h
    simp only [parseRangeHi, h, bind, Except.bind]
  unfold renderClsChr
  split
  · rename_i h; simp only [beq_iff_eq] at h; subst h
    exact esc _ (parseEscape_n d rest)
  · split
    · rename_i h; simp only [beq_iff_eq] at h; subst h
      exact esc _ (parseEscape_r d rest)
    · split
      · rename_i h; simp only [beq_iff_eq] at h; subst h
        exact esc _ (parseEscape_t d rest)
      · split
        · rename_i h
          apply esc
          apply parseEscape_single
          rw [singleEscChars_eq]
          rw [clsMetaChars_eq] at h
          simp at h ⊢
          rcases h with h|h|h|h|h <;> simp [h]
        · rename_i h
          rw [clsMetaChars_eq] at h
          simp at h
          simp only [List.cons_append, List.nil_append]
          unfold parseRangeHi
          split <;> simp_all

theorem parseRangeOrChar_range (d : Dialect) (lo hi : Char) (rest : List Char) (h : lo ≤ hi) :
    parseRangeOrChar d lo ('-' :: (renderClsChr hi ++ rest)) = .ok (.range lo hi, rest) := by
  have hh := clsHeadOk_append _ rest (clsHeadOk_renderClsChr hi)
  have hp := parseRangeHi_render d hi rest
  cases hs : renderClsChr hi ++ rest with
  | nil => rw [hs] at hh; simp [clsHeadOk] at hh
  | cons x t =>
    rw [hs] at hh hp
    simp [clsHeadOk] at hh
    unfold parseRangeOrChar
    split
    · rename_i heq; simp at heq; simp [heq.1] at hh
    · rename_i heq; simp at heq; simp [heq.1] at hh
    · rename_i r2 _ _ heq
      simp at heq
      subst heq
      simp [hp, h, bind, Except.bind]
    · rename_i hne
      exact absurd rfl (hne _)

theorem parseItems_item (d : Dialect) (f : Nat) (neg : Bool) (acc : List CItem) (it : CItem) (rest : List Char)
    (ht : ClsTail rest = true) (hw : it.wf = true) (hd : it.inDialect d = true) :
    parseItems d (f+1) neg acc (it.render ++ rest) = parseItems d f neg (acc ++ [it]) rest := by
  cases it with
  | ch c =>
    simp only [CItem.render]
    rw [parseItems_lit, parseRangeOrChar_ch d c rest ht]
    rfl
  | range lo hi =>
    simp only [CItem.wf, decide_eq_true_eq] at hw
    simp only [CItem.render, List.append_assoc, List.cons_append]
    rw [parseItems_lit, parseRangeOrChar_range d lo hi rest hw]
    rfl
  | esc n e =>
    simp only [CItem.wf] at hw
    simp only [CItem.inDialect] at hd
    simp only [CItem.render, Esc.render_eq, List.cons_append]
    simp only [parseItems, List.append_assoc, parseEscape_esc d n e rest hw hd, bind, Except.bind]

theorem clsHeadOk_item (it : CItem) : clsHeadOk it.render = true := by
  cases it with
  | ch c => exact clsHeadOk_renderClsChr c
  | range lo hi => exact clsHeadOk_append _ _ (clsHeadOk_renderClsChr lo)
  | esc n e => simp [CItem.render, Esc.render_eq, clsHeadOk]

theorem item_length_pos (it : CItem) : 1 ≤ it.render.length := by
  cases it with
  | ch c => exact renderClsChr_length_pos c
  | range lo hi => simp [CItem.render]; have := renderClsChr_length_pos lo; omega
  | esc n e => simp [CItem.render, Esc.render_eq]

theorem items_length_le (items : List CItem) : items.length ≤ (items.flatMap CItem.render).length := by
  induction items with
  | nil => simp
  | cons it its ih =>
    have := item_length_pos it
    simp only [List.flatMap_cons, List.length_append, List.length_cons]
    omega

/-- the members of one group, up to the closing `]` or the `-[` of a subtraction -/
theorem parseItems_items (d : Dialect) (neg : Bool) (items : List CItem) :
    ∀ (f : Nat) (acc : List CItem) (rest : List Char), ClsTail rest = true →
    items.all CItem.wf = true → items.all (CItem.inDialect d) = true →
    parseItems d (f + items.length) neg acc (items.flatMap CItem.render ++ rest) = parseItems d f neg (acc ++ items) rest := by
  induction items with
  | nil => intro f acc rest _ _ _; simp
  | cons it its ih =>
    intro f acc rest ht hw hd
    simp only [List.all_cons, Bool.and_eq_true] at hw hd
    have hmid : ClsTail (its.flatMap CItem.render ++ rest) = true := by
      cases its with
      | nil => simpa using ht
      | cons i2 its2 =>
        apply clsTail_of_headOk
        simp only [List.flatMap_cons, List.append_assoc]
        exact clsHeadOk_append _ _ (clsHeadOk_item i2)
    have e1 : f + (it :: its).length = (f + its.length) + 1 := by simp; omega
    rw [e1, List.flatMap_cons, List.append_assoc, parseItems_item d _ neg acc it _ hmid hw.1 hd.1,
      ih f (acc ++ [it]) rest ht hw.2 hd.2]
    simp

theorem parseClass_nohat (d : Dialect) (f : Nat) (s : List Char) (h : clsHeadOk s = true) :
    parseClass d (f+1) s = parseItems d f false [] s := by
  cases s with
  | nil => simp [clsHeadOk] at h
  | cons c t =>
    simp [clsHeadOk] at h
    rw [parseClass]
    intro r hr
    simp at hr
    simp [hr.1] at h

theorem parseClass_group (d : Dialect) (g : CGroup) (f : Nat) (tail : List Char) (hw : g.wf = true)
    (hd : g.items.all (CItem.inDialect d) = true) (ht : ClsTail tail = true) :
    parseClass d (f + g.items.length + 1) (g.render ++ tail) = parseItems d f g.neg g.items tail := by
  simp only [CGroup.wf, Bool.and_eq_true] at hw
  obtain ⟨g_neg, items⟩ := g
  simp only at hw hd ⊢
  cases g_neg with
  | true =>
    simp only [CGroup.render, if_true, List.cons_append, List.nil_append, parseClass]
    rw [parseItems_items d true items f [] tail ht hw.2 hd]
    simp
  | false =>
    simp only [CGroup.render, Bool.false_eq_true, if_false, List.nil_append]
    rw [parseClass_nohat, parseItems_items d false items f [] tail ht hw.2 hd]
    · simp
    · cases items with
      | nil => simp at hw
      | cons it its =>
        simp only [List.flatMap_cons, List.append_assoc]
        exact clsHeadOk_append _ _ (clsHeadOk_item it)

theorem group_render_length (g : CGroup) : g.items.length ≤ g.render.length := by
  have := items_length_le g.items
  simp only [CGroup.render, List.length_append]
  omega

theorem parseClass_render (d : Dialect) (cc : CClass) : cc.wf = true → cc.inDialect d = true →
    ∀ (f : Nat) (rest : List Char), cc.render.length + 1 ≤ f → parseClass d f (cc.render ++ rest) = .ok (cc, rest) := by
  induction cc with
  | nil => intro h; simp [CClass.wf] at h
  | cons g more ih =>
    intro hw hd f rest hf
    simp only [CClass.wf, List.isEmpty_cons, Bool.not_false, Bool.true_and, List.all_cons, Bool.and_eq_true] at hw
    simp only [CClass.inDialect, List.all_cons, Bool.and_eq_true, Bool.or_eq_true, decide_eq_true_eq] at hd
    have hgl := group_render_length g
    have hgw := hw.1
    simp only [CGroup.wf, Bool.and_eq_true, Bool.not_eq_true', List.isEmpty_eq_false_iff] at hgw
    cases more with
    | nil =>
      simp only [CClass.render, List.append_assoc, List.cons_append, List.nil_append, List.length_append,
        List.length_cons, List.length_nil] at hf ⊢
      obtain ⟨f0, rfl⟩ : ∃ f0, f = (f0 + 1) + g.items.length + 1 := ⟨f - g.items.length - 2, by omega⟩
      rw [parseClass_group d g (f0+1) (']' :: rest) hw.1 hd.2.1 (by simp [ClsTail])]
      rw [parseItems]
      have : g.items.isEmpty = false := by simpa using hgw.1
      simp [this]
    | cons g2 more2 =>
      have hsub : d.subtraction = true := by
        rcases hd.1 with h | h
        · exact h
        · simp at h
      simp only [CClass.render, List.append_assoc, List.cons_append, List.nil_append, List.length_append,
        List.length_cons, List.length_nil] at hf ⊢
      obtain ⟨f0, rfl⟩ : ∃ f0, f = (f0 + 1) + g.items.length + 1 := ⟨f - g.items.length - 2, by omega⟩
      rw [parseClass_group d g (f0+1) _ hw.1 hd.2.1 (by simp [ClsTail])]
      rw [parseItems]
      have hne : g.items.isEmpty = false := by simpa using hgw.1
      have hw2 : CClass.wf (g2 :: more2) = true := by
        simp only [CClass.wf, List.isEmpty_cons, Bool.not_false, Bool.true_and]
        exact hw.2
      have hd2 : CClass.inDialect d (g2 :: more2) = true := by
        simp only [CClass.inDialect, Bool.and_eq_true, Bool.or_eq_true, decide_eq_true_eq]
        exact ⟨Or.inl hsub, hd.2.2⟩
      have := ih hw2 hd2 f0 (']' :: rest) (by omega)
      simp [hsub, hne, this, bind, Except.bind]

/-! ### regExp / branch / piece / atom -/

/-- the pieces of a branch (inverse of `mkCat`) -/
def pieces : Pat → List Pat
  | .eps => []
  | .cat a b => a :: pieces b
  | p => [p]

/-- the branches of a regExp (inverse of `mkAlt`) -/
def branches : Pat → List Pat
  | .alt a b => a :: branches b
  | p => [p]

theorem pieces_of_piece (p : Pat) (h : p.isPiece = true) : pieces p = [p] := by
  cases p <;> simp_all [pieces, Pat.isPiece, Pat.isAtom]

theorem pieces_ne_nil (b : Pat) (h : b.isBranch1 = true) : pieces b ≠ [] := by
  cases b <;> simp_all [pieces, Pat.isBranch1, Pat.isPiece, Pat.isAtom]

theorem mkCat_pieces1 (b : Pat) : b.isBranch1 = true → mkCat (pieces b) = b := by
  induction b with
  | cat a b iha ihb =>
    intro h
    simp only [Pat.isBranch1, Bool.and_eq_true] at h
    have hne := pieces_ne_nil b h.2
    simp only [pieces]
    cases hp : pieces b with
    | nil => exact absurd hp hne
    | cons x t => rw [mkCat, ← hp, ihb h.2]; simp
  | _ => intro h; simp_all [pieces, Pat.isBranch1, Pat.isPiece, Pat.isAtom, mkCat]

theorem mkCat_pieces (b : Pat) (h : b.isBranch = true) : mkCat (pieces b) = b := by
  cases b with
  | eps => rfl
  | _ => exact mkCat_pieces1 _ (by simpa [Pat.isBranch] using h)

theorem branches_of_branch (p : Pat) (h : p.isBranch = true) : branches p = [p] := by
  cases p <;> simp_all [branches, Pat.isBranch, Pat.isBranch1, Pat.isPiece, Pat.isAtom]

theorem branches_ne_nil (p : Pat) : branches p ≠ [] := by
  cases p <;> simp [branches]

theorem mkAlt_branches (p : Pat) : p.isRe = true → mkAlt (branches p) = p := by
  induction p with
  | alt a b iha ihb =>
    intro h
    simp only [Pat.isRe, Bool.and_eq_true] at h
    have hne := branches_ne_nil b
    simp only [branches]
    cases hp : branches b with
    | nil => exact absurd hp hne
    | cons x t => rw [mkAlt, ← hp, ihb h.2]; simp
  | _ => intro h; simp [branches, mkAlt]

theorem headOk_atom (d : Dialect) (a : Pat) (h : a.isAtom = true) : headOk (a.render d) = true := by
  cases a with
  | chr c => exact headOk_renderChr d c
  | esc n e => simp [Pat.render, Esc.render_eq, headOk]
  | dot => simp [Pat.render, headOk]
  | cls cc => simp [Pat.render, headOk]
  | group p => simp [Pat.render, headOk]
  | _ => simp [Pat.isAtom] at h

theorem headOk_piece (d : Dialect) (p : Pat) (h : p.isPiece = true) : headOk (p.render d) = true := by
  cases p with
  | rep a lo hi =>
    simp only [Pat.isPiece] at h
    exact headOk_append _ _ (headOk_atom d a h)
  | _ => exact headOk_atom d _ (by simpa [Pat.isPiece] using h)

theorem headOk_branch1 (d : Dialect) (b : Pat) (h : b.isBranch1 = true) : headOk (b.render d) = true := by
  cases b with
  | cat a b =>
    simp only [Pat.isBranch1, Bool.and_eq_true] at h
    exact headOk_append _ _ (headOk_piece d a h.1)
  | _ => exact headOk_piece d _ (by simpa [Pat.isBranch1] using h)

theorem length_pos_of_headOk (s : List Char) (h : headOk s = true) : 1 ≤ s.length := by
  cases s with
  | nil => simp [headOk] at h
  | cons c t => simp

def AtomOk (d : Dialect) (a : Pat) : Prop :=
  ∀ (f : Nat) (rest : List Char), (a.render d).length + 1 ≤ f → parseAtom d f (a.render d ++ rest) = .ok (a, rest)

def PieceOk (d : Dialect) (p : Pat) : Prop :=
  ∀ (f : Nat) (g : Bool) (alts cur : List Pat) (rest : List Char), NoQuantStart rest = true → (p.render d).length + 2 ≤ f →
    parseSeq d f g alts cur (p.render d ++ rest) = parseSeq d (f - 1) g alts (cur ++ [p]) rest

def BranchOk (d : Dialect) (b : Pat) : Prop :=
  ∀ (f : Nat) (g : Bool) (alts cur : List Pat) (rest : List Char), NoQuantStart rest = true → (b.render d).length + 2 ≤ f →
    ∃ f', f ≤ f' + (b.render d).length ∧
      parseSeq d f g alts cur (b.render d ++ rest) = parseSeq d f' g alts (cur ++ pieces b) rest

/-- the end of a regExp: end of input at top level, `)` in a group -/
def SeqEnd (g : Bool) (rest rest' : List Char) : Prop :=
  (g = true ∧ rest = ')' :: rest') ∨ (g = false ∧ rest = [] ∧ rest' = [])

def ReOk (d : Dialect) (p : Pat) : Prop :=
  ∀ (f : Nat) (g : Bool) (alts : List Pat) (rest rest' : List Char), SeqEnd g rest rest' → (p.render d).length + 2 ≤ f →
    parseSeq d f g alts [] (p.render d ++ rest) = .ok (mkAlt (alts ++ branches p), rest')

theorem noQuantStart_seqEnd {g : Bool} {rest rest' : List Char} (h : SeqEnd g rest rest') : NoQuantStart rest = true := by
  rcases h with ⟨_, rfl⟩ | ⟨_, rfl, _⟩ <;> simp [NoQuantStart]

theorem parseSeq_end (d : Dialect) (f : Nat) (g : Bool) (alts cur : List Pat) (rest rest' : List Char)
    (h : SeqEnd g rest rest') (hf : 1 ≤ f) : parseSeq d f g alts cur rest = .ok (mkAlt (alts ++ [mkCat cur]), rest') := by
  obtain ⟨f0, rfl⟩ : ∃ f0, f = f0 + 1 := ⟨f - 1, by omega⟩
  rcases h with ⟨rfl, rfl⟩ | ⟨rfl, rfl, rfl⟩ <;> simp [parseSeq]

theorem piece_of_atom (d : Dialect) (a : Pat) (h : a.isAtom = true) (ha : AtomOk d a) : PieceOk d a := by
  intro f g alts cur rest hq hf
  obtain ⟨f0, rfl⟩ : ∃ f0, f = f0 + 1 := ⟨f - 1, by omega⟩
  rw [parseSeq_piece d f0 g alts cur _ rest rest a none (headOk_append _ _ (headOk_atom d a h))
    (ha f0 rest (by omega)) (parseQuant_none d rest hq)]
  rfl

theorem piece_of_rep (d : Dialect) (a : Pat) (lo : Nat) (hi : Option Nat) (h : a.isAtom = true) (ha : AtomOk d a)
    (hh : Regex.hiOk lo hi = true) (hq : quantAllowed d lo hi = true) : PieceOk d (.rep a lo hi) := by
  intro f g alts cur rest _ hf
  obtain ⟨f0, rfl⟩ : ∃ f0, f = f0 + 1 := ⟨f - 1, by omega⟩
  simp only [Pat.render, List.length_append, List.append_assoc] at hf ⊢
  rw [parseSeq_piece d f0 g alts cur _ (renderQuant lo hi ++ rest) rest a (some (lo, hi)) (headOk_append _ _ (headOk_atom d a h))
    (ha f0 _ (by omega)) (parseQuant_render d lo hi rest hh hq)]
  rfl

theorem branch_of_piece (d : Dialect) (p : Pat) (h : p.isPiece = true) (hp : PieceOk d p) : BranchOk d p := by
  intro f g alts cur rest hq hf
  have := length_pos_of_headOk _ (headOk_piece d p h)
  refine ⟨f - 1, by omega, ?_⟩
  rw [hp f g alts cur rest hq hf, pieces_of_piece p h]

theorem branch_eps (d : Dialect) : BranchOk d .eps := by
  intro f g alts cur rest hq hf
  exact ⟨f, by omega, by simp [Pat.render, pieces]⟩

theorem branch_cat (d : Dialect) (a b : Pat) (ha : a.isPiece = true) (hb : b.isBranch1 = true) (pa : PieceOk d a)
    (pb : BranchOk d b) : BranchOk d (.cat a b) := by
  intro f g alts cur rest hq hf
  simp only [Pat.render, List.length_append, List.append_assoc] at hf ⊢
  have hla := length_pos_of_headOk _ (headOk_piece d a ha)
  rw [pa f g alts cur (b.render d ++ rest) (noQuantStart_of_headOk _ (headOk_append _ _ (headOk_branch1 d b hb))) (by omega)]
  obtain ⟨f', h1, h2⟩ := pb (f - 1) g alts (cur ++ [a]) rest hq (by omega)
  refine ⟨f', by omega, ?_⟩
  rw [h2]
  simp [pieces]

theorem re_of_branch (d : Dialect) (p : Pat) (h : p.isBranch = true) (hp : BranchOk d p) : ReOk d p := by
  intro f g alts rest rest' he hf
  obtain ⟨f', h1, h2⟩ := hp f g alts [] rest (noQuantStart_seqEnd he) hf
  rw [h2, parseSeq_end d f' g alts _ rest rest' he (by omega), branches_of_branch p h]
  simp [mkCat_pieces p h]

theorem re_alt (d : Dialect) (a b : Pat) (ha : a.isBranch = true) (pa : BranchOk d a) (pb : ReOk d b) : ReOk d (.alt a b) := by
  intro f g alts rest rest' he hf
  simp only [Pat.render, List.length_append, List.length_cons, List.append_assoc, List.cons_append] at hf ⊢
  obtain ⟨f', h1, h2⟩ := pa f g alts [] ('|' :: (b.render d ++ rest)) (by simp [NoQuantStart]) (by omega)
  obtain ⟨f0, rfl⟩ : ∃ f0, f' = f0 + 1 := ⟨f' - 1, by omega⟩
  rw [h2, parseSeq, pb f0 g _ rest rest' he (by omega)]
  simp [branches, mkCat_pieces a ha]

theorem atom_group (d : Dialect) (p : Pat) (h : p.isRe = true) (hp : ReOk d p) : AtomOk d (.group p) := by
  intro f rest hf
  simp only [Pat.render, List.length_append, List.length_cons, List.length_nil, List.append_assoc, List.cons_append,
    List.nil_append] at hf ⊢
  obtain ⟨f0, rfl⟩ : ∃ f0, f = f0 + 1 := ⟨f - 1, by omega⟩
  rw [parseAtom, hp f0 true [] (')' :: rest) rest (Or.inl ⟨rfl, rfl⟩) (by omega)]
  simp [bind, Except.bind, mkAlt_branches p h]

theorem atom_cls (d : Dialect) (cc : CClass) (hw : cc.wf = true) (hd : cc.inDialect d = true) : AtomOk d (.cls cc) := by
  intro f rest hf
  simp only [Pat.render, List.length_cons, List.cons_append] at hf ⊢
  obtain ⟨f0, rfl⟩ : ∃ f0, f = f0 + 1 := ⟨f - 1, by omega⟩
  rw [parseAtom, parseClass_render d cc hw hd f0 rest (by omega)]
  rfl

theorem atom_chr (d : Dialect) (c : Char) : AtomOk d (.chr c) := by
  intro f rest hf
  obtain ⟨f0, rfl⟩ : ∃ f0, f = f0 + 1 := ⟨f - 1, by omega⟩
  exact parseAtom_renderChr d f0 c rest

theorem atom_dot (d : Dialect) : AtomOk d .dot := by
  intro f rest hf
  obtain ⟨f0, rfl⟩ : ∃ f0, f = f0 + 1 := ⟨f - 1, by omega⟩
  simp [Pat.render, parseAtom]

theorem atom_esc (d : Dialect) (n : Bool) (e : Esc) (hw : e.wf = true) (hd : e.inDialect d = true) : AtomOk d (.esc n e) := by
  intro f rest hf
  obtain ⟨f0, rfl⟩ : ∃ f0, f = f0 + 1 := ⟨f - 1, by omega⟩
  simp [Pat.render, Esc.render_eq, parseAtom, parseEscape_esc d n e rest hw hd, bind, Except.bind]

theorem isPiece_of_isAtom {p : Pat} (h : p.isAtom = true) : p.isPiece = true := by
  cases p <;> simp_all [Pat.isPiece, Pat.isAtom]

theorem isBranch1_of_isPiece {p : Pat} (h : p.isPiece = true) : p.isBranch1 = true := by
  cases p <;> simp_all [Pat.isBranch1, Pat.isPiece, Pat.isAtom]

theorem isBranch_of_isBranch1 {p : Pat} (h : p.isBranch1 = true) : p.isBranch = true := by
  cases p <;> simp_all [Pat.isBranch]

/-- all four levels of the grammar at once -/
theorem render_ok (d : Dialect) (p : Pat) : p.wf = true → p.inDialect d = true →
    (p.isAtom = true → AtomOk d p) ∧ (p.isPiece = true → PieceOk d p) ∧ (p.isBranch = true → BranchOk d p) ∧
    (p.isRe = true → ReOk d p) := by
  -- the upper levels follow from the lower ones for every tree that is an atom / a piece
  have up_atom : ∀ a : Pat, a.isAtom = true → AtomOk d a →
      (a.isAtom = true → AtomOk d a) ∧ (a.isPiece = true → PieceOk d a) ∧ (a.isBranch = true → BranchOk d a) ∧
      (a.isRe = true → ReOk d a) := by
    intro a h ha
    have hp := piece_of_atom d a h ha
    have hb := branch_of_piece d a (isPiece_of_isAtom h) hp
    have hbr := isBranch_of_isBranch1 (isBranch1_of_isPiece (isPiece_of_isAtom h))
    exact ⟨fun _ => ha, fun _ => hp, fun _ => hb, fun _ => re_of_branch d a hbr hb⟩
  induction p with
  | eps =>
    intro _ _
    refine ⟨fun h => by simp [Pat.isAtom] at h, fun h => by simp [Pat.isPiece, Pat.isAtom] at h, fun _ => branch_eps d,
      fun _ => re_of_branch d _ rfl (branch_eps d)⟩
  | chr c => intro _ _; exact up_atom _ rfl (atom_chr d c)
  | dot => intro _ _; exact up_atom _ rfl (atom_dot d)
  | esc n e => intro hw hd; exact up_atom _ rfl (atom_esc d n e hw hd)
  | cls cc => intro hw hd; exact up_atom _ rfl (atom_cls d cc hw hd)
  | group p ih =>
    intro hw hd
    simp only [Pat.wf, Bool.and_eq_true] at hw
    simp only [Pat.inDialect] at hd
    exact up_atom _ rfl (atom_group d p hw.2 ((ih hw.1 hd).2.2.2 hw.2))
  | rep a lo hi ih =>
    intro hw hd
    simp only [Pat.wf, Bool.and_eq_true] at hw
    simp only [Pat.inDialect, Bool.and_eq_true] at hd
    have key : (Pat.rep a lo hi).isPiece = true → PieceOk d (.rep a lo hi) := fun h =>
      piece_of_rep d a lo hi (by simpa [Pat.isPiece] using h) ((ih hw.1 hd.1).1 (by simpa [Pat.isPiece] using h)) hw.2 hd.2
    refine ⟨fun h => by simp [Pat.isAtom] at h, key, fun h => ?_, fun h => ?_⟩
    · have hp : (Pat.rep a lo hi).isPiece = true := by simpa [Pat.isBranch, Pat.isBranch1] using h
      exact branch_of_piece d _ hp (key hp)
    · have hp : (Pat.rep a lo hi).isPiece = true := by simpa [Pat.isRe, Pat.isBranch, Pat.isBranch1] using h
      exact re_of_branch d _ (isBranch_of_isBranch1 (isBranch1_of_isPiece hp)) (branch_of_piece d _ hp (key hp))
  | cat a b iha ihb =>
    intro hw hd
    simp only [Pat.wf, Bool.and_eq_true] at hw
    simp only [Pat.inDialect, Bool.and_eq_true] at hd
    have key : (Pat.cat a b).isBranch = true → BranchOk d (.cat a b) := fun h => by
      simp only [Pat.isBranch, Pat.isBranch1, Bool.and_eq_true] at h
      exact branch_cat d a b h.1 h.2 ((iha hw.1 hd.1).2.1 h.1) ((ihb hw.2 hd.2).2.2.1 (isBranch_of_isBranch1 h.2))
    refine ⟨fun h => by simp [Pat.isAtom] at h, fun h => by simp [Pat.isPiece, Pat.isAtom] at h, key, fun h => ?_⟩
    have hb : (Pat.cat a b).isBranch = true := by simpa [Pat.isRe] using h
    exact re_of_branch d _ hb (key hb)
  | alt a b iha ihb =>
    intro hw hd
    simp only [Pat.wf, Bool.and_eq_true] at hw
    simp only [Pat.inDialect, Bool.and_eq_true] at hd
    refine ⟨fun h => by simp [Pat.isAtom] at h, fun h => by simp [Pat.isPiece, Pat.isAtom] at h,
      fun h => by simp [Pat.isBranch, Pat.isBranch1, Pat.isPiece, Pat.isAtom] at h, fun h => ?_⟩
    simp only [Pat.isRe, Bool.and_eq_true] at h
    exact re_alt d a b h.1 ((iha hw.1 hd.1).2.2.1 h.1) ((ihb hw.2 hd.2).2.2.2 h.2)

/-- the parser reads the canonical text of a canonical tree back -/
theorem parseCharsD_render (d : Dialect) (p : Pat) (hc : p.Canon = true) (hd : p.inDialect d = true) :
    parseCharsD d (p.render d) = .ok p := by
  simp only [Pat.Canon, Bool.and_eq_true] at hc
  have h := (render_ok d p hc.2 hd).2.2.2 hc.1 (2 * (p.render d).length + 4) false [] [] [] (Or.inr ⟨rfl, rfl, rfl⟩) (by omega)
  simp only [List.append_nil, List.nil_append] at h
  simp [parseCharsD, h, mkAlt_branches p hc.1]

theorem Esc.inDialect_xsd (e : Esc) : e.inDialect .xsd = true := by cases e <;> rfl

theorem CClass.inDialect_xsd (cc : CClass) : CClass.inDialect .xsd cc = true := by
  have hs : Dialect.xsd.subtraction = true := rfl
  simp only [CClass.inDialect, hs, Bool.true_or, Bool.true_and, List.all_eq_true]
  intro g _ it _
  cases it <;> simp [CItem.inDialect, Esc.inDialect_xsd]

theorem Pat.inDialect_xsd (p : Pat) : p.inDialect .xsd = true := by
  induction p with
  | esc n e => exact Esc.inDialect_xsd e
  | cls cc => exact CClass.inDialect_xsd cc
  | rep a lo hi ih =>
    have hq : quantAllowed .xsd lo hi = true := rfl
    simp [Pat.inDialect, ih, hq]
  | _ => simp_all [Pat.inDialect]

/-! ## Part 2: every function consumes input; the fuel is never exhausted -/

theorem bind_eq_ok {α β : Type} {x : Except ReErr α} {k : α → Except ReErr β} {v : β} :
    (x >>= k) = .ok v ↔ ∃ a, x = .ok a ∧ k a = .ok v := by
  cases x <;> simp [bind, Except.bind]

theorem bind_eq_fuel {α β : Type} {x : Except ReErr α} {k : α → Except ReErr β} :
    (x >>= k) = .error .fuel ↔ x = .error .fuel ∨ ∃ a, x = .ok a ∧ k a = .error .fuel := by
  cases x <;> simp [bind, Except.bind]

theorem length_dropWhile_le {α} (p : α → Bool) (l : List α) : (l.dropWhile p).length ≤ l.length :=
  (List.dropWhile_sublist p).length_le

theorem parseProp_len {neg : Bool} {s r : List Char} {t : EscTok} (h : parseProp neg s = .ok (t, r)) :
    r.length < s.length := by
  unfold parseProp at h
  split at h
  · rename_i r0
    simp only [span_eq] at h
    split at h
    · rename_i r'' heq
      have := length_dropWhile_le isNameCh r0
      rw [heq] at this
      split at h <;> (split at h <;> simp at h) <;> (obtain ⟨_, rfl⟩ := h; simp at this ⊢; omega)
    · simp at h
  · simp at h

theorem parseHex_len {s r : List Char} {t : EscTok} (h : parseHex s = .ok (t, r)) : r.length < s.length := by
  unfold parseHex at h
  simp only [span_eq] at h
  split at h
  · rename_i r' heq
    have := length_dropWhile_le (fun c => (hexDigitVal c).isSome) s
    rw [heq] at this
    split at h <;> simp at h
    obtain ⟨_, rfl⟩ := h
    simp at this; omega
  · simp at h

theorem parseEscape0_len {s r : List Char} {t : EscTok} (h : parseEscape0 s = .ok (t, r)) : r.length < s.length := by
  unfold parseEscape0 at h
  split at h
  all_goals first
    | (simp at h; done)
    | (simp only [Except.ok.injEq, Prod.mk.injEq] at h; obtain ⟨_, rfl⟩ := h; simp; done)
    | (have := parseProp_len h; simp; omega)
    | (split at h <;> simp at h; obtain ⟨_, rfl⟩ := h; simp)

theorem parseEscape_len {d : Dialect} {s r : List Char} {t : EscTok} (h : parseEscape d s = .ok (t, r)) :
    r.length < s.length := by
  unfold parseEscape at h
  split at h
  · split at h
    · have := parseHex_len h; simp; omega
    · simp at h
  · split at h
    · rename_i t' r' heq
      split at h <;> simp at h
      obtain ⟨rfl, rfl⟩ := h
      exact parseEscape0_len heq
    · simp at h

theorem parseNat_len {s r : List Char} {n : Nat} (h : parseNat s = some (n, r)) : r.length ≤ s.length := by
  unfold parseNat at h
  simp only [span_eq] at h
  split at h <;> simp at h
  obtain ⟨_, rfl⟩ := h
  exact length_dropWhile_le _ _

theorem parseQuant0_len {s r : List Char} {q : Option (Nat × Option Nat)} (h : parseQuant0 s = .ok (q, r)) :
    r.length ≤ s.length := by
  unfold parseQuant0 at h
  split at h
  · simp at h; obtain ⟨_, rfl⟩ := h; simp
  · simp at h; obtain ⟨_, rfl⟩ := h; simp
  · simp at h; obtain ⟨_, rfl⟩ := h; simp
  · rename_i r0
    split at h
    · simp at h
    · rename_i n r1 hn
      have l1 := parseNat_len hn
      split at h
      · simp at h; obtain ⟨_, rfl⟩ := h; simp at l1 ⊢; omega
      · simp at h; obtain ⟨_, rfl⟩ := h; simp at l1 ⊢; omega
      · rename_i r2 _
        split at h
        · rename_i m r3 hm
          have l2 := parseNat_len hm
          split at h <;> simp at h
          obtain ⟨_, rfl⟩ := h; simp at l1 l2 ⊢; omega
        · simp at h
      · simp at h
  · simp at h; obtain ⟨_, rfl⟩ := h; simp

theorem parseQuant_len {d : Dialect} {s r : List Char} {q : Option (Nat × Option Nat)} (h : parseQuant d s = .ok (q, r)) :
    r.length ≤ s.length := by
  unfold parseQuant at h
  split at h
  · rename_i lo hi r' heq
    split at h <;> simp at h
    obtain ⟨_, rfl⟩ := h
    exact parseQuant0_len heq
  · exact parseQuant0_len h

theorem parseQuant_ne_fuel (d : Dialect) (s : List Char) : parseQuant d s ≠ .error .fuel := by
  unfold parseQuant
  split
  · split <;> simp
  · rename_i x hx
    unfold parseQuant0
    repeat' split
    all_goals simp

theorem parseEscape_ne_fuel (d : Dialect) (s : List Char) : parseEscape d s ≠ .error .fuel := by
  have h0 : ∀ neg s, parseProp neg s ≠ .error .fuel := by
    intro neg s; unfold parseProp; repeat' split
    all_goals simp
    all_goals split <;> simp
  have h1 : ∀ s, parseEscape0 s ≠ .error .fuel := by
    intro s; unfold parseEscape0; repeat' split
    all_goals first | simp; done | exact h0 _ _
  have h2 : ∀ s, parseHex s ≠ .error .fuel := by
    intro s; unfold parseHex; repeat' split
    all_goals first | (simp; done) | (dsimp only; split <;> simp)
  unfold parseEscape
  split
  · split
    · exact h2 _
    · simp
  · split
    · split <;> simp
    · rename_i e he
      intro h; simp at h; subst h; exact h1 _ he

theorem parseRangeHi_len {d : Dialect} {s r : List Char} {c : Char} (h : parseRangeHi d s = .ok (c, r)) :
    r.length < s.length := by
  unfold parseRangeHi at h
  split at h
  · simp at h
  · rw [bind_eq_ok] at h
    obtain ⟨⟨t, r'⟩, h1, h2⟩ := h
    have := parseEscape_len h1
    dsimp only at h2
    split at h2 <;> simp at h2
    obtain ⟨_, rfl⟩ := h2
    simp; omega
  · split at h <;> simp at h
    obtain ⟨_, rfl⟩ := h; simp

theorem parseRangeHi_ne_fuel (d : Dialect) (s : List Char) : parseRangeHi d s ≠ .error .fuel := by
  unfold parseRangeHi
  split
  · simp
  · rw [Ne, bind_eq_fuel]
    rintro (h | ⟨⟨t, r'⟩, h1, h2⟩)
    · exact parseEscape_ne_fuel _ _ h
    · dsimp only at h2
      split at h2 <;> simp at h2
  · split <;> simp

theorem parseRangeOrChar_len {d : Dialect} {lo : Char} {s r : List Char} {it : CItem}
    (h : parseRangeOrChar d lo s = .ok (it, r)) : r.length ≤ s.length := by
  unfold parseRangeOrChar at h
  split at h
  · simp at h; obtain ⟨_, rfl⟩ := h; simp
  · simp at h; obtain ⟨_, rfl⟩ := h; simp
  · rw [bind_eq_ok] at h
    obtain ⟨⟨hi, r3⟩, h1, h2⟩ := h
    have := parseRangeHi_len h1
    dsimp only at h2
    split at h2 <;> simp at h2
    obtain ⟨_, rfl⟩ := h2
    simp; omega
  · simp at h; obtain ⟨_, rfl⟩ := h; simp

theorem parseRangeOrChar_ne_fuel (d : Dialect) (lo : Char) (s : List Char) : parseRangeOrChar d lo s ≠ .error .fuel := by
  unfold parseRangeOrChar
  split
  · simp
  · simp
  · rw [Ne, bind_eq_fuel]
    rintro (h | ⟨⟨t, r'⟩, h1, h2⟩)
    · exact parseRangeHi_ne_fuel _ _ h
    · dsimp only at h2
      split at h2 <;> simp at h2
  · simp

theorem class_len (d : Dialect) : ∀ f : Nat,
    (∀ s cc r, parseClass d f s = .ok (cc, r) → r.length ≤ s.length) ∧
    (∀ neg acc s cc r, parseItems d f neg acc s = .ok (cc, r) → r.length ≤ s.length) := by
  intro f
  induction f with
  | zero => constructor <;> (intros; simp_all [parseClass, parseItems])
  | succ f ih =>
    constructor
    · intro s cc r h
      unfold parseClass at h
      split at h
      · have := ih.2 _ _ _ _ _ h; simp; omega
      · exact ih.2 _ _ _ _ _ h
    · intro neg acc s cc r h
      unfold parseItems at h
      split at h
      · simp at h
      · split at h <;> simp at h
        obtain ⟨_, rfl⟩ := h; simp
      · split at h
        · simp at h
        · split at h
          · simp at h
          · rw [bind_eq_ok] at h
            obtain ⟨⟨sub, r'⟩, h1, h2⟩ := h
            have := ih.1 _ _ _ h1
            dsimp only at h2
            split at h2 <;> simp at h2
            obtain ⟨_, rfl⟩ := h2
            simp at this ⊢; omega
      · simp at h
      · rw [bind_eq_ok] at h
        obtain ⟨⟨t, r'⟩, h1, h2⟩ := h
        have l1 := parseEscape_len h1
        dsimp only at h2
        split at h2
        · have := ih.2 _ _ _ _ _ h2; simp; omega
        · rw [bind_eq_ok] at h2
          obtain ⟨⟨it, r''⟩, h3, h4⟩ := h2
          have l2 := parseRangeOrChar_len h3
          have := ih.2 _ _ _ _ _ h4
          simp at this ⊢; omega
      · split at h
        · have := ih.2 _ _ _ _ _ h; simp at this ⊢; omega
        · split at h
          · have := ih.2 _ _ _ _ _ h; simp at this ⊢; omega
          · simp at h
      · rw [bind_eq_ok] at h
        obtain ⟨⟨it, r'⟩, h3, h4⟩ := h
        have l2 := parseRangeOrChar_len h3
        have := ih.2 _ _ _ _ _ h4
        simp at this ⊢; omega

theorem class_ne_fuel (d : Dialect) : ∀ f : Nat,
    (∀ s, 2 * s.length + 2 ≤ f → parseClass d f s ≠ .error .fuel) ∧
    (∀ neg acc s, 2 * s.length + 1 ≤ f → parseItems d f neg acc s ≠ .error .fuel) := by
  intro f
  induction f with
  | zero => constructor <;> (intros; omega)
  | succ f ih =>
    constructor
    · intro s hf
      unfold parseClass
      split
      · exact ih.2 _ _ _ (by simp at hf ⊢; omega)
      · exact ih.2 _ _ _ (by omega)
    · intro neg acc s hf
      unfold parseItems
      split
      · simp
      · split <;> simp
      · split
        · simp
        · split
          · simp
          · rw [Ne, bind_eq_fuel]
            rintro (h | ⟨⟨sub, r'⟩, h1, h2⟩)
            · exact ih.1 _ (by simp at hf ⊢; omega) h
            · dsimp only at h2
              split at h2 <;> simp at h2
      · simp
      · rw [Ne, bind_eq_fuel]
        rintro (h | ⟨⟨t, r'⟩, h1, h2⟩)
        · exact parseEscape_ne_fuel _ _ h
        · have l1 := parseEscape_len h1
          dsimp only at h2
          split at h2
          · exact ih.2 _ _ _ (by simp at hf ⊢; omega) h2
          · rw [bind_eq_fuel] at h2
            rcases h2 with h | ⟨⟨it, r''⟩, h3, h4⟩
            · exact parseRangeOrChar_ne_fuel _ _ _ h
            · have l2 := parseRangeOrChar_len h3
              exact ih.2 _ _ _ (by simp at hf l1 l2 ⊢; omega) h4
      · split
        · exact ih.2 _ _ _ (by simp at hf ⊢; omega)
        · split
          · exact ih.2 _ _ _ (by simp at hf ⊢; omega)
          · simp
      · rw [Ne, bind_eq_fuel]
        rintro (h | ⟨⟨it, r''⟩, h3, h4⟩)
        · exact parseRangeOrChar_ne_fuel _ _ _ h
        · have l2 := parseRangeOrChar_len h3
          exact ih.2 _ _ _ (by simp at hf l2 ⊢; omega) h4

theorem seq_len (d : Dialect) : ∀ f : Nat,
    (∀ g alts cur s p r, parseSeq d f g alts cur s = .ok (p, r) → r.length ≤ s.length) ∧
    (∀ s a r, parseAtom d f s = .ok (a, r) → r.length < s.length) := by
  intro f
  induction f with
  | zero => constructor <;> (intros; simp_all [parseSeq, parseAtom])
  | succ f ih =>
    constructor
    · intro g alts cur s p r h
      unfold parseSeq at h
      split at h
      · split at h <;> simp at h
        obtain ⟨_, rfl⟩ := h; simp
      · split at h <;> simp at h
        obtain ⟨_, rfl⟩ := h; simp
      · have := ih.1 _ _ _ _ _ _ h; simp; omega
      · rw [bind_eq_ok] at h
        obtain ⟨⟨a, r1⟩, h1, h2⟩ := h
        dsimp only at h2
        rw [bind_eq_ok] at h2
        obtain ⟨⟨q, r2⟩, h3, h4⟩ := h2
        have l1 := ih.2 _ _ _ h1
        have l2 := parseQuant_len h3
        have l3 := ih.1 _ _ _ _ _ _ h4
        dsimp only at l3
        omega
    · intro s a r h
      unfold parseAtom at h
      split at h
      · simp at h
      · rw [bind_eq_ok] at h
        obtain ⟨⟨p, r'⟩, h1, h2⟩ := h
        have l1 := ih.1 _ _ _ _ _ _ h1
        simp at h2
        obtain ⟨_, rfl⟩ := h2
        simp; omega
      · rw [bind_eq_ok] at h
        obtain ⟨⟨cc, r'⟩, h1, h2⟩ := h
        have l1 := (class_len d f).1 _ _ _ h1
        simp at h2
        obtain ⟨_, rfl⟩ := h2
        simp; omega
      · simp at h; obtain ⟨_, rfl⟩ := h; simp
      · rw [bind_eq_ok] at h
        obtain ⟨⟨t, r'⟩, h1, h2⟩ := h
        have l1 := parseEscape_len h1
        dsimp only at h2
        split at h2 <;> simp at h2 <;> (obtain ⟨_, rfl⟩ := h2; simp; omega)
      · split at h
        · simp at h
        · split at h <;> simp at h
          obtain ⟨_, rfl⟩ := h; simp

theorem seq_ne_fuel (d : Dialect) : ∀ f : Nat,
    (∀ g alts cur s, 2 * s.length + 2 ≤ f → parseSeq d f g alts cur s ≠ .error .fuel) ∧
    (∀ s, 2 * s.length + 1 ≤ f → parseAtom d f s ≠ .error .fuel) := by
  intro f
  induction f with
  | zero => constructor <;> (intros; omega)
  | succ f ih =>
    constructor
    · intro g alts cur s hf
      unfold parseSeq
      split
      · split <;> simp
      · split <;> simp
      · exact ih.1 _ _ _ _ (by simp at hf ⊢; omega)
      · rw [Ne, bind_eq_fuel]
        rintro (h | ⟨⟨a, r1⟩, h1, h2⟩)
        · exact ih.2 _ (by omega) h
        · dsimp only at h2
          rw [bind_eq_fuel] at h2
          rcases h2 with h | ⟨⟨q, r2⟩, h3, h4⟩
          · exact parseQuant_ne_fuel _ _ h
          · have l1 := (seq_len d f).2 _ _ _ h1
            have l2 := parseQuant_len h3
            exact ih.1 _ _ _ _ (by dsimp only; omega) h4
    · intro s hf
      unfold parseAtom
      split
      · simp
      · rw [Ne, bind_eq_fuel]
        rintro (h | ⟨⟨p, r'⟩, h1, h2⟩)
        · exact ih.1 _ _ _ _ (by simp at hf ⊢; omega) h
        · simp at h2
      · rw [Ne, bind_eq_fuel]
        rintro (h | ⟨⟨cc, r'⟩, h1, h2⟩)
        · exact (class_ne_fuel d f).1 _ (by simp at hf ⊢; omega) h
        · simp at h2
      · simp
      · rw [Ne, bind_eq_fuel]
        rintro (h | ⟨⟨t, r'⟩, h1, h2⟩)
        · exact parseEscape_ne_fuel _ _ h
        · dsimp only at h2
          split at h2 <;> simp at h2
      · split
        · simp
        · split <;> simp

/-- the fuel of `parseCharsD` is never exhausted -/
theorem parseCharsD_ne_fuel (d : Dialect) (cs : List Char) : parseCharsD d cs ≠ .error .fuel := by
  unfold parseCharsD
  split
  · simp
  · rename_i e he
    intro h
    simp at h
    subst h
    exact (seq_ne_fuel d _).1 _ _ _ _ (by omega) he

/-! ## Part 3: the parser builds canonical trees only -/

theorem parseProp_wf {neg n : Bool} {s r : List Char} {e : Esc} (h : parseProp neg s = .ok (.cls n e, r)) : e.wf = true := by
  unfold parseProp at h
  split at h
  · rename_i r0
    simp only [span_eq] at h
    have hall : ∀ x ∈ r0.takeWhile isNameCh, isNameCh x = true := by
      have := @List.all_takeWhile _ isNameCh r0
      exact List.all_eq_true.mp this
    split at h
    · rename_i r'' heq
      split at h
      · rename_i b hb
        split at h <;> simp at h
        rename_i hbl
        obtain ⟨⟨_, rfl⟩, _⟩ := h
        simp only [Esc.wf, hbl, String.toList_ofList, Bool.true_and, List.all_eq_true]
        intro x hx
        exact hall x (by rw [hb]; simp [hx])
      · rename_i hnot
        split at h <;> simp at h
        rename_i hc
        obtain ⟨⟨_, rfl⟩, _⟩ := h
        simp only [Esc.wf, String.toList_ofList, Bool.and_eq_true, List.all_eq_true]
        refine ⟨⟨by simpa using hc, hall⟩, ?_⟩
        first
          | trivial
          | (split
             · rename_i t ht; exact absurd ht (hnot t)
             · rfl)
    · simp at h
  · simp at h

theorem parseEscape0_wf {n : Bool} {s r : List Char} {e : Esc} (h : parseEscape0 s = .ok (.cls n e, r)) : e.wf = true := by
  unfold parseEscape0 at h
  split at h
  all_goals first
    | (simp at h; done)
    | (simp only [Except.ok.injEq, Prod.mk.injEq, EscTok.cls.injEq] at h; obtain ⟨⟨_, rfl⟩, _⟩ := h; rfl)
    | exact parseProp_wf h
    | (split at h <;> simp at h)

theorem parseHex_lit {s r : List Char} {t : EscTok} (h : parseHex s = .ok (t, r)) : ∃ c, t = .lit c := by
  unfold parseHex at h
  simp only [span_eq] at h
  split at h
  · split at h <;> simp at h
    exact ⟨_, h.1.symm⟩
  · simp at h

theorem parseEscape_wf {d : Dialect} {n : Bool} {s r : List Char} {e : Esc} (h : parseEscape d s = .ok (.cls n e, r)) :
    e.wf = true := by
  unfold parseEscape at h
  split at h
  · split at h
    · obtain ⟨c, hc⟩ := parseHex_lit h; simp at hc
    · simp at h
  · split at h
    · rename_i t' r' heq
      split at h <;> simp at h
      obtain ⟨rfl, rfl⟩ := h
      exact parseEscape0_wf heq
    · simp at h

theorem parseRangeOrChar_wf {d : Dialect} {lo : Char} {s r : List Char} {it : CItem}
    (h : parseRangeOrChar d lo s = .ok (it, r)) : it.wf = true := by
  unfold parseRangeOrChar at h
  split at h
  · simp at h; obtain ⟨rfl, _⟩ := h; rfl
  · simp at h; obtain ⟨rfl, _⟩ := h; rfl
  · rw [bind_eq_ok] at h
    obtain ⟨⟨hi, r3⟩, h1, h2⟩ := h
    dsimp only at h2
    split at h2 <;> simp at h2
    rename_i hle
    obtain ⟨rfl, _⟩ := h2
    simpa [CItem.wf] using hle
  · simp at h; obtain ⟨rfl, _⟩ := h; rfl

theorem class_wf (d : Dialect) : ∀ f : Nat,
    (∀ s cc r, parseClass d f s = .ok (cc, r) → CClass.wf cc = true) ∧
    (∀ neg acc s cc r, parseItems d f neg acc s = .ok (cc, r) → acc.all CItem.wf = true → CClass.wf cc = true) := by
  intro f
  induction f with
  | zero => constructor <;> (intros; simp_all [parseClass, parseItems])
  | succ f ih =>
    constructor
    · intro s cc r h
      unfold parseClass at h
      split at h
      · exact ih.2 _ _ _ _ _ h rfl
      · exact ih.2 _ _ _ _ _ h rfl
    · intro neg acc s cc r h hacc
      unfold parseItems at h
      split at h
      · simp at h
      · split at h <;> simp at h
        rename_i hne
        obtain ⟨rfl, _⟩ := h
        simp [CClass.wf, CGroup.wf, hne, hacc]
        try simpa [List.all_eq_true] using hacc
      · split at h
        · simp at h
        · split at h
          · simp at h
          · rename_i hne
            rw [bind_eq_ok] at h
            obtain ⟨⟨sub, r'⟩, h1, h2⟩ := h
            have hs := ih.1 _ _ _ h1
            dsimp only at h2
            split at h2 <;> simp at h2
            obtain ⟨rfl, _⟩ := h2
            simp only [CClass.wf, Bool.and_eq_true] at hs
            simp [CClass.wf, CGroup.wf, hne, hs.2]
            try simpa [List.all_eq_true] using hacc
      · simp at h
      · rw [bind_eq_ok] at h
        obtain ⟨⟨t, r'⟩, h1, h2⟩ := h
        dsimp only at h2
        split at h2
        · have := parseEscape_wf h1
          exact ih.2 _ _ _ _ _ h2 (by simp [List.all_append, hacc, CItem.wf, this])
        · rw [bind_eq_ok] at h2
          obtain ⟨⟨it, r''⟩, h3, h4⟩ := h2
          have := parseRangeOrChar_wf h3
          exact ih.2 _ _ _ _ _ h4 (by simp [List.all_append, hacc, this])
      · split at h
        · exact ih.2 _ _ _ _ _ h (by simp [List.all_append, hacc, CItem.wf])
        · split at h
          · exact ih.2 _ _ _ _ _ h (by simp [CItem.wf])
          · simp at h
      · rw [bind_eq_ok] at h
        obtain ⟨⟨it, r''⟩, h3, h4⟩ := h
        have := parseRangeOrChar_wf h3
        exact ih.2 _ _ _ _ _ h4 (by simp [List.all_append, hacc, this])

def PieceG (p : Pat) : Prop := p.isPiece = true ∧ p.wf = true
def BranchG (p : Pat) : Prop := p.isBranch = true ∧ p.wf = true

theorem isRe_of_isBranch {p : Pat} (h : p.isBranch = true) : p.isRe = true := by
  cases p <;> simp_all [Pat.isRe, Pat.isBranch, Pat.isBranch1, Pat.isPiece, Pat.isAtom]

theorem mkCat_good1 : ∀ (l : List Pat), l ≠ [] → (∀ p ∈ l, PieceG p) → (mkCat l).isBranch1 = true ∧ (mkCat l).wf = true
  | [], h, _ => absurd rfl h
  | [p], _, hl => by
    have := hl p (by simp)
    exact ⟨isBranch1_of_isPiece this.1, this.2⟩
  | p :: q :: t, _, hl => by
    have hp := hl p (by simp)
    have ih := mkCat_good1 (q :: t) (by simp) (fun x hx => hl x (by simp [hx]))
    simp only [mkCat, Pat.isBranch1, Pat.wf, Bool.and_eq_true]
    exact ⟨⟨hp.1, ih.1⟩, hp.2, ih.2⟩

theorem mkCat_good (l : List Pat) (hl : ∀ p ∈ l, PieceG p) : BranchG (mkCat l) := by
  cases l with
  | nil => exact ⟨rfl, rfl⟩
  | cons p t =>
    have := mkCat_good1 (p :: t) (by simp) hl
    exact ⟨isBranch_of_isBranch1 this.1, this.2⟩

theorem mkAlt_good : ∀ (l : List Pat), (∀ p ∈ l, BranchG p) → (mkAlt l).isRe = true ∧ (mkAlt l).wf = true
  | [], _ => ⟨rfl, rfl⟩
  | [p], hl => by
    have := hl p (by simp)
    exact ⟨isRe_of_isBranch this.1, this.2⟩
  | p :: q :: t, hl => by
    have hp := hl p (by simp)
    have ih := mkAlt_good (q :: t) (fun x hx => hl x (by simp [hx]))
    simp only [mkAlt, Pat.isRe, Pat.wf, Bool.and_eq_true]
    exact ⟨⟨hp.1, ih.1⟩, hp.2, ih.2⟩

theorem mkAlt_snoc_good (alts cur : List Pat) (ha : ∀ x ∈ alts, BranchG x) (hc : ∀ x ∈ cur, PieceG x) :
    (mkAlt (alts ++ [mkCat cur])).isRe = true ∧ (mkAlt (alts ++ [mkCat cur])).wf = true := by
  apply mkAlt_good
  intro p hp
  simp only [List.mem_append, List.mem_singleton] at hp
  rcases hp with hp | rfl
  · exact ha p hp
  · exact mkCat_good cur hc

theorem parseQuant0_hiOk {s r : List Char} {lo : Nat} {hi : Option Nat} (h : parseQuant0 s = .ok (some (lo, hi), r)) :
    Regex.hiOk lo hi = true := by
  unfold parseQuant0 at h
  split at h
  · simp at h; obtain ⟨⟨rfl, rfl⟩, _⟩ := h; rfl
  · simp at h; obtain ⟨⟨rfl, rfl⟩, _⟩ := h; rfl
  · simp at h; obtain ⟨⟨rfl, rfl⟩, _⟩ := h; rfl
  · split at h
    · simp at h
    · split at h
      · simp at h; obtain ⟨⟨rfl, rfl⟩, _⟩ := h; simp [Regex.hiOk]
      · simp at h; obtain ⟨⟨rfl, rfl⟩, _⟩ := h; rfl
      · split at h
        · split at h <;> simp at h
          rename_i hle
          obtain ⟨⟨rfl, rfl⟩, _⟩ := h; simpa [Regex.hiOk] using hle
        · simp at h
      · simp at h
  · simp at h

theorem parseQuant_hiOk {d : Dialect} {s r : List Char} {lo : Nat} {hi : Option Nat}
    (h : parseQuant d s = .ok (some (lo, hi), r)) : Regex.hiOk lo hi = true := by
  unfold parseQuant at h
  split at h
  · rename_i lo' hi' r' heq
    split at h <;> simp at h
    obtain ⟨⟨rfl, rfl⟩, _⟩ := h
    exact parseQuant0_hiOk heq
  · exact parseQuant0_hiOk h

theorem seq_canon (d : Dialect) : ∀ f : Nat,
    (∀ g alts cur s p r, parseSeq d f g alts cur s = .ok (p, r) → (∀ x ∈ alts, BranchG x) → (∀ x ∈ cur, PieceG x) →
      p.isRe = true ∧ p.wf = true) ∧
    (∀ s a r, parseAtom d f s = .ok (a, r) → a.isAtom = true ∧ a.wf = true) := by
  intro f
  induction f with
  | zero => constructor <;> (intros; simp_all [parseSeq, parseAtom])
  | succ f ih =>
    constructor
    · intro g alts cur s p r h ha hc
      unfold parseSeq at h
      split at h
      · split at h <;> simp at h
        obtain ⟨rfl, _⟩ := h
        exact mkAlt_snoc_good alts cur ha hc
      · split at h <;> simp at h
        obtain ⟨rfl, _⟩ := h
        exact mkAlt_snoc_good alts cur ha hc
      · refine ih.1 _ _ _ _ _ _ h ?_ (by simp)
        intro x hx
        simp only [List.mem_append, List.mem_singleton] at hx
        rcases hx with hx | rfl
        · exact ha x hx
        · exact mkCat_good cur hc
      · rw [bind_eq_ok] at h
        obtain ⟨⟨a, r1⟩, h1, h2⟩ := h
        dsimp only at h2
        rw [bind_eq_ok] at h2
        obtain ⟨⟨q, r2⟩, h3, h4⟩ := h2
        have ga := ih.2 _ _ _ h1
        refine ih.1 _ _ _ _ _ _ h4 ha ?_
        intro x hx
        simp only [List.mem_append, List.mem_singleton] at hx
        rcases hx with hx | rfl
        · exact hc x hx
        · cases q with
          | none => exact ⟨isPiece_of_isAtom ga.1, ga.2⟩
          | some lh =>
            obtain ⟨lo, hi⟩ := lh
            have := parseQuant_hiOk h3
            exact ⟨by simpa [Pat.isPiece] using ga.1, by simp [Pat.wf, ga.2, this]⟩
    · intro s a r h
      unfold parseAtom at h
      split at h
      · simp at h
      · rw [bind_eq_ok] at h
        obtain ⟨⟨p, r'⟩, h1, h2⟩ := h
        have := ih.1 _ _ _ _ _ _ h1 (by simp) (by simp)
        simp at h2
        obtain ⟨rfl, _⟩ := h2
        simp [Pat.isAtom, Pat.wf, this.1, this.2]
      · rw [bind_eq_ok] at h
        obtain ⟨⟨cc, r'⟩, h1, h2⟩ := h
        have := (class_wf d f).1 _ _ _ h1
        simp at h2
        obtain ⟨rfl, _⟩ := h2
        simp [Pat.isAtom, Pat.wf, this]
      · simp at h; obtain ⟨rfl, _⟩ := h; exact ⟨rfl, rfl⟩
      · rw [bind_eq_ok] at h
        obtain ⟨⟨t, r'⟩, h1, h2⟩ := h
        dsimp only at h2
        split at h2 <;> simp at h2
        · obtain ⟨rfl, _⟩ := h2; exact ⟨rfl, rfl⟩
        · obtain ⟨rfl, _⟩ := h2
          exact ⟨rfl, by simpa [Pat.wf] using parseEscape_wf h1⟩
      · split at h
        · simp at h
        · split at h <;> simp at h
          obtain ⟨rfl, _⟩ := h; exact ⟨rfl, rfl⟩

/-- the parser builds trees of the grammar only -/
theorem parseCharsD_canon (d : Dialect) (cs : List Char) (p : Pat) (h : parseCharsD d cs = .ok p) : p.Canon = true := by
  unfold parseCharsD at h
  split at h
  · rename_i p' r heq
    simp at h
    subst h
    have := (seq_canon d _).1 _ _ _ _ _ _ heq (by simp) (by simp)
    simp [Pat.Canon, this.1, this.2]
  · simp at h

/-! ### checking concrete parses in the kernel -/

/-- `x = .ok p` for canonical `p`, decided by evaluation: the result is canonical and has the canonical text of `p`
    (no `DecidableEq Pat` needed: the printer is injective on canonical trees) -/
def parsesTo (x : Except ReErr Pat) (p : Pat) : Bool :=
  match x with
  | .ok q => decide (renderXsd q = renderXsd p) && q.Canon && p.Canon
  | .error _ => false

theorem eq_ok_of_parsesTo {x : Except ReErr Pat} {p : Pat} (h : parsesTo x p = true) : x = .ok p := by
  cases x with
  | error e => simp [parsesTo] at h
  | ok q =>
    simp only [parsesTo, Bool.and_eq_true, decide_eq_true_eq] at h
    obtain ⟨⟨h1, h2⟩, h3⟩ := h
    have a := parseCharsD_render .xsd q h2 (Pat.inDialect_xsd q)
    have b := parseCharsD_render .xsd p h3 (Pat.inDialect_xsd p)
    unfold renderXsd at h1
    rw [h1, b] at a
    rw [Except.ok.inj a]

/-! ## Part 4: what is left of the input is a suffix of it -/

/-- closes `r <:+ c₁ :: … :: r` -/
macro "sfx" : tactic => `(tactic| first
  | exact List.suffix_refl _
  | exact List.suffix_cons _ _
  | exact (List.suffix_cons _ _).trans (List.suffix_cons _ _)
  | exact ((List.suffix_cons _ _).trans (List.suffix_cons _ _)).trans (List.suffix_cons _ _))

theorem sfx_cons {r s : List Char} (c : Char) (h : r <:+ s) : r <:+ c :: s := h.trans (List.suffix_cons _ _)
theorem sfx_of_cons {r s : List Char} {c : Char} (h : c :: r <:+ s) : r <:+ s := (List.suffix_cons _ _).trans h

theorem parseProp_sfx {neg : Bool} {s r : List Char} {t : EscTok} (h : parseProp neg s = .ok (t, r)) : r <:+ s := by
  unfold parseProp at h
  split at h
  · rename_i r0
    simp only [span_eq] at h
    split at h
    · rename_i r'' heq
      have := List.dropWhile_suffix (l := r0) isNameCh
      rw [heq] at this
      split at h <;> (split at h <;> simp at h) <;> (obtain ⟨_, rfl⟩ := h; exact sfx_cons _ (sfx_of_cons this))
    · simp at h
  · simp at h

theorem parseHex_sfx {s r : List Char} {t : EscTok} (h : parseHex s = .ok (t, r)) : r <:+ s := by
  unfold parseHex at h
  simp only [span_eq] at h
  split at h
  · rename_i r' heq
    have := List.dropWhile_suffix (l := s) (fun c => (hexDigitVal c).isSome)
    rw [heq] at this
    split at h <;> simp at h
    obtain ⟨_, rfl⟩ := h
    exact sfx_of_cons this
  · simp at h

theorem parseEscape0_sfx {s r : List Char} {t : EscTok} (h : parseEscape0 s = .ok (t, r)) : r <:+ s := by
  unfold parseEscape0 at h
  split at h
  all_goals first
    | (simp at h; done)
    | (simp only [Except.ok.injEq, Prod.mk.injEq] at h; obtain ⟨_, rfl⟩ := h; sfx)
    | exact sfx_cons _ (parseProp_sfx h)
    | (split at h <;> simp at h; obtain ⟨_, rfl⟩ := h; sfx)

theorem parseEscape_sfx {d : Dialect} {s r : List Char} {t : EscTok} (h : parseEscape d s = .ok (t, r)) : r <:+ s := by
  unfold parseEscape at h
  split at h
  · split at h
    · exact sfx_cons _ (sfx_cons _ (parseHex_sfx h))
    · simp at h
  · split at h
    · rename_i t' r' heq
      split at h <;> simp at h
      obtain ⟨rfl, rfl⟩ := h
      exact parseEscape0_sfx heq
    · simp at h

theorem parseRangeHi_sfx {d : Dialect} {s r : List Char} {c : Char} (h : parseRangeHi d s = .ok (c, r)) : r <:+ s := by
  unfold parseRangeHi at h
  split at h
  · simp at h
  · rw [bind_eq_ok] at h
    obtain ⟨⟨t, r'⟩, h1, h2⟩ := h
    have := parseEscape_sfx h1
    dsimp only at h2
    split at h2 <;> simp at h2
    obtain ⟨_, rfl⟩ := h2
    exact sfx_cons _ this
  · split at h <;> simp at h
    obtain ⟨_, rfl⟩ := h; sfx

theorem parseRangeOrChar_sfx {d : Dialect} {lo : Char} {s r : List Char} {it : CItem}
    (h : parseRangeOrChar d lo s = .ok (it, r)) : r <:+ s := by
  unfold parseRangeOrChar at h
  split at h
  · simp at h; obtain ⟨_, rfl⟩ := h; sfx
  · simp at h; obtain ⟨_, rfl⟩ := h; sfx
  · rw [bind_eq_ok] at h
    obtain ⟨⟨hi, r3⟩, h1, h2⟩ := h
    have := parseRangeHi_sfx h1
    dsimp only at h2
    split at h2 <;> simp at h2
    obtain ⟨_, rfl⟩ := h2
    exact sfx_cons _ this
  · simp at h; obtain ⟨_, rfl⟩ := h; sfx

theorem class_sfx (d : Dialect) : ∀ f : Nat,
    (∀ s cc r, parseClass d f s = .ok (cc, r) → r <:+ s) ∧
    (∀ neg acc s cc r, parseItems d f neg acc s = .ok (cc, r) → r <:+ s) := by
  intro f
  induction f with
  | zero => constructor <;> (intros; simp_all [parseClass, parseItems])
  | succ f ih =>
    constructor
    · intro s cc r h
      unfold parseClass at h
      split at h
      · exact sfx_cons _ (ih.2 _ _ _ _ _ h)
      · exact ih.2 _ _ _ _ _ h
    · intro neg acc s cc r h
      unfold parseItems at h
      split at h
      · simp at h
      · split at h <;> simp at h
        obtain ⟨_, rfl⟩ := h; sfx
      · split at h
        · simp at h
        · split at h
          · simp at h
          · rw [bind_eq_ok] at h
            obtain ⟨⟨sub, r'⟩, h1, h2⟩ := h
            have := ih.1 _ _ _ h1
            dsimp only at h2
            split at h2 <;> simp at h2
            obtain ⟨_, rfl⟩ := h2
            exact sfx_cons _ (sfx_cons _ (sfx_of_cons this))
      · simp at h
      · rw [bind_eq_ok] at h
        obtain ⟨⟨t, r'⟩, h1, h2⟩ := h
        have l1 := parseEscape_sfx h1
        dsimp only at h2
        split at h2
        · exact sfx_cons _ ((ih.2 _ _ _ _ _ h2).trans l1)
        · rw [bind_eq_ok] at h2
          obtain ⟨⟨it, r''⟩, h3, h4⟩ := h2
          have l2 := parseRangeOrChar_sfx h3
          exact sfx_cons _ (((ih.2 _ _ _ _ _ h4).trans l2).trans l1)
      · split at h
        · exact sfx_cons _ (ih.2 _ _ _ _ _ h)
        · split at h
          · exact sfx_cons _ (ih.2 _ _ _ _ _ h)
          · simp at h
      · rw [bind_eq_ok] at h
        obtain ⟨⟨it, r'⟩, h3, h4⟩ := h
        have l2 := parseRangeOrChar_sfx h3
        exact sfx_cons _ ((ih.2 _ _ _ _ _ h4).trans l2)

end LyModel.XsdRe
