import LyModel.XsdRe.Sem
/-!
# The rewriter on canonical texts (core Lean only)

For a tree `p` with `p.wf`, `p.inDialect .pcre`:
* `escapeLoop_render` (R1): pass 1 maps `utf8 (p.render .xsd)` to `utf8 (p.render .pcre)`, for every `fx`
  (character level: `Steps.pat`, `escapeLoopC_render`; bridge to bytes: `escapeLoop_utf8`);
* `needle_free` / `chblocks_render` (R2): with `p.noClsBrace` the PCRE text does not contain `\p{Is`, pass 2 is the identity
  (character level: `braceOk_pat`, `needleC_free`; bridge: `findSub_utf8_none`);
* `cstr_utf8` / `render_noNul` / `cstr_render` (R3): with `p.noNul` the text is a whole C string;
* `rewrite_render` (R4), `rewrite_render_of_needle_free` (R4 with `findSub needle … = none` as hypothesis);
* `rewrite_render_fails_cls_brace`: (R4) is false without a side condition — `[\\p{IsBasicLatin}]`;
* `decodeUtf8_utf8` (R5), `utf8_eq_bytesOfString`.
UTF-8 facts used: `enc_ascii`, `enc_high` (a character below 128 is one byte, every byte of any other character is ≥ 128).
-/
namespace LyModel.XsdRe

theorem metaChars_eq : metaChars = ['\\', '|', '.', '?', '*', '+', '(', ')', '{', '}', '[', ']'] := by rfl
theorem clsMetaChars_eq : clsMetaChars = ['\\', '[', ']', '-', '^'] := by rfl

/-! ### `Except.map` -/

theorem exMap_map {α : Type} (x : Except RwErr α) (f g : α → α) : (x.map f).map g = x.map (fun o => g (f o)) := by
  cases x <;> rfl

theorem exMap_id {α : Type} (x : Except RwErr α) : x.map (fun o => o) = x := by
  cases x <;> rfl

/-! ### chunks -/

/-- reading `chunk` in state `(b, e)` writes `out` and leaves the loop in state `(b', e')` -/
def Steps (fx : Fixes) (b : Nat) (e : Bool) (chunk out : List Char) (b' : Nat) (e' : Bool) : Prop :=
  ∀ rest, escapeLoopC fx b e (chunk ++ rest) = (escapeLoopC fx b' e' rest).map (out ++ ·)

theorem Steps.nil (fx : Fixes) (b : Nat) (e : Bool) : Steps fx b e [] [] b e := by
  intro rest
  simp only [List.nil_append]
  exact (exMap_id _).symm

theorem Steps.append {fx : Fixes} {b b1 b2 : Nat} {e e1 e2 : Bool} {c1 o1 c2 o2 : List Char}
    (h1 : Steps fx b e c1 o1 b1 e1) (h2 : Steps fx b1 e1 c2 o2 b2 e2) : Steps fx b e (c1 ++ c2) (o1 ++ o2) b2 e2 := by
  intro rest
  rw [List.append_assoc, h1, h2, exMap_map]
  simp only [List.append_assoc]

/-- a character that pass 1 just copies -/
def isPlain (c : Char) : Bool := c != '\\' && c != '$' && c != '^' && c != '[' && c != ']'

theorem isPlain_iff (c : Char) : isPlain c = true ↔ c ≠ '\\' ∧ c ≠ '$' ∧ c ≠ '^' ∧ c ≠ '[' ∧ c ≠ ']' := by
  simp [isPlain, and_assoc]

theorem Steps.plain (fx : Fixes) (b : Nat) (e : Bool) (c : Char) (h : isPlain c = true) : Steps fx b e [c] [c] b false := by
  intro rest
  obtain ⟨h1, h2, h3, h4, h5⟩ := (isPlain_iff c).1 h
  simp [escapeLoopC, h1, h2, h3, h4, h5]

theorem Steps.plains (fx : Fixes) (b : Nat) : ∀ (cs : List Char), (∀ c ∈ cs, isPlain c = true) → Steps fx b false cs cs b false
  | [], _ => Steps.nil fx b false
  | c :: cs, h => by
    have h1 := Steps.plain fx b false c (h c (by simp))
    have h2 := Steps.plains fx b cs (fun x hx => h x (by simp [hx]))
    exact Steps.append h1 h2

/-- `\c` where `c` is not an anchor, or inside a class -/
theorem Steps.escaped (fx : Fixes) (b : Nat) (c : Char) (h : (c ≠ '^' ∧ c ≠ '$') ∨ b ≠ 0) :
    Steps fx b false ['\\', c] ['\\', c] b false := by
  intro rest
  by_cases h1 : c = '\\'
  · subst h1; simp [escapeLoopC, exMap_map]
  by_cases h2 : c = '$'
  · subst h2
    have hb : b ≠ 0 := by rcases h with h | h; exact absurd rfl h.2; exact h
    simp [escapeLoopC, hb, exMap_map]
  by_cases h3 : c = '^'
  · subst h3
    have hb : b ≠ 0 := by rcases h with h | h; exact absurd rfl h.1; exact h
    simp [escapeLoopC, hb, exMap_map]
  by_cases h4 : c = '['
  · subst h4; simp [escapeLoopC, exMap_map]
  by_cases h5 : c = ']'
  · subst h5; simp [escapeLoopC, exMap_map]
  simp [escapeLoopC, h1, h2, h3, h4, h5, exMap_map]

/-- a raw anchor at depth 0 gets its backslash -/
theorem Steps.anchor (fx : Fixes) (c : Char) (h : c = '^' ∨ c = '$') : Steps fx 0 false [c] ['\\', c] 0 false := by
  intro rest
  rcases h with h | h <;> subst h <;> simp [escapeLoopC]

theorem Steps.open_ (fx : Fixes) (b : Nat) : Steps fx b false ['['] ['['] (b + 1) false := by
  intro rest; simp [escapeLoopC]

theorem Steps.close (fx : Fixes) (b : Nat) : Steps fx (b + 1) false [']'] [']'] b false := by
  intro rest; simp [escapeLoopC]

/-- inside a class an anchor is copied -/
theorem Steps.clsAnchor (fx : Fixes) (b : Nat) (c : Char) (h : c = '^' ∨ c = '$') : Steps fx (b + 1) false [c] [c] (b + 1) false := by
  intro rest
  rcases h with h | h <;> subst h <;> simp [escapeLoopC]

/-! ### the pieces of the printer -/

theorem isNameCh_plain (c : Char) (h : isNameCh c = true) : isPlain c = true := by
  rw [isPlain_iff]
  refine ⟨?_, ?_, ?_, ?_, ?_⟩ <;> (intro hc; subst hc; revert h; decide)

theorem natDigits_plain : ∀ (n : Nat), ∀ c ∈ natDigits n, c.isDigit = true := by
  intro n
  induction n using Nat.strongRecOn with
  | _ n ih =>
    intro c hc
    rw [natDigits] at hc
    split at hc
    · rename_i hlt
      simp only [List.mem_singleton] at hc
      subst hc
      have : n = 0 ∨ n = 1 ∨ n = 2 ∨ n = 3 ∨ n = 4 ∨ n = 5 ∨ n = 6 ∨ n = 7 ∨ n = 8 ∨ n = 9 := by omega
      rcases this with h | h | h | h | h | h | h | h | h | h <;> subst h <;> decide
    · rename_i hge
      rcases List.mem_append.1 hc with h | h
      · exact ih (n / 10) (by omega) c h
      · simp only [List.mem_singleton] at h
        subst h
        have : n % 10 = 0 ∨ n % 10 = 1 ∨ n % 10 = 2 ∨ n % 10 = 3 ∨ n % 10 = 4 ∨ n % 10 = 5 ∨ n % 10 = 6 ∨ n % 10 = 7 ∨
            n % 10 = 8 ∨ n % 10 = 9 := by omega
        rcases this with h | h | h | h | h | h | h | h | h | h <;> rw [h] <;> decide

theorem isDigit_plain (c : Char) (h : c.isDigit = true) : isPlain c = true := by
  rw [isPlain_iff]
  refine ⟨?_, ?_, ?_, ?_, ?_⟩ <;> (intro hc; subst hc; revert h; decide)

theorem renderQuant_plain (lo : Nat) (hi : Option Nat) : ∀ c ∈ renderQuant lo hi, isPlain c = true := by
  intro c hc
  have hd : ∀ n, ∀ c ∈ natDigits n, isPlain c = true := fun n c h => isDigit_plain c (natDigits_plain n c h)
  cases hi with
  | none =>
    simp only [renderQuant] at hc
    split at hc
    · simp only [List.mem_singleton] at hc; subst hc; decide
    split at hc
    · simp only [List.mem_singleton] at hc; subst hc; decide
    · simp only [List.mem_cons, List.mem_append, List.not_mem_nil, or_false] at hc
      rcases hc with h | h | h | h
      · subst h; decide
      · exact hd _ _ h
      · subst h; decide
      · subst h; decide
  | some m =>
    simp only [renderQuant] at hc
    split at hc
    · simp only [List.mem_singleton] at hc; subst hc; decide
    split at hc
    · simp only [List.mem_cons, List.mem_append, List.not_mem_nil, or_false] at hc
      rcases hc with h | h | h
      · subst h; decide
      · exact hd _ _ h
      · subst h; decide
    · simp only [List.mem_cons, List.mem_append, List.not_mem_nil, or_false] at hc
      rcases hc with h | h | h | h | h
      · subst h; decide
      · exact hd _ _ h
      · subst h; decide
      · exact hd _ _ h
      · subst h; decide

/-- an escape is copied at every depth -/
theorem Steps.esc (fx : Fixes) (b : Nat) (neg : Bool) (e : Esc) (hwf : e.wf = true) :
    Steps fx b false (e.render neg) (e.render neg) b false := by
  have two : ∀ c : Char, c ≠ '^' ∧ c ≠ '$' → Steps fx b false ['\\', c] ['\\', c] b false :=
    fun c h => Steps.escaped fx b c (Or.inl h)
  cases e with
  | dig => cases neg <;> exact two _ (by decide)
  | word => cases neg <;> exact two _ (by decide)
  | space => cases neg <;> exact two _ (by decide)
  | nameStart => cases neg <;> exact two _ (by decide)
  | nameChar => cases neg <;> exact two _ (by decide)
  | cat n =>
    simp only [Esc.wf, Bool.and_eq_true, List.all_eq_true] at hwf
    have hn : ∀ c ∈ n.toList ++ ['}'], isPlain c = true := by
      intro c hc
      rcases List.mem_append.1 hc with h | h
      · exact isNameCh_plain c (hwf.1.2 c h)
      · simp only [List.mem_singleton] at h; subst h; decide
    have h1 : Steps fx b false ['\\', if neg then 'P' else 'p'] ['\\', if neg then 'P' else 'p'] b false := by
      cases neg <;> exact two _ (by decide)
    have h2 : Steps fx b false ['{'] ['{'] b false := Steps.plain fx b false '{' (by decide)
    exact Steps.append h1 (Steps.append h2 (Steps.plains fx b _ hn))
  | block n =>
    simp only [Esc.wf, Bool.and_eq_true, List.all_eq_true] at hwf
    have hn : ∀ c ∈ n.toList ++ ['}'], isPlain c = true := by
      intro c hc
      rcases List.mem_append.1 hc with h | h
      · exact isNameCh_plain c (hwf.2 c h)
      · simp only [List.mem_singleton] at h; subst h; decide
    have h1 : Steps fx b false ['\\', if neg then 'P' else 'p'] ['\\', if neg then 'P' else 'p'] b false := by
      cases neg <;> exact two _ (by decide)
    have h2 : Steps fx b false ['{', 'I', 's'] ['{', 'I', 's'] b false := Steps.plains fx b _ (by decide)
    exact Steps.append h1 (Steps.append h2 (Steps.plains fx b _ hn))

/-- a literal outside a class: the only place where the two texts differ -/
theorem Steps.chr (fx : Fixes) (c : Char) : Steps fx 0 false (renderChr .xsd c) (renderChr .pcre c) 0 false := by
  unfold renderChr
  by_cases hn : c = '\n'
  · subst hn; exact Steps.escaped fx 0 'n' (Or.inl (by decide))
  by_cases hr : c = '\r'
  · subst hr; exact Steps.escaped fx 0 'r' (Or.inl (by decide))
  by_cases ht : c = '\t'
  · subst ht; exact Steps.escaped fx 0 't' (Or.inl (by decide))
  by_cases hm : metaChars.contains c = true
  · have hne : c ≠ '^' ∧ c ≠ '$' := by
      constructor <;> (intro hc; subst hc; revert hm; decide)
    simp only [beq_iff_eq, hn, hr, ht, if_false, hm, Bool.true_or, if_true]
    exact Steps.escaped fx 0 c (Or.inl hne)
  · by_cases ha : c = '^' ∨ c = '$'
    · have ha' : (c == '^' || c == '$') = true := by simpa using ha
      simp only [beq_iff_eq, hn, hr, ht, if_false, hm, Dialect.xsd, Dialect.pcre, Bool.not_true, Bool.not_false,
        Bool.false_and, Bool.true_and, Bool.false_or, Bool.or_false, ha', if_true]
      exact Steps.anchor fx c ha
    · have ha' : (c == '^' || c == '$') = false := by simpa using ha
      simp only [beq_iff_eq, hn, hr, ht, if_false, hm, Dialect.xsd, Dialect.pcre, Bool.not_true, Bool.not_false,
        Bool.false_and, Bool.true_and, Bool.or_false, ha']
      apply Steps.plain
      rw [isPlain_iff]
      rw [metaChars_eq] at hm
      simp only [List.contains_eq_mem, List.mem_cons, List.not_mem_nil, or_false, decide_eq_true_eq] at hm
      simp only [not_or] at ha hm
      exact ⟨hm.1, ha.2, ha.1, hm.2.2.2.2.2.2.2.2.2.2.1, hm.2.2.2.2.2.2.2.2.2.2.2⟩

/-- a literal inside a class is copied -/
theorem Steps.clsChr (fx : Fixes) (b : Nat) (c : Char) : Steps fx (b + 1) false (renderClsChr c) (renderClsChr c) (b + 1) false := by
  unfold renderClsChr
  by_cases hn : c = '\n'
  · subst hn; exact Steps.escaped fx _ 'n' (Or.inl (by decide))
  by_cases hr : c = '\r'
  · subst hr; exact Steps.escaped fx _ 'r' (Or.inl (by decide))
  by_cases ht : c = '\t'
  · subst ht; exact Steps.escaped fx _ 't' (Or.inl (by decide))
  by_cases hm : clsMetaChars.contains c = true
  · simp only [beq_iff_eq, hn, hr, ht, if_false, hm, if_true]
    exact Steps.escaped fx _ c (Or.inr (by omega))
  · simp only [beq_iff_eq, hn, hr, ht, if_false, hm]
    by_cases hd : c = '$'
    · exact Steps.clsAnchor fx b c (Or.inr hd)
    apply Steps.plain
    rw [isPlain_iff]
    rw [clsMetaChars_eq] at hm
    simp only [List.contains_eq_mem, List.mem_cons, List.not_mem_nil, or_false, decide_eq_true_eq, not_or] at hm
    exact ⟨hm.1, hd, hm.2.2.2.2, hm.2.1, hm.2.2.1⟩

theorem Steps.citem (fx : Fixes) (b : Nat) (i : CItem) (hwf : i.wf = true) :
    Steps fx (b + 1) false i.render i.render (b + 1) false := by
  cases i with
  | ch c => exact Steps.clsChr fx b c
  | range lo hi =>
    exact Steps.append (Steps.clsChr fx b lo)
      (Steps.append (c1 := ['-']) (o1 := ['-']) (Steps.plain fx _ false '-' (by decide)) (Steps.clsChr fx b hi))
  | esc neg e => exact Steps.esc fx _ neg e hwf

theorem Steps.citems (fx : Fixes) (b : Nat) : ∀ (is : List CItem), (∀ i ∈ is, i.wf = true) →
    Steps fx (b + 1) false (is.flatMap CItem.render) (is.flatMap CItem.render) (b + 1) false
  | [], _ => Steps.nil fx _ false
  | i :: is, h => by
    simp only [List.flatMap_cons]
    exact Steps.append (Steps.citem fx b i (h i (by simp))) (Steps.citems fx b is (fun x hx => h x (by simp [hx])))

theorem Steps.cgroup (fx : Fixes) (b : Nat) (g : CGroup) (hwf : g.wf = true) :
    Steps fx (b + 1) false g.render g.render (b + 1) false := by
  simp only [CGroup.wf, Bool.and_eq_true, List.all_eq_true] at hwf
  unfold CGroup.render
  refine Steps.append ?_ (Steps.citems fx b g.items hwf.2)
  cases g.neg
  · exact Steps.nil fx _ false
  · exact Steps.clsAnchor fx b '^' (Or.inl rfl)

/-- the text after `[`: back to the depth before it -/
theorem Steps.cclass (fx : Fixes) : ∀ (b : Nat) (cc : CClass), (∀ g ∈ cc, g.wf = true) →
    Steps fx (b + 1) false (CClass.render cc) (CClass.render cc) b false
  | b, [], _ => Steps.close fx b
  | b, [g], h => by
    simp only [CClass.render]
    exact Steps.append (Steps.cgroup fx b g (h g (by simp))) (Steps.close fx b)
  | b, g :: g2 :: rest, h => by
    simp only [CClass.render]
    have ih := Steps.cclass fx (b + 1) (g2 :: rest) (fun x hx => h x (by simp [hx]))
    have h1 := Steps.cgroup fx b g (h g (by simp))
    have h2 : Steps fx (b + 1) false ['-'] ['-'] (b + 1) false := Steps.plain fx _ false '-' (by decide)
    have h3 := Steps.open_ fx (b + 1)
    have := Steps.append h1 (Steps.append h2 (Steps.append h3 (Steps.append ih (Steps.close fx b))))
    simpa using this

/-- pass 1 on characters: the canonical XSD text becomes the canonical PCRE text, chunk by chunk -/
theorem Steps.pat (fx : Fixes) : ∀ (p : Pat), p.wf = true → Steps fx 0 false (p.render .xsd) (p.render .pcre) 0 false
  | .eps, _ => Steps.nil fx 0 false
  | .chr c, _ => Steps.chr fx c
  | .dot, _ => Steps.plain fx 0 false '.' (by decide)
  | .esc neg e, h => Steps.esc fx 0 neg e h
  | .cls cc, h => by
    simp only [Pat.wf, CClass.wf, Bool.and_eq_true, List.all_eq_true] at h
    have := Steps.append (Steps.open_ fx 0) (Steps.cclass fx 0 cc h.2)
    simpa [Pat.render] using this
  | .alt a b, h => by
    simp only [Pat.wf, Bool.and_eq_true] at h
    have h2 : Steps fx 0 false ['|'] ['|'] 0 false := Steps.plain fx _ false '|' (by decide)
    have := Steps.append (Steps.pat fx a h.1) (Steps.append h2 (Steps.pat fx b h.2))
    simpa [Pat.render] using this
  | .cat a b, h => by
    simp only [Pat.wf, Bool.and_eq_true] at h
    exact Steps.append (Steps.pat fx a h.1) (Steps.pat fx b h.2)
  | .rep p lo hi, h => by
    simp only [Pat.wf, Bool.and_eq_true] at h
    exact Steps.append (Steps.pat fx p h.1) (Steps.plains fx 0 _ (renderQuant_plain lo hi))
  | .group p, h => by
    simp only [Pat.wf, Bool.and_eq_true] at h
    have h1 : Steps fx 0 false ['('] ['('] 0 false := Steps.plain fx _ false '(' (by decide)
    have h2 : Steps fx 0 false [')'] [')'] 0 false := Steps.plain fx _ false ')' (by decide)
    have := Steps.append h1 (Steps.append (Steps.pat fx p h.1) h2)
    simpa [Pat.render] using this

/-- (R1, character level) -/
theorem escapeLoopC_render (fx : Fixes) (p : Pat) (hwf : p.wf = true) :
    escapeLoopC fx 0 false (p.render .xsd) = .ok (p.render .pcre) := by
  have := Steps.pat fx p hwf []
  simpa [escapeLoopC, Except.map] using this

/-! ### UTF-8 -/

theorem utf8_nil : utf8 [] = [] := rfl

theorem utf8_cons (c : Char) (cs : List Char) : utf8 (c :: cs) = String.utf8EncodeChar c ++ utf8 cs := by
  simp [utf8]

theorem utf8_append (a b : List Char) : utf8 (a ++ b) = utf8 a ++ utf8 b := by
  simp [utf8]

/-- a character below 128 is one byte -/
theorem enc_ascii (c : Char) (h : c.toNat < 128) : String.utf8EncodeChar c = [UInt8.ofNat c.toNat] := by
  simp only [String.utf8EncodeChar]
  rw [if_pos (by simp only [Char.toNat] at h; omega)]
  rfl

/-- every byte of the encoding of a character from 128 on is at least 128 -/
theorem enc_high (c : Char) (h : 128 ≤ c.toNat) : ∀ x ∈ String.utf8EncodeChar c, 128 ≤ x.toNat := by
  simp only [String.utf8EncodeChar, Char.toNat] at *
  intro x hx
  split at hx
  · omega
  split at hx
  · simp only [List.mem_cons, List.not_mem_nil, or_false] at hx
    rcases hx with h | h <;> subst h <;> simp only [UInt8.toNat_ofNat'] <;> omega
  split at hx
  · simp only [List.mem_cons, List.not_mem_nil, or_false] at hx
    rcases hx with h | h | h <;> subst h <;> simp only [UInt8.toNat_ofNat'] <;> omega
  · simp only [List.mem_cons, List.not_mem_nil, or_false] at hx
    rcases hx with h | h | h | h <;> subst h <;> simp only [UInt8.toNat_ofNat'] <;> omega

/-- an ASCII byte occurs only as the encoding of its own character -/
theorem enc_mem_ascii (c a : Char) (ha : a.toNat < 128) (h : UInt8.ofNat a.toNat ∈ String.utf8EncodeChar c) : c = a := by
  by_cases hc : c.toNat < 128
  · rw [enc_ascii c hc, List.mem_singleton] at h
    have := congrArg UInt8.toNat h
    simp only [UInt8.toNat_ofNat'] at this
    exact Char.toNat_inj.1 (by omega)
  · have := enc_high c (by omega) _ h
    simp only [UInt8.toNat_ofNat'] at this
    omega

theorem enc_ne (c a : Char) (ha : a.toNat < 128) (h : c ≠ a) : ∀ x ∈ String.utf8EncodeChar c, x ≠ UInt8.ofNat a.toNat := by
  intro x hx hxa
  subst hxa
  exact h (enc_mem_ascii c a ha hx)

/-- a byte that pass 1 just copies -/
def bytePlain (x : UInt8) : Prop := x ≠ bBackslash ∧ x ≠ bDollar ∧ x ≠ bCaret ∧ x ≠ bOpen ∧ x ≠ bClose

theorem enc_plain (c : Char) (h : isPlain c = true) : ∀ x ∈ String.utf8EncodeChar c, bytePlain x := by
  obtain ⟨h1, h2, h3, h4, h5⟩ := (isPlain_iff c).1 h
  intro x hx
  exact ⟨enc_ne c '\\' (by decide) h1 x hx, enc_ne c '$' (by decide) h2 x hx, enc_ne c '^' (by decide) h3 x hx,
    enc_ne c '[' (by decide) h4 x hx, enc_ne c ']' (by decide) h5 x hx⟩

theorem escapeLoop_plain (fx : Fixes) (b : Nat) (e : Bool) (x : UInt8) (rest : Bytes) (h : bytePlain x) :
    escapeLoop fx b e (x :: rest) = (escapeLoop fx b false rest).map (x :: ·) := by
  obtain ⟨h1, h2, h3, h4, h5⟩ := h
  simp [escapeLoop, h1, h2, h3, h4, h5]

theorem escapeLoop_plains (fx : Fixes) (b : Nat) : ∀ (bs : Bytes) (e : Bool) (rest : Bytes), bs ≠ [] → (∀ x ∈ bs, bytePlain x) →
    escapeLoop fx b e (bs ++ rest) = (escapeLoop fx b false rest).map (bs ++ ·)
  | [], _, _, h, _ => absurd rfl h
  | [x], e, rest, _, h => by
    simpa using escapeLoop_plain fx b e x rest (h x (by simp))
  | x :: y :: bs, e, rest, _, h => by
    have ih := escapeLoop_plains fx b (y :: bs) false rest (by simp) (fun z hz => h z (by simp [hz]))
    rw [List.cons_append, escapeLoop_plain fx b e x _ (h x (by simp)), ih, exMap_map]
    rfl

theorem utf8_bs (cs : List Char) : utf8 ('\\' :: cs) = bBackslash :: utf8 cs := rfl
theorem utf8_dollar (cs : List Char) : utf8 ('$' :: cs) = bDollar :: utf8 cs := rfl
theorem utf8_caret (cs : List Char) : utf8 ('^' :: cs) = bCaret :: utf8 cs := rfl
theorem utf8_open (cs : List Char) : utf8 ('[' :: cs) = bOpen :: utf8 cs := rfl
theorem utf8_close (cs : List Char) : utf8 (']' :: cs) = bClose :: utf8 cs := rfl

theorem mapcomm (X : Except RwErr (List Char)) (f : Bytes → Bytes) (g : List Char → List Char)
    (h : ∀ t, f (utf8 t) = utf8 (g t)) : (X.map utf8).map f = (X.map g).map utf8 := by
  cases X <;> simp [Except.map, h]

/-- the bridge: pass 1 on the UTF-8 bytes is pass 1 on the characters -/
theorem escapeLoop_utf8 (fx : Fixes) : ∀ (cs : List Char) (b : Nat) (e : Bool),
    escapeLoop fx b e (utf8 cs) = (escapeLoopC fx b e cs).map utf8
  | [], b, e => by simp [utf8_nil, escapeLoop, escapeLoopC, Except.map]
  | c :: cs, b, e => by
    have ih := escapeLoop_utf8 fx cs
    by_cases h1 : c = '\\'
    · subst h1
      rw [utf8_bs]
      simp only [escapeLoop, escapeLoopC, if_true, ih]
      exact mapcomm _ _ _ (fun t => rfl)
    by_cases h2 : c = '$'
    · subst h2
      rw [utf8_dollar]
      have n1 : bDollar ≠ bBackslash := by decide
      simp only [escapeLoop, escapeLoopC, n1, h1, if_false, true_or, if_true, ih]
      split <;> exact mapcomm _ _ _ (fun t => rfl)
    by_cases h3 : c = '^'
    · subst h3
      rw [utf8_caret]
      have n1 : bCaret ≠ bBackslash := by decide
      simp only [escapeLoop, escapeLoopC, n1, h1, if_false, or_true, if_true, ih]
      split <;> exact mapcomm _ _ _ (fun t => rfl)
    by_cases h4 : c = '['
    · subst h4
      rw [utf8_open]
      have n1 : bOpen ≠ bBackslash := by decide
      have n2 : ¬ (bOpen = bDollar ∨ bOpen = bCaret) := by decide
      simp only [escapeLoop, escapeLoopC, n1, n2, h1, h2, h3, or_self, if_false, if_true, ih]
      exact mapcomm _ _ _ (fun t => rfl)
    by_cases h5 : c = ']'
    · subst h5
      rw [utf8_close]
      have n1 : bClose ≠ bBackslash := by decide
      have n2 : ¬ (bClose = bDollar ∨ bClose = bCaret) := by decide
      have n3 : bClose ≠ bOpen := by decide
      simp only [escapeLoop, escapeLoopC, n1, n2, n3, h1, h2, h3, h4, or_self, if_false, if_true, ih]
      split
      · rfl
      · exact mapcomm _ _ _ (fun t => rfl)
    · have hp : isPlain c = true := (isPlain_iff c).2 ⟨h1, h2, h3, h4, h5⟩
      rw [utf8_cons, escapeLoop_plains fx b _ e _ String.utf8EncodeChar_ne_nil (enc_plain c hp), ih]
      have := Steps.plain fx b e c hp cs
      simp only [List.singleton_append] at this
      rw [this]
      exact mapcomm _ _ _ (fun t => (utf8_cons c t).symm)

/-- (R1) pass 1 turns the canonical XSD text into the canonical PCRE text, for every `fx` -/
theorem escapeLoop_render (fx : Fixes) (p : Pat) (hwf : p.wf = true) (_hd : p.inDialect .pcre = true) :
    escapeLoop fx 0 false (utf8 (p.render .xsd)) = .ok (utf8 (p.render .pcre)) := by
  rw [escapeLoop_utf8, escapeLoopC_render fx p hwf]
  rfl

/-! ### the needle of pass 2, character level -/

theorem notIs_append (r b : List Char) (h : notIs r = true) : notIs (r ++ b) = true := by
  match r, h with
  | [c], h =>
    simp only [notIs, Bool.or_false] at h
    simp [notIs, h]
  | c :: d :: r, h => simpa [notIs] using h

theorem braceOk_mono (prev : Option Char) (cs : List Char) (h : braceOk none cs = true) : braceOk prev cs = true := by
  cases cs with
  | nil => rfl
  | cons c r =>
    simp only [braceOk, Bool.and_eq_true, Bool.or_eq_true] at h ⊢
    refine ⟨?_, h.2⟩
    rcases h.1 with (h | h) | h
    · exact Or.inl (Or.inl h)
    · simp at h
    · exact Or.inr h

theorem braceOk_append : ∀ (a : List Char) (prev : Option Char) (b : List Char),
    braceOk prev a = true → braceOk none b = true → braceOk prev (a ++ b) = true
  | [], prev, b, _, hb => braceOk_mono prev b hb
  | c :: r, prev, b, ha, hb => by
    simp only [List.cons_append, braceOk, Bool.and_eq_true, Bool.or_eq_true] at ha ⊢
    refine ⟨?_, braceOk_append r (some c) b ha.2 hb⟩
    rcases ha.1 with (h | h) | h
    · exact Or.inl (Or.inl h)
    · exact Or.inl (Or.inr h)
    · exact Or.inr (notIs_append r b h)

theorem braceOk_of_no_brace : ∀ (cs : List Char) (prev : Option Char), (∀ c ∈ cs, c ≠ '{') → braceOk prev cs = true
  | [], _, _ => rfl
  | c :: r, prev, h => by
    simp only [braceOk, Bool.and_eq_true, Bool.or_eq_true]
    exact ⟨Or.inl (Or.inl (by simpa using h c (by simp))), braceOk_of_no_brace r _ (fun x hx => h x (by simp [hx]))⟩

theorem braceOk_lbrace (prev : Option Char) (r : List Char) (h1 : notIs r = true) (h2 : ∀ c ∈ r, c ≠ '{') :
    braceOk prev ('{' :: r) = true := by
  simp only [braceOk, Bool.and_eq_true, Bool.or_eq_true]
  exact ⟨Or.inr h1, braceOk_of_no_brace r _ h2⟩

theorem braceOk_escaped (c : Char) : braceOk none ['\\', c] = true := by
  simp [braceOk]

theorem braceOk_renderChr (c : Char) : braceOk none (renderChr .pcre c) = true := by
  unfold renderChr
  split
  · decide
  split
  · decide
  split
  · decide
  split
  · exact braceOk_escaped c
  · rename_i h
    have hm : metaChars.contains c = false := by
      cases hh : metaChars.contains c
      · rfl
      · rw [hh] at h; simp at h
    have : c ≠ '{' := by intro hc; subst hc; revert hm; decide
    exact braceOk_of_no_brace [c] none (by simpa using this)

theorem braceOk_renderClsChr (c : Char) (hc : c ≠ '{') : braceOk none (renderClsChr c) = true := by
  unfold renderClsChr
  split
  · decide
  split
  · decide
  split
  · decide
  split
  · exact braceOk_escaped c
  · exact braceOk_of_no_brace [c] none (by simpa using hc)

theorem isNameCh_no_brace (c : Char) (h : isNameCh c = true) : c ≠ '{' := by
  intro hc; subst hc; revert h; decide

theorem isDigit_no_brace (c : Char) (h : c.isDigit = true) : c ≠ '{' := by
  intro hc; subst hc; revert h; decide

theorem natDigits_ne_nil (n : Nat) : natDigits n ≠ [] := by
  rw [natDigits]; split <;> simp

theorem notIs_digits (n : Nat) (t : List Char) : notIs (natDigits n ++ t) = true := by
  have h := natDigits_plain n
  cases hd : natDigits n with
  | nil => exact absurd hd (natDigits_ne_nil n)
  | cons d ds =>
    have : d.isDigit = true := h d (by simp [hd])
    have hne : d ≠ 'I' := by intro hc; subst hc; revert this; decide
    simp [notIs, hne]

theorem braceOk_renderQuant (lo : Nat) (hi : Option Nat) : braceOk none (renderQuant lo hi) = true := by
  have hd : ∀ n, ∀ c ∈ natDigits n, c ≠ '{' := fun n c h => isDigit_no_brace c (natDigits_plain n c h)
  cases hi with
  | none =>
    simp only [renderQuant]
    split
    · decide
    split
    · decide
    · apply braceOk_lbrace _ _ (notIs_digits _ _)
      intro c hc
      simp only [List.mem_append, List.mem_cons, List.not_mem_nil, or_false] at hc
      rcases hc with h | h | h
      · exact hd _ _ h
      · subst h; decide
      · subst h; decide
  | some m =>
    simp only [renderQuant]
    split
    · decide
    split
    · apply braceOk_lbrace _ _ (notIs_digits _ _)
      intro c hc
      simp only [List.mem_append, List.mem_cons, List.not_mem_nil, or_false] at hc
      rcases hc with h | h
      · exact hd _ _ h
      · subst h; decide
    · apply braceOk_lbrace _ _ (notIs_digits _ _)
      intro c hc
      simp only [List.mem_append, List.mem_cons, List.not_mem_nil, or_false] at hc
      rcases hc with h | h | h | h
      · exact hd _ _ h
      · subst h; decide
      · exact hd _ _ h
      · subst h; decide

theorem braceOk_esc (neg : Bool) (e : Esc) (hwf : e.wf = true) (hd : e.inDialect .pcre = true) :
    braceOk none (e.render neg) = true := by
  cases e with
  | dig => cases neg <;> decide
  | word => cases neg <;> decide
  | space => cases neg <;> decide
  | nameStart => cases neg <;> decide
  | nameChar => cases neg <;> decide
  | block n => simp [Esc.inDialect, Dialect.pcre] at hd
  | cat n =>
    simp only [Esc.wf, Bool.and_eq_true, List.all_eq_true] at hwf
    obtain ⟨⟨_, hname⟩, his⟩ := hwf
    have h2 : ∀ c ∈ n.toList ++ ['}'], c ≠ '{' := by
      intro c hc
      rcases List.mem_append.1 hc with h | h
      · exact isNameCh_no_brace c (hname c h)
      · simp only [List.mem_singleton] at h; subst h; decide
    have h1 : notIs (n.toList ++ ['}']) = true := by
      revert his
      cases n.toList with
      | nil => intro _; decide
      | cons a r =>
        cases r with
        | nil =>
          intro _
          by_cases ha : a = 'I' <;> simp [notIs, ha]
        | cons b r =>
          intro his
          by_cases ha : a = 'I'
          · subst ha
            by_cases hb : b = 's'
            · subst hb; simp at his
            · simp [notIs, hb]
          · simp [notIs, ha]
    have := braceOk_lbrace (some (if neg then 'P' else 'p')) _ h1 h2
    simp only [Esc.render, braceOk, Bool.and_eq_true, Bool.or_eq_true]
    refine ⟨Or.inl (Or.inl (by decide)), ⟨Or.inl (Or.inl (by cases neg <;> decide)), ?_⟩⟩
    simpa only [braceOk, Bool.and_eq_true, Bool.or_eq_true] using this

theorem braceOk_citem (i : CItem) (hwf : i.wf = true) (hd : i.inDialect .pcre = true) (hb : i.noBrace = true) :
    braceOk none i.render = true := by
  cases i with
  | ch c => exact braceOk_renderClsChr c (by simpa [CItem.noBrace] using hb)
  | range lo hi =>
    simp only [CItem.noBrace, Bool.and_eq_true, bne_iff_ne, ne_eq] at hb
    exact braceOk_append _ _ _ (braceOk_renderClsChr lo hb.1)
      (braceOk_append ['-'] _ _ (by decide) (braceOk_renderClsChr hi hb.2))
  | esc neg e => exact braceOk_esc neg e hwf hd

theorem braceOk_citems : ∀ (is : List CItem), (∀ i ∈ is, i.wf = true ∧ i.inDialect .pcre = true ∧ i.noBrace = true) →
    braceOk none (is.flatMap CItem.render) = true
  | [], _ => rfl
  | i :: is, h => by
    simp only [List.flatMap_cons]
    obtain ⟨h1, h2, h3⟩ := h i (by simp)
    exact braceOk_append _ _ _ (braceOk_citem i h1 h2 h3) (braceOk_citems is (fun x hx => h x (by simp [hx])))

theorem braceOk_cgroup (g : CGroup) (h : ∀ i ∈ g.items, i.wf = true ∧ i.inDialect .pcre = true ∧ i.noBrace = true) :
    braceOk none g.render = true := by
  unfold CGroup.render
  refine braceOk_append _ _ _ ?_ (braceOk_citems g.items h)
  cases g.neg <;> decide

theorem braceOk_cclass : ∀ (cc : CClass),
    (∀ g ∈ cc, ∀ i ∈ g.items, i.wf = true ∧ i.inDialect .pcre = true ∧ i.noBrace = true) →
    braceOk none (CClass.render cc) = true
  | [], _ => by decide
  | [g], h => by
    simp only [CClass.render]
    exact braceOk_append _ _ _ (braceOk_cgroup g (h g (by simp))) (by decide)
  | g :: g2 :: rest, h => by
    simp only [CClass.render]
    have ih := braceOk_cclass (g2 :: rest) (fun x hx => h x (by simp [hx]))
    exact braceOk_append _ _ _ (braceOk_cgroup g (h g (by simp)))
      (braceOk_append ['-', '['] _ _ (by decide) (braceOk_append _ _ _ ih (by decide)))

theorem braceOk_pat : ∀ (p : Pat), p.wf = true → p.inDialect .pcre = true → p.noClsBrace = true →
    braceOk none (p.render .pcre) = true
  | .eps, _, _, _ => rfl
  | .chr c, _, _, _ => braceOk_renderChr c
  | .dot, _, _, _ => by decide
  | .esc neg e, h, hd, _ => braceOk_esc neg e h hd
  | .cls cc, h, hd, hb => by
    simp only [Pat.wf, CClass.wf, CGroup.wf, Bool.and_eq_true, List.all_eq_true] at h
    simp only [Pat.inDialect, CClass.inDialect, Bool.and_eq_true, List.all_eq_true] at hd
    simp only [Pat.noClsBrace, List.all_eq_true] at hb
    have := braceOk_cclass cc (fun g hg i hi => ⟨(h.2 g hg).2 i hi, hd.2 g hg i hi, hb g hg i hi⟩)
    exact braceOk_append ['['] _ _ (by decide) this
  | .alt a b, h, hd, hb => by
    simp only [Pat.wf, Pat.inDialect, Pat.noClsBrace, Bool.and_eq_true] at h hd hb
    exact braceOk_append _ _ _ (braceOk_pat a h.1 hd.1 hb.1) (braceOk_append ['|'] _ _ (by decide) (braceOk_pat b h.2 hd.2 hb.2))
  | .cat a b, h, hd, hb => by
    simp only [Pat.wf, Pat.inDialect, Pat.noClsBrace, Bool.and_eq_true] at h hd hb
    exact braceOk_append _ _ _ (braceOk_pat a h.1 hd.1 hb.1) (braceOk_pat b h.2 hd.2 hb.2)
  | .rep p lo hi, h, hd, hb => by
    simp only [Pat.wf, Pat.inDialect, Pat.noClsBrace, Bool.and_eq_true] at h hd hb
    exact braceOk_append _ _ _ (braceOk_pat p h.1 hd.1 hb) (braceOk_renderQuant lo hi)
  | .group p, h, hd, hb => by
    simp only [Pat.wf, Pat.inDialect, Pat.noClsBrace, Bool.and_eq_true] at h hd hb
    exact braceOk_append ['('] _ _ (by decide) (braceOk_append _ _ _ (braceOk_pat p h.1 hd hb) (by decide))

theorem findSubC_none_of_braceOk : ∀ (cs : List Char) (prev : Option Char), braceOk prev cs = true →
    findSubC needleC cs = none
  | [], _, _ => by simp [findSubC, needleC]
  | c :: r, prev, h => by
    have h' := h
    simp only [braceOk, Bool.and_eq_true] at h'
    have ih := findSubC_none_of_braceOk r (some c) h'.2
    have hpre : needleC.isPrefixOf (c :: r) = false := by
      cases hp : needleC.isPrefixOf (c :: r)
      · rfl
      · rw [List.isPrefixOf_iff_prefix] at hp
        obtain ⟨t, ht⟩ := hp
        simp only [needleC, List.cons_append, List.nil_append, List.cons.injEq] at ht
        obtain ⟨rfl, rfl⟩ := ht
        simp [braceOk, notIs] at h
    simp [findSubC, hpre, ih]

/-- (R2, character level) -/
theorem needleC_free (p : Pat) (hwf : p.wf = true) (hd : p.inDialect .pcre = true) (hb : p.noClsBrace = true) :
    findSubC needleC (p.render .pcre) = none :=
  findSubC_none_of_braceOk _ none (braceOk_pat p hwf hd hb)


/-! ### the needle of pass 2, bytes -/

theorem needle_not_prefix (x : UInt8) (t : Bytes) (h : x ≠ bBackslash) : needle.isPrefixOf (x :: t) = false := by
  have : (92 : UInt8) ≠ x := fun e => h e.symm
  simp [needle, List.isPrefixOf, this]

theorem findSub_skip : ∀ (bs t : Bytes), (∀ x ∈ bs, x ≠ bBackslash) → findSub needle t = none → findSub needle (bs ++ t) = none
  | [], _, _, h => h
  | x :: bs, t, hx, h => by
    have ih := findSub_skip bs t (fun y hy => hx y (by simp [hy])) h
    simp [findSub, needle_not_prefix x _ (hx x (by simp)), ih]

/-- an ASCII byte at the head of a needle matches only its own character -/
theorem prefix_utf8_cons (a : Char) (ha : a.toNat < 128) (l : Bytes) (cs : List Char)
    (h : (UInt8.ofNat a.toNat :: l).isPrefixOf (utf8 cs) = true) :
    ∃ cs', cs = a :: cs' ∧ l.isPrefixOf (utf8 cs') = true := by
  cases cs with
  | nil => simp [utf8_nil] at h
  | cons d cs' =>
    rw [utf8_cons] at h
    by_cases hd : d.toNat < 128
    · rw [enc_ascii d hd] at h
      simp only [List.singleton_append, List.isPrefixOf, Bool.and_eq_true, beq_iff_eq] at h
      have := congrArg UInt8.toNat h.1
      simp only [UInt8.toNat_ofNat'] at this
      have hda : d = a := Char.toNat_inj.1 (by omega)
      exact ⟨cs', by rw [hda], h.2⟩
    · cases he : String.utf8EncodeChar d with
      | nil => exact absurd he String.utf8EncodeChar_ne_nil
      | cons x xs =>
        rw [he] at h
        simp only [List.cons_append, List.isPrefixOf, Bool.and_eq_true, beq_iff_eq] at h
        have hx := enc_high d (by omega) x (by simp [he])
        rw [← h.1] at hx
        simp only [UInt8.toNat_ofNat'] at hx
        omega

theorem needle_prefix_utf8 (cs : List Char) (h : needle.isPrefixOf (utf8 cs) = true) : needleC.isPrefixOf cs = true := by
  obtain ⟨c1, rfl, h⟩ := prefix_utf8_cons '\\' (by decide) _ cs h
  obtain ⟨c2, rfl, h⟩ := prefix_utf8_cons 'p' (by decide) _ c1 h
  obtain ⟨c3, rfl, h⟩ := prefix_utf8_cons '{' (by decide) _ c2 h
  obtain ⟨c4, rfl, h⟩ := prefix_utf8_cons 'I' (by decide) _ c3 h
  obtain ⟨c5, rfl, _⟩ := prefix_utf8_cons 's' (by decide) _ c4 h
  simp [needleC, List.isPrefixOf]

/-- the bridge: no needle in the characters, no needle in the bytes -/
theorem findSub_utf8_none : ∀ (cs : List Char), findSubC needleC cs = none → findSub needle (utf8 cs) = none
  | [], _ => by simp [utf8_nil, findSub, needle]
  | c :: cs, h => by
    simp only [findSubC] at h
    split at h
    · cases h
    rename_i hpre
    have h' : findSubC needleC cs = none := by
      cases hf : findSubC needleC cs with
      | none => rfl
      | some i => rw [hf] at h; cases h
    have ih := findSub_utf8_none cs h'
    by_cases hc : c = '\\'
    · subst hc
      rw [utf8_bs]
      have hnp : needle.isPrefixOf (bBackslash :: utf8 cs) = false := by
        cases hp : needle.isPrefixOf (bBackslash :: utf8 cs)
        · rfl
        · rw [← utf8_bs] at hp
          exact absurd (needle_prefix_utf8 _ hp) hpre
      simp [findSub, hnp, ih]
    · rw [utf8_cons]
      exact findSub_skip _ _ (enc_ne c '\\' (by decide) hc) ih

theorem chblocks_of_needle_free (fx : Fixes) (t : Bytes) (h : findSub needle t = none) : chblocks fx t = .ok t := by
  simp [chblocks, chblocksLoop, chblocksStep, h]

/-- (R2) the canonical PCRE text of a tree without a literal `{` in a class does not contain `\p{Is` … -/
theorem needle_free (p : Pat) (hwf : p.wf = true) (hd : p.inDialect .pcre = true) (hb : p.noClsBrace = true) :
    findSub needle (utf8 (p.render .pcre)) = none :=
  findSub_utf8_none _ (needleC_free p hwf hd hb)

/-- … so pass 2 leaves it alone -/
theorem chblocks_render (fx : Fixes) (p : Pat) (hwf : p.wf = true) (hd : p.inDialect .pcre = true) (hb : p.noClsBrace = true) :
    chblocks fx (utf8 (p.render .pcre)) = .ok (utf8 (p.render .pcre)) :=
  chblocks_of_needle_free fx _ (needle_free p hwf hd hb)

/-! ### NUL -/

theorem takeWhile_all {α : Type} (q : α → Bool) (l : List α) (h : ∀ x ∈ l, q x = true) : l.takeWhile q = l := by
  induction l with
  | nil => rfl
  | cons a l ih => simp [h a (by simp), ih (fun x hx => h x (by simp [hx]))]

/-- (R3) a text without U+0000 is a whole C string -/
theorem cstr_utf8 (cs : List Char) (h : ∀ c ∈ cs, c ≠ '\x00') : cstr (utf8 cs) = utf8 cs := by
  apply takeWhile_all
  intro x hx
  simp only [utf8, List.mem_flatMap] at hx
  obtain ⟨c, hc, hx⟩ := hx
  have := enc_ne c '\x00' (by decide) (h c hc) x hx
  simpa using this


/-- no U+0000 in a text -/
def NN (cs : List Char) : Prop := ∀ c ∈ cs, c ≠ '\x00'

instance (cs : List Char) : Decidable (NN cs) := by unfold NN; infer_instance

theorem NN.append {a b : List Char} (ha : NN a) (hb : NN b) : NN (a ++ b) := by
  intro c hc
  rcases List.mem_append.1 hc with h | h
  · exact ha c h
  · exact hb c h

theorem NN.cons {a : Char} {b : List Char} (ha : a ≠ '\x00') (hb : NN b) : NN (a :: b) :=
  NN.append (a := [a]) (by intro c hc; simp only [List.mem_singleton] at hc; subst hc; exact ha) hb

theorem NN.renderChr (d : Dialect) (c : Char) (hc : c ≠ '\x00') : NN (renderChr d c) := by
  unfold LyModel.XsdRe.renderChr
  split
  · decide
  split
  · decide
  split
  · decide
  split
  · exact NN.cons (by decide) (NN.cons hc (by decide))
  · exact NN.cons hc (by decide)

theorem NN.renderClsChr (c : Char) (hc : c ≠ '\x00') : NN (renderClsChr c) := by
  unfold LyModel.XsdRe.renderClsChr
  split
  · decide
  split
  · decide
  split
  · decide
  split
  · exact NN.cons (by decide) (NN.cons hc (by decide))
  · exact NN.cons hc (by decide)

theorem NN.name (cs : List Char) (h : ∀ c ∈ cs, isNameCh c = true) : NN cs := by
  intro c hc hz
  have := h c hc
  subst hz
  revert this
  decide

theorem NN.digits (n : Nat) : NN (natDigits n) := by
  intro c hc hz
  have := natDigits_plain n c hc
  subst hz
  revert this
  decide

theorem NN.esc (neg : Bool) (e : Esc) (hwf : e.wf = true) : NN (e.render neg) := by
  cases e with
  | dig => cases neg <;> decide
  | word => cases neg <;> decide
  | space => cases neg <;> decide
  | nameStart => cases neg <;> decide
  | nameChar => cases neg <;> decide
  | cat n =>
    simp only [Esc.wf, Bool.and_eq_true, List.all_eq_true] at hwf
    exact NN.cons (by decide) (NN.cons (by cases neg <;> decide) (NN.cons (by decide)
      (NN.append (NN.name _ hwf.1.2) (by decide))))
  | block n =>
    simp only [Esc.wf, Bool.and_eq_true, List.all_eq_true] at hwf
    exact NN.cons (by decide) (NN.cons (by cases neg <;> decide) (NN.cons (by decide) (NN.cons (by decide) (NN.cons (by decide)
      (NN.append (NN.name _ hwf.2) (by decide))))))

theorem NN.renderQuant (lo : Nat) (hi : Option Nat) : NN (renderQuant lo hi) := by
  cases hi with
  | none =>
    simp only [LyModel.XsdRe.renderQuant]
    split
    · decide
    split
    · decide
    · exact NN.cons (by decide) (NN.append (NN.digits lo) (by decide))
  | some m =>
    simp only [LyModel.XsdRe.renderQuant]
    split
    · decide
    split
    · exact NN.cons (by decide) (NN.append (NN.digits lo) (by decide))
    · exact NN.cons (by decide) (NN.append (NN.digits lo) (NN.cons (by decide) (NN.append (NN.digits m) (by decide))))

theorem NN.citem (i : CItem) (hwf : i.wf = true) (hn : i.noNul = true) : NN i.render := by
  cases i with
  | ch c => exact NN.renderClsChr c (by simpa [CItem.noNul] using hn)
  | range lo hi =>
    simp only [CItem.noNul, Bool.and_eq_true, bne_iff_ne, ne_eq] at hn
    exact NN.append (NN.renderClsChr lo hn.1) (NN.cons (by decide) (NN.renderClsChr hi hn.2))
  | esc neg e => exact NN.esc neg e hwf

theorem NN.citems : ∀ (is : List CItem), (∀ i ∈ is, i.wf = true ∧ i.noNul = true) → NN (is.flatMap CItem.render)
  | [], _ => by intro c hc; simp at hc
  | i :: is, h => by
    simp only [List.flatMap_cons]
    exact NN.append (NN.citem i (h i (by simp)).1 (h i (by simp)).2) (NN.citems is (fun x hx => h x (by simp [hx])))

theorem NN.cgroup (g : CGroup) (h : ∀ i ∈ g.items, i.wf = true ∧ i.noNul = true) : NN g.render := by
  unfold CGroup.render
  refine NN.append ?_ (NN.citems g.items h)
  cases g.neg <;> decide

theorem NN.cclass : ∀ (cc : CClass), (∀ g ∈ cc, ∀ i ∈ g.items, i.wf = true ∧ i.noNul = true) → NN (CClass.render cc)
  | [], _ => by decide
  | [g], h => by
    simp only [CClass.render]
    exact NN.append (NN.cgroup g (h g (by simp))) (by decide)
  | g :: g2 :: rest, h => by
    simp only [CClass.render]
    have ih := NN.cclass (g2 :: rest) (fun x hx => h x (by simp [hx]))
    exact NN.append (NN.cgroup g (h g (by simp))) (NN.cons (by decide) (NN.cons (by decide) (NN.append ih (by decide))))

/-- (R3) the printer adds no U+0000 -/
theorem render_noNul (d : Dialect) : ∀ (p : Pat), p.wf = true → p.noNul = true → NN (p.render d)
  | .eps, _, _ => by intro c hc; simp [Pat.render] at hc
  | .chr c, _, hn => NN.renderChr d c (by simpa [Pat.noNul] using hn)
  | .dot, _, _ => by show NN ['.']; decide
  | .esc neg e, h, _ => NN.esc neg e h
  | .cls cc, h, hn => by
    simp only [Pat.wf, CClass.wf, CGroup.wf, Bool.and_eq_true, List.all_eq_true] at h
    simp only [Pat.noNul, CClass.noNul, List.all_eq_true] at hn
    exact NN.cons (by decide) (NN.cclass cc (fun g hg i hi => ⟨(h.2 g hg).2 i hi, hn g hg i hi⟩))
  | .alt a b, h, hn => by
    simp only [Pat.wf, Pat.noNul, Bool.and_eq_true] at h hn
    exact NN.append (render_noNul d a h.1 hn.1) (NN.cons (by decide) (render_noNul d b h.2 hn.2))
  | .cat a b, h, hn => by
    simp only [Pat.wf, Pat.noNul, Bool.and_eq_true] at h hn
    exact NN.append (render_noNul d a h.1 hn.1) (render_noNul d b h.2 hn.2)
  | .rep p lo hi, h, hn => by
    simp only [Pat.wf, Pat.noNul, Bool.and_eq_true] at h hn
    exact NN.append (render_noNul d p h.1 hn) (NN.renderQuant lo hi)
  | .group p, h, hn => by
    simp only [Pat.wf, Pat.noNul, Bool.and_eq_true] at h hn
    exact NN.cons (by decide) (NN.append (render_noNul d p h.1 hn) (by decide))

theorem cstr_render (d : Dialect) (p : Pat) (hwf : p.wf = true) (hn : p.noNul = true) :
    cstr (utf8 (p.render d)) = utf8 (p.render d) :=
  cstr_utf8 _ (render_noNul d p hwf hn)

/-! ### the whole rewrite -/

/-- (R4, with the absence of the needle as hypothesis) -/
theorem rewrite_render_of_needle_free (fx : Fixes) (p : Pat) (hwf : p.wf = true) (hd : p.inDialect .pcre = true)
    (hn : p.noNul = true) (hfree : findSub needle (utf8 (p.render .pcre)) = none) :
    rewriteWith fx (utf8 (p.render .xsd)) = .ok (utf8 (p.render .pcre)) := by
  simp only [rewriteWith, cstr_render .xsd p hwf hn, escapeLoop_render fx p hwf hd]
  exact chblocks_of_needle_free fx _ hfree

/-- (R4) the model of the C rewriter maps the canonical XSD text of a pattern of the PCRE fragment (without a literal `{`
    as a class member) to its canonical PCRE text -/
theorem rewrite_render (fx : Fixes) (p : Pat) (hwf : p.wf = true) (hd : p.inDialect .pcre = true) (hn : p.noNul = true)
    (hb : p.noClsBrace = true) : rewriteWith fx (utf8 (p.render .xsd)) = .ok (utf8 (p.render .pcre)) :=
  rewrite_render_of_needle_free fx p hwf hd hn (needle_free p hwf hd hb)


/-! ### `utf8` and the string functions of core -/

theorem utf8_eq_data (cs : List Char) : ByteArray.mk (utf8 cs).toArray = cs.utf8Encode := by
  rw [List.utf8Encode, ← List.data_toByteArray]
  rfl

/-- (R5) decoding the encoding -/
theorem decodeUtf8_utf8 (cs : List Char) : decodeUtf8 (utf8 cs) = some cs := by
  unfold decodeUtf8
  rw [utf8_eq_data, String.fromUTF8?, dif_pos ByteArray.isValidUTF8_utf8Encode]
  show some (String.ofList cs).toList = some cs
  rw [String.toList_ofList]

theorem toList_loop (bs : ByteArray) (i : Nat) (r : List UInt8) :
    ByteArray.toList.loop bs i r = r.reverse ++ bs.data.toList.drop i := by
  fun_induction ByteArray.toList.loop bs i r with
  | case1 i r h ih =>
    rw [ih]
    have h' : i < bs.data.toList.length := by rw [Array.length_toList, ByteArray.size_data]; exact h
    rw [List.drop_eq_getElem_cons h']
    cases bs with
    | mk d =>
      simp only [ByteArray.get!, List.reverse_cons, List.append_assoc, List.singleton_append]
      congr 2
      simp only [Array.length_toList] at h'
      simp [h']
  | case2 i r h =>
    have : bs.data.toList.length ≤ i := by rw [Array.length_toList, ByteArray.size_data]; omega
    simp [List.drop_eq_nil_of_le this]

theorem byteArray_toList (bs : ByteArray) : bs.toList = bs.data.toList := by
  simp [ByteArray.toList, toList_loop]

/-- `utf8` is the UTF-8 encoding of core -/
theorem utf8_eq_bytesOfString (cs : List Char) : utf8 cs = bytesOfString (String.ofList cs) := by
  unfold bytesOfString
  rw [byteArray_toList]
  show utf8 cs = (cs.utf8Encode).data.toList
  rw [← utf8_eq_data]

/-! ### the side condition of (R4) is needed -/

/-- `[\\p{IsBasicLatin}]`: a class whose members are a backslash, `p`, `{`, … `}` -/
def clsBraceWitness : Pat :=
  .cls [⟨false, [.ch '\\', .ch 'p', .ch '{', .ch 'I', .ch 's', .ch 'B', .ch 'a', .ch 's', .ch 'i', .ch 'c', .ch 'L', .ch 'a',
    .ch 't', .ch 'i', .ch 'n', .ch '}']⟩]

/-- pass 2 takes the escaped backslash of `[\\p{IsBasicLatin}]` for the start of a block escape -/
theorem rewrite_render_fails_cls_brace :
    ¬ ∀ p : Pat, p.wf = true → p.inDialect .pcre = true → p.noNul = true →
      rewriteWith Fixes.all (utf8 (p.render .xsd)) = .ok (utf8 (p.render .pcre)) := by
  intro h
  have := h clsBraceWitness (by decide) (by decide) (by decide)
  revert this
  decide


end LyModel.XsdRe
