import LyModel.XsdRe.BlockLemmas
/-!
Termination of the `while (strstr(perl_regex, "\\p{Is"))` loop of pass 2: a round removes the first occurrence of the
needle and, for replacement texts that are `good` (all texts the real table can produce are), creates none before the
unprocessed tail, so the length of the text from the first occurrence on strictly decreases.
-/
namespace LyModel.XsdRe

/-- the needle occurs in `t` at offset `i` -/
def OccAt (t : Bytes) (i : Nat) : Prop := needle.isPrefixOf (t.drop i) = true

theorem needle_length : needle.length = 5 := rfl

theorem occAt_iff (t : Bytes) (i : Nat) : OccAt t i ↔ ∀ m, m < 5 → t[i + m]? = needle[m]? := by
  unfold OccAt
  rw [List.isPrefixOf_iff_prefix]
  constructor
  · rintro ⟨s, hs⟩ m hm
    have : (t.drop i)[m]? = (needle ++ s)[m]? := by rw [hs]
    rw [List.getElem?_drop] at this
    rw [this, List.getElem?_append_left (by rw [needle_length]; exact hm)]
  · intro h
    refine ⟨(t.drop i).drop 5, ?_⟩
    have ht : (t.drop i).take 5 = needle := by
      apply List.ext_getElem?
      intro m
      by_cases hm : m < 5
      · rw [List.getElem?_take_of_lt hm, List.getElem?_drop, h m hm]
      · have h1 : ((t.drop i).take 5)[m]? = none := by
          apply List.getElem?_eq_none
          have := List.length_take_le 5 (t.drop i)
          omega
        have h2 : needle[m]? = none := by
          apply List.getElem?_eq_none
          rw [needle_length]; omega
        rw [h1, h2]
    have := List.take_append_drop 5 (t.drop i)
    rw [ht] at this
    exact this

/-- a replacement text that cannot complete or start an occurrence of the needle -/
def good (repl : Bytes) : Bool :=
  (findSub needle repl).isNone &&
  (match repl.head? with
   | some c => c != 112 && c != 123 && c != 73 && c != 115
   | Option.none => false) &&
  (match repl.getLast? with
   | some c => c != 92 && c != 112 && c != 123 && c != 73
   | Option.none => false)

theorem findSub_none {pat : Bytes} : ∀ {t : Bytes}, findSub pat t = Option.none → ∀ j, pat.isPrefixOf (t.drop j) = false
  | [], h, j => by
    simp only [findSub] at h
    by_cases hp : pat.isEmpty = true
    · simp [hp] at h
    · cases pat with
      | nil => simp at hp
      | cons a p => simp
  | c :: t, h, j => by
    simp only [findSub] at h
    by_cases hp : pat.isPrefixOf (c :: t) = true
    · simp [hp] at h
    · simp only [hp, Bool.false_eq_true, if_false, Option.map_eq_none_iff] at h
      cases j with
      | zero =>
        simp only [Bool.not_eq_true] at hp
        simpa using hp
      | succ j => simpa using findSub_none h j

/-- the bytes of the needle `\p{Is` -/
def nb (m : Nat) : UInt8 := if m = 0 then 92 else if m = 1 then 112 else if m = 2 then 123 else if m = 3 then 73 else 115

theorem needle_get (m : Nat) (hm : m < 5) : needle[m]? = some (nb m) := by
  have : m = 0 ∨ m = 1 ∨ m = 2 ∨ m = 3 ∨ m = 4 := by omega
  rcases this with rfl | rfl | rfl | rfl | rfl <;> rfl

/-- after a round no occurrence of the needle starts before the unprocessed tail -/
theorem no_occ_before_tail (t repl post : Bytes) (start : Nat) (hstart : start ≤ t.length)
    (hfirst : ∀ j, j < start → ¬ OccAt t j) (hg : good repl = true) :
    ∀ i, i < start + repl.length → ¬ OccAt (t.take start ++ repl ++ post) i := by
  intro i hi hocc
  rw [occAt_iff] at hocc
  simp only [good, Bool.and_eq_true, Option.isNone_iff_eq_none] at hg
  obtain ⟨⟨hsub, hhead⟩, hlast⟩ := hg
  have hlt : (t.take start).length = start := by simp [Nat.min_eq_left hstart]
  have hne : repl ≠ [] := by
    intro h; subst h; simp at hhead
  have hrl : 0 < repl.length := List.length_pos_iff.mpr hne
  by_cases hcase : i < start
  · by_cases hin : i + 5 ≤ start
    · -- the whole occurrence lies in the unchanged prefix
      apply hfirst i hcase
      rw [occAt_iff]
      intro m hm
      have h := hocc m hm
      rw [List.append_assoc, List.getElem?_append_left (by omega), List.getElem?_take_of_lt (by omega)] at h
      exact h
    · -- it would need the first byte of the replacement to be one of p { I s
      have hm0 : start - i < 5 := by omega
      have h := hocc (start - i) hm0
      have hidx : i + (start - i) = start := by omega
      rw [hidx, List.append_assoc, List.getElem?_append_right (by omega), hlt, Nat.sub_self,
        List.getElem?_append_left hrl] at h
      have hh : repl[0]? = repl.head? := by cases repl <;> simp
      rw [hh, needle_get _ hm0] at h
      rw [h] at hhead
      have hk : start - i = 1 ∨ start - i = 2 ∨ start - i = 3 ∨ start - i = 4 := by omega
      rcases hk with hk | hk | hk | hk <;> simp [hk, nb] at hhead
  · have hj : start ≤ i := by omega
    by_cases hin : (i - start) + 5 ≤ repl.length
    · -- the whole occurrence lies in the replacement
      have hno := findSub_none hsub (i - start)
      have : OccAt repl (i - start) := by
        rw [occAt_iff]
        intro m hm
        have h := hocc m hm
        rw [List.append_assoc, List.getElem?_append_right (by omega), hlt,
          List.getElem?_append_left (by omega)] at h
        have hidx : i + m - start = i - start + m := by omega
        rw [hidx] at h
        exact h
      unfold OccAt at this
      rw [hno] at this
      cases this
    · -- it would need the last byte of the replacement to be one of \ p { I
      have hm1 : repl.length - 1 - (i - start) < 5 := by omega
      have h := hocc (repl.length - 1 - (i - start)) hm1
      rw [List.append_assoc, List.getElem?_append_right (by omega), hlt,
        List.getElem?_append_left (by omega)] at h
      have hidx : i + (repl.length - 1 - (i - start)) - start = repl.length - 1 := by omega
      rw [hidx] at h
      have hh : repl[repl.length - 1]? = repl.getLast? := by
        rw [List.getLast?_eq_getElem?]
      rw [hh, needle_get _ hm1] at h
      rw [h] at hlast
      have hk : repl.length - 1 - (i - start) = 0 ∨ repl.length - 1 - (i - start) = 1 ∨ repl.length - 1 - (i - start) = 2 ∨
          repl.length - 1 - (i - start) = 3 := by omega
      rcases hk with hk | hk | hk | hk <;> simp [hk, nb] at hlast

/-- length of the text from the first occurrence of the needle on (0 if there is none) -/
def mu (t : Bytes) : Nat :=
  match findSub needle t with
  | Option.none => 0
  | some i => t.length - i

/-- a round that continues has replaced `[start, start+e]` by one of the two texts a table row can give -/
theorem chblocksStep_next (fx : Fixes) (tbl : List (Bytes × Bytes)) (ulen : Nat) (t t' : Bytes)
    (h : chblocksStep fx tbl ulen t = .next t') :
    ∃ start e row, findSub needle t = some start ∧ row < tbl.length ∧
      (t' = t.take start ++ (tbl.getD row ([], [])).2.take (copyLen fx.f187 ulen (tbl.getD row ([], [])).2) ++ t.drop (start + e + 1) ∨
       t' = t.take start ++ ((tbl.getD row ([], [])).2.drop 1).take (copyLen fx.f187 ulen (tbl.getD row ([], [])).2 - 2) ++
         t.drop (start + e + 1)) := by
  unfold chblocksStep at h
  cases hs : findSub needle t with
  | none => simp [hs] at h
  | some start =>
    simp only [hs] at h
    cases he : findByte bRBrace (t.drop start) with
    | none => simp [he] at h
    | some e =>
      simp only [he] at h
      generalize hq : (if fx.f186 = true then findBlockExact tbl ((t.drop (start + needle.length)).take (e - needle.length))
        else findBlock tbl (t.drop (start + needle.length))) = q at h
      cases q with
      | none => simp at h
      | some found =>
        simp only [] at h
        generalize hrow : (if fx.f1 = true then (found : Int) else depthWith fx (t.take start)) = row at h
        by_cases hc : row < 0 ∨ row ≥ (tbl.length : Int)
        · simp [hc] at h
        · simp only [hc, if_false, Step.next.injEq] at h
          refine ⟨start, e, row.toNat, rfl, by omega, ?_⟩
          by_cases hd : depthWith fx (t.take start) ≠ 0
          · right
            simp only [hd, ne_eq, not_false_eq_true, if_true] at h
            exact h.symm
          · left
            simp only [hd, if_false] at h
            exact h.symm

/-- both texts every row can contribute are `good`; `f187`: the length rule (`copyLen`) -/
def GoodTable (tbl : List (Bytes × Bytes)) (ulen : Nat) (f187 : Bool) : Prop :=
  ∀ row ∈ tbl, good (row.2.take (copyLen f187 ulen row.2)) = true ∧
    good ((row.2.drop 1).take (copyLen f187 ulen row.2 - 2)) = true

theorem occAt_bound {t : Bytes} {i : Nat} (h : OccAt t i) : i + 5 ≤ t.length := by
  rw [occAt_iff] at h
  have := h 4 (by omega)
  rw [needle_get 4 (by omega)] at this
  have hlt : i + 4 < t.length := by
    apply Classical.byContradiction
    intro hn
    rw [List.getElem?_eq_none (by omega)] at this
    cases this
  omega

theorem mu_decreases (fx : Fixes) (tbl : List (Bytes × Bytes)) (ulen : Nat) (hT : GoodTable tbl ulen fx.f187) (t t' : Bytes)
    (h : chblocksStep fx tbl ulen t = .next t') : mu t' < mu t := by
  obtain ⟨start, e, row, hs, hrow, ht'⟩ := chblocksStep_next fx tbl ulen t t' h
  obtain ⟨hocc, hfirst⟩ := findSub_some hs
  have hb := occAt_bound (t := t) (i := start) hocc
  have hmem : tbl.getD row ([], []) ∈ tbl := by
    rw [List.getD_eq_getElem?_getD, List.getElem?_eq_getElem hrow]
    exact List.getElem_mem hrow
  obtain ⟨hg1, hg2⟩ := hT _ hmem
  have hmu : mu t = t.length - start := by simp [mu, hs]
  have key : ∀ repl, good repl = true → mu (t.take start ++ repl ++ t.drop (start + e + 1)) < mu t := by
    intro repl hg
    rw [hmu]
    unfold mu
    cases hs' : findSub needle (t.take start ++ repl ++ t.drop (start + e + 1)) with
    | none => simp only []; omega
    | some i' =>
      simp only []
      have hocc' := (findSub_some hs').1
      have hno := no_occ_before_tail t repl (t.drop (start + e + 1)) start (by omega)
        (fun j hj hO => by
          have := hfirst j hj
          unfold OccAt at hO
          rw [this] at hO
          cases hO) hg
      have hge : ¬ i' < start + repl.length := fun hlt => hno i' hlt hocc'
      have hlen : (t.take start ++ repl ++ t.drop (start + e + 1)).length = start + repl.length + (t.length - (start + e + 1)) := by
        simp only [List.length_append, List.length_take, List.length_drop]
        omega
      rw [hlen]
      omega
  rcases ht' with rfl | rfl
  · exact key _ hg1
  · exact key _ hg2

theorem chblocksStep_ne_fuel (fx : Fixes) (tbl : List (Bytes × Bytes)) (ulen : Nat) (t : Bytes) :
    chblocksStep fx tbl ulen t ≠ .fail .fuel := by
  unfold chblocksStep
  cases findSub needle t with
  | none => simp
  | some start =>
    simp only []
    cases findByte bRBrace (t.drop start) with
    | none => simp
    | some e =>
      simp only []
      generalize (if fx.f186 = true then findBlockExact tbl ((t.drop (start + needle.length)).take (e - needle.length))
        else findBlock tbl (t.drop (start + needle.length))) = q
      cases q with
      | none => simp
      | some found =>
        simp only []
        generalize (if fx.f1 = true then (found : Int) else depthWith fx (t.take start)) = row
        by_cases hc : row < 0 ∨ row ≥ (tbl.length : Int)
        · simp [hc]
        · simp [hc]

theorem chblocksLoop_fuel (fx : Fixes) (tbl : List (Bytes × Bytes)) (ulen : Nat) (hT : GoodTable tbl ulen fx.f187) :
    ∀ (n : Nat) (t : Bytes), mu t < n → chblocksLoop fx tbl ulen n t ≠ .error .fuel
  | 0, _, h => by omega
  | n + 1, t, h => by
    simp only [chblocksLoop]
    split
    · intro hh; cases hh
    · rename_i t' hstep
      have := mu_decreases fx tbl ulen hT t t' hstep
      exact chblocksLoop_fuel fx tbl ulen hT n t' (by omega)
    · rename_i e hstep
      intro hh
      cases hh
      exact chblocksStep_ne_fuel fx tbl ulen t hstep

theorem mu_le_length (t : Bytes) : mu t ≤ t.length := by
  unfold mu
  split <;> omega

/-- the table of the source now, every row copied in its own length (the length rule of the source now, F187 repaired) -/
theorem goodTable_ublocks : GoodTable ublocks Generated.UBlocks.URANGE_LEN true := by
  unfold GoodTable
  decide +kernel

/-- the fuel `chblocks` gives its loop is sufficient: the model never reports `fuel` (the C loop terminates) -/
theorem chblocks_fuel_sufficient (fx : Fixes) (h187 : fx.f187 = true) (t : Bytes) : chblocks fx t ≠ .error .fuel :=
  chblocksLoop_fuel fx ublocks _ (h187 ▸ goodTable_ublocks) (t.length + 1) t (by have := mu_le_length t; omega)

end LyModel.XsdRe
