import LyModel.XsdRe.SemSubLemmas
/-!
# The negated-block pre-pass (`negBlocksLoop`, fixes/F185.diff) on canonical texts (core Lean only)

* (N1) `negBlocksLoop_id`: on ANY byte text without a trigger (`noNegTrig`: an escape `\P{Is` at bracket depth 0) the pass is the
  identity, up to the pending backslash;
* (N2) `prePass_render`, `rewriteSrc_render`: the canonical XSD text of a pattern of the PCRE fragment has no trigger, so the
  rewrite of the source as it is now maps it to the canonical PCRE text;
* (N3) `negBlocksLoop_at`: `\P{IsNAME}` at depth 0 becomes `[^\p{IsNAME}]`.
-/
namespace LyModel.XsdRe

/-! ### (N1) no trigger: identity -/

/-- the loop never meets an escape that begins `P{Is` at bracket depth 0 (state: `brack`, `escaped`, as in the loop) -/
def noNegTrig : Nat → Bool → Bytes → Bool
  | _, _, [] => true
  | b, true, c :: r => !(b == 0 && negNeedle.isPrefixOf (c :: r)) && noNegTrig b false r
  | b, false, c :: r =>
    if c = bBackslash then noNegTrig b true r
    else if c = bOpen then noNegTrig (b + 1) false r
    else if c = bClose ∧ b ≠ 0 then noNegTrig (b - 1) false r
    else noNegTrig b false r

theorem negBlocksLoop_id : ∀ (s : Bytes) (b : Nat) (e : Bool), noNegTrig b e s = true →
    negBlocksLoop b e false s = (if e then bBackslash :: s else s)
  | [], b, e, _ => by cases e <;> rfl
  | c :: r, b, true, h => by
    simp only [noNegTrig, Bool.and_eq_true, Bool.not_eq_true', Bool.and_eq_false_iff, beq_eq_false_iff_ne] at h
    have ih := negBlocksLoop_id r b false h.2
    have hc : ¬ (b = 0 ∧ negNeedle.isPrefixOf (c :: r) = true) := by
      rintro ⟨h1, h2⟩
      rcases h.1 with h3 | h3
      · exact h3 h1
      · rw [h2] at h3; cases h3
    rw [negBlocksLoop]
    simp only [hc, if_false, ih, Bool.false_eq_true, if_true]
  | c :: r, b, false, h => by
    rw [negBlocksLoop]
    by_cases h1 : c = bBackslash
    · have h' : noNegTrig b true r = true := by simpa [noNegTrig, h1] using h
      simp only [h1, if_true, negBlocksLoop_id r b true h', Bool.false_eq_true, if_false]
    by_cases h2 : c = bOpen
    · subst h2
      have n1 : bOpen ≠ bBackslash := by decide
      simp only [noNegTrig, n1, if_false, if_true] at h
      simp only [n1, if_false, if_true, negBlocksLoop_id r (b + 1) false h, Bool.false_eq_true]
    by_cases h3 : c = bClose ∧ b ≠ 0
    · obtain ⟨hc, hb0⟩ := h3
      subst hc
      have n1 : bClose ≠ bBackslash := by decide
      have n2 : bClose ≠ bOpen := by decide
      simp only [noNegTrig, n1, n2, hb0, ne_eq, not_false_eq_true, and_self, if_true, if_false] at h
      simp only [n1, n2, hb0, ne_eq, not_false_eq_true, and_self, if_true, if_false, negBlocksLoop_id r (b - 1) false h,
        Bool.false_eq_true]
    · have h' : noNegTrig b false r = true := by
        simp only [noNegTrig, h1, h2, h3, if_false] at h
        exact h
      simp only [h1, h2, h3, if_false, Bool.false_eq_true, and_false, negBlocksLoop_id r b false h']

/-! ### (N2) fragment patterns -/

/-- depth-free: no escape at all begins `P{Is` -/
def noNegEsc : Bool → Bytes → Bool
  | _, [] => true
  | true, c :: r => !(negNeedle.isPrefixOf (c :: r)) && noNegEsc false r
  | false, c :: r => noNegEsc (c == bBackslash) r

theorem noNegTrig_of_noNegEsc : ∀ (s : Bytes) (b : Nat) (e : Bool), noNegEsc e s = true → noNegTrig b e s = true
  | [], _, _, _ => rfl
  | c :: r, b, true, h => by
    simp only [noNegEsc, Bool.and_eq_true, Bool.not_eq_true'] at h
    simp only [noNegTrig, h.1, Bool.and_false, Bool.not_false, Bool.true_and]
    exact noNegTrig_of_noNegEsc r b false h.2
  | c :: r, b, false, h => by
    by_cases h1 : c = bBackslash
    · have h' : noNegEsc true r = true := by simpa [noNegEsc, h1] using h
      simp only [noNegTrig, h1, if_true]
      exact noNegTrig_of_noNegEsc r b true h'
    · have h1' : (c == bBackslash) = false := by simpa using h1
      have h' : noNegEsc false r = true := by simpa [noNegEsc, h1'] using h
      simp only [noNegTrig, h1, if_false]
      split
      · exact noNegTrig_of_noNegEsc r _ false h'
      split
      · exact noNegTrig_of_noNegEsc r _ false h'
      · exact noNegTrig_of_noNegEsc r _ false h'

def negNeedleC : List Char := ['P', '{', 'I', 's']

def noNegC : Bool → List Char → Bool
  | _, [] => true
  | true, c :: r => !(negNeedleC.isPrefixOf (c :: r)) && noNegC false r
  | false, c :: r => noNegC (c == '\\') r

def NSteps (chunk : List Char) : Prop :=
  ∀ rest, noNegC false rest = true → noNegC false (chunk ++ rest) = true

theorem NSteps.nil : NSteps [] := fun _ h => h

theorem NSteps.append {a b : List Char} (ha : NSteps a) (hb : NSteps b) : NSteps (a ++ b) := by
  intro rest h
  rw [List.append_assoc]
  exact ha _ (hb _ h)

theorem NSteps.one (c : Char) (h : c ≠ '\\') : NSteps [c] := by
  intro rest hr
  have h' : (c == '\\') = false := by simpa using h
  simpa [noNegC, h'] using hr

theorem NSteps.cons {c : Char} {b : List Char} (h : c ≠ '\\') (hb : NSteps b) : NSteps (c :: b) :=
  NSteps.append (NSteps.one c h) hb

theorem NSteps.nobs : ∀ (cs : List Char), (∀ c ∈ cs, c ≠ '\\') → NSteps cs
  | [], _ => NSteps.nil
  | c :: cs, h => NSteps.cons (h c (by simp)) (NSteps.nobs cs (fun x hx => h x (by simp [hx])))

theorem NSteps.escaped (c : Char) (h : c ≠ 'P') : NSteps ['\\', c] := by
  intro rest hr
  have h' : ('P' == c) = false := by simpa using fun e : 'P' = c => h e.symm
  simpa [noNegC, negNeedleC, List.isPrefixOf, h'] using hr

theorem notIs_not_prefix (l : List Char) (h : notIs l = true) : ['I', 's'].isPrefixOf l = false := by
  match l, h with
  | [c], h =>
    simp only [notIs, Bool.or_false, bne_iff_ne, ne_eq] at h
    have : ('I' == c) = false := by simpa using fun e : 'I' = c => h e.symm
    simp [List.isPrefixOf, this]
  | c :: d :: r, h =>
    simp only [notIs, Bool.or_eq_true, bne_iff_ne, ne_eq] at h
    rcases h with h | h
    · have : ('I' == c) = false := by simpa using fun e : 'I' = c => h e.symm
      simp [List.isPrefixOf, this]
    · have : ('s' == d) = false := by simpa using fun e : 's' = d => h e.symm
      simp [List.isPrefixOf, this]

/-- `\P{Name}` / `\p{Name}` with a name that does not begin with `Is` -/
theorem NSteps.prop (x : Char) (t : List Char) (ht : notIs t = true) (hb : ∀ c ∈ t, c ≠ '\\') :
    NSteps ('\\' :: x :: '{' :: t) := by
  intro rest hr
  have h1 := notIs_not_prefix _ (notIs_append t rest ht)
  have h2 := NSteps.nobs ('{' :: t) (by
    intro c hc
    simp only [List.mem_cons] at hc
    rcases hc with h | h
    · subst h; decide
    · exact hb c h) rest hr
  simp only [List.cons_append] at h2 ⊢
  simp only [noNegC, beq_self_eq_true, negNeedleC, List.isPrefixOf, Bool.and_eq_true, Bool.not_eq_true',
    Bool.and_eq_false_iff]
  exact ⟨Or.inr (Or.inr h1), h2⟩

theorem notIs_name (n : String) (hwf : (Esc.cat n).wf = true) : notIs (n.toList ++ ['}']) = true := by
  simp only [Esc.wf, Bool.and_eq_true] at hwf
  have his := hwf.2
  revert his
  cases n.toList with
  | nil => intro _; decide
  | cons a r =>
    cases r with
    | nil =>
      intro _
      by_cases ha : a = 'I' <;> simp [notIs, ha]
    | cons b r =>
      intro his
      by_cases ha : a = 'I'
      · subst ha
        by_cases hb : b = 's'
        · subst hb; simp at his
        · simp [notIs, hb]
      · simp [notIs, ha]

theorem meta_ne_P (c : Char) (h : metaChars.contains c = true) : c ≠ 'P' := by
  intro hc; subst hc; revert h; decide

theorem clsMeta_ne_P (c : Char) (h : clsMetaChars.contains c = true) : c ≠ 'P' := by
  intro hc; subst hc; revert h; decide

theorem NSteps.chr (c : Char) : NSteps (renderChr .xsd c) := by
  unfold renderChr
  split
  · exact NSteps.escaped 'n' (by decide)
  split
  · exact NSteps.escaped 'r' (by decide)
  split
  · exact NSteps.escaped 't' (by decide)
  split
  · rename_i h
    have hm : metaChars.contains c = true := by simpa [Dialect.xsd] using h
    exact NSteps.escaped c (meta_ne_P c hm)
  · rename_i h
    have hm : metaChars.contains c = false := by
      cases hh : metaChars.contains c
      · rfl
      · rw [hh] at h; simp at h
    exact NSteps.one c (by intro hc; subst hc; revert hm; decide)

theorem NSteps.clsChr (c : Char) : NSteps (renderClsChr c) := by
  unfold renderClsChr
  split
  · exact NSteps.escaped 'n' (by decide)
  split
  · exact NSteps.escaped 'r' (by decide)
  split
  · exact NSteps.escaped 't' (by decide)
  split
  · rename_i h
    exact NSteps.escaped c (clsMeta_ne_P c h)
  · rename_i h
    have hm : clsMetaChars.contains c = false := by
      cases hh : clsMetaChars.contains c
      · rfl
      · exact absurd hh h
    exact NSteps.one c (by intro hc; subst hc; revert hm; decide)

theorem NSteps.esc (neg : Bool) (e : Esc) (hwf : e.wf = true) (hd : e.inDialect .pcre = true) : NSteps (e.render neg) := by
  cases e with
  | dig => cases neg <;> exact NSteps.escaped _ (by decide)
  | word => cases neg <;> exact NSteps.escaped _ (by decide)
  | space => cases neg <;> exact NSteps.escaped _ (by decide)
  | nameStart => cases neg <;> exact NSteps.escaped _ (by decide)
  | nameChar => cases neg <;> exact NSteps.escaped _ (by decide)
  | block n => simp [Esc.inDialect, Dialect.pcre] at hd
  | cat n =>
    have h1 := notIs_name n hwf
    simp only [Esc.wf, Bool.and_eq_true, List.all_eq_true] at hwf
    have hb : ∀ c ∈ n.toList ++ ['}'], c ≠ '\\' := by
      intro c hc
      rcases List.mem_append.1 hc with h | h
      · exact ((isPlain_iff c).1 (isNameCh_plain c (hwf.1.2 c h))).1
      · simp only [List.mem_singleton] at h; subst h; decide
    exact NSteps.prop _ _ h1 hb

theorem NSteps.citem (i : CItem) (hwf : i.wf = true) (hd : i.inDialect .pcre = true) : NSteps i.render := by
  cases i with
  | ch c => exact NSteps.clsChr c
  | range lo hi => exact NSteps.append (NSteps.clsChr lo) (NSteps.cons (by decide) (NSteps.clsChr hi))
  | esc neg e => exact NSteps.esc neg e hwf hd

theorem NSteps.citems : ∀ (is : List CItem), (∀ i ∈ is, i.wf = true ∧ i.inDialect .pcre = true) →
    NSteps (is.flatMap CItem.render)
  | [], _ => NSteps.nil
  | i :: is, h => by
    simp only [List.flatMap_cons]
    exact NSteps.append (NSteps.citem i (h i (by simp)).1 (h i (by simp)).2)
      (NSteps.citems is (fun x hx => h x (by simp [hx])))

theorem NSteps.cgroup (g : CGroup) (h : ∀ i ∈ g.items, i.wf = true ∧ i.inDialect .pcre = true) : NSteps g.render := by
  unfold CGroup.render
  refine NSteps.append ?_ (NSteps.citems g.items h)
  cases g.neg
  · exact NSteps.nil
  · exact NSteps.one '^' (by decide)

theorem NSteps.cclass : ∀ (cc : CClass), (∀ g ∈ cc, ∀ i ∈ g.items, i.wf = true ∧ i.inDialect .pcre = true) →
    NSteps (CClass.render cc)
  | [], _ => NSteps.one ']' (by decide)
  | [g], h => by
    simp only [CClass.render]
    exact NSteps.append (NSteps.cgroup g (h g (by simp))) (NSteps.one ']' (by decide))
  | g :: g2 :: rest, h => by
    simp only [CClass.render]
    have ih := NSteps.cclass (g2 :: rest) (fun x hx => h x (by simp [hx]))
    exact NSteps.append (NSteps.cgroup g (h g (by simp)))
      (NSteps.cons (by decide) (NSteps.cons (by decide) (NSteps.append ih (NSteps.one ']' (by decide)))))

theorem NSteps.pat : ∀ (p : Pat), p.wf = true → p.inDialect .pcre = true → NSteps (p.render .xsd)
  | .eps, _, _ => NSteps.nil
  | .chr c, _, _ => NSteps.chr c
  | .dot, _, _ => NSteps.one '.' (by decide)
  | .esc neg e, h, hd => NSteps.esc neg e h hd
  | .cls cc, h, hd => by
    simp only [Pat.wf, CClass.wf, CGroup.wf, Bool.and_eq_true, List.all_eq_true] at h
    simp only [Pat.inDialect, CClass.inDialect, Bool.and_eq_true, List.all_eq_true] at hd
    exact NSteps.cons (by decide) (NSteps.cclass cc (fun g hg i hi => ⟨(h.2 g hg).2 i hi, hd.2 g hg i hi⟩))
  | .alt a b, h, hd => by
    simp only [Pat.wf, Pat.inDialect, Bool.and_eq_true] at h hd
    exact NSteps.append (NSteps.pat a h.1 hd.1) (NSteps.cons (by decide) (NSteps.pat b h.2 hd.2))
  | .cat a b, h, hd => by
    simp only [Pat.wf, Pat.inDialect, Bool.and_eq_true] at h hd
    exact NSteps.append (NSteps.pat a h.1 hd.1) (NSteps.pat b h.2 hd.2)
  | .rep p lo hi, h, hd => by
    simp only [Pat.wf, Pat.inDialect, Bool.and_eq_true] at h hd
    exact NSteps.append (NSteps.pat p h.1 hd.1)
      (NSteps.nobs _ (fun c hc => ((isPlain_iff c).1 (renderQuant_plain lo hi c hc)).1))
  | .group p, h, hd => by
    simp only [Pat.wf, Pat.inDialect, Bool.and_eq_true] at h hd
    exact NSteps.cons (by decide) (NSteps.append (NSteps.pat p h.1 hd) (NSteps.one ')' (by decide)))

theorem noNegC_render (p : Pat) (hwf : p.wf = true) (hd : p.inDialect .pcre = true) :
    noNegC false (p.render .xsd) = true := by
  have := NSteps.pat p hwf hd [] rfl
  simpa using this

/-! bytes -/

theorem negNeedle_prefix_utf8 (cs : List Char) (h : negNeedle.isPrefixOf (utf8 cs) = true) :
    negNeedleC.isPrefixOf cs = true := by
  obtain ⟨c1, rfl, h⟩ := prefix_utf8_cons 'P' (by decide) _ cs h
  obtain ⟨c2, rfl, h⟩ := prefix_utf8_cons '{' (by decide) _ c1 h
  obtain ⟨c3, rfl, h⟩ := prefix_utf8_cons 'I' (by decide) _ c2 h
  obtain ⟨c4, rfl, _⟩ := prefix_utf8_cons 's' (by decide) _ c3 h
  simp [negNeedleC, List.isPrefixOf]

theorem noNegEsc_skip : ∀ (bs t : Bytes), (∀ x ∈ bs, x ≠ bBackslash) → noNegEsc false (bs ++ t) = noNegEsc false t
  | [], _, _ => rfl
  | x :: bs, t, h => by
    have hx : (x == bBackslash) = false := by simpa using h x (by simp)
    simp only [List.cons_append, noNegEsc, hx]
    exact noNegEsc_skip bs t (fun y hy => h y (by simp [hy]))

theorem noNegEsc_utf8 : ∀ (cs : List Char) (e : Bool), noNegC e cs = true → noNegEsc e (utf8 cs) = true
  | [], e, _ => by cases e <;> rfl
  | c :: cs, false, h => by
    by_cases hc : c = '\\'
    · subst hc
      rw [utf8_bs]
      have h' : noNegC true cs = true := by simpa [noNegC] using h
      have := noNegEsc_utf8 cs true h'
      simpa [noNegEsc] using this
    · have hc' : (c == '\\') = false := by simpa using hc
      have h' : noNegC false cs = true := by simpa [noNegC, hc'] using h
      rw [utf8_cons, noNegEsc_skip _ _ (enc_ne c '\\' (by decide) hc)]
      exact noNegEsc_utf8 cs false h'
  | c :: cs, true, h => by
    simp only [noNegC, Bool.and_eq_true, Bool.not_eq_true'] at h
    obtain ⟨hl, h'⟩ := h
    have ih := noNegEsc_utf8 cs false h'
    have hnp : negNeedle.isPrefixOf (utf8 (c :: cs)) = false := by
      cases hp : negNeedle.isPrefixOf (utf8 (c :: cs))
      · rfl
      · rw [negNeedle_prefix_utf8 _ hp] at hl; cases hl
    rw [utf8_cons] at hnp ⊢
    cases he : String.utf8EncodeChar c with
    | nil => exact absurd he String.utf8EncodeChar_ne_nil
    | cons x xs =>
      rw [he] at hnp
      have hxs : ∀ y ∈ xs, y ≠ bBackslash := by
        by_cases ha : c.toNat < 128
        · rw [enc_ascii c ha] at he
          simp only [List.cons.injEq] at he
          intro y hy; rw [← he.2] at hy; simp at hy
        · intro y hy hyb
          have := enc_high c (by omega) y (by simp [he, hy])
          rw [hyb] at this
          revert this; decide
      simp only [List.cons_append] at hnp ⊢
      simp only [noNegEsc, hnp, Bool.not_false, Bool.true_and]
      rw [noNegEsc_skip _ _ hxs]
      exact ih

theorem noNegTrig_render (p : Pat) (hwf : p.wf = true) (hd : p.inDialect .pcre = true) :
    noNegTrig 0 false (utf8 (p.render .xsd)) = true :=
  noNegTrig_of_noNegEsc _ 0 false (noNegEsc_utf8 _ false (noNegC_render p hwf hd))

/-- (N2) the pre-pass leaves the canonical XSD text of a pattern of the PCRE fragment alone -/
theorem prePass_render (on : Bool) (p : Pat) (hwf : p.wf = true) (hd : p.inDialect .pcre = true) (hn : p.noNul = true) :
    prePass on (utf8 (p.render .xsd)) = utf8 (p.render .xsd) := by
  unfold prePass
  rw [cstr_render .xsd p hwf hn]
  cases on
  · rfl
  · simp only [if_true]
    rw [negBlocksLoop_id _ 0 false (noNegTrig_render p hwf hd)]
    rfl

theorem mceTable_letters : ∀ e ∈ Generated.UBlocks.mceTable, e.1 ∈ mceLetters := by decide

/-- (N2) **the rewrite of the source as it is now** maps the canonical XSD text of a pattern of the PCRE fragment to its
    canonical PCRE text (for every state of the generated switches) -/
theorem rewriteSrc_render (fx : Fixes) (p : Pat) (hwf : p.wf = true) (hd : p.inDialect .pcre = true) (hn : p.noNul = true)
    (hb : p.noClsBrace = true) : rewriteSrc fx (utf8 (p.render .xsd)) = .ok (utf8 (p.render .pcre)) := by
  unfold rewriteSrc
  rw [prePass_render _ p hwf hd hn]
  split
  · exact rewriteS_render _ mceTable_letters fx p hwf hd hn hb
  · exact rewriteM_render _ mceTable_letters fx p hwf hd hn hb

/-! ### (N3) at a trigger -/

/-- the state (`brack`, `escaped`) in which the loop leaves a text without a trigger -/
def negEnd : Nat → Bool → Bytes → Nat × Bool
  | b, e, [] => (b, e)
  | b, true, _ :: r => negEnd b false r
  | b, false, c :: r =>
    if c = bBackslash then negEnd b true r
    else if c = bOpen then negEnd (b + 1) false r
    else if c = bClose ∧ b ≠ 0 then negEnd (b - 1) false r
    else negEnd b false r

/-- a backslash behind the text does not complete a `P{Is` -/
theorem negNeedle_boundary (l t : Bytes) : negNeedle.isPrefixOf (l ++ bBackslash :: t) = negNeedle.isPrefixOf l := by
  have n1 : ((80 : UInt8) == bBackslash) = false := by decide
  have n2 : ((123 : UInt8) == bBackslash) = false := by decide
  have n3 : ((73 : UInt8) == bBackslash) = false := by decide
  have n4 : ((115 : UInt8) == bBackslash) = false := by decide
  match l with
  | [] => simp [negNeedle, List.isPrefixOf, n1]
  | [a] => simp [negNeedle, List.isPrefixOf, n2]
  | [a, b] => simp [negNeedle, List.isPrefixOf, n3]
  | [a, b, c] => simp [negNeedle, List.isPrefixOf, n4]
  | a :: b :: c :: d :: l' => simp [negNeedle, List.isPrefixOf]

/-- a text without a trigger that ends outside an escape is copied; the loop goes on in the state `negEnd` -/
theorem negBlocksLoop_prefix (t : Bytes) : ∀ (pre : Bytes) (b : Nat) (e : Bool), noNegTrig b e pre = true →
    (negEnd b e pre).2 = false →
    negBlocksLoop b e false (pre ++ bBackslash :: t) =
      (if e then [bBackslash] else []) ++ pre ++ negBlocksLoop (negEnd b e pre).1 false false (bBackslash :: t)
  | [], b, e, _, he => by
    simp only [negEnd] at he
    subst he
    rfl
  | c :: r, b, true, h, he => by
    simp only [noNegTrig, Bool.and_eq_true, Bool.not_eq_true', Bool.and_eq_false_iff, beq_eq_false_iff_ne] at h
    simp only [negEnd] at he ⊢
    have ih := negBlocksLoop_prefix t r b false h.2 he
    have hc : ¬ (b = 0 ∧ negNeedle.isPrefixOf (c :: (r ++ bBackslash :: t)) = true) := by
      rintro ⟨h1, h2⟩
      rw [← List.cons_append, negNeedle_boundary] at h2
      rcases h.1 with h3 | h3
      · exact h3 h1
      · rw [h2] at h3; cases h3
    rw [List.cons_append, negBlocksLoop]
    simp only [hc, if_false, ih, Bool.false_eq_true, if_true, List.nil_append, List.cons_append]
  | c :: r, b, false, h, he => by
    rw [List.cons_append, negBlocksLoop]
    by_cases h1 : c = bBackslash
    · subst h1
      simp only [noNegTrig, negEnd, if_true] at h he ⊢
      rw [negBlocksLoop_prefix t r b true h he]
      rfl
    by_cases h2 : c = bOpen
    · subst h2
      have n1 : bOpen ≠ bBackslash := by decide
      simp only [noNegTrig, negEnd, n1, if_false, if_true] at h he ⊢
      rw [negBlocksLoop_prefix t r (b + 1) false h he]
      rfl
    by_cases h3 : c = bClose ∧ b ≠ 0
    · obtain ⟨hc, hb0⟩ := h3
      subst hc
      have n1 : bClose ≠ bBackslash := by decide
      have n2 : bClose ≠ bOpen := by decide
      simp only [noNegTrig, negEnd, n1, n2, hb0, ne_eq, not_false_eq_true, and_self, if_true, if_false] at h he ⊢
      rw [negBlocksLoop_prefix t r (b - 1) false h he]
      rfl
    · simp only [noNegTrig, negEnd, h1, h2, h3, if_false] at h he ⊢
      simp only [Bool.false_eq_true, and_false, if_false]
      rw [negBlocksLoop_prefix t r b false h he]
      rfl

/-- while a `}` is pending, a name is copied -/
theorem negBlocksLoop_name (rest : Bytes) : ∀ (name : Bytes),
    (∀ x ∈ name, x ≠ bBackslash ∧ x ≠ bOpen ∧ x ≠ bClose ∧ x ≠ bRBrace) →
    negBlocksLoop 0 false true (name ++ rest) = name ++ negBlocksLoop 0 false true rest
  | [], _ => rfl
  | x :: name, h => by
    obtain ⟨h1, h2, h3, h4⟩ := h x (by simp)
    rw [List.cons_append, negBlocksLoop]
    simp only [h1, h2, h3, h4, if_false, false_and, negBlocksLoop_name rest name (fun y hy => h y (by simp [hy]))]
    rfl

/-- (N3) `\P{IsNAME}` at depth 0 becomes `[^\p{IsNAME}]` -/
theorem negBlocksLoop_at (pre name post : Bytes) (hpre : noNegTrig 0 false pre = true)
    (hend : negEnd 0 false pre = (0, false)) (hname : bRBrace ∉ name)
    (hn : ∀ x ∈ name, x ≠ bBackslash ∧ x ≠ bOpen ∧ x ≠ bClose) :
    negBlocksLoop 0 false false (pre ++ [92, 80, 123, 73, 115] ++ name ++ bRBrace :: post) =
      pre ++ [91, 94, 92, 112, 123, 73, 115] ++ name ++ [bRBrace, bClose] ++ negBlocksLoop 0 false false post := by
  have hshape : pre ++ [92, 80, 123, 73, 115] ++ name ++ bRBrace :: post =
      pre ++ bBackslash :: (80 :: ([123, 73, 115] ++ name ++ bRBrace :: post)) := by
    simp [bBackslash]
  have hn' : ∀ x ∈ [123, 73, 115] ++ name, x ≠ bBackslash ∧ x ≠ bOpen ∧ x ≠ bClose ∧ x ≠ bRBrace := by
    intro x hx
    rcases List.mem_append.1 hx with h | h
    · simp only [List.mem_cons, List.not_mem_nil, or_false] at h
      rcases h with h | h | h <;> subst h <;> decide
    · exact ⟨(hn x h).1, (hn x h).2.1, (hn x h).2.2, fun e => hname (e ▸ h)⟩
  have hname' := negBlocksLoop_name (bRBrace :: post) ([123, 73, 115] ++ name) hn'
  rw [hshape, negBlocksLoop_prefix _ pre 0 false hpre (by rw [hend]), hend]
  simp only [Bool.false_eq_true, if_false, List.nil_append]
  rw [negBlocksLoop]
  simp only [if_true]
  rw [negBlocksLoop]
  have htrig : negNeedle.isPrefixOf (80 :: ([123, 73, 115] ++ name ++ bRBrace :: post)) = true := by
    simp [negNeedle, List.isPrefixOf]
  simp only [htrig, and_self, if_true]
  rw [hname', negBlocksLoop]
  have n1 : bRBrace ≠ bBackslash := by decide
  have n2 : bRBrace ≠ bOpen := by decide
  have n3 : bRBrace ≠ bClose := by decide
  simp only [n1, n2, n3, if_false, false_and, and_self, if_true]
  simp [negOpenText]


end LyModel.XsdRe
