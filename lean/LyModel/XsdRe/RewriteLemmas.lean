import LyModel.XsdRe.Rewrite
/-!
Pass 1 of the rewrite (`escapeLoop`, the `while (orig_ptr[0])` loop of `lys_compile_type_pattern_check`) seen through
*escape tokens*: the byte state machine with its `escaped` flag is a token-level fold (`specLoop`), and that fold is the
declarative rendering `render` of the token list, defined iff no prefix of the tokens closes more brackets than it opened.
-/
namespace LyModel.XsdRe

/-- escape tokens of a pattern: `\c` is one token, every other byte (and a trailing lone backslash) is a literal -/
inductive Tok where
  | esc (c : UInt8)
  | lit (c : UInt8)
deriving DecidableEq, Repr

def tokens : Bytes → List Tok
  | [] => []
  | c :: rest =>
    if c = bBackslash then
      match rest with
      | [] => [.lit c]
      | d :: r => .esc d :: tokens r
    else .lit c :: tokens rest

def Tok.bytes : Tok → Bytes
  | .esc c => [bBackslash, c]
  | .lit c => [c]

/-- effect of a token on the bracket depth: only unescaped brackets count -/
def Tok.delta : Tok → Int
  | .lit c => if c = bOpen then 1 else if c = bClose then -1 else 0
  | .esc _ => 0

/-- bracket balance of a token sequence -/
def balance : List Tok → Int
  | [] => 0
  | t :: r => t.delta + balance r

/-- the backslash the C loop puts in front of a token: before a literal `^`/`$` at depth 0 — and (F25) also before an
    *escaped* one unless the repair is on -/
def insertion (fx : Fixes) (top : Bool) : Tok → Bytes
  | .lit c => if top = true ∧ (c = bDollar ∨ c = bCaret) then [bBackslash] else []
  | .esc c => if top = true ∧ (c = bDollar ∨ c = bCaret) ∧ fx.f25 = false then [bBackslash] else []

def newDepth (d : Nat) : Tok → Nat
  | .lit c => if c = bOpen then d + 1 else if c = bClose then d - 1 else d
  | .esc _ => d

/-- token-level fold with the unsigned depth counter of the C code -/
def specLoop (fx : Fixes) : Nat → List Tok → Except RwErr Bytes
  | _, [] => .ok []
  | d, t :: r =>
    if t = .lit bClose ∧ d = 0 then .error .strayBracket
    else (specLoop fx (newDepth d t) r).map (fun o => insertion fx (decide (d = 0)) t ++ t.bytes ++ o)

/-- declarative rendering: depth = balance of the tokens before -/
def render (fx : Fixes) : Int → List Tok → Bytes
  | _, [] => []
  | d, t :: r => insertion fx (decide (d = 0)) t ++ t.bytes ++ render fx (d + t.delta) r

/-! ### bytes → tokens -/

theorem consts_ne : bBackslash ≠ bDollar ∧ bBackslash ≠ bCaret ∧ bBackslash ≠ bOpen ∧ bBackslash ≠ bClose ∧
    bDollar ≠ bOpen ∧ bDollar ≠ bClose ∧ bCaret ≠ bOpen ∧ bCaret ≠ bClose ∧ bOpen ≠ bClose := by decide

theorem escapeLoop_cons (fx : Fixes) (brack : Nat) (escaped : Bool) (c : UInt8) (rest : Bytes) :
    escapeLoop fx brack escaped (c :: rest) =
      if c = bBackslash then (escapeLoop fx brack (!escaped) rest).map (c :: ·)
      else if c = bDollar ∨ c = bCaret then
        if brack = 0 ∧ ¬(fx.f25 = true ∧ escaped = true) then
          (escapeLoop fx brack false rest).map (fun t => bBackslash :: c :: t)
        else
          (escapeLoop fx brack false rest).map (c :: ·)
      else if c = bOpen then
        (escapeLoop fx (if escaped then brack else brack + 1) false rest).map (c :: ·)
      else if c = bClose then
        if brack = 0 ∧ escaped = false then .error .strayBracket
        else (escapeLoop fx (if escaped then brack else brack - 1) false rest).map (c :: ·)
      else
        (escapeLoop fx brack false rest).map (c :: ·) := by
  rw [escapeLoop]

private theorem map_congr' (x : Except RwErr Bytes) (f g : Bytes → Bytes) (h : ∀ o, f o = g o) : x.map f = x.map g := by
  cases x <;> simp [Except.map, h]

private theorem map_map' (x : Except RwErr Bytes) (f g : Bytes → Bytes) : (x.map f).map g = x.map (fun o => g (f o)) := by
  cases x <;> rfl

/-- state `escaped = true`: the next byte completes an escape token -/
theorem escapeLoop_escaped (fx : Fixes) (brack : Nat) (c : UInt8) (r : Bytes)
    (ih : ∀ b, escapeLoop fx b false r = specLoop fx b (tokens r)) :
    (escapeLoop fx brack true (c :: r)).map (bBackslash :: ·) = specLoop fx brack (.esc c :: tokens r) := by
  obtain ⟨h1, h2, h3, h4, h5, h6, h7, h8, h9⟩ := consts_ne
  have hne : ¬ (Tok.esc c = Tok.lit bClose ∧ brack = 0) := by intro h; cases h.1
  simp only [specLoop, hne, if_false, newDepth]
  rw [escapeLoop_cons]
  by_cases hb : c = bBackslash
  · subst hb
    have : ¬ (bBackslash = bDollar ∨ bBackslash = bCaret) := by intro h; rcases h with h | h <;> contradiction
    simp only [if_true, Bool.not_true, map_map', ih]
    apply map_congr'; intro o
    simp [insertion, Tok.bytes, this]
  · simp only [hb, if_false]
    by_cases ha : c = bDollar ∨ c = bCaret
    · simp only [ha, if_true]
      by_cases h0 : brack = 0
      · by_cases hf : fx.f25 = true
        · simp only [h0, hf, and_self, not_true_eq_false, and_false, if_false, map_map', ih]
          apply map_congr'; intro o
          simp [insertion, Tok.bytes, ha, hf]
        · have hf' : fx.f25 = false := by simpa using hf
          simp only [h0, hf', Bool.false_eq_true, false_and, not_false_eq_true, and_self, if_true, map_map', ih]
          apply map_congr'; intro o
          simp [insertion, Tok.bytes, ha, hf']
      · simp only [h0, false_and, if_false, map_map', ih]
        apply map_congr'; intro o
        simp [insertion, Tok.bytes]
    · simp only [ha, if_false]
      by_cases ho : c = bOpen
      · simp only [ho, if_true, map_map', ih]
        apply map_congr'; intro o
        have : ¬ (bOpen = bDollar ∨ bOpen = bCaret) := by intro h; rcases h with h | h <;> simp_all
        simp [insertion, Tok.bytes, this]
      · simp only [ho, if_false]
        by_cases hc : c = bClose
        · simp only [hc, if_true, Bool.true_eq_false, and_false, if_false, map_map', ih]
          apply map_congr'; intro o
          have : ¬ (bClose = bDollar ∨ bClose = bCaret) := by intro h; rcases h with h | h <;> simp_all
          simp [insertion, Tok.bytes, this]
        · simp only [hc, if_false, map_map', ih]
          apply map_congr'; intro o
          simp [insertion, Tok.bytes, ha]

/-- state `escaped = false` on a byte that is not a backslash: a literal token -/
theorem escapeLoop_lit (fx : Fixes) (brack : Nat) (c : UInt8) (r : Bytes) (hb : c ≠ bBackslash)
    (ih : ∀ b, escapeLoop fx b false r = specLoop fx b (tokens r)) :
    escapeLoop fx brack false (c :: r) = specLoop fx brack (.lit c :: tokens r) := by
  obtain ⟨h1, h2, h3, h4, h5, h6, h7, h8, h9⟩ := consts_ne
  rw [escapeLoop_cons]
  simp only [hb, if_false]
  by_cases ha : c = bDollar ∨ c = bCaret
  · have hcl : c ≠ bClose := by rcases ha with h | h <;> (subst h; assumption)
    have hop : c ≠ bOpen := by rcases ha with h | h <;> (subst h; assumption)
    have hne : ¬ (Tok.lit c = Tok.lit bClose ∧ brack = 0) := by
      intro h; exact hcl (Tok.lit.inj h.1)
    simp only [ha, if_true, specLoop, hne, if_false, newDepth, hop, hcl, Bool.false_eq_true, and_false,
      not_false_eq_true, and_true, ih]
    by_cases h0 : brack = 0
    · simp only [h0, if_true]
      apply map_congr'; intro o
      simp [insertion, Tok.bytes, ha]
    · simp only [h0, if_false]
      apply map_congr'; intro o
      simp [insertion, Tok.bytes]
  · simp only [ha, if_false]
    by_cases ho : c = bOpen
    · subst ho
      have hne : ¬ (Tok.lit bOpen = Tok.lit bClose ∧ brack = 0) := by
        intro h; exact h9 (Tok.lit.inj h.1)
      simp only [if_true, specLoop, hne, if_false, newDepth, Bool.false_eq_true, ih]
      apply map_congr'; intro o
      simp [insertion, Tok.bytes, ha]
    · simp only [ho, if_false]
      by_cases hc : c = bClose
      · subst hc
        by_cases h0 : brack = 0
        · simp only [h0, if_true, and_self, specLoop]
        · have hne : ¬ (Tok.lit bClose = Tok.lit bClose ∧ brack = 0) := fun h => h0 h.2
          simp only [if_true, h0, false_and, if_false, specLoop, newDepth, ho, Bool.false_eq_true, ih]
          apply map_congr'; intro o
          simp [insertion, Tok.bytes, ha]
      · have hne : ¬ (Tok.lit c = Tok.lit bClose ∧ brack = 0) := by
          intro h; exact hc (Tok.lit.inj h.1)
        simp only [hc, if_false, specLoop, hne, newDepth, ho, ih]
        apply map_congr'; intro o
        simp [insertion, Tok.bytes, ha]

/-- the byte loop is the token fold (every depth, every input) -/
theorem escapeLoop_eq_specLoop (fx : Fixes) : ∀ (n : Nat) (p : Bytes), p.length ≤ n → ∀ brack,
    escapeLoop fx brack false p = specLoop fx brack (tokens p)
  | _, [], _, brack => by simp [escapeLoop, tokens, specLoop]
  | 0, _ :: _, h, _ => by simp at h
  | n + 1, c :: rest, h, brack => by
    have hlen : rest.length ≤ n := by simp at h; omega
    by_cases hb : c = bBackslash
    · subst hb
      cases rest with
      | nil =>
        obtain ⟨h1, h2, h3, h4, _⟩ := consts_ne
        have hne : ¬ (Tok.lit bBackslash = Tok.lit bClose ∧ brack = 0) := by
          intro h; exact h4 (Tok.lit.inj h.1)
        have hins : insertion fx (decide (brack = 0)) (.lit bBackslash) = [] := by
          have : ¬ (bBackslash = bDollar ∨ bBackslash = bCaret) := by intro h; rcases h with h | h <;> contradiction
          simp only [insertion, this, and_false, if_false]
        have hb4 : ¬ (bBackslash = bClose) := h4
        simp [escapeLoop, tokens, specLoop, hins, Tok.bytes, Except.map, hb4]
      | cons d r =>
        have hr : r.length ≤ n := by simp at hlen; omega
        have ih : ∀ b, escapeLoop fx b false r = specLoop fx b (tokens r) :=
          fun b => escapeLoop_eq_specLoop fx n r hr b
        have := escapeLoop_escaped fx brack d r ih
        have ht : tokens (bBackslash :: d :: r) = .esc d :: tokens r := by
          rw [tokens.eq_def]; simp
        rw [ht, ← this, escapeLoop_cons]
        simp
    · have ih : ∀ b, escapeLoop fx b false rest = specLoop fx b (tokens rest) :=
        fun b => escapeLoop_eq_specLoop fx n rest hlen b
      have ht : tokens (c :: rest) = .lit c :: tokens rest := by
        rw [tokens.eq_def]; simp [hb]
      rw [ht]
      exact escapeLoop_lit fx brack c rest hb ih

/-! ### tokens with the unsigned counter → declarative rendering -/

theorem newDepth_cast (d : Nat) (t : Tok) (h : ¬ (t = .lit bClose ∧ d = 0)) : (newDepth d t : Int) = (d : Int) + t.delta := by
  have h9 := consts_ne.2.2.2.2.2.2.2.2
  cases t with
  | esc c => simp [newDepth, Tok.delta]
  | lit c =>
    simp only [newDepth, Tok.delta]
    by_cases ho : c = bOpen
    · simp [ho]
    · by_cases hc : c = bClose
      · subst hc
        have hd : d ≠ 0 := fun h0 => h ⟨rfl, h0⟩
        simp only [ho, if_false, if_true]
        omega
      · simp [ho, hc]

theorem balance_take_succ (t : Tok) (r : List Tok) (k : Nat) : balance ((t :: r).take (k + 1)) = t.delta + balance (r.take k) := by
  simp [List.take, balance]

theorem specLoop_ok (fx : Fixes) : ∀ (ts : List Tok) (d : Nat), (∀ k, 0 ≤ (d : Int) + balance (ts.take k)) →
    specLoop fx d ts = .ok (render fx d ts)
  | [], _, _ => by simp [specLoop, render]
  | t :: r, d, h => by
    have h1 := h 1
    have hne : ¬ (t = .lit bClose ∧ d = 0) := by
      rintro ⟨rfl, rfl⟩
      simp [balance, Tok.delta, consts_ne.2.2.2.2.2.2.2.2.symm] at h1
    have hcast := newDepth_cast d t hne
    have hrest : ∀ k, 0 ≤ ((newDepth d t : Nat) : Int) + balance (r.take k) := by
      intro k
      have := h (k + 1)
      rw [balance_take_succ] at this
      omega
    have ih := specLoop_ok fx r (newDepth d t) hrest
    simp only [specLoop, hne, if_false, ih, render, Except.map, hcast]
    have : decide ((d : Int) = 0) = decide (d = 0) := by
      by_cases h0 : d = 0 <;> simp [h0]
    rw [this]

theorem specLoop_err (fx : Fixes) : ∀ (ts : List Tok) (d : Nat), (∃ k, (d : Int) + balance (ts.take k) < 0) →
    specLoop fx d ts = .error .strayBracket
  | [], d, ⟨k, hk⟩ => by simp [balance] at hk; omega
  | t :: r, d, ⟨k, hk⟩ => by
    by_cases hne : t = .lit bClose ∧ d = 0
    · simp [specLoop, hne]
    · have hcast := newDepth_cast d t hne
      cases k with
      | zero => simp [balance] at hk; omega
      | succ k =>
        rw [balance_take_succ] at hk
        have ih := specLoop_err fx r (newDepth d t) ⟨k, by omega⟩
        simp only [specLoop, hne, if_false, ih, Except.map]

/-- pass 1, closed form -/
theorem escapeLoop_ok (fx : Fixes) (p : Bytes) (h : ∀ k, 0 ≤ balance ((tokens p).take k)) :
    escapeLoop fx 0 false p = .ok (render fx 0 (tokens p)) := by
  rw [escapeLoop_eq_specLoop fx p.length p (Nat.le_refl _) 0]
  have := specLoop_ok fx (tokens p) 0 (by simpa using h)
  simpa using this

theorem escapeLoop_err (fx : Fixes) (p : Bytes) (h : ∃ k, balance ((tokens p).take k) < 0) :
    escapeLoop fx 0 false p = .error .strayBracket := by
  rw [escapeLoop_eq_specLoop fx p.length p (Nat.le_refl _) 0]
  exact specLoop_err fx (tokens p) 0 (by simpa using h)

end LyModel.XsdRe
