import LyModel.XsdRe.SemLemmas
import LyModel.XsdRe.MceLemmas
/-!
# The repaired pass 1 (`escapeLoopM`) on canonical texts of the PCRE fragment (core Lean only)

* `escapeLoopM_eq_escapeLoop`: on ANY byte text in which no escape token (an unescaped backslash and the byte after it) has a
  row of the table as its second byte (`noMceEsc`), the loop with the table is the loop without it;
* `noMceEsc_render`: the canonical XSD text of a fragment pattern is such a text for every table whose letters are among
  `i I c C s S w W` (character level: `MSteps.pat`; bridge: `noMceEsc_utf8`);
* `escapeLoopM_render`, `rewriteM_render`.
-/
namespace LyModel.XsdRe

/-- the escape letters a table may have: `i I c C s S w W` -/
def mceLetters : List UInt8 := [105, 73, 99, 67, 115, 83, 119, 87]

/-- no escape token of the text (tracking `escaped` as the loops do) has a row of the table as its second byte -/
def noMceEsc (tbl : List (UInt8 × Bytes)) : Bool → Bytes → Bool
  | _, [] => true
  | true, c :: r => (mceLookup tbl c).isNone && noMceEsc tbl false r
  | false, c :: r => noMceEsc tbl (c == bBackslash) r

/-! ### the two loops -/

private theorem emap_map (x : Except RwErr Bytes) (f g : Bytes → Bytes) : (x.map f).map g = x.map (fun o => g (f o)) := by
  cases x <;> rfl

theorem escapeLoopM_eq_aux (tbl : List (UInt8 × Bytes)) (fx : Fixes) : ∀ (s : Bytes) (b : Nat),
    (noMceEsc tbl false s = true → escapeLoopM tbl fx b false s = escapeLoop fx b false s) ∧
    (noMceEsc tbl true s = true → escapeLoopM tbl fx b true s = (escapeLoop fx b true s).map (bBackslash :: ·))
  | [], b => by simp [escapeLoopM, escapeLoop, Except.map]
  | c :: rest, b => by
    have ih := escapeLoopM_eq_aux tbl fx rest
    constructor
    · intro h
      rw [escapeLoopM, escapeLoop_cons]
      simp only [Bool.false_eq_true, if_false, List.nil_append, Bool.not_false]
      by_cases hb : c = bBackslash
      · have h' : noMceEsc tbl true rest = true := by simpa [noMceEsc, hb] using h
        simp only [hb, if_true, (ih b).2 h']
      · have hb' : (c == bBackslash) = false := by simpa using hb
        have h' : noMceEsc tbl false rest = true := by simpa [noMceEsc, hb'] using h
        simp only [hb, if_false, (ih _).1 h', and_false, not_false_eq_true, and_true]
    · intro h
      simp only [noMceEsc, Bool.and_eq_true, Option.isNone_iff_eq_none] at h
      obtain ⟨hl, h'⟩ := h
      rw [escapeLoopM, escapeLoop_cons]
      simp only [if_true, hl, Bool.not_true, List.cons_append, List.nil_append]
      by_cases hb : c = bBackslash
      · simp only [hb, if_true, (ih b).1 h', emap_map]
      · simp only [hb, if_false, (ih _).1 h', Bool.true_eq_false, and_false, if_false]
        by_cases ha : c = bDollar ∨ c = bCaret
        · simp only [ha, if_true, and_true]
          split <;> simp [emap_map]
        · simp only [ha, if_false]
          by_cases ho : c = bOpen
          · simp only [ho, if_true, emap_map]
          · simp only [ho, if_false]
            by_cases hc : c = bClose <;> simp only [hc, if_true, if_false, emap_map]

/-- on a text without an escape of the table the repaired loop is the loop as it was -/
theorem escapeLoopM_eq_escapeLoop (tbl : List (UInt8 × Bytes)) (fx : Fixes) (b : Nat) (s : Bytes)
    (h : noMceEsc tbl false s = true) : escapeLoopM tbl fx b false s = escapeLoop fx b false s :=
  (escapeLoopM_eq_aux tbl fx s b).1 h

/-! ### character level -/

def mceLettersC : List Char := ['i', 'I', 'c', 'C', 's', 'S', 'w', 'W']

def noMceEscC : Bool → List Char → Bool
  | _, [] => true
  | true, c :: r => !(mceLettersC.contains c) && noMceEscC false r
  | false, c :: r => noMceEscC (c == '\\') r

/-- reading `chunk` from state `escaped = false` ends in `escaped = false` and meets no escape of the table -/
def MSteps (chunk : List Char) : Prop :=
  ∀ rest, noMceEscC false rest = true → noMceEscC false (chunk ++ rest) = true

theorem MSteps.nil : MSteps [] := fun _ h => h

theorem MSteps.append {a b : List Char} (ha : MSteps a) (hb : MSteps b) : MSteps (a ++ b) := by
  intro rest h
  rw [List.append_assoc]
  exact ha _ (hb _ h)

theorem MSteps.one (c : Char) (h : c ≠ '\\') : MSteps [c] := by
  intro rest hr
  have h' : (c == '\\') = false := by simpa using h
  simpa [noMceEscC, h'] using hr

theorem MSteps.cons {c : Char} {b : List Char} (h : c ≠ '\\') (hb : MSteps b) : MSteps (c :: b) :=
  MSteps.append (MSteps.one c h) hb

theorem MSteps.nobs : ∀ (cs : List Char), (∀ c ∈ cs, c ≠ '\\') → MSteps cs
  | [], _ => MSteps.nil
  | c :: cs, h => MSteps.cons (h c (by simp)) (MSteps.nobs cs (fun x hx => h x (by simp [hx])))

theorem MSteps.plains (cs : List Char) (h : ∀ c ∈ cs, isPlain c = true) : MSteps cs :=
  MSteps.nobs cs (fun c hc => ((isPlain_iff c).1 (h c hc)).1)

theorem MSteps.escaped (c : Char) (h : mceLettersC.contains c = false) : MSteps ['\\', c] := by
  intro rest hr
  have h' : c ∉ mceLettersC := by simpa using h
  simpa [noMceEscC, h'] using hr

theorem MSteps.escCons {c : Char} {b : List Char} (h : mceLettersC.contains c = false) (hb : MSteps b) :
    MSteps ('\\' :: c :: b) :=
  MSteps.append (MSteps.escaped c h) hb

theorem meta_not_letter (c : Char) (h : metaChars.contains c = true) : mceLettersC.contains c = false := by
  rw [metaChars_eq] at h
  simp only [List.contains_eq_mem, List.mem_cons, List.not_mem_nil, or_false, decide_eq_true_eq] at h
  rcases h with h | h | h | h | h | h | h | h | h | h | h | h <;> subst h <;> decide

theorem clsMeta_not_letter (c : Char) (h : clsMetaChars.contains c = true) : mceLettersC.contains c = false := by
  rw [clsMetaChars_eq] at h
  simp only [List.contains_eq_mem, List.mem_cons, List.not_mem_nil, or_false, decide_eq_true_eq] at h
  rcases h with h | h | h | h | h <;> subst h <;> decide

theorem MSteps.chr (c : Char) : MSteps (renderChr .xsd c) := by
  unfold renderChr
  split
  · exact MSteps.escaped 'n' (by decide)
  split
  · exact MSteps.escaped 'r' (by decide)
  split
  · exact MSteps.escaped 't' (by decide)
  split
  · rename_i h
    have hm : metaChars.contains c = true := by simpa [Dialect.xsd] using h
    exact MSteps.escaped c (meta_not_letter c hm)
  · rename_i h
    have hm : metaChars.contains c = false := by
      cases hh : metaChars.contains c
      · rfl
      · rw [hh] at h; simp at h
    exact MSteps.one c (by intro hc; subst hc; revert hm; decide)

theorem MSteps.clsChr (c : Char) : MSteps (renderClsChr c) := by
  unfold renderClsChr
  split
  · exact MSteps.escaped 'n' (by decide)
  split
  · exact MSteps.escaped 'r' (by decide)
  split
  · exact MSteps.escaped 't' (by decide)
  split
  · rename_i h
    exact MSteps.escaped c (clsMeta_not_letter c h)
  · rename_i h
    have hm : clsMetaChars.contains c = false := by
      cases hh : clsMetaChars.contains c
      · rfl
      · exact absurd hh h
    exact MSteps.one c (by intro hc; subst hc; revert hm; decide)

theorem MSteps.esc (neg : Bool) (e : Esc) (hwf : e.wf = true) (hd : e.inDialect .pcre = true) : MSteps (e.render neg) := by
  cases e with
  | dig => cases neg <;> exact MSteps.escaped _ (by decide)
  | word => simp [Esc.inDialect, Dialect.pcre] at hd
  | space => simp [Esc.inDialect, Dialect.pcre] at hd
  | nameStart => simp [Esc.inDialect, Dialect.pcre] at hd
  | nameChar => simp [Esc.inDialect, Dialect.pcre] at hd
  | block n => simp [Esc.inDialect, Dialect.pcre] at hd
  | cat n =>
    simp only [Esc.wf, Bool.and_eq_true, List.all_eq_true] at hwf
    have hn : ∀ c ∈ '{' :: (n.toList ++ ['}']), c ≠ '\\' := by
      intro c hc
      simp only [List.mem_cons, List.mem_append, List.not_mem_nil, or_false] at hc
      rcases hc with h | h | h
      · subst h; decide
      · exact ((isPlain_iff c).1 (isNameCh_plain c (hwf.1.2 c h))).1
      · subst h; decide
    exact MSteps.escCons (by cases neg <;> decide) (MSteps.nobs _ hn)

theorem MSteps.citem (i : CItem) (hwf : i.wf = true) (hd : i.inDialect .pcre = true) : MSteps i.render := by
  cases i with
  | ch c => exact MSteps.clsChr c
  | range lo hi => exact MSteps.append (MSteps.clsChr lo) (MSteps.cons (by decide) (MSteps.clsChr hi))
  | esc neg e => exact MSteps.esc neg e hwf hd

theorem MSteps.citems : ∀ (is : List CItem), (∀ i ∈ is, i.wf = true ∧ i.inDialect .pcre = true) →
    MSteps (is.flatMap CItem.render)
  | [], _ => MSteps.nil
  | i :: is, h => by
    simp only [List.flatMap_cons]
    exact MSteps.append (MSteps.citem i (h i (by simp)).1 (h i (by simp)).2)
      (MSteps.citems is (fun x hx => h x (by simp [hx])))

theorem MSteps.cgroup (g : CGroup) (h : ∀ i ∈ g.items, i.wf = true ∧ i.inDialect .pcre = true) : MSteps g.render := by
  unfold CGroup.render
  refine MSteps.append ?_ (MSteps.citems g.items h)
  cases g.neg
  · exact MSteps.nil
  · exact MSteps.one '^' (by decide)

theorem MSteps.cclass : ∀ (cc : CClass), (∀ g ∈ cc, ∀ i ∈ g.items, i.wf = true ∧ i.inDialect .pcre = true) →
    MSteps (CClass.render cc)
  | [], _ => MSteps.one ']' (by decide)
  | [g], h => by
    simp only [CClass.render]
    exact MSteps.append (MSteps.cgroup g (h g (by simp))) (MSteps.one ']' (by decide))
  | g :: g2 :: rest, h => by
    simp only [CClass.render]
    have ih := MSteps.cclass (g2 :: rest) (fun x hx => h x (by simp [hx]))
    exact MSteps.append (MSteps.cgroup g (h g (by simp)))
      (MSteps.cons (by decide) (MSteps.cons (by decide) (MSteps.append ih (MSteps.one ']' (by decide)))))

theorem MSteps.pat : ∀ (p : Pat), p.wf = true → p.inDialect .pcre = true → MSteps (p.render .xsd)
  | .eps, _, _ => MSteps.nil
  | .chr c, _, _ => MSteps.chr c
  | .dot, _, _ => MSteps.one '.' (by decide)
  | .esc neg e, h, hd => MSteps.esc neg e h hd
  | .cls cc, h, hd => by
    simp only [Pat.wf, CClass.wf, CGroup.wf, Bool.and_eq_true, List.all_eq_true] at h
    simp only [Pat.inDialect, CClass.inDialect, Bool.and_eq_true, List.all_eq_true] at hd
    exact MSteps.cons (by decide) (MSteps.cclass cc (fun g hg i hi => ⟨(h.2 g hg).2 i hi, hd.2 g hg i hi⟩))
  | .alt a b, h, hd => by
    simp only [Pat.wf, Pat.inDialect, Bool.and_eq_true] at h hd
    exact MSteps.append (MSteps.pat a h.1 hd.1) (MSteps.cons (by decide) (MSteps.pat b h.2 hd.2))
  | .cat a b, h, hd => by
    simp only [Pat.wf, Pat.inDialect, Bool.and_eq_true] at h hd
    exact MSteps.append (MSteps.pat a h.1 hd.1) (MSteps.pat b h.2 hd.2)
  | .rep p lo hi, h, hd => by
    simp only [Pat.wf, Pat.inDialect, Bool.and_eq_true] at h hd
    exact MSteps.append (MSteps.pat p h.1 hd.1) (MSteps.plains _ (renderQuant_plain lo hi))
  | .group p, h, hd => by
    simp only [Pat.wf, Pat.inDialect, Bool.and_eq_true] at h hd
    exact MSteps.cons (by decide) (MSteps.append (MSteps.pat p h.1 hd) (MSteps.one ')' (by decide)))

theorem noMceEscC_render (p : Pat) (hwf : p.wf = true) (hd : p.inDialect .pcre = true) :
    noMceEscC false (p.render .xsd) = true := by
  have := MSteps.pat p hwf hd [] rfl
  simpa using this

/-! ### bytes -/

theorem mceLookup_none (tbl : List (UInt8 × Bytes)) (htbl : ∀ e ∈ tbl, e.1 ∈ mceLetters) (x : UInt8) (hx : x ∉ mceLetters) :
    mceLookup tbl x = none := by
  simp only [mceLookup, Option.map_eq_none_iff, List.find?_eq_none, decide_eq_true_eq]
  intro e he hex
  exact hx (hex ▸ htbl e he)

theorem noMceEsc_skip (tbl : List (UInt8 × Bytes)) : ∀ (bs t : Bytes), (∀ x ∈ bs, x ≠ bBackslash) →
    noMceEsc tbl false (bs ++ t) = noMceEsc tbl false t
  | [], _, _ => rfl
  | x :: bs, t, h => by
    have hx : (x == bBackslash) = false := by simpa using h x (by simp)
    simp only [List.cons_append, noMceEsc, hx]
    exact noMceEsc_skip tbl bs t (fun y hy => h y (by simp [hy]))

/-- the bytes of a character that is no table letter are no table letters -/
theorem enc_not_letter (c : Char) (h : mceLettersC.contains c = false) : ∀ x ∈ String.utf8EncodeChar c, x ∉ mceLetters := by
  simp only [mceLettersC, List.contains_eq_mem, List.mem_cons, List.not_mem_nil, or_false, decide_eq_false_iff_not,
    not_or] at h
  obtain ⟨h1, h2, h3, h4, h5, h6, h7, h8⟩ := h
  intro x hx hm
  simp only [mceLetters, List.mem_cons, List.not_mem_nil, or_false] at hm
  rcases hm with hm | hm | hm | hm | hm | hm | hm | hm
  · exact enc_ne c 'i' (by decide) h1 x hx hm
  · exact enc_ne c 'I' (by decide) h2 x hx hm
  · exact enc_ne c 'c' (by decide) h3 x hx hm
  · exact enc_ne c 'C' (by decide) h4 x hx hm
  · exact enc_ne c 's' (by decide) h5 x hx hm
  · exact enc_ne c 'S' (by decide) h6 x hx hm
  · exact enc_ne c 'w' (by decide) h7 x hx hm
  · exact enc_ne c 'W' (by decide) h8 x hx hm

/-- the bridge -/
theorem noMceEsc_utf8 (tbl : List (UInt8 × Bytes)) (htbl : ∀ e ∈ tbl, e.1 ∈ mceLetters) : ∀ (cs : List Char) (e : Bool),
    noMceEscC e cs = true → noMceEsc tbl e (utf8 cs) = true
  | [], e, _ => by cases e <;> rfl
  | c :: cs, false, h => by
    by_cases hc : c = '\\'
    · subst hc
      rw [utf8_bs]
      have h' : noMceEscC true cs = true := by simpa [noMceEscC] using h
      have := noMceEsc_utf8 tbl htbl cs true h'
      simpa [noMceEsc] using this
    · have hc' : (c == '\\') = false := by simpa using hc
      have h' : noMceEscC false cs = true := by simpa [noMceEscC, hc'] using h
      rw [utf8_cons, noMceEsc_skip tbl _ _ (enc_ne c '\\' (by decide) hc)]
      exact noMceEsc_utf8 tbl htbl cs false h'
  | c :: cs, true, h => by
    simp only [noMceEscC, Bool.and_eq_true, Bool.not_eq_true'] at h
    obtain ⟨hl, h'⟩ := h
    have ih := noMceEsc_utf8 tbl htbl cs false h'
    rw [utf8_cons]
    cases he : String.utf8EncodeChar c with
    | nil => exact absurd he String.utf8EncodeChar_ne_nil
    | cons x xs =>
      have hx : mceLookup tbl x = none := mceLookup_none tbl htbl x (enc_not_letter c hl x (by simp [he]))
      have hxs : ∀ y ∈ xs, y ≠ bBackslash := by
        by_cases ha : c.toNat < 128
        · rw [enc_ascii c ha] at he
          simp only [List.cons.injEq] at he
          intro y hy; rw [← he.2] at hy; simp at hy
        · intro y hy hyb
          have := enc_high c (by omega) y (by simp [he, hy])
          rw [hyb] at this
          revert this; decide
      simp only [List.cons_append, noMceEsc, hx, Option.isNone_none, Bool.true_and]
      rw [noMceEsc_skip tbl _ _ hxs]
      exact ih

theorem noMceEsc_render (tbl : List (UInt8 × Bytes)) (htbl : ∀ e ∈ tbl, e.1 ∈ mceLetters) (p : Pat) (hwf : p.wf = true)
    (hd : p.inDialect .pcre = true) : noMceEsc tbl false (utf8 (p.render .xsd)) = true :=
  noMceEsc_utf8 tbl htbl _ false (noMceEscC_render p hwf hd)

/-! ### results -/

/-- a table of multi-character escapes `\i \I \c \C \s \S \w \W` changes nothing on the canonical text of a pattern of the
    PCRE fragment -/
theorem escapeLoopM_render (tbl : List (UInt8 × Bytes)) (htbl : ∀ e ∈ tbl, e.1 ∈ mceLetters) (fx : Fixes) (p : Pat)
    (hwf : p.wf = true) (hd : p.inDialect .pcre = true) :
    escapeLoopM tbl fx 0 false (utf8 (p.render .xsd)) = .ok (utf8 (p.render .pcre)) := by
  rw [escapeLoopM_eq_escapeLoop tbl fx 0 _ (noMceEsc_render tbl htbl p hwf hd)]
  exact escapeLoop_render fx p hwf hd

theorem rewriteM_render (tbl : List (UInt8 × Bytes)) (htbl : ∀ e ∈ tbl, e.1 ∈ mceLetters) (fx : Fixes) (p : Pat)
    (hwf : p.wf = true) (hd : p.inDialect .pcre = true) (hn : p.noNul = true) (hb : p.noClsBrace = true) :
    rewriteWithM tbl fx (utf8 (p.render .xsd)) = .ok (utf8 (p.render .pcre)) := by
  simp only [rewriteWithM, cstr_render .xsd p hwf hn, escapeLoopM_render tbl htbl fx p hwf hd]
  exact chblocks_render fx p hwf hd hb

end LyModel.XsdRe
