import LyModel.XsdRe.Rewrite
/-!
Pass 2 of the rewrite (`chblocksStep`, one round of the `while (strstr(perl_regex, "\\p{Is"))` loop of
`lys_compile_pattern_chblocks_xmlschema2perl`): contracts of the `strstr`/`strchr` models and the step in closed form
on a decomposed text `pre ++ "\p{Is" ++ name ++ "}" ++ post`.
-/
namespace LyModel.XsdRe

/-! ### `strstr` -/

theorem findSub_some {pat : Bytes} : ∀ {t : Bytes} {i : Nat}, findSub pat t = some i →
    pat.isPrefixOf (t.drop i) = true ∧ ∀ j, j < i → pat.isPrefixOf (t.drop j) = false
  | [], i, h => by
    simp only [findSub] at h
    by_cases hp : pat.isEmpty = true
    · simp only [hp, if_true, Option.some.injEq] at h
      subst h
      have : pat = [] := by simpa using hp
      subst this
      exact ⟨by simp, fun j hj => by omega⟩
    · simp [hp] at h
  | c :: t, i, h => by
    simp only [findSub] at h
    by_cases hp : pat.isPrefixOf (c :: t) = true
    · simp only [hp, if_true, Option.some.injEq] at h
      subst h
      exact ⟨by simpa using hp, fun j hj => by omega⟩
    · simp only [hp, Bool.false_eq_true, if_false, Option.map_eq_some_iff] at h
      obtain ⟨k, hk, rfl⟩ := h
      obtain ⟨h1, h2⟩ := findSub_some hk
      refine ⟨by simpa using h1, ?_⟩
      intro j hj
      cases j with
      | zero =>
        simp only [Bool.not_eq_true] at hp
        simpa using hp
      | succ j => simpa using h2 j (by omega)

/-- the first occurrence is found -/
theorem findSub_first {pat : Bytes} : ∀ (pre rest : Bytes),
    (∀ j, j < pre.length → pat.isPrefixOf ((pre ++ (pat ++ rest)).drop j) = false) →
    findSub pat (pre ++ (pat ++ rest)) = some pre.length
  | [], rest, _ => by
    cases hpr : pat ++ rest with
    | nil =>
      have : pat = [] := (List.append_eq_nil_iff.mp hpr).1
      simp [findSub, this]
    | cons c t =>
      have : pat.isPrefixOf (c :: t) = true := by
        rw [← hpr]; simp
      simp [findSub, this]
  | c :: pre, rest, h => by
    have h0 := h 0 (by simp)
    simp only [List.drop_zero] at h0
    have ih := findSub_first pre rest (fun j hj => by
      have := h (j + 1) (by simp; omega)
      simpa using this)
    simp only [List.cons_append, findSub]
    simp only [List.cons_append] at h0
    simp [h0, ih]

/-! ### `strchr` -/

theorem findByte_append {b : UInt8} : ∀ (name post : Bytes), b ∉ name → findByte b (name ++ b :: post) = some name.length
  | [], post, _ => by simp [findByte]
  | c :: name, post, h => by
    have hc : c ≠ b := fun e => h (by simp [e])
    have hn : b ∉ name := fun e => h (by simp [e])
    simp [findByte, hc, findByte_append name post hn]

/-! ### table lookup -/

theorem findIdx?_lt {α : Type} (p : α → Bool) : ∀ (l : List α) (i : Nat), l.findIdx? p = some i → i < l.length := by
  intro l i h
  exact (List.findIdx?_eq_some_iff_findIdx_eq.mp h).1

theorem findIdx?_sat {α : Type} (p : α → Bool) (l : List α) (i : Nat) (h : l.findIdx? p = some i) (d : α) :
    p (l.getD i d) = true := by
  have hlt := findIdx?_lt p l i h
  have := List.findIdx?_eq_some_iff_getElem.mp h
  obtain ⟨hl, hp, _⟩ := this
  simpa [List.getD_eq_getElem?_getD, List.getElem?_eq_getElem hl] using hp

/-! ### the step in closed form -/

theorem rbrace_not_in_needle : bRBrace ∉ needle := by decide

/-- what one round does to `pre ++ "\p{Is" ++ name ++ "}" ++ post` when that is the first occurrence of the needle and
    `name` has no `}`: the block is looked up (exactly / by prefix), the row is the found one (repaired) or the bracket
    depth of `pre` (F1), the depth is the one of the escape-aware loop (repaired) or of the previous-byte loop (F190), and
    the replacement is the row's range text with or without its brackets, in the row's own length (repaired) or cut /
    padded to `ulen` (F187). -/
theorem chblocksStep_at (fx : Fixes) (tbl : List (Bytes × Bytes)) (ulen : Nat) (pre name post : Bytes)
    (hfirst : ∀ j, j < pre.length → needle.isPrefixOf ((pre ++ (needle ++ (name ++ bRBrace :: post))).drop j) = false)
    (hname : bRBrace ∉ name) :
    chblocksStep fx tbl ulen (pre ++ (needle ++ (name ++ bRBrace :: post))) =
      match (if fx.f186 then findBlockExact tbl name else findBlock tbl (name ++ bRBrace :: post)) with
      | Option.none => .fail .unknownBlock
      | some found =>
        let depth := depthWith fx pre
        let row : Int := if fx.f1 then (found : Int) else depth
        if row < 0 ∨ row ≥ (tbl.length : Int) then .fail .crash
        else
          let range := (tbl.getD row.toNat ([], [])).2
          let n := copyLen fx.f187 ulen range
          .next (pre ++ (if depth ≠ 0 then (range.drop 1).take (n - 2) else range.take n) ++ post) := by
  have hs := findSub_first (pat := needle) pre (name ++ bRBrace :: post) hfirst
  have hdrop : (pre ++ (needle ++ (name ++ bRBrace :: post))).drop pre.length = needle ++ (name ++ bRBrace :: post) := by
    simp
  have hnb : bRBrace ∉ needle ++ name := by
    intro h
    rcases List.mem_append.mp h with h | h
    · exact rbrace_not_in_needle h
    · exact hname h
  have hfb : findByte bRBrace (needle ++ (name ++ bRBrace :: post)) = some (needle.length + name.length) := by
    have := findByte_append (b := bRBrace) (needle ++ name) post hnb
    simpa [List.append_assoc] using this
  have hafter : (pre ++ (needle ++ (name ++ bRBrace :: post))).drop (pre.length + needle.length) = name ++ bRBrace :: post := by
    rw [← List.drop_drop, hdrop]; simp
  have htake : (pre ++ (needle ++ (name ++ bRBrace :: post))).take pre.length = pre := by simp
  have hstop : (pre ++ (needle ++ (name ++ bRBrace :: post))).drop (pre.length + (needle.length + name.length) + 1) = post := by
    have : pre.length + (needle.length + name.length) + 1 = pre.length + (needle.length + (name.length + 1)) := by omega
    rw [this, ← List.drop_drop, hdrop, ← List.drop_drop]
    simp
  have hnm : (name ++ bRBrace :: post).take (needle.length + name.length - needle.length) = name := by
    simp
  simp only [chblocksStep, hs, hdrop, hfb, hafter, htake, hstop, hnm]
  cases (if fx.f186 = true then findBlockExact tbl name else findBlock tbl (name ++ bRBrace :: post)) with
  | none => rfl
  | some found => rfl

/-- the step with F1 and F186 repaired on `pre ++ "\\p{Is" ++ name ++ "}" ++ post`: the row named exactly `name`, with or without
    its brackets according to the depth the step works with (`depthWith`), in the length the step copies (`copyLen`);
    any other name is refused -/
theorem chblocksStep_found (fx : Fixes) (h1 : fx.f1 = true) (h186 : fx.f186 = true)
    (tbl : List (Bytes × Bytes)) (ulen : Nat) (pre name post : Bytes)
    (hfirst : ∀ j, j < pre.length → needle.isPrefixOf ((pre ++ (needle ++ (name ++ bRBrace :: post))).drop j) = false)
    (hname : bRBrace ∉ name) :
    (∀ i, findBlockExact tbl name = some i →
      (tbl.getD i ([], [])).1 = name ∧
      chblocksStep fx tbl ulen (pre ++ (needle ++ (name ++ bRBrace :: post))) =
        .next (pre ++ (if depthWith fx pre = 0
                       then (tbl.getD i ([], [])).2.take (copyLen fx.f187 ulen (tbl.getD i ([], [])).2)
                       else ((tbl.getD i ([], [])).2.drop 1).take (copyLen fx.f187 ulen (tbl.getD i ([], [])).2 - 2)) ++ post)) ∧
    (findBlockExact tbl name = Option.none →
      chblocksStep fx tbl ulen (pre ++ (needle ++ (name ++ bRBrace :: post))) = .fail .unknownBlock) := by
  have hstep := chblocksStep_at fx tbl ulen pre name post hfirst hname
  constructor
  · intro i hi
    have hlt := findIdx?_lt _ _ _ hi
    have hsat := findIdx?_sat _ _ _ hi ([], [])
    refine ⟨by simpa using hsat, ?_⟩
    rw [hstep]
    simp only [h186, if_true, hi, h1]
    have : ¬ ((i : Int) < 0 ∨ (i : Int) ≥ (tbl.length : Int)) := by omega
    simp only [this, if_false, Int.toNat_natCast]
    by_cases hd : depthWith fx pre = 0 <;> simp [hd]
  · intro hn
    rw [hstep]
    simp only [h186, if_true, hn]

/-- with F1 repaired the row index always lies inside the table: no round can crash -/
theorem chblocksStep_no_crash (fx : Fixes) (hf : fx.f1 = true) (tbl : List (Bytes × Bytes)) (ulen : Nat) (t : Bytes) :
    chblocksStep fx tbl ulen t ≠ .fail .crash := by
  unfold chblocksStep
  cases findSub needle t with
  | none => simp
  | some start =>
    simp only []
    cases findByte bRBrace (t.drop start) with
    | none => simp
    | some e =>
      simp only []
      generalize hq : (if fx.f186 = true then findBlockExact tbl ((t.drop (start + needle.length)).take (e - needle.length))
        else findBlock tbl (t.drop (start + needle.length))) = q
      cases q with
      | none => simp
      | some found =>
        have hlt : found < tbl.length := by
          by_cases h186 : fx.f186 = true
          · rw [if_pos h186] at hq
            exact findIdx?_lt _ _ _ hq
          · rw [if_neg h186] at hq
            exact findIdx?_lt _ _ _ hq
        simp [hf]
        exact hlt

theorem chblocksLoop_no_crash (fx : Fixes) (hf : fx.f1 = true) (tbl : List (Bytes × Bytes)) (ulen : Nat) :
    ∀ (n : Nat) (t : Bytes), chblocksLoop fx tbl ulen n t ≠ .error .crash
  | 0, _ => by simp [chblocksLoop]
  | n + 1, t => by
    simp only [chblocksLoop]
    have hs := chblocksStep_no_crash fx hf tbl ulen t
    split
    · intro h; cases h
    · exact chblocksLoop_no_crash fx hf tbl ulen n _
    · rename_i e he
      intro h
      cases h
      exact hs he

end LyModel.XsdRe
