/-!
# XsdRe — regular expressions over a parametric symbol predicate (core Lean only)

`Regex α` is the abstract syntax the XSD pattern parser (`XsdRe/Parse.lean`) produces: alternation,
concatenation, bounded/unbounded repetition `{lo,hi}` (which also encodes `* + ?`), and single-symbol
atoms given by an arbitrary predicate `α → Bool` (a literal, `.`, a character class with ranges, negation
and subtraction, `\d \w \s \i \c \p{..}` and their negations all become one predicate).

* `L r : List α → Prop` — the denotation (written from the definition of a regular language, not from
  any matcher): the spec of C18.
* `matches r s : Bool` — executable Brzozowski-derivative matcher, the oracle the correspondence runs.
* `Lemmas.lean` proves `matches r s = true ↔ L r s` for all `r`, `s`.
-/
namespace LyModel.XsdRe

inductive Regex (α : Type) where
  /-- the empty language -/
  | zero : Regex α
  /-- the empty string -/
  | one : Regex α
  /-- one symbol satisfying `p` -/
  | sym (p : α → Bool) : Regex α
  | alt (a b : Regex α) : Regex α
  | cat (a b : Regex α) : Regex α
  /-- between `lo` and `hi` (`none` = unbounded) repetitions -/
  | rep (r : Regex α) (lo : Nat) (hi : Option Nat) : Regex α

namespace Regex
variable {α : Type}

/-- `n`-fold concatenation power of a language -/
def Pow (P : List α → Prop) : Nat → List α → Prop
  | 0, s => s = []
  | n + 1, s => ∃ u v, s = u ++ v ∧ P u ∧ Pow P n v

/-- `n` is an admissible repetition count for the quantifier `{lo,hi}` -/
def InBounds (lo : Nat) (hi : Option Nat) (n : Nat) : Prop :=
  lo ≤ n ∧ ∀ m, hi = some m → n ≤ m

/-- denotation -/
def L : Regex α → List α → Prop
  | zero, _ => False
  | one, s => s = []
  | sym p, s => ∃ c, s = [c] ∧ p c = true
  | alt a b, s => L a s ∨ L b s
  | cat a b, s => ∃ u v, s = u ++ v ∧ L a u ∧ L b v
  | rep r lo hi, s => ∃ n, InBounds lo hi n ∧ Pow (L r) n s

/-- `lo ≤ hi` for an optional upper bound -/
def hiOk (lo : Nat) : Option Nat → Bool
  | none => true
  | some m => decide (lo ≤ m)

def nullable : Regex α → Bool
  | zero => false
  | one => true
  | sym _ => false
  | alt a b => nullable a || nullable b
  | cat a b => nullable a && nullable b
  | rep r lo hi => lo == 0 || (nullable r && hiOk lo hi)

/-- Brzozowski derivative with respect to the symbol `c` -/
def deriv (c : α) : Regex α → Regex α
  | zero => zero
  | one => zero
  | sym p => if p c then one else zero
  | alt a b => alt (deriv c a) (deriv c b)
  | cat a b => if nullable a then alt (cat (deriv c a) b) (deriv c b) else cat (deriv c a) b
  | rep r lo hi =>
    match hi with
    | none => cat (deriv c r) (rep r (lo - 1) none)
    | some 0 => zero
    | some (m + 1) => cat (deriv c r) (rep r (lo - 1) (some m))

/-- whole-string match -/
def «matches» (r : Regex α) : List α → Bool
  | [] => nullable r
  | c :: s => «matches» (deriv c r) s

/-- one pattern restriction with its `invert-match` modifier, as `lyplg_type_validate_patterns` evaluates it:
    the value violates the restriction when (no match ∧ ¬inverted) ∨ (match ∧ inverted). -/
def satisfies (inverted : Bool) (r : Regex α) (s : List α) : Bool :=
  let m := «matches» r s
  !((!m && !inverted) || (m && inverted))

/-- the pattern list of a type: every restriction must be satisfied (first violation wins in C; the verdict is the conjunction) -/
def validatePatterns (ps : List (Regex α × Bool)) (s : List α) : Bool :=
  ps.all fun p => satisfies p.2 p.1 s

/-- abbreviations the parser uses -/
def star (r : Regex α) : Regex α := rep r 0 none
def plus (r : Regex α) : Regex α := rep r 1 none
def opt (r : Regex α) : Regex α := rep r 0 (some 1)

end Regex
end LyModel.XsdRe
