import LyModel.XsdRe.Parse
import LyModel.XsdRe.ToPcre
import LyModel.XsdRe.Rewrite
/-! driver ops of component `xsdre` (C18) -/
namespace LyModel.XsdRe.Drv
open LyModel LyModel.XsdRe

/-- all strings of length exactly `n` over `A`, lexicographic in the order of `A` -/
def strsOfLen (A : List Char) : Nat → List (List Char)
  | 0 => [[]]
  | n + 1 => A.flatMap fun c => (strsOfLen A n).map (c :: ·)

/-- verdicts for `strsOfLen A n`, sharing the derivatives of common prefixes -/
def gridLevel (A : List Char) (r : Regex Char) : Nat → List Bool
  | 0 => [r.nullable]
  | n + 1 => A.flatMap fun c => gridLevel A (r.deriv c) n

def grid (A : List Char) (r : Regex Char) (maxlen : Nat) : List Bool :=
  (List.range (maxlen + 1)).flatMap (gridLevel A r)

def bits (inv : Bool) (l : List Bool) : String :=
  String.ofList (l.map fun m => if (!((!m && !inv) || (m && inv))) then '1' else '0')

def parseFlags (s : String) : Fixes :=
  let fs := s.splitOn ","
  { f1 := fs.contains "f1", f25 := fs.contains "f25", f186 := fs.contains "f186", f190 := fs.contains "f190",
    f187 := fs.contains "f187" }

def handle (op : String) (args : List String) : String :=
  match op, args with
  | "match", [ph, sh, inv] =>
    match Hex.dec ph, Hex.dec sh with
    | some p, some s =>
      match parseXsd p with
      | .error e => "err " ++ e.name
      | .ok pat =>
        match decodeUtf8 s with
        | none => "err BadUtf8Str"
        | some cs => "ok " ++ bits (inv == "1") [pat.toRegex.matches cs]
    | _, _ => "err BadHex"
  | "grid", ph :: inv :: ah :: ml :: _ =>
    match Hex.dec ph, Hex.dec ah, ml.toNat? with
    | some p, some a, some n =>
      match parseXsd p, decodeUtf8 a with
      | .error e, _ => "err " ++ e.name
      | .ok _, none => "err BadUtf8Str"
      | .ok pat, some A => "ok " ++ bits (inv == "1") (grid A pat.toRegex n)
    | _, _, _ => "err BadArg"
  | "matchn", ph :: inv :: strs =>
    match Hex.dec ph with
    | some p =>
      match parseXsd p with
      | .error e => "err " ++ e.name
      | .ok pat =>
        let r := pat.toRegex
        let out := strs.map fun sh =>
          match Hex.dec sh with
          | some s => match decodeUtf8 s with
            | some cs => if (Regex.satisfies (inv == "1") r cs) then '1' else '0'
            | none => 'u'
          | none => 'x'
        "ok " ++ String.ofList out
    | none => "err BadHex"
  | "rewrite", [fl, ph] =>
    match Hex.dec ph with
    | some p =>
      match rewriteWithM Generated.UBlocks.mceTable (parseFlags fl) p with
      | .ok t => "ok " ++ Hex.enc t
      | .error e => "err " ++ e.name
    | none => "err BadHex"
  | "topcre", [ph] =>
    match Hex.dec ph with
    | some p =>
      match parseXsd p with
      | .error e => "err " ++ e.name
      | .ok pat => "ok " ++ Hex.enc (bytesOfString pat.toPcre)
    | none => "err BadHex"
  | "mce", _ => "ok " ++ (if Generated.UBlocks.mceTable.isEmpty then "-" else
      String.ofList (Generated.UBlocks.mceTable.map fun e => Char.ofNat e.1.toNat))
  | "opts", _ => "ok " ++ ",".intercalate (Generated.UBlocks.compileOpts.toArray.qsort (· < ·)).toList
  | "features", [ph] =>
    match Hex.dec ph with
    | some p =>
      match parseXsd p with
      | .error e => "err " ++ e.name
      | .ok pat => "ok " ++ (if pat.features.isEmpty then "-" else ",".intercalate pat.features.eraseDups)
    | none => "err BadHex"
  | _, _ => "err BadOp"

end LyModel.XsdRe.Drv
