import LyModel.XsdRe.Parse
import LyModel.XsdRe.ToPcre
import LyModel.XsdRe.Rewrite
import LyModel.XsdRe.Sem
import LyModel.XsdRe.RewriteSub
/-! driver ops of component `xsdre` (C18) -/
namespace LyModel.XsdRe.Drv
open LyModel LyModel.XsdRe

/-- all strings of length exactly `n` over `A`, lexicographic in the order of `A` -/
def strsOfLen (A : List Char) : Nat → List (List Char)
  | 0 => [[]]
  | n + 1 => A.flatMap fun c => (strsOfLen A n).map (c :: ·)

/-- verdicts for `strsOfLen A n`, sharing the derivatives of common prefixes -/
def gridLevel (A : List Char) (r : Regex Char) : Nat → List Bool
  | 0 => [r.nullable]
  | n + 1 => A.flatMap fun c => gridLevel A (r.deriv c) n

def grid (A : List Char) (r : Regex Char) (maxlen : Nat) : List Bool :=
  (List.range (maxlen + 1)).flatMap (gridLevel A r)

def bits (inv : Bool) (l : List Bool) : String :=
  String.ofList (l.map fun m => if (!((!m && !inv) || (m && inv))) then '1' else '0')

def parseFlags (s : String) : Fixes :=
  let fs := s.splitOn ","
  { f1 := fs.contains "f1", f25 := fs.contains "f25", f186 := fs.contains "f186", f190 := fs.contains "f190",
    f187 := fs.contains "f187" }

/-- the fragment of `Props/C18Sem.rewrite_preserves_language` -/
def inFragment (p : Pat) : Bool := p.Canon && p.inDialect .pcre && p.noNul && p.noClsBrace

def quantName (lo : Nat) : Option Nat → String
  | none => if lo = 0 then "q*" else if lo = 1 then "q+" else "q{n,}"
  | some hi => if lo = 0 ∧ hi = 1 then "q?" else if lo = hi then "q{n}" else "q{n,m}"

def chrName (inCls : Bool) (c : Char) : String :=
  if c == '\n' || c == '\r' || c == '\t' then "chr-nrt"
  else if (if inCls then clsMetaChars else metaChars).contains c then "chr-escaped"
  else if c == '^' || c == '$' then "chr-anchor"
  else if c.toNat ≥ 128 then "chr-nonascii" else "chr-plain"

def itemConstructs : CItem → List String
  | .ch c => ["cls-" ++ chrName true c]
  | .range _ _ => ["cls-range"]
  | .esc neg e => ["cls-esc-" ++ e.feature neg]

/-- the constructs of the printer that occur in a tree (distribution report of the check) -/
def patConstructs : Pat → List String
  | .eps => ["empty-branch"]
  | .chr c => [chrName false c]
  | .dot => ["dot"]
  | .esc neg e => ["esc-" ++ e.feature neg]
  | .cls cc => (if cc.length > 1 then ["cls-subtraction"] else []) ++
      cc.flatMap fun g => (if g.neg then "cls-neg" else "cls-pos") :: g.items.flatMap itemConstructs
  | .alt a b => "alt" :: (patConstructs a ++ patConstructs b)
  | .cat a b => "cat" :: (patConstructs a ++ patConstructs b)
  | .rep p lo hi => quantName lo hi :: patConstructs p
  | .group p => "group" :: patConstructs p

def b01 (b : Bool) : String := if b then "1" else "0"

def handle (op : String) (args : List String) : String :=
  match op, args with
  | "match", [ph, sh, inv] =>
    match Hex.dec ph, Hex.dec sh with
    | some p, some s =>
      match parseXsd p with
      | .error e => "err " ++ e.name
      | .ok pat =>
        match decodeUtf8 s with
        | none => "err BadUtf8Str"
        | some cs => "ok " ++ bits (inv == "1") [pat.toRegex.matches cs]
    | _, _ => "err BadHex"
  | "grid", ph :: inv :: ah :: ml :: _ =>
    match Hex.dec ph, Hex.dec ah, ml.toNat? with
    | some p, some a, some n =>
      match parseXsd p, decodeUtf8 a with
      | .error e, _ => "err " ++ e.name
      | .ok _, none => "err BadUtf8Str"
      | .ok pat, some A => "ok " ++ bits (inv == "1") (grid A pat.toRegex n)
    | _, _, _ => "err BadArg"
  | "matchn", ph :: inv :: strs =>
    match Hex.dec ph with
    | some p =>
      match parseXsd p with
      | .error e => "err " ++ e.name
      | .ok pat =>
        let r := pat.toRegex
        let out := strs.map fun sh =>
          match Hex.dec sh with
          | some s => match decodeUtf8 s with
            | some cs => if (Regex.satisfies (inv == "1") r cs) then '1' else '0'
            | none => 'u'
          | none => 'x'
        "ok " ++ String.ofList out
    | none => "err BadHex"
  | "rewrite", [fl, ph] =>
    match Hex.dec ph with
    | some p =>
      match rewriteSrc (parseFlags fl) p with
      | .ok t => "ok " ++ Hex.enc t
      | .error e => "err " ++ e.name
    | none => "err BadHex"
  | "topcre", [ph] =>
    match Hex.dec ph with
    | some p =>
      match parseXsd p with
      | .error e => "err " ++ e.name
      | .ok pat => "ok " ++ Hex.enc (bytesOfString pat.toPcre)
    | none => "err BadHex"
  | "canon", [ph] =>
    -- parse, print canonically, parse again; the fragment predicate; the theorem instance `rewrite_render` evaluated
    match Hex.dec ph with
    | some p =>
      match parseXsd p with
      | .error e => "err " ++ e.name
      | .ok pat =>
        let txt := renderXsd pat
        let back := match parseChars txt with | .ok q => q == pat | .error _ => false
        let frag := inFragment pat
        let sem := match rewriteSrc Fixes.all (utf8 txt) with
          | .ok t => t == utf8 (pat.render .pcre) && (match parseCharsD .pcre (pat.render .pcre) with | .ok q => q == pat | .error _ => false)
          | .error _ => false
        "ok " ++ Hex.enc (utf8 txt) ++ " " ++ b01 back ++ " " ++ b01 pat.Canon ++ " " ++ b01 frag ++ " " ++ b01 sem ++ " " ++
          Hex.enc (utf8 (pat.render .pcre)) ++ " " ++ ";".intercalate (patConstructs pat).eraseDups
    | none => "err BadHex"
  | "subtraction", _ => "ok " ++ b01 Generated.UBlocks.subtraction
  | "negblocks", _ => "ok " ++ b01 Generated.UBlocks.negBlocks
  | "mce", _ => "ok " ++ (if Generated.UBlocks.mceTable.isEmpty then "-" else
      String.ofList (Generated.UBlocks.mceTable.map fun e => Char.ofNat e.1.toNat))
  | "opts", _ => "ok " ++ ",".intercalate (Generated.UBlocks.compileOpts.toArray.qsort (· < ·)).toList
  | "features", [ph] =>
    match Hex.dec ph with
    | some p =>
      match parseXsd p with
      | .error e => "err " ++ e.name
      | .ok pat => "ok " ++ (if pat.features.isEmpty then "-" else ",".intercalate pat.features.eraseDups)
    | none => "err BadHex"
  | _, _ => "err BadOp"

end LyModel.XsdRe.Drv
