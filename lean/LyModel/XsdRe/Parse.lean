import LyModel.Base
import LyModel.XsdRe.Regex
import LyModel.XsdRe.Unicode
/-!
# Parser for XML Schema regular expressions (spec side of C18; core Lean only)

Grammar: XML Schema Part 2: Datatypes (2nd ed.) Appendix F, productions [1]–[27], read with these documented choices:

* `{` and `}` are metacharacters (they are in the prose list of F and in XSD 1.1; production [10] of 1.0 omits them);
* `\$` is accepted as the literal `$` (not a SingleCharEsc of the Recommendation — `$` needs no escape in XSD — but every
  implementation accepts it and YANG modules use it);
* an unescaped `-` in a character group is a literal only as its first or its last member (F.1 prose), `^` is a literal
  anywhere but directly after `[`;
* `\i` / `\c` are XML 1.0 (5th ed.) NameStartChar / NameChar.

`^` and `$` outside a character class are ordinary characters; the whole string must match (implicit anchoring).
The result `Pat` keeps the syntax (for feature reports); `Pat.toRegex` gives the `Regex Char` whose denotation `Regex.L`
is the spec.
-/
namespace LyModel.XsdRe

inductive ReErr where
  | badUtf8
  | syn (what : String)
  | fuel
deriving Repr, BEq

def ReErr.name : ReErr → String
  | .badUtf8 => "BadUtf8"
  | .syn _ => "Syntax"
  | .fuel => "Fuel"

/-- multi-character / category / block escapes (negation is kept separately) -/
inductive Esc where
  | dig | word | space | nameStart | nameChar
  | cat (name : String)
  | block (name : String)
deriving Repr, BEq, DecidableEq

def Esc.mem : Esc → Char → Bool
  | .dig, c => Unicode.isXsdDigit c
  | .word, c => Unicode.isXsdWord c
  | .space, c => Unicode.isXsdSpace c
  | .nameStart, c => Unicode.isNameStart c
  | .nameChar, c => Unicode.isNameChar c
  | .cat n, c => Unicode.inCategory n c
  | .block n, c => match Unicode.blockRanges n with
    | some rs => Unicode.inRanges rs c
    | none => false

inductive CItem where
  | ch (c : Char)
  | range (lo hi : Char)
  | esc (neg : Bool) (e : Esc)
deriving Repr, BEq, DecidableEq

def CItem.mem : CItem → Char → Bool
  | .ch a, c => a == c
  | .range lo hi, c => decide (lo ≤ c) && decide (c ≤ hi)
  | .esc neg e, c => e.mem c != neg

/-- one `posCharGroup` / `negCharGroup` -/
structure CGroup where
  neg : Bool
  items : List CItem
deriving Repr, BEq

def CGroup.mem (g : CGroup) (c : Char) : Bool := (g.items.any fun i => i.mem c) != g.neg

/-- a character class expression `[g₁-[g₂-[g₃…]]]`: `g₁` minus (`g₂` minus (`g₃` …)) -/
abbrev CClass := List CGroup

def CClass.mem : CClass → Char → Bool
  | [], _ => false
  | g :: rest, c => g.mem c && !(CClass.mem rest c)

inductive Pat where
  | eps
  | chr (c : Char)
  | dot
  | esc (neg : Bool) (e : Esc)
  | cls (cc : CClass)
  | alt (a b : Pat)
  | cat (a b : Pat)
  | rep (p : Pat) (lo : Nat) (hi : Option Nat)
  | group (p : Pat)
deriving Repr, BEq

/-- XSD `.` = `[^\n\r]` -/
def dotMem (c : Char) : Bool := !(c == '\n' || c == '\r')

def Pat.toRegex : Pat → Regex Char
  | .eps => .one
  | .chr a => .sym fun c => a == c
  | .dot => .sym dotMem
  | .esc neg e => .sym fun c => e.mem c != neg
  | .cls cc => .sym cc.mem
  | .alt a b => .alt a.toRegex b.toRegex
  | .cat a b => .cat a.toRegex b.toRegex
  | .rep p lo hi => .rep p.toRegex lo hi
  | .group p => p.toRegex

/-! ### lexical pieces -/

inductive EscTok where
  | lit (c : Char)
  | cls (neg : Bool) (e : Esc)

def singleEscChars : List Char := "\\|.?*+(){}-[]^$".toList

/-- The two concrete syntaxes this file reads.  `xsd` is the grammar of the Recommendation (the spec of C18).  `pcre` is the
    subset of PCRE2 syntax that `lys_compile_type_pattern_check` emits for patterns on which the two syntaxes agree
    (`XsdRe/Pcre.lean`, `Props/C18Sem.lean`): the same productions minus the constructs that PCRE2 does not have or reads
    differently, plus `\x{H…}`.  Every construct the `pcre` dialect accepts is given the meaning PCRE2 documents for it
    under the compile options of the source (`Pat.toRegex`). -/
structure Dialect where
  /-- a raw `^` / `$` outside a character class is an ordinary character (XSD); in PCRE2 they are assertions, which the
      subset does not contain -/
  rawAnchors : Bool
  /-- `\i \I \c \C \w \W \s \S` (PCRE2: `\i` does not exist, `\c` is a control escape, `\w \s` mean something else) -/
  multiEsc : Bool
  /-- `\p{IsBlock}` / `\P{IsBlock}` (PCRE2 has no such property names) -/
  isBlocks : Bool
  /-- class subtraction `[a-z-[aeiou]]` (PCRE2 10.42 has no nested classes) -/
  subtraction : Bool
  /-- `\x{H…}` (not XSD) -/
  hexEsc : Bool
  /-- largest number in a `{n,m}` quantifier (PCRE2: 65535) -/
  maxQuant : Option Nat
deriving Repr, BEq, DecidableEq

def Dialect.xsd : Dialect := { rawAnchors := true, multiEsc := true, isBlocks := true, subtraction := true, hexEsc := false, maxQuant := none }
def Dialect.pcre : Dialect := { rawAnchors := false, multiEsc := false, isBlocks := false, subtraction := false, hexEsc := true, maxQuant := some 65535 }

def isNameCh (c : Char) : Bool := c.isAlphanum || c == '-'

/-- after `\p` / `\P`: `{Name}`; `IsX` names a block, anything else a general category -/
def parseProp (neg : Bool) : List Char → Except ReErr (EscTok × List Char)
  | '{' :: r =>
    let (nm, r') := r.span isNameCh
    match r' with
    | '}' :: r'' =>
      match nm with
      | 'I' :: 's' :: b =>
        let bn := String.ofList b
        if (Unicode.blockRanges bn).isSome then .ok (.cls neg (.block bn), r'') else .error (.syn "unknown block")
      | _ =>
        let name := String.ofList nm
        if Unicode.categoryNames.contains name then .ok (.cls neg (.cat name), r'')
        else .error (.syn "unknown category")
    | _ => .error (.syn "malformed \\p")
  | _ => .error (.syn "malformed \\p")

/-- the text after a backslash (all escapes of the XSD grammar) -/
def parseEscape0 : List Char → Except ReErr (EscTok × List Char)
  | [] => .error (.syn "trailing backslash")
  | 'n' :: r => .ok (.lit '\n', r)
  | 'r' :: r => .ok (.lit '\r', r)
  | 't' :: r => .ok (.lit '\t', r)
  | 'd' :: r => .ok (.cls false .dig, r)
  | 'D' :: r => .ok (.cls true .dig, r)
  | 'w' :: r => .ok (.cls false .word, r)
  | 'W' :: r => .ok (.cls true .word, r)
  | 's' :: r => .ok (.cls false .space, r)
  | 'S' :: r => .ok (.cls true .space, r)
  | 'i' :: r => .ok (.cls false .nameStart, r)
  | 'I' :: r => .ok (.cls true .nameStart, r)
  | 'c' :: r => .ok (.cls false .nameChar, r)
  | 'C' :: r => .ok (.cls true .nameChar, r)
  | 'p' :: r => parseProp false r
  | 'P' :: r => parseProp true r
  | c :: r => if singleEscChars.contains c then .ok (.lit c, r) else .error (.syn "unknown escape")

/-- is the escape part of the dialect? -/
def EscTok.allowed (d : Dialect) : EscTok → Bool
  | .lit _ => true
  | .cls _ .dig => true
  | .cls _ (.cat _) => true
  | .cls _ (.block _) => d.isBlocks
  | .cls _ _ => d.multiEsc

def hexDigitVal (c : Char) : Option Nat :=
  if '0' ≤ c ∧ c ≤ '9' then some (c.toNat - 48)
  else if 'a' ≤ c ∧ c ≤ 'f' then some (c.toNat - 87)
  else if 'A' ≤ c ∧ c ≤ 'F' then some (c.toNat - 55)
  else none

/-- after `\x{`: hexadecimal digits and `}`; the value must be a Unicode scalar value -/
def parseHex (s : List Char) : Except ReErr (EscTok × List Char) :=
  let (ds, r) := s.span fun c => (hexDigitVal c).isSome
  match r with
  | '}' :: r' =>
    let v := ds.foldl (fun a c => a * 16 + (hexDigitVal c).getD 0) 0
    if ds.isEmpty || ds.length > 6 || !(Nat.isValidChar v) then .error (.syn "\\x value") else .ok (.lit (Char.ofNat v), r')
  | _ => .error (.syn "malformed \\x")

/-- the text after a backslash, in dialect `d` -/
def parseEscape (d : Dialect) (s : List Char) : Except ReErr (EscTok × List Char) :=
  match s with
  | 'x' :: '{' :: r => if d.hexEsc then parseHex r else .error (.syn "unknown escape")
  | _ =>
    match parseEscape0 s with
    | .ok (t, r) => if t.allowed d then .ok (t, r) else .error (.syn "escape outside the dialect")
    | .error e => .error e

def parseNat (s : List Char) : Option (Nat × List Char) :=
  let (ds, r) := s.span Char.isDigit
  if ds.isEmpty then none else some (ds.foldl (fun a d => a * 10 + (d.toNat - 48)) 0, r)

/-- optional quantifier (all forms of the XSD grammar) -/
def parseQuant0 : List Char → Except ReErr (Option (Nat × Option Nat) × List Char)
  | '*' :: r => .ok (some (0, none), r)
  | '+' :: r => .ok (some (1, none), r)
  | '?' :: r => .ok (some (0, some 1), r)
  | '{' :: r =>
    match parseNat r with
    | none => .error (.syn "quantity")
    | some (n, r1) =>
      match r1 with
      | '}' :: r2 => .ok (some (n, some n), r2)
      | ',' :: '}' :: r2 => .ok (some (n, none), r2)
      | ',' :: r2 =>
        match parseNat r2 with
        | some (m, '}' :: r3) => if n ≤ m then .ok (some (n, some m), r3) else .error (.syn "quantity out of order")
        | _ => .error (.syn "quantity")
      | _ => .error (.syn "quantity")
  | s => .ok (none, s)

/-- the numbers of a quantifier are within the limit of the dialect -/
def quantAllowed (d : Dialect) (lo : Nat) (hi : Option Nat) : Bool :=
  match d.maxQuant with
  | none => true
  | some M => decide (lo ≤ M) && (match hi with | none => true | some m => decide (m ≤ M))

/-- optional quantifier, in dialect `d` -/
def parseQuant (d : Dialect) (s : List Char) : Except ReErr (Option (Nat × Option Nat) × List Char) :=
  match parseQuant0 s with
  | .ok (some (lo, hi), r) => if quantAllowed d lo hi then .ok (some (lo, hi), r) else .error (.syn "quantity too big")
  | x => x

def mkCat : List Pat → Pat
  | [] => .eps
  | [p] => p
  | p :: r => .cat p (mkCat r)

def mkAlt : List Pat → Pat
  | [] => .eps
  | [p] => p
  | p :: r => .alt p (mkAlt r)

/-- the upper end of a range `lo-` -/
def parseRangeHi (d : Dialect) : List Char → Except ReErr (Char × List Char)
  | [] => .error (.syn "unterminated class")
  | '\\' :: r => do
    let (t, r') ← parseEscape d r
    match t with
    | .lit c => .ok (c, r')
    | .cls _ _ => .error (.syn "class escape as range end")
  | c :: r => if c == '[' || c == ']' || c == '-' then .error (.syn "range end") else .ok (c, r)

/-- after one literal class member `lo`: is it the start of a range? -/
def parseRangeOrChar (d : Dialect) (lo : Char) (r : List Char) : Except ReErr (CItem × List Char) :=
  match r with
  | '-' :: '[' :: _ => .ok (.ch lo, r)
  | '-' :: ']' :: _ => .ok (.ch lo, r)
  | '-' :: r2 => do
    let (hi, r3) ← parseRangeHi d r2
    if lo ≤ hi then .ok (.range lo hi, r3) else .error (.syn "range out of order")
  | _ => .ok (.ch lo, r)

mutual
/-- after `[` -/
def parseClass (d : Dialect) : Nat → List Char → Except ReErr (CClass × List Char)
  | 0, _ => .error .fuel
  | f + 1, s =>
    match s with
    | '^' :: r => parseItems d f true [] r
    | _ => parseItems d f false [] s

def parseItems (d : Dialect) : Nat → Bool → List CItem → List Char → Except ReErr (CClass × List Char)
  | 0, _, _, _ => .error .fuel
  | f + 1, neg, acc, s =>
    match s with
    | [] => .error (.syn "unterminated class")
    | ']' :: r => if acc.isEmpty then .error (.syn "empty class") else .ok ([⟨neg, acc⟩], r)
    | '-' :: '[' :: r =>
      if !d.subtraction then .error (.syn "class subtraction outside the dialect")
      else if acc.isEmpty then .error (.syn "subtraction from nothing") else do
        let (sub, r') ← parseClass d f r
        match r' with
        | ']' :: r'' => .ok (⟨neg, acc⟩ :: sub, r'')
        | _ => .error (.syn "text after subtrahend")
    | '[' :: _ => .error (.syn "[ in class")
    | '\\' :: r => do
      let (t, r') ← parseEscape d r
      match t with
      | .cls n e => parseItems d f neg (acc ++ [.esc n e]) r'
      | .lit c => do
        let (it, r'') ← parseRangeOrChar d c r'
        parseItems d f neg (acc ++ [it]) r''
    | '-' :: r =>
      match r with
      | ']' :: _ => parseItems d f neg (acc ++ [.ch '-']) r
      | _ => if acc.isEmpty then parseItems d f neg [.ch '-'] r else .error (.syn "- inside class")
    | c :: r => do
      let (it, r') ← parseRangeOrChar d c r
      parseItems d f neg (acc ++ [it]) r'
end

mutual
/-- regExp: branches separated by `|`, up to end of input or the closing `)` -/
def parseSeq (d : Dialect) : Nat → Bool → List Pat → List Pat → List Char → Except ReErr (Pat × List Char)
  | 0, _, _, _, _ => .error .fuel
  | f + 1, inGroup, alts, cur, s =>
    match s with
    | [] => if inGroup then .error (.syn "missing )") else .ok (mkAlt (alts ++ [mkCat cur]), [])
    | ')' :: r => if inGroup then .ok (mkAlt (alts ++ [mkCat cur]), r) else .error (.syn "unbalanced )")
    | '|' :: r => parseSeq d f inGroup (alts ++ [mkCat cur]) [] r
    | _ => do
      let (atom, r1) ← parseAtom d f s
      let (q, r2) ← parseQuant d r1
      let piece := match q with
        | none => atom
        | some (lo, hi) => .rep atom lo hi
      parseSeq d f inGroup alts (cur ++ [piece]) r2

def parseAtom (d : Dialect) : Nat → List Char → Except ReErr (Pat × List Char)
  | 0, _ => .error .fuel
  | f + 1, s =>
    match s with
    | [] => .error (.syn "atom expected")
    | '(' :: r => do
      let (p, r') ← parseSeq d f true [] [] r
      .ok (.group p, r')
    | '[' :: r => do
      let (cc, r') ← parseClass d f r
      .ok (.cls cc, r')
    | '.' :: r => .ok (.dot, r)
    | '\\' :: r => do
      let (t, r') ← parseEscape d r
      match t with
      | .lit c => .ok (.chr c, r')
      | .cls n e => .ok (.esc n e, r')
    | c :: r =>
      if c == '?' || c == '*' || c == '+' || c == '{' || c == '}' || c == ']' then .error (.syn "metacharacter as atom")
      else if !d.rawAnchors && (c == '^' || c == '$') then .error (.syn "assertion outside the dialect")
      else .ok (.chr c, r)
end

def decodeUtf8 (bs : Bytes) : Option (List Char) :=
  (String.fromUTF8? (ByteArray.mk bs.toArray)).map String.toList

/-- a whole pattern in dialect `d`; fuel: `2 * length + 2` suffices for `parseSeq` (`Props/C18Parse.parseSeq_fuel`: an
    opening `(` or `[` costs two units for one character), so the fuel error is never a result (`parse_total`) -/
def parseCharsD (d : Dialect) (cs : List Char) : Except ReErr Pat :=
  match parseSeq d (2 * cs.length + 4) false [] [] cs with
  | .ok (p, _) => .ok p
  | .error e => .error e

/-- XSD -/
def parseChars (cs : List Char) : Except ReErr Pat := parseCharsD .xsd cs

/-- `parseXsd`: UTF-8 bytes of a YANG `pattern` argument ↦ syntax tree -/
def parseXsd (bs : Bytes) : Except ReErr Pat :=
  match decodeUtf8 bs with
  | none => .error .badUtf8
  | some cs => parseChars cs

/-! ### feature report (used by the check module to attribute known findings) -/

def Esc.feature (neg : Bool) : Esc → String
  | .dig => if neg then "D" else "d"
  | .word => if neg then "W" else "w"
  | .space => if neg then "S" else "s"
  | .nameStart => if neg then "I" else "i"
  | .nameChar => if neg then "C" else "c"
  | .cat _ => if neg then "Pcat" else "pcat"
  | .block _ => if neg then "Pblock" else "pblock"

def CItem.features : CItem → List String
  | .esc neg e => ["in-class:" ++ e.feature neg, e.feature neg]
  | _ => []

def Pat.features : Pat → List String
  | .eps => []
  | .chr _ => []
  | .dot => ["dot"]
  | .esc neg e => [e.feature neg]
  | .cls cc => (if cc.length > 1 then ["subtraction"] else []) ++ cc.flatMap fun g => g.items.flatMap CItem.features
  | .alt a b => a.features ++ b.features
  | .cat a b => a.features ++ b.features
  | .rep p _ _ => p.features
  | .group p => p.features

end LyModel.XsdRe
