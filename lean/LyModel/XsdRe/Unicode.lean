import LyModel.Generated.XsdUcd
/-!
Character data the XSD regular-expression *spec* needs (core Lean only):

* Unicode general categories (`\p{L}`, `\p{Lu}`, `\d` = `\p{Nd}`, `\w` = everything but `P`, `Z`, `C`), decoded from
  the run table `Generated.XsdUcd` (python `unicodedata`; the table is data of the oracle, not of libyang);
* the block table of XML Schema Part 2 (2nd ed.) §F.1.1, transcribed from the Recommendation as numbers (NOT from
  `ublock2urange`, which `Props/C18` compares against it);
* `\i`, `\c` (XML NameStartChar / NameChar), `\s`.
-/
namespace LyModel.XsdRe.Unicode

/-- lower-case hex digit value -/
def hexVal (c : Char) : Option Nat :=
  if '0' ≤ c ∧ c ≤ '9' then some (c.toNat - 48)
  else if 'a' ≤ c ∧ c ≤ 'f' then some (c.toNat - 87)
  else none

/-- `"41Lu"` ↦ `(0x41, 'L', 'u')` -/
def parseRun (s : List Char) : Option (Nat × Char × Char) :=
  let rec go (acc : Nat) : List Char → Option (Nat × Char × Char)
    | [a, b] => some (acc, a, b)
    | c :: r => match hexVal c with
      | some v => go (acc * 16 + v) r
      | none => none
    | [] => none
  go 0 s

def parseRuns (s : String) : Array (Nat × Char × Char) :=
  ((s.splitOn ";").filterMap fun t => parseRun t.toList).toArray

/-- (first code point, category) runs, ascending -/
def catTable : Array (Nat × Char × Char) := parseRuns Generated.XsdUcd.runs

def lookupGo (t : Array (Nat × Char × Char)) (cp : Nat) : Nat → Nat → Nat → Char × Char
  | 0, lo, _ => (t.getD lo (0, 'C', 'n')).2
  | f + 1, lo, hi =>
    if lo + 1 ≥ hi then (t.getD lo (0, 'C', 'n')).2
    else
      let mid := (lo + hi) / 2
      if (t.getD mid (0, 'C', 'n')).1 ≤ cp then lookupGo t cp f mid hi else lookupGo t cp f lo mid

/-- two-letter general category of a character -/
def category (c : Char) : Char × Char := lookupGo catTable c.toNat 40 0 catTable.size

/-- the category names XSD allows in `\p{..}` (F.1.1; `Cs` is excluded) -/
def categoryNames : List String :=
  ["L", "Lu", "Ll", "Lt", "Lm", "Lo", "M", "Mn", "Mc", "Me", "N", "Nd", "Nl", "No",
   "P", "Pc", "Pd", "Ps", "Pe", "Pi", "Pf", "Po", "Z", "Zs", "Zl", "Zp", "S", "Sm", "Sc", "Sk", "So",
   "C", "Cc", "Cf", "Co", "Cn"]

/-- membership in a category designator (`L` = any `L?`) -/
def inCategory (name : String) (c : Char) : Bool :=
  let (a, b) := category c
  match name.toList with
  | [x] => x == a
  | [x, y] => x == a && y == b
  | _ => false

/-- XML Schema Part 2 (2nd ed.) §F.1.1 block table: normalised block name ↦ code point ranges -/
def blocks : List (String × List (Nat × Nat)) := [
  ("BasicLatin", [(0x0000, 0x007F)]), ("Latin-1Supplement", [(0x0080, 0x00FF)]), ("LatinExtended-A", [(0x0100, 0x017F)]),
  ("LatinExtended-B", [(0x0180, 0x024F)]), ("IPAExtensions", [(0x0250, 0x02AF)]), ("SpacingModifierLetters", [(0x02B0, 0x02FF)]),
  ("CombiningDiacriticalMarks", [(0x0300, 0x036F)]), ("Greek", [(0x0370, 0x03FF)]), ("Cyrillic", [(0x0400, 0x04FF)]),
  ("Armenian", [(0x0530, 0x058F)]), ("Hebrew", [(0x0590, 0x05FF)]), ("Arabic", [(0x0600, 0x06FF)]), ("Syriac", [(0x0700, 0x074F)]),
  ("Thaana", [(0x0780, 0x07BF)]), ("Devanagari", [(0x0900, 0x097F)]), ("Bengali", [(0x0980, 0x09FF)]), ("Gurmukhi", [(0x0A00, 0x0A7F)]),
  ("Gujarati", [(0x0A80, 0x0AFF)]), ("Oriya", [(0x0B00, 0x0B7F)]), ("Tamil", [(0x0B80, 0x0BFF)]), ("Telugu", [(0x0C00, 0x0C7F)]),
  ("Kannada", [(0x0C80, 0x0CFF)]), ("Malayalam", [(0x0D00, 0x0D7F)]), ("Sinhala", [(0x0D80, 0x0DFF)]), ("Thai", [(0x0E00, 0x0E7F)]),
  ("Lao", [(0x0E80, 0x0EFF)]), ("Tibetan", [(0x0F00, 0x0FFF)]), ("Myanmar", [(0x1000, 0x109F)]), ("Georgian", [(0x10A0, 0x10FF)]),
  ("HangulJamo", [(0x1100, 0x11FF)]), ("Ethiopic", [(0x1200, 0x137F)]), ("Cherokee", [(0x13A0, 0x13FF)]),
  ("UnifiedCanadianAboriginalSyllabics", [(0x1400, 0x167F)]), ("Ogham", [(0x1680, 0x169F)]), ("Runic", [(0x16A0, 0x16FF)]),
  ("Khmer", [(0x1780, 0x17FF)]), ("Mongolian", [(0x1800, 0x18AF)]), ("LatinExtendedAdditional", [(0x1E00, 0x1EFF)]),
  ("GreekExtended", [(0x1F00, 0x1FFF)]), ("GeneralPunctuation", [(0x2000, 0x206F)]), ("SuperscriptsandSubscripts", [(0x2070, 0x209F)]),
  ("CurrencySymbols", [(0x20A0, 0x20CF)]), ("CombiningMarksforSymbols", [(0x20D0, 0x20FF)]), ("LetterlikeSymbols", [(0x2100, 0x214F)]),
  ("NumberForms", [(0x2150, 0x218F)]), ("Arrows", [(0x2190, 0x21FF)]), ("MathematicalOperators", [(0x2200, 0x22FF)]),
  ("MiscellaneousTechnical", [(0x2300, 0x23FF)]), ("ControlPictures", [(0x2400, 0x243F)]), ("OpticalCharacterRecognition", [(0x2440, 0x245F)]),
  ("EnclosedAlphanumerics", [(0x2460, 0x24FF)]), ("BoxDrawing", [(0x2500, 0x257F)]), ("BlockElements", [(0x2580, 0x259F)]),
  ("GeometricShapes", [(0x25A0, 0x25FF)]), ("MiscellaneousSymbols", [(0x2600, 0x26FF)]), ("Dingbats", [(0x2700, 0x27BF)]),
  ("BraillePatterns", [(0x2800, 0x28FF)]), ("CJKRadicalsSupplement", [(0x2E80, 0x2EFF)]), ("KangxiRadicals", [(0x2F00, 0x2FDF)]),
  ("IdeographicDescriptionCharacters", [(0x2FF0, 0x2FFF)]), ("CJKSymbolsandPunctuation", [(0x3000, 0x303F)]), ("Hiragana", [(0x3040, 0x309F)]),
  ("Katakana", [(0x30A0, 0x30FF)]), ("Bopomofo", [(0x3100, 0x312F)]), ("HangulCompatibilityJamo", [(0x3130, 0x318F)]),
  ("Kanbun", [(0x3190, 0x319F)]), ("BopomofoExtended", [(0x31A0, 0x31BF)]), ("EnclosedCJKLettersandMonths", [(0x3200, 0x32FF)]),
  ("CJKCompatibility", [(0x3300, 0x33FF)]), ("CJKUnifiedIdeographsExtensionA", [(0x3400, 0x4DB5)]), ("CJKUnifiedIdeographs", [(0x4E00, 0x9FFF)]),
  ("YiSyllables", [(0xA000, 0xA48F)]), ("YiRadicals", [(0xA490, 0xA4CF)]), ("HangulSyllables", [(0xAC00, 0xD7A3)]),
  ("HighSurrogates", [(0xD800, 0xDB7F)]), ("HighPrivateUseSurrogates", [(0xDB80, 0xDBFF)]), ("LowSurrogates", [(0xDC00, 0xDFFF)]),
  ("PrivateUse", [(0xE000, 0xF8FF), (0xF0000, 0xFFFFD), (0x100000, 0x10FFFD)]),
  ("CJKCompatibilityIdeographs", [(0xF900, 0xFAFF)]), ("AlphabeticPresentationForms", [(0xFB00, 0xFB4F)]),
  ("ArabicPresentationForms-A", [(0xFB50, 0xFDFF)]), ("CombiningHalfMarks", [(0xFE20, 0xFE2F)]), ("CJKCompatibilityForms", [(0xFE30, 0xFE4F)]),
  ("SmallFormVariants", [(0xFE50, 0xFE6F)]), ("ArabicPresentationForms-B", [(0xFE70, 0xFEFE)]),
  ("Specials", [(0xFEFF, 0xFEFF), (0xFFF0, 0xFFFD)]), ("HalfwidthandFullwidthForms", [(0xFF00, 0xFFEF)]),
  ("OldItalic", [(0x10300, 0x1032F)]), ("Gothic", [(0x10330, 0x1034F)]), ("Deseret", [(0x10400, 0x1044F)]),
  ("ByzantineMusicalSymbols", [(0x1D000, 0x1D0FF)]), ("MusicalSymbols", [(0x1D100, 0x1D1FF)]),
  ("MathematicalAlphanumericSymbols", [(0x1D400, 0x1D7FF)]), ("CJKUnifiedIdeographsExtensionB", [(0x20000, 0x2A6D6)]),
  ("CJKCompatibilityIdeographsSupplement", [(0x2F800, 0x2FA1F)]), ("Tags", [(0xE0000, 0xE007F)])]

def blockRanges (name : String) : Option (List (Nat × Nat)) :=
  (blocks.find? fun b => b.1 == name).map (·.2)

def inRanges (rs : List (Nat × Nat)) (c : Char) : Bool :=
  rs.any fun r => r.1 ≤ c.toNat && c.toNat ≤ r.2

/-- XSD `\s` -/
def isXsdSpace (c : Char) : Bool := c == ' ' || c == '\t' || c == '\n' || c == '\r'

/-- XSD `\d` = `\p{Nd}` -/
def isXsdDigit (c : Char) : Bool := category c == ('N', 'd')

/-- XSD `\w` = `[#x0000-#x10FFFF]-[\p{P}\p{Z}\p{C}]` -/
def isXsdWord (c : Char) : Bool :=
  let a := (category c).1
  !(a == 'P' || a == 'Z' || a == 'C')

/-- XML NameStartChar (XML 1.0 5th ed. production [4]; XSD 1.1 `\i`) -/
def nameStartRanges : List (Nat × Nat) :=
  [(0x3A, 0x3A), (0x41, 0x5A), (0x5F, 0x5F), (0x61, 0x7A), (0xC0, 0xD6), (0xD8, 0xF6), (0xF8, 0x2FF), (0x370, 0x37D),
   (0x37F, 0x1FFF), (0x200C, 0x200D), (0x2070, 0x218F), (0x2C00, 0x2FEF), (0x3001, 0xD7FF), (0xF900, 0xFDCF),
   (0xFDF0, 0xFFFD), (0x10000, 0xEFFFF)]

/-- XML NameChar additions (production [4a]) -/
def nameCharExtra : List (Nat × Nat) :=
  [(0x2D, 0x2E), (0x30, 0x39), (0xB7, 0xB7), (0x300, 0x36F), (0x203F, 0x2040)]

def isNameStart (c : Char) : Bool := inRanges nameStartRanges c
def isNameChar (c : Char) : Bool := inRanges nameStartRanges c || inRanges nameCharExtra c

end LyModel.XsdRe.Unicode
