import LyModel.XsdRe.Rewrite
import LyModel.XsdRe.Render
/-!
# The rewriter on canonical texts: model definitions (core Lean only)

`utf8` — the UTF-8 bytes of a character list; `Pat.noNul` — no literal U+0000 in a tree; `escapeLoopC` / `findSubC` — the
character-level twins of `escapeLoop` / `findSub` (same control flow, `Char` instead of `UInt8`), used as the middle step
between `Pat.render` and the byte-level model; `braceOk` — the invariant that keeps `\p{Is` out of a text; `Pat.noClsBrace` —
the side condition under which the canonical text has it (`SemLemmas.lean`).
-/
namespace LyModel.XsdRe

/-- UTF-8 encoding of a character list (`= bytesOfString (String.ofList cs)`, `utf8_eq_bytesOfString`) -/
def utf8 (cs : List Char) : Bytes := cs.flatMap String.utf8EncodeChar

def CItem.noNul : CItem → Bool
  | .ch c => c != '\x00'
  | .range lo hi => lo != '\x00' && hi != '\x00'
  | .esc _ _ => true

def CClass.noNul (cc : CClass) : Bool := cc.all fun g => g.items.all CItem.noNul

/-- no literal character U+0000 anywhere in the tree -/
def Pat.noNul : Pat → Bool
  | .eps | .dot => true
  | .chr c => c != '\x00'
  | .esc _ _ => true
  | .cls cc => CClass.noNul cc
  | .alt a b => a.noNul && b.noNul
  | .cat a b => a.noNul && b.noNul
  | .rep p _ _ => p.noNul
  | .group p => p.noNul

/-- `escapeLoop` on characters -/
def escapeLoopC (fx : Fixes) : Nat → Bool → List Char → Except RwErr (List Char)
  | _, _, [] => .ok []
  | brack, escaped, c :: rest =>
    if c = '\\' then
      (escapeLoopC fx brack (!escaped) rest).map (c :: ·)
    else if c = '$' ∨ c = '^' then
      if brack = 0 ∧ ¬(fx.f25 = true ∧ escaped = true) then
        (escapeLoopC fx brack false rest).map (fun t => '\\' :: c :: t)
      else
        (escapeLoopC fx brack false rest).map (c :: ·)
    else if c = '[' then
      (escapeLoopC fx (if escaped then brack else brack + 1) false rest).map (c :: ·)
    else if c = ']' then
      if brack = 0 ∧ escaped = false then .error .strayBracket
      else (escapeLoopC fx (if escaped then brack else brack - 1) false rest).map (c :: ·)
    else
      (escapeLoopC fx brack false rest).map (c :: ·)

/-- `findSub` on characters -/
def findSubC (pat : List Char) : List Char → Option Nat
  | [] => if pat.isEmpty then some 0 else Option.none
  | c :: t => if pat.isPrefixOf (c :: t) then some 0 else (findSubC pat t).map (· + 1)

/-- the needle `\p{Is` as characters -/
def needleC : List Char := ['\\', 'p', '{', 'I', 's']

/-- the text is long enough to see that it does not begin with `Is` -/
def notIs : List Char → Bool
  | [] => false
  | c :: r => c != 'I' || (match r with | [] => false | d :: _ => d != 's')

/-- every `{` is preceded by a backslash or followed by something other than `Is` (`prev` = the character before the
    text); this is what keeps `\p{Is` out of a rendered text, and it is compositional (`braceOk_append`) -/
def braceOk : Option Char → List Char → Bool
  | _, [] => true
  | prev, c :: r => (c != '{' || prev == some '\\' || notIs r) && braceOk (some c) r

def CItem.noBrace : CItem → Bool
  | .ch c => c != '{'
  | .range lo hi => lo != '{' && hi != '{'
  | .esc _ _ => true

/-- no literal `{` as a member of a character class (there the printer writes it raw, so `[\\p{Is…]` — backslash, `p`, `{`,
    `I`, `s` — contains the needle of pass 2) -/
def Pat.noClsBrace : Pat → Bool
  | .eps | .dot | .chr _ | .esc _ _ => true
  | .cls cc => cc.all fun g => g.items.all CItem.noBrace
  | .alt a b => a.noClsBrace && b.noClsBrace
  | .cat a b => a.noClsBrace && b.noClsBrace
  | .rep p _ _ => p.noClsBrace
  | .group p => p.noClsBrace

end LyModel.XsdRe
