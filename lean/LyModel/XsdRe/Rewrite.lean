import LyModel.Base
import LyModel.Generated.UBlocks
/-!
# Byte-level model of `lys_compile_type_pattern_check` (src/schema_compile_node.c) — core Lean only

The C function turns the XSD pattern text into PCRE2 text in two passes and hands the result to `pcre2_compile`
(PCRE2 is in the trusted base):

1. `escapeLoop` — the `while (orig_ptr[0])` loop: copy bytes, put a backslash before every `^`/`$` seen while the
   bracket depth is 0, track the depth through `escaped` (toggled by `\`, reset by every other byte), reject a `]` that
   closes nothing.
2. `chblocks` — `lys_compile_pattern_chblocks_xmlschema2perl`: while the text contains `\p{Is`, replace
   `\p{IsNAME}` by a range string of `ublock2urange` (with its brackets at depth 0, without inside a class).

The model has the defects of the code (DESIGN §6): F25 — the `^`/`$` case ignores `escaped`; F1 — the index that found
NAME in the table is overwritten by the bracket-depth counter, so the *depth* selects the table row (and an
out-of-range depth reads outside the table: a crash); F186 — the name is matched by prefix; F190 — the pass-2 depth loop
looks only at the previous byte, so the `[` of `\\[` (escaped backslash, opening bracket) is taken for an escaped one;
F187 — every row is copied with the constant length `URANGE_LEN` although the `Specials` row is longer.  `Fixes`
switches each repair on, so that the theorems can be stated for the code as it was (`Fixes.none`) and for the repaired
code, and so that the check can follow the tree when a `fixes/Fnn.diff` has been applied.
-/
namespace LyModel.XsdRe

structure Fixes where
  /-- F1 repaired: the found table row is used, the depth only decides about the brackets -/
  f1 : Bool := false
  /-- F25 repaired: an escaped `^`/`$` is left alone -/
  f25 : Bool := false
  /-- F186 repaired: the block name must equal the table name (the code accepts any name that *starts with* a table name,
      first row wins: `GreekExtended` finds `Greek`) -/
  f186 : Bool := false
  /-- F190 repaired: the pass-2 depth loop keeps an `escaped` state — a backslash escapes exactly the next byte — instead
      of looking at the previous byte only (which takes the `[` of `\\[` for an escaped bracket) -/
  f190 : Bool := false
  /-- F187 repaired: the text that is copied has the length of the found row (`strlen`), not the constant `URANGE_LEN`
      (the `Specials` row is longer than that and was cut) -/
  f187 : Bool := false
deriving Repr, BEq, DecidableEq

def Fixes.none : Fixes := {}
def Fixes.all : Fixes := { f1 := true, f25 := true, f186 := true, f190 := true, f187 := true }

inductive RwErr where
  /-- "character group doesn't begin with '['" -/
  | strayBracket
  /-- "unterminated character property" -/
  | unterminated
  /-- "unknown block name" -/
  | unknownBlock
  /-- the C code indexes `ublock2urange` outside its rows (undefined behaviour; SEGV / ASan report) -/
  | crash
  | fuel
deriving Repr, BEq, DecidableEq

def RwErr.name : RwErr → String
  | .strayBracket => "StrayBracket"
  | .unterminated => "Unterminated"
  | .unknownBlock => "UnknownBlock"
  | .crash => "Crash"
  | .fuel => "Fuel"

instance : DecidableEq (Except RwErr Bytes) := fun a b =>
  match a, b with
  | .ok x, .ok y => if h : x = y then isTrue (by rw [h]) else isFalse (fun e => h (by cases e; rfl))
  | .error x, .error y => if h : x = y then isTrue (by rw [h]) else isFalse (fun e => h (by cases e; rfl))
  | .ok _, .error _ => isFalse (fun e => by cases e)
  | .error _, .ok _ => isFalse (fun e => by cases e)

def bBackslash : UInt8 := 92
def bCaret : UInt8 := 94
def bDollar : UInt8 := 36
def bOpen : UInt8 := 91
def bClose : UInt8 := 93
def bRBrace : UInt8 := 125

/-! ### pass 1 -/

/-- the `while (orig_ptr[0])` loop with its three state variables (`brack`, `escaped`, the rest of the input);
    the value is the text appended to `perl_regex` -/
def escapeLoop (fx : Fixes) : Nat → Bool → Bytes → Except RwErr Bytes
  | _, _, [] => .ok []
  | brack, escaped, c :: rest =>
    if c = bBackslash then
      -- escaped = !escaped; copy; continue
      (escapeLoop fx brack (!escaped) rest).map (c :: ·)
    else if c = bDollar ∨ c = bCaret then
      if brack = 0 ∧ ¬(fx.f25 = true ∧ escaped = true) then
        (escapeLoop fx brack false rest).map (fun t => bBackslash :: c :: t)
      else
        (escapeLoop fx brack false rest).map (c :: ·)
    else if c = bOpen then
      (escapeLoop fx (if escaped then brack else brack + 1) false rest).map (c :: ·)
    else if c = bClose then
      if brack = 0 ∧ escaped = false then .error .strayBracket
      else (escapeLoop fx (if escaped then brack else brack - 1) false rest).map (c :: ·)
    else
      (escapeLoop fx brack false rest).map (c :: ·)

/-! ### pass 1 with the translation of XSD multi-character escapes (fixes/F182.diff, fixes/F183.diff) -/

/-- `lys_compile_pattern_xmlschema_mce`: the class members of the first row whose escape character is `c` -/
def mceLookup (tbl : List (UInt8 × Bytes)) (c : UInt8) : Option Bytes :=
  (tbl.find? fun e => e.1 = c).map (·.2)

/-- the text an escape is replaced with: a class of its own at bracket depth 0, only the members inside a class -/
def mceText (brack : Nat) (members : Bytes) : Bytes :=
  if brack = 0 then bOpen :: (members ++ [bClose]) else members

/-- The loop with `if (escaped && (members = lys_compile_pattern_xmlschema_mce(orig_ptr[0]))) { --idx; … continue; }` in
    front of the `switch`.  The C code overwrites the backslash it copied one round earlier (`--idx`); in the model a
    backslash that sets `escaped` is written one round later (`pre`), unless that round replaces the escape.  With an
    empty table (the source before the repair) this is `escapeLoop` (`escapeLoopM_nil`). -/
def escapeLoopM (tbl : List (UInt8 × Bytes)) (fx : Fixes) : Nat → Bool → Bytes → Except RwErr Bytes
  | _, escaped, [] => .ok (if escaped then [bBackslash] else [])
  | brack, escaped, c :: rest =>
    let pre : Bytes := if escaped then [bBackslash] else []
    match (if escaped then mceLookup tbl c else Option.none) with
    | some m => (escapeLoopM tbl fx brack false rest).map (fun t => mceText brack m ++ t)
    | Option.none =>
      if c = bBackslash then
        if escaped then (escapeLoopM tbl fx brack false rest).map (fun t => pre ++ c :: t)
        else escapeLoopM tbl fx brack true rest
      else if c = bDollar ∨ c = bCaret then
        if brack = 0 ∧ ¬(fx.f25 = true ∧ escaped = true) then
          (escapeLoopM tbl fx brack false rest).map (fun t => pre ++ bBackslash :: c :: t)
        else
          (escapeLoopM tbl fx brack false rest).map (fun t => pre ++ c :: t)
      else if c = bOpen then
        (escapeLoopM tbl fx (if escaped then brack else brack + 1) false rest).map (fun t => pre ++ c :: t)
      else if c = bClose then
        if brack = 0 ∧ escaped = false then .error .strayBracket
        else (escapeLoopM tbl fx (if escaped then brack else brack - 1) false rest).map (fun t => pre ++ c :: t)
      else
        (escapeLoopM tbl fx brack false rest).map (fun t => pre ++ c :: t)

/-! ### pass 2 -/

/-- `strstr`: offset of the first occurrence -/
def findSub (pat : Bytes) : Bytes → Option Nat
  | [] => if pat.isEmpty then some 0 else Option.none
  | c :: t => if pat.isPrefixOf (c :: t) then some 0 else (findSub pat t).map (· + 1)

/-- `strchr`: offset of the first `b` -/
def findByte (b : UInt8) : Bytes → Option Nat
  | [] => Option.none
  | c :: t => if c = b then some 0 else (findByte b t).map (· + 1)

/-- the needle `\p{Is` -/
def needle : Bytes := [92, 112, 123, 73, 115]

/-- the `for (idx2 = 0, idx = 0; idx2 < start; ++idx2)` loop: `[` / `]` not directly preceded by a backslash
    count +1 / −1 (the counter is a `size_t`: a negative value here is a wrapped-around one in C) -/
def depthLoop : Option UInt8 → Int → Bytes → Int
  | _, d, [] => d
  | prev, d, c :: r =>
    let unesc := prev ≠ some bBackslash
    let d1 := if c = bOpen ∧ unesc then d + 1 else d
    let d2 := if c = bClose ∧ unesc then d1 - 1 else d1
    depthLoop (some c) d2 r

def depthOf (pre : Bytes) : Int := depthLoop Option.none 0 pre

/-- the repaired loop (F190): `for (idx2 = 0, brack = 0, escaped = 0; idx2 < start; ++idx2)` with
    `if (escaped) escaped = 0; else if (c == '\\') escaped = 1; else if (c == '[') ++brack; else if (c == ']') --brack;` -/
def depthLoopEsc : Bool → Int → Bytes → Int
  | _, d, [] => d
  | true, d, _ :: r => depthLoopEsc false d r
  | false, d, c :: r =>
    if c = bBackslash then depthLoopEsc true d r
    else if c = bOpen then depthLoopEsc false (d + 1) r
    else if c = bClose then depthLoopEsc false (d - 1) r
    else depthLoopEsc false d r

def depthOfEsc (pre : Bytes) : Int := depthLoopEsc false 0 pre

/-- the bracket depth the step works with -/
def depthWith (fx : Fixes) (pre : Bytes) : Int := if fx.f190 then depthOfEsc pre else depthOf pre

/-- number of bytes the step copies from a row (with its brackets): `strlen` of the row (F187 repaired) or `URANGE_LEN` -/
def copyLen (f187 : Bool) (ulen : Nat) (range : Bytes) : Nat := if f187 then range.length else ulen

/-- the table as bytes -/
def ublocks : List (Bytes × Bytes) := Generated.UBlocks.tableBytes

/-- `for (idx = 0; ublock2urange[idx][0]; ++idx) if (!strncmp(text, name, strlen(name))) break;` —
    the first row whose name is a prefix of the text after `\p{Is` -/
def findBlock (tbl : List (Bytes × Bytes)) (text : Bytes) : Option Nat :=
  tbl.findIdx? fun e => e.1.isPrefixOf text

/-- the repaired lookup: the row whose name is exactly `name` -/
def findBlockExact (tbl : List (Bytes × Bytes)) (name : Bytes) : Option Nat :=
  tbl.findIdx? fun e => e.1 == name

inductive Step where
  | done
  | next (t : Bytes)
  | fail (e : RwErr)
deriving DecidableEq

/-- one iteration of `while ((ptr = strstr(perl_regex, "\\p{Is")))` -/
def chblocksStep (fx : Fixes) (tbl : List (Bytes × Bytes)) (ulen : Nat) (t : Bytes) : Step :=
  match findSub needle t with
  | Option.none => .done
  | some start =>
    match findByte bRBrace (t.drop start) with
    | Option.none => .fail .unterminated
    | some e =>
      let stop := start + e + 1
      let after := t.drop (start + needle.length)
      match (if fx.f186 then findBlockExact tbl (after.take (e - needle.length)) else findBlock tbl after) with
      | Option.none => .fail .unknownBlock
      | some found =>
        let depth := depthWith fx (t.take start)
        -- F1: `idx` is reused as the depth counter, so the row is selected by the depth
        let row : Int := if fx.f1 then (found : Int) else depth
        if row < 0 ∨ row ≥ (tbl.length : Int) then .fail .crash
        else
          let range := (tbl.getD row.toNat ([], [])).2
          let n := copyLen fx.f187 ulen range
          let repl := if depth ≠ 0 then (range.drop 1).take (n - 2) else range.take n
          .next (t.take start ++ repl ++ t.drop stop)

def chblocksLoop (fx : Fixes) (tbl : List (Bytes × Bytes)) (ulen : Nat) : Nat → Bytes → Except RwErr Bytes
  | 0, _ => .error .fuel
  | f + 1, t =>
    match chblocksStep fx tbl ulen t with
    | .done => .ok t
    | .next t' => chblocksLoop fx tbl ulen f t'
    | .fail e => .error e

/-- pass 2 on the real table (`URANGE_LEN` is 0 when the source no longer has the macro, i.e. F187 is repaired there and
    the variants without `f187` describe no code); every iteration removes one occurrence of the needle, so `length + 1`
    rounds suffice -/
def chblocks (fx : Fixes) (t : Bytes) : Except RwErr Bytes :=
  chblocksLoop fx ublocks Generated.UBlocks.URANGE_LEN (t.length + 1) t

/-! ### the whole rewrite -/

/-- a C string ends at its first NUL -/
def cstr (p : Bytes) : Bytes := p.takeWhile (· ≠ 0)

/-- the text `lys_compile_type_pattern_check` passes to `pcre2_compile` -/
def rewriteWith (fx : Fixes) (pattern : Bytes) : Except RwErr Bytes :=
  match escapeLoop fx 0 false (cstr pattern) with
  | .error e => .error e
  | .ok t => chblocks fx t

/-- the same with the multi-character escape table `mce` (`Generated.UBlocks.mceTable`: what the source has now; empty
    before fixes/F182.diff) -/
def rewriteWithM (mce : List (UInt8 × Bytes)) (fx : Fixes) (pattern : Bytes) : Except RwErr Bytes :=
  match escapeLoopM mce fx 0 false (cstr pattern) with
  | .error e => .error e
  | .ok t => chblocks fx t

/-- the code as it was at the pinned commit -/
def rewrite (pattern : Bytes) : Except RwErr Bytes := rewriteWith Fixes.none pattern

end LyModel.XsdRe
