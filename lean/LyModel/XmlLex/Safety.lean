import LyModel.XmlLex.Model
import LyModel.Text.Utf8Lemmas
/-!
# Memory-safety side of the XML pull lexer: the read position only moves forward inside the input

In the list model `in->current` is the remaining input; "every read is below the first NUL" becomes: whatever a step leaves as
remaining input is a SUFFIX of what it was given (the position never moves back and never passes the end), and every look-ahead
(`rd`, `head?`, `stripPrefix`, `getUtf8` — at most 4 bytes, stopping at the first byte that is not a continuation byte) is on that
remaining input, whose end is the NUL.  Helper lemmas; the property theorems are in `Props/C05XmlLex.lean`.
-/
set_option linter.unusedSimpArgs false
set_option linter.unusedVariables false
namespace LyModel.XmlLex
open LyModel LyModel.Utf8 LyModel.XmlText

theorem stripPrefix_suffix : ∀ (p s r : Bytes), stripPrefix p s = some r → r <:+ s
  | [], s, r, h => by simp [stripPrefix] at h; subst h; exact List.suffix_refl _
  | _ :: _, [], r, h => by simp [stripPrefix] at h
  | a :: p, c :: s, r, h => by
    simp only [stripPrefix] at h
    split at h
    · exact (stripPrefix_suffix p s r h).trans (List.suffix_cons _ _)
    · simp at h

theorem entity_suffix (cs : Bytes) (ch : UInt8) (r : Bytes) (h : entity cs = some (ch, r)) : r <:+ cs := by
  unfold entity at h
  repeat' split at h
  all_goals first
    | (simp only [Option.some.injEq, Prod.mk.injEq] at h; obtain ⟨_, rfl⟩ := h; apply stripPrefix_suffix; assumption)
    | simp at h

theorem decDigits_suffix : ∀ (s : Bytes) (n : Nat), (decDigits s n).2 <:+ s
  | [], n => by simp [decDigits]
  | c :: cs, n => by
    simp only [decDigits]
    split
    · exact (decDigits_suffix cs _).trans (List.suffix_cons _ _)
    · exact List.suffix_refl _

theorem hexDigits_suffix : ∀ (s : Bytes) (n : Nat), (hexDigits s n).2 <:+ s
  | [], n => by simp [hexDigits]
  | c :: cs, n => by
    simp only [hexDigits]
    split
    · exact (hexDigits_suffix cs _).trans (List.suffix_cons _ _)
    · exact List.suffix_refl _

theorem findCdataEnd_suffix : ∀ (s a r : Bytes), findCdataEnd s = some (a, r) → r <:+ s
  | [], a, r, h => by simp [findCdataEnd] at h
  | c :: cs, a, r, h => by
    simp only [findCdataEnd] at h
    split at h
    · rename_i r0 hs
      simp only [Option.some.injEq, Prod.mk.injEq] at h
      obtain ⟨_, rfl⟩ := h
      exact stripPrefix_suffix _ _ _ hs
    · cases hr : findCdataEnd cs with
      | none => simp [hr] at h
      | some ar =>
        obtain ⟨a', r'⟩ := ar
        simp only [hr, Option.map_some, Option.some.injEq, Prod.mk.injEq] at h
        obtain ⟨_, rfl⟩ := h
        exact (findCdataEnd_suffix cs a' r' hr).trans (List.suffix_cons _ _)

theorem map_ok_suffix {inp' inp : Bytes} {x : Except LexErr (Bytes × Bool × Bytes)} {f : Bytes × Bool × Bytes → Bytes × Bool × Bytes}
    {r : Bytes × Bool × Bytes} (h : x.map f = .ok r) (hf : ∀ t, (f t).2.2 = t.2.2) (ih : ∀ r, x = .ok r → r.2.2 <:+ inp')
    (hs : inp' <:+ inp) : r.2.2 <:+ inp := by
  cases x with
  | error e => simp [Except.map] at h
  | ok t =>
    simp only [Except.map, Except.ok.injEq] at h
    subst h
    rw [hf]
    exact (ih t rfl).trans hs

/-- `lyxml_parse_value` stops inside its input -/
theorem parseValue_suffix (endc : UInt8) : ∀ (fuel : Nat) (inp : Bytes) (ws : Bool) (r : Bytes × Bool × Bytes),
    parseValue endc fuel inp ws = .ok r → r.2.2 <:+ inp
  | 0, _, _, r, h => by simp [parseValue] at h
  | _ + 1, [], _, r, h => by simp [parseValue] at h
  | fuel + 1, c :: cs, ws, r, h => by
    have ih := parseValue_suffix endc fuel
    unfold parseValue at h
    split at h
    · simp at h
    · split at h
      · -- '&'
        split at h
        · rename_i r0
          dsimp only at h
          split at h
          · simp at h
          · rename_i n r' hnum
            have hr' : r' <:+ r0 := by
              split at hnum
              · split at hnum
                · simp only [Option.some.injEq] at hnum
                  have e := congrArg Prod.snd hnum
                  simp only at e
                  rw [← e]; exact decDigits_suffix _ _
                · split at hnum
                  · simp only [Option.some.injEq] at hnum
                    have e := congrArg Prod.snd hnum
                    simp only at e
                    rw [← e]; exact (hexDigits_suffix _ _).trans (List.drop_suffix _ _)
                  · simp at hnum
              · simp at hnum
            split at h
            · rename_i r''
              split at h
              · simp at h
              · exact map_ok_suffix h (by rintro ⟨v, w, t⟩; rfl) (ih _ _) (((List.suffix_cons _ _).trans hr').trans
                  ((List.suffix_cons _ _).trans (List.suffix_cons _ _)))
            · simp at h
        · split at h
          · rename_i ch r0 he
            exact map_ok_suffix h (by rintro ⟨v, w, t⟩; rfl) (ih _ _) ((entity_suffix _ _ _ he).trans (List.suffix_cons _ _))
          · simp at h
      · split at h
        · rename_i r0 hs
          split at h
          · simp at h
          · rename_i data r' hf
            dsimp only at h
            exact map_ok_suffix h (by rintro ⟨v, w, t⟩; rfl) (ih _ _) ((findCdataEnd_suffix _ _ _ hf).trans (stripPrefix_suffix _ _ _ hs))
        · split at h
          · simp only [Except.ok.injEq] at h; subst h; exact List.suffix_refl _
          · split at h
            · simp at h
            · dsimp only at h
              exact map_ok_suffix h (by rintro ⟨v, w, t⟩; rfl) (ih _ _) (List.drop_suffix _ _)

theorem parse_suffix (endc : UInt8) (inp : Bytes) (r : Bytes × Bool × Bytes) (h : XmlText.parse endc inp = .ok r) : r.2.2 <:+ inp :=
  parseValue_suffix endc _ inp true r h

end LyModel.XmlLex

namespace LyModel.XmlLex
open LyModel LyModel.Utf8 LyModel.XmlText LyModel.Generated

theorem map_ok_inv {ε α β : Type} {x : Except ε α} {f : α → β} {y : β} (h : x.map f = .ok y) : ∃ t, x = .ok t ∧ f t = y := by
  cases x with
  | error e => simp [Except.map] at h
  | ok t => exact ⟨t, rfl, by simpa [Except.map] using h⟩

theorem ignWs_suffix : ∀ s : Bytes, ignWs s <:+ s
  | [] => List.suffix_refl _
  | b :: r => by
    simp only [ignWs]; split
    · exact (ignWs_suffix r).trans (List.suffix_cons _ _)
    · exact List.suffix_refl _

theorem moveInput_suffix (inp r : Bytes) (n : Nat) (h : moveInput inp n = .ok r) : r <:+ inp := by
  unfold moveInput at h; split at h
  · simp at h
  · simp only [Except.ok.injEq] at h; subst h; exact List.drop_suffix _ _

theorem identRest_suffix : ∀ (f : Nat) (inp a r : Bytes), identRest f inp = .ok (a, r) → r <:+ inp
  | 0, _, _, _, h => by simp [identRest] at h
  | f + 1, inp, a, r, h => by
    unfold identRest at h
    split at h
    · simp at h
    · split at h
      · obtain ⟨⟨a', r'⟩, ht, hft⟩ := map_ok_inv h
        simp only [Prod.mk.injEq] at hft
        obtain ⟨_, rfl⟩ := hft
        exact (identRest_suffix f _ a' r' ht).trans (List.drop_suffix _ _)
      · simp only [Except.ok.injEq, Prod.mk.injEq] at h; obtain ⟨_, rfl⟩ := h; exact List.suffix_refl _

theorem parseIdent_suffix (inp a r : Bytes) (h : parseIdent inp = .ok (a, r)) : r <:+ inp := by
  unfold parseIdent at h
  split at h
  · simp at h
  · split at h
    · simp at h
    · obtain ⟨⟨a', r'⟩, ht, hft⟩ := map_ok_inv h
      simp only [Prod.mk.injEq] at hft
      obtain ⟨_, rfl⟩ := hft
      exact (identRest_suffix _ _ a' r' ht).trans (List.drop_suffix _ _)

theorem parseQName_suffix (inp : Bytes) (p : Option Bytes) (n r : Bytes) (h : parseQName inp = .ok (p, n, r)) : r <:+ inp := by
  unfold parseQName at h
  split at h
  · simp at h
  · rename_i a r0 h0
    have s0 := parseIdent_suffix inp a r0 h0
    split at h
    · split at h
      · simp at h
      · rename_i r1 h1
        have s1 := moveInput_suffix _ _ _ h1
        obtain ⟨⟨b, r2⟩, ht, hft⟩ := map_ok_inv h
        simp only [Prod.mk.injEq] at hft
        obtain ⟨_, _, rfl⟩ := hft
        exact ((parseIdent_suffix _ _ _ ht).trans s1).trans s0
    · simp only [Except.ok.injEq, Prod.mk.injEq] at h; obtain ⟨_, _, rfl⟩ := h; exact s0

theorem nextAttrContent_suffix (inp v : Bytes) (w : Bool) (r : Bytes) (h : nextAttrContent inp = .ok (v, w, r)) : r <:+ inp := by
  unfold nextAttrContent at h
  dsimp only at h
  split at h
  · simp at h
  · split at h
    · simp at h
    · rename_i i2 h2
      have s2 := (moveInput_suffix _ _ _ h2).trans (ignWs_suffix inp)
      split at h
      · simp at h
      · rename_i q tl hq
        split at h
        · simp at h
        · split at h
          · simp at h
          · rename_i i4 h4
            have s4 := moveInput_suffix _ _ _ h4
            split at h
            · simp at h
            · rename_i v' ws rest hp
              simp only [Except.ok.injEq, Prod.mk.injEq] at h
              obtain ⟨_, _, rfl⟩ := h
              have s5 := parse_suffix _ _ _ hp
              exact (((List.drop_suffix 1 rest).trans s5).trans s4).trans ((ignWs_suffix i2).trans s2)

theorem skipSection_suffix (delim : Bytes) : ∀ (s r : Bytes), skipSection delim s = .ok r → r <:+ s
  | [], r, h => by simp [skipSection] at h
  | c :: cs, r, h => by
    simp only [skipSection] at h
    split at h
    · rename_i r0 hs; simp only [Except.ok.injEq] at h; subst h; exact stripPrefix_suffix _ _ _ hs
    · exact (skipSection_suffix delim cs r h).trans (List.suffix_cons _ _)

end LyModel.XmlLex

namespace LyModel.XmlLex
open LyModel LyModel.Utf8 LyModel.XmlText LyModel.Generated

theorem skipToTag_suffix (depth : Nat) : ∀ (f : Nat) (inp r : Bytes), skipToTag depth f inp = .ok r → r <:+ inp
  | 0, _, _, h => by simp [skipToTag] at h
  | f + 1, inp, r, h => by
    unfold skipToTag at h
    have sw := ignWs_suffix inp
    split at h
    · split at h
      · simp at h
      · simp only [Except.ok.injEq] at h; subst h; exact List.nil_suffix
    · rename_i c cs hc
      rw [hc] at sw
      split at h
      · simp at h
      · split at h
        · simp at h
        · rename_i r0
          split at h
          · simp at h
          · split at h
            · rename_i r1 h1
              split at h
              · simp at h
              · split at h
                · simp at h
                · rename_i r2 h2
                  exact ((((skipToTag_suffix depth f r2 r h).trans (skipSection_suffix _ _ _ h2)).trans (stripPrefix_suffix _ _ _ h1)).trans
                    ((List.suffix_cons _ _).trans (List.suffix_cons _ _))).trans sw
            · simp at h
        · rename_i r0
          split at h
          · simp at h
          · rename_i r2 h2
            exact (((skipToTag_suffix depth f r2 r h).trans (skipSection_suffix _ _ _ h2)).trans (List.suffix_cons _ _)).trans sw
        · simp only [Except.ok.injEq] at h; subst h; exact (List.suffix_cons _ _).trans sw

/-- element stack within `LY_MAX_BLOCK_DEPTH`: `lyxml_open_element` refuses to go beyond it, nothing else pushes -/
theorem openElement_depth (cx c' : XCtx) (p : Option Bytes) (n inp : Bytes) (h : openElement cx p n inp = .ok c') :
    c'.elems.length ≤ LY_MAX_BLOCK_DEPTH := by
  unfold openElement at h
  dsimp only at h
  split at h
  · simp at h
  · rename_i hlen
    split at h
    · simp at h
    · simp only [Except.ok.injEq] at h; subst h; simpa using hlen

theorem closeElement_depth (cx c' : XCtx) (p : Option Bytes) (n : Bytes) (e : Bool) (inp : Bytes) (h : closeElement cx p n e inp = .ok c') :
    c'.elems.length ≤ cx.elems.length := by
  unfold closeElement at h
  split at h
  · simp at h
  · rename_i e0 es he
    split at h
    · simp at h
    · dsimp only at h
      split at h
      · simp at h
      · split at h
        · simp at h
        · simp only [Except.ok.injEq] at h; subst h; simp [he]

end LyModel.XmlLex

namespace LyModel.XmlLex
open LyModel LyModel.Utf8 LyModel.XmlText LyModel.Generated

theorem nextElement_suffix (depth : Nat) (inp : Bytes) (cl : Bool) (p : Option Bytes) (n r : Bytes)
    (h : nextElement depth inp = .ok (some (cl, p, n, r))) : r <:+ inp := by
  unfold nextElement at h
  split at h
  · simp at h
  · simp at h
  · rename_i c cs hs
    have s0 := skipToTag_suffix depth _ inp _ hs
    dsimp only at h
    split at h
    · split at h
      · simp at h
      · rename_i i hi
        obtain ⟨⟨p', n', r'⟩, ht, hft⟩ := map_ok_inv h
        simp only [Option.some.injEq, Prod.mk.injEq] at hft
        obtain ⟨_, _, _, rfl⟩ := hft
        exact (((parseQName_suffix _ _ _ _ ht).trans (ignWs_suffix _)).trans (moveInput_suffix _ _ _ hi)).trans s0
    · obtain ⟨⟨p', n', r'⟩, ht, hft⟩ := map_ok_inv h
      simp only [Option.some.injEq, Prod.mk.injEq] at hft
      obtain ⟨_, _, _, rfl⟩ := hft
      exact ((parseQName_suffix _ _ _ _ ht).trans (ignWs_suffix _)).trans s0

theorem openAttrs_suffix (count : Nat) : ∀ (f : Nat) (isNs : Bool) (prev : Bytes) (ns : List XNs) (inp : Bytes) (ns' : List XNs) (p' : Bytes),
    openAttrs count f isNs prev ns inp = .ok (ns', p') → p' <:+ inp ∨ p' = prev
  | 0, _, _, _, _, _, _, h => by simp [openAttrs] at h
  | f + 1, isNs, prev, ns, inp, ns', p', h => by
    unfold openAttrs at h
    split at h
    · simp only [Except.ok.injEq, Prod.mk.injEq] at h; exact Or.inr h.2.symm
    · split at h
      · simp at h
      · split at h
        · simp only [Except.ok.injEq, Prod.mk.injEq] at h; exact Or.inr h.2.symm
        · split at h
          · simp at h
          · rename_i p n r hq
            have sq := parseQName_suffix _ _ _ _ hq
            split at h
            · simp at h
            · rename_i v w r1 hc
              have sc := (ignWs_suffix r1).trans ((nextAttrContent_suffix _ _ _ _ hc).trans sq)
              dsimp only at h
              split at h
              · split at h
                · simp at h
                · rename_i nsx hns
                  rcases openAttrs_suffix count f _ _ _ _ _ _ h with h1 | h1
                  · exact Or.inl (h1.trans sc)
                  · split at h1
                    · exact Or.inl (h1 ▸ sc)
                    · exact Or.inr h1
              · rcases openAttrs_suffix count f _ _ _ _ _ _ h with h1 | h1
                · exact Or.inl (h1.trans sc)
                · exact Or.inr h1

theorem openElement_suffix (cx c' : XCtx) (p : Option Bytes) (n inp : Bytes) (h : openElement cx p n inp = .ok c') : c'.inp <:+ inp := by
  unfold openElement at h
  dsimp only at h
  split at h
  · simp at h
  · split at h
    · simp at h
    · rename_i ns prev ho
      simp only [Except.ok.injEq] at h; subst h
      rcases openAttrs_suffix _ _ _ _ _ _ _ _ ho with h1 | h1
      · exact h1.trans (ignWs_suffix inp)
      · simp only [h1]; exact ignWs_suffix inp

theorem closeElement_suffix (cx c' : XCtx) (p : Option Bytes) (n : Bytes) (e : Bool) (inp : Bytes)
    (h : closeElement cx p n e inp = .ok c') : c'.inp <:+ inp := by
  unfold closeElement at h
  split at h
  · simp at h
  · split at h
    · simp at h
    · dsimp only at h
      split at h
      · simp at h
      · rename_i i2 hi2
        have s2 : i2 <:+ inp := by
          split at hi2
          · exact (moveInput_suffix _ _ _ hi2).trans (ignWs_suffix inp)
          · simp only [Except.ok.injEq] at hi2; subst hi2; exact ignWs_suffix inp
        split at h
        · simp at h
        · simp only [Except.ok.injEq] at h; subst h; exact (List.drop_suffix 1 i2).trans s2

theorem nextAttribute_suffix : ∀ (f : Nat) (inp : Bytes) (o : Option (Option Bytes × Bytes)) (r : Bytes),
    nextAttribute f inp = .ok (o, r) → r <:+ inp
  | 0, _, _, _, h => by simp [nextAttribute] at h
  | f + 1, inp, o, r, h => by
    unfold nextAttribute at h
    dsimp only at h
    have sw := ignWs_suffix inp
    split at h
    · simp at h
    · rename_i c tl hc
      split at h
      · simp only [Except.ok.injEq, Prod.mk.injEq] at h; obtain ⟨_, rfl⟩ := h; exact sw
      · split at h
        · simp at h
        · split at h
          · simp at h
          · split at h
            · simp at h
            · rename_i p n r0 hq
              have sq := (parseQName_suffix _ _ _ _ hq).trans sw
              split at h
              · simp only [Except.ok.injEq, Prod.mk.injEq] at h; obtain ⟨_, rfl⟩ := h; exact sq
              · split at h
                · simp at h
                · rename_i v w r1 hcn
                  exact (nextAttribute_suffix f r1 o r h).trans ((nextAttrContent_suffix _ _ _ _ hcn).trans sq)

theorem afterTag_suffix (cx c' : XCtx) (inp : Bytes) (h : afterTag cx inp = .ok c') : c'.inp <:+ inp := by
  unfold afterTag at h
  split at h
  · simp at h
  · simp only [Except.ok.injEq] at h; subst h; exact List.nil_suffix
  · rename_i cl p n r hn
    have s := nextElement_suffix _ _ _ _ _ _ hn
    split at h
    · exact (closeElement_suffix _ _ _ _ _ _ h).trans s
    · exact (openElement_suffix _ _ _ _ _ h).trans s

/-- the `LYXML_ELEMENT` / `LYXML_ATTR_CONTENT` case of `lyxml_ctx_next` -/
def inTagStep (cx : XCtx) : Except YErr XCtx :=
  match nextAttribute (cx.inp.length + 1) cx.inp with
  | .error e => .error e
  | .ok (none, i) =>
    if i.head? == some 62 then
      let i1 := i.drop 1
      if i1.isEmpty then .error .invalid else
      match XmlText.parse 60 i1 with
      | .error _ => .error .invalid
      | .ok (v, ws, rest) => .ok { cx with inp := rest, status := .elemContent, value := v, wsOnly := ws }
    else
      .ok { cx with inp := i, status := .elemContent, value := [], wsOnly := true }
  | .ok (some (p, n), i) => .ok { cx with inp := i, status := .attribute, pfx := p, name := n }

theorem inTagStep_suffix (cx c' : XCtx) (h : inTagStep cx = .ok c') : c'.inp <:+ cx.inp := by
  unfold inTagStep at h
  split at h
  · simp at h
  · rename_i i hn
    have s := nextAttribute_suffix _ _ _ _ hn
    split at h
    · dsimp only at h
      split at h
      · simp at h
      · split at h
        · simp at h
        · rename_i v ws rest hp
          simp only [Except.ok.injEq] at h; subst h
          exact ((parse_suffix _ _ _ hp).trans (List.drop_suffix 1 i)).trans s
    · simp only [Except.ok.injEq] at h; subst h; exact s
  · rename_i p n i hn
    simp only [Except.ok.injEq] at h; subst h
    exact nextAttribute_suffix _ _ _ _ hn

/-- **`lyxml_ctx_next` moves the read position forward inside the input**, in every state -/
theorem ctxNext_suffix (cx c' : XCtx) (h : ctxNext cx = .ok c') : c'.inp <:+ cx.inp := by
  unfold ctxNext at h
  split at h
  · -- element content
    split at h
    · split at h
      · simp at h
      · exact closeElement_suffix _ _ _ _ _ _ h
    · exact afterTag_suffix _ _ _ h
  · exact afterTag_suffix _ _ _ h
  · exact inTagStep_suffix cx c' h
  · exact inTagStep_suffix cx c' h
  · -- attribute
    split at h
    · simp at h
    · rename_i v ws rest hc
      simp only [Except.ok.injEq] at h; subst h
      exact nextAttrContent_suffix _ _ _ _ hc
  · simp only [Except.ok.injEq] at h; subst h; exact List.suffix_refl _

end LyModel.XmlLex

namespace LyModel.XmlLex
open LyModel LyModel.Utf8 LyModel.XmlText LyModel.Generated

/-! ## the fuel never runs out: any fuel above the length of the input gives the same result -/

theorem identRest_fuel : ∀ (f g : Nat) (inp : Bytes), inp.length < f → inp.length < g → identRest f inp = identRest g inp
  | 0, _, _, hf, _ => by omega
  | _, 0, _, _, hg => by omega
  | f + 1, g + 1, inp, hf, hg => by
    unfold identRest
    split
    · rfl
    · rename_i c n hgu
      have ⟨hn0, hnl, _⟩ := getUtf8_append hgu
      split
      · rw [identRest_fuel f g (inp.drop n) (by simp; omega) (by simp; omega)]
      · rfl

theorem parseIdent_lt (inp a r : Bytes) (h : parseIdent inp = .ok (a, r)) : r.length < inp.length := by
  unfold parseIdent at h
  split at h
  · simp at h
  · rename_i c n hgu
    have ⟨hn0, hnl, _⟩ := getUtf8_append hgu
    split at h
    · simp at h
    · obtain ⟨⟨a', r'⟩, ht, hft⟩ := map_ok_inv h
      simp only [Prod.mk.injEq] at hft
      obtain ⟨_, rfl⟩ := hft
      have := (identRest_suffix _ _ a' r' ht).length_le
      simp at this; omega

theorem parseQName_lt (inp : Bytes) (p : Option Bytes) (n r : Bytes) (h : parseQName inp = .ok (p, n, r)) : r.length < inp.length := by
  unfold parseQName at h
  split at h
  · simp at h
  · rename_i a r0 h0
    have l0 := parseIdent_lt inp a r0 h0
    split at h
    · split at h
      · simp at h
      · rename_i r1 h1
        have s1 := (moveInput_suffix _ _ _ h1).length_le
        obtain ⟨⟨b, r2⟩, ht, hft⟩ := map_ok_inv h
        simp only [Prod.mk.injEq] at hft
        obtain ⟨_, _, rfl⟩ := hft
        have := parseIdent_lt _ _ _ ht
        omega
    · simp only [Except.ok.injEq, Prod.mk.injEq] at h; obtain ⟨_, _, rfl⟩ := h; exact l0

theorem nextAttribute_fuel : ∀ (f g : Nat) (inp : Bytes), inp.length < f → inp.length < g → nextAttribute f inp = nextAttribute g inp
  | 0, _, _, hf, _ => by omega
  | _, 0, _, _, hg => by omega
  | f + 1, g + 1, inp, hf, hg => by
    unfold nextAttribute
    dsimp only
    have sw := (ignWs_suffix inp).length_le
    split
    · rfl
    · split
      · rfl
      · split
        · rfl
        · split
          · rfl
          · split
            · rfl
            · rename_i p n r0 hq
              have lq := parseQName_lt _ _ _ _ hq
              split
              · rfl
              · split
                · rfl
                · rename_i v w r1 hcn
                  have lc := (nextAttrContent_suffix _ _ _ _ hcn).length_le
                  exact nextAttribute_fuel f g r1 (by omega) (by omega)

theorem skipToTag_fuel (depth : Nat) : ∀ (f g : Nat) (inp : Bytes), inp.length < f → inp.length < g →
    skipToTag depth f inp = skipToTag depth g inp
  | 0, _, _, hf, _ => by omega
  | _, 0, _, _, hg => by omega
  | f + 1, g + 1, inp, hf, hg => by
    unfold skipToTag
    have sw := (ignWs_suffix inp).length_le
    split
    · rfl
    · rename_i c cs hc
      rw [hc] at sw
      simp only [List.length_cons] at sw
      split
      · rfl
      · split
        · rfl
        · rename_i r0
          simp only [List.length_cons] at sw
          split
          · rfl
          · split
            · rename_i r1 h1
              have l1 := (stripPrefix_suffix _ _ _ h1).length_le
              split
              · rfl
              · split
                · rfl
                · rename_i r2 h2
                  have l2 := (skipSection_suffix _ _ _ h2).length_le
                  exact skipToTag_fuel depth f g r2 (by omega) (by omega)
            · rfl
        · rename_i r0
          simp only [List.length_cons] at sw
          split
          · rfl
          · rename_i r2 h2
            have l2 := (skipSection_suffix _ _ _ h2).length_le
            simp only [List.length_cons] at l2
            exact skipToTag_fuel depth f g r2 (by omega) (by omega)
        · rfl

theorem openAttrs_fuel (count : Nat) : ∀ (f g : Nat) (isNs : Bool) (prev : Bytes) (ns : List XNs) (inp : Bytes),
    inp.length < f → inp.length < g → openAttrs count f isNs prev ns inp = openAttrs count g isNs prev ns inp
  | 0, _, _, _, _, _, hf, _ => by omega
  | _, 0, _, _, _, _, _, hg => by omega
  | f + 1, g + 1, isNs, prev, ns, inp, hf, hg => by
    unfold openAttrs
    split
    · rfl
    · split
      · rfl
      · split
        · rfl
        · split
          · rfl
          · rename_i p n r hq
            have lq := parseQName_lt _ _ _ _ hq
            split
            · rfl
            · rename_i v w r1 hc
              have lc := (nextAttrContent_suffix _ _ _ _ hc).length_le
              have lw := (ignWs_suffix r1).length_le
              dsimp only
              split
              · split
                · rfl
                · exact openAttrs_fuel count f g _ _ _ _ (by omega) (by omega)
              · exact openAttrs_fuel count f g _ _ _ _ (by omega) (by omega)

end LyModel.XmlLex
