import LyModel.XmlLex.Model
/-!
# Memory-safety side of the XML pull lexer: the read position only moves forward inside the input

In the list model `in->current` is the remaining input; "every read is below the first NUL" becomes: whatever a step leaves as
remaining input is a SUFFIX of what it was given (the position never moves back and never passes the end), and every look-ahead
(`rd`, `head?`, `stripPrefix`, `getUtf8` — at most 4 bytes, stopping at the first byte that is not a continuation byte) is on that
remaining input, whose end is the NUL.  Helper lemmas; the property theorems are in `Props/C05XmlLex.lean`.
-/
set_option linter.unusedSimpArgs false
set_option linter.unusedVariables false
namespace LyModel.XmlLex
open LyModel LyModel.Utf8 LyModel.XmlText

theorem stripPrefix_suffix : ∀ (p s r : Bytes), stripPrefix p s = some r → r <:+ s
  | [], s, r, h => by simp [stripPrefix] at h; subst h; exact List.suffix_refl _
  | _ :: _, [], r, h => by simp [stripPrefix] at h
  | a :: p, c :: s, r, h => by
    simp only [stripPrefix] at h
    split at h
    · exact (stripPrefix_suffix p s r h).trans (List.suffix_cons _ _)
    · simp at h

theorem entity_suffix (cs : Bytes) (ch : UInt8) (r : Bytes) (h : entity cs = some (ch, r)) : r <:+ cs := by
  unfold entity at h
  repeat' split at h
  all_goals first
    | (simp only [Option.some.injEq, Prod.mk.injEq] at h; obtain ⟨_, rfl⟩ := h; apply stripPrefix_suffix; assumption)
    | simp at h

theorem decDigits_suffix : ∀ (s : Bytes) (n : Nat), (decDigits s n).2 <:+ s
  | [], n => by simp [decDigits]
  | c :: cs, n => by
    simp only [decDigits]
    split
    · exact (decDigits_suffix cs _).trans (List.suffix_cons _ _)
    · exact List.suffix_refl _

theorem hexDigits_suffix : ∀ (s : Bytes) (n : Nat), (hexDigits s n).2 <:+ s
  | [], n => by simp [hexDigits]
  | c :: cs, n => by
    simp only [hexDigits]
    split
    · exact (hexDigits_suffix cs _).trans (List.suffix_cons _ _)
    · exact List.suffix_refl _

theorem findCdataEnd_suffix : ∀ (s a r : Bytes), findCdataEnd s = some (a, r) → r <:+ s
  | [], a, r, h => by simp [findCdataEnd] at h
  | c :: cs, a, r, h => by
    simp only [findCdataEnd] at h
    split at h
    · rename_i r0 hs
      simp only [Option.some.injEq, Prod.mk.injEq] at h
      obtain ⟨_, rfl⟩ := h
      exact stripPrefix_suffix _ _ _ hs
    · cases hr : findCdataEnd cs with
      | none => simp [hr] at h
      | some ar =>
        obtain ⟨a', r'⟩ := ar
        simp only [hr, Option.map_some, Option.some.injEq, Prod.mk.injEq] at h
        obtain ⟨_, rfl⟩ := h
        exact (findCdataEnd_suffix cs a' r' hr).trans (List.suffix_cons _ _)

theorem map_ok_suffix {inp' inp : Bytes} {x : Except LexErr (Bytes × Bool × Bytes)} {f : Bytes × Bool × Bytes → Bytes × Bool × Bytes}
    {r : Bytes × Bool × Bytes} (h : x.map f = .ok r) (hf : ∀ t, (f t).2.2 = t.2.2) (ih : ∀ r, x = .ok r → r.2.2 <:+ inp')
    (hs : inp' <:+ inp) : r.2.2 <:+ inp := by
  cases x with
  | error e => simp [Except.map] at h
  | ok t =>
    simp only [Except.map, Except.ok.injEq] at h
    subst h
    rw [hf]
    exact (ih t rfl).trans hs

/-- `lyxml_parse_value` stops inside its input -/
theorem parseValue_suffix (endc : UInt8) : ∀ (fuel : Nat) (inp : Bytes) (ws : Bool) (r : Bytes × Bool × Bytes),
    parseValue endc fuel inp ws = .ok r → r.2.2 <:+ inp
  | 0, _, _, r, h => by simp [parseValue] at h
  | _ + 1, [], _, r, h => by simp [parseValue] at h
  | fuel + 1, c :: cs, ws, r, h => by
    have ih := parseValue_suffix endc fuel
    unfold parseValue at h
    split at h
    · simp at h
    · split at h
      · -- '&'
        split at h
        · rename_i r0
          dsimp only at h
          split at h
          · simp at h
          · rename_i n r' hnum
            have hr' : r' <:+ r0 := by
              split at hnum
              · split at hnum
                · simp only [Option.some.injEq] at hnum
                  have e := congrArg Prod.snd hnum
                  simp only at e
                  rw [← e]; exact decDigits_suffix _ _
                · split at hnum
                  · simp only [Option.some.injEq] at hnum
                    have e := congrArg Prod.snd hnum
                    simp only at e
                    rw [← e]; exact (hexDigits_suffix _ _).trans (List.drop_suffix _ _)
                  · simp at hnum
              · simp at hnum
            split at h
            · rename_i r''
              split at h
              · simp at h
              · exact map_ok_suffix h (by rintro ⟨v, w, t⟩; rfl) (ih _ _) (((List.suffix_cons _ _).trans hr').trans
                  ((List.suffix_cons _ _).trans (List.suffix_cons _ _)))
            · simp at h
        · split at h
          · rename_i ch r0 he
            exact map_ok_suffix h (by rintro ⟨v, w, t⟩; rfl) (ih _ _) ((entity_suffix _ _ _ he).trans (List.suffix_cons _ _))
          · simp at h
      · split at h
        · rename_i r0 hs
          split at h
          · simp at h
          · rename_i data r' hf
            dsimp only at h
            exact map_ok_suffix h (by rintro ⟨v, w, t⟩; rfl) (ih _ _) ((findCdataEnd_suffix _ _ _ hf).trans (stripPrefix_suffix _ _ _ hs))
        · split at h
          · simp only [Except.ok.injEq] at h; subst h; exact List.suffix_refl _
          · split at h
            · simp at h
            · dsimp only at h
              exact map_ok_suffix h (by rintro ⟨v, w, t⟩; rfl) (ih _ _) (List.drop_suffix _ _)

theorem parse_suffix (endc : UInt8) (inp : Bytes) (r : Bytes × Bool × Bytes) (h : XmlText.parse endc inp = .ok r) : r.2.2 <:+ inp :=
  parseValue_suffix endc _ inp true r h

end LyModel.XmlLex

namespace LyModel.XmlLex
open LyModel LyModel.Utf8 LyModel.XmlText LyModel.Generated

theorem map_ok_inv {ε α β : Type} {x : Except ε α} {f : α → β} {y : β} (h : x.map f = .ok y) : ∃ t, x = .ok t ∧ f t = y := by
  cases x with
  | error e => simp [Except.map] at h
  | ok t => exact ⟨t, rfl, by simpa [Except.map] using h⟩

theorem ignWs_suffix : ∀ s : Bytes, ignWs s <:+ s
  | [] => List.suffix_refl _
  | b :: r => by
    simp only [ignWs]; split
    · exact (ignWs_suffix r).trans (List.suffix_cons _ _)
    · exact List.suffix_refl _

theorem moveInput_suffix (inp r : Bytes) (n : Nat) (h : moveInput inp n = .ok r) : r <:+ inp := by
  unfold moveInput at h; split at h
  · simp at h
  · simp only [Except.ok.injEq] at h; subst h; exact List.drop_suffix _ _

theorem identRest_suffix : ∀ (f : Nat) (inp a r : Bytes), identRest f inp = .ok (a, r) → r <:+ inp
  | 0, _, _, _, h => by simp [identRest] at h
  | f + 1, inp, a, r, h => by
    unfold identRest at h
    split at h
    · simp at h
    · split at h
      · obtain ⟨⟨a', r'⟩, ht, hft⟩ := map_ok_inv h
        simp only [Prod.mk.injEq] at hft
        obtain ⟨_, rfl⟩ := hft
        exact (identRest_suffix f _ a' r' ht).trans (List.drop_suffix _ _)
      · simp only [Except.ok.injEq, Prod.mk.injEq] at h; obtain ⟨_, rfl⟩ := h; exact List.suffix_refl _

theorem parseIdent_suffix (inp a r : Bytes) (h : parseIdent inp = .ok (a, r)) : r <:+ inp := by
  unfold parseIdent at h
  split at h
  · simp at h
  · split at h
    · simp at h
    · obtain ⟨⟨a', r'⟩, ht, hft⟩ := map_ok_inv h
      simp only [Prod.mk.injEq] at hft
      obtain ⟨_, rfl⟩ := hft
      exact (identRest_suffix _ _ a' r' ht).trans (List.drop_suffix _ _)

theorem parseQName_suffix (inp : Bytes) (p : Option Bytes) (n r : Bytes) (h : parseQName inp = .ok (p, n, r)) : r <:+ inp := by
  unfold parseQName at h
  split at h
  · simp at h
  · rename_i a r0 h0
    have s0 := parseIdent_suffix inp a r0 h0
    split at h
    · split at h
      · simp at h
      · rename_i r1 h1
        have s1 := moveInput_suffix _ _ _ h1
        obtain ⟨⟨b, r2⟩, ht, hft⟩ := map_ok_inv h
        simp only [Prod.mk.injEq] at hft
        obtain ⟨_, _, rfl⟩ := hft
        exact ((parseIdent_suffix _ _ _ ht).trans s1).trans s0
    · simp only [Except.ok.injEq, Prod.mk.injEq] at h; obtain ⟨_, _, rfl⟩ := h; exact s0

theorem nextAttrContent_suffix (inp v : Bytes) (w : Bool) (r : Bytes) (h : nextAttrContent inp = .ok (v, w, r)) : r <:+ inp := by
  unfold nextAttrContent at h
  dsimp only at h
  split at h
  · simp at h
  · split at h
    · simp at h
    · rename_i i2 h2
      have s2 := (moveInput_suffix _ _ _ h2).trans (ignWs_suffix inp)
      split at h
      · simp at h
      · rename_i q tl hq
        split at h
        · simp at h
        · split at h
          · simp at h
          · rename_i i4 h4
            have s4 := moveInput_suffix _ _ _ h4
            split at h
            · simp at h
            · rename_i v' ws rest hp
              simp only [Except.ok.injEq, Prod.mk.injEq] at h
              obtain ⟨_, _, rfl⟩ := h
              have s5 := parse_suffix _ _ _ hp
              exact (((List.drop_suffix 1 rest).trans s5).trans s4).trans ((ignWs_suffix i2).trans s2)

theorem skipSection_suffix (delim : Bytes) : ∀ (s r : Bytes), skipSection delim s = .ok r → r <:+ s
  | [], r, h => by simp [skipSection] at h
  | c :: cs, r, h => by
    simp only [skipSection] at h
    split at h
    · rename_i r0 hs; simp only [Except.ok.injEq] at h; subst h; exact stripPrefix_suffix _ _ _ hs
    · exact (skipSection_suffix delim cs r h).trans (List.suffix_cons _ _)

end LyModel.XmlLex

namespace LyModel.XmlLex
open LyModel LyModel.Utf8 LyModel.XmlText LyModel.Generated

theorem skipToTag_suffix (depth : Nat) : ∀ (f : Nat) (inp r : Bytes), skipToTag depth f inp = .ok r → r <:+ inp
  | 0, _, _, h => by simp [skipToTag] at h
  | f + 1, inp, r, h => by
    unfold skipToTag at h
    have sw := ignWs_suffix inp
    split at h
    · split at h
      · simp at h
      · simp only [Except.ok.injEq] at h; subst h; exact List.nil_suffix
    · rename_i c cs hc
      rw [hc] at sw
      split at h
      · simp at h
      · split at h
        · simp at h
        · rename_i r0
          split at h
          · simp at h
          · split at h
            · rename_i r1 h1
              split at h
              · simp at h
              · split at h
                · simp at h
                · rename_i r2 h2
                  exact ((((skipToTag_suffix depth f r2 r h).trans (skipSection_suffix _ _ _ h2)).trans (stripPrefix_suffix _ _ _ h1)).trans
                    ((List.suffix_cons _ _).trans (List.suffix_cons _ _))).trans sw
            · simp at h
        · rename_i r0
          split at h
          · simp at h
          · rename_i r2 h2
            exact (((skipToTag_suffix depth f r2 r h).trans (skipSection_suffix _ _ _ h2)).trans (List.suffix_cons _ _)).trans sw
        · simp only [Except.ok.injEq] at h; subst h; exact (List.suffix_cons _ _).trans sw

/-- element stack within `LY_MAX_BLOCK_DEPTH`: `lyxml_open_element` refuses to go beyond it, nothing else pushes -/
theorem openElement_depth (cx c' : XCtx) (p : Option Bytes) (n inp : Bytes) (h : openElement cx p n inp = .ok c') :
    c'.elems.length ≤ LY_MAX_BLOCK_DEPTH := by
  unfold openElement at h
  dsimp only at h
  split at h
  · simp at h
  · rename_i hlen
    split at h
    · simp at h
    · simp only [Except.ok.injEq] at h; subst h; simpa using hlen

theorem closeElement_depth (cx c' : XCtx) (p : Option Bytes) (n : Bytes) (e : Bool) (inp : Bytes) (h : closeElement cx p n e inp = .ok c') :
    c'.elems.length ≤ cx.elems.length := by
  unfold closeElement at h
  split at h
  · simp at h
  · rename_i e0 es he
    split at h
    · simp at h
    · dsimp only at h
      split at h
      · simp at h
      · split at h
        · simp at h
        · simp only [Except.ok.injEq] at h; subst h; simp [he]

end LyModel.XmlLex
