import LyModel.Text.XmlText
import LyModel.Generated.YinArgs
import LyModel.Generated.Consts
/-!
# The XML pull lexer (`xml.c`): shared model

Used by the YIN schema parser model (`LyModel/Yin`) and — the same `lyxml_ctx_next` — the lexer of the XML data parser.

`lyxml_ctx_new`, `lyxml_ctx_next` with `lyxml_next_element`, `lyxml_open_element`, `lyxml_close_element`,
`lyxml_next_attribute`, `lyxml_next_attr_content`, `lyxml_parse_qname`/`lyxml_parse_identifier`, `lyxml_ns_add`/`_rm`/`_get`,
`lyxml_skip_until_end_or_after_otag` (comments and `<? … ?>` skipped, DOCTYPE refused).  Character data is
`XmlText.parse` (`lyxml_parse_value`).  The input is a C string: the list holds the bytes before the NUL; the end of the
list is the NUL.  Name-character classes and white space come from the generated ranges (`xml.h` macros evaluated by the
extractor).  Core Lean only.
-/
namespace LyModel.XmlLex
open LyModel LyModel.Utf8 LyModel.Generated

/-- `LY_ERR` values the layer returns: `LY_EVALID`, `LY_EINVAL` (element depth), `LY_EINT` (`LOGINT`) -/
inductive YErr | invalid | einval | eint
  deriving Repr, DecidableEq

def YErr.name : YErr → String
  | .invalid => "Valid" | .einval => "Inval" | .eint => "Int"

inductive XStatus | element | elemClose | attribute | elemContent | attrContent | fin
  deriving Repr, DecidableEq

structure XNs where
  pfx : Option Bytes
  uri : Bytes
  depth : Nat
  deriving Repr, DecidableEq

/-- `struct lyxml_ctx` -/
structure XCtx where
  /-- `in->current` -/
  inp : Bytes
  status : XStatus
  /-- `elements`, innermost first -/
  elems : List (Option Bytes × Bytes)
  /-- `ns`, most recently added first -/
  ns : List XNs
  /-- `prefix` (`none` = NULL) and `name` of the current element / attribute -/
  pfx : Option Bytes
  name : Bytes
  value : Bytes
  wsOnly : Bool
  deriving Repr, DecidableEq

def inRanges (rs : List (Nat × Nat)) (c : Nat) : Bool := rs.any fun r => r.1 ≤ c && c ≤ r.2

def isWs (b : UInt8) : Bool := inRanges xmlWsRanges b.toNat
def isNameStart (c : Nat) : Bool := inRanges xmlNameStartRanges c
def isNameChar (c : Nat) : Bool := inRanges xmlNameCharRanges c

/-- `ign_xmlws` -/
def ignWs : Bytes → Bytes
  | [] => []
  | b :: r => if isWs b then ignWs r else b :: r

/-- `move_input(c, n)`: skip and fail at the end of input -/
def moveInput (inp : Bytes) (n : Nat) : Except YErr Bytes :=
  if (inp.drop n).isEmpty then .error .invalid else .ok (inp.drop n)

/-- the `do … while (is_xmlqnamechar(c))` loop of `lyxml_parse_identifier`: the rest of the identifier and what follows.
    The character after the identifier must decode (`ly_getutf8`), so an identifier at the end of input is an error. -/
def identRest : (fuel : Nat) → Bytes → Except YErr (Bytes × Bytes)
  | 0, _ => .error .invalid
  | f + 1, inp =>
    match getUtf8 inp with
    | none => .error .invalid
    | some (c, n) =>
      if isNameChar c then (identRest f (inp.drop n)).map fun (a, r) => (inp.take n ++ a, r)
      else .ok ([], inp)

/-- `lyxml_parse_identifier` -/
def parseIdent (inp : Bytes) : Except YErr (Bytes × Bytes) :=
  match getUtf8 inp with
  | none => .error .invalid
  | some (c, n) =>
    if !isNameStart c then .error .invalid
    else (identRest (inp.length + 1) (inp.drop n)).map fun (a, r) => (inp.take n ++ a, r)

/-- `lyxml_parse_qname`: prefix (`none` = NULL), name, rest -/
def parseQName (inp : Bytes) : Except YErr (Option Bytes × Bytes × Bytes) :=
  match parseIdent inp with
  | .error e => .error e
  | .ok (a, r) =>
    if r.head? == some 58 then
      match moveInput r 1 with
      | .error e => .error e
      | .ok r1 => (parseIdent r1).map fun (b, r2) => (some a, b, r2)
    else .ok (none, a, r)

/-- `lyxml_next_attr_content`: value, `ws_only`, rest after the closing quote -/
def nextAttrContent (inp : Bytes) : Except YErr (Bytes × Bool × Bytes) :=
  let i1 := ignWs inp
  if i1.head? != some 61 then .error .invalid else
  match moveInput i1 1 with
  | .error e => .error e
  | .ok i2 =>
    let i3 := ignWs i2
    match i3 with
    | [] => .error .invalid
    | q :: _ =>
      if q != 39 && q != 34 then .error .invalid else
      match moveInput i3 1 with
      | .error e => .error e
      | .ok i4 =>
        match XmlText.parse q i4 with
        | .error _ => .error .invalid
        | .ok (v, ws, rest) => .ok (v, ws, rest.drop 1)

def sXmlns : Bytes := [120, 109, 108, 110, 115]

/-- is the attribute a namespace declaration?  (`xmlns:p` or `xmlns`) -/
def isNsDecl (pfx : Option Bytes) (name : Bytes) : Bool :=
  match pfx with
  | some p => p == sXmlns
  | none => name == sXmlns

/-- `lyxml_ns_add`; `count` = `elements.count`.  `none` = "Duplicate XML NS prefix / default namespaces". -/
def nsAdd (ns : List XNs) (count : Nat) (pfx : Option Bytes) (uri : Bytes) : Option (List XNs) :=
  let rec go : List XNs → Option Bool       -- some true: exact duplicate, ignore; some false: add; none: error
    | [] => some false
    | n :: r =>
      if n.depth < count then some false
      else if n.pfx == pfx then (if n.uri == uri then some true else none)
      else go r
  match go ns with
  | none => none
  | some true => some ns
  | some false => some ({ pfx := pfx, uri := uri, depth := count } :: ns)

/-- `lyxml_ns_rm`; `count` = `elements.count` after the element was removed -/
def nsRm (count : Nat) : List XNs → List XNs
  | [] => []
  | n :: r => if n.depth != count + 1 then n :: r else nsRm count r

/-- `lyxml_ns_get(&xmlctx->ns, prefix, prefix_len)` -/
def nsGet (ns : List XNs) (pfx : Option Bytes) : Option Bytes :=
  (ns.find? fun n => n.pfx == pfx).map (·.uri)

/-- `skip_section`: the input after the first occurrence of `delim` -/
def skipSection (delim : Bytes) : Bytes → Except YErr Bytes
  | [] => .error .invalid
  | c :: cs =>
    match XmlText.stripPrefix delim (c :: cs) with
    | some r => .ok r
    | none => skipSection delim cs

/-- `lyxml_skip_until_end_or_after_otag`: the input at the end (`[]`) or just after the `<` of a tag -/
def skipToTag (depth : Nat) : (fuel : Nat) → Bytes → Except YErr Bytes
  | 0, _ => .error .invalid
  | f + 1, inp =>
    match ignWs inp with
    | [] => if depth != 0 then .error .invalid else .ok []
    | c :: cs =>
      if c != 60 then .error .invalid else
      match cs with
      | [] => .error .invalid                 -- move_input: end of input after '<'
      | 33 :: r =>                             -- "<!"
        if r.isEmpty then .error .invalid else
        match XmlText.stripPrefix [45, 45] r with
        | some r1 =>
          if r1.isEmpty then .error .invalid else
          match skipSection [45, 45, 62] r1 with
          | .error e => .error e
          | .ok r2 => skipToTag depth f r2
        | none => .error .invalid              -- DOCTYPE or an unknown section
      | 63 :: r =>                             -- "<?"
        match skipSection [63, 62] (63 :: r) with
        | .error e => .error e
        | .ok r2 => skipToTag depth f r2
      | _ => .ok cs

/-- `lyxml_next_element`: `none` = end of input; else (closing, prefix, name, rest) -/
def nextElement (depth : Nat) (inp : Bytes) : Except YErr (Option (Bool × Option Bytes × Bytes × Bytes)) :=
  match skipToTag depth (inp.length + 1) inp with
  | .error e => .error e
  | .ok [] => .ok none
  | .ok (c :: cs) =>
    let go (closing : Bool) (i : Bytes) : Except YErr (Option (Bool × Option Bytes × Bytes × Bytes)) :=
      (parseQName (ignWs i)).map fun (p, n, r) => some (closing, p, n, r)
    if c == 47 then
      match moveInput (c :: cs) 1 with
      | .error e => .error e
      | .ok i => go true i
    else go false (c :: cs)

/-- the attribute loop of `lyxml_open_element`: namespaces are stored; returns the namespaces and the position after the
    leading run of namespace declarations (`prev_input`) -/
def openAttrs (count : Nat) : (fuel : Nat) → (isNs : Bool) → (prev : Bytes) → List XNs → Bytes → Except YErr (List XNs × Bytes)
  | 0, _, _, _, _ => .error .invalid
  | f + 1, isNs, prev, ns, inp =>
    if inp.isEmpty then .ok (ns, prev) else
    match getUtf8 inp with
    | none => .error .invalid
    | some (c, _) =>
      if !isNameStart c then .ok (ns, prev) else
      match parseQName inp with
      | .error e => .error e
      | .ok (p, n, r) =>
        match nextAttrContent r with
        | .error e => .error e
        | .ok (v, _, r1) =>
          let r2 := ignWs r1
          if isNsDecl p n then
            match nsAdd ns count (if p.isSome then some n else none) v with
            | none => .error .invalid
            | some ns' => openAttrs count f isNs (if isNs then r2 else prev) ns' r2
          else openAttrs count f false prev ns r2

/-- `lyxml_open_element` -/
def openElement (cx : XCtx) (pfx : Option Bytes) (name : Bytes) (inp : Bytes) : Except YErr XCtx :=
  let elems := (pfx, name) :: cx.elems
  if elems.length > LY_MAX_BLOCK_DEPTH then .error .einval else
  let i1 := ignWs inp
  match openAttrs elems.length (i1.length + 1) true i1 cx.ns i1 with
  | .error e => .error e
  | .ok (ns, prev) =>
    .ok { cx with inp := prev, status := .element, elems := elems, ns := ns, pfx := pfx, name := name }

/-- `lyxml_close_element(…, empty)` -/
def closeElement (cx : XCtx) (pfx : Option Bytes) (name : Bytes) (empty : Bool) (inp : Bytes) : Except YErr XCtx :=
  match cx.elems with
  | [] => .error .invalid
  | e :: es =>
    if e.1 != pfx || e.2 != name then .error .invalid else
    let ns := nsRm es.length cx.ns
    let i1 := ignWs inp
    let i2 : Except YErr Bytes := if empty && i1.head? == some 47 then moveInput i1 1 else .ok i1
    match i2 with
    | .error e => .error e
    | .ok i2 =>
      if i2.head? != some 62 then .error .invalid
      else .ok { cx with inp := i2.drop 1, status := .elemClose, elems := es, ns := ns, pfx := pfx, name := name }

/-- `lyxml_next_attribute`: skips namespace declarations; stops in front of `>` / `/` (`none`) or after the name of a
    standard attribute -/
def nextAttribute : (fuel : Nat) → Bytes → Except YErr (Option (Option Bytes × Bytes) × Bytes)
  | 0, _ => .error .invalid
  | f + 1, inp =>
    let i1 := ignWs inp
    match i1 with
    | [] => .error .invalid
    | c :: _ =>
      if c == 62 || c == 47 then .ok (none, i1) else
      match getUtf8 i1 with
      | none => .error .invalid
      | some (cp, _) =>
        if !isNameStart cp then .error .invalid else
        match parseQName i1 with
        | .error e => .error e
        | .ok (p, n, r) =>
          if !isNsDecl p n then .ok (some (p, n), r) else
          match nextAttrContent r with
          | .error e => .error e
          | .ok (_, _, r1) => nextAttribute f r1

/-- the shared tail of `lyxml_ctx_new` and of the `LYXML_ELEM_CLOSE` case of `lyxml_ctx_next` -/
def afterTag (cx : XCtx) (inp : Bytes) : Except YErr XCtx :=
  match nextElement cx.elems.length inp with
  | .error e => .error e
  | .ok none => .ok { cx with inp := [], status := .fin, pfx := none, name := [] }
  | .ok (some (closing, p, n, r)) =>
    if closing then closeElement cx p n false r else openElement cx p n r

/-- `lyxml_ctx_new` (a stray closing tag is an error) -/
def ctxNew (inp : Bytes) : Except YErr XCtx :=
  let cx : XCtx := { inp := inp, status := .fin, elems := [], ns := [], pfx := none, name := [], value := [], wsOnly := false }
  match nextElement 0 inp with
  | .error e => .error e
  | .ok none => .ok { cx with inp := [] }
  | .ok (some (closing, p, n, r)) => if closing then .error .invalid else openElement cx p n r

/-- `lyxml_ctx_next` -/
def ctxNext (cx : XCtx) : Except YErr XCtx :=
  match cx.status with
  | .elemContent =>
    if cx.inp.head? == some 47 then
      match cx.elems with
      | [] => .error .invalid
      | e :: _ => closeElement cx e.1 e.2 true cx.inp
    else afterTag cx cx.inp
  | .elemClose => afterTag cx cx.inp
  | .element | .attrContent =>
    match nextAttribute (cx.inp.length + 1) cx.inp with
    | .error e => .error e
    | .ok (none, i) =>
      if i.head? == some 62 then
        let i1 := i.drop 1
        if i1.isEmpty then .error .invalid else
        match XmlText.parse 60 i1 with
        | .error _ => .error .invalid
        | .ok (v, ws, rest) => .ok { cx with inp := rest, status := .elemContent, value := v, wsOnly := ws }
      else
        .ok { cx with inp := i, status := .elemContent, value := [], wsOnly := true }
    | .ok (some (p, n), i) => .ok { cx with inp := i, status := .attribute, pfx := p, name := n }
  | .attribute =>
    match nextAttrContent cx.inp with
    | .error e => .error e
    | .ok (v, ws, rest) => .ok { cx with inp := rest, status := .attrContent, value := v, wsOnly := ws }
  | .fin => .ok cx

end LyModel.XmlLex
