import LyModel.Dict.Model
/-!
Specification of the dictionary: a map string ↦ reference count, and histories of API calls.
(Core Lean only; the theorems relating it to `Dict` are in `LyModel.Props.C17`.)
-/
namespace LyModel.Dict
open LyModel

/-- one call of the dictionary API -/
inductive DOp where
  /-- `lydict_insert(ctx, value, len)` (`zc = false`) / `lydict_insert_zc(ctx, value)` (`zc = true`, `len = strlen`);
  `alias`: the caller passes the dictionary's own pointer of the string `value` -/
  | ins (value : Bytes) (len : Nat) (zc alias : Bool)
  /-- `lydict_dup(ctx, value)`; `alias = true`: through a pointer obtained from the dictionary (the documented use),
  `false`: through any other pointer to an equal string -/
  | dup (value : Bytes) (alias : Bool)
  /-- `lydict_remove(ctx, value)` -/
  | rem (value : Bytes)
deriving Repr, DecidableEq

/-- the implementation (model of dict.c) -/
def Dict.step (H : Bytes → UInt32) (d : Dict) : DOp → DRes × Dict
  | .ins v len zc alias => d.insert H v len zc alias
  | .dup v alias => d.dup H v alias
  | .rem v => d.remove H v

/-- the implementation with the candidate repair `fixes/F110.diff` -/
def Dict.stepF (H : Bytes → UInt32) (d : Dict) : DOp → DRes × Dict
  | .ins v len zc alias => d.insertFixed H v len zc alias
  | .dup v alias => d.dup H v alias
  | .rem v => d.remove H v

def Dict.runF (H : Bytes → UInt32) : Dict → List DOp → List DRes × Dict
  | d, [] => ([], d)
  | d, o :: os => let (r, d') := d.stepF H o; let (rs, d'') := Dict.runF H d' os; (r :: rs, d'')

abbrev SMap := Bytes → Nat

def SMap.upd (m : SMap) (k : Bytes) (n : Nat) : SMap := fun s => if s = k then n else m s

/-- the specification: insert/dup = +1 (creating at 1), remove = −1 (deleting at 0, `LY_ENOTFOUND` if absent) -/
def specStep (m : SMap) : DOp → DRes × SMap
  | .ins v len _ _ => (.ok (v.take len), m.upd (v.take len) (m (v.take len) + 1))
  | .dup v alias => if alias then (.ok v, m.upd v (m v + 1)) else (.notfound, m)
  | .rem v => if m v = 0 then (.notfound, m) else (.done, m.upd v (m v - 1))

def Dict.run (H : Bytes → UInt32) : Dict → List DOp → List DRes × Dict
  | d, [] => ([], d)
  | d, o :: os => let (r, d') := d.step H o; let (rs, d'') := Dict.run H d' os; (r :: rs, d'')

def specRun : SMap → List DOp → List DRes × SMap
  | m, [] => ([], m)
  | m, o :: os => let (r, m') := specStep m o; let (rs, m'') := specRun m' os; (r :: rs, m'')

/-- API contract of one call in the abstract state `m`: C strings (no NUL), `len` within the buffer, zero-copy inserts
pass whole strings, `lydict_dup` through a dictionary pointer only for a string that is held -/
def OpWf (m : SMap) : DOp → Prop
  | .ins v len zc _ => (0 : UInt8) ∉ v ∧ len ≤ v.length ∧ (zc = true → len = v.length)
  | .dup v alias => alias = true → 0 < m v
  | .rem _ => True

/-- additional hypothesis under which by-length inserts are correct (§6 F110): the prefix that is inserted does not have
the same 32-bit hash as the caller's whole buffer (trivially true when the whole buffer is inserted) -/
def OpNoPrefixCollision (H : Bytes → UInt32) : DOp → Prop
  | .ins v len _ _ => len = v.length ∨ H (v.take len) ≠ H v
  | _ => True

/-- every call of the history satisfies `P` in the abstract state it is made in -/
def AllOps (P : SMap → DOp → Prop) : SMap → List DOp → Prop
  | _, [] => True
  | m, o :: os => P m o ∧ AllOps P (specStep m o).2 os

/-- references taken / released on `s` by a history -/
def adds (s : Bytes) : List DOp → Nat
  | [] => 0
  | .ins v len _ _ :: os => (if v.take len = s then 1 else 0) + adds s os
  | .dup v alias :: os => (if alias ∧ v = s then 1 else 0) + adds s os
  | .rem _ :: os => adds s os

def rems (s : Bytes) : List DOp → Nat
  | [] => 0
  | .rem v :: os => (if v = s then 1 else 0) + rems s os
  | _ :: os => rems s os

/-- no `lydict_remove` of the history is unmatched (it never hits a string that is not held) -/
def RemovesMatched (m : SMap) (ops : List DOp) : Prop :=
  AllOps (fun m o => match o with | .rem v => 0 < m v | _ => True) m ops

end LyModel.Dict
