import LyModel.Dict.Model
import LyModel.LyHt.LemmasOps
/-!
Lemmas for the dictionary model: the two comparison callbacks on NUL-free strings, in-place update of the matched
record (`onBucket … modFirst/modLast`), the abstraction `refs` (string ↦ reference count) and the invariant `DInv`.
-/
namespace LyModel.Dict
open List LyModel LyModel.LyHt LyModel.LyHt.Ht2

/-! ### the callbacks -/

theorem getD_append_singleton (b : Bytes) (n : Nat) (hb : (0 : UInt8) ∉ b) :
    ((b ++ [0]).getD n 1 == 0) = (b.length == n) := by
  induction b generalizing n with
  | nil => cases n <;> simp [List.getD]
  | cons x xs ih =>
    have hx : x ≠ 0 := fun h => hb (by simp [h])
    have hxs : (0 : UInt8) ∉ xs := fun h => hb (by simp [h])
    cases n with
    | zero => simp [List.getD, hx]
    | succ n => simpa [List.getD] using ih n hxs

/-- `lydict_val_eq` with `cb_data = &len` on NUL-free strings: the stored string is the first `len` bytes searched -/
theorem valEq_iff (len : Nat) (m : Bool) (v r : DRec) (hr : (0 : UInt8) ∉ r.str)
    (hl : len ≤ v.str.length) : valEq len m v r = true ↔ r.str = v.str.take len := by
  unfold valEq strncmpEq
  rw [getD_append_singleton r.str len hr]
  simp only [Bool.and_eq_true, beq_iff_eq]
  constructor
  · rintro ⟨h1, h2⟩
    rw [List.take_append_of_le_length hl] at h1
    rw [← h2] at h1
    simp at h1
    rw [← h2]; exact h1.symm
  · intro h
    have hlen : r.str.length = len := by rw [h]; simp; omega
    refine ⟨?_, hlen⟩
    rw [List.take_append_of_le_length hl, ← hlen]
    simp [h]

theorem ptrEq_refl (a : DRec) : ptrEq a a = true := by
  unfold ptrEq; cases a.own <;> simp

/-! ### updating the matched record in place -/

theorem modFirst_split {β : Type} {p : β → Bool} {f : β → β} {pre post : List β} {a : β}
    (hp : ∀ x ∈ pre, p x = false) (ha : p a = true) :
    modFirst p f (pre ++ a :: post) = pre ++ f a :: post := by
  induction pre with
  | nil => simp [modFirst, ha]
  | cons x xs ih =>
    have : p x = false := hp x (by simp)
    simp [modFirst, this]; exact ih (fun y hy => hp y (by simp [hy]))

theorem modLast_snoc {β : Type} (f : β → β) (l : List β) (a : β) : modLast f (l ++ [a]) = l ++ [f a] := by
  induction l with
  | nil => rfl
  | cons x xs ih =>
    cases xs with
    | nil => rfl
    | cons y ys => simp only [List.cons_append] at ih ⊢; simp only [modLast]; rw [ih]

/-- the records other than the one singled out -/
def others {γ : Type} (A : List (List γ)) (pre post : List γ) (B : List (List γ)) : List γ :=
  A.flatten ++ (pre ++ (post ++ B.flatten))

theorem toList_mid {h : Ht2 DRec} {A B : List (List (UInt32 × DRec))} {pre post : List (UInt32 × DRec)}
    {x : UInt32 × DRec} (e : h.buckets = A ++ (pre ++ x :: post) :: B) : h.toList ~ x :: others A pre post B := by
  rw [toList_split e]
  have : A.flatten ++ (pre ++ x :: post ++ B.flatten) = (A.flatten ++ pre) ++ x :: (post ++ B.flatten) := by simp
  rw [this]
  refine (List.perm_middle).trans ?_
  simp [others]

/-- decomposition around the first record of the searched bucket that satisfies `p` -/
theorem bucket_first (h : Ht2 DRec) (hi : Inv2 h) (hash : UInt32) (p : UInt32 × DRec → Bool) (r : UInt32 × DRec)
    (hf : (h.bucket hash).find? p = some r) :
    ∃ A B pre post, h.buckets = A ++ (pre ++ r :: post) :: B ∧ A.length = h.idx hash ∧
      (∀ x ∈ pre, p x = false) ∧ p r = true ∧ h.bucket hash = pre ++ r :: post := by
  obtain ⟨A, B, e, hl⟩ := Ht2.split h hi hash
  rw [List.find?_eq_some_iff_append] at hf
  obtain ⟨hr, pre, post, eb, hpre⟩ := hf
  exact ⟨A, B, pre, post, by rw [e, eb], hl, fun x hx => by simpa using hpre x hx, hr, eb⟩

theorem onBucket_size (h : Ht2 DRec) (hash : UInt32) (g) : (onBucket h hash g).size = h.size := rfl
theorem onBucket_resize (h : Ht2 DRec) (hash : UInt32) (g) : (onBucket h hash g).resize = h.resize := rfl

theorem onBucket_buckets {h : Ht2 DRec} {A B : List (List (UInt32 × DRec))} {b : List (UInt32 × DRec)} {hash : UInt32}
    (e : h.buckets = A ++ b :: B) (hl : A.length = h.idx hash) (g) :
    (onBucket h hash g).buckets = A ++ g b :: B := by
  unfold onBucket; simp only; rw [e, ← hl, updAt_split]

/-- replacing one record of the bucket of `hash` by one with the same hash -/
theorem Inv2_swap {h h' : Ht2 DRec} (hi : Inv2 h) {A B : List (List (UInt32 × DRec))} {pre post : List (UInt32 × DRec)}
    {x y : UInt32 × DRec} (e : h.buckets = A ++ (pre ++ x :: post) :: B) (e' : h'.buckets = A ++ (pre ++ y :: post) :: B)
    (hs : h'.size = h.size) (hxy : y.1 = x.1) : Inv2 h' := by
  refine Inv2.replace hi e e' hs ?_
  intro r hr
  have hx : ∀ z ∈ pre ++ x :: post, z.1.toNat &&& (h.size - 1) = A.length := by
    intro z hz
    have := hi.home A.length z (by rw [e, getD_split]; exact hz)
    exact this
  simp only [List.mem_append, List.mem_cons] at hr
  rcases hr with hr | hr | hr
  · exact hx r (by simp [hr])
  · subst hr; rw [hxy]; exact hx x (by simp)
  · exact hx r (by simp [hr])

/-! ### abstraction and invariant -/

/-- sum of the reference counts of the records holding `s` -/
def refsL (l : List (UInt32 × DRec)) (s : Bytes) : Nat :=
  ((l.filter fun r => r.2.str == s).map fun r => r.2.ref).sum

/-- the abstraction: string ↦ reference count -/
def refs (d : Dict) : Bytes → Nat := refsL d.ht.toList

theorem refsL_perm {l l' : List (UInt32 × DRec)} (p : l ~ l') (s : Bytes) : refsL l s = refsL l' s := by
  unfold refsL; exact ((p.filter _).map _).sum_nat

theorem refsL_cons (x : UInt32 × DRec) (l : List (UInt32 × DRec)) (s : Bytes) :
    refsL (x :: l) s = (if x.2.str = s then x.2.ref else 0) + refsL l s := by
  unfold refsL
  by_cases h : x.2.str = s
  · simp [h]
  · simp [h]

theorem refsL_zero_of_not_mem (l : List (UInt32 × DRec)) (s : Bytes) (h : ∀ r ∈ l, r.2.str ≠ s) : refsL l s = 0 := by
  induction l with
  | nil => rfl
  | cons x xs ih =>
    rw [refsL_cons, if_neg (h x (by simp)), ih (fun r hr => h r (by simp [hr]))]

/-- per-record facts and uniqueness of strings: everything the dictionary maintains about its contents -/
structure Good (H : Bytes → UInt32) (l : List (UInt32 × DRec)) : Prop where
  hashed : ∀ r ∈ l, r.1 = H r.2.str
  own : ∀ r ∈ l, r.2.own = true
  pos : ∀ r ∈ l, 1 ≤ r.2.ref
  nonul : ∀ r ∈ l, (0 : UInt8) ∉ r.2.str
  nodup : (l.map fun r => r.2.str).Nodup

theorem Good.perm {H : Bytes → UInt32} {l l' : List (UInt32 × DRec)} (p : l ~ l') (g : Good H l) : Good H l' :=
  ⟨fun r hr => g.hashed r (p.mem_iff.2 hr), fun r hr => g.own r (p.mem_iff.2 hr), fun r hr => g.pos r (p.mem_iff.2 hr),
   fun r hr => g.nonul r (p.mem_iff.2 hr), (p.map _).nodup_iff.1 g.nodup⟩

theorem Good.tail {H : Bytes → UInt32} {x : UInt32 × DRec} {l : List (UInt32 × DRec)} (g : Good H (x :: l)) : Good H l :=
  ⟨fun r hr => g.hashed r (by simp [hr]), fun r hr => g.own r (by simp [hr]), fun r hr => g.pos r (by simp [hr]),
   fun r hr => g.nonul r (by simp [hr]), by have := g.nodup; rw [List.map_cons, List.nodup_cons] at this; exact this.2⟩

theorem Good.head_not_mem {H : Bytes → UInt32} {x : UInt32 × DRec} {l : List (UInt32 × DRec)} (g : Good H (x :: l)) :
    ∀ r ∈ l, r.2.str ≠ x.2.str := by
  have := g.nodup
  rw [List.map_cons, List.nodup_cons] at this
  intro r hr he
  exact this.1 (by rw [← he]; exact List.mem_map.2 ⟨r, hr, rfl⟩)

theorem Good.cons {H : Bytes → UInt32} {x : UInt32 × DRec} {l : List (UInt32 × DRec)} (g : Good H l)
    (h1 : x.1 = H x.2.str) (h2 : x.2.own = true) (h3 : 1 ≤ x.2.ref) (h4 : (0 : UInt8) ∉ x.2.str)
    (h5 : ∀ r ∈ l, r.2.str ≠ x.2.str) : Good H (x :: l) := by
  refine ⟨?_, ?_, ?_, ?_, ?_⟩
  · intro r hr; cases hr with
    | head => exact h1
    | tail _ h => exact g.hashed r h
  · intro r hr; cases hr with
    | head => exact h2
    | tail _ h => exact g.own r h
  · intro r hr; cases hr with
    | head => exact h3
    | tail _ h => exact g.pos r h
  · intro r hr; cases hr with
    | head => exact h4
    | tail _ h => exact g.nonul r h
  · simp only [List.map_cons]
    refine List.nodup_cons.2 ⟨?_, g.nodup⟩
    intro hm
    obtain ⟨r, hr, he⟩ := List.mem_map.1 hm
    exact h5 r hr he

/-- with unique strings and positive counts, `refs s = 0` means "not stored" -/
theorem Good.refs_pos {H : Bytes → UInt32} {l : List (UInt32 × DRec)} (g : Good H l) (r : UInt32 × DRec) (hr : r ∈ l) :
    refsL l r.2.str = r.2.ref := by
  obtain ⟨l1, l2, rfl⟩ := List.append_of_mem hr
  have p : l1 ++ r :: l2 ~ r :: (l1 ++ l2) := List.perm_middle
  have g' := g.perm p
  rw [refsL_perm p, refsL_cons, if_pos rfl, refsL_zero_of_not_mem _ _ g'.head_not_mem]
  simp

structure DInv (H : Bytes → UInt32) (d : Dict) : Prop where
  inv : Inv2 d.ht
  load : Load d.ht
  rs : d.ht.resize ≠ 0
  good : Good H d.ht.toList

end LyModel.Dict
