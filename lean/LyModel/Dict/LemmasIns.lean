import LyModel.Dict.LemmasOps
import LyModel.LyHt.LemmasSpec
/-!
`Dict.insert` (`dict_insert` of dict.c) against the specification.
-/
namespace LyModel.Dict
open List LyModel LyModel.LyHt LyModel.LyHt.Ht2

theorem take_nonul (v : Bytes) (len : Nat) (hv : (0 : UInt8) ∉ v) : (0 : UInt8) ∉ v.take len :=
  fun h => hv (List.mem_of_mem_take h)

theorem armed_resize_ne (h : Ht2 DRec) (h0 : h.resize ≠ 0) : h.armed.resize ≠ 0 := by
  unfold armed; split
  · simp
  · exact h0

/-- the record `dict_insert` leaves behind for a new string -/
theorem adopt_new (H : Bytes → UInt32) (v : Bytes) (len : Nat) (zc alias : Bool) (hzc : zc = true → len = v.length) :
    adopt zc (v.take len) (H (v.take len), { str := v, ref := 1, own := alias }) =
      (H (v.take len), { str := v.take len, ref := 1, own := true }) := by
  unfold adopt
  cases zc with
  | false => rfl
  | true => simp only [if_true]; rw [hzc rfl, List.take_length]

/-- `lydict_insert` / `lydict_insert_zc` against the specification -/
theorem insert_spec (H : Bytes → UInt32) (d : Dict) (hd : DInv H d) (v : Bytes) (len : Nat) (zc alias : Bool)
    (hv : (0 : UInt8) ∉ v) (hl : len ≤ v.length) (hzc : zc = true → len = v.length)
    (hcol : len = v.length ∨ H (v.take len) ≠ H v) :
    DInv H (d.insert H v len zc alias).2 ∧ (d.insert H v len zc alias).1 = .ok (v.take len) ∧
    ∀ s, refs (d.insert H v len zc alias).2 s = if s = v.take len then refs d s + 1 else refs d s := by
  have hiff : ∀ r ∈ d.ht.toList,
      hit (valEq len) true { str := v, ref := 1, own := alias } (H (v.take len)) r = true ↔ r.2.str = v.take len :=
    fun r hr => hit_valEq_iff hd.good len true { str := v, ref := 1, own := alias } hl r hr
  unfold Dict.insert
  simp only
  cases hf : (d.ht.bucket (H (v.take len))).find? (hit (valEq len) true { str := v, ref := 1, own := alias } (H (v.take len))) with
  | some r =>
    have hins : d.ht.insert (valEq len) (some resizeEq) true true { str := v, ref := 1, own := alias } (H (v.take len)) =
        (.exist r.2, d.ht) := by
      unfold Ht2.insert; simp only [if_true]; rw [hf]
    rw [hins]
    simp only
    obtain ⟨hinv1, hload1, rest, pre, post, p1, p2, hb1, hpre, hpr⟩ :=
      modify_spec d.ht hd.inv hd.load (H (v.take len)) _ incr r hf rfl
    have hrmem : r ∈ d.ht.toList := p1.mem_iff.2 (by simp)
    have hrstr : r.2.str = v.take len := (hiff r hrmem).1 hpr
    have g1 : Good H (r :: rest) := hd.good.perm p1
    have hrefs' : ∀ s, refs d s = (if v.take len = s then r.2.ref else 0) + refsL rest s := by
      intro s; show refsL d.ht.toList s = _
      rw [refsL_perm p1 s, refsL_cons, hrstr]
    have g2 : Good H (incr r :: rest) :=
      g1.tail.cons (g1.hashed r (by simp)) (g1.own r (by simp)) (by simp only [incr]; omega) (g1.nonul r (by simp)) g1.head_not_mem
    refine ⟨⟨hinv1, hload1, hd.rs, g2.perm p2.symm⟩, trivial, ?_⟩
    intro s
    show refsL _ s = _
    rw [refsL_perm p2, refsL_cons, hrefs' s]
    simp only [incr, hrstr]
    by_cases hs : s = v.take len
    · subst hs; simp; omega
    · rw [if_neg (fun h => hs h.symm), if_neg hs, if_neg (fun h => hs h.symm)]
  | none =>
    -- a new string
    have hn := (find_none_iff d.ht hd.inv (valEq len) true { str := v, ref := 1, own := alias } (H (v.take len))).1 hf
    have hnew : ∀ r ∈ d.ht.toList, r.2.str ≠ v.take len := by
      intro r hr he
      have := (hiff r hr).2 he
      rw [hn r hr] at this; exact absurd this (by simp)
    have hfree := free_of_load hd.inv hd.load hd.rs
    have hcoll : ∀ r ∈ d.ht.toList, r.1 = H (v.take len) → r.2.str ≠ v := by
      intro r hr h1 h2
      rcases hcol with h | h
      · exact hnew r hr (by rw [h2, h, List.take_length])
      · exact h (by rw [← h1, hd.good.hashed r hr, h2])
    have hdist : Distinct resizeEq ((H (v.take len), { str := v, ref := 1, own := alias }) :: d.ht.toList) := by
      unfold Distinct
      rw [List.pairwise_cons]
      refine ⟨?_, distinct_of_good hd.good⟩
      intro r hr hc
      have h1 := hc.1
      simp only at h1
      rcases hc.2 with h | h <;> simp [resizeEq] at h
      · exact hcoll r hr h1.symm h.symm
      · exact hcoll r hr h1.symm h
    have hst := insert_state d.ht hd.inv (valEq len) (some resizeEq) true true { str := v, ref := 1, own := alias }
      (H (v.take len)) (fun _ => hf) hfree (fun _ => hdist)
    have hld := insert_load d.ht hd.inv hd.load (valEq len) (some resizeEq) true true { str := v, ref := 1, own := alias }
      (H (v.take len)) (fun _ => hf) hfree
    rw [insert_eq d.ht (valEq len) (some resizeEq) true true { str := v, ref := 1, own := alias } (H (v.take len))
      (fun _ => hf) hfree] at hst hld ⊢
    have hpos := hd.inv.pos
    by_cases he : enlarges (d.ht.link { str := v, ref := 1, own := alias } (H (v.take len)))
    · -- the insertion enlarges the table: the record is found again by pointer
      rw [if_pos he] at hst hld ⊢
      simp only [Option.getD_some, if_true] at hst hld ⊢
      generalize hh3 : ((d.ht.link { str := v, ref := 1, own := alias } (H (v.take len))).armed.resizeTo resizeEq true
        (d.ht.size * 2)) = h3 at *
      have hsz : h3.size = d.ht.size * 2 ∧ h3.resize = 2 := by
        rw [← hh3]
        have := resizeTo_size (d.ht.link { str := v, ref := 1, own := alias } (H (v.take len))).armed resizeEq true (d.ht.size * 2)
        exact ⟨this.1, by rw [this.2]; exact he.2.1⟩
      obtain ⟨hinv3, p3⟩ := hst
      have huniq : ∀ y ∈ h3.toList, hit resizeEq false { str := v, ref := 1, own := alias } (H (v.take len)) y = true →
          y = (H (v.take len), { str := v, ref := 1, own := alias }) := by
        intro y hy hp
        rcases List.mem_cons.1 (p3.mem_iff.1 hy) with h | h
        · exact h
        · exfalso
          unfold hit resizeEq ptrEq at hp
          simp only [Bool.false_eq_true, if_false, hd.good.own y h, Bool.and_eq_true, beq_iff_eq, Bool.or_eq_true,
            Bool.not_eq_true'] at hp
          obtain ⟨h1, h2, h3'⟩ := hp
          cases alias with
          | false => simp at h2
          | true => simp at h3'; exact hcoll y h h1 h3'.symm
      have hX : (H (v.take len), ({ str := v, ref := 1, own := alias } : DRec)) ∈ h3.bucket (H (v.take len)) :=
        mem_bucket h3 hinv3 _ (p3.mem_iff.2 (by simp))
      have hpX : hit resizeEq false { str := v, ref := 1, own := alias } (H (v.take len))
          (H (v.take len), { str := v, ref := 1, own := alias }) = true := by
        unfold hit resizeEq; simp [ptrEq_refl]
      have hfind : (h3.bucket (H (v.take len))).find? (hit resizeEq false { str := v, ref := 1, own := alias } (H (v.take len))) =
          some (H (v.take len), { str := v, ref := 1, own := alias }) := by
        cases hq : (h3.bucket (H (v.take len))).find? (hit resizeEq false { str := v, ref := 1, own := alias } (H (v.take len))) with
        | none =>
          rw [List.find?_eq_none] at hq
          exact absurd hpX (hq _ hX)
        | some y =>
          have hy := find_some_mem h3 hinv3 resizeEq false _ _ y hq
          have : hit resizeEq false { str := v, ref := 1, own := alias } (H (v.take len)) y = true := List.find?_some hq
          rw [huniq y hy.1 this]
      have hfind' : h3.find resizeEq { str := v, ref := 1, own := alias } (H (v.take len)) = some { str := v, ref := 1, own := alias } := by
        unfold Ht2.find; rw [hfind]; rfl
      rw [hfind']
      simp only
      rw [if_neg (by rw [hsz.1]; omega)]
      obtain ⟨hinv4, hload4, rest, pre, post, p4, p5, _, _, _⟩ :=
        modify_spec h3 hinv3 hld (H (v.take len)) _ (adopt zc (v.take len)) _ hfind (by unfold adopt; split <;> rfl)
      rw [adopt_new H v len zc alias hzc] at p5
      have prest : rest ~ d.ht.toList := List.Perm.cons_inv (p4.symm.trans p3)
      obtain ⟨hD, hR⟩ := assemble_new H d hd _ (v.take len) hinv4 hload4 (by rw [onBucket_resize, hsz.2]; omega)
        (p5.trans (List.Perm.cons _ prest)) hnew (take_nonul v len hv)
      exact ⟨hD, trivial, hR⟩
    · -- no resize: `match` is the record just linked
      rw [if_neg he] at hst hld ⊢
      have hrs1 : (d.ht.link { str := v, ref := 1, own := alias } (H (v.take len))).resize ≠ 0 := by
        rw [link_resize]; exact hd.rs
      rw [if_pos hrs1] at hst hld ⊢
      simp only [if_true, armed_size, link_size] at hst hld ⊢
      obtain ⟨A, B, e, hla, e'⟩ := link_split d.ht hd.inv { str := v, ref := 1, own := alias } (H (v.take len))
      have e1 : (d.ht.link { str := v, ref := 1, own := alias } (H (v.take len))).armed.buckets =
          A ++ (d.ht.bucket (H (v.take len)) ++ (H (v.take len), { str := v, ref := 1, own := alias }) :: []) :: B := by
        rw [armed_buckets, e']
      have hidx : A.length = (d.ht.link { str := v, ref := 1, own := alias } (H (v.take len))).armed.idx (H (v.take len)) := by
        rw [hla]; unfold idx; simp
      have e2 := onBucket_buckets (g := modLast (adopt zc (v.take len))) e1 hidx
      rw [modLast_snoc, adopt_new H v len zc alias hzc] at e2
      have hinv4 := Inv2_swap hst.1 e1 e2 rfl rfl
      have p5 := toList_mid e2
      have hoth : others A (d.ht.bucket (H (v.take len))) [] B = d.ht.toList := by
        rw [toList_split e]; simp [others]
      rw [hoth] at p5
      have hload4 : Load (onBucket (d.ht.link { str := v, ref := 1, own := alias } (H (v.take len))).armed (H (v.take len))
          (modLast (adopt zc (v.take len)))) := by
        refine Load_of_eq hld rfl rfl ?_
        unfold used; rw [p5.length_eq, hst.2.length_eq]; simp
      obtain ⟨hD, hR⟩ := assemble_new H d hd _ (v.take len) hinv4 hload4
        (by rw [onBucket_resize]; exact armed_resize_ne _ hrs1) p5 hnew (take_nonul v len hv)
      exact ⟨hD, trivial, hR⟩

/-- `dict_insert` with `fixes/F110.diff` against the specification: no hypothesis on the hash function -/
theorem insertFixed_spec (H : Bytes → UInt32) (d : Dict) (hd : DInv H d) (v : Bytes) (len : Nat) (zc alias : Bool)
    (hv : (0 : UInt8) ∉ v) (hl : len ≤ v.length) :
    DInv H (d.insertFixed H v len zc alias).2 ∧ (d.insertFixed H v len zc alias).1 = .ok (v.take len) ∧
    ∀ s, refs (d.insertFixed H v len zc alias).2 s = if s = v.take len then refs d s + 1 else refs d s := by
  have hiff : ∀ r ∈ d.ht.toList,
      hit (valEq len) false { str := v, ref := 1, own := alias } (H (v.take len)) r = true ↔ r.2.str = v.take len :=
    fun r hr => hit_valEq_iff hd.good len false { str := v, ref := 1, own := alias } hl r hr
  unfold Dict.insertFixed
  simp only
  unfold Ht2.find
  cases hf : (d.ht.bucket (H (v.take len))).find? (hit (valEq len) false { str := v, ref := 1, own := alias } (H (v.take len))) with
  | some r =>
    simp only [Option.map_some]
    obtain ⟨hinv1, hload1, rest, pre, post, p1, p2, hb1, hpre, hpr⟩ :=
      modify_spec d.ht hd.inv hd.load (H (v.take len)) _ incr r hf rfl
    have hrmem : r ∈ d.ht.toList := p1.mem_iff.2 (by simp)
    have hrstr : r.2.str = v.take len := (hiff r hrmem).1 hpr
    have g1 : Good H (r :: rest) := hd.good.perm p1
    have hrefs' : ∀ s, refs d s = (if v.take len = s then r.2.ref else 0) + refsL rest s := by
      intro s; show refsL d.ht.toList s = _
      rw [refsL_perm p1 s, refsL_cons, hrstr]
    have g2 : Good H (incr r :: rest) :=
      g1.tail.cons (g1.hashed r (by simp)) (g1.own r (by simp)) (by simp only [incr]; omega) (g1.nonul r (by simp)) g1.head_not_mem
    refine ⟨⟨hinv1, hload1, hd.rs, g2.perm p2.symm⟩, trivial, ?_⟩
    intro s
    show refsL _ s = _
    rw [refsL_perm p2, refsL_cons, hrefs' s]
    simp only [incr, hrstr]
    by_cases hs : s = v.take len
    · subst hs; simp; omega
    · rw [if_neg (fun h => hs h.symm), if_neg hs, if_neg (fun h => hs h.symm)]
  | none =>
    simp only [Option.map_none]
    have hn := (find_none_iff d.ht hd.inv (valEq len) false { str := v, ref := 1, own := alias } (H (v.take len))).1 hf
    have hnew : ∀ r ∈ d.ht.toList, r.2.str ≠ v.take len := by
      intro r hr he
      have := (hiff r hr).2 he
      rw [hn r hr] at this; exact absurd this (by simp)
    have hfree := free_of_load hd.inv hd.load hd.rs
    have hnf : false = true → (d.ht.bucket (H (v.take len))).find?
        (hit (valEq len) true { str := v.take len, ref := 1, own := true } (H (v.take len))) = none := fun h => by cases h
    obtain ⟨hinv1, p1⟩ := insert_state d.ht hd.inv (valEq len) none false true { str := v.take len, ref := 1, own := true }
      (H (v.take len)) hnf hfree (fun h => by cases h)
    have hld := insert_load d.ht hd.inv hd.load (valEq len) none false true { str := v.take len, ref := 1, own := true }
      (H (v.take len)) hnf hfree
    have hrs := insert_resize_ne d.ht (valEq len) none false true { str := v.take len, ref := 1, own := true }
      (H (v.take len)) hnf hfree hd.rs
    have hcode : ∃ m, (d.ht.insert (valEq len) none false true { str := v.take len, ref := 1, own := true } (H (v.take len))).1 = .ok m := by
      have hself : hit (valEq len) false { str := v.take len, ref := 1, own := true } (H (v.take len))
          (H (v.take len), { str := v.take len, ref := 1, own := true }) = true := by
        unfold hit
        rw [Bool.and_eq_true, valEq_iff len false _ _ (take_nonul v len hv) (by simp; omega)]
        simp
        rw [List.take_take]; simp
      rw [insert_eq d.ht (valEq len) none false true _ _ hnf hfree] at hinv1 p1 ⊢
      split
      · rename_i he
        rw [if_pos he] at hinv1 p1
        simp only [Option.getD_none, if_true] at hinv1 p1 ⊢
        unfold Ht2.find
        cases hq : ((d.ht.link { str := v.take len, ref := 1, own := true } (H (v.take len))).armed.resizeTo (valEq len) false
            (d.ht.size * 2)).bucket (H (v.take len)) |>.find?
            (hit (valEq len) false { str := v.take len, ref := 1, own := true } (H (v.take len))) with
        | none =>
          have := (find_none_iff _ hinv1 (valEq len) false _ _).1 hq
            (H (v.take len), { str := v.take len, ref := 1, own := true }) (p1.mem_iff.2 (List.mem_cons_self ..))
          rw [hself] at this; exact absurd this (by simp)
        | some y => exact ⟨_, rfl⟩
      · exact ⟨_, rfl⟩
    obtain ⟨m, hm⟩ := hcode
    generalize d.ht.insert (valEq len) none false true { str := v.take len, ref := 1, own := true } (H (v.take len)) = res at *
    obtain ⟨code, ht⟩ := res
    simp only at hm hinv1 p1 hld hrs
    subst hm
    simp only
    obtain ⟨hD, hR⟩ := assemble_new H d hd ht (v.take len) hinv1 hld hrs p1 hnew (take_nonul v len hv)
    exact ⟨hD, trivial, hR⟩

end LyModel.Dict
