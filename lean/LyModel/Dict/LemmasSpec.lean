import LyModel.Dict.Spec
import LyModel.Dict.LemmasIns
/-!
One step and whole histories of the dictionary model against the specification.
-/
namespace LyModel.Dict
open List LyModel LyModel.LyHt LyModel.LyHt.Ht2

theorem step_spec (H : Bytes → UInt32) (d : Dict) (hd : DInv H d) (o : DOp)
    (hw : OpWf (refs d) o) (hc : OpNoPrefixCollision H o) :
    DInv H (d.step H o).2 ∧ (d.step H o).1 = (specStep (refs d) o).1 ∧ refs (d.step H o).2 = (specStep (refs d) o).2 := by
  cases o with
  | ins v len zc alias =>
    obtain ⟨h1, h2, h3⟩ := insert_spec H d hd v len zc alias hw.1 hw.2.1 hw.2.2 hc
    refine ⟨h1, h2, ?_⟩
    funext s
    simp only [Dict.step, specStep, SMap.upd]
    rw [h3 s]
    split
    · rename_i hs; rw [hs]
    · rfl
  | dup v alias =>
    obtain ⟨h1, h2, h3⟩ := dup_spec H d hd v alias hw
    cases alias with
    | false =>
      have := h2 rfl
      simp only [Dict.step, specStep] at this ⊢
      rw [this]
      exact ⟨hd, rfl, rfl⟩
    | true =>
      obtain ⟨h4, h5⟩ := h3 rfl
      refine ⟨h1, h4, ?_⟩
      funext s
      simp only [Dict.step, specStep, SMap.upd, if_true]
      rw [h5 s]
  | rem v =>
    obtain ⟨h1, h2, h3⟩ := remove_spec H d hd v
    simp only [Dict.step, specStep]
    by_cases hz : refs d v = 0
    · obtain ⟨h4, h5⟩ := h2 hz
      rw [if_pos hz]
      exact ⟨h1, h4, by rw [h5]⟩
    · obtain ⟨h4, h5⟩ := h3 (by omega)
      rw [if_neg hz]
      refine ⟨h1, h4, ?_⟩
      funext s
      simp only [SMap.upd]
      rw [h5 s]

/-- the dictionary refines the reference-count map along every history -/
theorem run_spec (H : Bytes → UInt32) (ops : List DOp) (d : Dict) (hd : DInv H d)
    (hw : AllOps OpWf (refs d) ops) (hc : ∀ o ∈ ops, OpNoPrefixCollision H o) :
    DInv H (d.run H ops).2 ∧ (d.run H ops).1 = (specRun (refs d) ops).1 ∧ refs (d.run H ops).2 = (specRun (refs d) ops).2 := by
  induction ops generalizing d with
  | nil => exact ⟨hd, rfl, rfl⟩
  | cons o os ih =>
    obtain ⟨h1, h2, h3⟩ := step_spec H d hd o hw.1 (hc o (by simp))
    have hw' := hw.2
    rw [← h3] at hw'
    obtain ⟨i1, i2, i3⟩ := ih (d.step H o).2 h1 hw' (fun o' ho' => hc o' (by simp [ho']))
    simp only [Dict.run, specRun]
    refine ⟨i1, ?_, ?_⟩
    · rw [h2, i2, h3]
    · rw [i3, h3]

theorem stepF_spec (H : Bytes → UInt32) (d : Dict) (hd : DInv H d) (o : DOp) (hw : OpWf (refs d) o) :
    DInv H (d.stepF H o).2 ∧ (d.stepF H o).1 = (specStep (refs d) o).1 ∧ refs (d.stepF H o).2 = (specStep (refs d) o).2 := by
  cases o with
  | ins v len zc alias =>
    obtain ⟨h1, h2, h3⟩ := insertFixed_spec H d hd v len zc alias hw.1 hw.2.1
    refine ⟨h1, h2, ?_⟩
    funext s
    simp only [Dict.stepF, specStep, SMap.upd]
    rw [h3 s]
    split
    · rename_i hs; rw [hs]
    · rfl
  | dup v alias => exact step_spec H d hd (.dup v alias) hw trivial
  | rem v => exact step_spec H d hd (.rem v) hw trivial

theorem runF_spec (H : Bytes → UInt32) (ops : List DOp) (d : Dict) (hd : DInv H d) (hw : AllOps OpWf (refs d) ops) :
    DInv H (d.runF H ops).2 ∧ (d.runF H ops).1 = (specRun (refs d) ops).1 ∧ refs (d.runF H ops).2 = (specRun (refs d) ops).2 := by
  induction ops generalizing d with
  | nil => exact ⟨hd, rfl, rfl⟩
  | cons o os ih =>
    obtain ⟨h1, h2, h3⟩ := stepF_spec H d hd o hw.1
    have hw' := hw.2
    rw [← h3] at hw'
    obtain ⟨i1, i2, i3⟩ := ih (d.stepF H o).2 h1 hw'
    simp only [Dict.runF, specRun]
    refine ⟨i1, ?_, ?_⟩
    · rw [h2, i2, h3]
    · rw [i3, h3]

theorem init_inv (H : Bytes → UInt32) (n : Nat) : DInv H (Dict.init n) := by
  unfold Dict.init Ht2.new
  generalize hN : (if n < Generated.LYHT_MIN_SIZE then Generated.LYHT_MIN_SIZE else n) = N
  have hpos : 0 < N := by
    rw [← hN]; split <;> simp [Generated.LYHT_MIN_SIZE] at * <;> omega
  have hu : (empty N 1 : Ht2 DRec).used = 0 := by simp [used]
  refine ⟨empty_inv _ 1 hpos, ⟨by rw [hu]; omega, fun _ => ?_, by simp [empty]⟩, by simp [empty], ?_⟩
  · rw [hu]; simp [Generated.LYHT_ENLARGE_PERCENTAGE]
  · show Good H (empty N 1 : Ht2 DRec).toList
    rw [empty_toList]
    exact ⟨by simp, by simp, by simp, by simp, by simp⟩

theorem init_refs (n : Nat) : refs (Dict.init n) = fun _ => 0 := by
  funext s
  unfold refs Dict.init Ht2.new
  rw [empty_toList]; rfl

/-- with positive counts and unique strings, "all counts are zero" means "no record" -/
theorem empty_of_refs_zero (H : Bytes → UInt32) (d : Dict) (hd : DInv H d) (hz : ∀ s, refs d s = 0) : d.ht.toList = [] := by
  cases hl : d.ht.toList with
  | nil => rfl
  | cons r l =>
    have hr : r ∈ d.ht.toList := by rw [hl]; simp
    have := hd.good.refs_pos r hr
    have h1 := hd.good.pos r hr
    have h2 := hz r.2.str
    unfold refs at h2
    omega

/-- bookkeeping of the specification: count after = count before + references taken − references released -/
theorem specRun_count (s : Bytes) (ops : List DOp) (m : SMap) (hm : RemovesMatched m ops) :
    (specRun m ops).2 s + rems s ops = m s + adds s ops := by
  induction ops generalizing m with
  | nil => simp [specRun, rems, adds]
  | cons o os ih =>
    have := ih (specStep m o).2 hm.2
    simp only [specRun]
    cases o with
    | ins v len zc alias =>
      simp only [rems, adds, specStep, SMap.upd] at this ⊢
      by_cases hs : s = v.take len
      · subst hs; simp at this ⊢; omega
      · have hs' : ¬ v.take len = s := fun h => hs h.symm
        simp only [hs, hs', if_false] at this ⊢; omega
    | dup v alias =>
      cases alias with
      | false => simp only [rems, adds, specStep] at this ⊢; simp at this ⊢; omega
      | true =>
        simp only [rems, adds, specStep, SMap.upd, if_true] at this ⊢
        by_cases hs : s = v
        · subst hs; simp at this ⊢; omega
        · have hs' : ¬ v = s := fun h => hs h.symm
          simp only [hs, hs', if_false, and_false] at this ⊢; omega
    | rem v =>
      have hpos : 0 < m v := hm.1
      have hne : ¬ m v = 0 := by omega
      simp only [rems, adds, specStep, SMap.upd, hne, if_false] at this ⊢
      by_cases hs : s = v
      · subst hs; simp at this ⊢; omega
      · have hs' : ¬ v = s := fun h => hs h.symm
        simp only [hs, hs', if_false] at this ⊢; omega

end LyModel.Dict
