import LyModel.Dict.Lemmas
/-!
Effect of `Dict.remove`, `Dict.dup` and `Dict.insert` on the abstraction `refs` and preservation of `DInv`.
-/
namespace LyModel.Dict
open List LyModel LyModel.LyHt LyModel.LyHt.Ht2

theorem Load_of_eq {h h' : Ht2 DRec} (hl : Load h) (hs : h'.size = h.size) (hr : h'.resize = h.resize) (hu : h'.used = h.used) :
    Load h' :=
  ⟨by rw [hs, hu]; exact hl.le, by rw [hs, hu, hr]; exact hl.lt, by rw [hr]; exact hl.rs⟩

/-- in-place modification of the first record of the bucket of `hash` satisfying `p` -/
theorem modify_spec (h : Ht2 DRec) (hi : Inv2 h) (hl : Load h) (hash : UInt32) (p : UInt32 × DRec → Bool)
    (f : UInt32 × DRec → UInt32 × DRec) (r : UInt32 × DRec)
    (hf : (h.bucket hash).find? p = some r) (hf1 : (f r).1 = r.1) :
    Inv2 (onBucket h hash (modFirst p f)) ∧ Load (onBucket h hash (modFirst p f)) ∧
    ∃ rest pre post, h.toList ~ r :: rest ∧ (onBucket h hash (modFirst p f)).toList ~ f r :: rest ∧
      (onBucket h hash (modFirst p f)).bucket hash = pre ++ f r :: post ∧ (∀ x ∈ pre, p x = false) ∧ p r = true := by
  obtain ⟨A, B, pre, post, e, hla, hpre, hr, _⟩ := bucket_first h hi hash p r hf
  have e' : (onBucket h hash (modFirst p f)).buckets = A ++ (pre ++ f r :: post) :: B := by
    rw [onBucket_buckets e hla, modFirst_split hpre hr]
  have hinv : Inv2 (onBucket h hash (modFirst p f)) := Inv2_swap hi e e' rfl hf1
  have p1 := toList_mid e
  have p2 := toList_mid e'
  refine ⟨hinv, ?_, others A pre post B, pre, post, p1, p2, ?_, hpre, hr⟩
  · refine Load_of_eq hl rfl rfl ?_
    unfold used; rw [p1.length_eq, p2.length_eq]; simp
  · unfold bucket
    rw [e']
    have : (onBucket h hash (modFirst p f)).idx hash = A.length := by rw [hla]; rfl
    rw [this, getD_split]

theorem hit_valEq_mod (len : Nat) (v : DRec) (hash : UInt32) :
    hit (valEq len) true v hash = hit (valEq len) false v hash := rfl

/-- the test of the by-length lookup on a good table: the record holding exactly the first `len` bytes -/
theorem hit_valEq_iff {H : Bytes → UInt32} {l : List (UInt32 × DRec)} (g : Good H l) (len : Nat) (m : Bool) (v : DRec)
    (hl : len ≤ v.str.length) (r : UInt32 × DRec) (hr : r ∈ l) :
    hit (valEq len) m v (H (v.str.take len)) r = true ↔ r.2.str = v.str.take len := by
  unfold hit
  rw [Bool.and_eq_true, valEq_iff len m v r.2 (g.nonul r hr) hl, beq_iff_eq]
  constructor
  · exact fun h => h.2
  · intro h; exact ⟨by rw [g.hashed r hr, h], h⟩

theorem distinct_of_good {H : Bytes → UInt32} {l : List (UInt32 × DRec)} (g : Good H l) : Distinct resizeEq l := by
  unfold Distinct
  have := g.nodup
  rw [List.nodup_iff_pairwise_ne, List.pairwise_map] at this
  refine this.imp ?_
  intro a b hab hc
  rcases hc.2 with h | h <;> simp [resizeEq] at h
  · exact hab h
  · exact hab h.symm

theorem remove_resize (h : Ht2 DRec) (ve : VEq DRec) (rve : Option (VEq DRec)) (v : DRec) (hash : UInt32) :
    (h.remove ve rve v hash).2.resize = h.resize := by
  cases hf : (h.bucket hash).find? (hit ve true v hash) with
  | none => rw [remove_absent h ve rve v hash hf]
  | some r =>
    rw [remove_eq h ve rve v hash r hf]
    simp only
    split
    · rw [(resizeTo_size _ _ _ _).2]; rfl
    · rfl

/-- removing the record whose count reached zero -/
theorem drop_spec (H : Bytes → UInt32) (ht1 : Ht2 DRec) (hinv1 : Inv2 ht1) (hload1 : Load ht1) (hrs : ht1.resize ≠ 0) (v : Bytes)
    (x : UInt32 × DRec) (rest pre post : List (UInt32 × DRec))
    (p2 : ht1.toList ~ x :: rest) (hb1 : ht1.bucket (H v) = pre ++ x :: post)
    (hpre : ∀ y ∈ pre, hit (valEq v.length) false (probe v false) (H v) y = false)
    (hx : hit (valEq v.length) false (probe v false) (H v) x = true)
    (hdist : Distinct resizeEq (x :: rest)) :
    ∃ ht2, finishRemove (ht1.remove (valEq v.length) (some resizeEq) (probe v false) (H v)) = (.done, { ht := ht2 }) ∧
      Inv2 ht2 ∧ Load ht2 ∧ ht2.resize ≠ 0 ∧ rest ~ ht2.toList := by
  have hf' : (ht1.bucket (H v)).find? (hit (valEq v.length) true (probe v false) (H v)) = some x := by
    rw [hb1, hit_valEq_mod]; exact find?_split hpre hx
  obtain ⟨hinv2, p3⟩ := remove_state ht1 hinv1 (valEq v.length) (some resizeEq) (probe v false) (H v) x hf'
    ((Distinct.perm p2).2 hdist)
  have hload2 := remove_load ht1 hinv1 hload1 (valEq v.length) (some resizeEq) (probe v false) (H v)
  have hrs2 := remove_resize ht1 (valEq v.length) (some resizeEq) (probe v false) (H v)
  have hcode : (ht1.remove (valEq v.length) (some resizeEq) (probe v false) (H v)).1 = .ok none := by
    rw [remove_eq ht1 _ _ _ _ _ hf']
  have p4 : rest ~ (ht1.remove (valEq v.length) (some resizeEq) (probe v false) (H v)).2.toList :=
    List.Perm.cons_inv (p2.symm.trans p3)
  generalize ht1.remove (valEq v.length) (some resizeEq) (probe v false) (H v) = res at *
  obtain ⟨code, ht2⟩ := res
  simp only at hcode hinv2 hload2 hrs2 p4
  subst hcode
  exact ⟨ht2, rfl, hinv2, hload2, by rw [hrs2]; exact hrs, p4⟩

/-- `lydict_remove` against the specification -/
theorem remove_spec (H : Bytes → UInt32) (d : Dict) (hd : DInv H d) (v : Bytes) :
    DInv H (d.remove H v).2 ∧
    (refs d v = 0 → (d.remove H v).1 = .notfound ∧ (d.remove H v).2 = d) ∧
    (0 < refs d v → (d.remove H v).1 = .done ∧
        ∀ s, refs (d.remove H v).2 s = if s = v then refs d v - 1 else refs d s) := by
  have hk : v.take v.length = v := List.take_length
  have hiff : ∀ r ∈ d.ht.toList, hit (valEq v.length) false (probe v false) (H v) r = true ↔ r.2.str = v := by
    intro r hr
    have := hit_valEq_iff hd.good v.length false (probe v false) (Nat.le_refl _) r hr
    simp only [probe, hk] at this ⊢
    exact this
  unfold Dict.remove
  simp only
  unfold Ht2.find
  cases hf : (d.ht.bucket (H v)).find? (hit (valEq v.length) false (probe v false) (H v)) with
  | none =>
    simp only [Option.map_none]
    refine ⟨hd, fun _ => by simp, ?_⟩
    intro hpos
    have hn := (find_none_iff d.ht hd.inv (valEq v.length) false (probe v false) (H v)).1 hf
    have : refs d v = 0 := by
      refine refsL_zero_of_not_mem _ _ ?_
      intro r hr he
      have := (hiff r hr).2 he
      rw [hn r hr] at this; exact absurd this (by simp)
    omega
  | some r =>
    simp only [Option.map_some]
    obtain ⟨hinv1, hload1, rest, pre, post, p1, p2, hb1, hpre, hpr⟩ :=
      modify_spec d.ht hd.inv hd.load (H v) _ decr r hf rfl
    have hrmem : r ∈ d.ht.toList := p1.mem_iff.2 (by simp)
    have hrstr : r.2.str = v := (hiff r hrmem).1 hpr
    have g1 : Good H (r :: rest) := hd.good.perm p1
    have hrefs : refs d v = r.2.ref := by
      have := hd.good.refs_pos r hrmem
      rw [hrstr] at this; exact this
    have hrest : refsL rest v = 0 := refsL_zero_of_not_mem _ _ (by rw [← hrstr]; exact g1.head_not_mem)
    have hrpos := hd.good.pos r hrmem
    have hrefs' : ∀ s, refs d s = (if v = s then r.2.ref else 0) + refsL rest s := by
      intro s; show refsL d.ht.toList s = _
      rw [refsL_perm p1 s, refsL_cons, hrstr]
    by_cases h0 : r.2.ref - 1 = 0
    · rw [if_pos h0]
      have hdist : Distinct resizeEq (decr r :: rest) := by
        have := (Distinct.perm p1).1 (distinct_of_good hd.good)
        unfold Distinct at this ⊢
        rw [List.pairwise_cons] at this ⊢
        exact ⟨fun a ha => this.1 a ha, this.2⟩
      have hx : hit (valEq v.length) false (probe v false) (H v) (decr r) = true := by
        unfold hit at hpr ⊢; simpa [valEq, decr] using hpr
      obtain ⟨ht2, hfin, hinv2, hload2, hrs2, p4⟩ :=
        drop_spec H _ hinv1 hload1 (by rw [onBucket_resize]; exact hd.rs) v (decr r) rest pre post p2 hb1 hpre hx hdist
      rw [hfin]
      refine ⟨⟨hinv2, hload2, hrs2, g1.tail.perm p4⟩, ?_, ?_⟩
      · intro hz; omega
      · intro _
        refine ⟨rfl, ?_⟩
        intro s
        show refsL ht2.toList s = _
        rw [← refsL_perm p4, hrefs' s]
        by_cases hs : s = v
        · rw [if_pos hs, hs, hrest]; omega
        · rw [if_neg hs, if_neg (fun h => hs h.symm)]; simp
    · rw [if_neg h0]
      simp only
      have g2 : Good H (decr r :: rest) :=
        g1.tail.cons (g1.hashed r (by simp)) (g1.own r (by simp)) (by simp only [decr]; omega) (g1.nonul r (by simp)) g1.head_not_mem
      refine ⟨⟨hinv1, hload1, hd.rs, g2.perm p2.symm⟩, ?_, ?_⟩
      · intro hz; omega
      · intro _
        refine ⟨trivial, ?_⟩
        intro s
        show refsL _ s = _
        rw [refsL_perm p2, refsL_cons, hrefs' s]
        simp only [decr, hrstr]
        by_cases hs : s = v
        · subst hs; simp [hrest, hrefs]
        · rw [if_neg (fun h => hs h.symm), if_neg hs, if_neg (fun h => hs h.symm)]

/-- pointer-equality lookup on a good table: only through the dictionary's own pointer, and then the record of that string -/
theorem hit_ptr_iff {H : Bytes → UInt32} {l : List (UInt32 × DRec)} (g : Good H l) (v : Bytes) (alias : Bool)
    (r : UInt32 × DRec) (hr : r ∈ l) :
    hit resizeEq false (probe v alias) (H v) r = true ↔ alias = true ∧ r.2.str = v := by
  unfold hit resizeEq ptrEq probe
  have ho := g.own r hr
  have hh := g.hashed r hr
  simp only [Bool.false_eq_true, if_false, ho, Bool.and_eq_true, beq_iff_eq, Bool.or_eq_true, Bool.not_eq_true']
  constructor
  · rintro ⟨_, h2, h3⟩
    cases alias with
    | false => simp at h2
    | true => simp at h3; exact ⟨rfl, h3.symm⟩
  · rintro ⟨h1, h2⟩
    subst h1
    exact ⟨by rw [hh, h2], rfl, Or.inr h2.symm⟩

/-- `lydict_dup` against the specification -/
theorem dup_spec (H : Bytes → UInt32) (d : Dict) (hd : DInv H d) (v : Bytes) (alias : Bool)
    (hal : alias = true → 0 < refs d v) :
    DInv H (d.dup H v alias).2 ∧
    (alias = false → d.dup H v alias = (.notfound, d)) ∧
    (alias = true → (d.dup H v alias).1 = .ok v ∧
        ∀ s, refs (d.dup H v alias).2 s = if s = v then refs d v + 1 else refs d s) := by
  unfold Dict.dup
  simp only
  unfold Ht2.find
  cases hf : (d.ht.bucket (H v)).find? (hit resizeEq false (probe v alias) (H v)) with
  | none =>
    simp only [Option.map_none]
    refine ⟨hd, fun _ => trivial, ?_⟩
    intro ha
    have hn := (find_none_iff d.ht hd.inv resizeEq false (probe v alias) (H v)).1 hf
    have : refs d v = 0 := by
      refine refsL_zero_of_not_mem _ _ ?_
      intro r hr he
      have := (hit_ptr_iff hd.good v alias r hr).2 ⟨ha, he⟩
      rw [hn r hr] at this; exact absurd this (by simp)
    have := hal ha
    omega
  | some r =>
    simp only [Option.map_some]
    obtain ⟨hinv1, hload1, rest, pre, post, p1, p2, hb1, hpre, hpr⟩ :=
      modify_spec d.ht hd.inv hd.load (H v) _ incr r hf rfl
    have hrmem : r ∈ d.ht.toList := p1.mem_iff.2 (by simp)
    obtain ⟨ha, hrstr⟩ := (hit_ptr_iff hd.good v alias r hrmem).1 hpr
    have g1 : Good H (r :: rest) := hd.good.perm p1
    have hrest : refsL rest v = 0 := refsL_zero_of_not_mem _ _ (by rw [← hrstr]; exact g1.head_not_mem)
    have hrefs' : ∀ s, refs d s = (if v = s then r.2.ref else 0) + refsL rest s := by
      intro s; show refsL d.ht.toList s = _
      rw [refsL_perm p1 s, refsL_cons, hrstr]
    have g2 : Good H (incr r :: rest) :=
      g1.tail.cons (g1.hashed r (by simp)) (g1.own r (by simp)) (by simp only [incr]; omega) (g1.nonul r (by simp)) g1.head_not_mem
    refine ⟨⟨hinv1, hload1, hd.rs, g2.perm p2.symm⟩, ?_, ?_⟩
    · intro hz; rw [ha] at hz; exact absurd hz (by simp)
    · intro _
      refine ⟨by rw [hrstr], ?_⟩
      intro s
      show refsL _ s = _
      rw [refsL_perm p2, refsL_cons, hrefs' s, hrefs' v]
      simp only [incr, hrstr]
      by_cases hs : s = v
      · subst hs; simp [hrest]
      · rw [if_neg (fun h => hs h.symm), if_neg hs, if_neg (fun h => hs h.symm)]

/-- final assembly of an insertion that created a record -/
theorem assemble_new (H : Bytes → UInt32) (d : Dict) (hd : DInv H d) (ht' : Ht2 DRec) (key : Bytes)
    (hinv : Inv2 ht') (hload : Load ht') (hrs : ht'.resize ≠ 0)
    (p : ht'.toList ~ (H key, { str := key, ref := 1, own := true }) :: d.ht.toList)
    (hnew : ∀ r ∈ d.ht.toList, r.2.str ≠ key) (hnn : (0 : UInt8) ∉ key) :
    DInv H { ht := ht' } ∧ ∀ s, refs { ht := ht' } s = if s = key then refs d s + 1 else refs d s := by
  have g : Good H ((H key, { str := key, ref := 1, own := true }) :: d.ht.toList) :=
    hd.good.cons rfl rfl (Nat.le_refl _) hnn hnew
  refine ⟨⟨hinv, hload, hrs, g.perm p.symm⟩, ?_⟩
  intro s
  show refsL ht'.toList s = _
  rw [refsL_perm p, refsL_cons]
  show _ = if s = key then refsL d.ht.toList s + 1 else refsL d.ht.toList s
  by_cases hs : s = key
  · subst hs; simp; omega
  · rw [if_neg hs]; simp only; rw [if_neg (fun h => hs h.symm)]; simp

theorem free_of_load {h : Ht2 DRec} (hi : Inv2 h) (hl : Load h) (hrs : h.resize ≠ 0) : h.used < h.size := by
  have := lt_of_div hi.pos (hl.lt hrs)
  simp only [Generated.LYHT_ENLARGE_PERCENTAGE] at this
  omega

end LyModel.Dict
