import LyModel.LyHt.Model2
import LyModel.LyHt.Jenkins
/-!
Model of `dict.c` (the context's reference-counted string dictionary) on top of the L2 hash-table model.

A stored value is a `struct ly_dict_rec {char *value; uint32_t refcount;}`.  What the code observes of `value` is
(1) the bytes up to the terminating NUL (`strcmp`, `strncmp`), (2) the pointer itself (`str1 == str2`).  The model
keeps `str` (those bytes) and `own`: `true` when the pointer is a dictionary allocation (then, by `Dict.Inv`, it is
determined by the string), `false` when it is a private buffer of the caller.  The hash function is a parameter
`H` of every operation (the code uses `lyht_hash`; the white-box harness can mask it to force collisions).

Two callbacks (installed through `lyht_set_cb(_data)` around each call):
* `valEq len`     = `lydict_val_eq` with `cb_data = &len` — compare by length: `!strncmp(s1, s2, len) && !s2[len]`;
* `resizeEq`      = `lydict_resize_val_eq` — `mod = 1`: `strcmp` (compare up to NUL); `mod = 0`: pointer equality.
While `dict_insert` runs, the new record's `value` still points to the *caller's* buffer, whose NUL is at
`strlen(value)`, not at `len`: an enlargement triggered by that very insertion re-inserts it with `strcmp`.
-/
namespace LyModel.Dict
open LyModel LyModel.LyHt

structure DRec where
  str : Bytes
  ref : Nat
  own : Bool
deriving Repr, DecidableEq, Inhabited

/-- `strncmp(a, b, n) == 0` for NUL-free `a`, `b` (each followed by its terminator) -/
def strncmpEq (a b : Bytes) (n : Nat) : Bool :=
  (a ++ [0]).take n == (b ++ [0]).take n

/-- `lydict_val_eq(val1_p, val2_p, mod, &len)` -/
def valEq (len : Nat) : VEq DRec := fun _ v r =>
  strncmpEq v.str r.str len && (r.str ++ [0]).getD len 1 == 0

/-- pointer equality `str1 == str2` -/
def ptrEq (a b : DRec) : Bool :=
  a.own == b.own && (!a.own || a.str == b.str)

/-- `lydict_resize_val_eq(val1_p, val2_p, mod, _)` -/
def resizeEq : VEq DRec := fun mod v r =>
  if mod then v.str == r.str else ptrEq v r

inductive DRes where
  | ok (s : Bytes)        -- LY_SUCCESS, `*str_p`
  | done                  -- LY_SUCCESS of `lydict_remove`
  | notfound              -- LY_ENOTFOUND
  | eint                  -- LY_EINT
  | full
deriving Repr, DecidableEq

structure Dict where
  ht : Ht2 DRec
deriving Repr

/-- modify the first element satisfying `p` -/
def modFirst {β : Type} (p : β → Bool) (f : β → β) : List β → List β
  | [] => []
  | x :: xs => if p x then f x :: xs else x :: modFirst p f xs

/-- modify the last element -/
def modLast {β : Type} (f : β → β) : List β → List β
  | [] => []
  | [x] => [f x]
  | x :: xs => x :: modLast f xs

def onBucket (h : Ht2 DRec) (hash : UInt32) (g : List (UInt32 × DRec) → List (UInt32 × DRec)) : Ht2 DRec :=
  { h with buckets := updAt h.buckets (h.idx hash) g }

/-- `lydict_init` with a starting size (the code uses `LYDICT_MIN_SIZE`) -/
def Dict.init (size : Nat) : Dict := { ht := Ht2.new size 1 }

/-- what `dict_insert` does to `*match` after a successful insertion: non-zerocopy — `match->value = malloc(len + 1)` + copy of
the first `len` bytes; zerocopy — the caller's pointer now belongs to the dictionary -/
def adopt (zc : Bool) (key : Bytes) (r : UInt32 × DRec) : UInt32 × DRec :=
  if zc then (r.1, { r.2 with own := true }) else (r.1, { r.2 with str := key, own := true })

def incr (r : UInt32 × DRec) : UInt32 × DRec := (r.1, { r.2 with ref := r.2.ref + 1 })

/-- `dict_insert(ctx, value, len, zerocopy, str_p)`.  `value` = the caller's whole buffer up to its NUL,
`len ≤ value.length`; `alias` = the caller's pointer is itself the dictionary's pointer of the string `value`. -/
def Dict.insert (H : Bytes → UInt32) (d : Dict) (value : Bytes) (len : Nat) (zc alias : Bool) : DRes × Dict :=
  let key := value.take len
  let hash := H key
  let rec0 : DRec := { str := value, ref := 1, own := alias }
  match d.ht.insert (valEq len) (some resizeEq) true true rec0 hash with
  | (.exist _, ht) =>
    -- match->refcount++
    (.ok key, { ht := onBucket ht hash (modFirst (Ht2.hit (valEq len) true rec0 hash) incr) })
  | (.ok _, ht) =>
    -- `match` is the new record (no resize) or whatever `lyht_find` with pointer equality returned (after a resize)
    let ht' := if ht.size = d.ht.size then onBucket ht hash (modLast (adopt zc key))
               else onBucket ht hash (modFirst (Ht2.hit resizeEq false rec0 hash) (adopt zc key))
    (.ok key, { ht := ht' })
  | (.notfound, ht) => (.notfound, { ht := ht })
  | (.eint, ht) => (.eint, { ht := ht })
  | (.full, ht) => (.full, { ht := ht })

/-- `dict_insert` after the candidate repair `fixes/F110.diff`: look the string up first (by length); a new string is copied
(or adopted) *before* it is stored and inserted with `lyht_insert_no_check`, so no record ever points into the caller's
buffer and a resize never compares records. -/
def Dict.insertFixed (H : Bytes → UInt32) (d : Dict) (value : Bytes) (len : Nat) (_zc alias : Bool) : DRes × Dict :=
  let key := value.take len
  let hash := H key
  let rec0 : DRec := { str := value, ref := 1, own := alias }
  match d.ht.find (valEq len) rec0 hash with
  | some _ =>
    (.ok key, { ht := onBucket d.ht hash (modFirst (Ht2.hit (valEq len) false rec0 hash) incr) })
  | none =>
    match d.ht.insert (valEq len) none false true { str := key, ref := 1, own := true } hash with
    | (.ok _, ht) => (.ok key, { ht := ht })
    | (.notfound, ht) => (.notfound, { ht := ht })
    | (.exist _, ht) => (.eint, { ht := ht })
    | (.eint, ht) => (.eint, { ht := ht })
    | (.full, ht) => (.full, { ht := ht })

/-- the record built on the stack for a lookup (`rec.value = value`) -/
def probe (value : Bytes) (own : Bool) : DRec := { str := value, ref := 0, own := own }

def decr (r : UInt32 × DRec) : UInt32 × DRec := (r.1, { r.2 with ref := r.2.ref - 1 })
/-- `ret = lyht_remove_with_resize_cb(...); free(val_p); LY_CHECK_ERR_GOTO(ret, LOGINT(ctx), finish)` -/
def finishRemove : Res DRec × Ht2 DRec → DRes × Dict
  | (.ok _, ht2) => (.done, { ht := ht2 })
  | (.notfound, ht2) => (.notfound, { ht := ht2 })
  | (_, ht2) => (.eint, { ht := ht2 })

/-- `lydict_remove(ctx, value)` -/
def Dict.remove (H : Bytes → UInt32) (d : Dict) (value : Bytes) : DRes × Dict :=
  let len := value.length
  let hash := H value
  match d.ht.find (valEq len) (probe value false) hash with
  | none => (.notfound, d)
  | some m =>
    -- match->refcount--
    let ht1 := onBucket d.ht hash (modFirst (Ht2.hit (valEq len) false (probe value false) hash) decr)
    if m.ref - 1 = 0 then finishRemove (ht1.remove (valEq len) (some resizeEq) (probe value false) hash)
    else (.done, { ht := ht1 })

/-- `dict_dup(ctx, value, str_p)`; `alias` = `value` is the dictionary's own pointer of that string -/
def Dict.dup (H : Bytes → UInt32) (d : Dict) (value : Bytes) (alias : Bool) : DRes × Dict :=
  let hash := H value
  match d.ht.find resizeEq (probe value alias) hash with
  | none => (.notfound, d)
  | some m =>
    (.ok m.str, { ht := onBucket d.ht hash (modFirst (Ht2.hit resizeEq false (probe value alias) hash) incr) })

/-- what `lydict_clean` would report: every record still stored, in `LYHT_ITER_ALL_RECS` order -/
def Dict.content (d : Dict) : List (Bytes × Nat) := d.ht.toList.map fun r => (r.2.str, r.2.ref)

end LyModel.Dict
