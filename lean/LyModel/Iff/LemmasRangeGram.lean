import LyModel.Iff.RangeSpec
import LyModel.Iff.LemmasRangeInv
/-!
The part parser of `lys_compile_type_range` on the rendering of a grammatical `range-arg` / `length-arg` (integer
boundaries): token by token, it collects exactly the parts the argument denotes.
-/
namespace LyModel.Range
open LyModel
open LyModel.Iff (isSpace OptSep startsWith)

/-! ### running the loop for a number of iterations -/
inductive Steps (fx : RFix) (t : RType) (base : Option (List Part)) : Nat → Bytes → PS → Bytes → PS → Prop
  | refl (e : Bytes) (s : PS) : Steps fx t base 0 e s e s
  | cons {n : Nat} {e e1 e2 : Bytes} {s s1 s2 : PS} : step fx t base e s = .next e1 s1 → Steps fx t base n e1 s1 e2 s2 →
      Steps fx t base (n + 1) e s e2 s2

theorem Steps.trans {fx : RFix} {t : RType} {base : Option (List Part)} {n m : Nat} {a b c : Bytes} {sa sb sc : PS}
    (h1 : Steps fx t base n a sa b sb) (h2 : Steps fx t base m b sb c sc) : Steps fx t base (n + m) a sa c sc := by
  induction h1 with
  | refl e s => simpa using h2
  | cons hs _ ih =>
    have := Steps.cons hs (ih h2)
    simpa [Nat.add_assoc, Nat.add_comm, Nat.add_left_comm] using this

theorem loop_steps {fx : RFix} {t : RType} {base : Option (List Part)} {n : Nat} {e e' : Bytes} {s s' : PS}
    (h : Steps fx t base n e s e' s') : ∀ fuel, loop fx t base (fuel + n) e s = loop fx t base fuel e' s' := by
  induction h with
  | refl e s => intro fuel; rfl
  | cons hs _ ih =>
    intro fuel
    rw [← Nat.add_assoc, loop, hs]
    exact ih fuel

theorem loop_mono (fx : RFix) (t : RType) (base : Option (List Part)) : ∀ (fuel m : Nat) (e : Bytes) (s : PS)
    (r : List Part × Nat), loop fx t base fuel e s = .ok r → loop fx t base (fuel + m) e s = .ok r := by
  intro fuel
  induction fuel with
  | zero => intro m e s r h; simp [loop] at h
  | succ n ih =>
    intro m e s r h
    rw [Nat.add_right_comm, loop]
    rw [loop] at h
    cases hs : step fx t base e s with
    | done r' => rw [hs] at h; simpa using h
    | fail er => rw [hs] at h; simp at h
    | next e' s' => rw [hs] at h; simp only []; exact ih m e' s' r h

/-- some iterations lead from `(e, s)` to `(e', s')`, not more than bytes were consumed -/
def Run (fx : RFix) (t : RType) (base : Option (List Part)) (e : Bytes) (s : PS) (e' : Bytes) (s' : PS) : Prop :=
  ∃ n, Steps fx t base n e s e' s' ∧ n + e'.length ≤ e.length

theorem Run.refl {fx : RFix} {t : RType} {base : Option (List Part)} (e : Bytes) (s : PS) : Run fx t base e s e s :=
  ⟨0, Steps.refl e s, by simp⟩

theorem Run.trans {fx : RFix} {t : RType} {base : Option (List Part)} {a b c : Bytes} {sa sb sc : PS}
    (h1 : Run fx t base a sa b sb) (h2 : Run fx t base b sb c sc) : Run fx t base a sa c sc := by
  obtain ⟨n, hn, ln⟩ := h1
  obtain ⟨m, hm, lm⟩ := h2
  exact ⟨n + m, hn.trans hm, by omega⟩

theorem Run.one {fx : RFix} {t : RType} {base : Option (List Part)} {e e' : Bytes} {s s' : PS}
    (h : step fx t base e s = .next e' s') (hl : e'.length < e.length) : Run fx t base e s e' s' :=
  ⟨1, Steps.cons h (Steps.refl _ _), by omega⟩

/-- if the loop reaches the end of the argument in state `s'` and breaks there, that is its result -/
theorem loop_of_run {fx : RFix} {t : RType} {base : Option (List Part)} {e : Bytes} {s s' : PS} {r : List Part × Nat}
    (h : Run fx t base e s [] s') (hd : step fx t base [] s' = .done r) :
    loop fx t base (e.length + 1) e s = .ok r := by
  obtain ⟨n, hn, ln⟩ := h
  have h1 : loop fx t base (1 + n) e s = .ok r := by
    rw [loop_steps hn 1, loop, hd]
  have := loop_mono fx t base (1 + n) (e.length - n) e s r h1
  simp at ln
  rw [show 1 + n + (e.length - n) = e.length + 1 by omega] at this
  exact this

/-! ### one token at a time -/
variable (fx : RFix) (t : RType) (base : Option (List Part))

theorem run_spaces : ∀ (ws X : Bytes) (s : PS), (∀ c ∈ ws, isSpace c = true) → Run fx t base (ws ++ X) s X s
  | [], X, s, _ => Run.refl X s
  | c :: ws, X, s, h => by
    have hc : isSpace c = true := h c (by simp)
    have h1 : step fx t base (c :: (ws ++ X)) s = .next (ws ++ X) s := by simp [step, hc]
    exact (Run.one h1 (by simp)).trans (run_spaces ws X s (fun d hd => h d (by simp [hd])))

theorem isSpace_m : isSpace 0x6d = false := by decide
theorem isSpace_bar : isSpace 124 = false := by decide
theorem isSpace_dot : isSpace 46 = false := by decide

theorem run_min (X : Bytes) (s : PS) (hs : s.rparts = []) :
    Run fx t base (kwMin ++ X) s X { s with rparts := [⟨lowOf t base, lowOf t base⟩] } := by
  have hmm : minmax t false 0 true base none = .ok (lowOf t base, 0) := by
    unfold minmax lowOf
    cases base <;> simp
  have h1 : step fx t base (kwMin ++ X) s = .next X { s with rparts := [⟨lowOf t base, lowOf t base⟩] } := by
    simp [step, kwMin, startsWith, isSpace_m, hs, hmm]
  exact Run.one h1 (by simp [kwMin]; omega)

theorem run_bar (X : Bytes) (s : PS) (hne : s.rparts ≠ []) (hre : s.rexp = false) (hd : s.done ≠ s.rparts.length) :
    Run fx t base (chBar :: X) s X { s with done := s.done + 1 } := by
  have hem : s.rparts.isEmpty = false := by
    cases h : s.rparts with
    | nil => exact absurd h hne
    | cons _ _ => rfl
  have hdd : (s.done == s.rparts.length) = false := by simpa using hd
  have h1 : step fx t base (chBar :: X) s = .next X { s with done := s.done + 1 } := by
    simp [step, isSpace_bar, kwMin, startsWith, chBar, hem, hre, hdd]
  exact Run.one h1 (by simp)

theorem dropWhile_ws (ws Y : Bytes) (hws : ∀ c ∈ ws, isSpace c = true) (hY : ∀ c, Y.head? = some c → isSpace c = false) :
    (ws ++ Y).dropWhile isSpace = Y := by
  induction ws with
  | nil =>
    cases Y with
    | nil => rfl
    | cons c r => simp [List.dropWhile, hY c rfl]
  | cons c ws ih =>
    have hc : isSpace c = true := hws c (by simp)
    simp only [List.cons_append, List.dropWhile, hc]
    exact ih (fun d hd => hws d (by simp [hd]))

/-- `..` and the white space after it are consumed by one iteration -/
theorem run_dots (ws Y : Bytes) (s : PS) (hws : ∀ c ∈ ws, isSpace c = true)
    (hY : ∀ c, Y.head? = some c → isSpace c = false) (hne : s.rparts ≠ []) (hd : s.rparts.length ≠ s.done) :
    Run fx t base (kwDots ++ (ws ++ Y)) s Y { s with rexp := true } := by
  have hem : s.rparts.isEmpty = false := by
    cases h : s.rparts with
    | nil => exact absurd h hne
    | cons _ _ => rfl
  have hdd : (s.rparts.length == s.done) = false := by simpa using hd
  have hdw := dropWhile_ws ws Y hws hY
  have h1 : step fx t base (kwDots ++ (ws ++ Y)) s = .next Y { s with rexp := true } := by
    simp [step, kwDots, isSpace_dot, chDot, kwMin, startsWith, chBar, hem, hdd, hdw]
  refine Run.one h1 ?_
  simp [kwDots]; omega

/-! ### numbers -/
theorem forall_uint8 {P : UInt8 → Prop} (h : ∀ n : Fin 256, P (UInt8.ofNat n.val)) : ∀ x, P x := by
  intro x
  have := h ⟨x.toNat, x.toNat_lt⟩
  simpa using this

set_option maxRecDepth 100000 in
theorem digit_facts : ∀ h : UInt8, (isDigit h = true ∨ h = chMinus) →
    isSpace h = false ∧ (h == 109) = false ∧ (h == 124) = false ∧ (h == 46) = false ∧
    (isDigit h || h == chMinus || h == chPlus) = true :=
  forall_uint8 (by decide)

set_option maxRecDepth 100000 in
theorem digit_not_sign : ∀ h : UInt8, isDigit h = true → (h == chMinus) = false ∧ (h == chPlus) = false :=
  forall_uint8 (by decide)

theorem takeWhile_digits : ∀ (ds X : Bytes), (∀ c ∈ ds, isDigit c = true) →
    (∀ c, X.head? = some c → isDigit c = false) → (ds ++ X).takeWhile isDigit = ds
  | [], X, _, hX => by
    cases X with
    | nil => rfl
    | cons c r => simp [List.takeWhile, hX c rfl]
  | d :: ds, X, hd, hX => by
    have : isDigit d = true := hd d (by simp)
    simp only [List.cons_append, List.takeWhile, this]
    rw [takeWhile_digits ds X (fun c hc => hd c (by simp [hc])) hX]

/-- X does not continue the number -/
def NoDigit (X : Bytes) : Prop := ∀ c, X.head? = some c → isDigit c = false

theorem Num.render_cases (n : Num) :
    (n.neg = true ∧ n.render = chMinus :: n.ds) ∨
    (n.neg = false ∧ n.render = n.ds ∧ ∃ d ds', n.ds = d :: ds' ∧ isDigit d = true) := by
  cases hn : n.neg with
  | true => left; simp [Num.render, hn]
  | false =>
    right
    refine ⟨rfl, by simp [Num.render, hn], ?_⟩
    cases hd : n.ds with
    | nil => exact absurd hd n.ne
    | cons d ds' => exact ⟨d, ds', rfl, n.dig d (by simp [hd])⟩

theorem Num.render_head (n : Num) : ∃ h tl, n.render = h :: tl ∧ (isDigit h = true ∨ h = chMinus) := by
  rcases n.render_cases with ⟨_, hr⟩ | ⟨_, hr, d, ds', hd, hdig⟩
  · exact ⟨chMinus, n.ds, hr, Or.inr rfl⟩
  · exact ⟨d, ds', by rw [hr, hd], Or.inl hdig⟩

theorem checkValueSyntax_num (n : Num) (X : Bytes) (hX : NoDigit X) (hdec : t.dec = false) :
    checkValueSyntax t (n.render ++ X) = .ok (n.render.length, n.render) := by
  have htw := takeWhile_digits n.ds X n.dig hX
  rcases n.render_cases with ⟨_, hr⟩ | ⟨_, hr, d, ds', hd, hdig⟩
  · rw [hr]
    have htk : List.take (n.ds.length + 1) (chMinus :: (n.ds ++ X)) = chMinus :: n.ds := by
      rw [List.take_succ_cons, List.take_left']
      rfl
    unfold checkValueSyntax
    simp only [List.cons_append, List.headD_cons]
    have h1 : (isDigit chMinus || chMinus == chMinus || chMinus == chPlus) = true := by decide
    have h2 : (chMinus == chMinus || chMinus == chPlus) = true := by decide
    simp only [h1, h2, Bool.not_true, Bool.false_eq_true, if_false, if_true, List.drop_succ_cons, List.drop_zero, htw,
      hdec, Bool.not_false, Bool.true_or, List.length_cons]
    rw [Nat.add_comm 1, htk]
  · rw [hr]
    have hs := digit_not_sign d hdig
    have htw' : List.takeWhile isDigit (d :: (ds' ++ X)) = d :: ds' := by
      have := htw; rw [hd] at this; simpa using this
    unfold checkValueSyntax
    rw [hd]
    simp [hdec, hdig, hs.1, hs.2, htw']

theorem parseInt_num (n : Num) (lo hi : Int) (hlo : -9223372036854775808 ≤ lo) (hhi : hi ≤ 9223372036854775807)
    (hv : lo ≤ n.val ∧ n.val ≤ hi) : parseInt n.render lo hi = .ok n.val := by
  rcases n.render_cases with ⟨hn, hr⟩ | ⟨hn, hr, d, ds', hd, hdig⟩
  · have hne : n.ds.isEmpty = false := by
      cases h : n.ds with
      | nil => exact absurd h n.ne
      | cons _ _ => rfl
    unfold parseInt
    rw [hr]
    simp only [Num.val, hn, if_true] at hv
    have h1 : ¬ ((-(digitsVal n.ds : Int)) < -9223372036854775808 ∨ (-(digitsVal n.ds : Int)) > 9223372036854775807) := by omega
    have h2 : ¬ ((-(digitsVal n.ds : Int)) < lo ∨ (-(digitsVal n.ds : Int)) > hi) := by omega
    have h3 : ((digitsVal n.ds : Nat) : Int) ≤ 9223372036854775808 := by omega
    have h4 : lo ≤ -((digitsVal n.ds : Nat) : Int) := hv.1
    have h5 : -((digitsVal n.ds : Nat) : Int) ≤ hi := hv.2
    simp [chMinus, hne, Num.val, hn, h1, h2, h3, h4, h5]
  · have hs := digit_not_sign d hdig
    unfold parseInt
    rw [hr, hd]
    simp only [Num.val, hn, hd, Bool.false_eq_true, if_false] at hv
    have h1 : ¬ (((digitsVal (d :: ds') : Nat) : Int) < -9223372036854775808 ∨ ((digitsVal (d :: ds') : Nat) : Int) > 9223372036854775807) := by omega
    have h2 : ¬ (((digitsVal (d :: ds') : Nat) : Int) < lo ∨ ((digitsVal (d :: ds') : Nat) : Int) > hi) := by omega
    simp [hs.1, hs.2, Num.val, hn, hd, h1, h2]

theorem parseUint_num (n : Num) (hi : Int) (hhi : hi ≤ 18446744073709551615) (hv : 0 ≤ n.val ∧ n.val ≤ hi) :
    parseUint n.render hi = .ok n.val := by
  rcases n.render_cases with ⟨hn, hr⟩ | ⟨hn, hr, d, ds', hd, hdig⟩
  · have hne : n.ds.isEmpty = false := by
      cases h : n.ds with
      | nil => exact absurd h n.ne
      | cons _ _ => rfl
    unfold parseUint
    rw [hr]
    simp only [Num.val, hn, if_true] at hv
    have hz : digitsVal n.ds = 0 := by omega
    have h0 : ¬ ((0 : Int) > hi) := by omega
    simp [chMinus, hne, Num.val, hn, hz, h0]
  · have hs := digit_not_sign d hdig
    unfold parseUint
    rw [hr, hd]
    simp only [Num.val, hn, hd, Bool.false_eq_true, if_false] at hv
    have h1 : ¬ (digitsVal (d :: ds') > 18446744073709551615) := by omega
    have h2 : ¬ (((digitsVal (d :: ds') : Nat) : Int) > hi) := by omega
    simp [hs.1, hs.2, Num.val, hn, hd, h1, h2]

/-- `range_part_minmax` on a number of the grammar that is a value of the type -/
theorem minmax_num (n : Num) (X : Bytes) (hX : NoDigit X) (hwf : t.WF) (hv : t.lo ≤ n.val ∧ n.val ≤ t.hi)
    (max first : Bool) (prev : Int) (hasc : first = true ∨ ascending max n.val prev = true) :
    minmax t max prev first none (some (n.render ++ X)) = .ok (n.val, n.render.length) := by
  unfold minmax
  simp only [checkValueSyntax_num t n X hX hwf.1]
  have hp : (if t.uns then parseUint n.render t.hi else parseInt n.render t.lo t.hi) = .ok n.val := by
    have h2 := hwf.2
    cases hu : t.uns with
    | true =>
      simp only [hu, if_true] at h2 ⊢
      exact parseUint_num n t.hi h2.2 ⟨by omega, hv.2⟩
    | false =>
      simp only [hu, Bool.false_eq_true, if_false] at h2 ⊢
      exact parseInt_num n t.lo t.hi h2.1 h2.2 hv
  simp only [hp]
  rcases hasc with h | h <;> simp [h]

/-- the loop at a number: none of the earlier branches fires -/
theorem step_at_num (n : Num) (X : Bytes) (s : PS) :
    ∃ h tl, n.render ++ X = h :: tl ∧ isSpace h = false ∧ startsWith (h :: tl) kwMin = false ∧ (h == chBar) = false ∧
      startsWith (h :: tl) kwDots = false ∧ (isDigit h || h == chMinus || h == chPlus) = true := by
  obtain ⟨h, tl, hr, hh⟩ := n.render_head
  have f := digit_facts h hh
  refine ⟨h, tl ++ X, by simp [hr], f.1, ?_, ?_, ?_, f.2.2.2.2⟩
  · simp [startsWith, kwMin, f.2.1]
  · simpa [chBar] using f.2.2.1
  · simp [startsWith, kwDots, f.2.2.2.1]

/-- a number that opens a new part -/
theorem run_num_lo (n : Num) (X : Bytes) (s : PS) (hX : NoDigit X) (hwf : t.WF) (hv : t.lo ≤ n.val ∧ n.val ≤ t.hi)
    (hre : s.rexp = false) (h51 : s.rparts = [] ∨ s.done = s.rparts.length) (hle : s.done ≤ s.rparts.length)
    (hasc : s.done ≠ 0 → ∀ q, s.rparts.head? = some q → q.max < n.val) :
    Run fx t base (n.render ++ X) s X { s with rparts := ⟨n.val, n.val⟩ :: s.rparts } := by
  obtain ⟨h, tl, he, h1, h2, h3, h4, h5⟩ := step_at_num n X s
  have hguard : (fx.f51 && !s.rparts.isEmpty && s.done != s.rparts.length) = false := by
    rcases h51 with hn | hd
    · simp [hn]
    · simp [hd]
  have hmm : minmax t false (if s.done ≠ 0 then (s.rparts.head?.map (·.max)).getD 0 else 0) (s.done == 0) none
      (some (n.render ++ X)) = .ok (n.val, n.render.length) := by
    apply minmax_num t n X hX hwf hv
    by_cases hd : s.done = 0
    · left; simp [hd]
    · right
      cases hq : s.rparts.head? with
      | none =>
        -- done ≠ 0 with no part: impossible under h51
        have : s.rparts = [] := by simpa using hq
        rw [this] at hle; simp at hle; exact absurd hle hd
      | some q =>
        have := hasc hd q hq
        simp [ascending, hd, hq]; omega
  have hs : step fx t base (n.render ++ X) s = .next X { s with rparts := ⟨n.val, n.val⟩ :: s.rparts } := by
    rw [he] at hmm ⊢
    unfold step
    simp only [h1, h2, h3, h4, h5, hre, hguard, Bool.false_eq_true, if_false, if_true, hmm]
    rw [← he]
    simp
  refine Run.one hs ?_
  obtain ⟨h', tl', hr', _⟩ := n.render_head
  simp [hr']; omega

/-- a number after `..` -/
theorem run_num_hi (n : Num) (X : Bytes) (s : PS) (p : Part) (ps : List Part) (hX : NoDigit X) (hwf : t.WF)
    (hv : t.lo ≤ n.val ∧ n.val ≤ t.hi) (hre : s.rexp = true) (hp : s.rparts = p :: ps) (hasc : p.min ≤ n.val) :
    Run fx t base (n.render ++ X) s X { s with rparts := { p with max := n.val } :: ps, rexp := false } := by
  obtain ⟨h, tl, he, h1, h2, h3, h4, h5⟩ := step_at_num n X s
  have hmm : minmax t true p.min false none (some (n.render ++ X)) = .ok (n.val, n.render.length) := by
    apply minmax_num t n X hX hwf hv
    right
    simp [ascending]; omega
  have hs : step fx t base (n.render ++ X) s =
      .next X { s with rparts := { p with max := n.val } :: ps, rexp := false } := by
    rw [he] at hmm ⊢
    unfold step
    simp only [h1, h2, h3, h4, h5, hre, hp, Bool.false_eq_true, if_false, if_true, hmm]
    rw [← he]
    simp
  refine Run.one hs ?_
  obtain ⟨h', tl', hr', _⟩ := n.render_head
  simp [hr']; omega

/-! ### `max` (always the last token) -/
theorem minmax_max (prev : Int) (first : Bool) (hasc : first = true ∨ prev ≤ highOf t base) :
    minmax t true prev first base none = .ok (highOf t base, 0) := by
  unfold minmax highOf
  rcases hasc with h | h
  · cases base <;> simp [h]
  · cases base with
    | none => simp [highOf] at h; simp [ascending]; omega
    | some b => simp [highOf] at h; simp [ascending]; omega

theorem run_max_hi (s : PS) (p : Part) (ps : List Part) (hre : s.rexp = true) (hp : s.rparts = p :: ps)
    (hasc : p.min ≤ highOf t base) :
    Run fx t base kwMax s [] { s with rparts := { p with max := highOf t base } :: ps, rexp := false } := by
  have hmm := minmax_max t base p.min false (Or.inr hasc)
  have hs : step fx t base kwMax s = .next [] { s with rparts := { p with max := highOf t base } :: ps, rexp := false } := by
    unfold step
    simp [kwMax, kwMin, kwDots, startsWith, isSpace_m, chBar, isDigit, chMinus, chPlus, hre, hp, hmm]
  exact Run.one hs (by simp [kwMax])

theorem run_max_lo (s : PS) (hre : s.rexp = false) (h51 : s.rparts = [] ∨ s.done = s.rparts.length)
    (hle : s.done ≤ s.rparts.length) (hasc : s.done ≠ 0 → ∀ q, s.rparts.head? = some q → q.max ≤ highOf t base) :
    Run fx t base kwMax s [] { s with rparts := ⟨highOf t base, highOf t base⟩ :: s.rparts } := by
  have hguard : (fx.f51 && !s.rparts.isEmpty && s.done != s.rparts.length) = false := by
    rcases h51 with hn | hd
    · simp [hn]
    · simp [hd]
  have hmm : minmax t true (if s.done ≠ 0 then (s.rparts.head?.map (·.max)).getD 0 else 0) (s.done == 0) base none =
      .ok (highOf t base, 0) := by
    apply minmax_max
    by_cases hd : s.done = 0
    · left; simp [hd]
    · right
      cases hq : s.rparts.head? with
      | none =>
        have : s.rparts = [] := by simpa using hq
        rw [this] at hle; simp at hle; exact absurd hle hd
      | some q => simpa [hd, hq] using hasc hd q hq
  have hs : step fx t base kwMax s = .next [] { s with rparts := ⟨highOf t base, highOf t base⟩ :: s.rparts } := by
    have hmm' := hmm
    simp only [ne_eq, ite_not] at hmm'
    unfold step
    simp [kwMax, kwMin, kwDots, startsWith, isSpace_m, chBar, isDigit, chMinus, chPlus, hre, hguard, hmm']
  exact Run.one hs (by simp [kwMax])

/-! ### composition -/
set_option maxRecDepth 100000 in
theorem space_not_digit : ∀ c : UInt8, isSpace c = true → isDigit c = false := forall_uint8 (by decide)

theorem NoDigit_nil : NoDigit [] := by intro c h; simp at h

theorem NoDigit_ws_then (o : OptSep) (d : UInt8) (Y : Bytes) (hd : isDigit d = false) : NoDigit (o.s ++ d :: Y) := by
  intro c hc
  cases ho : o.s with
  | nil => rw [ho] at hc; simp at hc; rw [← hc]; exact hd
  | cons a r =>
    rw [ho] at hc; simp at hc; rw [← hc]
    exact space_not_digit a (o.sp a (by simp [ho]))

theorem Bnd.render_head (b : Bnd) : ∃ h tl, b.render = h :: tl ∧ isSpace h = false := by
  cases b with
  | min => exact ⟨0x6d, [0x69, 0x6e], rfl, by decide⟩
  | max => exact ⟨0x6d, [0x61, 0x78], rfl, by decide⟩
  | num n =>
    obtain ⟨h, tl, hr, hh⟩ := n.render_head
    exact ⟨h, tl, hr, (digit_facts h hh).1⟩

theorem StrictAsc_snoc : ∀ (pre : List Part) (v : Part), StrictAsc (pre ++ [v]) →
    v.min ≤ v.max ∧ ∀ q, pre.getLast? = some q → q.max < v.min
  | [], v, h => ⟨h, by intro q hq; simp at hq⟩
  | [a], v, h => ⟨h.2.2, by intro q hq; simp at hq; rw [← hq]; exact h.2.1⟩
  | a :: b :: r, v, h => by
    have := StrictAsc_snoc (b :: r) v h.2.2
    exact ⟨this.1, by intro q hq; exact this.2 q (by simpa using hq)⟩

theorem StrictAsc_prefix : ∀ (pre : List Part) (v : Part) (vs : List Part), StrictAsc (pre ++ v :: vs) →
    StrictAsc (pre ++ [v])
  | [], v, [], h => h
  | [], v, w :: vs, h => h.1
  | [a], v, vs, h => by
    have := StrictAsc_prefix [] v vs h.2.2
    exact ⟨h.1, h.2.1, this⟩
  | a :: b :: r, v, vs, h => by
    have := StrictAsc_prefix (b :: r) v vs h.2.2
    exact ⟨h.1, h.2.1, this⟩

/-- state when a part is about to start after `pre` (initially, or right after `|`), and when parts `P` are complete -/
def Sbefore (pre : List Part) : PS := { rparts := pre.reverse, done := pre.length, rexp := false }
def Sdone (P : List Part) : PS := { rparts := P.reverse, done := P.length - 1, rexp := false }

theorem Sbefore_nil : Sbefore [] = {} := rfl

/-- one `range-part` -/
theorem run_part (p : PartA) (pre : List Part) (v : Part) (X : Bytes) (isLast : Bool) (hwf : t.WF)
    (hk : p.KwOK pre.isEmpty isLast) (hval : p.value t base = some v) (hasc : StrictAsc (pre ++ [v]))
    (hX : NoDigit X) (hlast : isLast = true → X = []) :
    Run fx t base (p.render ++ X) (Sbefore pre) X (Sdone (pre ++ [v])) := by
  obtain ⟨hvle, hprev⟩ := StrictAsc_snoc pre v hasc
  have hhead : ∀ q, (Sbefore pre).rparts.head? = some q → pre.getLast? = some q := by
    intro q hq; simpa [Sbefore, List.head?_reverse] using hq
  -- after the lower boundary `l`: state with the single-value part ⟨l, l⟩
  have afterLo : ∀ (l : Int) (Z : Bytes), p.lo.value t base = some l → NoDigit Z →
      (p.lo matches .max → Z = []) → (∀ q, pre.getLast? = some q → q.max < l) →
      Run fx t base (p.lo.render ++ Z) (Sbefore pre) Z { (Sbefore pre) with rparts := ⟨l, l⟩ :: pre.reverse } := by
    intro l Z hl hZ hmaxZ hql
    cases hlo : p.lo with
    | min =>
      rw [hlo] at hl
      simp only [Bnd.value, Option.some.injEq] at hl
      have hpre : pre = [] := by
        have := hk.1 (by rw [hlo])
        simpa using this
      subst hpre
      rw [← hl]
      exact run_min fx t base Z (Sbefore []) rfl
    | num n =>
      rw [hlo] at hl
      simp only [Bnd.value] at hl
      split at hl
      · rename_i hv
        simp only [Option.some.injEq] at hl
        rw [← hl]
        exact run_num_lo fx t base n Z (Sbefore pre) hZ hwf hv rfl (Or.inr (by simp [Sbefore])) (by simp [Sbefore])
          (fun _ q hq => by rw [hl]; exact hql q (hhead q hq))
      · simp at hl
    | max =>
      rw [hlo] at hl
      simp only [Bnd.value, Option.some.injEq] at hl
      have hZ' : Z = [] := hmaxZ (by rw [hlo])
      subst hZ'
      rw [← hl]
      simp only [Bnd.render, List.append_nil]
      exact run_max_lo fx t base (Sbefore pre) rfl (Or.inr (by simp [Sbefore])) (by simp [Sbefore])
        (fun _ q hq => by
          have := hql q (hhead q hq)
          rw [← hl] at this
          omega)
  unfold PartA.value at hval
  cases hlov : p.lo.value t base with
  | none => simp [hlov] at hval
  | some l =>
    rw [hlov] at hval
    cases hhi : p.hi with
    | none =>
      rw [hhi] at hval
      simp only [Option.some.injEq] at hval
      subst hval
      have hmaxX : (p.lo matches .max → X = []) := fun hm => hlast (hk.2.1 hm).1
      have := afterLo l X hlov hX hmaxX hprev
      simpa [PartA.render, hhi, Sdone, Sbefore] using this
    | some trip =>
      obtain ⟨o1, o2, b⟩ := trip
      rw [hhi] at hval
      simp only [Option.map_eq_some_iff] at hval
      obtain ⟨hv', hbv, hveq⟩ := hval
      subst hveq
      simp only [] at hvle hprev
      have hkb := hk.2.2 o1 o2 b hhi
      have hnomax : ¬ (p.lo matches .max) := by
        intro hm
        have := (hk.2.1 hm).2
        rw [hhi] at this; simp at this
      obtain ⟨bh, btl, hbr, hbsp⟩ := b.render_head
      -- lower boundary, blanks, `..` (+ blanks)
      have r1 := afterLo l (o1.s ++ (kwDots ++ (o2.s ++ (b.render ++ X)))) hlov
        (NoDigit_ws_then o1 chDot _ (by decide)) (fun hm => absurd hm hnomax) hprev
      have r2 := run_spaces fx t base o1.s (kwDots ++ (o2.s ++ (b.render ++ X)))
        { (Sbefore pre) with rparts := ⟨l, l⟩ :: pre.reverse } o1.sp
      have r3 := run_dots fx t base o2.s (b.render ++ X) { (Sbefore pre) with rparts := ⟨l, l⟩ :: pre.reverse } o2.sp
        (by intro c hc; rw [hbr] at hc; simp at hc; rw [← hc]; exact hbsp) (by simp) (by simp [Sbefore])
      -- upper boundary
      have r4 : Run fx t base (b.render ++ X)
          { ({ (Sbefore pre) with rparts := ⟨l, l⟩ :: pre.reverse } : PS) with rexp := true } X
          (Sdone (pre ++ [⟨l, hv'⟩])) := by
        cases hb : b with
        | min => rw [hb] at hkb; exact absurd rfl hkb.1
        | num n =>
          rw [hb] at hbv
          simp only [Bnd.value] at hbv
          split at hbv
          · rename_i hvn
            simp only [Option.some.injEq] at hbv
            have := run_num_hi fx t base n X
              { ({ (Sbefore pre) with rparts := ⟨l, l⟩ :: pre.reverse } : PS) with rexp := true } ⟨l, l⟩ pre.reverse hX hwf
              hvn rfl rfl (by rw [hbv]; exact hvle)
            simpa [Bnd.render, Sdone, Sbefore, hbv] using this
          · simp at hbv
        | max =>
          rw [hb] at hbv hkb
          simp only [Bnd.value, Option.some.injEq] at hbv
          have hXn : X = [] := hlast (hkb.2 rfl)
          subst hXn
          have := run_max_hi fx t base
            { ({ (Sbefore pre) with rparts := ⟨l, l⟩ :: pre.reverse } : PS) with rexp := true } ⟨l, l⟩ pre.reverse rfl rfl
            (by rw [hbv]; exact hvle)
          simpa [Bnd.render, Sdone, Sbefore, hbv] using this
      have := (r1.trans r2).trans (r3.trans r4)
      simpa [PartA.render, hhi, List.append_assoc] using this

theorem Sdone_bar (pre : List Part) (hne : pre ≠ []) :
    ({ (Sdone pre) with done := (Sdone pre).done + 1 } : PS) = Sbefore pre := by
  have : pre.length ≠ 0 := by intro h; exact hne (List.eq_nil_of_length_eq_zero h)
  simp only [Sdone, Sbefore, PS.mk.injEq, true_and, and_true]
  omega

/-- `*(optsep "|" optsep range-part)` -/
theorem run_rest (hwf : t.WF) : ∀ (rest : List (OptSep × OptSep × PartA)) (pre vs : List Part), pre ≠ [] →
    valuesRest t base rest = some vs → RestKwOK rest → StrictAsc (pre ++ vs) →
    Run fx t base (renderRest rest) (Sdone pre) [] (Sdone (pre ++ vs))
  | [], pre, vs, _, hv, _, _ => by
    simp only [valuesRest, Option.some.injEq] at hv
    subst hv
    simpa [renderRest] using Run.refl [] (Sdone pre)
  | (o1, o2, p) :: r, pre, vs, hne, hv, hk, hasc => by
    simp only [valuesRest] at hv
    cases hpv : p.value t base with
    | none => simp [hpv] at hv
    | some v =>
      cases hrv : valuesRest t base r with
      | none => simp [hpv, hrv] at hv
      | some vs' =>
        simp only [hpv, hrv, Option.some.injEq] at hv
        subst hv
        have hpk : p.KwOK false r.isEmpty ∧ RestKwOK r := by
          cases r with
          | nil => exact ⟨hk, trivial⟩
          | cons q r' => exact ⟨hk.1, hk.2⟩
        have hasc1 : StrictAsc (pre ++ [v]) := StrictAsc_prefix pre v vs' hasc
        have hXnd : NoDigit (renderRest r) := by
          cases r with
          | nil => exact NoDigit_nil
          | cons q r' =>
            obtain ⟨q1, q2, qp⟩ := q
            simp only [renderRest, List.append_assoc, List.singleton_append]
            exact NoDigit_ws_then q1 chBar _ (by decide)
        have hlast : r.isEmpty = true → renderRest r = [] := by
          intro h
          have : r = [] := by simpa using h
          rw [this]; rfl
        have hem : pre.isEmpty = false := by
          cases pre with
          | nil => exact absurd rfl hne
          | cons _ _ => rfl
        have r1 := run_spaces fx t base o1.s (chBar :: (o2.s ++ (p.render ++ renderRest r))) (Sdone pre) o1.sp
        have r2 := run_bar fx t base (o2.s ++ (p.render ++ renderRest r)) (Sdone pre)
          (by simp [Sdone]; exact hne) rfl
          (by
            have : pre.length ≠ 0 := by intro h; exact hne (List.eq_nil_of_length_eq_zero h)
            simp [Sdone]; omega)
        rw [Sdone_bar pre hne] at r2
        have r3 := run_spaces fx t base o2.s (p.render ++ renderRest r) (Sbefore pre) o2.sp
        have r4 := run_part fx t base p pre v (renderRest r) r.isEmpty hwf (by rw [hem]; exact hpk.1) hpv hasc1 hXnd hlast
        have r5 := run_rest hwf r (pre ++ [v]) vs' (by simp) hrv hpk.2 (by simpa using hasc)
        have := (r1.trans r2).trans (r3.trans (r4.trans r5))
        simpa [renderRest, List.append_assoc] using this

/-- at the end of the argument the loop breaks with the collected parts -/
theorem step_end (P : List Part) (hne : P ≠ []) : step fx t base [] (Sdone P) = .done (P, P.length) := by
  have hl : P.length ≠ 0 := by intro h; exact hne (List.eq_nil_of_length_eq_zero h)
  have h1 : (P.reverse.isEmpty) = false := by
    cases h : P.reverse with
    | nil => exact absurd (by simpa using h) hne
    | cons _ _ => rfl
  have h2 : (P.length - 1 == P.reverse.length) = false := by simp; omega
  have h3 : P.length - 1 + 1 = P.length := by omega
  have h4 : ¬ (P.length - 1 = P.length) := by omega
  simp [step, Sdone, h1, h3, h4]

/-- **the part parser on a grammatical argument**: exactly the denoted parts, and `parts_done` = their number -/
theorem loop_grammatical (hwf : t.WF) (a : RangeA) (P : List Part) (hk : a.KwOK) (hv : a.values t base = some P)
    (hasc : StrictAsc P) : loop fx t base (a.render.length + 1) a.render {} = .ok (P, P.length) := by
  unfold RangeA.values at hv
  cases hfv : a.first.value t base with
  | none => simp [hfv] at hv
  | some v =>
    cases hrv : valuesRest t base a.rest with
    | none => simp [hfv, hrv] at hv
    | some vs =>
      simp only [hfv, hrv, Option.some.injEq] at hv
      subst hv
      have hXnd : NoDigit (renderRest a.rest) := by
        cases h : a.rest with
        | nil => exact NoDigit_nil
        | cons q r' =>
          obtain ⟨q1, q2, qp⟩ := q
          simp only [renderRest, List.append_assoc, List.singleton_append]
          exact NoDigit_ws_then q1 chBar _ (by decide)
      have hlast : a.rest.isEmpty = true → renderRest a.rest = [] := by
        intro h
        have : a.rest = [] := by simpa using h
        rw [this]; rfl
      have r1 := run_part fx t base a.first [] v (renderRest a.rest) a.rest.isEmpty hwf (by simpa using hk.1) hfv
        (by simpa using StrictAsc_prefix [] v vs hasc) hXnd hlast
      have r2 := run_rest fx t base hwf a.rest [v] vs (by simp) hrv hk.2 (by simpa using hasc)
      have hrun : Run fx t base a.render {} [] (Sdone (v :: vs)) := by
        have := r1.trans r2
        simpa [RangeA.render, Sbefore_nil] using this
      exact loop_of_run hrun (step_end fx t base (v :: vs) (by simp))

end LyModel.Range
