import LyModel.Base
import LyModel.Iff.Model
/-!
Model of `schema_compile_node.c: lys_compile_type_range` (+ `range_part_minmax`, `range_part_check_value_syntax`,
`range_part_check_ascendancy`), `ly_common.c: ly_parse_int / ly_parse_uint` on the strings that reach them from there,
and `plugins_types.c: lyplg_type_validate_range`.   CORE LEAN ONLY.

Bounds are mathematical integers in the type's own interpretation (unsigned types compare as `uint64_t`, signed ones
as `int64_t`; the C code is consistent about which view it uses for a given base type, equality tests are on the bits).
Defects are kept: `|` increments `parts_done` even when no part follows (F30: the subset walk then indexes `parts[]`
past its end → `crashOob`), and a number that follows a number without `|` opens a new part while `parts_done` stays,
so that part escapes the ascending check and the subset walk.
-/
namespace LyModel.Range
open LyModel
open LyModel.Iff (isSpace startsWith)

structure RType where
  uns : Bool        -- compared as uint64_t (uintN, string/binary length)
  lo : Int          -- limits given to ly_parse_int / ly_parse_uint and used for min / max without a base range
  hi : Int
  dec : Bool := false
  frac : Nat := 0   -- fraction-digits (decimal64)
  deriving Repr, DecidableEq

structure Part where
  min : Int
  max : Int
  deriving Repr, DecidableEq

inductive RErr | valid | denied | exist | inval | int
  | crashOob       -- parts[u] read with u ≥ LY_ARRAY_COUNT(parts)  (F30)
  deriving Repr, DecidableEq

def RErr.name : RErr → String
  | .valid => "EVALID" | .denied => "EDENIED" | .exist => "EEXIST" | .inval => "EINVAL" | .int => "EINT"
  | .crashOob => "CrashOobRead"

def isDigit (c : UInt8) : Bool := 0x30 ≤ c && c ≤ 0x39
def chMinus : UInt8 := 0x2d
def chPlus : UInt8 := 0x2b
def chDot : UInt8 := 0x2e
def chBar : UInt8 := 0x7c
def kwMin : Bytes := [0x6d, 0x69, 0x6e]
def kwMax : Bytes := [0x6d, 0x61, 0x78]
def kwDots : Bytes := [0x2e, 0x2e]

def digitsVal (ds : Bytes) : Nat := ds.foldl (fun a d => a * 10 + (d.toNat - 48)) 0

/-- `range_part_check_value_syntax`: number of input bytes consumed and the NUL-terminated copy handed to the parser -/
def checkValueSyntax (t : RType) (value : Bytes) : Except RErr (Nat × Bytes) :=
  let first := value.headD 0
  if !(isDigit first || first == chMinus || first == chPlus) then .error .valid
  else
    let signLen := if first == chMinus || first == chPlus then 1 else 0
    let d1 := (value.drop signLen).takeWhile isDigit
    let len1 := signLen + d1.length
    let after := value.drop len1
    if !t.dec || after.headD 0 != chDot || !isDigit ((after.drop 1).headD 0) then
      if t.dec then .ok (len1, value.take len1 ++ List.replicate t.frac 0x30)
      else .ok (len1, value.take len1)
    else
      let d2 := (after.drop 1).takeWhile isDigit
      if d2.length > t.frac then .error .inval
      else .ok (len1 + 1 + d2.length, value.take len1 ++ d2 ++ List.replicate (t.frac - d2.length) 0x30)

/-- `ly_parse_int(valcopy, …, min, max, 10, …)` on `[+-]?[0-9]*` -/
def parseInt (s : Bytes) (lo hi : Int) : Except RErr Int :=
  let neg := s.headD 0 == chMinus
  let ds := if s.headD 0 == chMinus || s.headD 0 == chPlus then s.drop 1 else s
  if ds.isEmpty then .error .valid                              -- strtoll consumed nothing
  else
    let v : Int := if neg then -(digitsVal ds : Int) else (digitsVal ds : Int)
    if v < -9223372036854775808 || v > 9223372036854775807 then .error .valid   -- ERANGE
    else if v < lo || v > hi then .error .denied
    else .ok v

/-- `ly_parse_uint(valcopy, …, max, 10, …)` on `[+-]?[0-9]*` (strtoull negates modulo 2^64) -/
def parseUint (s : Bytes) (hi : Int) : Except RErr Int :=
  let neg := s.headD 0 == chMinus
  let ds := if s.headD 0 == chMinus || s.headD 0 == chPlus then s.drop 1 else s
  if ds.isEmpty then .error .valid
  else
    let n := digitsVal ds
    if n > 18446744073709551615 then .error .valid             -- ERANGE
    else
      let u : Nat := if neg then (18446744073709551616 - n) % 18446744073709551616 else n
      if (u : Int) > hi || (u != 0 && neg) then .error .denied
      else .ok u

/-- `range_part_check_ascendancy` -/
def ascending (max : Bool) (value prev : Int) : Bool :=
  !((max && prev > value) || (!max && prev ≥ value))

/-- `range_part_minmax`: the stored bound and the number of input bytes consumed -/
def minmax (t : RType) (max : Bool) (prev : Int) (first : Bool) (base : Option (List Part)) (value : Option Bytes) :
    Except RErr (Int × Nat) :=
  match value with
  | some v =>
    match checkValueSyntax t v with
    | .error e => .error e
    | .ok (len, copy) =>
      match (if t.uns then parseUint copy t.hi else parseInt copy t.lo t.hi) with
      | .error e => .error e
      | .ok x => if !first && !ascending max x prev then .error .exist else .ok (x, len)
  | none =>
    let x : Int :=
      match base with
      | some b => if max then (b.getLast?.map (·.max)).getD 0 else (b.head?.map (·.min)).getD 0
      | none => if max then t.hi else t.lo
    if !first && !ascending max x prev then .error .exist else .ok (x, 0)

/-- which of the candidate repairs (fixes/F30.diff, fixes/F75.diff) the modelled source contains -/
structure RFix where
  f30 : Bool := false   -- `|` is refused when no part was started since the previous `|`
  f51 : Bool := false   -- a number / `max` that would open a new part is refused while the previous part is not closed by `|`
  deriving Repr, DecidableEq

structure PS where
  rparts : List Part := []   -- `parts`, last one first
  done : Nat := 0            -- parts_done
  rexp : Bool := false       -- range_expected
  deriving Repr

/-- outcome of one iteration of the `while (1)` loop -/
inductive StepR
  | done (r : List Part × Nat)     -- `break`: the parts and the final `parts_done`
  | next (e : Bytes) (s : PS)      -- go on with the rest of the argument
  | fail (e : RErr)

/-- one iteration of the `while (1)` loop of `lys_compile_type_range` at `expr = e` -/
def step (fx : RFix) (t : RType) (base : Option (List Part)) (e : Bytes) (s : PS) : StepR :=
  match e with
  | [] =>
    if s.rexp then .fail .valid
    else if s.rparts.isEmpty || s.done == s.rparts.length then .fail .valid
    else .done (s.rparts.reverse, s.done + 1)
  | c :: rest =>
    if isSpace c then .next rest s
    else if startsWith e kwMin then
      if !s.rparts.isEmpty then .fail .valid
      else match minmax t false 0 true base none with
        | .error er => .fail er
        | .ok (x, _) => .next (e.drop 3) { s with rparts := [⟨x, x⟩] }
    else if c == chBar then
      if s.rparts.isEmpty || s.rexp || (fx.f30 && s.done == s.rparts.length) then .fail .valid
      else .next rest { s with done := s.done + 1 }
    else if startsWith e kwDots then
      if s.rparts.isEmpty || s.rparts.length == s.done then .fail .valid
      else .next ((e.drop 2).dropWhile isSpace) { s with rexp := true }
    else if isDigit c || c == chMinus || c == chPlus then
      if s.rexp then
        match s.rparts with
        | [] => .fail .int
        | p :: ps =>
          match minmax t true p.min false none (some e) with
          | .error er => .fail er
          | .ok (x, len) => .next (e.drop len) { s with rparts := { p with max := x } :: ps, rexp := false }
      else if fx.f51 && !s.rparts.isEmpty && s.done != s.rparts.length then .fail .valid
      else
        let prev : Int := if s.done ≠ 0 then (s.rparts.head?.map (·.max)).getD 0 else 0
        match minmax t false prev (s.done == 0) none (some e) with
        | .error er => .fail er
        | .ok (x, len) => .next (e.drop len) { s with rparts := ⟨x, x⟩ :: s.rparts }
    else if startsWith e kwMax then
      if !((e.drop 3).dropWhile isSpace).isEmpty then .fail .valid
      else if s.rexp then
        match s.rparts with
        | [] => .fail .int
        | p :: ps =>
          match minmax t true p.min false base none with
          | .error er => .fail er
          | .ok (x, _) => .next [] { s with rparts := { p with max := x } :: ps, rexp := false }
      else if fx.f51 && !s.rparts.isEmpty && s.done != s.rparts.length then .fail .valid
      else
        let prev : Int := if s.done ≠ 0 then (s.rparts.head?.map (·.max)).getD 0 else 0
        match minmax t true prev (s.done == 0) base none with
        | .error er => .fail er
        | .ok (x, _) => .next [] { s with rparts := ⟨x, x⟩ :: s.rparts }
    else .fail .valid

/-- the `while (1)` loop of `lys_compile_type_range`; result: `parts` and the final `parts_done`. Every iteration but
the last consumes at least one byte, fuel = length + 1 suffices. -/
def loop (fx : RFix) (t : RType) (base : Option (List Part)) : Nat → Bytes → PS → Except RErr (List Part × Nat)
  | 0, _, _ => .error .int
  | fuel + 1, e, s =>
    match step fx t base e s with
    | .done r => .ok r
    | .fail er => .error er
    | .next e' s' => loop fx t base fuel e' s'

/-- the `for (u = v = 0; u < parts_done && v < COUNT(base); ++u)` walk. `--u; ++v; continue` followed by the loop's
`++u` leaves `u` unchanged (for `u = 0` through the unsigned wrap). `true` = no `baseerror`. -/
def walk (parts base : List Part) (done : Nat) : Nat → Nat → Nat → Except RErr Bool
  | 0, _, _ => .error .int
  | fuel + 1, u, v =>
    if u < done && v < base.length then
      match parts[u]?, base[v]? with
      | none, _ => .error .crashOob
      | _, none => .error .int
      | some p, some b =>
        if p.min < b.min then .ok false
        else if b.min == b.max then
          if b.min == p.min then
            if p.min != p.max then .ok false else walk parts base done fuel (u + 1) (v + 1)
          else walk parts base done fuel u (v + 1)
        else if p.min == p.max then
          if p.max > b.max then walk parts base done fuel u (v + 1) else walk parts base done fuel (u + 1) v
        else if p.max > b.max then
          if p.min > b.max then walk parts base done fuel u (v + 1) else .ok false
        else walk parts base done fuel (u + 1) v
    else .ok (u == done)

/-- `lys_compile_type_range` -/
def compileRange (fx : RFix) (t : RType) (base : Option (List Part)) (arg : Bytes) : Except RErr (List Part) :=
  match loop fx t base (arg.length + 1) arg {} with
  | .error e => .error e
  | .ok (parts, done) =>
    match base with
    | none => .ok parts
    | some b =>
      match walk parts b done (done + b.length + 1) 0 0 with
      | .error e => .error e
      | .ok true => .ok parts
      | .ok false => .error .valid

/-- a typedef chain: each restriction is compiled against the result of the previous one; error = (level, kind) -/
def compileChain (fx : RFix) (t : RType) : Option (List Part) → Nat → List Bytes → Except (Nat × RErr) (Option (List Part))
  | base, _, [] => .ok base
  | base, k, a :: rest =>
    match compileRange fx t base a with
    | .error e => .error (k, e)
    | .ok p => compileChain fx t (some p) (k + 1) rest

/-- `lyplg_type_validate_range` (the walk assumes ascending parts) -/
def validate : List Part → Int → Bool
  | [], _ => true
  | p :: rest, v =>
    if v < p.min then false
    else if v ≤ p.max then true
    else if rest.isEmpty then false
    else validate rest v

def typeOf (name : String) (frac : Nat) : Option RType :=
  match name with
  | "int8" => some { uns := false, lo := -128, hi := 127 }
  | "int16" => some { uns := false, lo := -32768, hi := 32767 }
  | "int32" => some { uns := false, lo := -2147483648, hi := 2147483647 }
  | "int64" => some { uns := false, lo := -9223372036854775808, hi := 9223372036854775807 }
  | "uint8" => some { uns := true, lo := 0, hi := 255 }
  | "uint16" => some { uns := true, lo := 0, hi := 65535 }
  | "uint32" => some { uns := true, lo := 0, hi := 4294967295 }
  | "uint64" => some { uns := true, lo := 0, hi := 18446744073709551615 }
  | "string" => some { uns := true, lo := 0, hi := 18446744073709551615 }
  | "binary" => some { uns := true, lo := 0, hi := 18446744073709551615 }
  | "dec64" => some { uns := false, lo := -9223372036854775808, hi := 9223372036854775807, dec := true, frac := frac }
  | _ => none

end LyModel.Range
