import LyModel.Iff.LemmasLex
/-! Pass 1 rejects every argument whose parentheses do not balance in number (or stops earlier with a syntax error). -/
namespace LyModel.Iff
open LyModel

theorem classify1_ne_paren (w : Bytes) : classify1 w ≠ .lp ∧ classify1 w ≠ .rp := by
  unfold classify1
  split
  · simp
  · simp only []
    split
    · simp
    · split
      · simp
      · split <;> simp

theorem lex1_count_lp : ∀ (c : Bytes) (m : Bool), (lex1 m c).count .lp = c.count chLP
  | [], _ => rfl
  | x :: r, m => by
    simp only [lex1]
    by_cases h1 : x = chLP
    · subst h1; simp [lex1_count_lp r false]
    · have hb : (x == chLP) = false := beq_false_of_ne h1
      have hc : List.count chLP (x :: r) = List.count chLP r := by
        rw [List.count_cons]; simp [hb]
      simp only [hb, Bool.false_eq_true, if_false, hc]
      split
      · simp [lex1_count_lp r false]
      · split
        · split <;> simp [lex1_count_lp r false]
        · split
          · exact lex1_count_lp r true
          · rw [List.count_cons]
            have := (classify1_ne_paren (x :: r)).1
            simp [this, lex1_count_lp r true]

theorem lex1_count_rp : ∀ (c : Bytes) (m : Bool), (lex1 m c).count .rp = c.count chRP
  | [], _ => rfl
  | x :: r, m => by
    simp only [lex1]
    by_cases h1 : x = chLP
    · subst h1
      have : (chLP == chRP) = false := by decide
      simp [lex1_count_rp r false, List.count_cons, this]
    · have hb : (x == chLP) = false := beq_false_of_ne h1
      simp only [hb, Bool.false_eq_true, if_false]
      by_cases h2 : x = chRP
      · subst h2; simp [lex1_count_rp r false]
      · have hb2 : (x == chRP) = false := beq_false_of_ne h2
        have hc : List.count chRP (x :: r) = List.count chRP r := by
          rw [List.count_cons]; simp [hb2]
        simp only [hb2, Bool.false_eq_true, if_false, hc]
        split
        · split <;> simp [lex1_count_rp r false]
        · split
          · exact lex1_count_rp r true
          · rw [List.count_cons]
            have := (classify1_ne_paren (x :: r)).2
            simp [this, lex1_count_rp r true]

/-- the balance counter of pass 1 -/
theorem run1_j (fx : Fix) : ∀ (l : List T1) (s s' : S1), run1 fx l s = .ok s' →
    s'.j = s.j + (l.count .lp : Int) - (l.count .rp : Int)
  | [], s, s', h => by simp [run1] at h; subst h; simp
  | t :: r, s, s', h => by
    cases t with
    | lp => simp only [run1] at h; have := run1_j fx r _ _ h; simp at this ⊢; omega
    | rp =>
      simp only [run1] at h
      split at h
      · simp at h
      · have := run1_j fx r _ _ h; simp at this ⊢; omega
    | sp => simp only [run1] at h; have := run1_j fx r _ _ h; simp at this ⊢; omega
    | uend => simp [run1] at h
    | feat => simp only [run1] at h; have := run1_j fx r _ _ h; simp at this ⊢; omega
    | not =>
      simp only [run1] at h
      split at h <;> (have := run1_j fx r _ _ h; simp at this ⊢; omega)
    | bin =>
      simp only [run1] at h
      split at h
      · simp at h
      · have := run1_j fx r _ _ h; simp at this ⊢; omega

theorem run1_err (fx : Fix) : ∀ (l : List T1) (s : S1) (e : Err), run1 fx l s = .error e →
    e = .unexpEnd ∨ e = .missingBefore ∨ e = .parens
  | [], _, _, h => by simp [run1] at h
  | t :: r, s, e, h => by
    cases t with
    | lp => exact run1_err fx r _ e (by simpa [run1] using h)
    | rp =>
      simp only [run1] at h
      split at h
      · simp at h; exact Or.inr (Or.inr h.symm)
      · exact run1_err fx r _ e h
    | sp => exact run1_err fx r _ e (by simpa [run1] using h)
    | uend => simp [run1] at h; exact Or.inl h.symm
    | feat => exact run1_err fx r _ e (by simpa [run1] using h)
    | not =>
      simp only [run1] at h
      split at h <;> exact run1_err fx r _ e h
    | bin =>
      simp only [run1] at h
      split at h
      · simp at h; exact Or.inr (Or.inl h.symm)
      · exact run1_err fx r _ e h

theorem compile_unbalanced (fx : Fix) (lookup : Bytes → Option Nat) (ver11 : Bool) (c : Bytes)
    (h : c.count chLP ≠ c.count chRP) :
    ∃ er, compile fx lookup ver11 c = .error er ∧ (er = .unexpEnd ∨ er = .missingBefore ∨ er = .parens) := by
  unfold compile compileToks
  cases h1 : run1 fx (lex1 false c) {} with
  | error e => exact ⟨e, rfl, run1_err fx _ _ _ h1⟩
  | ok s1 =>
    have hj := run1_j fx _ _ _ h1
    rw [lex1_count_lp, lex1_count_rp] at hj
    have : s1.j ≠ 0 := by
      intro h0
      rw [h0] at hj
      simp at hj
      omega
    exact ⟨.parens, by simp [this], Or.inr (Or.inr rfl)⟩

mutual
theorem Factor.render_head_ne_rp : ∀ f : Factor, ∃ d tl, f.render = d :: tl ∧ d ≠ chRP
  | .ident n => by
    cases h : n.s with
    | nil => exact absurd h n.ne
    | cons d tl => exact ⟨d, tl, by simp [Factor.render, h], ((isWordCh_iff d).mp (n.clean d (by simp [h]))).2.2⟩
  | .not s f => ⟨0x6e, [0x6f, 0x74] ++ s.s ++ f.render, by simp [Factor.render, kwNot], by decide⟩
  | .paren o1 e o2 => ⟨chLP, _, rfl, by decide⟩
theorem Term.render_head_ne_rp : ∀ t : Term, ∃ d tl, t.render = d :: tl ∧ d ≠ chRP
  | .one f => by simpa [Term.render] using Factor.render_head_ne_rp f
  | .and f s1 s2 t => by
    obtain ⟨d, tl, h, hd⟩ := Factor.render_head_ne_rp f
    exact ⟨d, tl ++ s1.s ++ kwAnd ++ s2.s ++ t.render, by simp [Term.render, h], hd⟩
theorem Expr.render_head_ne_rp : ∀ e : Expr, ∃ d tl, e.render = d :: tl ∧ d ≠ chRP
  | .one t => by simpa [Expr.render] using Term.render_head_ne_rp t
  | .or t s1 s2 e => by
    obtain ⟨d, tl, h, hd⟩ := Term.render_head_ne_rp t
    exact ⟨d, tl ++ s1.s ++ kwOr ++ s2.s ++ e.render, by simp [Expr.render, h], hd⟩
end

end LyModel.Iff
