import LyModel.Iff.Model
/-!
Specification side of the if-feature theorems: the RFC 7950 §14 grammar

    if-feature-expr   = if-feature-term   [sep or-keyword  sep if-feature-expr]
    if-feature-term   = if-feature-factor [sep and-keyword sep if-feature-term]
    if-feature-factor = not-keyword sep if-feature-factor / "(" optsep if-feature-expr optsep ")" / identifier-ref-arg

as a (mutual) abstract syntax with the white space of every `sep` / `optsep` recorded, its rendering to bytes, its
boolean denotation, and the token / code views used by the proofs.

The syntax is a SUPERSET of the RFC's: `sep`/`optsep` may be any non-empty/any run of C `isspace` characters (the RFC
has SP, HTAB, LF, CRLF) and a feature reference may be any non-empty word without blanks and parentheses other than the
three keywords (the RFC has `[prefix ":"] identifier`), so the theorems cover every RFC expression whose names are not
literally `not`, `and`, `or`.
-/
namespace LyModel.Iff
open LyModel

structure Sep where
  s : Bytes
  ne : s ≠ []
  sp : ∀ c ∈ s, isSpace c = true

structure OptSep where
  s : Bytes
  sp : ∀ c ∈ s, isSpace c = true

/-- a byte that can occur in a feature reference -/
def isWordCh (c : UInt8) : Bool := !isSpace c && c != chLP && c != chRP

structure Ident where
  s : Bytes
  ne : s ≠ []
  clean : ∀ c ∈ s, isWordCh c = true
  nokw : s ≠ kwNot ∧ s ≠ kwAnd ∧ s ≠ kwOr

mutual
inductive Factor
  | ident (n : Ident)
  | not (s : Sep) (f : Factor)
  | paren (o1 : OptSep) (e : Expr) (o2 : OptSep)
inductive Term
  | one (f : Factor)
  | and (f : Factor) (s1 s2 : Sep) (t : Term)
inductive Expr
  | one (t : Term)
  | or (t : Term) (s1 s2 : Sep) (e : Expr)
end

/-! ### rendering (the byte string the grammar generates) -/
mutual
def Factor.render : Factor → Bytes
  | .ident n => n.s
  | .not s f => kwNot ++ s.s ++ f.render
  | .paren o1 e o2 => chLP :: (o1.s ++ e.render ++ o2.s ++ [chRP])
def Term.render : Term → Bytes
  | .one f => f.render
  | .and f s1 s2 t => f.render ++ s1.s ++ kwAnd ++ s2.s ++ t.render
def Expr.render : Expr → Bytes
  | .one t => t.render
  | .or t s1 s2 e => t.render ++ s1.s ++ kwOr ++ s2.s ++ e.render
end

/-! ### denotation: the boolean value under a truth assignment of the (resolved) features -/
mutual
def Factor.den (lookup : Bytes → Option Nat) (env : Nat → Bool) : Factor → Bool
  | .ident n => match lookup n.s with | some k => env k | none => false
  | .not _ f => !(f.den lookup env)
  | .paren _ e _ => e.den lookup env
def Term.den (lookup : Bytes → Option Nat) (env : Nat → Bool) : Term → Bool
  | .one f => f.den lookup env
  | .and f _ _ t => f.den lookup env && t.den lookup env
def Expr.den (lookup : Bytes → Option Nat) (env : Nat → Bool) : Expr → Bool
  | .one t => t.den lookup env
  | .or t _ _ e => t.den lookup env || e.den lookup env
end

-- every feature reference resolves (`lysp_feature_find` succeeds)
mutual
def Factor.Resolves (lookup : Bytes → Option Nat) : Factor → Prop
  | .ident n => (lookup n.s).isSome
  | .not _ f => f.Resolves lookup
  | .paren _ e _ => e.Resolves lookup
def Term.Resolves (lookup : Bytes → Option Nat) : Term → Prop
  | .one f => f.Resolves lookup
  | .and f _ _ t => f.Resolves lookup ∧ t.Resolves lookup
def Expr.Resolves (lookup : Bytes → Option Nat) : Expr → Prop
  | .one t => t.Resolves lookup
  | .or t _ _ e => t.Resolves lookup ∧ e.Resolves lookup
end

/-! ### token views: what the two lexers of the C function see -/
mutual
def Factor.toks1 : Factor → List T1
  | .ident _ => [.feat]
  | .not _ f => .not :: f.toks1
  | .paren _ e _ => .lp :: (e.toks1 ++ [.rp])
def Term.toks1 : Term → List T1
  | .one f => f.toks1
  | .and f _ _ t => f.toks1 ++ .bin :: t.toks1
def Expr.toks1 : Expr → List T1
  | .one t => t.toks1
  | .or t _ _ e => t.toks1 ++ .bin :: e.toks1
end

-- pass-2 tokens, in the order pass 2 meets them (right to left)
mutual
def Factor.toks2 : Factor → List T2
  | .ident n => [.feat n.s]
  | .not _ f => f.toks2 ++ [.not]
  | .paren _ e _ => .rp :: (e.toks2 ++ [.lp])
def Term.toks2 : Term → List T2
  | .one f => f.toks2
  | .and f _ _ t => t.toks2 ++ .and :: f.toks2
def Expr.toks2 : Expr → List T2
  | .one t => t.toks2
  | .or t _ _ e => e.toks2 ++ .or :: t.toks2
end

/-! ### what pass 2 leaves behind: operators still on the stack (`pend`, top first), records written (`body`), features -/
mutual
def Factor.pend : Factor → List UInt8
  | .ident _ => []
  | .not _ f => if f.pend = [cNOT] then [] else [cNOT]
  | .paren _ _ _ => []
def Term.pend : Term → List UInt8
  | .one f => f.pend
  | .and f _ _ _ => f.pend ++ [cAND]
def Expr.pend : Expr → List UInt8
  | .one t => t.pend
  | .or t _ _ _ => t.pend ++ [cOR]
end

mutual
def Factor.body : Factor → List UInt8
  | .ident _ => [cF]
  | .not _ f => f.body
  | .paren _ e _ => e.pend.reverse ++ e.body
def Term.body : Term → List UInt8
  | .one f => f.body
  | .and f _ _ t => f.body ++ (t.pend.reverse ++ t.body)
def Expr.body : Expr → List UInt8
  | .one t => t.body
  | .or t _ _ e => t.body ++ (e.pend.reverse ++ e.body)
end

mutual
def Factor.feats (lookup : Bytes → Option Nat) : Factor → List Nat
  | .ident n => [(lookup n.s).getD 0]
  | .not _ f => f.feats lookup
  | .paren _ e _ => e.feats lookup
def Term.feats (lookup : Bytes → Option Nat) : Term → List Nat
  | .one f => f.feats lookup
  | .and f _ _ t => f.feats lookup ++ t.feats lookup
def Expr.feats (lookup : Bytes → Option Nat) : Expr → List Nat
  | .one t => t.feats lookup
  | .or t _ _ e => t.feats lookup ++ e.feats lookup
end

/-- the complete prefix code of an expression: pending operators flushed in front of the records written -/
def Expr.code (e : Expr) : List UInt8 := e.pend.reverse ++ e.body
def Term.code (t : Term) : List UInt8 := t.pend.reverse ++ t.body
def Factor.code (f : Factor) : List UInt8 := f.pend.reverse ++ f.body

/-! ### the F13 shape: a `not` whose operand is a parenthesis whose first non-`(` token is again `not` -/
mutual
def Factor.leftNot : Factor → Bool
  | .ident _ => false
  | .not _ _ => true
  | .paren _ e _ => e.leftNot
def Term.leftNot : Term → Bool
  | .one f => f.leftNot
  | .and f _ _ _ => f.leftNot
def Expr.leftNot : Expr → Bool
  | .one t => t.leftNot
  | .or t _ _ _ => t.leftNot
end

/-- `f` is `( … )` and the first token after its opening parentheses is `not` -/
def Factor.parenNot : Factor → Bool
  | .paren _ e _ => e.leftNot
  | _ => false

-- no `not` is applied to a parenthesis that starts (after `(`s) with `not`: excludes exactly `not (not …`, `not ((not …` …
mutual
def Factor.NoNotParenNot : Factor → Prop
  | .ident _ => True
  | .not _ f => f.NoNotParenNot ∧ f.parenNot = false
  | .paren _ e _ => e.NoNotParenNot
def Term.NoNotParenNot : Term → Prop
  | .one f => f.NoNotParenNot
  | .and f _ _ t => f.NoNotParenNot ∧ t.NoNotParenNot
def Expr.NoNotParenNot : Expr → Prop
  | .one t => t.NoNotParenNot
  | .or t _ _ e => t.NoNotParenNot ∧ e.NoNotParenNot
end

end LyModel.Iff
