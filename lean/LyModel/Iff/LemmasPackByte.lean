import LyModel.Iff.Model
/-!
`iff_setop` / `lysc_iff_getop`: the 2-bit packing round trip, first on one byte (exhaustively, by kernel evaluation
over all 256 bytes × 4 values × 4 slots), then on the byte array, then for the whole sequence of writes of pass 2.
-/
namespace LyModel.Iff
open LyModel

set_option maxRecDepth 100000 in
theorem getRec_setRec_same_fin : ∀ (b : Fin 256) (op : Fin 4) (k : Fin 4),
    getRec (setRec (UInt8.ofNat b) (UInt8.ofNat op) k) k = UInt8.ofNat op := by decide

set_option maxRecDepth 100000 in
theorem getRec_setRec_other_fin : ∀ (b : Fin 256) (op : Fin 4) (k k' : Fin 4), k ≠ k' →
    getRec (setRec (UInt8.ofNat b) (UInt8.ofNat op) k) k' = getRec (UInt8.ofNat b) k' := by decide

theorem getRec_zero_fin : ∀ (k : Fin 4), getRec 0 k = 0 := by decide

theorem le3_toNat {op : UInt8} (h : op ≤ 3) : op.toNat < 4 := by
  have : op.toNat ≤ 3 := h
  omega

theorem getRec_setRec_same (b op : UInt8) (k : Nat) (hk : k < 4) (hop : op ≤ 3) :
    getRec (setRec b op k) k = op := by
  have := getRec_setRec_same_fin ⟨b.toNat, b.toNat_lt⟩ ⟨op.toNat, le3_toNat hop⟩ ⟨k, hk⟩
  simpa using this

theorem getRec_setRec_other (b op : UInt8) (k k' : Nat) (hk : k < 4) (hk' : k' < 4) (hne : k ≠ k') (hop : op ≤ 3) :
    getRec (setRec b op k) k' = getRec b k' := by
  have := getRec_setRec_other_fin ⟨b.toNat, b.toNat_lt⟩ ⟨op.toNat, le3_toNat hop⟩ ⟨k, hk⟩ ⟨k', hk'⟩
    (by intro h; exact hne (by simpa using congrArg Fin.val h))
  simpa using this

end LyModel.Iff
