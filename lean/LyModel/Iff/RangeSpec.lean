import LyModel.Iff.Range
import LyModel.Iff.Spec
/-!
Specification side of the range / length theorems: RFC 7950 §14

    range-arg      = range-part *(optsep "|" optsep range-part)
    range-part     = range-boundary [optsep ".." optsep range-boundary]
    range-boundary = min-keyword / max-keyword / integer-value          (decimal-value: not covered here)

as an abstract syntax with the white space of every `optsep` recorded (`length-arg` is the same grammar), its rendering
and its meaning per §9.2.4: every number lies within the restricted type, `min`/`max` are the bounds of the base
restriction (or of the built-in type), and the parts are ascending and disjoint.  Numbers are a sign and a non-empty
digit string (a superset of `integer-value`, which forbids leading zeros).
-/
namespace LyModel.Range
open LyModel
open LyModel.Iff (isSpace OptSep)

structure Num where
  neg : Bool
  ds : Bytes
  ne : ds ≠ []
  dig : ∀ c ∈ ds, isDigit c = true

def Num.render (n : Num) : Bytes := (if n.neg then [chMinus] else []) ++ n.ds
def Num.val (n : Num) : Int := if n.neg then -(digitsVal n.ds : Int) else (digitsVal n.ds : Int)

inductive Bnd
  | min
  | max
  | num (n : Num)

def Bnd.render : Bnd → Bytes
  | .min => kwMin
  | .max => kwMax
  | .num n => n.render

structure PartA where
  lo : Bnd
  hi : Option (OptSep × OptSep × Bnd)          -- optsep ".." optsep range-boundary

def PartA.render (p : PartA) : Bytes :=
  p.lo.render ++ (match p.hi with
    | none => []
    | some (o1, o2, b) => o1.s ++ kwDots ++ o2.s ++ b.render)

structure RangeA where
  first : PartA
  rest : List (OptSep × OptSep × PartA)        -- optsep "|" optsep range-part

def renderRest : List (OptSep × OptSep × PartA) → Bytes
  | [] => []
  | (o1, o2, p) :: r => o1.s ++ [chBar] ++ o2.s ++ p.render ++ renderRest r

def RangeA.render (a : RangeA) : Bytes := a.first.render ++ renderRest a.rest

/-- lower / upper bound of the type being restricted: of the base restriction if there is one, else of the built-in type -/
def lowOf (t : RType) (base : Option (List Part)) : Int :=
  match base with
  | some b => (b.head?.map (·.min)).getD 0
  | none => t.lo

def highOf (t : RType) (base : Option (List Part)) : Int :=
  match base with
  | some b => (b.getLast?.map (·.max)).getD 0
  | none => t.hi

/-- value of a boundary; a number must be a value of the built-in type -/
def Bnd.value (t : RType) (base : Option (List Part)) : Bnd → Option Int
  | .min => some (lowOf t base)
  | .max => some (highOf t base)
  | .num n => if t.lo ≤ n.val ∧ n.val ≤ t.hi then some n.val else none

def PartA.value (t : RType) (base : Option (List Part)) (p : PartA) : Option Part :=
  match p.lo.value t base, p.hi with
  | some l, none => some ⟨l, l⟩
  | some l, some (_, _, b) => (b.value t base).map fun h => ⟨l, h⟩
  | none, _ => none

def valuesRest (t : RType) (base : Option (List Part)) : List (OptSep × OptSep × PartA) → Option (List Part)
  | [] => some []
  | (_, _, p) :: r =>
    match p.value t base, valuesRest t base r with
    | some v, some vs => some (v :: vs)
    | _, _ => none

/-- ascending and disjoint (RFC 7950 §9.2.4) -/
def StrictAsc : List Part → Prop
  | [] => True
  | [p] => p.min ≤ p.max
  | p :: q :: r => p.min ≤ p.max ∧ p.max < q.min ∧ StrictAsc (q :: r)

/-- the parts a grammatical argument denotes, if every boundary is a value of the type -/
def RangeA.values (t : RType) (base : Option (List Part)) (a : RangeA) : Option (List Part) :=
  match a.first.value t base, valuesRest t base a.rest with
  | some v, some vs => some (v :: vs)
  | _, _ => none

/-- `min` only as the very first boundary, `max` only as the very last one — the only places where
`lys_compile_type_range` accepts the keywords (finding F76 for the other, equally valid, placements) -/
def PartA.KwOK (p : PartA) (isFirst isLast : Bool) : Prop :=
  (p.lo matches .min → isFirst = true) ∧
  (p.lo matches .max → isLast = true ∧ p.hi = none) ∧
  (∀ o1 o2 b, p.hi = some (o1, o2, b) → ¬ (b matches .min) ∧ (b matches .max → isLast = true))

def RestKwOK : List (OptSep × OptSep × PartA) → Prop
  | [] => True
  | [(_, _, p)] => p.KwOK false true
  | (_, _, p) :: q :: r => p.KwOK false false ∧ RestKwOK (q :: r)

def RangeA.KwOK (a : RangeA) : Prop := a.first.KwOK true a.rest.isEmpty ∧ RestKwOK a.rest

/-- the limits of the built-in type are what `strtoll` / `strtoull` can represent -/
def RType.WF (t : RType) : Prop :=
  t.dec = false ∧
  (if t.uns then t.lo = 0 ∧ t.hi ≤ 18446744073709551615
   else -9223372036854775808 ≤ t.lo ∧ t.hi ≤ 9223372036854775807)

end LyModel.Range
