import LyModel.Iff.LemmasTok
/-!
The records pass 2 writes form the prefix code of a tree whose value is the denotation of the expression, and the
evaluator `lysc_iffeature_value_` (`evalAux`) computes the value of a tree from its prefix code.
-/
namespace LyModel.Iff
open LyModel

theorem getD_append_l {α} (a b : List α) (k : Nat) (d : α) (hk : k < a.length) : (a ++ b).getD k d = a.getD k d := by
  simp [List.getD_eq_getElem?_getD, List.getElem?_append_left hk]

theorem getD_append_r {α} (a b : List α) (k : Nat) (d : α) : (a ++ b).getD (a.length + k) d = b.getD k d := by
  simp [List.getD_eq_getElem?_getD, List.getElem?_append_right]

/-- abstract prefix-code trees -/
inductive PT
  | f (id : Nat)
  | not (p : PT)
  | and (a b : PT)
  | or (a b : PT)

namespace PT
def code : PT → List UInt8
  | .f _ => [cF]
  | .not p => cNOT :: p.code
  | .and a b => cAND :: (a.code ++ b.code)
  | .or a b => cOR :: (a.code ++ b.code)

def feats : PT → List Nat
  | .f k => [k]
  | .not p => p.feats
  | .and a b => a.feats ++ b.feats
  | .or a b => a.feats ++ b.feats

def val (env : Nat → Bool) : PT → Bool
  | .f k => env k
  | .not p => !(p.val env)
  | .and a b => a.val env && b.val env
  | .or a b => a.val env || b.val env

theorem code_pos : ∀ p : PT, 0 < p.code.length
  | .f _ => by simp [code]
  | .not _ => by simp [code]
  | .and _ _ => by simp [code]
  | .or _ _ => by simp [code]
end PT

/-- `evalAux` on a reader that shows the prefix code of `p` at offset `ie` and its features at offset `fi` -/
theorem evalAux_PT (rd : Nat → UInt8) (fv : Nat → Bool) (env : Nat → Bool) :
    ∀ (p : PT) (fuel ie fi : Nat),
      (∀ k, k < p.code.length → rd (ie + k) = p.code.getD k 0) →
      (∀ k, k < p.feats.length → fv (fi + k) = env (p.feats.getD k 0)) →
      p.code.length ≤ fuel →
      evalAux rd fv fuel ie fi = (p.val env, ie + p.code.length, fi + p.feats.length) := by
  intro p
  induction p with
  | f id =>
    intro fuel ie fi hrd hfv hfuel
    cases fuel with
    | zero => simp [PT.code] at hfuel
    | succ n =>
      have h0 := hrd 0 (by simp [PT.code])
      have hf0 := hfv 0 (by simp [PT.feats])
      simp [PT.code] at h0
      simp [PT.feats] at hf0
      simp [evalAux, h0, hf0, PT.val, PT.code, PT.feats]
  | not p ih =>
    intro fuel ie fi hrd hfv hfuel
    cases fuel with
    | zero => simp [PT.code] at hfuel
    | succ n =>
      have h0 := hrd 0 (by simp [PT.code])
      simp [PT.code] at h0
      have hne : (cNOT == cF) = false := by decide
      have ih' := ih n (ie + 1) fi
        (by
          intro k hk
          have := hrd (k + 1) (by simp [PT.code]; omega)
          simpa [PT.code, Nat.add_assoc, Nat.add_comm 1 k] using this)
        (by simpa [PT.feats] using hfv)
        (by simp [PT.code] at hfuel; omega)
      simp [evalAux, h0, hne, ih', PT.val, PT.code, PT.feats]
      omega
  | and a b iha ihb =>
    intro fuel ie fi hrd hfv hfuel
    cases fuel with
    | zero => simp [PT.code] at hfuel
    | succ n =>
      have h0 := hrd 0 (by simp [PT.code])
      simp [PT.code] at h0
      have hne1 : (cAND == cF) = false := by decide
      have hne2 : (cAND == cNOT) = false := by decide
      simp only [PT.code, List.length_cons, List.length_append] at hfuel
      have iha' := iha n (ie + 1) fi
        (by
          intro k hk
          have := hrd (k + 1) (by simp [PT.code]; omega)
          simp only [PT.code, List.getD_cons_succ] at this
          rw [getD_append_l _ _ _ _ hk] at this
          simpa [Nat.add_assoc, Nat.add_comm 1 k] using this)
        (by
          intro k hk
          have := hfv k (by simp [PT.feats]; omega)
          simp only [PT.feats] at this
          rw [getD_append_l _ _ _ _ hk] at this
          exact this)
        (by omega)
      have ihb' := ihb n (ie + 1 + a.code.length) (fi + a.feats.length)
        (by
          intro k hk
          have := hrd (1 + a.code.length + k) (by simp [PT.code]; omega)
          simp only [PT.code] at this
          rw [show 1 + a.code.length + k = (a.code.length + k) + 1 by omega, List.getD_cons_succ,
            getD_append_r] at this
          simpa [Nat.add_assoc, Nat.add_comm, Nat.add_left_comm] using this)
        (by
          intro k hk
          have := hfv (a.feats.length + k) (by simp [PT.feats]; omega)
          simp only [PT.feats] at this
          rw [getD_append_r] at this
          simpa [Nat.add_assoc] using this)
        (by omega)
      simp [evalAux, h0, hne1, hne2, iha', ihb', PT.val, PT.code, PT.feats]
      omega
  | or a b iha ihb =>
    intro fuel ie fi hrd hfv hfuel
    cases fuel with
    | zero => simp [PT.code] at hfuel
    | succ n =>
      have h0 := hrd 0 (by simp [PT.code])
      simp [PT.code] at h0
      have hne1 : (cOR == cF) = false := by decide
      have hne2 : (cOR == cNOT) = false := by decide
      have hne3 : (cOR == cAND) = false := by decide
      simp only [PT.code, List.length_cons, List.length_append] at hfuel
      have iha' := iha n (ie + 1) fi
        (by
          intro k hk
          have := hrd (k + 1) (by simp [PT.code]; omega)
          simp only [PT.code, List.getD_cons_succ] at this
          rw [getD_append_l _ _ _ _ hk] at this
          simpa [Nat.add_assoc, Nat.add_comm 1 k] using this)
        (by
          intro k hk
          have := hfv k (by simp [PT.feats]; omega)
          simp only [PT.feats] at this
          rw [getD_append_l _ _ _ _ hk] at this
          exact this)
        (by omega)
      have ihb' := ihb n (ie + 1 + a.code.length) (fi + a.feats.length)
        (by
          intro k hk
          have := hrd (1 + a.code.length + k) (by simp [PT.code]; omega)
          simp only [PT.code] at this
          rw [show 1 + a.code.length + k = (a.code.length + k) + 1 by omega, List.getD_cons_succ,
            getD_append_r] at this
          simpa [Nat.add_assoc, Nat.add_comm, Nat.add_left_comm] using this)
        (by
          intro k hk
          have := hfv (a.feats.length + k) (by simp [PT.feats]; omega)
          simp only [PT.feats] at this
          rw [getD_append_r] at this
          simpa [Nat.add_assoc] using this)
        (by omega)
      simp [evalAux, h0, hne1, hne2, hne3, iha', ihb', PT.val, PT.code, PT.feats]
      omega

/-! ### the tree an expression compiles to (double negations already cancelled) -/
mutual
def Factor.core (lookup : Bytes → Option Nat) : Factor → PT
  | .ident n => .f ((lookup n.s).getD 0)
  | .not _ f => f.core lookup
  | .paren _ e _ => e.tree lookup
def Term.tree (lookup : Bytes → Option Nat) : Term → PT
  | .one f => if f.pend = [cNOT] then .not (f.core lookup) else f.core lookup
  | .and f _ _ t => .and (if f.pend = [cNOT] then .not (f.core lookup) else f.core lookup) (t.tree lookup)
def Expr.tree (lookup : Bytes → Option Nat) : Expr → PT
  | .one t => t.tree lookup
  | .or t _ _ e => .or (t.tree lookup) (e.tree lookup)
end

def Factor.tree (lookup : Bytes → Option Nat) (f : Factor) : PT :=
  if f.pend = [cNOT] then .not (f.core lookup) else f.core lookup

theorem Term.pend_and (f : Factor) (s1 s2 : Sep) (t : Term) : (Term.and f s1 s2 t).pend = f.pend ++ [cAND] := rfl
theorem Term.body_and (f : Factor) (s1 s2 : Sep) (t : Term) :
    (Term.and f s1 s2 t).body = f.body ++ (t.pend.reverse ++ t.body) := rfl
theorem Expr.pend_or (t : Term) (s1 s2 : Sep) (e : Expr) : (Expr.or t s1 s2 e).pend = t.pend ++ [cOR] := rfl
theorem Expr.body_or (t : Term) (s1 s2 : Sep) (e : Expr) :
    (Expr.or t s1 s2 e).body = t.body ++ (e.pend.reverse ++ e.body) := rfl

theorem Factor.code_of_core (lookup : Bytes → Option Nat) (f : Factor) (hb : f.body = (f.core lookup).code) :
    f.code = (f.tree lookup).code := by
  unfold Factor.code Factor.tree
  rcases f.pend_cases with h | h <;> simp [h, hb, PT.code]

mutual
theorem Factor.body_core (lookup : Bytes → Option Nat) : ∀ f : Factor,
    f.body = (f.core lookup).code ∧ f.feats lookup = (f.core lookup).feats
  | .ident n => by simp [Factor.body, Factor.core, Factor.feats, PT.code, PT.feats]
  | .not _ f => by simpa [Factor.body, Factor.core, Factor.feats] using Factor.body_core lookup f
  | .paren _ e _ => by
    have := Expr.code_tree lookup e
    simpa [Factor.body, Factor.core, Factor.feats, Expr.code] using this
theorem Term.code_tree (lookup : Bytes → Option Nat) : ∀ t : Term,
    t.code = (t.tree lookup).code ∧ t.feats lookup = (t.tree lookup).feats
  | .one f => by
    have h := Factor.body_core lookup f
    have hc := Factor.code_of_core lookup f h.1
    refine ⟨by simpa [Term.code, Term.pend, Term.body, Term.tree, Factor.code, Factor.tree] using hc, ?_⟩
    simp only [Term.feats, Term.tree]
    split <;> simp [h.2, PT.feats]
  | .and f _ _ t => by
    have h := Factor.body_core lookup f
    have hc := Factor.code_of_core lookup f h.1
    have ht := Term.code_tree lookup t
    constructor
    · have hc' : f.pend.reverse ++ f.body = (Factor.tree lookup f).code := hc
      have ht' : t.pend.reverse ++ t.body = (t.tree lookup).code := ht.1
      rw [Term.code, Term.pend_and, Term.body_and, ht', Term.tree, PT.code, ← ht', List.reverse_append]
      simp only [List.reverse_cons, List.reverse_nil, List.nil_append, List.singleton_append, List.cons_append]
      rw [← List.append_assoc f.pend.reverse, hc']
      rfl
    · simp only [Term.feats, Term.tree, PT.feats, ht.2]
      split <;> simp [h.2, PT.feats]
theorem Expr.code_tree (lookup : Bytes → Option Nat) : ∀ e : Expr,
    e.code = (e.tree lookup).code ∧ e.feats lookup = (e.tree lookup).feats
  | .one t => by simpa [Expr.code, Expr.pend, Expr.body, Expr.tree, Expr.feats, Term.code] using Term.code_tree lookup t
  | .or t _ _ e => by
    have ht := Term.code_tree lookup t
    have he := Expr.code_tree lookup e
    constructor
    · have ht' : t.pend.reverse ++ t.body = (t.tree lookup).code := ht.1
      have he' : e.pend.reverse ++ e.body = (e.tree lookup).code := he.1
      rw [Expr.code, Expr.pend_or, Expr.body_or, he', Expr.tree, PT.code, List.reverse_append]
      simp only [List.reverse_cons, List.reverse_nil, List.nil_append, List.singleton_append, List.cons_append]
      rw [← List.append_assoc t.pend.reverse, ht']
    · simp [Expr.feats, Expr.tree, PT.feats, ht.2, he.2]
end

-- value of the compiled tree = denotation (the cancelled double negations do not change the value)
mutual
theorem Factor.core_val (lookup : Bytes → Option Nat) (env : Nat → Bool) : ∀ f : Factor, f.Resolves lookup →
    f.den lookup env = (if f.pend = [cNOT] then !((f.core lookup).val env) else (f.core lookup).val env)
  | .ident n, h => by
    simp only [Factor.Resolves] at h
    obtain ⟨k, hk⟩ := Option.isSome_iff_exists.mp h
    simp [Factor.den, Factor.pend, Factor.core, PT.val, hk]
  | .not _ f, h => by
    simp only [Factor.Resolves] at h
    have ih := Factor.core_val lookup env f h
    simp only [Factor.den, Factor.pend, Factor.core, ih]
    rcases f.pend_cases with hp | hp <;> simp [hp]
    all_goals decide
  | .paren _ e _, h => by
    simp only [Factor.Resolves] at h
    simpa [Factor.den, Factor.pend, Factor.core] using Expr.tree_val lookup env e h
theorem Term.tree_val (lookup : Bytes → Option Nat) (env : Nat → Bool) : ∀ t : Term, t.Resolves lookup →
    t.den lookup env = (t.tree lookup).val env
  | .one f, h => by
    simp only [Term.Resolves] at h
    simp only [Term.den, Term.tree, Factor.core_val lookup env f h]
    split <;> simp [PT.val]
  | .and f _ _ t, h => by
    simp only [Term.Resolves] at h
    simp only [Term.den, Term.tree, PT.val, Factor.core_val lookup env f h.1, Term.tree_val lookup env t h.2]
    split <;> simp [PT.val]
theorem Expr.tree_val (lookup : Bytes → Option Nat) (env : Nat → Bool) : ∀ e : Expr, e.Resolves lookup →
    e.den lookup env = (e.tree lookup).val env
  | .one t, h => by
    simp only [Expr.Resolves] at h
    simpa [Expr.den, Expr.tree] using Term.tree_val lookup env t h
  | .or t _ _ e, h => by
    simp only [Expr.Resolves] at h
    simp [Expr.den, Expr.tree, PT.val, Term.tree_val lookup env t h.1, Expr.tree_val lookup env e h.2]
end

end LyModel.Iff
