import LyModel.Iff.LemmasRange
/-!
Loop invariant of the part parser of `lys_compile_type_range` once `|` requires a started part (fixes/F30.diff) and a new
part requires the previous one to be closed (fixes/F75.diff): `parts_done ≤ COUNT(parts) ≤ parts_done + 1`, and the
parts collected so far are ascending and disjoint.  It holds for EVERY argument (no grammar needed); without the two
repairs it breaks exactly at the `|` branch (F30) and at the branch that opens a new part (F75).
-/
namespace LyModel.Range
open LyModel

/-- ascending, for the reversed list the parser keeps (last part first) -/
def AscR : List Part → Prop
  | [] => True
  | [p] => p.min ≤ p.max
  | p :: q :: r => p.min ≤ p.max ∧ q.max ≤ p.min ∧ AscR (q :: r)

theorem AscR.tail {p : Part} {r : List Part} (h : AscR (p :: r)) : AscR r := by
  cases r with
  | nil => trivial
  | cons q r => exact h.2.2

theorem AscR.head_le {p : Part} {r : List Part} (h : AscR (p :: r)) : p.min ≤ p.max := by
  cases r with
  | nil => exact h
  | cons q r => exact h.1

/-- appending a part that starts above everything so far keeps an ascending list ascending -/
theorem Ascending_snoc : ∀ (l : List Part) (p : Part), Ascending l → p.min ≤ p.max →
    (∀ q, l.getLast? = some q → q.max ≤ p.min) → Ascending (l ++ [p])
  | [], p, _, hp, _ => hp
  | [a], p, ha, hp, hl => ⟨ha, hl a rfl, hp⟩
  | a :: b :: r, p, h, hp, hl => by
    have := Ascending_snoc (b :: r) p h.2.2 hp (by simpa using hl)
    exact ⟨h.1, h.2.1, this⟩

theorem AscR_reverse : ∀ (l : List Part), AscR l → Ascending l.reverse
  | [], _ => trivial
  | [p], h => h
  | p :: q :: r, h => by
    have ih := AscR_reverse (q :: r) h.2.2
    rw [List.reverse_cons]
    refine Ascending_snoc _ p ih h.1 ?_
    intro x hx
    have : (q :: r).reverse.getLast? = some q := by simp
    rw [this] at hx
    cases hx
    exact h.2.1

structure Inv (s : PS) : Prop where
  le : s.done ≤ s.rparts.length
  ge : s.rparts.length ≤ s.done + 1
  rexp : s.rexp = true → s.rparts.length = s.done + 1
  asc : AscR s.rparts

theorem Inv_init : Inv {} := ⟨Nat.le_refl _, by simp, by simp, trivial⟩

theorem ite_err_ok {ε α : Type} {c : Prop} [Decidable c] {e : ε} {X Y : α}
    (h : (if c then (Except.error e : Except ε α) else Except.ok X) = Except.ok Y) : ¬ c ∧ X = Y := by
  by_cases hc : c
  · simp [hc] at h
  · simp [hc] at h; exact ⟨hc, h⟩

/-- what `range_part_minmax` guarantees about the bound it stored -/
theorem minmax_asc (t : RType) (max : Bool) (prev : Int) (base : Option (List Part)) (value : Option Bytes)
    (x : Int) (len : Nat) (h : minmax t max prev false base value = .ok (x, len)) :
    if max then prev ≤ x else prev < x := by
  have key : ∀ y : Int, ¬ ((!false && !ascending max y prev) = true) → if max then prev ≤ y else prev < y := by
    intro y hy
    cases max <;> simp [ascending] at hy ⊢ <;> omega
  unfold minmax at h
  cases value with
  | some v =>
    simp only [] at h
    split at h
    · simp at h
    · rename_i len' copy _
      split at h
      · simp at h
      · rename_i y _
        have := ite_err_ok h
        simp only [Prod.mk.injEq] at this
        rw [← this.2.1]
        exact key y this.1
  | none =>
    have := ite_err_ok h
    simp only [Prod.mk.injEq] at this
    rw [← this.2.1]
    exact key _ this.1

theorem AscR_setmax {p : Part} {ps : List Part} (h : AscR (p :: ps)) (x : Int) (hx : p.min ≤ x) :
    AscR ({ p with max := x } :: ps) := by
  cases ps with
  | nil => exact hx
  | cons q r => exact ⟨hx, h.2.1, h.2.2⟩

theorem AscR_push {ps : List Part} (h : AscR ps) (x : Int) (hx : ∀ q, ps.head? = some q → q.max ≤ x) :
    AscR (⟨x, x⟩ :: ps) := by
  cases ps with
  | nil => exact Int.le_refl _
  | cons q r => exact ⟨Int.le_refl _, hx q rfl, h⟩

/-- the invariant is preserved by every iteration that goes on -/
theorem step_next (fx : RFix) (h30 : fx.f30 = true) (h51 : fx.f51 = true) (t : RType) (base : Option (List Part))
    (e e' : Bytes) (s s' : PS) (hi : Inv s) (h : step fx t base e s = .next e' s') : Inv s' := by
  unfold step at h
  cases e with
  | nil =>
    simp only [] at h
    split at h
    · simp at h
    · split at h <;> simp at h
  | cons c rest =>
    simp only [h30, h51, Bool.true_and] at h
    split at h
    · -- blank
      simp only [StepR.next.injEq] at h; rw [← h.2]; exact hi
    · split at h
      · -- min
        split at h
        · simp at h
        · rename_i hemp
          split at h
          · simp at h
          · rename_i x _ _
            simp only [StepR.next.injEq] at h
            rw [← h.2]
            have hnil : s.rparts = [] := by
              cases hr : s.rparts with
              | nil => rfl
              | cons a b => simp [hr] at hemp
            have hd : s.done = 0 := by have := hi.le; rw [hnil] at this; simpa using this
            have hre : s.rexp = false := by
              cases hb : s.rexp with
              | false => rfl
              | true => have := hi.rexp hb; rw [hnil] at this; simp at this
            exact ⟨by simp [hd], by simp [hd], by simp [hre], Int.le_refl _⟩
      · split at h
        · -- bar
          split at h
          · simp at h
          · rename_i hc
            simp only [StepR.next.injEq] at h
            rw [← h.2]
            simp only [Bool.or_eq_true, not_or, Bool.not_eq_true, beq_eq_false_iff_ne, ne_eq, List.isEmpty_iff] at hc
            have hle := hi.le; have hge := hi.ge
            refine ⟨by simp; omega, by simp; omega, by simp [hc.1.2], hi.asc⟩
        · split at h
          · -- dots
            split at h
            · simp at h
            · rename_i hc
              simp only [StepR.next.injEq] at h
              rw [← h.2]
              simp only [Bool.or_eq_true, not_or, Bool.not_eq_true, beq_eq_false_iff_ne, ne_eq] at hc
              have hle := hi.le; have hge := hi.ge
              refine ⟨hle, hge, fun _ => by simp; omega, hi.asc⟩
          · split at h
            · -- number
              split at h
              · rename_i hre
                split at h
                · simp at h
                · rename_i p ps hps
                  split at h
                  · simp at h
                  · rename_i x len hmm
                    simp only [StepR.next.injEq] at h
                    rw [← h.2]
                    have hx := minmax_asc t true p.min none (some (c :: rest)) x len hmm
                    simp only [if_true] at hx
                    have hasc := hi.asc; rw [hps] at hasc
                    have hle := hi.le; have hge := hi.ge; rw [hps] at hle hge
                    exact ⟨by simpa using hle, by simpa using hge, by simp, AscR_setmax hasc x hx⟩
              · rename_i hre
                split at h
                · simp at h
                · rename_i hc
                  split at h
                  · simp at h
                  · rename_i x len hmm
                    simp only [StepR.next.injEq] at h
                    rw [← h.2]
                    have hre' : s.rexp = false := by simpa using hre
                    simp only [Bool.and_eq_true, Bool.not_eq_true', bne_iff_ne, ne_eq, not_and, Decidable.not_not,
                      List.isEmpty_eq_false_iff] at hc
                    have hle := hi.le; have hge := hi.ge
                    have hlen : s.rparts = [] ∨ s.done = s.rparts.length := by
                      by_cases hn : s.rparts = []
                      · exact Or.inl hn
                      · exact Or.inr (hc hn)
                    refine ⟨by simp; omega, ?_, by simp [hre'], ?_⟩
                    · rcases hlen with hn | hd
                      · simp [hn]
                      · simp; omega
                    · apply AscR_push hi.asc
                      intro q hq
                      have hne : s.rparts ≠ [] := by intro hn; simp [hn] at hq
                      have hd : s.done = s.rparts.length := hc hne
                      have hd0 : s.done ≠ 0 := by
                        intro h0; rw [h0] at hd; exact hne (List.eq_nil_of_length_eq_zero hd.symm)
                      have hfirst : (s.done == 0) = false := by simpa using hd0
                      rw [hfirst] at hmm
                      have hx := minmax_asc t false _ none (some (c :: rest)) x len hmm
                      have : q.max < x := by simpa [hd0, hq] using hx
                      omega
            · split at h
              · -- max
                split at h
                · simp at h
                · split at h
                  · rename_i hre
                    split at h
                    · simp at h
                    · rename_i p ps hps
                      split at h
                      · simp at h
                      · rename_i x len hmm
                        simp only [StepR.next.injEq] at h
                        rw [← h.2]
                        have hx := minmax_asc t true p.min base none x len hmm
                        simp only [if_true] at hx
                        have hasc := hi.asc; rw [hps] at hasc
                        have hle := hi.le; have hge := hi.ge; rw [hps] at hle hge
                        exact ⟨by simpa using hle, by simpa using hge, by simp, AscR_setmax hasc x hx⟩
                  · rename_i hre
                    split at h
                    · simp at h
                    · rename_i hc
                      split at h
                      · simp at h
                      · rename_i x len hmm
                        simp only [StepR.next.injEq] at h
                        rw [← h.2]
                        have hre' : s.rexp = false := by simpa using hre
                        simp only [Bool.and_eq_true, Bool.not_eq_true', bne_iff_ne, ne_eq, not_and, Decidable.not_not,
                          List.isEmpty_eq_false_iff] at hc
                        have hle := hi.le; have hge := hi.ge
                        have hlen : s.rparts = [] ∨ s.done = s.rparts.length := by
                          by_cases hn : s.rparts = []
                          · exact Or.inl hn
                          · exact Or.inr (hc hn)
                        refine ⟨by simp; omega, ?_, by simp [hre'], ?_⟩
                        · rcases hlen with hn | hd
                          · simp [hn]
                          · simp; omega
                        · apply AscR_push hi.asc
                          intro q hq
                          have hne : s.rparts ≠ [] := by intro hn; simp [hn] at hq
                          have hd : s.done = s.rparts.length := hc hne
                          have hd0 : s.done ≠ 0 := by
                            intro h0; rw [h0] at hd; exact hne (List.eq_nil_of_length_eq_zero hd.symm)
                          have hfirst : (s.done == 0) = false := by simpa using hd0
                          rw [hfirst] at hmm
                          have hx := minmax_asc t true _ base none x len hmm
                          -- a stand-alone `max` is compared non-strictly (F76): only q.max ≤ x is known
                          simpa [hd0, hq] using hx
              · simp at h

/-- at the final `break` the invariant gives `parts_done = COUNT(parts)` and ascending parts -/
theorem step_done (fx : RFix) (t : RType) (base : Option (List Part)) (e : Bytes) (s : PS) (parts : List Part)
    (d : Nat) (hi : Inv s) (h : step fx t base e s = .done (parts, d)) :
    d = parts.length ∧ Ascending parts ∧ parts ≠ [] := by
  unfold step at h
  cases e with
  | nil =>
    simp only [] at h
    split at h
    · simp at h
    · split at h
      · simp at h
      · rename_i hc
        simp only [StepR.done.injEq, Prod.mk.injEq] at h
        simp only [Bool.or_eq_true, not_or, Bool.not_eq_true, beq_eq_false_iff_ne, ne_eq] at hc
        have hle := hi.le; have hge := hi.ge
        rw [← h.1, ← h.2]
        refine ⟨by simp; omega, AscR_reverse _ hi.asc, ?_⟩
        intro hn
        have : s.rparts = [] := by simpa using hn
        simp [this] at hc
  | cons c rest =>
    -- no other branch ends the loop
    simp only [] at h
    repeat' split at h
    all_goals simp at h

/-- **the loop invariant**: with both repairs, for every argument, the part counter equals the number of parts and the
parts are ascending when the parser accepts -/
theorem loop_inv (fx : RFix) (h30 : fx.f30 = true) (h51 : fx.f51 = true) (t : RType) (base : Option (List Part)) :
    ∀ (fuel : Nat) (e : Bytes) (s : PS) (parts : List Part) (d : Nat), Inv s →
      loop fx t base fuel e s = .ok (parts, d) → d = parts.length ∧ Ascending parts ∧ parts ≠ [] := by
  intro fuel
  induction fuel with
  | zero => intro e s parts d _ h; simp [loop] at h
  | succ n ih =>
    intro e s parts d hi h
    simp only [loop] at h
    cases hs : step fx t base e s with
    | done r =>
      rw [hs] at h
      simp only [Except.ok.injEq] at h
      subst h
      exact step_done fx t base e s parts d hi hs
    | fail er => rw [hs] at h; simp at h
    | next e' s' =>
      rw [hs] at h
      exact ih e' s' parts d (step_next fx h30 h51 t base e e' s s' hi hs) h

/-! ### the part parser itself never reports an out-of-bounds access -/
theorem checkValueSyntax_err (t : RType) (v : Bytes) (e : RErr) (h : checkValueSyntax t v = .error e) : e ≠ .crashOob := by
  unfold checkValueSyntax at h
  simp only [] at h
  repeat' split at h
  all_goals first | (simp at h; done) | (simp only [Except.error.injEq] at h; subst h; decide)

theorem parseInt_err (s : Bytes) (lo hi : Int) (e : RErr) (h : parseInt s lo hi = .error e) : e ≠ .crashOob := by
  unfold parseInt at h
  simp only [] at h
  repeat' split at h
  all_goals first | (simp at h; done) | (simp only [Except.error.injEq] at h; subst h; decide)

theorem parseUint_err (s : Bytes) (hi : Int) (e : RErr) (h : parseUint s hi = .error e) : e ≠ .crashOob := by
  unfold parseUint at h
  simp only [] at h
  repeat' split at h
  all_goals first | (simp at h; done) | (simp only [Except.error.injEq] at h; subst h; decide)

theorem ite_err_err {ε α : Type} {c : Prop} [Decidable c] {e e' : ε} {X : α}
    (h : (if c then (Except.error e : Except ε α) else Except.ok X) = Except.error e') : e = e' := by
  by_cases hc : c
  · simpa [hc] using h
  · simp [hc] at h

theorem minmax_err (t : RType) (max : Bool) (prev : Int) (first : Bool) (base : Option (List Part)) (value : Option Bytes)
    (e : RErr) (h : minmax t max prev first base value = .error e) : e ≠ .crashOob := by
  unfold minmax at h
  cases value with
  | some v =>
    simp only [] at h
    split at h
    · rename_i er hcv
      simp only [Except.error.injEq] at h; subst h
      exact checkValueSyntax_err t v _ hcv
    · split at h
      · rename_i er hp
        simp only [Except.error.injEq] at h; subst h
        split at hp
        · exact parseUint_err _ _ _ hp
        · exact parseInt_err _ _ _ _ hp
      · have := ite_err_err h
        subst this; decide
  | none =>
    have := ite_err_err h
    subst this; decide

theorem step_fail (fx : RFix) (t : RType) (base : Option (List Part)) (e : Bytes) (s : PS) (er : RErr)
    (h : step fx t base e s = .fail er) : er ≠ .crashOob := by
  unfold step at h
  cases e with
  | nil =>
    simp only [] at h
    repeat' split at h
    all_goals first | (simp at h; done) | (simp only [StepR.fail.injEq] at h; subst h; decide)
  | cons c rest =>
    simp only [] at h
    repeat' split at h
    all_goals first
      | (simp at h; done)
      | (simp only [StepR.fail.injEq] at h; subst h; decide)
      | (simp only [StepR.fail.injEq] at h; subst h; exact minmax_err _ _ _ _ _ _ _ (by assumption))

theorem loop_err (fx : RFix) (t : RType) (base : Option (List Part)) : ∀ (fuel : Nat) (e : Bytes) (s : PS) (er : RErr),
    loop fx t base fuel e s = .error er → er ≠ .crashOob := by
  intro fuel
  induction fuel with
  | zero => intro e s er h; simp [loop] at h; subst h; decide
  | succ n ih =>
    intro e s er h
    simp only [loop] at h
    cases hs : step fx t base e s with
    | done r => rw [hs] at h; simp at h
    | fail er' =>
      rw [hs] at h
      simp only [Except.error.injEq] at h
      subst h
      exact step_fail fx t base e s _ hs
    | next e' s' => rw [hs] at h; exact ih e' s' er h

end LyModel.Range
