import LyModel.Iff.LemmasCompile
/-!
`lys_compile_iffeature` on a grammatical expression WITHOUT the `NoNotParenNot` shape hypothesis: pass 1 still gets
the parenthesis balance and the feature/operand counters exactly right and never OVER-counts the records
(`expr_size ≤` the length of the prefix code), pass 2 in an array that is too small can only fail by the out-of-bounds
write, and an array that pass 2 got through is exactly full.  Hence the compiler either returns the right code or does
the out-of-bounds write of F13 — no other error is possible on a valid expression.
-/
namespace LyModel.Iff
open LyModel

/-! ### pass 1 without the shape hypothesis: the record count is an under-approximation -/

theorem Factor.clen_true_le (f : Factor) : f.clen true ≤ f.clen false + 1 := by
  unfold Factor.clen
  rcases f.pend_cases with h | h <;> simp [h] <;> omega

theorem Term.clen_true_le : ∀ t : Term, t.clen true ≤ t.clen false + 1
  | .one f => by simpa [Term.clen] using Factor.clen_true_le f
  | .and f _ _ t => by
    have := Factor.clen_true_le f
    simp only [Term.clen]; omega

theorem Expr.clen_true_le : ∀ e : Expr, e.clen true ≤ e.clen false + 1
  | .one t => by simpa [Expr.clen] using Term.clen_true_le t
  | .or t _ _ e => by
    have := Term.clen_true_le t
    simp only [Expr.clen]; omega

theorem Factor.clen_not (s : Sep) (f : Factor) (ln : Bool) : (Factor.not s f).clen ln = f.clen (!ln) := by
  simp only [Factor.clen, Factor.pend, Factor.body]
  rcases f.pend_cases with hp | hp <;> cases ln <;> simp [hp, cNOT_eq]

theorem Factor.clen_paren (o1 o2 : OptSep) (e : Expr) (ln : Bool) :
    (Factor.paren o1 e o2).clen ln = e.clen false + (if ln then 1 else 0) := by
  have hb : (Factor.paren o1 e o2).body.length = e.clen false := by
    rw [Expr.clen_false]; rfl
  cases ln <;> simp [Factor.clen, Factor.pend, hb, cNOT_eq]

mutual
theorem run1_factor_le (fx : Fix) : ∀ (f : Factor) (rest : List T1) (σ : S1),
    σ.fExp = σ.fSize + 1 → 0 ≤ σ.j → (σ.lastNot = true → 1 ≤ σ.exprSize) →
    ∃ cl, cl ≤ f.clen σ.lastNot ∧
      run1 fx (f.toks1 ++ rest) σ = run1 fx rest (σ.after f.nfeat f.nbin cl f.hasParen)
  | .ident n, rest, σ, _, _, hln => by
    refine ⟨(Factor.ident n).clen σ.lastNot, Nat.le_refl _, ?_⟩
    simp only [Factor.toks1, List.singleton_append, run1, S1.after, Factor.nfeat, Factor.nbin, Factor.hasParen,
      Factor.clen, Factor.pend, Factor.body]
    congr 1
    cases hl : σ.lastNot with
    | false => simp [cNOT_eq]
    | true =>
      have := hln hl
      simp [cNOT_eq]; omega
  | .not sp f, rest, σ, hfe, hj, hln => by
    simp only [Factor.toks1, List.cons_append, run1]
    cases hl : σ.lastNot with
    | false =>
      simp only [Bool.false_eq_true, if_false]
      obtain ⟨cl, hcl, hrun⟩ := run1_factor_le fx f rest
        { σ with lastNot := true, exprSize := σ.exprSize + 1 } (by simpa using hfe) (by simpa using hj)
        (by intro _; simp)
      refine ⟨cl, by rw [Factor.clen_not]; simpa using hcl, ?_⟩
      rw [hrun]
      simp only [S1.after, Factor.nfeat, Factor.nbin, Factor.hasParen, hl]
      congr 1
    | true =>
      have h1 := hln hl
      simp only [if_true]
      obtain ⟨cl, hcl, hrun⟩ := run1_factor_le fx f rest
        { σ with exprSize := σ.exprSize - 1, lastNot := false } (by simpa using hfe) (by simpa using hj)
        (by intro h; simp at h)
      refine ⟨cl, by rw [Factor.clen_not]; simpa using hcl, ?_⟩
      rw [hrun]
      simp only [S1.after, Factor.nfeat, Factor.nbin, Factor.hasParen, hl]
      congr 1
  | .paren o1 e o2, rest, σ, hfe, hj, hln => by
    simp only [Factor.toks1, List.cons_append, List.append_assoc, List.nil_append, run1]
    obtain ⟨cl, hcl, hrun⟩ := run1_expr_le fx e (.rp :: rest)
      { σ with j := σ.j + 1, cv := true, lastNot := if fx.f13 then false else σ.lastNot }
      (by simpa using hfe) (by simp; omega)
      (by
        intro h
        cases hf : fx.f13 with
        | true => simp [hf] at h
        | false =>
          simp only [hf, Bool.false_eq_true, if_false] at h
          exact hln h)
    rw [hrun, run1_rp fx rest _ (by simp [S1.after]; omega)]
    have hjj : σ.j + 1 - 1 = σ.j := by omega
    have htl := Expr.clen_true_le e
    cases hf : fx.f13 with
    | true =>
      simp only [hf, if_true] at hcl
      refine ⟨(if σ.lastNot then 1 else 0) + cl, by rw [Factor.clen_paren]; omega, ?_⟩
      simp only [S1.after, Factor.nfeat, Factor.nbin, Factor.hasParen, if_true]
      congr 1
      cases hl : σ.lastNot with
      | false => simp [hjj]
      | true =>
        have := hln hl
        simp [hjj]; omega
    | false =>
      simp only [hf, Bool.false_eq_true, if_false] at hcl
      refine ⟨cl, ?_, ?_⟩
      · rw [Factor.clen_paren]
        cases hl : σ.lastNot with
        | false => simpa [hl] using hcl
        | true => rw [hl] at hcl; simp; omega
      · simp only [S1.after, Factor.nfeat, Factor.nbin, Factor.hasParen, Bool.false_eq_true, if_false]
        congr 1
        simp [hjj]
theorem run1_term_le (fx : Fix) : ∀ (t : Term) (rest : List T1) (σ : S1),
    σ.fExp = σ.fSize + 1 → 0 ≤ σ.j → (σ.lastNot = true → 1 ≤ σ.exprSize) →
    ∃ cl, cl ≤ t.clen σ.lastNot ∧
      run1 fx (t.toks1 ++ rest) σ = run1 fx rest (σ.after t.nfeat t.nbin cl t.hasParen)
  | .one f, rest, σ, hfe, hj, hln => by
    simpa [Term.toks1, Term.nfeat, Term.nbin, Term.clen, Term.hasParen] using
      run1_factor_le fx f rest σ hfe hj hln
  | .and f s1 s2 t, rest, σ, hfe, hj, hln => by
    simp only [Term.toks1, List.append_assoc, List.cons_append]
    obtain ⟨cl1, hcl1, hrun1⟩ := run1_factor_le fx f (.bin :: (t.toks1 ++ rest)) σ hfe hj hln
    rw [hrun1]
    have hfe' : (σ.after f.nfeat f.nbin cl1 f.hasParen).fExp = (σ.after f.nfeat f.nbin cl1 f.hasParen).fSize := by
      have := Factor.nfeat_eq f
      simp only [S1.after]; omega
    have hstep : ∀ σ1 : S1, σ1.fExp = σ1.fSize → 0 ≤ σ1.j → ∃ cl2, cl2 ≤ t.clen false ∧
        run1 fx (.bin :: (t.toks1 ++ rest)) σ1 = run1 fx rest
          (S1.after { σ1 with fExp := σ1.fExp + 1, lastNot := false, exprSize := σ1.exprSize + 1 }
            t.nfeat t.nbin cl2 t.hasParen) := by
      intro σ1 h1 h2
      obtain ⟨cl2, hcl2, hrun2⟩ := run1_term_le fx t rest
        { σ1 with fExp := σ1.fExp + 1, lastNot := false, exprSize := σ1.exprSize + 1 }
        (by simp only []; omega) h2 (by intro h; simp at h)
      refine ⟨cl2, hcl2, ?_⟩
      rw [← hrun2]
      simp [run1, h1]
    obtain ⟨cl2, hcl2, hrun2⟩ := hstep _ hfe' (by simpa [S1.after] using hj)
    rw [hrun2]
    refine ⟨cl1 + 1 + cl2, by simp only [Term.clen]; omega, ?_⟩
    simp only [S1.after, Term.nfeat, Term.nbin, Term.hasParen]
    have hnf := Factor.nfeat_eq f
    congr 1
    simp only [S1.mk.injEq, Bool.false_eq_true, if_false, Bool.or_assoc, and_true, true_and]
    omega
theorem run1_expr_le (fx : Fix) : ∀ (e : Expr) (rest : List T1) (σ : S1),
    σ.fExp = σ.fSize + 1 → 0 ≤ σ.j → (σ.lastNot = true → 1 ≤ σ.exprSize) →
    ∃ cl, cl ≤ e.clen σ.lastNot ∧
      run1 fx (e.toks1 ++ rest) σ = run1 fx rest (σ.after e.nfeat e.nbin cl e.hasParen)
  | .one t, rest, σ, hfe, hj, hln => by
    simpa [Expr.toks1, Expr.nfeat, Expr.nbin, Expr.clen, Expr.hasParen] using
      run1_term_le fx t rest σ hfe hj hln
  | .or t s1 s2 e, rest, σ, hfe, hj, hln => by
    simp only [Expr.toks1, List.append_assoc, List.cons_append]
    obtain ⟨cl1, hcl1, hrun1⟩ := run1_term_le fx t (.bin :: (e.toks1 ++ rest)) σ hfe hj hln
    rw [hrun1]
    have hfe' : (σ.after t.nfeat t.nbin cl1 t.hasParen).fExp = (σ.after t.nfeat t.nbin cl1 t.hasParen).fSize := by
      have := Term.nfeat_eq t
      simp only [S1.after]; omega
    have hstep : ∀ σ1 : S1, σ1.fExp = σ1.fSize → 0 ≤ σ1.j → ∃ cl2, cl2 ≤ e.clen false ∧
        run1 fx (.bin :: (e.toks1 ++ rest)) σ1 = run1 fx rest
          (S1.after { σ1 with fExp := σ1.fExp + 1, lastNot := false, exprSize := σ1.exprSize + 1 }
            e.nfeat e.nbin cl2 e.hasParen) := by
      intro σ1 h1 h2
      obtain ⟨cl2, hcl2, hrun2⟩ := run1_expr_le fx e rest
        { σ1 with fExp := σ1.fExp + 1, lastNot := false, exprSize := σ1.exprSize + 1 }
        (by simp only []; omega) h2 (by intro h; simp at h)
      refine ⟨cl2, hcl2, ?_⟩
      rw [← hrun2]
      simp [run1, h1]
    obtain ⟨cl2, hcl2, hrun2⟩ := hstep _ hfe' (by simpa [S1.after] using hj)
    rw [hrun2]
    refine ⟨cl1 + 1 + cl2, by simp only [Expr.clen]; omega, ?_⟩
    simp only [S1.after, Expr.nfeat, Expr.nbin, Expr.hasParen]
    have hnf := Term.nfeat_eq t
    congr 1
    simp only [S1.mk.injEq, Bool.false_eq_true, if_false, Bool.or_assoc, and_true, true_and]
    omega
end

/-- pass 1 on the tokens of ANY grammatical expression: no error, balance 0, `f_size` = number of features = `f_exp`,
and `expr_size` at most the number of records pass 2 writes -/
theorem run1_tokens (fx : Fix) (e : Expr) :
    ∃ s1, run1 fx e.toks1 {} = .ok s1 ∧ s1.j = 0 ∧ s1.fSize = e.nfeat ∧ s1.fExp = e.nfeat ∧
      s1.exprSize ≤ e.code.length := by
  obtain ⟨cl, hcl, hrun⟩ := run1_expr_le fx e [] {} rfl (by decide) (by intro h; simp at h)
  simp only [List.append_nil, run1] at hrun
  have hnf := Expr.nfeat_eq e
  refine ⟨_, hrun, rfl, by simp [S1.after], by simp [S1.after]; omega, ?_⟩
  have : e.clen false = e.code.length := Expr.clen_false e
  simp only [S1.after]
  simp only [] at hcl
  simp; omega

/-! ### pass 2 in a smaller record array: the same run, or the out-of-bounds write -/

theorem emit_anti {size size' : Nat} {x : UInt8} {s s' : S2} (he : emit size' x s = .ok s') :
    emit size x s = .ok s' ∨ emit size x s = .error .oobWrite := by
  unfold emit at he ⊢
  split at he
  · by_cases h : s.out.length < size
    · left; simp [h]; simpa using he
    · right; simp [h]
  · simp at he

theorem popUntilRP_anti {size size' : Nat} : ∀ (st : List UInt8) (s s' : S2),
    popUntilRP size' st s = .ok s' → popUntilRP size st s = .ok s' ∨ popUntilRP size st s = .error .oobWrite
  | [], _, _, he => by simp [popUntilRP] at he
  | x :: st, s, s', he => by
    simp only [popUntilRP] at he ⊢
    split
    · rename_i hx; left; simpa [hx] using he
    · rename_i hx
      simp only [hx] at he
      cases hem : emit size' x s with
      | error e => simp [hem] at he
      | ok s1 =>
        rw [hem] at he
        rcases emit_anti (size := size) hem with h | h
        · rw [h]; exact popUntilRP_anti st s1 s' he
        · rw [h]; right; rfl

theorem popWhileLe_anti {size size' : Nat} (lim : UInt8) : ∀ (st : List UInt8) (s s' : S2),
    popWhileLe size' lim st s = .ok s' →
      popWhileLe size lim st s = .ok s' ∨ popWhileLe size lim st s = .error .oobWrite
  | [], _, _, he => by left; simpa [popWhileLe] using he
  | x :: st, s, s', he => by
    simp only [popWhileLe] at he ⊢
    split
    · rename_i hx
      simp only [hx, if_true] at he
      cases hem : emit size' x s with
      | error e => simp [hem] at he
      | ok s1 =>
        rw [hem] at he
        rcases emit_anti (size := size) hem with h | h
        · rw [h]; exact popWhileLe_anti lim st s1 s' he
        · rw [h]; right; rfl
    · rename_i hx; left; simpa [hx] using he

theorem popAll_anti {size size' : Nat} : ∀ (st : List UInt8) (s s' : S2),
    popAll size' st s = .ok s' → popAll size st s = .ok s' ∨ popAll size st s = .error .oobWrite
  | [], _, _, he => by left; simpa [popAll] using he
  | x :: st, s, s', he => by
    simp only [popAll] at he ⊢
    cases hem : emit size' x s with
    | error e => simp [hem] at he
    | ok s1 =>
      rw [hem] at he
      rcases emit_anti (size := size) hem with h | h
      · rw [h]; exact popAll_anti st s1 s' he
      · rw [h]; right; rfl

theorem step2_anti (lookup : Bytes → Option Nat) {size size' fsize : Nat} (t : T2) (s s' : S2)
    (he : step2 lookup size' fsize t s = .ok s') :
    step2 lookup size fsize t s = .ok s' ∨ step2 lookup size fsize t s = .error .oobWrite := by
  cases t with
  | rp => left; simpa [step2] using he
  | lp => exact popUntilRP_anti _ _ _ he
  | not => left; simpa [step2] using he
  | and =>
    simp only [step2] at he ⊢
    cases hp : popWhileLe size' cAND s.stack s with
    | error e => simp [hp] at he
    | ok s1 =>
      rw [hp] at he
      rcases popWhileLe_anti (size := size) cAND _ _ _ hp with h | h
      · rw [h]; left; exact he
      · rw [h]; right; rfl
  | or =>
    simp only [step2] at he ⊢
    cases hp : popWhileLe size' cOR s.stack s with
    | error e => simp [hp] at he
    | ok s1 =>
      rw [hp] at he
      rcases popWhileLe_anti (size := size) cOR _ _ _ hp with h | h
      · rw [h]; left; exact he
      · rw [h]; right; rfl
  | feat name =>
    simp only [step2] at he ⊢
    cases hem : emit size' cF s with
    | error e => simp [hem] at he
    | ok s1 =>
      rw [hem] at he
      rcases emit_anti (size := size) hem with h | h
      · rw [h]; left; exact he
      · rw [h]; right; rfl

theorem run2_anti (lookup : Bytes → Option Nat) {size size' fsize : Nat} :
    ∀ (l : List T2) (s s' : S2), run2 lookup size' fsize l s = .ok s' →
      run2 lookup size fsize l s = .ok s' ∨ run2 lookup size fsize l s = .error .oobWrite
  | [], _, _, he => by left; simpa [run2] using he
  | t :: r, s, s', he => by
    simp only [run2] at he ⊢
    cases hs : step2 lookup size' fsize t s with
    | error e => simp [hs] at he
    | ok s1 =>
      rw [hs] at he
      rcases step2_anti lookup (size := size) t s s1 hs with h | h
      · rw [h]; exact run2_anti lookup r s1 s' he
      · rw [h]; right; rfl

/-! ### a run that got through never holds more records than the array has room for -/

theorem emit_bound {size : Nat} {x : UInt8} {s s' : S2} (he : emit size x s = .ok s') : s'.out.length ≤ size := by
  unfold emit at he
  split at he
  · rename_i h
    simp only [Except.ok.injEq] at he
    subst he
    simp only [List.length_cons]; omega
  · simp at he

theorem popUntilRP_bound {size : Nat} : ∀ (st : List UInt8) (s s' : S2),
    popUntilRP size st s = .ok s' → s.out.length ≤ size → s'.out.length ≤ size
  | [], _, _, he, _ => by simp [popUntilRP] at he
  | x :: st, s, s', he, hb => by
    simp only [popUntilRP] at he
    split at he
    · simp only [Except.ok.injEq] at he; subst he; exact hb
    · cases hem : emit size x s with
      | error e => simp [hem] at he
      | ok s1 => rw [hem] at he; exact popUntilRP_bound st s1 s' he (emit_bound hem)

theorem popWhileLe_bound {size : Nat} (lim : UInt8) : ∀ (st : List UInt8) (s s' : S2),
    popWhileLe size lim st s = .ok s' → s.out.length ≤ size → s'.out.length ≤ size
  | [], s, s', he, hb => by
    simp only [popWhileLe, Except.ok.injEq] at he; subst he; exact hb
  | x :: st, s, s', he, hb => by
    simp only [popWhileLe] at he
    split at he
    · cases hem : emit size x s with
      | error e => simp [hem] at he
      | ok s1 => rw [hem] at he; exact popWhileLe_bound lim st s1 s' he (emit_bound hem)
    · simp only [Except.ok.injEq] at he; subst he; exact hb

theorem popAll_bound {size : Nat} : ∀ (st : List UInt8) (s s' : S2),
    popAll size st s = .ok s' → s.out.length ≤ size → s'.out.length ≤ size
  | [], s, s', he, hb => by
    simp only [popAll, Except.ok.injEq] at he; subst he; exact hb
  | x :: st, s, s', he, hb => by
    simp only [popAll] at he
    cases hem : emit size x s with
    | error e => simp [hem] at he
    | ok s1 => rw [hem] at he; exact popAll_bound st s1 s' he (emit_bound hem)

theorem step2_bound (lookup : Bytes → Option Nat) {size fsize : Nat} (t : T2) (s s' : S2)
    (he : step2 lookup size fsize t s = .ok s') (hb : s.out.length ≤ size) : s'.out.length ≤ size := by
  cases t with
  | rp => simp only [step2, Except.ok.injEq] at he; subst he; exact hb
  | lp => exact popUntilRP_bound _ _ _ he hb
  | not =>
    simp only [step2] at he
    split at he
    · split at he <;> (simp only [Except.ok.injEq] at he; subst he; exact hb)
    · simp only [Except.ok.injEq] at he; subst he; exact hb
  | and =>
    simp only [step2] at he
    cases hp : popWhileLe size cAND s.stack s with
    | error e => simp [hp] at he
    | ok s1 =>
      rw [hp] at he
      simp only [Except.ok.injEq] at he; subst he
      exact popWhileLe_bound cAND _ _ s1 hp hb
  | or =>
    simp only [step2] at he
    cases hp : popWhileLe size cOR s.stack s with
    | error e => simp [hp] at he
    | ok s1 =>
      rw [hp] at he
      simp only [Except.ok.injEq] at he; subst he
      exact popWhileLe_bound cOR _ _ s1 hp hb
  | feat name =>
    simp only [step2] at he
    cases hem : emit size cF s with
    | error e => simp [hem] at he
    | ok s1 =>
      rw [hem] at he
      have := emit_bound hem
      cases hl : lookup name with
      | none => simp [hl] at he
      | some f =>
        simp only [hl] at he
        split at he
        · simp only [Except.ok.injEq] at he; subst he; exact this
        · simp at he

theorem run2_bound (lookup : Bytes → Option Nat) {size fsize : Nat} :
    ∀ (l : List T2) (s s' : S2), run2 lookup size fsize l s = .ok s' → s.out.length ≤ size → s'.out.length ≤ size
  | [], s, s', he, hb => by simp only [run2, Except.ok.injEq] at he; subst he; exact hb
  | t :: r, s, s', he, hb => by
    simp only [run2] at he
    cases hs : step2 lookup size fsize t s with
    | error e => simp [hs] at he
    | ok s1 => rw [hs] at he; exact run2_bound lookup r s1 s' he (step2_bound lookup t s s1 hs hb)

/-! ### assembly -/

/-- for EVERY grammatical expression whose features resolve, with or without the repairs: the compiler returns the
right code, or it does the out-of-bounds write -/
theorem compileToks_ok_or_oob (fx : Fix) (lookup : Bytes → Option Nat) (e : Expr) (hres : e.Resolves lookup) :
    compileToks fx lookup true e.toks1 e.toks2 = .ok (e.compiled lookup) ∨
    compileToks fx lookup true e.toks1 e.toks2 = .error .oobWrite := by
  obtain ⟨s1, h1, hj, hfs, hfe, hsz⟩ := run1_tokens fx e
  obtain ⟨g2, g3⟩ := pass2_tokens lookup e e.code.length e.nfeat hres (Nat.le_refl _) (Nat.le_refl _)
  unfold compileToks
  rw [h1]
  simp only [hj, hfs, hfe, ne_eq, not_true_eq_false, if_false, Bool.not_true, Bool.and_false, Bool.false_eq_true]
  rcases run2_anti lookup (size := s1.exprSize) _ _ _ g2 with h2 | h2
  · rw [h2]
    simp only []
    rcases popAll_anti (size := s1.exprSize) _ _ _ g3 with h3 | h3
    · rw [h3]
      have hb2 := run2_bound lookup _ _ _ h2 (Nat.zero_le _)
      have hb3 := popAll_bound _ _ _ h3 hb2
      simp only [] at hb3
      have hlen : e.code.length = s1.exprSize := Nat.le_antisymm hb3 hsz
      left
      simp [Expr.compiled, Expr.feats_length, hlen]
    · rw [h3]; right; rfl
  · rw [h2]; right; rfl

end LyModel.Iff
