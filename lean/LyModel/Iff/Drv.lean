import LyModel.Iff.Model
import LyModel.Iff.Range
import LyModel.Generated.IffSrc
import LyModel.Compile.Drv
/-! driver ops of component `iff` (if-feature compiler/evaluator and range/length restrictions) -/
namespace LyModel.Iff.Drv
open LyModel LyModel.Iff

def splitOn (sep : UInt8) : Bytes → List Bytes
  | [] => [[]]
  | c :: rest =>
    match splitOn sep rest with
    | [] => [[c]]
    | h :: t => if c == sep then [] :: h :: t else (c :: h) :: t

/-- `m=a,b,c;i=a,x` → [(m,[a,b,c]), (i,[a,x])] -/
def parseEnv (b : Bytes) : List (Bytes × List Bytes) :=
  (splitOn 0x3b b).filterMap fun m =>
    match splitOn 0x3d m with
    | [p, fs] => some (p, (splitOn 0x2c fs).filter (!·.isEmpty))
    | _ => none

/-- the variant of the model that corresponds to the source tree the translator has just read -/
def fx : Fix := { f3 := Generated.IFF_FIX_F3, f13 := Generated.IFF_FIX_F13 }
def rfx : Range.RFix := { f30 := Generated.RANGE_FIX_F30, f51 := Generated.RANGE_FIX_F51 }

def digitChar (n : Nat) : Char := Char.ofNat (48 + n)

def showCompiled (k : Compiled) : String :=
  let codes := String.ofList ((List.range (4 * k.expr.length)).map fun i => digitChar (getop k.expr i).toNat)
  let feats := if k.feats.isEmpty then "-" else ",".intercalate (k.feats.map toString)
  "ok " ++ toString k.expr.length ++ " " ++ codes ++ " " ++ feats

def bitsEnv (bits : String) : Nat → Bool := fun k => bits.toList.getD k '0' == '1'

def decAll : List String → Option (List Bytes)
  | [] => some []
  | h :: t => do
    let x ← Hex.dec h
    let r ← decAll t
    pure (x :: r)

def showParts (ps : List Range.Part) : String :=
  ",".intercalate (ps.map fun p => toString p.min ++ ":" ++ toString p.max)

def parseIntStr (s : String) : Option Int :=
  if s.startsWith "-" then (s.drop 1).toNat?.map fun n => -(n : Int) else s.toNat?.map fun n => (n : Int)

def handle (op : String) (args : List String) : String :=
  match op, args with
  | "cdump", a => Compile.Drv.handle "cdump" a        -- schema-compiler core (lean/LyModel/Compile), same property (C11)
  | "cflat", a => Compile.Drv.handle "cflat" a
  | "cexpand", a => Compile.Drv.handle "cexpand" a
  | "iffcompile", [ver, envh, exprh] =>
    match Hex.dec envh, Hex.dec exprh with
    | some env, some e =>
      match compile fx (lookupIn (parseEnv env)) (ver == "11") e with
      | .ok k => showCompiled k
      | .error er => "err " ++ er.name
    | _, _ => "err BadHex"
  | "iffeval", ver :: envh :: bits :: exprs =>
    match Hex.dec envh, decAll exprs with
    | some env, some es =>
      let lk := lookupIn (parseEnv env)
      let rs := es.map fun e => evalIffeatures fx lk (ver == "11") (bitsEnv bits) [e]
      match rs.find? (fun r => match r with | .error _ => true | .ok _ => false) with
      | some (.error er) =>
        -- a crash anywhere kills the process; otherwise the module is rejected
        match rs.find? (fun r => match r with | .error e => e == .oobWrite || e == .oobFeat || e == .underflow | .ok _ => false) with
        | some (.error c) => "err " ++ c.name
        | _ => let _ := er; "err Compile"
      | _ => "ok " ++ String.ofList (rs.map fun r => match r with | .ok true => '1' | _ => '0')
    | _, _ => "err BadHex"
  | "range", ty :: fd :: rs =>
    match Range.typeOf ty (fd.toNat?.getD 0), decAll rs with
    | some t, some chain =>
      match Range.compileChain rfx t none 0 chain with
      | .ok (some ps) => "ok " ++ showParts ps
      | .ok none => "ok -"
      | .error (k, e) => "err " ++ toString k ++ " " ++ e.name
    | _, _ => "err BadArg"
  | "rangeval", ty :: fd :: vals :: rs =>
    match Range.typeOf ty (fd.toNat?.getD 0), decAll rs with
    | some t, some chain =>
      match Range.compileChain rfx t none 0 chain with
      | .ok ps =>
        let vs := (vals.splitOn ",").filterMap parseIntStr
        "ok " ++ String.ofList (vs.map fun v =>
          if t.lo ≤ v && v ≤ t.hi && (match ps with | some p => Range.validate p v | none => true) then '1' else '0')
      | .error (_, e) => if e == .crashOob then "err " ++ e.name else "err Compile"
    | _, _ => "err BadArg"
  | _, _ => "err BadOp"

end LyModel.Iff.Drv
