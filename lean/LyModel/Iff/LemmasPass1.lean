import LyModel.Iff.LemmasEval
/-!
Pass 1 (the sizing pre-scan) of `lys_compile_iffeature` on the tokens of a grammatical expression: the parenthesis
balance returns to its start, `f_size`/`f_exp` count operands/operators, and — when the expression has no
`not (`…`not` shape — `expr_size` is exactly the number of records pass 2 will write.
-/
namespace LyModel.Iff
open LyModel

mutual
def Factor.nfeat : Factor → Nat
  | .ident _ => 1
  | .not _ f => f.nfeat
  | .paren _ e _ => e.nfeat
def Term.nfeat : Term → Nat
  | .one f => f.nfeat
  | .and f _ _ t => f.nfeat + t.nfeat
def Expr.nfeat : Expr → Nat
  | .one t => t.nfeat
  | .or t _ _ e => t.nfeat + e.nfeat
end

mutual
def Factor.nbin : Factor → Nat
  | .ident _ => 0
  | .not _ f => f.nbin
  | .paren _ e _ => e.nbin
def Term.nbin : Term → Nat
  | .one f => f.nbin
  | .and f _ _ t => f.nbin + 1 + t.nbin
def Expr.nbin : Expr → Nat
  | .one t => t.nbin
  | .or t _ _ e => t.nbin + 1 + e.nbin
end

mutual
def Factor.hasParen : Factor → Bool
  | .ident _ => false
  | .not _ f => f.hasParen
  | .paren _ _ _ => true
def Term.hasParen : Term → Bool
  | .one f => f.hasParen
  | .and f _ _ t => f.hasParen || t.hasParen
def Expr.hasParen : Expr → Bool
  | .one t => t.hasParen
  | .or t _ _ e => t.hasParen || e.hasParen
end

mutual
theorem Factor.nfeat_eq : ∀ f : Factor, f.nfeat = f.nbin + 1
  | .ident _ => by simp [Factor.nfeat, Factor.nbin]
  | .not _ f => by simpa [Factor.nfeat, Factor.nbin] using Factor.nfeat_eq f
  | .paren _ e _ => by simpa [Factor.nfeat, Factor.nbin] using Expr.nfeat_eq e
theorem Term.nfeat_eq : ∀ t : Term, t.nfeat = t.nbin + 1
  | .one f => by simpa [Term.nfeat, Term.nbin] using Factor.nfeat_eq f
  | .and f _ _ t => by
    have := Factor.nfeat_eq f; have := Term.nfeat_eq t
    simp only [Term.nfeat, Term.nbin]; omega
theorem Expr.nfeat_eq : ∀ e : Expr, e.nfeat = e.nbin + 1
  | .one t => by simpa [Expr.nfeat, Expr.nbin] using Term.nfeat_eq t
  | .or t _ _ e => by
    have := Term.nfeat_eq t; have := Expr.nfeat_eq e
    simp only [Expr.nfeat, Expr.nbin]; omega
end

mutual
theorem Factor.feats_length (lookup : Bytes → Option Nat) : ∀ f : Factor, (f.feats lookup).length = f.nfeat
  | .ident _ => by simp [Factor.feats, Factor.nfeat]
  | .not _ f => by simpa [Factor.feats, Factor.nfeat] using Factor.feats_length lookup f
  | .paren _ e _ => by simpa [Factor.feats, Factor.nfeat] using Expr.feats_length lookup e
theorem Term.feats_length (lookup : Bytes → Option Nat) : ∀ t : Term, (t.feats lookup).length = t.nfeat
  | .one f => by simpa [Term.feats, Term.nfeat] using Factor.feats_length lookup f
  | .and f _ _ t => by
    simp [Term.feats, Term.nfeat, Factor.feats_length lookup f, Term.feats_length lookup t]
theorem Expr.feats_length (lookup : Bytes → Option Nat) : ∀ e : Expr, (e.feats lookup).length = e.nfeat
  | .one t => by simpa [Expr.feats, Expr.nfeat] using Term.feats_length lookup t
  | .or t _ _ e => by
    simp [Expr.feats, Expr.nfeat, Term.feats_length lookup t, Expr.feats_length lookup e]
end

/-! ### what pass 1 adds to `expr_size` for a (sub)expression met with `last_not = ln` (the dangling `not` included) -/
def Factor.clen (f : Factor) (ln : Bool) : Nat :=
  f.body.length + (if (decide (f.pend = [cNOT]) != ln) then 1 else 0)

def Term.clen : Term → Bool → Nat
  | .one f, ln => f.clen ln
  | .and f _ _ t, ln => f.clen ln + 1 + t.clen false

def Expr.clen : Expr → Bool → Nat
  | .one t, ln => t.clen ln
  | .or t _ _ e, ln => t.clen ln + 1 + e.clen false

theorem Factor.clen_false (f : Factor) : f.clen false = f.code.length := by
  unfold Factor.clen Factor.code
  rcases f.pend_cases with h | h <;> simp [h] <;> omega

theorem Term.clen_false : ∀ t : Term, t.clen false = t.code.length
  | .one f => by simpa [Term.clen, Term.code, Term.pend, Term.body, Factor.code] using Factor.clen_false f
  | .and f s1 s2 t => by
    have h1 := Factor.clen_false f
    have h2 := Term.clen_false t
    show f.clen false + 1 + t.clen false =
      ((f.pend ++ [cAND]).reverse ++ (f.body ++ (t.pend.reverse ++ t.body))).length
    rw [h1, h2]
    simp [Factor.code, Term.code]; omega

theorem Expr.clen_false : ∀ e : Expr, e.clen false = e.code.length
  | .one t => by simpa [Expr.clen, Expr.code, Expr.pend, Expr.body, Term.code] using Term.clen_false t
  | .or t s1 s2 e => by
    have h1 := Term.clen_false t
    have h2 := Expr.clen_false e
    show t.clen false + 1 + e.clen false =
      ((t.pend ++ [cOR]).reverse ++ (t.body ++ (e.pend.reverse ++ e.body))).length
    rw [h1, h2]
    simp [Expr.code, Term.code]; omega

/-- first factor is a parenthesis whose first token after its `(`s is `not` -/
def Term.parenNot : Term → Bool
  | .one f => f.parenNot
  | .and f _ _ _ => f.parenNot

def Expr.parenNot : Expr → Bool
  | .one t => t.parenNot
  | .or t _ _ _ => t.parenNot

theorem Factor.parenNot_of_leftNot : ∀ f : Factor, f.leftNot = false → f.parenNot = false
  | .ident _, _ => rfl
  | .not _ _, h => by simp [Factor.leftNot] at h
  | .paren _ e _, h => by simpa [Factor.parenNot, Factor.leftNot] using h

theorem Term.parenNot_of_leftNot : ∀ t : Term, t.leftNot = false → t.parenNot = false
  | .one f, h => Factor.parenNot_of_leftNot f (by simpa [Term.leftNot] using h)
  | .and f _ _ _, h => Factor.parenNot_of_leftNot f (by simpa [Term.leftNot] using h)

theorem Expr.parenNot_of_leftNot : ∀ e : Expr, e.leftNot = false → e.parenNot = false
  | .one t, h => Term.parenNot_of_leftNot t (by simpa [Expr.leftNot] using h)
  | .or t _ _ _, h => Term.parenNot_of_leftNot t (by simpa [Expr.leftNot] using h)

theorem Factor.pend_of_leftNot : ∀ f : Factor, f.leftNot = false → f.pend = []
  | .ident _, _ => rfl
  | .not _ _, h => by simp [Factor.leftNot] at h
  | .paren _ _ _, _ => rfl

theorem Factor.clen_true_of_leftNot (f : Factor) (h : f.leftNot = false) : f.clen true = f.clen false + 1 := by
  have := Factor.pend_of_leftNot f h
  simp [Factor.clen, this]

theorem Term.clen_true_of_leftNot : ∀ t : Term, t.leftNot = false → t.clen true = t.clen false + 1
  | .one f, h => by simpa [Term.clen] using Factor.clen_true_of_leftNot f (by simpa [Term.leftNot] using h)
  | .and f _ _ t, h => by
    have := Factor.clen_true_of_leftNot f (by simpa [Term.leftNot] using h)
    simp only [Term.clen, this]; omega

theorem Expr.clen_true_of_leftNot : ∀ e : Expr, e.leftNot = false → e.clen true = e.clen false + 1
  | .one t, h => by simpa [Expr.clen] using Term.clen_true_of_leftNot t (by simpa [Expr.leftNot] using h)
  | .or t _ _ e, h => by
    have := Term.clen_true_of_leftNot t (by simpa [Expr.leftNot] using h)
    simp only [Expr.clen, this]; omega

theorem Factor.body_pos : ∀ f : Factor, 0 < f.body.length
  | .ident _ => by simp [Factor.body]
  | .not _ f => by simpa [Factor.body] using Factor.body_pos f
  | .paren _ e _ => by
    have h := (Expr.code_tree (fun _ => none) e).1
    have := PT.code_pos (e.tree (fun _ => none))
    simp only [Factor.body]
    rw [show e.pend.reverse ++ e.body = e.code from rfl, h]
    exact this

/-! ### the main lemma -/
def S1.after (σ : S1) (nf nb cl : Nat) (hp : Bool) : S1 :=
  { j := σ.j, lastNot := false, fSize := σ.fSize + nf, fExp := σ.fExp + nb,
    exprSize := σ.exprSize - (if σ.lastNot then 1 else 0) + cl, cv := σ.cv || hp }

theorem run1_rp (fx : Fix) (rest : List T1) (s : S1) (h : 0 ≤ s.j - 1) :
    run1 fx (.rp :: rest) s =
      run1 fx rest { s with j := s.j - 1, lastNot := if fx.f13 then false else s.lastNot } := by
  have : ¬ (s.j - 1 < 0) := by omega
  simp [run1, this]

mutual
theorem run1_factor (fx : Fix) : ∀ (f : Factor) (rest : List T1) (σ : S1), (fx.f13 = false → f.NoNotParenNot) →
    σ.fExp = σ.fSize + 1 → 0 ≤ σ.j →
    (σ.lastNot = true → 1 ≤ σ.exprSize ∧ (fx.f13 = false → f.parenNot = false)) →
    run1 fx (f.toks1 ++ rest) σ = run1 fx rest (σ.after f.nfeat f.nbin (f.clen σ.lastNot) f.hasParen)
  | .ident n, rest, σ, _, _, _, hln => by
    simp only [Factor.toks1, List.singleton_append, run1, S1.after, Factor.nfeat, Factor.nbin, Factor.hasParen,
      Factor.clen, Factor.pend, Factor.body]
    congr 1
    cases hl : σ.lastNot with
    | false => simp [cNOT_eq]
    | true =>
      have := (hln hl).1
      simp [cNOT_eq]; omega
  | .not sp f, rest, σ, hH, hfe, hj, hln => by
    have hH1 : fx.f13 = false → f.NoNotParenNot := fun h => by have := hH h; simp only [Factor.NoNotParenNot] at this; exact this.1
    have hH2 : fx.f13 = false → f.parenNot = false := fun h => by have := hH h; simp only [Factor.NoNotParenNot] at this; exact this.2
    simp only [Factor.toks1, List.cons_append, run1]
    cases hl : σ.lastNot with
    | false =>
      simp only [Bool.false_eq_true, if_false]
      rw [run1_factor fx f rest _ hH1 (by simpa using hfe) (by simpa using hj) (by intro _; exact ⟨by simp, hH2⟩)]
      simp only [S1.after, Factor.nfeat, Factor.nbin, Factor.hasParen, hl]
      congr 1
      simp only [Factor.clen, Factor.pend, Factor.body]
      rcases f.pend_cases with hp | hp <;> simp [hp, cNOT_eq]
    | true =>
      have h1 := (hln hl).1
      simp only [if_true]
      rw [run1_factor fx f rest _ hH1 (by simpa using hfe) (by simpa using hj) (by intro h; simp at h)]
      simp only [S1.after, Factor.nfeat, Factor.nbin, Factor.hasParen, hl]
      congr 1
      simp only [Factor.clen, Factor.pend, Factor.body]
      rcases f.pend_cases with hp | hp <;> simp [hp, cNOT_eq]
  | .paren o1 e o2, rest, σ, hH, hfe, hj, hln => by
    have hH1 : fx.f13 = false → e.NoNotParenNot := fun h => by have := hH h; simpa only [Factor.NoNotParenNot] using this
    simp only [Factor.toks1, List.cons_append, List.append_assoc, List.nil_append, run1]
    have hpre : ({ σ with j := σ.j + 1, cv := true, lastNot := if fx.f13 then false else σ.lastNot } : S1).lastNot = true →
        1 ≤ ({ σ with j := σ.j + 1, cv := true, lastNot := if fx.f13 then false else σ.lastNot } : S1).exprSize ∧
          (fx.f13 = false → e.parenNot = false) := by
      intro h
      cases hf : fx.f13 with
      | true => simp [hf] at h
      | false =>
        simp only [hf, Bool.false_eq_true, if_false] at h
        have := hln h
        exact ⟨this.1, fun _ => Expr.parenNot_of_leftNot e (by simpa [Factor.parenNot] using this.2 hf)⟩
    rw [run1_expr fx e (.rp :: rest) _ hH1 (by simpa using hfe) (by simp; omega) hpre]
    rw [run1_rp fx rest _ (by simp [S1.after]; omega)]
    simp only [S1.after, Factor.nfeat, Factor.nbin, Factor.hasParen]
    congr 1
    have hb : (Factor.paren o1 e o2).body.length = e.clen false := by
      rw [Expr.clen_false]; rfl
    have hjj : σ.j + 1 - 1 = σ.j := by omega
    cases hf : fx.f13 with
    | true =>
      cases hl : σ.lastNot with
      | false => simp [Factor.clen, Factor.pend, hb, cNOT_eq, hjj]
      | true =>
        have := (hln hl).1
        simp [Factor.clen, Factor.pend, hb, cNOT_eq, hjj]; omega
    | false =>
      cases hl : σ.lastNot with
      | false => simp [Factor.clen, Factor.pend, hb, cNOT_eq, hjj]
      | true =>
        have hle : e.leftNot = false := by simpa [Factor.parenNot] using (hln hl).2 hf
        simp [Factor.clen, Factor.pend, hb, cNOT_eq, hjj, Expr.clen_true_of_leftNot e hle]
theorem run1_term (fx : Fix) : ∀ (t : Term) (rest : List T1) (σ : S1), (fx.f13 = false → t.NoNotParenNot) →
    σ.fExp = σ.fSize + 1 → 0 ≤ σ.j →
    (σ.lastNot = true → 1 ≤ σ.exprSize ∧ (fx.f13 = false → t.parenNot = false)) →
    run1 fx (t.toks1 ++ rest) σ = run1 fx rest (σ.after t.nfeat t.nbin (t.clen σ.lastNot) t.hasParen)
  | .one f, rest, σ, hH, hfe, hj, hln => by
    simpa [Term.toks1, Term.nfeat, Term.nbin, Term.clen, Term.hasParen] using
      run1_factor fx f rest σ (fun h => by simpa only [Term.NoNotParenNot] using hH h) hfe hj
        (by simpa [Term.parenNot] using hln)
  | .and f s1 s2 t, rest, σ, hH, hfe, hj, hln => by
    have hH1 : fx.f13 = false → f.NoNotParenNot := fun h => by have := hH h; simp only [Term.NoNotParenNot] at this; exact this.1
    have hH2 : fx.f13 = false → t.NoNotParenNot := fun h => by have := hH h; simp only [Term.NoNotParenNot] at this; exact this.2
    simp only [Term.toks1, List.append_assoc, List.cons_append]
    rw [run1_factor fx f (.bin :: (t.toks1 ++ rest)) σ hH1 hfe hj (by simpa [Term.parenNot] using hln)]
    have hfe' : (σ.after f.nfeat f.nbin (f.clen σ.lastNot) f.hasParen).fExp =
        (σ.after f.nfeat f.nbin (f.clen σ.lastNot) f.hasParen).fSize := by
      have := Factor.nfeat_eq f
      simp only [S1.after]; omega
    simp only [run1, hfe', ne_eq, not_true_eq_false, if_false]
    rw [run1_term fx t rest _ hH2 (by simp only [S1.after] at hfe' ⊢ <;> omega) (by simpa [S1.after] using hj)
      (by intro h; simp at h)]
    simp only [S1.after, Term.nfeat, Term.nbin, Term.clen, Term.hasParen]
    have hnf := Factor.nfeat_eq f
    congr 1
    simp only [S1.mk.injEq, Bool.false_eq_true, if_false, Bool.or_assoc, and_true, true_and]
    omega
theorem run1_expr (fx : Fix) : ∀ (e : Expr) (rest : List T1) (σ : S1), (fx.f13 = false → e.NoNotParenNot) →
    σ.fExp = σ.fSize + 1 → 0 ≤ σ.j →
    (σ.lastNot = true → 1 ≤ σ.exprSize ∧ (fx.f13 = false → e.parenNot = false)) →
    run1 fx (e.toks1 ++ rest) σ = run1 fx rest (σ.after e.nfeat e.nbin (e.clen σ.lastNot) e.hasParen)
  | .one t, rest, σ, hH, hfe, hj, hln => by
    simpa [Expr.toks1, Expr.nfeat, Expr.nbin, Expr.clen, Expr.hasParen] using
      run1_term fx t rest σ (fun h => by simpa only [Expr.NoNotParenNot] using hH h) hfe hj
        (by simpa [Expr.parenNot] using hln)
  | .or t s1 s2 e, rest, σ, hH, hfe, hj, hln => by
    have hH1 : fx.f13 = false → t.NoNotParenNot := fun h => by have := hH h; simp only [Expr.NoNotParenNot] at this; exact this.1
    have hH2 : fx.f13 = false → e.NoNotParenNot := fun h => by have := hH h; simp only [Expr.NoNotParenNot] at this; exact this.2
    simp only [Expr.toks1, List.append_assoc, List.cons_append]
    rw [run1_term fx t (.bin :: (e.toks1 ++ rest)) σ hH1 hfe hj (by simpa [Expr.parenNot] using hln)]
    have hfe' : (σ.after t.nfeat t.nbin (t.clen σ.lastNot) t.hasParen).fExp =
        (σ.after t.nfeat t.nbin (t.clen σ.lastNot) t.hasParen).fSize := by
      have := Term.nfeat_eq t
      simp only [S1.after]; omega
    simp only [run1, hfe', ne_eq, not_true_eq_false, if_false]
    rw [run1_expr fx e rest _ hH2 (by simp only [S1.after] at hfe' ⊢ <;> omega) (by simpa [S1.after] using hj)
      (by intro h; simp at h)]
    simp only [S1.after, Expr.nfeat, Expr.nbin, Expr.clen, Expr.hasParen]
    have hnf := Term.nfeat_eq t
    congr 1
    simp only [S1.mk.injEq, Bool.false_eq_true, if_false, Bool.or_assoc, and_true, true_and]
    omega
end

end LyModel.Iff
