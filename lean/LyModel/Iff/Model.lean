import LyModel.Base
import LyModel.Generated.Consts
/-!
Model of `schema_features.c`: `lys_compile_iffeature` (both passes), `iff_setop` / `lysc_iff_getop`,
`lysc_iffeature_value(_)`, `lys_eval_iffeatures`.   CORE LEAN ONLY (linked into `lydrv`).

The C function walks the NUL-terminated argument twice:

* pass 1 (left to right, "pre-parse"): counts features (`f_size`), needed operands (`f_exp`), the number of
  2-bit records (`expr_size`, with its `last_not` double-negation discount) and the parenthesis balance `j`;
* pass 2 (right to left): a shunting-yard with the operator stack `iff_stack`, writing records from index
  `expr_size-1` downwards with `iff_setop` and features from index `f_size-1` downwards.

Both passes are modelled as  lexer (bytes → tokens, exactly the C word-boundary rules of that pass, which differ)
followed by a token machine.  Pass 2 carries the array sizes computed by pass 1: a write below index 0 (the C index
wraps to 2^64-1: wild store, F13) and a pop of the empty stack (F3) are model errors `oobWrite` / `underflow`.
-/
namespace LyModel.Iff
open LyModel

/-- C `isspace` in the "C" locale. -/
def isSpace (c : UInt8) : Bool := c == 0x20 || (0x09 ≤ c && c ≤ 0x0d)

def chLP : UInt8 := 0x28
def chRP : UInt8 := 0x29
def kwNot : Bytes := [0x6e, 0x6f, 0x74]
def kwAnd : Bytes := [0x61, 0x6e, 0x64]
def kwOr : Bytes := [0x6f, 0x72]

/-- record codes (`LYS_IFF_*`, from the generated constants) and the two temporary stack values -/
def cNOT : UInt8 := UInt8.ofNat Generated.LYS_IFF_NOT
def cAND : UInt8 := UInt8.ofNat Generated.LYS_IFF_AND
def cOR : UInt8 := UInt8.ofNat Generated.LYS_IFF_OR
def cF : UInt8 := UInt8.ofNat Generated.LYS_IFF_F
def cLP : UInt8 := 0x04
def cRP : UInt8 := 0x08

inductive Err
  | unexpEnd | missingBefore | parens | count | version | noFeature | internal
  | oobWrite     -- iff_setop(expr, op, expr_size--) after expr_size wrapped below 0          (F13)
  | oobFeat      -- iff->features[f_size] after f_size wrapped below 0
  | underflow    -- iff_stack_pop on an empty stack                                           (F3)
  deriving DecidableEq, Repr

def Err.name : Err → String
  | .unexpEnd => "UnexpEnd" | .missingBefore => "MissingBefore" | .parens => "Parens" | .count => "Count"
  | .version => "Version" | .noFeature => "NoFeature" | .internal => "Internal"
  | .oobWrite => "CrashOobWrite" | .oobFeat => "CrashOobFeat" | .underflow => "CrashUnderflow"

/-! ## 2-bit packing -/

/-- `iff_setop` on one byte: `(*item & ~(3 << 2k)) | (op << 2k)` (8-bit truncation as in C's store to `uint8_t`). -/
def setRec (b op : UInt8) (k : Nat) : UInt8 :=
  (b &&& ~~~((3 : UInt8) <<< UInt8.ofNat (2 * k))) ||| (op <<< UInt8.ofNat (2 * k))

/-- `lysc_iff_getop` on one byte. -/
def getRec (b : UInt8) (k : Nat) : UInt8 :=
  (b &&& ((3 : UInt8) <<< UInt8.ofNat (2 * k))) >>> UInt8.ofNat (2 * k)

def setop (l : Bytes) (op : UInt8) (pos : Nat) : Bytes :=
  l.set (pos / 4) (setRec (l.getD (pos / 4) 0) op (pos % 4))

def getop (l : Bytes) (pos : Nat) : UInt8 := getRec (l.getD (pos / 4) 0) (pos % 4)

/-- number of bytes `calloc`ed for `expr_size` records -/
def nbytes (size : Nat) : Nat := size / 4 + (if size % 4 ≠ 0 then 1 else 0)

/-- The writes of pass 2 in C order: record `k + i` gets `ops[i]`, highest index first. -/
def packFrom (k : Nat) : List UInt8 → Bytes → Bytes
  | [], b => b
  | op :: rest, b => setop (packFrom (k + 1) rest b) op k

def pack (ops : List UInt8) : Bytes := packFrom 0 ops (List.replicate (nbytes ops.length) 0)

/-! ## pass 1 -/

inductive T1 | lp | rp | sp | feat | not | bin | uend
  deriving DecidableEq, Repr

def startsWith : Bytes → Bytes → Bool
  | _, [] => true
  | [], _ :: _ => false
  | a :: as, b :: bs => a == b && startsWith as bs

/-- the `strncmp` chain: length of the operator keyword the input starts with -/
def opLen (w : Bytes) : Option Nat :=
  if startsWith w kwNot then some 3 else if startsWith w kwAnd then some 3 else if startsWith w kwOr then some 2 else none

/-- classification of the word starting at `w` (the whole remaining input) -/
def classify1 (w : Bytes) : T1 :=
  match opLen w with
  | none => .feat
  | some n =>
    let after := w.drop n
    if (after.dropWhile isSpace).isEmpty then .uend          -- only blanks up to the NUL
    else if !(isSpace (after.headD 0)) then .feat            -- feature name starting with not/and/or
    else if w.headD 0 == 0x6e then .not else .bin

/-- pass-1 lexer. `inWord`: the `while (!isspace(c[i]))` skip loop is running. A blank that ends a word is swallowed by
the `for` increment (it does not set `checkversion`). -/
def lex1 : Bool → Bytes → List T1
  | _, [] => []
  | inWord, c :: rest =>
    if c == chLP then .lp :: lex1 false rest
    else if c == chRP then .rp :: lex1 false rest
    else if isSpace c then (if inWord then lex1 false rest else .sp :: lex1 false rest)
    else if inWord then lex1 true rest
    else classify1 (c :: rest) :: lex1 true rest

structure S1 where
  j : Int := 0
  lastNot : Bool := false
  fSize : Nat := 0
  fExp : Nat := 1
  exprSize : Nat := 0
  cv : Bool := false
  deriving Repr, DecidableEq

/-- Which of the candidate repairs (fixes/F3.diff, fixes/F13.diff) the modelled source contains. The driver takes the
flags from `Generated.IffSrc` (read off the C source on every run); the theorems are stated for every value. -/
structure Fix where
  f3 : Bool := false    -- the pre-scan stops (→ "non-matching parentheses") at a `)` that has no opening `(`
  f13 : Bool := false   -- the pre-scan resets `last_not` at `(` and `)`
  deriving Repr, DecidableEq

def run1 (fx : Fix) : List T1 → S1 → Except Err S1
  | [], s => .ok s
  | .lp :: r, s => run1 fx r { s with j := s.j + 1, cv := true, lastNot := if fx.f13 then false else s.lastNot }
  | .rp :: r, s =>
    if fx.f3 && decide (s.j - 1 < 0) then .error .parens
    else run1 fx r { s with j := s.j - 1, lastNot := if fx.f13 then false else s.lastNot }
  | .sp :: r, s => run1 fx r { s with cv := true }
  | .uend :: _, _ => .error .unexpEnd
  | .feat :: r, s => run1 fx r { s with lastNot := false, fSize := s.fSize + 1, exprSize := s.exprSize + 1 }
  | .not :: r, s =>
    -- `expr_size = expr_size - 2` followed by the common `expr_size++` (expr_size ≥ 1 whenever last_not is set)
    if s.lastNot then run1 fx r { s with exprSize := s.exprSize - 1, lastNot := false }
    else run1 fx r { s with lastNot := true, exprSize := s.exprSize + 1 }
  | .bin :: r, s =>
    if s.fExp ≠ s.fSize then .error .missingBefore
    else run1 fx r { s with fExp := s.fExp + 1, lastNot := false, exprSize := s.exprSize + 1 }

/-! ## pass 2 -/

inductive T2 | rp | lp | not | and | or | feat (name : Bytes)
  deriving DecidableEq, Repr

/-- `!strncmp(&c[i], "not", 3) && isspace(c[i + 3])` etc.: the word is exactly the keyword and a blank follows it -/
def classify2 (text : Bytes) (rsp : Bool) : T2 :=
  if text == kwNot && rsp then .not
  else if text == kwAnd && rsp then .and
  else if text == kwOr && rsp then .or
  else .feat text

/-- pass-2 lexer over the REVERSED input. A word extends leftwards until a blank or `(` (NOT `)`), `cur` is the word
being collected together with "the character to its right is a blank", `ps` = the previous main-loop character was a blank. -/
def lex2 : Bytes → Option (Bytes × Bool) → Bool → List T2
  | [], none, _ => []
  | [], some (t, r), _ => [classify2 t r]
  | c :: rest, none, ps =>
    if c == chRP then .rp :: lex2 rest none false
    else if c == chLP then .lp :: lex2 rest none false
    else if isSpace c then lex2 rest none true
    else lex2 rest (some ([c], ps)) false
  | c :: rest, some (t, r), _ =>
    if isSpace c then classify2 t r :: lex2 rest none true
    else if c == chLP then classify2 t r :: .lp :: lex2 rest none false
    else lex2 rest (some (c :: t, r)) false

structure S2 where
  stack : List UInt8 := []     -- head = top
  out : List UInt8 := []       -- records written so far, lowest index first (a write conses)
  feats : List Nat := []       -- features written so far, lowest index first
  deriving Repr, DecidableEq

/-- `iff_setop(iff->expr, op, expr_size--)` with the array size of pass 1 -/
def emit (size : Nat) (op : UInt8) (s : S2) : Except Err S2 :=
  if s.out.length < size then .ok { s with out := op :: s.out } else .error .oobWrite

/-- `while ((op = iff_stack_pop(&stack)) != LYS_IFF_RP) iff_setop(...)` -/
def popUntilRP (size : Nat) : List UInt8 → S2 → Except Err S2
  | [], _ => .error .underflow
  | x :: st, s =>
    if x == cRP then .ok { s with stack := st }
    else match emit size x s with
      | .ok s' => popUntilRP size st s'
      | .error e => .error e

/-- `while (stack.index && stack.stack[stack.index - 1] <= lim) { pop; setop }` -/
def popWhileLe (size : Nat) (lim : UInt8) : List UInt8 → S2 → Except Err S2
  | [], s => .ok { s with stack := [] }
  | x :: st, s =>
    if x ≤ lim then
      match emit size x s with
      | .ok s' => popWhileLe size lim st s'
      | .error e => .error e
    else .ok { s with stack := x :: st }

def step2 (lookup : Bytes → Option Nat) (size fsize : Nat) (t : T2) (s : S2) : Except Err S2 :=
  match t with
  | .rp => .ok { s with stack := cRP :: s.stack }
  | .lp => popUntilRP size s.stack s
  | .not =>
    match s.stack with
    | x :: st => if x == cNOT then .ok { s with stack := st } else .ok { s with stack := cNOT :: s.stack }
    | [] => .ok { s with stack := [cNOT] }
  | .and =>
    match popWhileLe size cAND s.stack s with
    | .ok s' => .ok { s' with stack := cAND :: s'.stack }
    | .error e => .error e
  | .or =>
    match popWhileLe size cOR s.stack s with
    | .ok s' => .ok { s' with stack := cOR :: s'.stack }
    | .error e => .error e
  | .feat name =>
    match emit size cF s with
    | .error e => .error e
    | .ok s' =>
      match lookup name with
      | none => .error .noFeature
      | some f => if s'.feats.length < fsize then .ok { s' with feats := f :: s'.feats } else .error .oobFeat

def run2 (lookup : Bytes → Option Nat) (size fsize : Nat) : List T2 → S2 → Except Err S2
  | [], s => .ok s
  | t :: r, s =>
    match step2 lookup size fsize t s with
    | .ok s' => run2 lookup size fsize r s'
    | .error e => .error e

/-- `while (stack.index) { pop; setop }` -/
def popAll (size : Nat) : List UInt8 → S2 → Except Err S2
  | [], s => .ok { s with stack := [] }
  | x :: st, s =>
    match emit size x s with
    | .ok s' => popAll size st s'
    | .error e => .error e

structure Compiled where
  size : Nat            -- expr_size of pass 1 = number of records
  expr : Bytes          -- the calloc'ed, packed record array
  feats : List Nat      -- iff->features (ids given by `lookup`)
  deriving Repr, DecidableEq

/-- `lys_compile_iffeature` after lexing: `t1` = what pass 1 sees, `t2` = what pass 2 sees (right to left). -/
def compileToks (fx : Fix) (lookup : Bytes → Option Nat) (ver11 : Bool) (t1 : List T1) (t2 : List T2) :
    Except Err Compiled :=
  match run1 fx t1 {} with
  | .error e => .error e
  | .ok s1 =>
    if s1.j ≠ 0 then .error .parens
    else if s1.fExp ≠ s1.fSize then .error .count
    else if (s1.cv || decide (s1.exprSize > 1)) && !ver11 then .error .version
    else
      match run2 lookup s1.exprSize s1.fSize t2 {} with
      | .error e => .error e
      | .ok s2 =>
        match popAll s1.exprSize s2.stack s2 with
        | .error e => .error e
        | .ok s3 =>
          if s3.out.length ≠ s1.exprSize ∨ s3.feats.length ≠ s1.fSize then .error .internal
          else .ok { size := s1.exprSize, expr := packFrom 0 s3.out (List.replicate (nbytes s1.exprSize) 0), feats := s3.feats }

/-- `lys_compile_iffeature`. `lookup` abstracts `lysp_feature_find(qname->mod, name, len, 1)`; `ver11` = the
module's `yang-version` is 1.1. -/
def compile (fx : Fix) (lookup : Bytes → Option Nat) (ver11 : Bool) (c : Bytes) : Except Err Compiled :=
  compileToks fx lookup ver11 (lex1 false c) (lex2 c.reverse none false)

/-! ## evaluation -/

/-- `lysc_iffeature_value_`: `rd` reads a record, `fv` the enabled flag of `features[k]`; returns the value and the
advanced `index_e`, `index_f`. Fuel = number of records (each call consumes one). -/
def evalAux (rd : Nat → UInt8) (fv : Nat → Bool) : Nat → Nat → Nat → Bool × Nat × Nat
  | 0, ie, fi => (false, ie, fi)
  | fuel + 1, ie, fi =>
    let op := rd ie
    if op == cF then (fv fi, ie + 1, fi + 1)
    else if op == cNOT then
      let r := evalAux rd fv fuel (ie + 1) fi
      (!r.1, r.2.1, r.2.2)
    else
      let a := evalAux rd fv fuel (ie + 1) fi
      let b := evalAux rd fv fuel a.2.1 a.2.2
      (if op == cAND then a.1 && b.1 else a.1 || b.1, b.2.1, b.2.2)

/-- `lysc_iffeature_value` under the feature assignment `env` -/
def evalIff (c : Compiled) (env : Nat → Bool) : Bool :=
  (evalAux (getop c.expr) (fun k => env (c.feats.getD k 0)) c.size 0 0).1

/-- `lys_eval_iffeatures`: conjunction over the if-feature statements of a node (first compile error aborts). -/
def evalIffeatures (fx : Fix) (lookup : Bytes → Option Nat) (ver11 : Bool) (env : Nat → Bool) : List Bytes → Except Err Bool
  | [] => .ok true
  | c :: rest =>
    match compile fx lookup ver11 c with
    | .error e => .error e
    | .ok k => if evalIff k env then evalIffeatures fx lookup ver11 env rest else .ok false

/-! ## `lysp_feature_find` for the driver: modules are `(prefix, feature names)`, the first one is the local module;
feature ids number all features of all modules consecutively. -/

def splitColon : Bytes → Option (Bytes × Bytes)
  | [] => none
  | c :: rest => if c == 0x3a then some ([], rest) else (splitColon rest).map fun (p, n) => (c :: p, n)

def findIdx (names : List Bytes) (n : Bytes) : Option Nat := names.findIdx? (· == n)

def lookupIn (mods : List (Bytes × List Bytes)) (name : Bytes) : Option Nat :=
  let offs : List Nat := (mods.foldl (fun (acc : List Nat × Nat) m => (acc.1 ++ [acc.2], acc.2 + m.2.length)) ([], 0)).1
  let pick (i : Nat) (n : Bytes) : Option Nat :=
    match mods[i]?, offs[i]? with
    | some m, some o => (findIdx m.2 n).map (· + o)
    | _, _ => none
  match splitColon name with
  | none => pick 0 name
  | some (p, n) =>
    match mods with
    | [] => none
    | m0 :: _ =>
      if p.isEmpty then none            -- ly_resolve_prefix: LY_CHECK_ARG_RET(ctx, prefix, prefix_len, NULL)
      else if p == m0.1 then pick 0 n
      else match (mods.drop 1).findIdx? (fun m => m.1 == p) with
        | some i => pick (i + 1) n
        | none => none

end LyModel.Iff
