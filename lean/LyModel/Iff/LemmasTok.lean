import LyModel.Iff.Spec
/-!
Token-level correctness of pass 2 of `lys_compile_iffeature` (the right-to-left shunting-yard): processing the tokens
of a grammatical (sub)expression pushes exactly `pend` on the operator stack and writes exactly `body` / `feats`.
-/
namespace LyModel.Iff
open LyModel

theorem cNOT_eq : cNOT = 0 := rfl
theorem cAND_eq : cAND = 1 := rfl
theorem cOR_eq : cOR = 2 := rfl
theorem cF_eq : cF = 3 := rfl
theorem cRP_eq : cRP = 8 := rfl

/-- the top of the stack (if any) is strictly above `lvl`, i.e. it is not popped by an operator of level `lvl` -/
def topGt (lvl : UInt8) : List UInt8 → Prop
  | [] => True
  | y :: _ => lvl < y

theorem emit_ok (size : Nat) (x : UInt8) (s : S2) (h : s.out.length < size) :
    emit size x s = .ok ⟨s.stack, x :: s.out, s.feats⟩ := by
  simp [emit, h]

theorem popWhileLe_spec (size : Nat) (lim : UInt8) (P S : List UInt8) :
    ∀ (s : S2), (∀ x ∈ P, x ≤ lim) → topGt lim S → s.out.length + P.length ≤ size →
      popWhileLe size lim (P ++ S) s = .ok ⟨S, P.reverse ++ s.out, s.feats⟩ := by
  induction P with
  | nil =>
    intro s _ hS _
    cases S with
    | nil => simp [popWhileLe]
    | cons y S' =>
      have : ¬ y ≤ lim := by
        have : lim < y := hS
        exact UInt8.not_le.mpr this
      simp [popWhileLe, this]
  | cons x P ih =>
    intro s hP hS hcap
    have hx : x ≤ lim := hP x (by simp)
    have hlt : s.out.length < size := by simp at hcap; omega
    simp only [List.cons_append, popWhileLe, hx, if_true, emit_ok size x s hlt]
    rw [ih ⟨s.stack, x :: s.out, s.feats⟩ (fun y hy => hP y (by simp [hy])) hS (by simp at hcap ⊢; omega)]
    simp

theorem popUntilRP_spec (size : Nat) (P S : List UInt8) :
    ∀ (s : S2), (∀ x ∈ P, x ≠ cRP) → s.out.length + P.length ≤ size →
      popUntilRP size (P ++ cRP :: S) s = .ok ⟨S, P.reverse ++ s.out, s.feats⟩ := by
  induction P with
  | nil => intro s _ _; simp [popUntilRP]
  | cons x P ih =>
    intro s hP hcap
    have hx : x ≠ cRP := hP x (by simp)
    have hlt : s.out.length < size := by simp at hcap; omega
    simp only [List.cons_append, popUntilRP, beq_iff_eq, hx, if_false, emit_ok size x s hlt]
    rw [ih ⟨s.stack, x :: s.out, s.feats⟩ (fun y hy => hP y (by simp [hy])) (by simp at hcap ⊢; omega)]
    simp

theorem popAll_spec (size : Nat) (P : List UInt8) :
    ∀ (s : S2), s.out.length + P.length ≤ size →
      popAll size P s = .ok ⟨[], P.reverse ++ s.out, s.feats⟩ := by
  induction P with
  | nil => intro s _; simp [popAll]
  | cons x P ih =>
    intro s hcap
    have hlt : s.out.length < size := by simp at hcap; omega
    simp only [popAll, emit_ok size x s hlt]
    rw [ih ⟨s.stack, x :: s.out, s.feats⟩ (by simp at hcap ⊢; omega)]
    simp

/-! ### shape of `pend` -/
theorem Factor.pend_cases (f : Factor) : f.pend = [] ∨ f.pend = [cNOT] := by
  cases f with
  | ident n => simp [Factor.pend]
  | not s f => simp only [Factor.pend]; split <;> simp
  | paren o1 e o2 => simp [Factor.pend]

theorem Factor.pend_le (f : Factor) : ∀ x ∈ f.pend, x ≤ cNOT := by
  rcases f.pend_cases with h | h <;> simp [h]

theorem Term.pend_le : ∀ (t : Term), ∀ x ∈ t.pend, x ≤ cAND
  | .one f => by
    intro x hx
    have := Factor.pend_le f x (by simpa [Term.pend] using hx)
    exact Nat.le_trans this (by decide)
  | .and f _ _ _ => by
    intro x hx
    simp only [Term.pend, List.mem_append, List.mem_singleton] at hx
    rcases hx with hx | hx
    · exact Nat.le_trans (Factor.pend_le f x hx) (by decide)
    · subst hx; exact Nat.le_refl _

theorem Expr.pend_le : ∀ (e : Expr), ∀ x ∈ e.pend, x ≤ cOR
  | .one t => by
    intro x hx
    have := Term.pend_le t x (by simpa [Expr.pend] using hx)
    exact Nat.le_trans this (by decide)
  | .or t _ _ _ => by
    intro x hx
    simp only [Expr.pend, List.mem_append, List.mem_singleton] at hx
    rcases hx with hx | hx
    · exact Nat.le_trans (Term.pend_le t x hx) (by decide)
    · subst hx; exact Nat.le_refl _

theorem Expr.pend_ne_rp (e : Expr) : ∀ x ∈ e.pend, x ≠ cRP := by
  intro x hx h
  have := Expr.pend_le e x hx
  subst h
  exact absurd this (by decide)

theorem topGt_mono {a b : UInt8} (h : a ≤ b) : ∀ {S : List UInt8}, topGt b S → topGt a S
  | [], _ => trivial
  | _ :: _, hS => Nat.lt_of_le_of_lt h hS

/-- a stack that starts with `x` is above every level below `x` -/
theorem topGt_cons {lvl x : UInt8} (h : lvl < x) (S : List UInt8) : topGt lvl (x :: S) := h

/-! ### the main lemma (mutual induction over the grammar) -/
section
variable (lookup : Bytes → Option Nat) (size fsize : Nat)

theorem run2_cons (t : T2) (r : List T2) (s : S2) :
    run2 lookup size fsize (t :: r) s =
      match step2 lookup size fsize t s with
      | .ok s' => run2 lookup size fsize r s'
      | .error e => .error e := rfl

mutual
theorem run2_factor : ∀ (f : Factor) (rest : List T2) (s : S2), f.Resolves lookup → topGt cNOT s.stack →
    s.out.length + f.body.length ≤ size → s.feats.length + (f.feats lookup).length ≤ fsize →
    run2 lookup size fsize (f.toks2 ++ rest) s =
      run2 lookup size fsize rest ⟨f.pend ++ s.stack, f.body ++ s.out, f.feats lookup ++ s.feats⟩
  | .ident n, rest, s, hres, _, hcap, hf => by
    simp only [Factor.Resolves] at hres
    obtain ⟨k, hk⟩ := Option.isSome_iff_exists.mp hres
    have hlt : s.out.length < size := by simp [Factor.body] at hcap; omega
    have hfl : s.feats.length < fsize := by simp [Factor.feats] at hf; omega
    simp [Factor.toks2, run2_cons, step2, emit_ok size cF s hlt, hk, hfl, Factor.pend, Factor.body, Factor.feats]
  | .not sp f, rest, s, hres, htop, hcap, hf => by
    simp only [Factor.Resolves] at hres
    simp only [Factor.body] at hcap
    simp only [Factor.feats] at hf
    simp only [Factor.toks2, List.append_assoc, List.singleton_append]
    rw [run2_factor f (.not :: rest) s hres htop hcap hf, run2_cons]
    rcases f.pend_cases with hp | hp
    · -- nothing pending: the top of the stack is the caller's, which is not NOT
      simp only [hp, List.nil_append, Factor.pend, Factor.body, Factor.feats]
      cases hs : s.stack with
      | nil => simp [step2]
      | cons y S =>
        have hy : ¬ (y == cNOT) = true := by
          rw [hs] at htop
          have : cNOT < y := htop
          intro h
          have := eq_of_beq h
          subst this
          exact absurd htop (Nat.lt_irrefl _)
        simp [step2, hy]
    · simp [hp, step2, Factor.pend, Factor.body, Factor.feats]
  | .paren o1 e o2, rest, s, hres, _, hcap, hf => by
    simp only [Factor.Resolves] at hres
    simp only [Factor.body, List.length_append, List.length_reverse] at hcap
    simp only [Factor.feats] at hf
    simp only [Factor.toks2, List.cons_append, List.append_assoc, List.nil_append, run2_cons, step2]
    rw [run2_expr e (.lp :: rest) ⟨cRP :: s.stack, s.out, s.feats⟩ hres (topGt_cons (by decide) _)
      (by simp; omega) (by simpa using hf), run2_cons]
    simp only [step2]
    rw [popUntilRP_spec size e.pend s.stack _ (Expr.pend_ne_rp e) (by simp; omega)]
    simp [Factor.pend, Factor.body, Factor.feats]
theorem run2_term : ∀ (t : Term) (rest : List T2) (s : S2), t.Resolves lookup → topGt cAND s.stack →
    s.out.length + t.body.length ≤ size → s.feats.length + (t.feats lookup).length ≤ fsize →
    run2 lookup size fsize (t.toks2 ++ rest) s =
      run2 lookup size fsize rest ⟨t.pend ++ s.stack, t.body ++ s.out, t.feats lookup ++ s.feats⟩
  | .one f, rest, s, hres, htop, hcap, hf => by
    simp only [Term.Resolves] at hres
    simp only [Term.body] at hcap
    simp only [Term.feats] at hf
    simp only [Term.toks2, Term.pend, Term.body, Term.feats]
    exact run2_factor f rest s hres (topGt_mono (by decide) htop) hcap hf
  | .and f s1 s2 t, rest, s, hres, htop, hcap, hf => by
    simp only [Term.Resolves] at hres
    simp only [Term.body, List.length_append, List.length_reverse] at hcap
    simp only [Term.feats, List.length_append] at hf
    simp only [Term.toks2, List.append_assoc, List.cons_append]
    rw [run2_term t (.and :: (f.toks2 ++ rest)) s hres.2 htop (by omega) (by omega), run2_cons]
    simp only [step2]
    rw [popWhileLe_spec size cAND t.pend s.stack _ (Term.pend_le t) htop (by simp; omega)]
    simp only []
    rw [run2_factor f rest _ hres.1 (topGt_cons (by decide) _) (by simp; omega) (by simp; omega)]
    simp [Term.pend, Term.body, Term.feats]
theorem run2_expr : ∀ (e : Expr) (rest : List T2) (s : S2), e.Resolves lookup → topGt cOR s.stack →
    s.out.length + e.body.length ≤ size → s.feats.length + (e.feats lookup).length ≤ fsize →
    run2 lookup size fsize (e.toks2 ++ rest) s =
      run2 lookup size fsize rest ⟨e.pend ++ s.stack, e.body ++ s.out, e.feats lookup ++ s.feats⟩
  | .one t, rest, s, hres, htop, hcap, hf => by
    simp only [Expr.Resolves] at hres
    simp only [Expr.body] at hcap
    simp only [Expr.feats] at hf
    simp only [Expr.toks2, Expr.pend, Expr.body, Expr.feats]
    exact run2_term t rest s hres (topGt_mono (by decide) htop) hcap hf
  | .or t s1 s2 e, rest, s, hres, htop, hcap, hf => by
    simp only [Expr.Resolves] at hres
    simp only [Expr.body, List.length_append, List.length_reverse] at hcap
    simp only [Expr.feats, List.length_append] at hf
    simp only [Expr.toks2, List.append_assoc, List.cons_append]
    rw [run2_expr e (.or :: (t.toks2 ++ rest)) s hres.2 htop (by omega) (by omega), run2_cons]
    simp only [step2]
    rw [popWhileLe_spec size cOR e.pend s.stack _ (Expr.pend_le e) htop (by simp; omega)]
    simp only []
    rw [run2_term t rest _ hres.1 (topGt_cons (by decide) _) (by simp; omega) (by simp; omega)]
    simp [Expr.pend, Expr.body, Expr.feats]
end
end

end LyModel.Iff
