import LyModel.Iff.LemmasPass1
import LyModel.Iff.LemmasPack
import LyModel.Iff.LemmasLex2
/-!
Assembly: `lys_compile_iffeature` (model `compile`) on the rendering of a grammatical expression.
-/
namespace LyModel.Iff
open LyModel

/-! ### pass 1 does not depend on `sp` tokens / `checkversion` except through the version check -/
def S1.key (s : S1) : Int × Bool × Nat × Nat × Nat := (s.j, s.lastNot, s.fSize, s.fExp, s.exprSize)

theorem run1_key (fx : Fix) : ∀ (l : List T1) (s s' : S1), s.key = s'.key →
    (run1 fx l s).map S1.key = (run1 fx l s').map S1.key := by
  intro l
  induction l with
  | nil => intro s s' h; simp [run1, Except.map, h]
  | cons t r ih =>
    intro s s' h
    simp only [S1.key, Prod.mk.injEq] at h
    obtain ⟨hj, hl, hs, he, hx⟩ := h
    cases t with
    | lp => simp only [run1]; exact ih _ _ (by simp [S1.key, hj, hl, hs, he, hx])
    | rp =>
      simp only [run1, hj]
      split
      · simp [Except.map]
      · exact ih _ _ (by simp [S1.key, hj, hl, hs, he, hx])
    | sp => simp only [run1]; exact ih _ _ (by simp [S1.key, hj, hl, hs, he, hx])
    | uend => simp [run1, Except.map]
    | feat => simp only [run1]; exact ih _ _ (by simp [S1.key, hj, hs, he, hx])
    | not =>
      simp only [run1, hl]
      split
      · exact ih _ _ (by simp [S1.key, hj, hs, he, hx])
      · exact ih _ _ (by simp [S1.key, hj, hs, he, hx])
    | bin =>
      simp only [run1, he, hs]
      split
      · simp [Except.map]
      · exact ih _ _ (by simp [S1.key, hj, hs, he, hx])

theorem run1_dropSp (fx : Fix) : ∀ (l : List T1) (s : S1),
    (run1 fx l s).map S1.key = (run1 fx (l.filter notSp) s).map S1.key := by
  intro l
  induction l with
  | nil => intro s; rfl
  | cons t r ih =>
    intro s
    cases t with
    | sp =>
      have : notSp .sp = false := rfl
      simp only [List.filter_cons, this, Bool.false_eq_true, if_false, run1]
      rw [← ih s]
      exact run1_key fx r _ _ (by simp [S1.key])
    | lp => have : notSp .lp = true := rfl; simp only [List.filter_cons, this, if_true, run1]; exact ih _
    | rp =>
      have : notSp .rp = true := rfl
      simp only [List.filter_cons, this, if_true, run1]
      split
      · rfl
      · exact ih _
    | uend => have : notSp .uend = true := rfl; simp [List.filter_cons, this, run1]
    | feat => have : notSp .feat = true := rfl; simp only [List.filter_cons, this, if_true, run1]; exact ih _
    | not =>
      have : notSp .not = true := rfl
      simp only [List.filter_cons, this, if_true, run1]
      split <;> exact ih _
    | bin =>
      have : notSp .bin = true := rfl
      simp only [List.filter_cons, this, if_true, run1]
      split
      · rfl
      · exact ih _

theorem compileToks_key (fx : Fix) (lookup : Bytes → Option Nat) (t1 t1' : List T1) (t2 : List T2)
    (h : (run1 fx t1 {}).map S1.key = (run1 fx t1' {}).map S1.key) :
    compileToks fx lookup true t1 t2 = compileToks fx lookup true t1' t2 := by
  unfold compileToks
  cases h1 : run1 fx t1 {} with
  | error e =>
    cases h2 : run1 fx t1' {} with
    | error e' => rw [h1, h2] at h; simp [Except.map] at h; simp [h]
    | ok s' => rw [h1, h2] at h; simp [Except.map] at h
  | ok s =>
    cases h2 : run1 fx t1' {} with
    | error e' => rw [h1, h2] at h; simp [Except.map] at h
    | ok s' =>
      rw [h1, h2] at h
      simp only [Except.map, Except.ok.injEq, S1.key, Prod.mk.injEq] at h
      obtain ⟨hj, _, hs, he, hx⟩ := h
      simp [hj, hs, he, hx]

/-! ### the token-level theorem -/
theorem PT.code_le3 : ∀ p : PT, ∀ x ∈ p.code, x ≤ 3
  | .f _ => by simp [PT.code, cF_eq]
  | .not p => by
    intro x hx
    simp only [PT.code, List.mem_cons] at hx
    rcases hx with rfl | hx
    · decide
    · exact PT.code_le3 p x hx
  | .and a b => by
    intro x hx
    simp only [PT.code, List.mem_cons, List.mem_append] at hx
    rcases hx with rfl | hx | hx
    · decide
    · exact PT.code_le3 a x hx
    · exact PT.code_le3 b x hx
  | .or a b => by
    intro x hx
    simp only [PT.code, List.mem_cons, List.mem_append] at hx
    rcases hx with rfl | hx | hx
    · decide
    · exact PT.code_le3 a x hx
    · exact PT.code_le3 b x hx

/-- what the compiler returns for a grammatical expression -/
def Expr.compiled (lookup : Bytes → Option Nat) (e : Expr) : Compiled :=
  { size := e.code.length, expr := packFrom 0 e.code (List.replicate (nbytes e.code.length) 0), feats := e.feats lookup }

theorem code_length (e : Expr) : e.code.length = e.pend.length + e.body.length := by
  simp [Expr.code]

/-- pass 2 + final flush on the tokens of `e`, for any array sizes that are large enough -/
theorem pass2_tokens (lookup : Bytes → Option Nat) (e : Expr) (size fsize : Nat) (hres : e.Resolves lookup)
    (hsz : e.code.length ≤ size) (hfs : e.nfeat ≤ fsize) :
    run2 lookup size fsize e.toks2 {} = .ok ⟨e.pend, e.body, e.feats lookup⟩ ∧
    popAll size e.pend ⟨e.pend, e.body, e.feats lookup⟩ = .ok ⟨[], e.code, e.feats lookup⟩ := by
  have hcl := code_length e
  constructor
  · have := run2_expr lookup size fsize e [] {} hres trivial (by simp; omega)
      (by simp [Expr.feats_length]; omega)
    simpa [run2] using this
  · have := popAll_spec size e.pend ⟨e.pend, e.body, e.feats lookup⟩ (by simp; omega)
    simpa [Expr.code] using this

theorem compileToks_correct (fx : Fix) (lookup : Bytes → Option Nat) (e : Expr) (hres : e.Resolves lookup)
    (hH : fx.f13 = false → e.NoNotParenNot) : compileToks fx lookup true e.toks1 e.toks2 = .ok (e.compiled lookup) := by
  have h1 := run1_expr fx e [] {} hH rfl (by decide) (by intro h; simp at h)
  simp only [List.append_nil, run1] at h1
  have hnf := Expr.nfeat_eq e
  have hcl : e.clen false = e.code.length := Expr.clen_false e
  obtain ⟨h2, h3⟩ := pass2_tokens lookup e e.code.length e.nfeat hres (Nat.le_refl _) (Nat.le_refl _)
  unfold compileToks
  rw [h1]
  simp only [S1.after, hcl]
  have e1 : (0 : Nat) - (if (false = true) then 1 else 0) + e.code.length = e.code.length := by simp
  simp only [e1, Nat.zero_add]
  rw [h2]
  simp only []
  rw [h3]
  simp [Expr.compiled, Expr.feats_length, hnf, Nat.add_comm]

/-- evaluating the compiled form under any assignment gives the denotation -/
theorem evalIff_compiled (lookup : Bytes → Option Nat) (e : Expr) (hres : e.Resolves lookup) (env : Nat → Bool) :
    evalIff (e.compiled lookup) env = e.den lookup env := by
  have hct := Expr.code_tree lookup e
  have hv := Expr.tree_val lookup env e hres
  unfold evalIff Expr.compiled
  simp only []
  have := evalAux_PT (getop (packFrom 0 e.code (List.replicate (nbytes e.code.length) 0)))
    (fun k => env ((e.feats lookup).getD k 0)) env (e.tree lookup) e.code.length 0 0
    (by
      intro k _
      rw [Nat.zero_add, getop_pack e.code (by rw [hct.1]; exact PT.code_le3 _) k, hct.1])
    (by intro k _; simp [hct.2])
    (by rw [hct.1]; exact Nat.le_refl _)
  rw [this, hv]

/-! ### bytes -/
theorem lex1_render (e : Expr) : (lex1 false e.render).filter notSp = e.toks1 := by
  have := lex1_expr e [] trivial
  simpa [lex1] using this

theorem lex2_render (e : Expr) : lex2 e.render.reverse none false = e.toks2 := by
  have := lex2_expr e [] false false trivial
  simpa [lex2] using this

theorem compile_render (fx : Fix) (lookup : Bytes → Option Nat) (e : Expr) :
    compile fx lookup true e.render = compileToks fx lookup true e.toks1 e.toks2 := by
  unfold compile
  rw [lex2_render, compileToks_key fx lookup (lex1 false e.render) e.toks1 e.toks2]
  rw [run1_dropSp, lex1_render]

/-! ### monotonicity in the array sizes: a run that stays inside smaller arrays is the same run in larger ones -/
theorem emit_mono {size size' : Nat} (h : size ≤ size') {x : UInt8} {s s' : S2} (he : emit size x s = .ok s') :
    emit size' x s = .ok s' := by
  unfold emit at he ⊢
  split at he
  · rename_i hlt
    have : s.out.length < size' := Nat.lt_of_lt_of_le hlt h
    simp [this]; simpa using he
  · simp at he

theorem popUntilRP_mono {size size' : Nat} (h : size ≤ size') : ∀ (st : List UInt8) (s s' : S2),
    popUntilRP size st s = .ok s' → popUntilRP size' st s = .ok s'
  | [], _, _, he => by simp [popUntilRP] at he
  | x :: st, s, s', he => by
    simp only [popUntilRP] at he ⊢
    split
    · rename_i hx; simpa [hx] using he
    · rename_i hx
      simp only [hx, if_false] at he
      cases hem : emit size x s with
      | error e => simp [hem] at he
      | ok s1 =>
        rw [hem] at he
        rw [emit_mono h hem]
        exact popUntilRP_mono h st s1 s' he

theorem popWhileLe_mono {size size' : Nat} (h : size ≤ size') (lim : UInt8) : ∀ (st : List UInt8) (s s' : S2),
    popWhileLe size lim st s = .ok s' → popWhileLe size' lim st s = .ok s'
  | [], _, _, he => by simpa [popWhileLe] using he
  | x :: st, s, s', he => by
    simp only [popWhileLe] at he ⊢
    split
    · rename_i hx
      simp only [hx, if_true] at he
      cases hem : emit size x s with
      | error e => simp [hem] at he
      | ok s1 =>
        rw [hem] at he
        rw [emit_mono h hem]
        exact popWhileLe_mono h lim st s1 s' he
    · rename_i hx; simpa [hx] using he

theorem popAll_mono {size size' : Nat} (h : size ≤ size') : ∀ (st : List UInt8) (s s' : S2),
    popAll size st s = .ok s' → popAll size' st s = .ok s'
  | [], _, _, he => by simpa [popAll] using he
  | x :: st, s, s', he => by
    simp only [popAll] at he ⊢
    cases hem : emit size x s with
    | error e => simp [hem] at he
    | ok s1 =>
      rw [hem] at he
      rw [emit_mono h hem]
      exact popAll_mono h st s1 s' he

theorem step2_mono (lookup : Bytes → Option Nat) {size size' fsize fsize' : Nat} (h : size ≤ size') (hf : fsize ≤ fsize')
    (t : T2) (s s' : S2) (he : step2 lookup size fsize t s = .ok s') : step2 lookup size' fsize' t s = .ok s' := by
  cases t with
  | rp => simpa [step2] using he
  | lp => exact popUntilRP_mono h _ _ _ he
  | not => simpa [step2] using he
  | and =>
    simp only [step2] at he ⊢
    cases hp : popWhileLe size cAND s.stack s with
    | error e => simp [hp] at he
    | ok s1 => rw [hp] at he; rw [popWhileLe_mono h cAND _ _ _ hp]; exact he
  | or =>
    simp only [step2] at he ⊢
    cases hp : popWhileLe size cOR s.stack s with
    | error e => simp [hp] at he
    | ok s1 => rw [hp] at he; rw [popWhileLe_mono h cOR _ _ _ hp]; exact he
  | feat name =>
    simp only [step2] at he ⊢
    cases hem : emit size cF s with
    | error e => simp [hem] at he
    | ok s1 =>
      rw [hem] at he
      rw [emit_mono h hem]
      cases hl : lookup name with
      | none => simp [hl] at he
      | some f =>
        simp only [hl] at he ⊢
        split at he
        · rename_i hlt
          have : s1.feats.length < fsize' := Nat.lt_of_lt_of_le hlt hf
          simp [this]; simpa using he
        · simp at he

theorem run2_mono (lookup : Bytes → Option Nat) {size size' fsize fsize' : Nat} (h : size ≤ size') (hf : fsize ≤ fsize') :
    ∀ (l : List T2) (s s' : S2), run2 lookup size fsize l s = .ok s' → run2 lookup size' fsize' l s = .ok s'
  | [], _, _, he => by simpa [run2] using he
  | t :: r, s, s', he => by
    simp only [run2] at he ⊢
    cases hs : step2 lookup size fsize t s with
    | error e => simp [hs] at he
    | ok s1 =>
      rw [hs] at he
      rw [step2_mono lookup h hf t s s1 hs]
      exact run2_mono lookup h hf r s1 s' he

/-- whatever pass 1 computed: if the compiler returns at all, it returns the right thing (no F13 hypothesis) -/
theorem compileToks_sound (fx : Fix) (lookup : Bytes → Option Nat) (e : Expr) (hres : e.Resolves lookup) (t1 : List T1)
    (c : Compiled) (h : compileToks fx lookup true t1 e.toks2 = .ok c) : c = e.compiled lookup := by
  unfold compileToks at h
  cases h1 : run1 fx t1 {} with
  | error er => simp [h1] at h
  | ok s1 =>
    simp only [h1] at h
    split at h
    · simp at h
    · split at h
      · simp at h
      · split at h
        · simp at h
        · cases h2 : run2 lookup s1.exprSize s1.fSize e.toks2 {} with
          | error er => simp [h2] at h
          | ok s2 =>
            simp only [h2] at h
            cases h3 : popAll s1.exprSize s2.stack s2 with
            | error er => simp [h3] at h
            | ok s3 =>
              simp only [h3] at h
              split at h
              · simp at h
              · rename_i hlen
                -- rerun in arrays that are large enough
                have hS : s1.exprSize ≤ max s1.exprSize e.code.length := Nat.le_max_left _ _
                have hF : s1.fSize ≤ max s1.fSize e.nfeat := Nat.le_max_left _ _
                obtain ⟨g2, g3⟩ := pass2_tokens lookup e (max s1.exprSize e.code.length) (max s1.fSize e.nfeat) hres
                  (Nat.le_max_right _ _) (Nat.le_max_right _ _)
                have e2 := run2_mono lookup hS hF _ _ _ h2
                rw [g2] at e2
                have e2' : s2 = ⟨e.pend, e.body, e.feats lookup⟩ := by
                  simpa using e2.symm
                subst e2'
                have e3 := popAll_mono hS _ _ _ h3
                rw [g3] at e3
                have e3' : s3 = ⟨[], e.code, e.feats lookup⟩ := by simpa using e3.symm
                subst e3'
                simp only [not_or, Decidable.not_not] at hlen
                simp only [Except.ok.injEq] at h
                rw [← h]
                simp [Expr.compiled, ← hlen.1]

end LyModel.Iff
