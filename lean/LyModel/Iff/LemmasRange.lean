import LyModel.Iff.Range
/-!
`lyplg_type_validate_range` decides membership in the union of the parts when they are ascending, and the
base-restriction walk of `lys_compile_type_range` only lets a derived part through when it lies within one base part.
-/
namespace LyModel.Range
open LyModel

/-- parts are well-formed and ascending (RFC 7950 §9.2.4 also wants them disjoint; two neighbours may share an
end point here because that is all `lys_compile_type_range` guarantees for a stand-alone `max` part, finding F76) -/
def Ascending : List Part → Prop
  | [] => True
  | [p] => p.min ≤ p.max
  | p :: q :: rest => p.min ≤ p.max ∧ p.max ≤ q.min ∧ Ascending (q :: rest)

theorem Ascending.tail {p : Part} {rest : List Part} (h : Ascending (p :: rest)) : Ascending rest := by
  cases rest with
  | nil => trivial
  | cons q r => exact h.2.2

theorem Ascending.head_le {p : Part} {rest : List Part} (h : Ascending (p :: rest)) : p.min ≤ p.max := by
  cases rest with
  | nil => exact h
  | cons q r => exact h.1

theorem Ascending.le_all : ∀ {p : Part} {rest : List Part}, Ascending (p :: rest) → ∀ q ∈ rest, p.max ≤ q.min
  | _, [], _, q, hq => by simp at hq
  | p, r :: rest, h, q, hq => by
    simp only [List.mem_cons] at hq
    rcases hq with rfl | hq
    · exact h.2.1
    · have h1 : p.max ≤ r.min := h.2.1
      have h2 : r.min ≤ r.max := Ascending.head_le h.2.2
      have h3 := Ascending.le_all h.2.2 q hq
      omega

/-- accepting is always sound … -/
theorem validate_sound : ∀ (parts : List Part) (v : Int), parts ≠ [] → validate parts v = true →
    ∃ p ∈ parts, p.min ≤ v ∧ v ≤ p.max
  | [], _, h, _ => absurd rfl h
  | p :: rest, v, _, hv => by
    simp only [validate] at hv
    split at hv
    · simp at hv
    · rename_i h1
      split at hv
      · rename_i h2
        exact ⟨p, by simp, by omega, h2⟩
      · split at hv
        · simp at hv
        · rename_i h3
          have hne : rest ≠ [] := by intro e; simp [e] at h3
          obtain ⟨q, hq, hm⟩ := validate_sound rest v hne hv
          exact ⟨q, by simp [hq], hm⟩

/-- … and complete when the parts are ascending -/
theorem validate_complete : ∀ (parts : List Part) (v : Int), Ascending parts →
    (∃ p ∈ parts, p.min ≤ v ∧ v ≤ p.max) → validate parts v = true
  | [], _, _, h => by obtain ⟨p, hp, _⟩ := h; simp at hp
  | p :: rest, v, hasc, h => by
    obtain ⟨q, hq, hm⟩ := h
    simp only [List.mem_cons] at hq
    have hple := Ascending.head_le hasc
    simp only [validate]
    by_cases h1 : v < p.min
    · -- impossible: every part starts at or above p.min
      rcases hq with rfl | hq
      · omega
      · have := Ascending.le_all hasc q hq
        omega
    · by_cases h2 : v ≤ p.max
      · simp [h1, h2]
      · have hq' : q ∈ rest := by
          rcases hq with rfl | hq
          · omega
          · exact hq
        have hne : rest.isEmpty = false := by
          cases rest with
          | nil => simp at hq'
          | cons _ _ => rfl
        simp only [h1, h2, hne, if_false, Bool.false_eq_true]
        exact validate_complete rest v hasc.tail ⟨q, hq', hm⟩

/-- one derived part lies within one base part -/
def Within (p : Part) (base : List Part) : Prop := ∃ b ∈ base, b.min ≤ p.min ∧ p.max ≤ b.max

theorem mem_of_getElem? {α} {l : List α} {i : Nat} {a : α} (h : l[i]? = some a) : a ∈ l := by
  obtain ⟨hi, rfl⟩ := List.getElem?_eq_some_iff.mp h
  exact List.getElem_mem hi

/-- the subset walk: every derived part from `u` on (below `parts_done`) passed only if it lies within a base part -/
theorem walk_sound (parts base : List Part) (done : Nat) : ∀ (fuel u v : Nat),
    walk parts base done fuel u v = .ok true →
    ∀ k, u ≤ k → k < done → ∃ p, parts[k]? = some p ∧ Within p base := by
  intro fuel
  induction fuel with
  | zero => intro u v h; simp [walk] at h
  | succ n ih =>
    intro u v h k hk hkd
    simp only [walk] at h
    split at h
    · rename_i hcond
      split at h
      · simp at h
      · simp at h
      · rename_i p b hp hb
        have hbm : b ∈ base := mem_of_getElem? hb
        -- the four ways the walk advances
        have adv_u : ∀ v', walk parts base done n (u + 1) v' = .ok true → b.min ≤ p.min → p.max ≤ b.max →
            ∃ q, parts[k]? = some q ∧ Within q base := by
          intro v' hw h1 h2
          by_cases hku : k = u
          · subst hku; exact ⟨p, hp, b, hbm, h1, h2⟩
          · exact ih (u + 1) v' hw k (by omega) hkd
        have adv_v : walk parts base done n u (v + 1) = .ok true → ∃ q, parts[k]? = some q ∧ Within q base :=
          fun hw => ih u (v + 1) hw k hk hkd
        split at h
        · simp at h
        · rename_i hlt
          have hge : b.min ≤ p.min := by omega
          split at h
          · rename_i hsingle
            have hbs : b.min = b.max := by simpa using hsingle
            split at h
            · rename_i heq
              have heq' : b.min = p.min := by simpa using heq
              split at h
              · simp at h
              · rename_i hps
                have hps' : p.min = p.max := by simpa using hps
                exact adv_u (v + 1) h hge (by omega)
            · exact adv_v h
          · split at h
            · rename_i hpsingle
              split at h
              · exact adv_v h
              · rename_i hmax
                exact adv_u v h hge (by omega)
            · split at h
              · split at h
                · exact adv_v h
                · simp at h
              · rename_i hmax
                exact adv_u v h hge (by omega)
    · rename_i hcond
      simp only [Except.ok.injEq, beq_iff_eq] at h
      omega

end LyModel.Range
