import LyModel.Iff.LemmasLex
/-! Lexer lemma of pass 2: over the reversed rendering of a grammatical expression `lex2` yields `toks2`. -/
namespace LyModel.Iff
open LyModel

theorem space_ne_paren {c : UInt8} (h : isSpace c = true) : (c == chRP) = false ∧ (c == chLP) = false := by
  constructor <;> (apply beq_false_of_ne; intro e; subst e; revert h; decide)

theorem lex2_delim_ps : ∀ (rest : Bytes) (ps ps' : Bool), Delim2 rest → lex2 rest none ps = lex2 rest none ps'
  | [], _, _, _ => rfl
  | c :: r, ps, ps', h => by
    rcases h with h | h
    · have := space_ne_paren h
      simp [lex2, this.1, this.2, h]
    · subst h
      have : (chLP == chRP) = false := by decide
      simp [lex2, this]

theorem lex2_spaces : ∀ (s X : Bytes) (ps : Bool), s ≠ [] → (∀ c ∈ s, isSpace c = true) →
    lex2 (s ++ X) none ps = lex2 X none true
  | [], _, _, h, _ => absurd rfl h
  | c :: s, X, ps, _, hs => by
    have hc := hs c (by simp)
    have hp := space_ne_paren hc
    simp only [List.cons_append, lex2, hp.1, hp.2, hc, Bool.false_eq_true, if_false, if_true]
    cases s with
    | nil => rfl
    | cons d s' => exact lex2_spaces (d :: s') X true (by simp) (fun x hx => hs x (List.mem_cons_of_mem _ hx))

theorem lex2_optspaces (s X : Bytes) (ps : Bool) (hs : ∀ c ∈ s, isSpace c = true) :
    ∃ ps', lex2 (s ++ X) none ps = lex2 X none ps' := by
  cases s with
  | nil => exact ⟨ps, rfl⟩
  | cons c s' => exact ⟨true, lex2_spaces (c :: s') X ps (by simp) hs⟩

/-- collecting a word leftwards until a blank, `(` or the start -/
theorem lex2_word_acc : ∀ (rw rest acc : Bytes) (r b ps' : Bool), (∀ c ∈ rw, isWordCh c = true) → Delim2 rest →
    lex2 (rw ++ rest) (some (acc, r)) b = classify2 (rw.reverse ++ acc) r :: lex2 rest none ps'
  | [], rest, acc, r, b, ps', _, hd => by
    cases rest with
    | nil => simp [lex2]
    | cons c rs =>
      rcases hd with h | h
      · have hp := space_ne_paren h
        simp [lex2, h, hp.1, hp.2]
      · subst h
        have h1 : isSpace chLP = false := isSpace_chLP
        have h2 : (chLP == chRP) = false := by decide
        simp [lex2, h1, h2]
  | c :: rw, rest, acc, r, b, ps', hw, hd => by
    have hc := (isWordCh_iff c).mp (hw c (by simp))
    have h1 : (c == chLP) = false := beq_false_of_ne hc.2.1
    simp only [List.cons_append, lex2, hc.1, h1, Bool.false_eq_true, if_false]
    rw [lex2_word_acc rw rest (c :: acc) r false ps' (fun x hx => hw x (List.mem_cons_of_mem _ hx)) hd]
    simp

theorem lex2_word (w rest : Bytes) (ps ps' : Bool) (hne : w ≠ []) (hw : ∀ c ∈ w, isWordCh c = true) (hd : Delim2 rest) :
    lex2 (w.reverse ++ rest) none ps = classify2 w ps :: lex2 rest none ps' := by
  cases hrev : w.reverse with
  | nil => simp at hrev; exact absurd hrev hne
  | cons c rw =>
    have hmem : ∀ x ∈ c :: rw, isWordCh x = true := by
      intro x hx
      exact hw x (by rw [← List.mem_reverse, hrev]; exact hx)
    have hc := (isWordCh_iff c).mp (hmem c (by simp))
    have h1 : (c == chLP) = false := beq_false_of_ne hc.2.1
    have h2 : (c == chRP) = false := beq_false_of_ne hc.2.2
    simp only [List.cons_append, lex2, h1, h2, hc.1, Bool.false_eq_true, if_false]
    rw [lex2_word_acc rw rest [c] ps false ps' (fun x hx => hmem x (List.mem_cons_of_mem _ hx)) hd]
    have : rw.reverse ++ [c] = w := by
      have := congrArg List.reverse hrev
      simpa using this.symm
    rw [this]

theorem classify2_ident (n : Ident) (ps : Bool) : classify2 n.s ps = .feat n.s := by
  have h1 : (n.s == kwNot) = false := beq_false_of_ne n.nokw.1
  have h2 : (n.s == kwAnd) = false := beq_false_of_ne n.nokw.2.1
  have h3 : (n.s == kwOr) = false := beq_false_of_ne n.nokw.2.2
  simp [classify2, h1, h2, h3]

theorem classify2_not : classify2 kwNot true = .not := by decide
theorem classify2_and : classify2 kwAnd true = .and := by decide
theorem classify2_or : classify2 kwOr true = .or := by decide

theorem Delim2_rev_sep (s : Sep) (X : Bytes) : Delim2 (s.s.reverse ++ X) := by
  cases h : s.s.reverse with
  | nil => simp at h; exact absurd h s.ne
  | cons c r => exact Or.inl (s.sp c (by rw [← List.mem_reverse, h]; simp))

theorem Delim2_rev_optsep_lp (o : OptSep) (X : Bytes) : Delim2 (o.s.reverse ++ chLP :: X) := by
  cases h : o.s.reverse with
  | nil => exact Or.inr rfl
  | cons c r => exact Or.inl (o.sp c (by rw [← List.mem_reverse, h]; simp))

theorem rev_sep_ne (s : Sep) : s.s.reverse ≠ [] := by
  intro h; exact s.ne (by simpa using h)

theorem rev_sep_sp (s : Sep) : ∀ c ∈ s.s.reverse, isSpace c = true := fun c hc => s.sp c (by simpa using hc)
theorem rev_optsep_sp (o : OptSep) : ∀ c ∈ o.s.reverse, isSpace c = true := fun c hc => o.sp c (by simpa using hc)

theorem kw_word : (∀ c ∈ kwNot, isWordCh c = true) ∧ (∀ c ∈ kwAnd, isWordCh c = true) ∧ (∀ c ∈ kwOr, isWordCh c = true) := by
  decide

mutual
theorem lex2_factor : ∀ (f : Factor) (rest : Bytes) (ps ps' : Bool), Delim2 rest →
    lex2 (f.render.reverse ++ rest) none ps = f.toks2 ++ lex2 rest none ps'
  | .ident n, rest, ps, ps', hd => by
    simp only [Factor.render, Factor.toks2, List.singleton_append]
    rw [lex2_word n.s rest ps ps' n.ne n.clean hd, classify2_ident]
  | .not s f, rest, ps, ps', hd => by
    simp only [Factor.render, Factor.toks2, List.reverse_append, List.append_assoc]
    rw [lex2_factor f _ ps true (Delim2_rev_sep s _), lex2_spaces _ _ true (rev_sep_ne s) (rev_sep_sp s),
      lex2_word kwNot rest true ps' (by decide) kw_word.1 hd, classify2_not]
    simp
  | .paren o1 e o2, rest, ps, ps', hd => by
    simp only [Factor.render, Factor.toks2, List.reverse_cons, List.reverse_append, List.reverse_nil, List.nil_append,
      List.append_assoc, List.singleton_append, List.cons_append, lex2, beq_self_eq_true, if_true]
    congr 1
    obtain ⟨p1, h1⟩ := lex2_optspaces o2.s.reverse (e.render.reverse ++ (o1.s.reverse ++ chLP :: rest)) false (rev_optsep_sp o2)
    rw [h1, lex2_expr e _ p1 false (Delim2_rev_optsep_lp o1 rest)]
    congr 1
    obtain ⟨p2, h2⟩ := lex2_optspaces o1.s.reverse (chLP :: rest) false (rev_optsep_sp o1)
    rw [h2]
    have : (chLP == chRP) = false := by decide
    simp only [lex2, this, Bool.false_eq_true, if_false, beq_self_eq_true, if_true]
    rw [lex2_delim_ps rest false ps' hd]
theorem lex2_term : ∀ (t : Term) (rest : Bytes) (ps ps' : Bool), Delim2 rest →
    lex2 (t.render.reverse ++ rest) none ps = t.toks2 ++ lex2 rest none ps'
  | .one f, rest, ps, ps', hd => by simpa [Term.render, Term.toks2] using lex2_factor f rest ps ps' hd
  | .and f s1 s2 t, rest, ps, ps', hd => by
    simp only [Term.render, Term.toks2, List.reverse_append, List.append_assoc]
    rw [lex2_term t _ ps true (Delim2_rev_sep s2 _), lex2_spaces _ _ true (rev_sep_ne s2) (rev_sep_sp s2),
      lex2_word kwAnd _ true true (by decide) kw_word.2.1 (Delim2_rev_sep s1 _), classify2_and,
      lex2_spaces _ _ true (rev_sep_ne s1) (rev_sep_sp s1), lex2_factor f rest true ps' hd]
    simp
theorem lex2_expr : ∀ (e : Expr) (rest : Bytes) (ps ps' : Bool), Delim2 rest →
    lex2 (e.render.reverse ++ rest) none ps = e.toks2 ++ lex2 rest none ps'
  | .one t, rest, ps, ps', hd => by simpa [Expr.render, Expr.toks2] using lex2_term t rest ps ps' hd
  | .or t s1 s2 e, rest, ps, ps', hd => by
    simp only [Expr.render, Expr.toks2, List.reverse_append, List.append_assoc]
    rw [lex2_expr e _ ps true (Delim2_rev_sep s2 _), lex2_spaces _ _ true (rev_sep_ne s2) (rev_sep_sp s2),
      lex2_word kwOr _ true true (by decide) kw_word.2.2 (Delim2_rev_sep s1 _), classify2_or,
      lex2_spaces _ _ true (rev_sep_ne s1) (rev_sep_sp s1), lex2_term t rest true ps' hd]
    simp
end

end LyModel.Iff
