import LyModel.Iff.LemmasPackByte
/-! `iff_setop` / `lysc_iff_getop` on the byte array and for the whole sequence of writes of pass 2. -/
namespace LyModel.Iff
open LyModel

theorem length_setop (l : Bytes) (op : UInt8) (pos : Nat) : (setop l op pos).length = l.length := by
  simp [setop]

theorem getD_set_same {α} (l : List α) (i : Nat) (v d : α) (h : i < l.length) : (l.set i v).getD i d = v := by
  simp [List.getD_eq_getElem?_getD, List.getElem?_set, h]

theorem getD_set_ne {α} (l : List α) (i j : Nat) (v d : α) (h : i ≠ j) : (l.set i v).getD j d = l.getD j d := by
  simp [List.getD_eq_getElem?_getD, List.getElem?_set, h]

/-- `lysc_iff_getop` after `iff_setop` at the same position returns the stored value (for every position inside the array) -/
theorem getop_setop_same (l : Bytes) (op : UInt8) (pos : Nat) (h : pos / 4 < l.length) (hop : op ≤ 3) :
    getop (setop l op pos) pos = op := by
  unfold getop setop
  rw [getD_set_same _ _ _ _ h]
  exact getRec_setRec_same _ _ _ (Nat.mod_lt _ (by decide)) hop

/-- … and leaves every other position unchanged -/
theorem getop_setop_other (l : Bytes) (op : UInt8) (pos pos' : Nat) (hne : pos ≠ pos') (hop : op ≤ 3) :
    getop (setop l op pos) pos' = getop l pos' := by
  unfold getop setop
  by_cases hb : pos / 4 = pos' / 4
  · by_cases hin : pos / 4 < l.length
    · rw [← hb, getD_set_same _ _ _ _ hin]
      exact getRec_setRec_other _ _ _ _ (Nat.mod_lt _ (by decide)) (Nat.mod_lt _ (by decide)) (by omega) hop
    · rw [List.set_eq_of_length_le (by omega)]
  · rw [getD_set_ne _ _ _ _ _ hb]

theorem getop_zeros (n i : Nat) : getop (List.replicate n 0) i = 0 := by
  unfold getop
  have h : (List.replicate n (0 : UInt8)).getD (i / 4) 0 = 0 := by
    simp only [List.getD_eq_getElem?_getD, List.getElem?_replicate]
    split <;> rfl
  rw [h]
  exact getRec_zero_fin ⟨i % 4, Nat.mod_lt _ (by decide)⟩

theorem packFrom_spec : ∀ (ops : List UInt8) (k : Nat) (b : Bytes), k + ops.length ≤ 4 * b.length → (∀ x ∈ ops, x ≤ 3) →
    (packFrom k ops b).length = b.length ∧
    ∀ i, getop (packFrom k ops b) i = if k ≤ i ∧ i < k + ops.length then ops.getD (i - k) 0 else getop b i := by
  intro ops
  induction ops with
  | nil =>
    intro k b _ _
    refine ⟨by simp [packFrom], ?_⟩
    intro i
    have : ¬ (k ≤ i ∧ i < k + ([] : List UInt8).length) := by simp
    rw [if_neg this]
    rfl
  | cons op rest ih =>
    intro k b hlen hops
    have ih' := ih (k + 1) b (by simp at hlen; omega) (fun x hx => hops x (by simp [hx]))
    have hop : op ≤ 3 := hops op (by simp)
    refine ⟨by simp [packFrom, length_setop, ih'.1], ?_⟩
    intro i
    simp only [packFrom]
    by_cases hik : i = k
    · subst hik
      rw [getop_setop_same _ _ _ (by rw [ih'.1]; simp at hlen; omega) hop]
      simp
    · rw [getop_setop_other _ _ _ _ (Ne.symm hik) hop, ih'.2 i]
      by_cases hr : k + 1 ≤ i ∧ i < k + 1 + rest.length
      · have h2 : k ≤ i ∧ i < k + (op :: rest).length := by simp; omega
        rw [if_pos hr, if_pos h2]
        have : i - k = (i - (k + 1)) + 1 := by omega
        rw [this, List.getD_cons_succ]
      · have h2 : ¬ (k ≤ i ∧ i < k + (op :: rest).length) := by simp at hr ⊢; omega
        rw [if_neg hr, if_neg h2]

theorem nbytes_ge (n : Nat) : n ≤ 4 * nbytes n := by
  unfold nbytes
  split <;> omega

/-- the record array built by the writes of pass 2 reads back as the written records (and 0 = calloc beyond them) -/
theorem getop_pack (ops : List UInt8) (hops : ∀ x ∈ ops, x ≤ 3) (i : Nat) :
    getop (packFrom 0 ops (List.replicate (nbytes ops.length) 0)) i = ops.getD i 0 := by
  have h := (packFrom_spec ops 0 (List.replicate (nbytes ops.length) 0) (by simpa using nbytes_ge ops.length) hops).2 i
  rw [h]
  by_cases hi : i < ops.length
  · simp [hi]
  · simp only [Nat.zero_le, true_and, Nat.zero_add, hi, if_false, getop_zeros]
    simp [List.getD_eq_getElem?_getD, List.getElem?_eq_none (Nat.le_of_not_lt hi)]

end LyModel.Iff
