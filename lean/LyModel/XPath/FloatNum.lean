import LyModel.XPath.Num
import LyModel.XPath.NumLex
/-!
# `Float` as the number type of the driver

Used only by `lydrv` to execute the evaluator against libyang (whose numbers are x87 `long double`).  The check module
keeps generated numbers inside the range where IEEE doubles and `long double` agree exactly (small integers and dyadic
fractions); no theorem depends on this file.
-/
namespace LyModel.XPath
open LyModel NumLex

namespace FloatNum

def truncF (x : Float) : Float :=
  if x.isNaN || x.isInf then x
  else
    let r := if x < 0 then x.ceil else x.floor
    if r == 0 then 0.0 else r

def modF (x y : Float) : Float :=
  if x.isNaN || y.isNaN || x.isInf || y == 0 then 0.0 / 0.0
  else if y.isInf then x
  else
    let q := x / y
    let t := if q < 0 then q.ceil else q.floor
    let r := x - y * t
    if r == 0 then (if x < 0 || (x == 0 && 1.0 / x < 0) then -0.0 else 0.0) else r

def roundRec (x : Float) : Float :=
  if x.isNaN || x.isInf || x == 0 then x
  else if x < 0 && x >= -0.5 then -0.0
  else (x + 0.5).floor

def pow10 (k : Nat) : Float := Float.ofScientific 1 false k

def isInt (x : Float) : Bool := x == x.floor

/-- exact decimal of a finite double that has at most 17 fraction digits (else rounded there) -/
def toDec (x : Float) : Dec :=
  let a := x.abs
  let rec go (k : Nat) (fuel : Nat) : Dec :=
    match fuel with
    | 0 => ⟨x < 0, (a * pow10 k).round.toUInt64.toNat, k⟩
    | f + 1 => if isInt (a * pow10 k) then ⟨x < 0, (a * pow10 k).toUInt64.toNat, k⟩ else go (k + 1) f
  go 0 17

def str (s : String) : Bytes := s.toUTF8.toList

def toStrF (c : Bool) (x : Float) : Bytes :=
  if x.isNaN then str "NaN"
  else if x == 0 then str "0"
  else if x.isInf then (if x > 0 then str "Infinity" else str "-Infinity")
  else if c then
    if isInt x then fmtC (toDec x)
    else
      -- "%.1Lf": one fractional digit, ties to even on the binary value
      let a := x.abs
      let t := a * 10
      let fl := t.floor
      let diff := t - fl
      let n := fl.toUInt64.toNat
      let n' := if diff > 0.5 then n + 1 else if diff < 0.5 then n else (if n % 2 == 1 then n + 1 else n)
      (if x < 0 then [0x2d] else []) ++ natDigits (n' / 10) ++ [0x2e] ++ natDigits (n' % 10)
  else fmtRec (toDec x)

def ofLexed : Lexed → Float
  | .dec neg m e =>
    let v := if e < 0 then Float.ofScientific m true e.natAbs else Float.ofScientific m false e.natAbs
    if neg then -v else v
  | .hex neg m e =>
    let v := (Float.ofNat m).scaleB e
    if neg then -v else v
  | .inf neg => if neg then -(1.0 / 0.0) else 1.0 / 0.0
  | .nan => 0.0 / 0.0
  | .invalid => 0.0 / 0.0

end FloatNum

open FloatNum in
instance : XNum Float where
  ofNat := Float.ofNat
  ofDec m s := Float.ofScientific m true s
  nan := 0.0 / 0.0
  neg x := -x
  add := (· + ·)
  sub := (· - ·)
  mul := (· * ·)
  div := (· / ·)
  mod := modF
  lt a b := a < b
  le a b := a <= b
  eq a b := a == b
  isNaN := Float.isNaN
  isFinite x := !(x.isNaN || x.isInf)
  isZero x := x == 0
  floor := Float.floor
  ceil := Float.ceil
  round := roundRec
  trunc := truncF
  negZero := -0.0
  toStr := toStrF
  ofStr c s := ofLexed (if c then strtoldNumber s else recNumber s)

end LyModel.XPath
