import LyModel.Base
/-! # Abstract syntax of the XPath fragment X1 (XPath 1.0 REC §2–§3, all axes except `namespace`). -/
namespace LyModel.XPath

inductive Axis
  | child | descendant | parent | ancestor | followingSibling | precedingSibling | following | preceding
  | attribute | self | descendantOrSelf | ancestorOrSelf
deriving DecidableEq, Repr, Inhabited

/-- REC §2.2: reverse axes contain only nodes before the context node in document order -/
def Axis.isReverse : Axis → Bool
  | .ancestor | .ancestorOrSelf | .preceding | .precedingSibling => true
  | _ => false

inductive Test
  /-- QName; prefix = YANG module name (JSON-style), no prefix = any module -/
  | name (pfx : Option Bytes) (loc : Bytes)
  /-- `*` -/
  | any
  /-- `prefix:*` -/
  | anyIn (pfx : Bytes)
  /-- `node()` -/
  | node
  /-- `text()` -/
  | text
  /-- `comment()`: the data tree has no comment nodes -/
  | comment
deriving Repr, Inhabited

inductive BinOp
  | or | and | eq | ne | lt | le | gt | ge | add | sub | mul | div | mod | union
deriving DecidableEq, Repr, Inhabited

mutual
inductive Expr
  | lit (s : Bytes)
  /-- numeric literal `mant / 10^scale` -/
  | num (mant scale : Nat)
  | fn (name : String) (args : List Expr)
  | bin (op : BinOp) (a b : Expr)
  | neg (a : Expr)
  /-- location path / path expression: start, then steps -/
  | path (start : Start) (steps : List Step)
  /-- filter expression `(e)[p1][p2]…` -/
  | filter (e : Expr) (preds : List Expr)
inductive Start
  | root
  | ctx
  | expr (e : Expr)
inductive Step
  | mk (axis : Axis) (test : Test) (preds : List Expr)
end

instance : Inhabited Expr := ⟨.lit []⟩

end LyModel.XPath
