import LyModel.Base
/-!
# The key-predicate fast path of a child step, abstractly  (`moveto_node_hash_child`, property C08)

A child step `name[k1='v1']…[kn='vn']` (or `name[.='v']`) is answered per context node by one lookup in the children index
(`lyd_find_sibling_first` → `lyd_find_sibling_val`: the children hash table when the parent has one, a linear scan
otherwise) instead of filtering all children.  `Index` is the contract of that lookup, whichever way it is implemented:
it returns the first child, in sibling order, that is an instance of the schema node with the given key/value tuple.
-/
namespace LyModel.XPath.FastPath

variable {Node Key : Type} [DecidableEq Key]

/-- generic evaluation: every child of every context node (in order) that is an instance with this key tuple -/
def generic (kids : Node → List Node) (key : Node → Option Key) (ctx : List Node) (k : Key) : List Node :=
  ctx.flatMap fun p => (kids p).filter fun x => key x == some k

/-- lookup evaluation: at most one node per context node, whatever the index returns -/
def fast (idx : Node → Key → Option Node) (ctx : List Node) (k : Key) : List Node :=
  ctx.filterMap fun p => idx p k

/-- contract of the children index (hash table or linear scan): first matching child in sibling order -/
def IsIndex (kids : Node → List Node) (key : Node → Option Key) (idx : Node → Key → Option Node) : Prop :=
  ∀ p k, idx p k = (kids p).find? fun x => key x == some k

/-- instances of one list / leaf-list under one parent have pairwise different key tuples (RFC 7950 §7.8.2, §7.7) -/
def KeysUnique (key : Node → Option Key) (l : List Node) : Prop :=
  l.Pairwise fun a b => key a = none ∨ key a ≠ key b

theorem filter_eq_find?_toList (key : Node → Option Key) (k : Key) :
    ∀ l : List Node, KeysUnique key l →
      (l.filter fun x => key x == some k) = (l.find? fun x => key x == some k).toList := by
  intro l
  induction l with
  | nil => intro _; rfl
  | cons a r ih =>
    intro hu
    rw [KeysUnique, List.pairwise_cons] at hu
    obtain ⟨ha, hr⟩ := hu
    by_cases hk : (key a == some k) = true
    · simp only [List.filter_cons, List.find?_cons, hk, if_true, Option.toList_some, List.cons.injEq, true_and]
      rw [List.filter_eq_nil_iff]
      intro b hb hbk
      have hak : key a = some k := by simpa using hk
      have hbk' : key b = some k := by simpa using hbk
      rcases ha b hb with h | h
      · rw [hak] at h; cases h
      · exact h (hak.trans hbk'.symm)
    · have hk' : (key a == some k) = false := by simpa using hk
      simp only [List.filter_cons, List.find?_cons, hk', Bool.false_eq_true, if_false]
      exact ih hr

end LyModel.XPath.FastPath
