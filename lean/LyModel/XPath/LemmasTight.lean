import LyModel.XPath.LemmasLexRtT
/-!
The tight spacing `Render.tightBs` of the abbreviated tokens of a well-formed expression always satisfies `Render.spacingB`:
the single-blank fallback of `Render.renderT` is never taken.
-/
namespace LyModel.XPath.LemmasTight
open LyModel LyModel.Generated LyModel.XPath.Lex LyModel.XPath.Parse LyModel.XPath.Render LyModel.XPath.Canon
open LyModel.XPath.LemmasLexRtT

/-- the text of a token starts with a byte that is no blank, and is no `:` unless the token is `::` -/
def tokOk (t : PT) : Bool :=
  match t.2 with
  | [] => false
  | c :: _ => !Path.isWs c && (c != 0x3a || t.1 == .dcolon)

/-- `::` only right after an axis name -/
def adjOk : List PT → Bool
  | t1 :: t2 :: r => (t2.1 != .dcolon || t1.1 == .axisname) && adjOk (t2 :: r)
  | _ => true

def Q (ts : List PT) : Prop := ts.all tokOk = true ∧ adjOk ts = true
def P (ts : List PT) : Prop := Q ts ∧ ts.head?.map (·.1) ≠ some .dcolon

theorem adjOk_append : ∀ (a b : List PT), adjOk a = true → adjOk b = true → b.head?.map (·.1) ≠ some .dcolon → adjOk (a ++ b) = true := by
  intro a
  induction a with
  | nil => intro b _ hb _; simpa using hb
  | cons t r ih =>
    intro b ha hb hh
    cases r with
    | nil =>
      cases b with
      | nil => simp [adjOk]
      | cons t2 r2 =>
        have : t2.1 ≠ .dcolon := by simpa using hh
        simp [adjOk, this, hb]
    | cons t2 r2 =>
      simp only [adjOk, Bool.and_eq_true] at ha
      have := ih b ha.2 hb hh
      simp only [List.cons_append, adjOk, Bool.and_eq_true]
      exact ⟨ha.1, by simpa using this⟩

theorem P.append {a b : List PT} (ha : P a) (hb : P b) : P (a ++ b) := by
  refine ⟨⟨by simp [List.all_append, ha.1.1, hb.1.1], adjOk_append a b ha.1.2 hb.1.2 hb.2⟩, ?_⟩
  cases a with
  | nil => simpa using hb.2
  | cons t r => simpa using ha.2

theorem P.nil : P [] := ⟨⟨rfl, rfl⟩, by simp⟩

theorem P.single {t : PT} (h : tokOk t = true) (hk : t.1 ≠ .dcolon) : P [t] :=
  ⟨⟨by simp [h], rfl⟩, by simpa using hk⟩

theorem tokOk_of_head {k : TK} {tx : Bytes} {c : UInt8} {r : Bytes} (h : tx = c :: r) (h1 : Path.isWs c = false) (h2 : c ≠ 0x3a) :
    tokOk (k, tx) = true := by
  simp [tokOk, h, h1, h2]

theorem P_wrap (lvl : Nat) (e : Expr) (body : List PT) (h : P body) : P (wrap lvl e body) := by
  unfold wrap; split
  · exact h
  · have e1 : par body = [tPar1] ++ body ++ [tPar2] := by simp [par]
    rw [e1]
    exact ((P.single (by decide) (by decide)).append h).append (P.single (by decide) (by decide))

theorem P_rtest (t : Test) (ht : testOk t = true) : P (rtest t) := by
  have name : ∀ tx, rtest t = [(.nametest, tx)] → P (rtest t) := by
    intro tx hrt
    obtain ⟨c, r, hct, hc⟩ := tx_head t ht tx hrt
    rw [hrt]
    exact P.single (tokOk_of_head hct (head_not_ws hc).1 (head_not_ws hc).2) (by simp)
  cases t with
  | name pfx loc => cases pfx <;> exact name _ rfl
  | any => exact name _ rfl
  | anyIn q => exact name _ rfl
  | node => exact ⟨⟨by decide, by decide⟩, by decide⟩
  | text => exact ⟨⟨by decide, by decide⟩, by decide⟩
  | comment => exact ⟨⟨by decide, by decide⟩, by decide⟩

theorem P_axis (ax : Axis) : P [(.axisname, axisBytes ax), tDcolon] := by
  cases ax <;> exact ⟨⟨by decide, by decide⟩, by decide⟩

theorem P_op (op : BinOp) : P [opTok op] := by
  cases op <;> exact ⟨⟨by decide, by decide⟩, by decide⟩

theorem P_ahead (ax : Axis) (t : Test) (b : Bool) (ht : testOk t = true) : P (ahead ax t b) := by
  unfold ahead
  split
  · exact P.single (by decide) (by decide)
  · split
    · exact P.single (by decide) (by decide)
    · split
      · exact P_rtest t ht
      · split
        · have e : tAt :: rtest t = [tAt] ++ rtest t := rfl
          rw [e]; exact (P.single (by decide) (by decide)).append (P_rtest t ht)
        · have e : (TK.axisname, axisBytes ax) :: tDcolon :: rtest t = [(.axisname, axisBytes ax), tDcolon] ++ rtest t := rfl
          rw [e]; exact (P_axis ax).append (P_rtest t ht)

mutual
theorem pExpr : ∀ (e : Expr), wf e = true → P (atoks e)
  | .lit s, _ => by
    have : tokOk (.literal, quoteFor s :: s ++ [quoteFor s]) = true := by
      unfold quoteFor; split <;> simp [tokOk, Path.isWs]
    simpa [atoks] using P.single this (by simp)
  | .num m sc, _ => by
    obtain ⟨a, b, hab, ha, hne, _⟩ := numText_shape m sc
    obtain ⟨c, a', rfl⟩ : ∃ c a', a = c :: a' := by
      cases a with
      | nil => exact absurd rfl hne
      | cons c a' => exact ⟨c, a', rfl⟩
    have hc : Path.isDigit c = true := ha c (by simp)
    have : tokOk (.number, numText m sc) = true :=
      tokOk_of_head (c := c) (r := a' ++ b) (by rw [hab]; simp) (digit_not_ws hc) (by intro e; subst e; revert hc; decide)
    simpa [atoks] using P.single this (by simp)
  | .fn name as, hw => by
    have hw' : fnOk name as.length = true ∧ wfs as = true := by simpa [wf] using hw
    obtain ⟨g, hg, hfb⟩ : ∃ g, g ∈ XpConsts.fnTable ∧ fnBytes name = g.bytes := by
      have h := hw'.1
      unfold fnOk at h
      unfold fnBytes
      cases hf : XpConsts.fnTable.find? (fun g => g.name == name) with
      | none => simp [hf] at h
      | some g => exact ⟨g, List.mem_of_find?_eq_some hf, rfl⟩
    obtain ⟨c, t, hct, hc⟩ := ident_head (fn_bytes_facts g hg).1
    have hfn : tokOk (.funcname, fnBytes name) = true := by
      rw [hfb]; exact tokOk_of_head hct (identStart_not_ws hc) (identStart_ne_colon hc)
    have e1 : atoks (.fn name as) = [(.funcname, fnBytes name), tPar1] ++ aargs false as ++ [tPar2] := by simp [atoks]
    rw [e1]
    have h2 : P [(.funcname, fnBytes name), tPar1] := by
      have : [(TK.funcname, fnBytes name), tPar1] = [(.funcname, fnBytes name)] ++ [tPar1] := rfl
      rw [this]; exact (P.single hfn (by simp)).append (P.single (by decide) (by decide))
    exact (h2.append (pArgs as false hw'.2)).append (P.single (by decide) (by decide))
  | .bin op a b, hw => by
    have hw' : wf a = true ∧ wf b = true := by simpa [wf] using hw
    have e1 : atoks (.bin op a b) = wrap (opLevel op) a (atoks a) ++ [opTok op] ++ wrap (opLevel op + 1) b (atoks b) := by
      simp [atoks]
    rw [e1]
    exact ((P_wrap _ a _ (pExpr a hw'.1)).append (P_op op)).append (P_wrap _ b _ (pExpr b hw'.2))
  | .neg a, hw => by
    have e1 : atoks (.neg a) = [tMinus] ++ wrap 7 a (atoks a) := by simp [atoks]
    rw [e1]
    exact (P.single (by decide) (by decide)).append (P_wrap 7 a _ (pExpr a (by simpa [wf] using hw)))
  | .path .root steps, hw => by
    have e1 : atoks (.path .root steps) = [tSlash] ++ asteps false steps := by simp [atoks]
    rw [e1]
    exact (P.single (by decide) (by decide)).append (pSteps steps false (by simpa [wf] using hw))
  | .path .ctx steps, hw => by
    have hw' : wfSteps steps = true := by simp [wf] at hw; exact hw.2
    simpa [atoks] using pSteps steps false hw'
  | .path (.expr e) steps, hw => by
    have hw' : wf e = true ∧ wfSteps steps = true := by simp [wf] at hw; exact ⟨hw.1.2, hw.2⟩
    have e1 : atoks (.path (.expr e) steps) = ([tPar1] ++ atoks e ++ [tPar2]) ++ asteps true steps := by simp [atoks, par]
    rw [e1]
    exact (((P.single (by decide) (by decide)).append (pExpr e hw'.1)).append (P.single (by decide) (by decide))).append
      (pSteps steps true hw'.2)
  | .filter e ps, hw => by
    have hw' : wf e = true ∧ wfs ps = true := by simp [wf] at hw; exact ⟨hw.1.2, hw.2⟩
    have e1 : atoks (.filter e ps) = ([tPar1] ++ atoks e ++ [tPar2]) ++ apreds ps := by simp [atoks, par]
    rw [e1]
    exact (((P.single (by decide) (by decide)).append (pExpr e hw'.1)).append (P.single (by decide) (by decide))).append
      (pPreds ps hw'.2)

theorem pArgs : ∀ (as : List Expr) (sep : Bool), wfs as = true → P (aargs sep as)
  | [], _, _ => by simpa [aargs] using P.nil
  | a :: r, sep, hw => by
    have hw' : wf a = true ∧ wfs r = true := by simpa [wfs] using hw
    have e1 : aargs sep (a :: r) = (if sep then [tComma] else []) ++ atoks a ++ aargs true r := by simp [aargs]
    rw [e1]
    have h0 : P (if sep then [tComma] else []) := by
      cases sep
      · exact P.nil
      · exact P.single (by decide) (by decide)
    exact (h0.append (pExpr a hw'.1)).append (pArgs r true hw'.2)

theorem pPreds : ∀ (ps : List Expr), wfs ps = true → P (apreds ps)
  | [], _ => by simpa [apreds] using P.nil
  | p :: r, hw => by
    have hw' : wf p = true ∧ wfs r = true := by simpa [wfs] using hw
    have e1 : apreds (p :: r) = ([tBrack1] ++ atoks p ++ [tBrack2]) ++ apreds r := by simp [apreds]
    rw [e1]
    exact (((P.single (by decide) (by decide)).append (pExpr p hw'.1)).append (P.single (by decide) (by decide))).append (pPreds r hw'.2)

theorem pSteps : ∀ (l : List Step) (sep : Bool), wfSteps l = true → P (asteps sep l)
  | [], _, _ => by simpa [asteps] using P.nil
  | s :: r, sep, hw => by
    have hw' : wfStep s = true ∧ wfSteps r = true := by simpa [wfSteps] using hw
    have e1 : asteps sep (s :: r) = (if sep then [tSlash] else []) ++ astep s ++ asteps true r := by simp [asteps]
    rw [e1]
    have h0 : P (if sep then [tSlash] else []) := by
      cases sep
      · exact P.nil
      · exact P.single (by decide) (by decide)
    exact (h0.append (pStep s hw'.1)).append (pSteps r true hw'.2)

theorem pStep : ∀ (s : Step), wfStep s = true → P (astep s)
  | .mk ax t ps, hw => by
    have hw' : testOk t = true ∧ wfs ps = true := by simpa [wfStep] using hw
    rw [astep_eq]
    exact (P_ahead ax t _ hw'.1).append (pPreds ps hw'.2)
end

/-- the text of a non-empty token list starts with the first byte of its first token -/
theorem detokG_head (t : PT) (r : List PT) (bs : List Bytes) (h : tokOk t = true) :
    ∃ c rest, detokG (t :: r) bs = c :: rest ∧ Path.isWs c = false ∧ (c = 0x3a → t.1 = .dcolon) := by
  obtain ⟨k, tx⟩ := t
  cases tx with
  | nil => simp [tokOk] at h
  | cons c tl =>
    have h' : Path.isWs c = false ∧ (c ≠ 0x3a ∨ k = .dcolon) := by simpa [tokOk] using h
    have : ∃ rest, detokG ((k, c :: tl) :: r) bs = c :: rest := by
      simp only [detokG, tokTextW]; split <;> exact ⟨_, rfl⟩
    obtain ⟨rest, hr⟩ := this
    refine ⟨c, rest, hr, h'.1, fun hc => ?_⟩
    rcases h'.2 with h2 | h2
    · exact absurd hc h2
    · exact h2

/-- one blank is always enough, unless a `::` follows a name -/
theorem followOk_space (t : PT) (Y : Bytes) (h : (Y.drop (wsLen Y)).head? ≠ some 0x3a) :
    followOk t (0x20 :: Y) = true := by
  have hw : Path.isWs 0x20 = true := by decide
  have e : ((0x20 : UInt8) :: Y).drop (wsLen (0x20 :: Y)) = Y.drop (wsLen Y) := by simp [wsLen, hw]
  unfold followOk
  simp only [e]
  split
  · simpa [hw] using h
  · split
    · simp [hw]
    · split
      · decide
      · split
        · decide
        · rfl

theorem spacingB_tight : ∀ (ts : List PT), Q ts → spacingB ts (tightBs ts) [] = true
  | [], _ => rfl
  | t :: ts, hq => by
    have hq' : Q ts := by
      refine ⟨?_, ?_⟩
      · have := hq.1; simp only [List.all_cons, Bool.and_eq_true] at this; exact this.2
      · have := hq.2
        cases ts with
        | nil => rfl
        | cons t2 r => simp only [adjOk, Bool.and_eq_true] at this; exact this.2
    have ih := spacingB_tight ts hq'
    simp only [spacingB, tightBs, List.headD_cons, List.tail_cons, List.append_nil, Bool.and_eq_true]
    refine ⟨⟨?_, ?_⟩, ih⟩
    · split <;> simp [Path.isWs]
    · by_cases hg : (t.1 == .axisname || t.1 == .dcolon) = true
      · simp [hg]
      · by_cases hf : followOk t (detokG ts (tightBs ts)) = true
        · simp [hf]
        · have hcond : (t.1 == .axisname || t.1 == .dcolon || followOk t (detokG ts (tightBs ts))) = false := by
            simp only [Bool.not_eq_true] at hg hf; simp [hg, hf]
          simp only [hcond, Bool.false_eq_true, if_false, List.cons_append, List.nil_append]
          have : followOk t (0x20 :: detokG ts (tightBs ts)) = true := by
            apply followOk_space
            cases ts with
            | nil => simp [detokG]
            | cons t2 r =>
              have hok : tokOk t2 = true := by
                have := hq'.1; simp only [List.all_cons, Bool.and_eq_true] at this; exact this.1
              obtain ⟨c, rest, hr, hws, hcol⟩ := detokG_head t2 r (tightBs (t2 :: r)) hok
              rw [hr]
              have : wsLen (c :: rest) = 0 := by simp [wsLen, hws]
              rw [this]
              simp only [List.drop_zero, List.head?_cons, ne_eq, Option.some.injEq]
              intro hc
              have hd := hcol hc
              have hadj := hq.2
              simp only [adjOk, Bool.and_eq_true] at hadj
              have h1 := hadj.1
              simp [hd] at h1
              simp [h1] at hg
          simp [this]

/-- the tight spacing of a well-formed expression is a valid spacing -/
theorem spacing_tight (e : Expr) (hw : wf e = true) : spacingB (atoks e) (tightBs (atoks e)) [] = true :=
  spacingB_tight _ (pExpr e hw).1

end LyModel.XPath.LemmasTight
