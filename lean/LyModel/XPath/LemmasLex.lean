import LyModel.XPath.Lex
/-!
Lemmas about the tokenizer model: the operator-context rule of REC §3.7, progress of every iteration, fuel.
-/
namespace LyModel.XPath.LemmasLex
open LyModel LyModel.Generated LyModel.XPath.Lex

/-- REC §3.7 "Operator": OperatorName | MultiplyOperator | `/` | `//` | `|` | `+` | `-` | `=` | `!=` | `<` | `<=` | `>` | `>=` -/
def isRecOperator : TK → Bool
  | .operLog | .operMath | .operPath | .operRpath | .operUni | .operEqual | .operNequal | .operComp => true
  | _ => false

/-- REC §3.7: "there is a preceding token and the preceding token is not one of `@`, `::`, `(`, `[`, `,` or an Operator" -/
def recOperCtx (acc : List Tok) : Bool :=
  match acc with
  | [] => false
  | t :: _ => !(t.kind == .at || t.kind == .dcolon || t.kind == .par1 || t.kind == .brack1 || t.kind == .comma ||
      isRecOperator t.kind)

/-- the last token is never `::` when an iteration starts (`::` is stored together with the name test after it) -/
def NoDcolonTop (acc : List Tok) : Prop := ∀ t r, acc = t :: r → t.kind ≠ .dcolon

theorem operCtx_eq_rec (acc : List Tok) (h : NoDcolonTop acc) : operCtx acc = recOperCtx acc := by
  cases acc with
  | nil => rfl
  | cons t r =>
    have hd := h t r rfl
    obtain ⟨k, p, tx⟩ := t
    cases k <;> first | rfl | exact absurd rfl hd

theorem push_top (st : St) (k : TK) (n : Nat) : ∃ t r, (st.push k n).acc = t :: r ∧ t.kind = k :=
  ⟨_, _, rfl, rfl⟩

theorem noDcolon_push (st : St) (k : TK) (n : Nat) (hk : k ≠ .dcolon) : NoDcolonTop (st.push k n).acc := by
  intro t r e
  simp only [St.push, List.cons.injEq] at e
  rw [← e.1]; exact hk

/-- shape of a successful `nameTail`: one NameTest of `m ≥ n` bytes -/
theorem nameTail_shape {st st' : St} {n : Nat} {b : Bool} (h : nameTail st n b = .ok st') :
    ∃ m f1 f2, n ≤ m ∧ st' = { acc := ⟨.nametest, st.pos, st.rest.take m⟩ :: st.acc, ntype := f1, func := f2,
                               pos := st.pos + m, rest := st.rest.drop m } := by
  unfold nameTail at h
  split at h
  · split at h
    · cases h; exact ⟨n, _, _, Nat.le_refl _, rfl⟩
    · split at h
      · cases h; exact ⟨n + 2, _, _, by omega, rfl⟩
      · split at h
        · cases h
        · next m _ => cases h; exact ⟨n + 1 + m, _, _, by omega, rfl⟩
  · cases h; exact ⟨n, _, _, Nat.le_refl _, rfl⟩

/-- shape of a successful `lexName`: a NameTest right away, or AxisName `::` NameTest -/
theorem lexName_shape {st st' : St} (h : lexName st = .ok st') :
    ∃ n, namePart st.rest = some n ∧
      (nameTail st n false = .ok st' ∨
       (startsWith (st.rest.drop (n + axisGap (st.rest.drop n))) [0x3a, 0x3a] = true ∧
        ∃ n2, namePart (axisSt st n).rest = some n2 ∧ nameTail (axisSt st n) n2 true = .ok st')) := by
  unfold lexName at h
  split at h
  · cases h
  · next n hn =>
    refine ⟨n, hn, ?_⟩
    split at h
    · next hsw =>
      split at h
      · split at h
        · cases h
        · next n2 hn2 => exact Or.inr ⟨hsw, n2, hn2, h⟩
      · cases h
    · exact Or.inl h

theorem nameTail_top {st st' : St} {n : Nat} {b : Bool} (h : nameTail st n b = .ok st') : NoDcolonTop st'.acc := by
  obtain ⟨m, f1, f2, _, rfl⟩ := nameTail_shape h
  intro t r e
  simp only [List.cons.injEq] at e
  rw [← e.1]; simp

theorem lexName_top {st st' : St} (h : lexName st = .ok st') : NoDcolonTop st'.acc := by
  obtain ⟨n, _, h | ⟨_, n2, _, h⟩⟩ := lexName_shape h <;> exact nameTail_top h

theorem lexOper_top {st st' : St} (h : lexOper st = .ok st') : NoDcolonTop st'.acc := by
  unfold lexOper at h
  repeat' split at h
  all_goals first | (cases h; exact noDcolon_push _ _ _ (by decide)) | cases h

theorem reclassify_push_top (st : St) : NoDcolonTop ((reclassify st).push .par1 1).acc :=
  noDcolon_push _ _ _ (by decide)


theorem lexChar4_top {st st' : St} {c : UInt8} {r : Bytes} (h : lexChar4 st c r = .ok st') : NoDcolonTop st'.acc := by
  unfold lexChar4 at h
  repeat' split at h
  all_goals first
    | (cases h; exact noDcolon_push _ _ _ (by decide))
    | exact lexName_top h
    | exact lexOper_top h
    | cases h

theorem lexChar3_top {st st' : St} {c : UInt8} {r : Bytes} (h : lexChar3 st c r = .ok st') : NoDcolonTop st'.acc := by
  unfold lexChar3 at h
  repeat' split at h
  all_goals first
    | (cases h; exact noDcolon_push _ _ _ (by decide))
    | exact lexChar4_top h
    | cases h

theorem lexChar2_top {st st' : St} {c : UInt8} {r : Bytes} (h : lexChar2 st c r = .ok st') : NoDcolonTop st'.acc := by
  unfold lexChar2 at h
  repeat' split at h
  all_goals first
    | (cases h; exact noDcolon_push _ _ _ (by decide))
    | exact lexChar3_top h
    | cases h

theorem lexChar_top {st st' : St} {c : UInt8} {r : Bytes} (h : lexChar st c r = .ok st') : NoDcolonTop st'.acc := by
  unfold lexChar at h
  repeat' split at h
  all_goals first
    | (cases h; exact noDcolon_push _ _ _ (by decide))
    | exact lexChar2_top h
    | cases h

theorem lexStep_top {st st' : St} (h : lexStep st = .ok st') : NoDcolonTop st'.acc := by
  unfold lexStep at h
  split at h
  · exact lexName_top h
  · exact lexChar_top h

/-! ### every iteration consumes at least one byte -/

theorem getUtf8_size {s : Bytes} {cp n : Nat} (h : Utf8.getUtf8 s = some (cp, n)) : n ≥ 1 := by
  unfold Utf8.getUtf8 at h
  simp only at h
  repeat' split at h
  all_goals (cases h <;> omega)

theorem decodeCp_size {s : Bytes} {cp n : Nat} (h : Path.decodeCp s = some (cp, n)) : n ≥ 1 := by
  unfold Path.decodeCp at h
  split at h
  · cases h
  · split at h
    · split at h
      · cases h
      · simp only [Option.some.injEq, Prod.mk.injEq] at h; omega
    · exact getUtf8_size h

theorem ncname_pos {s : Bytes} {n : Nat} (h : Path.ncname s = some n) : n ≥ 1 := by
  unfold Path.ncname at h
  split at h
  · cases h
  · next cp sz hd =>
    have := decodeCp_size hd
    split at h
    · cases h
    · split at h
      · cases h
      · simp only [Option.some.injEq] at h; omega

theorem namePart_pos {s : Bytes} {n : Nat} (h : namePart s = some n) : n ≥ 1 := by
  unfold namePart at h
  split at h
  · simp only [Option.some.injEq] at h; omega
  · exact ncname_pos h

theorem ncname_nonempty {s : Bytes} {n : Nat} (h : Path.ncname s = some n) : s ≠ [] := by
  intro e; subst e; simp [Path.ncname, Path.decodeCp] at h

theorem namePart_nonempty {s : Bytes} {n : Nat} (h : namePart s = some n) : s ≠ [] := by
  intro e; subst e; simp [namePart, Path.ncname, Path.decodeCp] at h

/-- the iteration made progress -/
def Adv (st st' : St) : Prop := st'.rest.length < st.rest.length

theorem adv_of_rest {st st' : St} {n : Nat} (h : st'.rest = st.rest.drop n) (hn : n ≥ 1) (hr : st.rest ≠ []) : Adv st st' := by
  have : st.rest.length ≥ 1 := by
    cases h : st.rest with
    | nil => exact absurd h hr
    | cons c r => simp
  simp only [Adv, h, List.length_drop]; omega

theorem adv_push (st : St) (k : TK) (n : Nat) (hn : n ≥ 1) (hr : st.rest ≠ []) : Adv st (st.push k n) :=
  adv_of_rest (n := n) rfl hn hr

theorem Adv.trans {a b c : St} (h1 : Adv a b) (h2 : Adv b c) : Adv a c := by
  simp only [Adv] at *; omega

theorem nameTail_adv {st st' : St} {n : Nat} {b : Bool} (hn : n ≥ 1) (hr : st.rest ≠ []) (h : nameTail st n b = .ok st') :
    Adv st st' := by
  obtain ⟨m, f1, f2, hm, rfl⟩ := nameTail_shape h
  exact adv_of_rest (n := m) rfl (by omega) hr

theorem skip_rest_le (st : St) (w : Nat) : (st.skip w).rest.length ≤ st.rest.length := by
  simp [St.skip, List.length_drop]

theorem afterDcolon_rest_le (st : St) : (afterDcolon st).rest.length ≤ st.rest.length := by
  unfold afterDcolon; split
  · exact skip_rest_le _ _
  · exact Nat.le_refl _

theorem axisSt_rest_le (st : St) (n : Nat) : (axisSt st n).rest.length ≤ st.rest.length := by
  unfold axisSt
  refine Nat.le_trans (afterDcolon_rest_le _) ?_
  simp [St.push, St.skip, List.length_drop]

theorem lexName_adv {st st' : St} (h : lexName st = .ok st') : Adv st st' := by
  obtain ⟨n, hn, h | ⟨_, n2, hn2, h⟩⟩ := lexName_shape h
  · exact nameTail_adv (namePart_pos hn) (namePart_nonempty hn) h
  · have a2 := nameTail_adv (namePart_pos hn2) (namePart_nonempty hn2) h
    have := axisSt_rest_le st n
    simp only [Adv] at a2 ⊢; omega

theorem lexOper_adv {st st' : St} (hr : st.rest ≠ []) (h : lexOper st = .ok st') : Adv st st' := by
  unfold lexOper at h
  repeat' split at h
  all_goals first | (cases h; exact adv_push _ _ _ (by omega) hr) | cases h

theorem scanNum_pos (c : UInt8) (r : Bytes) (h : c = 0x2e ∨ Path.isDigit c = true) : (Path.scanNum (c :: r)).1.length ≥ 1 := by
  unfold Path.scanNum
  by_cases hd : Path.isDigit c = true
  · cases hsp : Path.spanDigits r with
    | mk d rest =>
      have e : Path.spanDigits (c :: r) = (c :: d, rest) := by simp [Path.spanDigits, hd, hsp]
      rw [e]
      split
      · next d1 r2 heq =>
        simp only [Prod.mk.injEq] at heq
        cases hs2 : Path.spanDigits r2
        simp [← heq.1]
      · next d1 r1 _ heq =>
        simp only [Prod.mk.injEq] at heq
        simp [← heq.1]
  · have hc : c = 0x2e := by rcases h with h | h; exact h; exact absurd h hd
    subst hc
    have e : Path.spanDigits (0x2e :: r) = ([], 0x2e :: r) := by
      have : Path.isDigit (0x2e : UInt8) = false := by decide
      simp [Path.spanDigits, this]
    rw [e]
    cases hs : Path.spanDigits r
    simp

theorem lexChar4_adv {st st' : St} {c : UInt8} {r : Bytes} (hr : st.rest = c :: r) (h : lexChar4 st c r = .ok st') : Adv st st' := by
  have hne : st.rest ≠ [] := by rw [hr]; simp
  unfold lexChar4 at h
  repeat' split at h
  all_goals first
    | (cases h; exact adv_of_rest (n := 1) rfl (by omega) hne)
    | (cases h; exact adv_of_rest (n := 2) rfl (by omega) hne)
    | exact lexName_adv h
    | exact lexOper_adv hne h
    | cases h

theorem lexChar3_adv {st st' : St} {c : UInt8} {r : Bytes} (hr : st.rest = c :: r) (h : lexChar3 st c r = .ok st') : Adv st st' := by
  have hne : st.rest ≠ [] := by rw [hr]; simp
  unfold lexChar3 at h
  split at h
  · next hc =>
    cases h
    exact adv_of_rest (n := (Path.scanNum (c :: r)).1.length) rfl
      (scanNum_pos c r (by simpa using hc)) hne
  · split at h
    · split at h
      · cases h
      · next n hn =>
        split at h
        · cases h
        · cases h
          have := ncname_pos hn
          simp only [Adv, St.push, hr, List.length_drop, List.length_cons]
          have := ncname_nonempty hn
          cases r with
          | nil => exact absurd rfl this
          | cons x y => simp only [List.length_cons]; omega
    · split at h
      · split at h
        · cases h; exact adv_of_rest (n := 2) rfl (by omega) hne
        · cases h; exact adv_of_rest (n := 1) rfl (by omega) hne
      · exact lexChar4_adv hr h

theorem lexChar2_adv {st st' : St} {c : UInt8} {r : Bytes} (hr : st.rest = c :: r) (h : lexChar2 st c r = .ok st') : Adv st st' := by
  have hne : st.rest ≠ [] := by rw [hr]; simp
  unfold lexChar2 at h
  repeat' split at h
  all_goals first
    | (cases h; exact adv_of_rest (n := 1) rfl (by omega) hne)
    | (cases h; exact adv_of_rest (n := 2) rfl (by omega) hne)
    | exact lexChar3_adv hr h
    | (cases h; exact adv_of_rest (n := _ + 2) rfl (by omega) hne)
    | cases h

theorem reclassify_rest (st : St) : (reclassify st).rest = st.rest := by
  unfold reclassify
  split
  · split
    · rfl
    · split <;> rfl
  · rfl

theorem lexChar_adv {st st' : St} {c : UInt8} {r : Bytes} (hr : st.rest = c :: r) (h : lexChar st c r = .ok st') : Adv st st' := by
  have hne : st.rest ≠ [] := by rw [hr]; simp
  unfold lexChar at h
  repeat' split at h
  all_goals first
    | (cases h; exact adv_of_rest (n := 1) (by simp only [St.push, reclassify_rest]) (by omega) hne)
    | (cases h; exact adv_of_rest (n := 1) rfl (by omega) hne)
    | exact lexChar2_adv hr h
    | cases h

theorem lexStep_adv {st st' : St} (h : lexStep st = .ok st') : Adv st st' := by
  unfold lexStep at h
  split at h
  · exact lexName_adv h
  · next c r hr => exact lexChar_adv hr h


/-! ### fuel -/

theorem skipWs_rest_le (st : St) : st.skipWs.rest.length ≤ st.rest.length := by
  simp [St.skipWs, List.length_drop]

theorem lexLoop_no_fuel : ∀ (f : Nat) (st : St), st.rest.length < f → lexLoop f st ≠ .error .fuel := by
  intro f
  induction f with
  | zero => intro st h; omega
  | succ f ih =>
    intro st h
    unfold lexLoop
    split
    · intro e; cases e
    · next st1 hs =>
      have ha : st1.rest.length < st.rest.length := lexStep_adv hs
      have hw := skipWs_rest_le st1
      simp only
      split
      · intro e; cases e
      · exact ih _ (by omega)

theorem lex_no_fuel (s : Bytes) : lex s ≠ .error .fuel := by
  unfold lex
  split
  · intro e; cases e
  · apply lexLoop_no_fuel
    have := skipWs_rest_le { acc := [], ntype := false, func := false, pos := 0, rest := s }
    simp only at this
    omega

/-! ### §3.7 in operator position -/

theorem lexChar_star (st : St) (r : Bytes) :
    lexChar st 0x2a r = if operCtx st.acc then lexOper st else lexName st := by
  simp [lexChar, lexChar2, lexChar3, lexChar4, Path.isDigit]

theorem lexOper_star (st : St) (r : Bytes) (h : st.rest = 0x2a :: r) : lexOper st = .ok (st.push .operMath 1) := by
  simp [lexOper, startsWith, h]


/-! ### no token is empty -/

/-- every stored token has a non-empty text -/
def TokNE (acc : List Tok) : Prop := ∀ t ∈ acc, t.text ≠ []

theorem take_ne {l : Bytes} {n : Nat} (hn : n ≥ 1) (hl : l ≠ []) : l.take n ≠ [] := by
  cases l with
  | nil => exact absurd rfl hl
  | cons c r =>
    obtain ⟨m, rfl⟩ : ∃ m, n = m + 1 := ⟨n - 1, by omega⟩
    simp

theorem ne_cons {acc : List Tok} {t : Tok} (ht : t.text ≠ []) (h : TokNE acc) : TokNE (t :: acc) := by
  intro x hx
  simp only [List.mem_cons] at hx
  rcases hx with rfl | hx
  · exact ht
  · exact h x hx

theorem ne_of_acc {st st' : St} {k : TK} {p n : Nat} (h : st'.acc = ⟨k, p, st.rest.take n⟩ :: st.acc) (hn : n ≥ 1)
    (hr : st.rest ≠ []) (hi : TokNE st.acc) : TokNE st'.acc := by
  rw [h]; exact ne_cons (take_ne hn hr) hi

theorem reclassify_ne (st : St) (hi : TokNE st.acc) : TokNE (reclassify st).acc := by
  unfold reclassify
  split
  · next t acc' ha =>
    have ht : t.text ≠ [] := hi t (by rw [ha]; simp)
    have hacc : TokNE acc' := fun x hx => hi x (by rw [ha]; simp [hx])
    split
    · exact ne_cons ht hacc
    · split
      · exact ne_cons ht hacc
      · exact hi
  · exact hi

theorem nameTail_ne {st st' : St} {n : Nat} {b : Bool} (hn : n ≥ 1) (hr : st.rest ≠ []) (hi : TokNE st.acc)
    (h : nameTail st n b = .ok st') : TokNE st'.acc := by
  obtain ⟨m, f1, f2, hm, rfl⟩ := nameTail_shape h
  exact ne_of_acc (n := m) rfl (by omega) hr hi

theorem afterDcolon_acc (st : St) : (afterDcolon st).acc = st.acc := by
  unfold afterDcolon; split <;> rfl

theorem startsWith_ne {l p : Bytes} (h : startsWith l p = true) (hp : p ≠ []) : l ≠ [] := by
  intro e; subst e
  cases p with
  | nil => exact hp rfl
  | cons _ _ => simp [startsWith, List.isPrefixOf] at h

theorem axisSt_ne {st : St} {n : Nat} (hn : n ≥ 1) (hr : st.rest ≠ [])
    (hsw : startsWith (st.rest.drop (n + axisGap (st.rest.drop n))) [0x3a, 0x3a] = true) (hi : TokNE st.acc) :
    TokNE (axisSt st n).acc := by
  unfold axisSt
  rw [afterDcolon_acc]
  have h1 : TokNE (st.push .axisname n).acc := ne_of_acc (n := n) rfl hn hr hi
  have hd := startsWith_ne hsw (by simp)
  refine ne_of_acc (st := (st.push .axisname n).skip (axisGap (st.rest.drop n))) (n := 2) rfl (by omega) ?_ h1
  simpa [St.skip, St.push, List.drop_drop, Nat.add_comm] using hd

theorem lexName_ne {st st' : St} (hi : TokNE st.acc) (h : lexName st = .ok st') : TokNE st'.acc := by
  obtain ⟨n, hn, h | ⟨hsw, n2, hn2, h⟩⟩ := lexName_shape h
  · exact nameTail_ne (namePart_pos hn) (namePart_nonempty hn) hi h
  · exact nameTail_ne (namePart_pos hn2) (namePart_nonempty hn2)
      (axisSt_ne (namePart_pos hn) (namePart_nonempty hn) hsw hi) h

theorem lexOper_ne {st st' : St} (hr : st.rest ≠ []) (hi : TokNE st.acc) (h : lexOper st = .ok st') : TokNE st'.acc := by
  unfold lexOper at h
  repeat' split at h
  all_goals first
    | (cases h; exact ne_of_acc (n := 1) rfl (by omega) hr hi)
    | (cases h; exact ne_of_acc (n := 2) rfl (by omega) hr hi)
    | (cases h; exact ne_of_acc (n := 3) rfl (by omega) hr hi)
    | cases h

theorem lexChar4_ne {st st' : St} {c : UInt8} {r : Bytes} (hr : st.rest = c :: r) (hi : TokNE st.acc)
    (h : lexChar4 st c r = .ok st') : TokNE st'.acc := by
  have hne : st.rest ≠ [] := by rw [hr]; simp
  unfold lexChar4 at h
  repeat' split at h
  all_goals first
    | (cases h; exact ne_of_acc (n := 1) rfl (by omega) hne hi)
    | (cases h; exact ne_of_acc (n := 2) rfl (by omega) hne hi)
    | exact lexName_ne hi h
    | exact lexOper_ne hne hi h
    | cases h

theorem lexChar3_ne {st st' : St} {c : UInt8} {r : Bytes} (hr : st.rest = c :: r) (hi : TokNE st.acc)
    (h : lexChar3 st c r = .ok st') : TokNE st'.acc := by
  have hne : st.rest ≠ [] := by rw [hr]; simp
  unfold lexChar3 at h
  split at h
  · next hc =>
    cases h
    exact ne_of_acc (n := (Path.scanNum (c :: r)).1.length) rfl (scanNum_pos c r (by simpa using hc)) hne hi
  · split at h
    · split at h
      · cases h
      · next n hn =>
        split at h
        · cases h
        · cases h
          exact ne_cons (t := ⟨.varref, st.pos + 1, r.take n⟩) (take_ne (ncname_pos hn) (ncname_nonempty hn)) hi
    · split at h
      · split at h
        · cases h; exact ne_of_acc (n := 2) rfl (by omega) hne hi
        · cases h; exact ne_of_acc (n := 1) rfl (by omega) hne hi
      · exact lexChar4_ne hr hi h

theorem lexChar2_ne {st st' : St} {c : UInt8} {r : Bytes} (hr : st.rest = c :: r) (hi : TokNE st.acc)
    (h : lexChar2 st c r = .ok st') : TokNE st'.acc := by
  have hne : st.rest ≠ [] := by rw [hr]; simp
  unfold lexChar2 at h
  repeat' split at h
  all_goals first
    | (cases h; exact ne_of_acc (n := 1) rfl (by omega) hne hi)
    | (cases h; exact ne_of_acc (n := 2) rfl (by omega) hne hi)
    | exact lexChar3_ne hr hi h
    | (cases h; exact ne_of_acc (n := _ + 2) rfl (by omega) hne hi)
    | cases h

theorem lexChar_ne {st st' : St} {c : UInt8} {r : Bytes} (hr : st.rest = c :: r) (hi : TokNE st.acc)
    (h : lexChar st c r = .ok st') : TokNE st'.acc := by
  have hne : st.rest ≠ [] := by rw [hr]; simp
  unfold lexChar at h
  repeat' split at h
  all_goals first
    | (cases h; exact ne_of_acc (st := reclassify st) (n := 1) rfl (by omega) (by rw [reclassify_rest]; exact hne)
        (reclassify_ne st hi))
    | (cases h; exact ne_of_acc (n := 1) rfl (by omega) hne hi)
    | exact lexChar2_ne hr hi h
    | cases h

theorem lexStep_ne {st st' : St} (hi : TokNE st.acc) (h : lexStep st = .ok st') : TokNE st'.acc := by
  unfold lexStep at h
  split at h
  · exact lexName_ne hi h
  · next c r hr => exact lexChar_ne hr hi h

theorem lexLoop_ne : ∀ (f : Nat) (st : St) (ts : List Tok), TokNE st.acc → lexLoop f st = .ok ts → ∀ t ∈ ts, t.text ≠ [] := by
  intro f
  induction f with
  | zero => intro st ts _ h; cases h
  | succ f ih =>
    intro st ts hi h
    unfold lexLoop at h
    split at h
    · cases h
    · next st1 hs =>
      have h1 : TokNE st1.skipWs.acc := by
        have := lexStep_ne hi hs
        simpa [St.skipWs] using this
      simp only at h
      split at h
      · cases h
        intro t ht
        exact h1 t (by simpa using ht)
      · exact ih _ ts h1 h

theorem lex_tokens_nonempty (s : Bytes) (ts : List Tok) (h : lex s = .ok ts) : ∀ t ∈ ts, t.text ≠ [] := by
  unfold lex at h
  split at h
  · cases h
  · exact lexLoop_ne _ _ ts (by intro t ht; simp [St.skipWs] at ht) h


/-! ### tokens are consecutive, non-overlapping slices of the input -/

/-- loop invariant: the unread input is `s` from `parsed` on, and the stored tokens are slices in order -/
def Sl (s : Bytes) (st : St) : Prop := st.rest = s.drop st.pos ∧ Chain s st.pos st.acc

theorem GapOK.append {s : Bytes} {a b c : Nat} (h1 : GapOK s a b) (h2 : GapOK s b c) : GapOK s a c := by
  intro i x hi hc hx
  by_cases h : i < b
  · exact h1 i x hi h hx
  · exact h2 i x (by omega) hc hx

theorem GapOK.empty (s : Bytes) (a b : Nat) (h : b ≤ a) : GapOK s a b := by
  intro i x hi hc _; omega

theorem _root_.LyModel.XPath.Lex.Chain.mono {s : Bytes} {a b : Nat} {acc : List Tok} (h : Chain s a acc) (hg : GapOK s a b)
    (hab : a ≤ b) : Chain s b acc := by
  cases acc with
  | nil => exact GapOK.append h hg
  | cons t r => exact ⟨by have := h.1; omega, h.2.1, GapOK.append h.2.2.1 hg, h.2.2.2⟩

theorem wsLen_spec : ∀ (l : Bytes) (j : Nat) (c : UInt8), j < wsLen l → l[j]? = some c → Path.isWs c = true := by
  intro l
  induction l with
  | nil => intro j c h; simp [wsLen] at h
  | cons x r ih =>
    intro j c h hc
    unfold wsLen at h
    split at h
    · next hx =>
      cases j with
      | zero => simp at hc; rw [← hc]; exact hx
      | succ j => exact ih j c (by omega) (by simpa using hc)
    · omega

theorem gap_of_rest {s : Bytes} {pos : Nat} {rest : Bytes} (h1 : rest = s.drop pos) (w : Nat)
    (hw : ∀ j c, j < w → rest[j]? = some c → Path.isWs c = true ∨ c = 0x24) : GapOK s pos (pos + w) := by
  intro i c hi hc hx
  obtain ⟨j, rfl⟩ : ∃ j, i = pos + j := ⟨i - pos, by omega⟩
  exact hw j c (by omega) (by rw [h1, List.getElem?_drop]; exact hx)

theorem take_take_len (l : Bytes) (n : Nat) : l.take n = l.take (l.take n).length := by
  simp only [List.length_take]
  by_cases h : n ≤ l.length
  · rw [Nat.min_eq_left h]
  · rw [Nat.min_eq_right (by omega), List.take_of_length_le (by omega), List.take_of_length_le (Nat.le_refl _)]

/-- the invariant after `push`, for any later change of the flags -/
theorem sl_of_push {s : Bytes} {st st' : St} {k : TK} {n : Nat} (hi : Sl s st)
    (ha : st'.acc = ⟨k, st.pos, st.rest.take n⟩ :: st.acc) (hp : st'.pos = st.pos + n) (hr : st'.rest = st.rest.drop n) :
    Sl s st' := by
  obtain ⟨h1, h2⟩ := hi
  refine ⟨by rw [hr, hp, h1, List.drop_drop], ?_⟩
  rw [ha, hp]
  refine ⟨?_, ?_, ?_, h2⟩
  · simp only [List.length_take]; omega
  · simp only
    rw [← h1]; exact take_take_len _ _
  · intro i c hi hc hx
    simp only [List.length_take] at hi
    have hl : st.rest.length = s.length - st.pos := by rw [h1]; simp
    have : i < s.length := by
      rcases Nat.lt_or_ge i s.length with h | h
      · exact h
      · have hn : s[i]? = none := by simp [h]
        rw [hn] at hx; cases hx
    omega

theorem sl_skipWs {s : Bytes} {st : St} (hi : Sl s st) : Sl s st.skipWs := by
  obtain ⟨h1, h2⟩ := hi
  refine ⟨by simp [St.skipWs, h1, List.drop_drop], ?_⟩
  have hg : GapOK s st.pos (st.pos + wsLen st.rest) :=
    gap_of_rest h1 _ (fun j c hj hc => Or.inl (wsLen_spec _ j c hj hc))
  simpa [St.skipWs] using h2.mono hg (Nat.le_add_right _ _)

theorem chain_kind {s : Bytes} {b : Nat} {t : Tok} {r : List Tok} (k : TK) (h : Chain s b (t :: r)) :
    Chain s b ({ t with kind := k } :: r) := h

theorem reclassify_sl {s : Bytes} (st : St) (hi : Sl s st) : Sl s (reclassify st) := by
  obtain ⟨h1, h2⟩ := hi
  unfold reclassify
  split
  · next t acc' ha =>
    rw [ha] at h2
    split
    · exact ⟨h1, chain_kind _ h2⟩
    · split
      · exact ⟨h1, chain_kind _ h2⟩
      · exact ⟨h1, by rw [ha]; exact h2⟩
  · exact ⟨h1, h2⟩

theorem nameTail_sl {s : Bytes} {st st' : St} {n : Nat} {b : Bool} (hi : Sl s st) (h : nameTail st n b = .ok st') : Sl s st' := by
  obtain ⟨m, f1, f2, hm, rfl⟩ := nameTail_shape h
  exact sl_of_push (n := m) hi rfl rfl rfl

theorem sl_skip {s : Bytes} {st : St} (hi : Sl s st) (w : Nat) (hw : w ≤ wsLen st.rest) : Sl s (st.skip w) := by
  obtain ⟨h1, h2⟩ := hi
  refine ⟨by simp [St.skip, h1, List.drop_drop], ?_⟩
  have hg : GapOK s st.pos (st.pos + w) :=
    gap_of_rest h1 _ (fun j c hj hc => Or.inl (wsLen_spec _ j c (by omega) hc))
  simpa [St.skip] using h2.mono hg (Nat.le_add_right _ _)

theorem axisGap_le (r : Bytes) : axisGap r ≤ wsLen r := by
  unfold axisGap; split <;> omega

theorem afterDcolon_sl {s : Bytes} {st : St} (hi : Sl s st) : Sl s (afterDcolon st) := by
  unfold afterDcolon; split
  · exact sl_skip hi _ (Nat.le_refl _)
  · exact hi

theorem axisSt_sl {s : Bytes} {st : St} (n : Nat) (hi : Sl s st) : Sl s (axisSt st n) := by
  unfold axisSt
  have i1 : Sl s (st.push .axisname n) := sl_of_push (n := n) hi rfl rfl rfl
  have i2 : Sl s ((st.push .axisname n).skip (axisGap (st.rest.drop n))) := sl_skip i1 _ (axisGap_le _)
  exact afterDcolon_sl (sl_of_push (n := 2) i2 rfl rfl rfl)

theorem lexName_sl {s : Bytes} {st st' : St} (hi : Sl s st) (h : lexName st = .ok st') : Sl s st' := by
  obtain ⟨n, hn, h | ⟨_, n2, hn2, h⟩⟩ := lexName_shape h
  · exact nameTail_sl hi h
  · exact nameTail_sl (axisSt_sl n hi) h

theorem lexOper_sl {s : Bytes} {st st' : St} (hi : Sl s st) (h : lexOper st = .ok st') : Sl s st' := by
  unfold lexOper at h
  repeat' split at h
  all_goals first
    | (cases h; exact sl_of_push (n := 1) hi rfl rfl rfl)
    | (cases h; exact sl_of_push (n := 2) hi rfl rfl rfl)
    | (cases h; exact sl_of_push (n := 3) hi rfl rfl rfl)
    | cases h

theorem lexChar4_sl {s : Bytes} {st st' : St} {c : UInt8} {r : Bytes} (hi : Sl s st) (h : lexChar4 st c r = .ok st') : Sl s st' := by
  unfold lexChar4 at h
  repeat' split at h
  all_goals first
    | (cases h; exact sl_of_push (n := 1) hi rfl rfl rfl)
    | (cases h; exact sl_of_push (n := 2) hi rfl rfl rfl)
    | exact lexName_sl hi h
    | exact lexOper_sl hi h
    | cases h

theorem lexChar3_sl {s : Bytes} {st st' : St} {c : UInt8} {r : Bytes} (hr : st.rest = c :: r) (hi : Sl s st)
    (h : lexChar3 st c r = .ok st') : Sl s st' := by
  unfold lexChar3 at h
  split at h
  · cases h; exact sl_of_push (n := (Path.scanNum (c :: r)).1.length) hi rfl rfl rfl
  · split at h
    · split at h
      · cases h
      · next n hn =>
        split at h
        · cases h
        · cases h
          have i0 : Sl s { st with pos := st.pos + 1, rest := r } := by
            obtain ⟨h1, h2⟩ := hi
            have hdollar : c = 0x24 := by simpa using ‹(c == 36) = true›
            have hg : GapOK s st.pos (st.pos + 1) := gap_of_rest h1 1 (fun j x hj hx => by
              obtain rfl : j = 0 := by omega
              rw [hr] at hx; simp at hx; exact Or.inr (by rw [← hx]; exact hdollar))
            refine ⟨?_, h2.mono hg (Nat.le_add_right _ _)⟩
            have : r = st.rest.drop 1 := by rw [hr]; rfl
            simp only [this, h1, List.drop_drop]
          exact sl_of_push (st := { st with pos := st.pos + 1, rest := r }) (n := n) i0 rfl rfl rfl
    · split at h
      · split at h
        · cases h; exact sl_of_push (n := 2) hi rfl rfl rfl
        · cases h; exact sl_of_push (n := 1) hi rfl rfl rfl
      · exact lexChar4_sl hi h

theorem lexChar2_sl {s : Bytes} {st st' : St} {c : UInt8} {r : Bytes} (hr : st.rest = c :: r) (hi : Sl s st)
    (h : lexChar2 st c r = .ok st') : Sl s st' := by
  unfold lexChar2 at h
  repeat' split at h
  all_goals first
    | (cases h; exact sl_of_push (n := 1) hi rfl rfl rfl)
    | (cases h; exact sl_of_push (n := 2) hi rfl rfl rfl)
    | exact lexChar3_sl hr hi h
    | (cases h; exact sl_of_push (n := _ + 2) hi rfl rfl rfl)
    | cases h

theorem lexChar_sl {s : Bytes} {st st' : St} {c : UInt8} {r : Bytes} (hr : st.rest = c :: r) (hi : Sl s st)
    (h : lexChar st c r = .ok st') : Sl s st' := by
  unfold lexChar at h
  repeat' split at h
  all_goals first
    | (cases h; exact sl_of_push (st := reclassify st) (n := 1) (reclassify_sl st hi) rfl rfl rfl)
    | (cases h; exact sl_of_push (n := 1) hi rfl rfl rfl)
    | exact lexChar2_sl hr hi h
    | cases h

theorem lexStep_sl {s : Bytes} {st st' : St} (hi : Sl s st) (h : lexStep st = .ok st') : Sl s st' := by
  unfold lexStep at h
  split at h
  · exact lexName_sl hi h
  · next c r hr => exact lexChar_sl hr hi h


theorem lexLoop_sl {s : Bytes} : ∀ (f : Nat) (st : St) (ts : List Tok), Sl s st → lexLoop f st = .ok ts →
    ∃ b, s.length ≤ b ∧ Chain s b ts.reverse := by
  intro f
  induction f with
  | zero => intro st ts _ h; cases h
  | succ f ih =>
    intro st ts hi h
    unfold lexLoop at h
    split at h
    · cases h
    · next st1 hs =>
      have h1 : Sl s st1.skipWs := sl_skipWs (lexStep_sl hi hs)
      simp only at h
      split at h
      · next hemp =>
        cases h
        refine ⟨st1.skipWs.pos, ?_, by simpa using h1.2⟩
        have hr : st1.skipWs.rest = [] := by simpa using hemp
        have := h1.1
        rw [hr] at this
        have hl := congrArg List.length this
        simp at hl
        omega
      · exact ih _ ts h1 h

theorem lex_tokens_slices (s : Bytes) (ts : List Tok) (h : lex s = .ok ts) : ∃ b, s.length ≤ b ∧ Chain s b ts.reverse := by
  unfold lex at h
  split at h
  · cases h
  · exact lexLoop_sl _ _ ts (sl_skipWs (st := { acc := [], ntype := false, func := false, pos := 0, rest := s })
      ⟨by simp, GapOK.empty s 0 0 (Nat.le_refl 0)⟩) h

end LyModel.XPath.LemmasLex
