import LyModel.XPath.LemmasYang
/-! helper lemmas for `Props/C08Yang.lean`: `deref()` of instance-identifier terminals, canonisation by a union type -/
namespace LyModel.XPath
open LyModel

theorem lt_of_getElem?_some {α : Type} (a : Array α) (i : Nat) (e : α) (h : a[i]? = some e) : i < a.size := by
  rcases Nat.lt_or_ge i a.size with h1 | h1
  · exact h1
  · rw [Array.getElem?_eq_none h1] at h; cases h

/-! ## instance-identifier: `instDown` computes `Denotes` -/
theorem mem_instDown (d : Doc) (steps : List Yang.IStep) :
    ∀ p y, y ∈ Yang.instDown d steps p ↔ Yang.Denotes d p steps y := by
  induction steps with
  | nil =>
    intro p y
    constructor
    · intro h
      simp only [Yang.instDown, List.mem_singleton] at h
      subst h; exact .nil _
    · intro h
      cases h
      simp [Yang.instDown]
  | cons st rest ih =>
    intro p y
    simp only [Yang.instDown, List.mem_flatMap, List.mem_filter, List.mem_map, List.mem_range]
    constructor
    · rintro ⟨i, ⟨⟨k, _, hk⟩, hm⟩, hy⟩
      cases he : d.elems[i - 1]? with
      | none => simp [he] at hm
      | some e =>
        simp only [he] at hm
        exact .cons (by omega) he hm ((ih i y).mp hy)
    · intro h
      cases h with
      | cons hi0 he hok hrest =>
        rename_i i e
        have hlt : i - 1 < d.elems.size := lt_of_getElem?_some _ _ _ he
        exact ⟨i, ⟨⟨i - 1, hlt, by omega⟩, by simp only [he]; exact hok⟩, (ih i y).mpr hrest⟩

/-- a denoted node is the start node or an element of the document -/
theorem denotes_elem (d : Doc) {p y : Nat} {steps : List Yang.IStep} (h : Yang.Denotes d p steps y) :
    y = p ∨ (y ≠ 0 ∧ ∃ e, d.elems[y - 1]? = some e) := by
  induction h with
  | nil p => exact Or.inl rfl
  | cons hi0 he _ _ ih =>
    rcases ih with ih | ih
    · subst ih; exact Or.inr ⟨hi0, _, he⟩
    · exact Or.inr ih

theorem elemRef_mem_allRefs (d : Doc) (b : Bool) (y : Nat) (h : y = 0 ∨ (y ≠ 0 ∧ ∃ e, d.elems[y - 1]? = some e)) :
    2 * y ∈ d.allRefs b := by
  have hle : y ≤ d.elems.size := by
    rcases h with h | ⟨h0, e, he⟩
    · omega
    · have hlt : y - 1 < d.elems.size := lt_of_getElem?_some _ _ _ he
      omega
  simp only [Doc.allRefs, List.mem_filter, List.mem_range, Doc.valid]
  refine ⟨by omega, ?_⟩
  by_cases h0 : y = 0
  · simp [h0]
  · have h1 : (2 * y == 0) = false := by simp; omega
    have h2 : (2 * y % 2 == 0) = true := by simp
    have h3 : 2 * y / 2 = y := by omega
    simp [h1, h2, h3, hle]

section
variable {N : Type} [XNum N]

theorem derefAny_leafref (env : Env) (x : Ref) (rest ts : List Ref) (h : env.leafrefTargets x = some ts) :
    derefAny (N := N) env (x :: rest) = derefFn env (x :: rest) := by
  simp only [derefAny, h]

theorem derefAny_inst (env : Env) (x : Ref) (rest ts : List Ref) (h : env.leafrefTargets x = none) (hi : env.instTarget x = some ts) :
    derefAny (N := N) env (x :: rest) = if env.q.derefInstErr && ts.isEmpty then .error .inval else .ok (.ns ts) := by
  simp only [derefAny, h, hi]
  split <;> rfl

end

/-! ## union: the first member that accepts the string -/
theorem canonUnion_spec (f : Facts) (nodeMod : Bytes) (ms : List UMem) (s c : Bytes) :
    Yang.canonUnion f nodeMod ms s = c ↔
      (∃ pre m post, ms = pre ++ m :: post ∧ (∀ m' ∈ pre, Yang.canonMem f nodeMod m' s = none) ∧ Yang.canonMem f nodeMod m s = some c) ∨
      ((∀ m ∈ ms, Yang.canonMem f nodeMod m s = none) ∧ c = s) := by
  induction ms with
  | nil =>
    simp only [Yang.canonUnion]
    constructor
    · intro h; exact Or.inr ⟨by simp, h.symm⟩
    · rintro (⟨pre, m, post, h, _⟩ | ⟨_, h⟩)
      · simp at h
      · exact h.symm
  | cons m ms ih =>
    simp only [Yang.canonUnion]
    cases hm : Yang.canonMem f nodeMod m s with
    | some c' =>
      simp only []
      constructor
      · intro h; subst h; exact Or.inl ⟨[], m, ms, rfl, by simp, hm⟩
      · rintro (⟨pre, m2, post, h, hpre, hm2⟩ | ⟨hall, _⟩)
        · cases pre with
          | nil =>
            simp only [List.nil_append, List.cons.injEq] at h
            rw [← h.1, hm] at hm2
            exact Option.some.inj hm2
          | cons a pre' =>
            simp only [List.cons_append, List.cons.injEq] at h
            have := hpre a (by simp)
            rw [← h.1, hm] at this
            cases this
        · have := hall m (by simp)
          rw [hm] at this
          cases this
    | none =>
      simp only []
      rw [ih]
      constructor
      · rintro (⟨pre, m2, post, h, hpre, hm2⟩ | ⟨hall, hc⟩)
        · refine Or.inl ⟨m :: pre, m2, post, by simp [h], ?_, hm2⟩
          intro m' hm'
          rcases List.mem_cons.mp hm' with h1 | h1
          · subst h1; exact hm
          · exact hpre m' h1
        · refine Or.inr ⟨?_, hc⟩
          intro m' hm'
          rcases List.mem_cons.mp hm' with h1 | h1
          · subst h1; exact hm
          · exact hall m' h1
      · rintro (⟨pre, m2, post, h, hpre, hm2⟩ | ⟨hall, hc⟩)
        · cases pre with
          | nil =>
            simp only [List.nil_append, List.cons.injEq] at h
            rw [← h.1, hm] at hm2
            cases hm2
          | cons a pre' =>
            simp only [List.cons_append, List.cons.injEq] at h
            exact Or.inl ⟨pre', m2, post, h.2, fun m' hm' => hpre m' (by simp [hm']), hm2⟩
        · exact Or.inr ⟨fun m' hm' => hall m' (by simp [hm']), hc⟩

end LyModel.XPath
