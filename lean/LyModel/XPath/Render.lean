import LyModel.XPath.Parse
import LyModel.Path.Print
/-!
# The canonical XPath text of an expression of the engine's AST

`render e` is fully specified here:
* every token is followed by exactly one space, except an axis name and `::` (a step is written `axis::test`);
* location steps are always written unabbreviated (`child::a`, `self::node ( )`, `descendant-or-self::node ( )`);
* a binary operator of precedence level `q` (REC §3.1–3.5: 1 `or`, 2 `and`, 3 `= !=`, 4 `< <= > >=`, 5 `+ -`, 6 `* div mod`,
  8 `|`; unary minus is 7, everything else 9) writes its left operand at level `q` and its right operand at level `q + 1`;
  the operand of unary minus is written at level 7; an operand whose own level is below the required one is put in
  parentheses — this is left associativity and the precedence order of the REC, nothing else;
* the bare root path `/` is always parenthesised as an operand (REC §3.7: a `*` or a name after `/` is a name test);
* a filter expression is `( e ) [ p1 ] [ p2 ]`, a path that starts at an expression is `( e ) / step / step`;
* a string literal is quoted with `'` unless it contains one, then with `"`;
* a number `mant / 10^scale` is written with all its `scale` fraction digits and at least one integer digit.
Core Lean only (the driver prints it: op `xprender`).
-/
namespace LyModel.XPath.Render
open LyModel LyModel.Generated LyModel.XPath.Lex LyModel.XPath.Parse

def opLevel : BinOp → Nat
  | .or => 1 | .and => 2 | .eq => 3 | .ne => 3 | .lt => 4 | .le => 4 | .gt => 4 | .ge => 4
  | .add => 5 | .sub => 5 | .mul => 6 | .div => 6 | .mod => 6 | .union => 8

def opTok : BinOp → PT
  | .or => (.operLog, [0x6f, 0x72]) | .and => (.operLog, [0x61, 0x6e, 0x64])
  | .eq => (.operEqual, [0x3d]) | .ne => (.operNequal, [0x21, 0x3d])
  | .lt => (.operComp, [0x3c]) | .le => (.operComp, [0x3c, 0x3d]) | .gt => (.operComp, [0x3e]) | .ge => (.operComp, [0x3e, 0x3d])
  | .add => (.operMath, [0x2b]) | .sub => (.operMath, [0x2d])
  | .mul => (.operMath, [0x2a]) | .div => (.operMath, [0x64, 0x69, 0x76]) | .mod => (.operMath, [0x6d, 0x6f, 0x64])
  | .union => (.operUni, [0x7c])

/-- precedence level of an expression as an operand; 0 = always parenthesised -/
def levelOf : Expr → Nat
  | .bin op _ _ => opLevel op
  | .neg _ => 7
  | .path .root [] => 0
  | _ => 9

def tPar1 : PT := (.par1, [0x28])
def tPar2 : PT := (.par2, [0x29])
def tBrack1 : PT := (.brack1, [0x5b])
def tBrack2 : PT := (.brack2, [0x5d])
def tComma : PT := (.comma, [0x2c])
def tSlash : PT := (.operPath, [0x2f])
def tMinus : PT := (.operMath, [0x2d])
def tDcolon : PT := (.dcolon, [0x3a, 0x3a])

def par (body : List PT) : List PT := tPar1 :: body ++ [tPar2]

/-- operand `e` (whose tokens are `body`) at level `lvl` -/
def wrap (lvl : Nat) (e : Expr) (body : List PT) : List PT := if levelOf e ≥ lvl then body else par body

def quoteFor (s : Bytes) : UInt8 := if s.contains 0x27 then 0x22 else 0x27

def numText (m sc : Nat) : Bytes :=
  if sc == 0 then Path.toDec m
  else
    let d := NumLex.padLeft (sc + 1) (Path.toDec m)
    d.take (d.length - sc) ++ 0x2e :: d.drop (d.length - sc)

def fnBytes (name : String) : Bytes :=
  match XpConsts.fnTable.find? (fun g => g.name == name) with
  | some g => g.bytes
  | none => []

def rtest : Test → List PT
  | .name none loc => [(.nametest, loc)]
  | .name (some p) loc => [(.nametest, p ++ 0x3a :: loc)]
  | .any => [(.nametest, [0x2a])]
  | .anyIn p => [(.nametest, p ++ [0x3a, 0x2a])]
  | .node => [(.nodetype, [0x6e, 0x6f, 0x64, 0x65]), tPar1, tPar2]
  | .text => [(.nodetype, [0x74, 0x65, 0x78, 0x74]), tPar1, tPar2]
  | .comment => [(.nodetype, [0x63, 0x6f, 0x6d, 0x6d, 0x65, 0x6e, 0x74]), tPar1, tPar2]

mutual
/-- tokens of `e` without enclosing parentheses -/
def rtoks : Expr → List PT
  | .lit s => [(.literal, quoteFor s :: s ++ [quoteFor s])]
  | .num m sc => [(.number, numText m sc)]
  | .fn name as => (.funcname, fnBytes name) :: tPar1 :: rargs false as ++ [tPar2]
  | .bin op a b => wrap (opLevel op) a (rtoks a) ++ opTok op :: wrap (opLevel op + 1) b (rtoks b)
  | .neg a => tMinus :: wrap 7 a (rtoks a)
  | .path .root steps => tSlash :: rsteps false steps
  | .path .ctx steps => rsteps false steps
  | .path (.expr e) steps => par (rtoks e) ++ rsteps true steps
  | .filter e ps => par (rtoks e) ++ rpreds ps

/-- `e1 , e2 , …` (`sep`: a comma goes in front of the first one too) -/
def rargs : Bool → List Expr → List PT
  | _, [] => []
  | sep, a :: r => (if sep then [tComma] else []) ++ rtoks a ++ rargs true r

/-- `[ p1 ] [ p2 ] …` -/
def rpreds : List Expr → List PT
  | [] => []
  | p :: r => tBrack1 :: rtoks p ++ tBrack2 :: rpreds r

/-- `step / step / …` (`sep`: a slash goes in front of the first one too) -/
def rsteps : Bool → List Step → List PT
  | _, [] => []
  | sep, s :: r => (if sep then [tSlash] else []) ++ rstep s ++ rsteps true r

def rstep : Step → List PT
  | .mk ax t ps => (.axisname, axisBytes ax) :: tDcolon :: rtest t ++ rpreds ps
end

/-! ### the abbreviated text (REC §2.5)

`atoks` = `rtoks` with every step written in its abbreviated form where one exists: `child::` is omitted, `attribute::` is
`@`, `self::node()` / `parent::node()` without predicates are `.` / `..` (`//` is left to `abbrev_dslash_*`). -/

/-- `node()` -/
def isNodeT : Test → Bool
  | .node => true
  | _ => false

def tDot : PT := (.dot, [0x2e])
def tDdot : PT := (.ddot, [0x2e, 0x2e])
def tAt : PT := (.at, [0x40])

mutual
def atoks : Expr → List PT
  | .lit s => [(.literal, quoteFor s :: s ++ [quoteFor s])]
  | .num m sc => [(.number, numText m sc)]
  | .fn name as => (.funcname, fnBytes name) :: tPar1 :: aargs false as ++ [tPar2]
  | .bin op a b => wrap (opLevel op) a (atoks a) ++ opTok op :: wrap (opLevel op + 1) b (atoks b)
  | .neg a => tMinus :: wrap 7 a (atoks a)
  | .path .root steps => tSlash :: asteps false steps
  | .path .ctx steps => asteps false steps
  | .path (.expr e) steps => par (atoks e) ++ asteps true steps
  | .filter e ps => par (atoks e) ++ apreds ps

def aargs : Bool → List Expr → List PT
  | _, [] => []
  | sep, a :: r => (if sep then [tComma] else []) ++ atoks a ++ aargs true r

def apreds : List Expr → List PT
  | [] => []
  | p :: r => tBrack1 :: atoks p ++ tBrack2 :: apreds r

def asteps : Bool → List Step → List PT
  | _, [] => []
  | sep, s :: r => (if sep then [tSlash] else []) ++ astep s ++ asteps true r

def astep : Step → List PT
  | .mk ax t ps =>
    if ax == .self && isNodeT t && ps.isEmpty then [tDot]
    else if ax == .parent && isNodeT t && ps.isEmpty then [tDdot]
    else if ax == .child then rtest t ++ apreds ps
    else if ax == .attribute then tAt :: rtest t ++ apreds ps
    else (.axisname, axisBytes ax) :: tDcolon :: rtest t ++ apreds ps
end

/-- token text, followed by one space unless the token is an axis name or `::` -/
def tokText (t : PT) : Bytes := if t.1 == .axisname || t.1 == .dcolon then t.2 else t.2 ++ [0x20]

def detok (ts : List PT) : Bytes := ts.flatMap tokText

/-- the canonical text -/
def render (e : Expr) : Bytes := detok (rtoks e)

/-! ### the same tokens with other white space

`renderW bs e`: the `i`-th token is followed by the `i`-th blank string of `bs` instead of one space (one space where `bs`
is too short; still nothing after an axis name and after `::`).  `Blanks bs`: every string of `bs` is a non-empty string
of white-space bytes (space, tab, LF, CR). -/

def Blank (b : Bytes) : Prop := b ≠ [] ∧ ∀ c ∈ b, Path.isWs c = true
def Blanks (bs : List Bytes) : Prop := ∀ b ∈ bs, Blank b

def tokTextW (t : PT) (b : Bytes) : Bytes := if t.1 == .axisname || t.1 == .dcolon then t.2 else t.2 ++ b

def detokW : List PT → List Bytes → Bytes
  | [], _ => []
  | t :: ts, [] => tokTextW t [0x20] ++ detokW ts []
  | t :: ts, b :: bs => tokTextW t b ++ detokW ts bs

def renderW (bs : List Bytes) (e : Expr) : Bytes := detokW (rtoks e) bs

/-- the abbreviated text (`atoks`) with the blank strings `bs` after its tokens -/
def renderAW (bs : List Bytes) (e : Expr) : Bytes := detokW (atoks e) bs

/-! ### free spacing: every blank that the tokenizer does not need may be left out

`detokG ts bs`: the `i`-th token is followed by the `i`-th string of `bs` (nothing where `bs` is too short, nothing after an
axis name and `::`).  `Spacing ts bs more`: every string of `bs` consists of white-space bytes, and where it is EMPTY the byte
that follows the token is one the tokenizer separates from it anyway (`followOk`, REC §3.7 longest-token rule as libyang
implements it): after a name, a function / node-type name and the operator names `or and div mod` one of
`( ) [ ] / | = ! < > + * , @ ' " $`; after a Number and after `.` one of these or `-`; after `/` not `/`; after `<` `>` not `=`;
after every other token anything (`a/b[1]`, `f(x)`, `1+2`, `a -b` but not `a-b`, `a or b`). -/

def punct : List UInt8 := [0x28, 0x29, 0x5b, 0x5d, 0x2f, 0x7c, 0x3d, 0x21, 0x3c, 0x3e, 0x2b, 0x2a, 0x2c, 0x40, 0x27, 0x22, 0x24]

def isNameTok (t : PT) : Bool :=
  t.1 == .nametest || t.1 == .funcname || t.1 == .nodetype || t.1 == .operLog || (t.1 == .operMath && t.2.length == 3)

def followOk (t : PT) (nxt : Bytes) : Bool :=
  match nxt with
  | [] => true
  | c :: _ =>
    if isNameTok t then (Path.isWs c || punct.contains c) && (nxt.drop (wsLen nxt)).head? != some 0x3a
    else if t.1 == .number || t.1 == .dot then Path.isWs c || punct.contains c || c == 0x2d
    else if t.1 == .operPath then c != 0x2f
    else if t.1 == .operComp && t.2.length == 1 then c != 0x3d
    else true

def detokG : List PT → List Bytes → Bytes
  | [], _ => []
  | t :: ts, bs => tokTextW t (bs.headD []) ++ detokG ts bs.tail

def Spacing : List PT → List Bytes → Bytes → Prop
  | [], _, _ => True
  | t :: ts, bs, more =>
    (∀ c ∈ bs.headD [], Path.isWs c = true) ∧
    (t.1 == .axisname || t.1 == .dcolon || followOk t (bs.headD [] ++ (detokG ts bs.tail ++ more))) = true ∧
    Spacing ts bs.tail more

/-- `Spacing` as a computation -/
def spacingB : List PT → List Bytes → Bytes → Bool
  | [], _, _ => true
  | t :: ts, bs, more =>
    (bs.headD []).all Path.isWs &&
    (t.1 == .axisname || t.1 == .dcolon || followOk t (bs.headD [] ++ (detokG ts bs.tail ++ more))) &&
    spacingB ts bs.tail more

/-- the fewest blanks: one space exactly where `followOk` demands a separation -/
def tightBs : List PT → List Bytes
  | [] => []
  | t :: ts =>
    let r := tightBs ts
    (if t.1 == .axisname || t.1 == .dcolon || followOk t (detokG ts r) then [] else [0x20]) :: r

/-- the abbreviated text of `e` with the blanks `bs` -/
def renderG (bs : List Bytes) (e : Expr) : Bytes := detokG (atoks e) bs

/-- the TIGHT text: abbreviated syntax, no blank that can be left out — the form YANG modules use (`../a/b[k='x']`,
`count(a)>1`).  The spacing `tightBs` is checked with `spacingB` and the single-blank text is the fallback; the fallback is
never taken on the expressions the check generates (compared on every run) -/
def renderT (e : Expr) : Bytes :=
  if spacingB (atoks e) (tightBs (atoks e)) [] then renderG (tightBs (atoks e)) e else renderAW [] e

end LyModel.XPath.Render
