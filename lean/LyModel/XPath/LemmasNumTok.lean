import LyModel.XPath.Canon
/-!
`numOf (numText m sc) = .num m sc`: the Number token the renderer writes for `mant / 10^scale` is read back exactly.
-/
namespace LyModel.XPath.LemmasNumTok
open LyModel LyModel.XPath.Parse LyModel.XPath.Render

def digVal (acc : Nat) (ds : Bytes) : Nat := ds.foldl (fun a b => a * 10 + (b.toNat - 48)) acc

theorem digVal_append (a : Nat) (x y : Bytes) : digVal a (x ++ y) = digVal (digVal a x) y := by
  simp [digVal, List.foldl_append]

theorem digVal_lin : ∀ (y : Bytes) (a : Nat), digVal a y = a * 10 ^ y.length + digVal 0 y := by
  intro y
  induction y with
  | nil => intro a; simp [digVal]
  | cons c r ih =>
    intro a
    have e1 : digVal a (c :: r) = digVal (a * 10 + (c.toNat - 48)) r := rfl
    have e2 : digVal 0 (c :: r) = digVal (0 * 10 + (c.toNat - 48)) r := rfl
    rw [e1, e2, ih (a * 10 + (c.toNat - 48)), ih (0 * 10 + (c.toNat - 48))]
    simp only [List.length_cons, Nat.pow_succ, Nat.zero_mul, Nat.zero_add, Nat.add_mul]
    rw [Nat.mul_assoc a 10, Nat.mul_comm 10 (10 ^ r.length)]
    omega

def AllDig (d : Bytes) : Prop := ∀ c ∈ d, NumLex.isDigit c = true

theorem takeDigits_digits : ∀ (ds : Bytes) (acc n : Nat) (rest : Bytes), AllDig ds →
    (∀ c r, rest = c :: r → NumLex.isDigit c = false) →
    NumLex.takeDigits (ds ++ rest) acc n = (digVal acc ds, n + ds.length, rest) := by
  intro ds
  induction ds with
  | nil =>
    intro acc n rest _ hr
    cases rest with
    | nil => simp [NumLex.takeDigits, digVal]
    | cons c r => simp [NumLex.takeDigits, hr c r rfl, digVal]
  | cons c t ih =>
    intro acc n rest hd hr
    have hc : NumLex.isDigit c = true := hd c (by simp)
    have := ih (acc * 10 + (c.toNat - 48)) (n + 1) rest (fun x hx => hd x (by simp [hx])) hr
    simp only [List.cons_append, NumLex.takeDigits, hc, if_true, this, List.length_cons]
    refine Prod.ext rfl (Prod.ext ?_ rfl)
    simp only; omega

theorem isDigit_of_path {c : UInt8} (h : Path.isDigit c = true) : NumLex.isDigit c = true := by
  simp only [Path.isDigit, Bool.and_eq_true, decide_eq_true_eq] at h
  simp only [NumLex.isDigit, Bool.and_eq_true, decide_eq_true_eq]
  exact ⟨by rw [UInt8.le_iff_toNat_le]; simpa using h.1, by rw [UInt8.le_iff_toNat_le]; simpa using h.2⟩

theorem toDec_allDig (m : Nat) : AllDig (Path.toDec m) := fun c hc => isDigit_of_path (Path.toDec_digits m c hc)

theorem toDecAux_val : ∀ (f n : Nat) (acc : Bytes), n < f →
    digVal 0 (Path.toDecAux f n acc) = n * 10 ^ acc.length + digVal 0 acc := by
  intro f
  induction f with
  | zero => intro n acc h; omega
  | succ f ih =>
    intro n acc h
    simp only [Path.toDecAux]
    split
    · next hlt =>
      have e : digVal 0 (UInt8.ofNat (48 + n) :: acc) = digVal (0 * 10 + ((UInt8.ofNat (48 + n)).toNat - 48)) acc := rfl
      have hv : (UInt8.ofNat (48 + n)).toNat - 48 = n := by
        have : (UInt8.ofNat (48 + n)).toNat = (48 + n) % 256 := by simp
        omega
      rw [e, hv, digVal_lin acc]; simp
    · next hge =>
      rw [ih (n / 10) _ (by omega)]
      have e : digVal 0 (UInt8.ofNat (48 + n % 10) :: acc) = digVal (0 * 10 + ((UInt8.ofNat (48 + n % 10)).toNat - 48)) acc := rfl
      have hv : (UInt8.ofNat (48 + n % 10)).toNat - 48 = n % 10 := by
        have : (UInt8.ofNat (48 + n % 10)).toNat = (48 + n % 10) % 256 := by simp
        omega
      rw [e, hv, digVal_lin acc]
      simp only [List.length_cons, Nat.pow_succ, Nat.zero_mul, Nat.zero_add]
      have hdm := Nat.div_add_mod n 10
      have : n * 10 ^ acc.length = (10 * (n / 10) + n % 10) * 10 ^ acc.length := by rw [hdm]
      rw [this, Nat.add_mul, Nat.mul_comm 10 (n / 10), Nat.mul_assoc (n / 10) 10, Nat.mul_comm 10 (10 ^ acc.length)]
      omega

theorem toDec_val (m : Nat) : digVal 0 (Path.toDec m) = m := by
  have := toDecAux_val (m + 1) m [] (by omega)
  simpa [Path.toDec, digVal] using this

theorem digVal_zeros (k : Nat) : digVal 0 (List.replicate k 0x30) = 0 := by
  induction k with
  | zero => rfl
  | succ k ih =>
    have e : digVal 0 (List.replicate (k + 1) 0x30) = digVal (0 * 10 + ((0x30 : UInt8).toNat - 48)) (List.replicate k 0x30) := rfl
    rw [e]; simpa using ih

theorem dot_not_digit : ∀ (c : UInt8) (r b : Bytes), (0x2e :: b : Bytes) = c :: r → NumLex.isDigit c = false := by
  intro c r b h
  simp only [List.cons.injEq] at h
  rw [← h.1]; decide

theorem numOf_numText (m sc : Nat) : numOf (numText m sc) = .num m sc := by
  unfold numText
  by_cases hsc : sc = 0
  · subst hsc
    have h := takeDigits_digits (Path.toDec m) 0 0 [] (toDec_allDig m) (by intro c r e; cases e)
    simp only [List.append_nil] at h
    simp [numOf, h, toDec_val]
  · have hb : (sc == 0) = false := by simpa using hsc
    simp only [hb, Bool.false_eq_true, if_false]
    generalize hd : NumLex.padLeft (sc + 1) (Path.toDec m) = d
    have hdig : AllDig d := by
      subst hd
      intro c hc
      simp only [NumLex.padLeft, List.mem_append, List.mem_replicate] at hc
      rcases hc with ⟨_, rfl⟩ | hc
      · decide
      · exact toDec_allDig m c hc
    have hval : digVal 0 d = m := by
      subst hd
      simp only [NumLex.padLeft]
      rw [digVal_append, digVal_zeros, toDec_val]
    have hlen : d.length ≥ sc + 1 := by
      subst hd
      simp only [NumLex.padLeft, List.length_append, List.length_replicate]; omega
    have ha : AllDig (d.take (d.length - sc)) := fun c hc => hdig c (List.mem_of_mem_take hc)
    have hbd : AllDig (d.drop (d.length - sc)) := fun c hc => hdig c (List.mem_of_mem_drop hc)
    have h1 := takeDigits_digits (d.take (d.length - sc)) 0 0 (0x2e :: d.drop (d.length - sc)) ha (fun c r e => dot_not_digit c r _ e)
    have h2 := takeDigits_digits (d.drop (d.length - sc)) (digVal 0 (d.take (d.length - sc))) 0 [] hbd (by intro c r e; cases e)
    simp only [List.append_nil] at h2
    have hv2 : digVal (digVal 0 (d.take (d.length - sc))) (d.drop (d.length - sc)) = m := by
      rw [← digVal_append, List.take_append_drop, hval]
    have hl2 : (d.drop (d.length - sc)).length = sc := by simp only [List.length_drop]; omega
    simp only [numOf, h1, h2, hv2, hl2, Nat.zero_add]

end LyModel.XPath.LemmasNumTok
