import LyModel.XPath.Doc
import LyModel.XPath.Ast
import LyModel.XPath.Str
import LyModel.XPath.Num
import LyModel.XPath.Comp
import LyModel.XPath.Yang
/-!
# Denotational evaluator for XPath 1.0 on the YANG data model  (component `XpCore`, property C08)

`eval : Expr → Cx → Except Err (Value N)` is written from the XPath 1.0 REC (§2 location paths, §3 expressions, §4 core
function library) over the document model of `Doc.lean`; it shares nothing with libyang.  Node-sets are lists of
references in document order without duplicates; numbers are an arbitrary `XNum`.

`Quirks` switches individual cells from the REC's definition to what libyang 3.7.8 computes instead.  With all switches
off the evaluator is the specification; each switch is one finding (its id is in the field's comment).  The
correspondence check runs libyang against the all-on instance and reports every input on which all-on differs from
all-off as a failure of the property, attributed to the switches that explain it.
-/
namespace LyModel.XPath
open LyModel

structure Quirks where
  /-- F38: `string(number)` prints non-integers with one fractional digit -/
  numFmt : Bool := false
  /-- F39: `number(string)` is `strtold` -/
  strtold : Bool := false
  /-- F40: `floor` truncates toward zero, `ceiling` = truncation + 1, `round` = truncation of x + 0.5 -/
  truncFloor : Bool := false
  /-- F41: `string-length`, `substring`, `translate` count bytes, not characters -/
  bytes : Bool := false
  /-- F250: the predicates of a step are applied once to the merged result of all context nodes -/
  predMerged : Bool := false
  /-- F251: `following`/`preceding` are empty unless the context node has a following/preceding sibling;
      `preceding` includes ancestors -/
  follPrec : Bool := false
  /-- F252: `*` matches the root node; `node()` does not match text nodes -/
  nodeTests : Bool := false
  /-- F253: a numeric predicate is truncated before it is compared with the position -/
  predTrunc : Bool := false
  /-- F254: `text()` selects nothing except on the child axis; a terminal with the empty value has a text child -/
  textQuirk : Bool := false
  /-- F255: string-value of a non-terminal node is an indented multi-line rendering -/
  strContainer : Bool := false
  /-- F256: node-set compared with a boolean is evaluated per node (false for the empty node-set) -/
  nsBool : Bool := false
  /-- F261: `floor` of NaN / ±Infinity evaluates to the context node-set -/
  floorNonFinite : Bool := false
  /-- F264: two-argument `substring` with start −Infinity returns the empty string -/
  substrNegInf : Bool := false
  /-- F355: a string compared with a typed terminal is first replaced by its canonical form in the type of that terminal
      (`set_comp_canonize`) -/
  canonStr : Bool := false
  /-- F354: `deref()` of a leafref without target instance is an error instead of the empty node-set -/
  derefErr : Bool := false
  /-- F353: an unprefixed identity name for which no module can be found (root context, or the name `*`) dereferences a NULL
      module in `xpath_derived_` (the driver prints `NullMod`, the implementation crashes); off = the repaired code: LY_EVALID -/
  nullModCrash : Bool := false
  /-- F356: `deref()` of an instance-identifier without instance is an error instead of the empty node-set -/
  derefInstErr : Bool := false
deriving Inhabited, Repr

def Quirks.ofMask (m : Nat) : Quirks :=
  { numFmt := m.testBit 0, strtold := m.testBit 1, truncFloor := m.testBit 2, bytes := m.testBit 3,
    predMerged := m.testBit 4, follPrec := m.testBit 5, nodeTests := m.testBit 6, predTrunc := m.testBit 7,
    textQuirk := m.testBit 8, strContainer := m.testBit 9, nsBool := m.testBit 10, floorNonFinite := m.testBit 11, substrNegInf := m.testBit 12,
    canonStr := m.testBit 13, derefErr := m.testBit 14, nullModCrash := m.testBit 15,
    derefInstErr := m.testBit 16 }

inductive Value (N : Type)
  | ns (l : List Ref)
  | str (s : Bytes)
  | num (n : N)
  | bool (b : Bool)

inductive Err
  | argType | invalidOp | unknownFn | arity
  /-- RFC 7950 §10 functions: unknown module prefix of an identity / other LY_EVALID (identity not found, pattern does not
      compile) / LY_EINVAL (`deref` without target) / the NULL module of finding F353 -/
  | noModule | valid | inval | nullMod
deriving Repr, DecidableEq

def Err.name : Err → String
  | .argType => "ArgType" | .invalidOp => "InvalidOp" | .unknownFn => "UnknownFn" | .arity => "Arity"
  | .noModule => "NoModule" | .valid => "Valid" | .inval => "Inval" | .nullMod => "NullMod"

/-- static part of the evaluation context: document, semantics switches, the `current()` node -/
structure Env where
  doc : Doc
  q : Quirks
  cur : Ref
  /-- schema facts (`Yang.lean`); empty = a schema without identities, enumerations, leafrefs, typed terminals -/
  facts : Facts := {}

/-- dynamic part (REC §1): context node, context position, context size -/
structure Cx where
  node : Ref
  pos : Nat
  size : Nat

namespace Env

def all (env : Env) : List Ref := env.doc.allRefs env.q.textQuirk
def norm (env : Env) (l : List Ref) : List Ref := mkNs env.doc env.q.textQuirk l

def valueOf (env : Env) (r : Ref) : Bytes :=
  match env.doc.elems[r / 2 - 1]? with
  | some e => if r != 0 && e.term then e.value else []
  | none => []

/-- REC §5: string-value = concatenation of the string-values of all text-node descendants in document order -/
def strValueRec (env : Env) (r : Ref) : Bytes :=
  if r.isText then env.valueOf r
  else ((env.doc.allRefs false).filter fun x => x.isText && env.doc.isAnc r x).flatMap env.valueOf

def elemChildren (env : Env) (r : Ref) : List Ref :=
  (env.all.filter fun x => x.isElem && env.doc.parentRef x == some r)

/-- libyang `cast_string_recursive` below the cast node -/
def strValueCAux (env : Env) : Nat → Ref → Nat → Bytes
  | 0, _, _ => []
  | f + 1, r, indent =>
    match env.doc.elem? r with
    | some e =>
      if e.term then List.replicate (2 * indent) 0x20 ++ e.value ++ [0x0a]
      else [0x0a] ++ (env.elemChildren r).flatMap fun c => strValueCAux env f c (indent + 1)
    | none => []

def strValueC (env : Env) (r : Ref) : Bytes :=
  if r == 0 then
    [0x0a] ++ ((env.elemChildren 0).flatMap fun c => env.strValueCAux (env.doc.elems.size + 1) c 1) ++ [0x0a]
  else if r.isText then env.valueOf r
  else match env.doc.elem? r with
    | some e =>
      if e.term then e.value
      else [0x0a] ++ (env.elemChildren r).flatMap fun c => env.strValueCAux (env.doc.elems.size + 1) c 1
    | none => []

def strValue (env : Env) (r : Ref) : Bytes :=
  if env.q.strContainer then env.strValueC r else env.strValueRec r

/-- REC §2.2 axes as relations "`x` is on axis `ax` of context node `c`" -/
def inAxis (env : Env) (ax : Axis) (c x : Ref) : Bool :=
  let d := env.doc
  match ax with
  | .self => x == c
  | .child => d.parentRef x == some c
  | .parent => d.parentRef c == some x
  | .ancestor => d.isAnc x c
  | .ancestorOrSelf => x == c || d.isAnc x c
  | .descendant => d.isAnc c x
  | .descendantOrSelf => x == c || d.isAnc c x
  | .followingSibling => c < x && c != 0 && d.parentRef x == d.parentRef c
  | .precedingSibling => x < c && x != 0 && d.parentRef x == d.parentRef c
  | .following =>
    if env.q.follPrec then
      c.isElem && x.isElem && c < x && !d.isAnc c x &&
        (env.all.any fun y => y.isElem && c < y && d.parentRef y == d.parentRef c)
    else c < x && !d.isAnc c x
  | .preceding =>
    if env.q.follPrec then
      c.isElem && x.isElem && x < c &&
        (env.all.any fun y => y.isElem && y < c && d.parentRef y == d.parentRef c)
    else x < c && x != 0 && !d.isAnc x c
  | .attribute => false

/-- REC §2.3 node tests (principal node type of every supported axis with nodes is element) -/
def matchTest (env : Env) (ax : Axis) (t : Test) (x : Ref) : Bool :=
  match t with
  | .name pfx loc =>
    match env.doc.elem? x with
    | some e => e.name == loc && (match pfx with | none => true | some p => e.mod == p)
    | none => false
  | .any => x.isElem || (env.q.nodeTests && x == 0)
  | .anyIn p => match env.doc.elem? x with | some e => e.mod == p | none => false
  | .node => !(env.q.nodeTests && x.isText)
  | .text => x.isText && (!env.q.textQuirk || ax == .child)
  | .comment => false

/-- nodes selected by `ax::t` from context node `c`, in document order -/
def candidates (env : Env) (ax : Axis) (t : Test) (c : Ref) : List Ref :=
  env.all.filter fun x => env.inAxis ax c x && env.matchTest ax t x

/-- canoniser of node `r` for `set_comp_canonize`: only an ELEMENT node that is a terminal with a `#type` fact has one -/
def canonFor (env : Env) (r : Ref) (s : Bytes) : Bytes :=
  match env.doc.elem? r with
  | some e =>
    if e.term then
      match env.facts.types.lookup (env.doc.spath r) with
      | some ty => Yang.canonize env.facts e.mod ty s
      | none => s
    else s
  | none => s

/-- a location path without predicates, evaluated from the node-set `s` (the form of a leafref path) -/
def walk (env : Env) : List (Axis × Test) → List Ref → List Ref
  | [], s => s
  | (ax, t) :: rest, s => walk env rest (env.norm (s.flatMap (env.candidates ax t)))

/-- module of the `current()` node (`set->cur_node->schema->module`), none for the root -/
def curMod (env : Env) : Option Bytes := (env.doc.elem? env.cur).map (·.mod)

/-- the instances a leafref terminal `x` refers to (RFC 7950 §9.9): the nodes its path selects from `x` that are terminals
with the same value; `none` = `x` is not a leafref with a representable path -/
def leafrefTargets (env : Env) (x : Ref) : Option (List Ref) :=
  match env.doc.elem? x with
  | some e =>
    if e.term then
      match env.facts.lrefs.lookup (env.doc.spath x) with
      | some (abs, steps) =>
        some ((env.walk steps [if abs then 0 else x]).filter fun y =>
          match env.doc.elem? y with
          | some t => t.term && t.value == e.value
          | none => false)
      | none => none
    else none
  | none => none

end Env

section
variable {N : Type} [XNum N]

def XNum.ofInt (i : Int) : N := if i < 0 then XNum.neg (XNum.ofNat i.natAbs) else XNum.ofNat i.natAbs

def Value.toStr (env : Env) : Value N → Bytes
  | .ns [] => []
  | .ns (x :: _) => env.strValue x
  | .str s => s
  | .num n => XNum.toStr env.q.numFmt n
  | .bool b => if b then "true".toUTF8.toList else "false".toUTF8.toList

def Value.toNum (env : Env) : Value N → N
  | .num n => n
  | .bool b => XNum.ofBool b
  | v => XNum.ofStr env.q.strtold (v.toStr env)

def Value.toBool : Value N → Bool
  | .ns l => !l.isEmpty
  | .str s => !s.isEmpty
  | .num n => !(XNum.isZero n || XNum.isNaN n)
  | .bool b => b

/-- operand of a comparison, abstracted from the tree: node-sets become the list of their string-values -/
def Value.toOpnd (env : Env) : Value N → Comp.Opnd N
  | .ns l => .ns (l.map env.strValue)
  | .str s => .str s
  | .num n => .num n
  | .bool b => .bool b

/-- `= != < <= > >=`: REC §3.4 (`Comp.Spec.compare`); with switch F355 on, `Comp.CZ.opComp` (canonisation of string operands); with switch F256 on, libyang's `moveto_op_comp` (`Comp.C.opComp`), which
`Props.C08.compare_table_partial` shows to be the same function except on node-set × boolean. -/
def Value.toOpndZ (env : Env) : Value N → Comp.CZ.OpndZ N
  | .ns l => .ns (l.map fun r => ⟨env.strValue r, env.canonFor r⟩)
  | .str s => .sc (.str s)
  | .num n => .sc (.num n)
  | .bool b => .sc (.bool b)

def compare (env : Env) (op : BinOp) (a b : Value N) : Bool :=
  let c : Comp.Cfg := { numFmt := env.q.numFmt, strtold := env.q.strtold }
  if env.q.canonStr then Comp.CZ.opComp c env.q.nsBool op (a.toOpndZ env) (b.toOpndZ env)
  else if env.q.nsBool then Comp.C.opComp c op (a.toOpnd env) (b.toOpnd env)
  else Comp.Spec.compare c op (a.toOpnd env) (b.toOpnd env)

def arith (op : BinOp) (a b : N) : N :=
  match op with
  | .add => XNum.add a b | .sub => XNum.sub a b | .mul => XNum.mul a b | .div => XNum.div a b | .mod => XNum.mod a b
  | _ => XNum.nan

/-- truth of a predicate value at proximity position `i` (REC §2.4) -/
def predTruth (env : Env) (v : Value N) (i : Nat) : Bool :=
  match v with
  | .num n => if env.q.predTrunc then XNum.eq (XNum.trunc n) (XNum.ofNat i) else XNum.eq n (XNum.ofNat i)
  | v => v.toBool

def filterIdx (f : Ref → Nat → Except Err Bool) : List Ref → Nat → Except Err (List Ref)
  | [], _ => pure []
  | x :: xs, i => do
    let b ← f x i
    let r ← filterIdx f xs (i + 1)
    pure (if b then x :: r else r)

def mapM' (f : Ref → Except Err (List Ref)) : List Ref → Except Err (List Ref)
  | [] => pure []
  | x :: xs => do
    let a ← f x
    let r ← mapM' f xs
    pure (a ++ r)

def firstNode (l : List Ref) : Option Ref := l.head?

def nameOf (env : Env) (full : Bool) (l : List Ref) : Bytes :=
  match l with
  | [] => []
  | x :: _ => match env.doc.elem? x with
    | some e => if full then e.mod ++ [0x3a] ++ e.name else e.name
    | none => []

/-- REC §4.2 `substring`: characters at positions `p` with `round(a) ≤ p < round(a) + round(b)` -/
def substring (env : Env) (s : Bytes) (a : N) (b : Option N) : Bytes :=
  let rnd : N → N := fun x => if env.q.truncFloor then XNum.roundC x else XNum.round x
  let ra := rnd a
  if env.q.substrNegInf && b.isNone && !XNum.isFinite ra && XNum.lt ra (XNum.zero : N) then [] else
  let keep : Nat → Bool := fun p =>
    XNum.le ra (XNum.ofNat p : N) &&
      (match b with
       | none => true
       | some b => XNum.lt (XNum.ofNat p : N) (XNum.add ra (rnd b)))
  Str.selectPos keep (Str.chars env.q.bytes s) 1

/-- the core function library (REC §4) and `current`, `bit-is-set` of RFC 7950 §10, on evaluated arguments -/
def callCore (env : Env) (cx : Cx) (f : String) (args : List (Value N)) : Except Err (Value N) :=
  let ctxv : Value N := .ns [cx.node]
  match f, args with
  | "last", [] => pure (.num (XNum.ofNat cx.size))
  | "position", [] => pure (.num (XNum.ofNat cx.pos))
  | "count", [.ns l] => pure (.num (XNum.ofNat l.length))
  | "count", [_] => throw .argType
  | "local-name", [] => pure (.str (nameOf env false [cx.node]))
  | "local-name", [.ns l] => pure (.str (nameOf env false l))
  | "local-name", [_] => throw .argType
  | "name", [] => pure (.str (nameOf env true [cx.node]))
  | "name", [.ns l] => pure (.str (nameOf env true l))
  | "name", [_] => throw .argType
  | "string", [] => pure (.str (ctxv.toStr env))
  | "string", [v] => pure (.str (v.toStr env))
  | "concat", a :: b :: r => pure (.str ((a :: b :: r).flatMap fun v => v.toStr env))
  | "starts-with", [a, b] => pure (.bool (Str.startsWith (a.toStr env) (b.toStr env)))
  | "contains", [a, b] => pure (.bool (Str.contains (a.toStr env) (b.toStr env)))
  | "substring-before", [a, b] => pure (.str (Str.substringBefore (a.toStr env) (b.toStr env)))
  | "substring-after", [a, b] => pure (.str (Str.substringAfter (a.toStr env) (b.toStr env)))
  | "substring", [s, a] => pure (.str (substring env (s.toStr env) (a.toNum env) none))
  | "substring", [s, a, b] => pure (.str (substring env (s.toStr env) (a.toNum env) (some (b.toNum env))))
  | "string-length", [] => pure (.num (XNum.ofNat (Str.length env.q.bytes (ctxv.toStr env))))
  | "string-length", [v] => pure (.num (XNum.ofNat (Str.length env.q.bytes (v.toStr env))))
  | "normalize-space", [] => pure (.str (Str.normalizeSpace (ctxv.toStr env)))
  | "normalize-space", [v] => pure (.str (Str.normalizeSpace (v.toStr env)))
  | "translate", [a, b, c] => pure (.str (Str.translate env.q.bytes (a.toStr env) (b.toStr env) (c.toStr env)))
  | "boolean", [v] => pure (.bool v.toBool)
  | "not", [v] => pure (.bool (!v.toBool))
  | "true", [] => pure (.bool true)
  | "false", [] => pure (.bool false)
  | "number", [] => pure (.num (ctxv.toNum env))
  | "number", [v] => pure (.num (v.toNum env))
  | "sum", [.ns l] =>
    pure (.num (l.foldl (fun acc x => XNum.add acc ((Value.str (env.strValue x) : Value N).toNum env)) XNum.zero))
  | "sum", [_] => throw .argType
  | "floor", [v] =>
    let x := v.toNum env
    if env.q.floorNonFinite && !XNum.isFinite x then pure ctxv
    else pure (.num (if env.q.truncFloor then XNum.floorC x else XNum.floor x))
  | "ceiling", [v] =>
    let x := v.toNum env
    pure (.num (if env.q.truncFloor then XNum.ceilC x else XNum.ceil x))
  | "round", [v] =>
    let x := v.toNum env
    pure (.num (if env.q.truncFloor then XNum.roundC x else XNum.round x))
  | "current", [] => pure (.ns [env.cur])
  | "bit-is-set", [.ns l, b] =>
    match l with
    | [] => pure (.bool false)
    | x :: _ => match env.doc.elem? x with
      | some e => pure (.bool (e.term && e.btype == "bits".toUTF8.toList && (Str.words e.value).contains (b.toStr env)))
      | none => pure (.bool false)
  | "bit-is-set", [_, _] => throw .argType
  | _, _ => throw .unknownFn

/-- `derived-from(ns, string)` / `derived-from-or-self` (RFC 7950 §10.4): `xpath_derived_` -/
def derivedFn (env : Env) (self : Bool) (l : List Ref) (name : Bytes) : Except Err (Value N) :=
  match Yang.lookupIdent env.facts env.curMod name with
  | .ok id => pure (.bool (Yang.derivedAny env.facts env.doc self id l))
  | .noModule => throw .noModule
  | .notFound => throw .valid
  | .nullMod => if env.q.nullModCrash then throw .nullMod else throw .valid

/-- `deref(ns)` (RFC 7950 §10.3.1) on a leafref: `xpath_deref` + `lyplg_type_resolve_leafref`.  instance-identifier terminals are
handled by `derefAny` below (`Env.instTarget`); this function alone yields the empty set for them. -/
def derefFn (env : Env) (l : List Ref) : Except Err (Value N) :=
  match l with
  | [] => pure (.ns [])
  | x :: _ =>
    match env.leafrefTargets x with
    | none => pure (.ns [])
    | some ts => if env.q.derefErr && ts.isEmpty then throw .inval else pure (.ns (env.norm ts))

/-- `xpath_deref`, branch `LY_TYPE_INST`: `some ts` = `x` is a terminal of type instance-identifier; `ts` = the node its value
denotes (`ly_path_eval`: one node — the first in document order should the data hold duplicates), or nothing -/
def Env.instTarget (env : Env) (x : Ref) : Option (List Ref) :=
  match env.doc.elem? x with
  | some e =>
    if e.term && env.facts.insts.contains (env.doc.spath x) then some ((env.norm (Yang.instTargets env.doc e.value)).take 1) else none
  | none => none

/-- `deref(ns)`: the first node is a leafref (`derefFn`), an instance-identifier, or anything else (empty node-set) -/
def derefAny (env : Env) (l : List Ref) : Except Err (Value N) :=
  match l with
  | [] => pure (.ns [])
  | x :: _ =>
    match env.leafrefTargets x with
    | some _ => derefFn env l
    | none =>
      match env.instTarget x with
      | some ts => if env.q.derefInstErr && ts.isEmpty then throw .inval else pure (.ns ts)
      | none => pure (.ns [])

/-- the functions of RFC 7950 §10 that need schema facts; `none` = not one of them -/
def callYang (env : Env) (f : String) (args : List (Value N)) : Option (Except Err (Value N)) :=
  match f, args with
  | "derived-from", [.ns l, s] => some (derivedFn env false l (s.toStr env))
  | "derived-from", [_, _] => some (throw .argType)
  | "derived-from-or-self", [.ns l, s] => some (derivedFn env true l (s.toStr env))
  | "derived-from-or-self", [_, _] => some (throw .argType)
  | "enum-value", [.ns l] =>
    some (pure (.num (match Yang.enumValue env.facts env.doc l with | some i => XNum.ofInt i | none => XNum.nan)))
  | "enum-value", [_] => some (throw .argType)
  | "re-match", [a, b] =>
    some (match Yang.reMatch (a.toStr env) (b.toStr env) with | some r => pure (.bool r) | none => throw .valid)
  | "deref", [.ns l] => some (derefAny env l)
  | "deref", [_] => some (throw .argType)
  | _, _ => none

/-- function call on evaluated arguments: RFC 7950 §10 (`callYang`), else the core library (`callCore`) -/
def callFn (env : Env) (cx : Cx) (f : String) (args : List (Value N)) : Except Err (Value N) :=
  match callYang env f args with
  | some r => r
  | none => callCore env cx f args

mutual
/-- value of an expression in a context (REC §3) -/
def eval (env : Env) : Expr → Cx → Except Err (Value N)
  | .lit s, _ => pure (.str s)
  | .num m sc, _ => pure (.num (XNum.ofDec m sc))
  | .fn f args, cx => do
    let vs ← evalArgs env args cx
    callFn env cx f vs
  | .neg a, cx => do
    let v ← eval env a cx
    pure (.num (XNum.neg (v.toNum env)))
  | .bin op a b, cx =>
    match op with
    | .or => do
      let x ← eval env a cx
      if x.toBool then pure (.bool true) else do
        let y ← eval env b cx
        pure (.bool y.toBool)
    | .and => do
      let x ← eval env a cx
      if !x.toBool then pure (.bool false) else do
        let y ← eval env b cx
        pure (.bool y.toBool)
    | .union => do
      let x ← eval env a cx
      let y ← eval env b cx
      match x, y with
      | .ns l1, .ns l2 => pure (.ns (env.norm (l1 ++ l2)))
      | _, _ => throw .invalidOp
    | .eq | .ne | .lt | .le | .gt | .ge => do
      let x ← eval env a cx
      let y ← eval env b cx
      pure (.bool (compare env op x y))
    | .add | .sub | .mul | .div | .mod => do
      let x ← eval env a cx
      let y ← eval env b cx
      pure (.num (arith op (x.toNum env) (y.toNum env)))
  | .path start steps, cx => do
    let s ← evalStart env start cx
    let r ← evalSteps env steps s
    pure (.ns r)
  | .filter e preds, cx => do
    let v ← eval env e cx
    match v with
    | .ns l => do
      let r ← evalPreds env preds l
      pure (.ns (env.norm r))
    | _ => throw .invalidOp

def evalArgs (env : Env) : List Expr → Cx → Except Err (List (Value N))
  | [], _ => pure []
  | a :: r, cx => do
    let v ← eval env a cx
    let vs ← evalArgs env r cx
    pure (v :: vs)

def evalStart (env : Env) : Start → Cx → Except Err (List Ref)
  | .root, _ => pure [0]
  | .ctx, cx => pure [cx.node]
  | .expr e, cx => do
    let v ← eval env e cx
    match v with
    | .ns l => pure l
    | _ => throw .invalidOp

/-- successive predicates over a list given in axis order (REC §2.4) -/
def evalPreds (env : Env) : List Expr → List Ref → Except Err (List Ref)
  | [], l => pure l
  | p :: ps, l => do
    let l' ← filterIdx (fun x i => do
        let v ← eval env p { node := x, pos := i, size := l.length }
        pure (predTruth env v i)) l 1
    evalPreds env ps l'

def evalSteps (env : Env) : List Step → List Ref → Except Err (List Ref)
  | [], s => pure s
  | .mk ax t preds :: rest, s => do
    let r ←
      if env.q.predMerged then do
        let r0 := env.norm (s.flatMap (env.candidates ax t))
        let sel ← evalPreds env preds (if ax.isReverse then r0.reverse else r0)
        pure (env.norm sel)
      else do
        let sel ← mapM' (fun c =>
            let c0 := env.candidates ax t c
            evalPreds env preds (if ax.isReverse then c0.reverse else c0)) s
        pure (env.norm sel)
    evalSteps env rest r
end

end
end LyModel.XPath
