import LyModel.XPath.Comp
/-! `moveto_op_comp` (model `Comp.C.opComp`) against the XPath 1.0 comparison table (`Comp.Spec.compare`). -/
namespace LyModel.XPath.Comp
open LyModel LyModel.XPath

section
variable {N : Type} [XNum N]

/-- scalar × scalar: conversion order and comparison of `moveto_op_comp` are those of REC §3.4 -/
theorem scalarComp_fst (c : Cfg) (op : BinOp) (a b : Opnd N) (ha : C.tyOf a ≠ .ns) (hb : C.tyOf b ≠ .ns) :
    (C.scalarComp c op a b).1 = Spec.cmpAtom c op a b := by
  cases a <;> cases b <;> simp [C.tyOf] at ha hb <;>
    (by_cases h : isEqNe op = true <;>
      simp [C.scalarComp, C.cast, C.tyOf, Spec.cmpAtom, Spec.toNum, Spec.toBool, Spec.toStr, h])

/-- the scalar operand as the loop may have left it: unchanged, or (for `< <= > >=`) converted to a number -/
def Reach (c : Cfg) (op : BinOp) (o o' : Opnd N) : Prop :=
  o' = o ∨ (isEqNe op = false ∧ o' = .num (Spec.toNum c o))

theorem item_step (c : Cfg) (op : BinOp) (o o' : Opnd N) (sv : Bytes) (sw : Bool)
    (ho : C.tyOf o = .str ∨ C.tyOf o = .num) (hr : Reach c op o o') :
    let tmp := C.itemCast c sv o'
    let r := if sw then C.scalarComp c op o' tmp else C.scalarComp c op tmp o'
    r.1 = (if sw then Spec.cmpAtom c op o (.str sv) else Spec.cmpAtom c op (.str sv) o) ∧
      Reach c op o (if sw then r.2.1 else r.2.2) := by
  cases o with
  | ns l => simp [C.tyOf] at ho
  | bool b => simp [C.tyOf] at ho
  | str s =>
    rcases hr with rfl | ⟨hne, rfl⟩
    · by_cases h : isEqNe op = true <;> cases sw <;>
        simp [Reach, C.itemCast, C.scalarComp, C.cast, C.tyOf, Spec.cmpAtom, Spec.toNum, Spec.toStr, h]
    · cases sw <;>
        simp [Reach, C.itemCast, C.scalarComp, C.cast, C.tyOf, Spec.cmpAtom, Spec.toNum, Spec.toStr, hne]
  | num n =>
    rcases hr with rfl | ⟨hne, rfl⟩
    · by_cases h : isEqNe op = true <;> cases sw <;>
        simp [Reach, C.itemCast, C.scalarComp, C.cast, C.tyOf, Spec.cmpAtom, Spec.toNum, Spec.toStr, h]
    · cases sw <;>
        simp [Reach, C.itemCast, C.scalarComp, C.cast, C.tyOf, Spec.cmpAtom, Spec.toNum, Spec.toStr, hne]

/-- node-set × string/number: the loop with its in-place conversion computes the existential of REC §3.4 -/
theorem nsScalar_fst (c : Cfg) (op : BinOp) (o : Opnd N) (sw : Bool) (ho : C.tyOf o = .str ∨ C.tyOf o = .num) :
    ∀ (l : List Bytes) (o' : Opnd N), Reach c op o o' →
      (C.nsScalar c op l o' sw).1 =
        l.any fun sv => if sw then Spec.cmpAtom c op o (.str sv) else Spec.cmpAtom c op (.str sv) o := by
  intro l
  induction l with
  | nil => intro o' _; simp [C.nsScalar]
  | cons sv rest ih =>
    intro o' hr
    have hs := item_step c op o o' sv sw ho hr
    cases sw
    · simp only [Bool.false_eq_true, if_false] at hs ih ⊢
      obtain ⟨h1, h2⟩ := hs
      rw [C.nsScalar]
      simp only [Bool.false_eq_true, if_false, List.any_cons]
      rw [← h1]
      cases hc : (C.scalarComp c op (C.itemCast c sv o') o').1
      · simp only [Bool.false_eq_true, if_false, Bool.false_or]
        exact ih _ h2
      · simp
    · simp only [if_true] at hs ih ⊢
      obtain ⟨h1, h2⟩ := hs
      rw [C.nsScalar]
      simp only [if_true, List.any_cons]
      rw [← h1]
      cases hc : (C.scalarComp c op o' (C.itemCast c sv o')).1
      · simp only [Bool.false_eq_true, if_false, Bool.false_or]
        exact ih _ h2
      · simp

theorem nsNs_eq (c : Cfg) (op : BinOp) (l2 : List Bytes) :
    ∀ l1 : List Bytes, C.nsNs (N := N) c op l1 l2 =
      l1.any fun x => l2.any fun y => Spec.cmpAtom c op (.str x : Opnd N) (.str y) := by
  intro l1
  induction l1 with
  | nil => simp [C.nsNs]
  | cons sv rest ih =>
    rw [C.nsNs, List.any_cons]
    have h := nsScalar_fst (N := N) c op (.str sv) true (Or.inl rfl) l2 (.str sv) (Or.inl rfl)
    simp only [if_true] at h
    rw [h, ih]
    cases hx : (l2.any fun y => Spec.cmpAtom c op (.str sv : Opnd N) (.str y)) <;> simp

/-- node-set compared with a boolean: the one cell of the table where `moveto_op_comp` is not the REC (finding F256) -/
def NsBoolPair : Opnd N → Opnd N → Prop
  | .ns _, .bool _ => True
  | .bool _, .ns _ => True
  | _, _ => False

theorem opComp_eq_spec (c : Cfg) (op : BinOp) (a b : Opnd N) (h : ¬ NsBoolPair a b) :
    C.opComp c op a b = Spec.compare c op a b := by
  cases a with
  | ns l1 =>
    cases b with
    | ns l2 => simp only [C.opComp, Spec.compare]; exact nsNs_eq c op l2 l1
    | bool y => exact absurd trivial h
    | str s =>
      simp only [C.opComp, Spec.compare]
      have := nsScalar_fst (N := N) c op (.str s) false (Or.inl rfl) l1 (.str s) (Or.inl rfl)
      simpa using this
    | num n =>
      simp only [C.opComp, Spec.compare]
      have := nsScalar_fst (N := N) c op (.num n) false (Or.inr rfl) l1 (.num n) (Or.inl rfl)
      simpa using this
  | str s =>
    cases b with
    | ns l2 =>
      simp only [C.opComp, Spec.compare]
      have := nsScalar_fst (N := N) c op (.str s) true (Or.inl rfl) l2 (.str s) (Or.inl rfl)
      simpa using this
    | str _ => simp only [C.opComp, Spec.compare]; exact scalarComp_fst c op _ _ (by simp [C.tyOf]) (by simp [C.tyOf])
    | num _ => simp only [C.opComp, Spec.compare]; exact scalarComp_fst c op _ _ (by simp [C.tyOf]) (by simp [C.tyOf])
    | bool _ => simp only [C.opComp, Spec.compare]; exact scalarComp_fst c op _ _ (by simp [C.tyOf]) (by simp [C.tyOf])
  | num n =>
    cases b with
    | ns l2 =>
      simp only [C.opComp, Spec.compare]
      have := nsScalar_fst (N := N) c op (.num n) true (Or.inr rfl) l2 (.num n) (Or.inl rfl)
      simpa using this
    | str _ => simp only [C.opComp, Spec.compare]; exact scalarComp_fst c op _ _ (by simp [C.tyOf]) (by simp [C.tyOf])
    | num _ => simp only [C.opComp, Spec.compare]; exact scalarComp_fst c op _ _ (by simp [C.tyOf]) (by simp [C.tyOf])
    | bool _ => simp only [C.opComp, Spec.compare]; exact scalarComp_fst c op _ _ (by simp [C.tyOf]) (by simp [C.tyOf])
  | bool x =>
    cases b with
    | ns l2 => exact absurd trivial h
    | str _ => simp only [C.opComp, Spec.compare]; exact scalarComp_fst c op _ _ (by simp [C.tyOf]) (by simp [C.tyOf])
    | num _ => simp only [C.opComp, Spec.compare]; exact scalarComp_fst c op _ _ (by simp [C.tyOf]) (by simp [C.tyOf])
    | bool _ => simp only [C.opComp, Spec.compare]; exact scalarComp_fst c op _ _ (by simp [C.tyOf]) (by simp [C.tyOf])

/-- the empty node-set against `false()` under `=`: REC true (`boolean(∅) = false`), libyang false (no node to compare) -/
theorem opComp_ne_spec_witness (c : Cfg) :
    C.opComp (N := N) c .eq (.ns []) (.bool false) = false ∧ Spec.compare (N := N) c .eq (.ns []) (.bool false) = true := by
  constructor
  · simp [C.opComp, C.nsScalar]
  · simp [Spec.compare, Spec.cmpAtom, isEqNe, cmpBool, Spec.toBool]

/-- node-set × boolean on non-empty node-sets with `=` / `!=` agrees again -/
theorem opComp_nsBool_eqne (c : Cfg) (op : BinOp) (hop : isEqNe op = true) (sv : Bytes) (l : List Bytes) (y : Bool) :
    C.opComp (N := N) c op (.ns (sv :: l)) (.bool y) = Spec.compare (N := N) c op (.ns (sv :: l)) (.bool y) := by
  have key : ∀ (l : List Bytes), (C.nsScalar (N := N) c op l (.bool y) false).1 = (!l.isEmpty && cmpBool op true y) := by
    intro l
    induction l with
    | nil => simp [C.nsScalar]
    | cons s r ih =>
      rw [C.nsScalar]
      simp only [C.itemCast, C.tyOf, C.cast, C.scalarComp, hop]
      simp
      cases hc : cmpBool op true y
      · simp [ih, hc]
      · simp
  simp only [C.opComp, Spec.compare, key]
  simp [Spec.cmpAtom, hop, Spec.toBool]

end
end LyModel.XPath.Comp
