import LyModel.Base
import LyModel.Path.Token
import LyModel.Generated.XpConsts
/-!
# The XPath tokenizer of libyang (`xpath.c: lyxp_expr_parse`, the `do … while (expr_str[parsed])` loop)

One iteration of the C loop is `lexStep`: it looks at the bytes at `parsed`, at the kind of the previous token (the
context-dependent rule of XPath 1.0 §3.7 for `*` and the operator names, as the C code implements it: the `!=` chain over
`expr->tokens[expr->used - 1]` is `Generated.XpConsts.notOperAfter`), and at the two flags `prev_ntype_check` /
`prev_func_check` that let a following `(` turn the previous NameTest into a NodeType or a FunctionName.  The input is the C
string without its terminating NUL; reading past the end reads the NUL, which matches no branch.

Pieces shared with the path tokenizer (`LyModel/Path/Token.lean`, the `reparse = 0` subset used by `ly_path_parse`):
`Path.ncname` (= `parse_ncname` on top of `ly_getutf8`, `is_xmlqnamestartchar`, `is_xmlqnamechar`), `Path.scanLit`,
`Path.scanNum`, `Path.skipWs`.  Core Lean only.
-/
namespace LyModel.XPath.Lex
open LyModel LyModel.Generated

/-- `enum lyxp_token` without `LYXP_TOKEN_NONE` -/
inductive TK
  | par1 | par2 | brack1 | brack2 | dot | ddot | at | comma | dcolon | nametest | nodetype | varref | funcname
  | operLog | operEqual | operNequal | operComp | operMath | operUni | operPath | operRpath | axisname | literal | number
deriving DecidableEq, Repr, Inhabited

/-- the numeric value in `enum lyxp_token` (read off `xpath.h` by the extractor) -/
def TK.code : TK → Nat
  | .par1 => XpConsts.tokPar1 | .par2 => XpConsts.tokPar2 | .brack1 => XpConsts.tokBrack1 | .brack2 => XpConsts.tokBrack2
  | .dot => XpConsts.tokDot | .ddot => XpConsts.tokDdot | .at => XpConsts.tokAt | .comma => XpConsts.tokComma
  | .dcolon => XpConsts.tokDcolon | .nametest => XpConsts.tokNametest | .nodetype => XpConsts.tokNodetype
  | .varref => XpConsts.tokVarref | .funcname => XpConsts.tokFuncname | .operLog => XpConsts.tokOperLog
  | .operEqual => XpConsts.tokOperEqual | .operNequal => XpConsts.tokOperNequal | .operComp => XpConsts.tokOperComp
  | .operMath => XpConsts.tokOperMath | .operUni => XpConsts.tokOperUni | .operPath => XpConsts.tokOperPath
  | .operRpath => XpConsts.tokOperRpath | .axisname => XpConsts.tokAxisname | .literal => XpConsts.tokLiteral
  | .number => XpConsts.tokNumber

def TK.all : List TK :=
  [.par1, .par2, .brack1, .brack2, .dot, .ddot, .at, .comma, .dcolon, .nametest, .nodetype, .varref, .funcname, .operLog,
   .operEqual, .operNequal, .operComp, .operMath, .operUni, .operPath, .operRpath, .axisname, .literal, .number]

def TK.ofCode (n : Nat) : Option TK := TK.all.find? (·.code == n)

/-- one token: kind, `tok_pos`, and the token text (`tok_len` = its length) -/
structure Tok where
  kind : TK
  pos : Nat
  text : Bytes
deriving DecidableEq, Repr, Inhabited

def Tok.len (t : Tok) : Nat := t.text.length

/-- the condition of the operator branch: there is a previous token and it is none of `@ ( [ ,` or an operator
(`acc` = the tokens so far, last one first) -/
def operCtx (acc : List Tok) : Bool :=
  match acc with
  | [] => false
  | t :: _ => !(XpConsts.notOperAfter.contains t.kind.code)

/-- state of the loop: tokens so far (last first), `prev_ntype_check`, `prev_func_check`, `parsed`, the input from `parsed` -/
structure St where
  acc : List Tok
  ntype : Bool
  func : Bool
  pos : Nat
  rest : Bytes
deriving Repr

/-- `St` after a token of `n` bytes of kind `k` was stored -/
def St.push (st : St) (k : TK) (n : Nat) : St :=
  { st with acc := ⟨k, st.pos, st.rest.take n⟩ :: st.acc, pos := st.pos + n, rest := st.rest.drop n }

def startsWith (s p : Bytes) : Bool := p.isPrefixOf s

/-- the `(` branch: the previous NameTest becomes a NodeType (`node`, `text`, `comment`) or a FunctionName -/
def reclassify (st : St) : St :=
  match st.acc with
  | t :: acc' =>
    if st.ntype && t.kind == .nametest && XpConsts.nodeTypeNames.contains t.text then
      { st with acc := { t with kind := .nodetype } :: acc', ntype := false, func := false }
    else if st.func && t.kind == .nametest then
      { st with acc := { t with kind := .funcname } :: acc', ntype := false, func := false }
    else st
  | [] => st

/-- `*` or `parse_ncname`: length of the first part of a NameTest; `none` = `ncname_len < 1` -/
def namePart (s : Bytes) : Option Nat :=
  match s with
  | 0x2a :: _ => some 1
  | _ => Path.ncname s

/-- number of leading white-space bytes -/
def wsLen : Bytes → Nat
  | [] => 0
  | c :: r => if Path.isWs c then wsLen r + 1 else 0

/-- F352 repaired (`XpConsts.starNoPrefix`): a first part `*` is never taken as a prefix -/
def starStop (st : St) : Bool := XpConsts.starNoPrefix && st.rest.head? == some 0x2a

/-- the NameTest is the `n` bytes measured so far -/
def namePlain (st : St) (n : Nat) (hasAxis : Bool) : Except Nat St :=
  let nt := st.rest.head? != some 0x2a
  .ok { (st.push .nametest n) with ntype := nt, func := nt && !hasAxis }

/-- the final `else` branch after a possible axis: NameTest of which `n` bytes (`*` or an NCName) are already measured -/
def nameTail (st : St) (n : Nat) (hasAxis : Bool) : Except Nat St :=
  match st.rest.drop n with
  | 0x3a :: after =>
    if starStop st then namePlain st n hasAxis
    else
      match after with
      | 0x2a :: _ => .ok { (st.push .nametest (n + 2)) with ntype := false, func := false }
      | _ =>
        match Path.ncname after with
        | none => .error st.pos
        | some m => .ok { (st.push .nametest (n + 1 + m)) with ntype := false, func := false }
  | _ => namePlain st n hasAxis

/-- F351 repaired (`XpConsts.axisWs`): white space that may stand between an AxisName and `::` -/
def axisGap (r : Bytes) : Nat := if XpConsts.axisWs then wsLen r else 0

/-- `parsed += ws_len` -/
def St.skip (st : St) (w : Nat) : St := { st with pos := st.pos + w, rest := st.rest.drop w }

/-- F351 repaired: white space after `::` is skipped -/
def afterDcolon (st : St) : St := if XpConsts.axisWs then st.skip (wsLen st.rest) else st

/-- the state after an AxisName of `n` bytes and `::` were stored (`parsed` at the node test) -/
def axisSt (st : St) (n : Nat) : St :=
  afterDcolon (((st.push .axisname n).skip (axisGap (st.rest.drop n))).push .dcolon 2)

/-- the final `else` branch: `(AxisName '::')? ((NCName ':')? '*' | QName)` -/
def lexName (st : St) : Except Nat St :=
  match namePart st.rest with
  | none => .error st.pos
  | some n =>
    if startsWith (st.rest.drop (n + axisGap (st.rest.drop n))) [0x3a, 0x3a] then
      if XpConsts.axisNames.contains (st.rest.take n) then
        match namePart (axisSt st n).rest with
        | none => .error (axisSt st n).pos
        | some n2 => nameTail (axisSt st n) n2 true
      else .error st.pos
    else nameTail st n false

/-- F350 repaired (`XpConsts.operNameWhole`): the operator name must be the whole NCName at `parsed`
(`ncname_len == strlen(name)`); unrepaired: it is tested as a PREFIX of the remaining input (`strncmp`) -/
def operName (st : St) (nm : Bytes) : Bool :=
  startsWith st.rest nm && (!XpConsts.operNameWhole || Path.ncname st.rest == some nm.length)

/-- the operator branch (previous token is an operand or `)` `]`): `*`, `or`, `and`, `mod`, `div`, anything else is an
error -/
def lexOper (st : St) : Except Nat St :=
  if startsWith st.rest [0x2a] then .ok (st.push .operMath 1)
  else if operName st [0x6f, 0x72] then .ok (st.push .operLog 2)
  else if operName st [0x61, 0x6e, 0x64] then .ok (st.push .operLog 3)
  else if operName st [0x6d, 0x6f, 0x64] || operName st [0x64, 0x69, 0x76] then .ok (st.push .operMath 3)
  else .error st.pos

/-- last part of the `if … else if …` chain: the operators written with special characters, then the two branches for
`*` and names -/
def lexChar4 (st : St) (c : UInt8) (r : Bytes) : Except Nat St :=
  if c == 0x21 && r.head? == some 0x3d then .ok (st.push .operNequal 2)
  else if (c == 0x3c || c == 0x3e) && r.head? == some 0x3d then .ok (st.push .operComp 2)
  else if c == 0x7c then .ok (st.push .operUni 1)
  else if c == 0x2b || c == 0x2d then .ok (st.push .operMath 1)
  else if c == 0x3d then .ok (st.push .operEqual 1)
  else if c == 0x3c || c == 0x3e then .ok (st.push .operComp 1)
  else if operCtx st.acc then lexOper st
  else lexName st

/-- third part: Number, VariableReference, `/` and `//` -/
def lexChar3 (st : St) (c : UInt8) (r : Bytes) : Except Nat St :=
  if c == 0x2e || Path.isDigit c then .ok (st.push .number (Path.scanNum (c :: r)).1.length)
  else if c == 0x24 then
    match Path.ncname r with
    | none => .error (st.pos + 1)
    | some n =>
      if (r.drop n).head? == some 0x3a then .error (st.pos + 1)
      else .ok ({ st with pos := st.pos + 1, rest := r }.push .varref n)
  else if c == 0x2f then
    if r.head? == some 0x2f then .ok (st.push .operRpath 2) else .ok (st.push .operPath 1)
  else lexChar4 st c r

/-- second part: `..`, `.`, `@`, `,`, Literal -/
def lexChar2 (st : St) (c : UInt8) (r : Bytes) : Except Nat St :=
  if c == 0x2e && r.head? == some 0x2e then .ok (st.push .ddot 2)
  else if c == 0x2e && !(Path.isDigit (r.headD 0)) then .ok (st.push .dot 1)
  else if c == 0x40 then .ok (st.push .at 1)
  else if c == 0x2c then .ok (st.push .comma 1)
  else if c == 0x27 || c == 0x22 then
    match Path.scanLit c r with
    | none => .error st.pos
    | some (body, _) => .ok (st.push .literal (body.length + 2))
  else lexChar3 st c r

/-- the `if … else if …` chain of the loop body on the byte `c` at `parsed` and the bytes `r` after it (cut into four
definitions in the order of the C code) -/
def lexChar (st : St) (c : UInt8) (r : Bytes) : Except Nat St :=
  if c == 0x28 then .ok ((reclassify st).push .par1 1)
  else if c == 0x29 then .ok (st.push .par2 1)
  else if c == 0x5b then .ok (st.push .brack1 1)
  else if c == 0x5d then .ok (st.push .brack2 1)
  else lexChar2 st c r

/-- one iteration of the loop body up to and including `exp_add_token` (white space is skipped by `lexLoop`); the error
carries the value of `parsed` -/
def lexStep (st : St) : Except Nat St :=
  match st.rest with
  | [] => lexName st               -- only reachable for an all-white-space string: the NUL is no name start
  | c :: r => lexChar st c r

def St.skipWs (st : St) : St := { st with pos := st.pos + wsLen st.rest, rest := st.rest.drop (wsLen st.rest) }

inductive LexErr
  /-- rejected; the value of `parsed` when the error was raised -/
  | at (pos : Nat)
  /-- the fuel of the model ran out (proved impossible: `lex_fuel_sufficient`) -/
  | fuel
deriving DecidableEq, Repr

/-- the `do { … } while (expr_str[parsed])` loop -/
def lexLoop : Nat → St → Except LexErr (List Tok)
  | 0, _ => .error .fuel
  | f + 1, st =>
    match lexStep st with
    | .error p => .error (.at p)
    | .ok st1 =>
      let st2 := st1.skipWs
      if st2.rest.isEmpty then .ok st2.acc.reverse else lexLoop f st2

/-- `lyxp_expr_parse(ctx, s, strlen(s), 0, …)`: the token array, or the position where the string was rejected -/
def lex (s : Bytes) : Except LexErr (List Tok) :=
  if s.isEmpty then .error (.at 0)
  else lexLoop (s.length + 1) (St.skipWs { acc := [], ntype := false, func := false, pos := 0, rest := s })

/-- every byte of `s` at an offset in `[a, b)` is white space or the `$` of a variable reference -/
def GapOK (s : Bytes) (a b : Nat) : Prop := ∀ i c, a ≤ i → i < b → s[i]? = some c → Path.isWs c = true ∨ c = 0x24

/-- specification predicate for token arrays, read from the LAST token backwards (`acc` = last token first): every token
is the slice of `s` at its offset (`tok_pos`, `tok_len`), ends at or before `bound`, the bytes between its end and `bound`
are white space (or `$`), and the same holds for the tokens before it up to its offset; before the first token there is
only white space — the tokens are non-overlapping substrings of the input, in order, and cover everything but blanks -/
def Chain (s : Bytes) : Nat → List Tok → Prop
  | bound, [] => GapOK s 0 bound
  | bound, t :: r => t.pos + t.text.length ≤ bound ∧ t.text = (s.drop t.pos).take t.text.length ∧
      GapOK s (t.pos + t.text.length) bound ∧ Chain s t.pos r

end LyModel.XPath.Lex
