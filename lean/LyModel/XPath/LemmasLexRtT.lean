import LyModel.XPath.Canon
import LyModel.XPath.LemmasLex
import LyModel.XPath.LemmasTok
import LyModel.XPath.LemmasParse
import LyModel.XPath.LemmasParseA
/-!
The tokenizer on canonical texts: `lex (detok ts)` gives back `ts` for the token lists `Render.rtoks` produces.
`Seg p ts q`: from a loop state whose operator context is `p` (if given), the text of `ts` is consumed token by token,
the tokens stored have the kinds and texts of `ts`, and the operator context afterwards is `q` (if given).
-/
namespace LyModel.XPath.LemmasLexRtT
open LyModel LyModel.Generated LyModel.XPath.Lex LyModel.XPath.Parse LyModel.XPath.Render LyModel.XPath.Canon
open LyModel.XPath.LemmasLex

/-! ### running the loop -/

def Step1 (a b : St) : Prop := ∃ s1, lexStep a = .ok s1 ∧ b = s1.skipWs

inductive Reach : St → St → Prop
  | refl (a : St) : Reach a a
  | step {a b c : St} : Step1 a b → Reach b c → Reach a c

theorem Reach.trans {a b c : St} (h1 : Reach a b) (h2 : Reach b c) : Reach a c := by
  induction h1 with
  | refl => exact h2
  | step s _ ih => exact Reach.step s (ih h2)

theorem Reach.single {a b : St} (h : Step1 a b) : Reach a b := Reach.step h (Reach.refl b)

theorem lexStep_nil {st : St} (h : st.rest = []) : ∃ p, lexStep st = .error p := by
  simp [lexStep, h, lexName, namePart, Path.ncname, Path.decodeCp]

theorem lexLoop_of_reach {a c : St} (h : Reach a c) (hc : c.rest = []) (ha : a.rest ≠ []) :
    ∀ f, lexLoop f a = .ok c.acc.reverse ∨ lexLoop f a = .error .fuel := by
  induction h with
  | refl => exact absurd hc ha
  | @step a b c s r ih =>
    intro f
    cases f with
    | zero => exact Or.inr rfl
    | succ f =>
      obtain ⟨s1, hs, rfl⟩ := s
      simp only [lexLoop, hs]
      by_cases hb : s1.skipWs.rest = []
      · simp only [hb, List.isEmpty_nil, if_true]
        cases r with
        | refl => exact Or.inl rfl
        | step s2 _ =>
          obtain ⟨s3, hs3, _⟩ := s2
          obtain ⟨p, hp⟩ := lexStep_nil hb
          rw [hp] at hs3; cases hs3
      · have : s1.skipWs.rest.isEmpty = false := by
          cases h : s1.skipWs.rest with
          | nil => exact absurd h hb
          | cons _ _ => rfl
        simp only [this, Bool.false_eq_true, if_false]
        exact ih hc hb f

/-! ### segments -/

/-- no leading white space -/
def NW (b : Bytes) : Prop := wsLen b = 0 ∧ b.head? ≠ some 0x3a

theorem NW.nil : NW [] := ⟨rfl, by simp⟩
theorem NW.cons {c : UInt8} {r : Bytes} (h : Path.isWs c = false) (h2 : c ≠ 0x3a) : NW (c :: r) := ⟨by simp [wsLen, h], by simp [h2]⟩

theorem identStart_ne_colon {c : UInt8} (hc : Path.IsIdentStart c) : c ≠ 0x3a := by
  unfold Path.IsIdentStart at hc; intro e; subst e; revert hc; decide

def ctxOf (st : St) : Bool := operCtx st.acc
def CtxIs (p : Option Bool) (st : St) : Prop := ∀ b, p = some b → ctxOf st = b

def Seg (p : Option Bool) (ts : List PT) (q : Option Bool) : Prop :=
  (∀ bs more, NW more → NW (detokG ts bs ++ more)) ∧
  ∀ (st : St) (bs : List Bytes) (more : Bytes), Spacing ts bs more → st.rest = detokG ts bs ++ more → NW more → CtxIs p st →
    ∃ st', Reach st st' ∧ st'.rest = more ∧ st'.acc.map ptOf = ts.reverse ++ st.acc.map ptOf ∧ CtxIs q st'

theorem detokG_append : ∀ (a b : List PT) (bs : List Bytes), detokG (a ++ b) bs = detokG a bs ++ detokG b (bs.drop a.length) := by
  intro a
  induction a with
  | nil => intro b bs; simp [detokG]
  | cons t r ih =>
    intro b bs
    cases bs with
    | nil => simp [detokG, ih b []]
    | cons x xs => simp [detokG, ih b xs]

theorem spacing_append : ∀ (a b : List PT) (bs : List Bytes) (more : Bytes), Spacing (a ++ b) bs more →
    Spacing a bs (detokG b (bs.drop a.length) ++ more) ∧ Spacing b (bs.drop a.length) more := by
  intro a
  induction a with
  | nil => intro b bs more h; exact ⟨trivial, by simpa using h⟩
  | cons t r ih =>
    intro b bs more h
    have e : bs.drop (t :: r).length = bs.tail.drop r.length := by cases bs <;> simp
    rw [e]
    simp only [List.cons_append, Spacing] at h
    obtain ⟨h1, h2, h3⟩ := h
    obtain ⟨i1, i2⟩ := ih b bs.tail more h3
    refine ⟨⟨h1, ?_, i1⟩, i2⟩
    rw [detokG_append, List.append_assoc] at h2; exact h2

theorem Seg.append {p1 q1 p2 q2 : Option Bool} {t1 t2 : List PT} (h1 : Seg p1 t1 q1) (h2 : Seg p2 t2 q2)
    (hc : ∀ b, p2 = some b → q1 = some b) : Seg p1 (t1 ++ t2) q2 := by
  refine ⟨?_, ?_⟩
  · intro bs more hm
    rw [detokG_append, List.append_assoc]
    exact h1.1 _ _ (h2.1 _ _ hm)
  · intro st bs more hb hr hm hp
    rw [detokG_append, List.append_assoc] at hr
    obtain ⟨b1, b2⟩ := spacing_append t1 t2 bs more hb
    obtain ⟨s1, r1, e1, a1, c1⟩ := h1.2 st bs _ b1 hr (h2.1 _ _ hm) hp
    obtain ⟨s2, r2, e2, a2, c2⟩ := h2.2 s1 _ more b2 e1 hm (fun b hb => c1 b (hc b hb))
    exact ⟨s2, r1.trans r2, e2, by rw [a2, a1]; simp, c2⟩

theorem Seg.pre {p q : Option Bool} {ts : List PT} (h : Seg none ts q) : Seg p ts q :=
  ⟨h.1, fun st bs more hb hr hm _ => h.2 st bs more hb hr hm (by intro b hb; cases hb)⟩

theorem Seg.post {p q : Option Bool} {ts : List PT} (h : Seg p ts q) : Seg p ts none :=
  ⟨h.1, fun st bs more hb hr hm hp => by
    obtain ⟨s, a, b, c, _⟩ := h.2 st bs more hb hr hm hp
    exact ⟨s, a, b, c, by intro b hb; cases hb⟩⟩

theorem Seg.nil : Seg none [] none :=
  ⟨fun bs more hm => by simpa [detokG] using hm, fun st bs more _ hr _ _ =>
    ⟨st, Reach.refl st, by simpa [detokG] using hr, by simp, by intro b hb; cases hb⟩⟩

/-- operator context after a token of kind `k` -/
def ctxAfter (k : TK) : Bool := !(XpConsts.notOperAfter.contains k.code)

theorem ctx_of_acc {st : St} {k : TK} {tx : Bytes} {r : List PT} (h : st.acc.map ptOf = (k, tx) :: r) :
    ctxOf st = ctxAfter k := by
  cases ha : st.acc with
  | nil => simp [ha] at h
  | cons t r' =>
    simp only [ha, List.map_cons, List.cons.injEq, ptOf, Prod.mk.injEq] at h
    simp [ctxOf, operCtx, ha, ctxAfter, h.1.1]

theorem wsLen_lead : ∀ (lead r : Bytes), (∀ c ∈ lead, Path.isWs c = true) → wsLen r = 0 → wsLen (lead ++ r) = lead.length := by
  intro lead
  induction lead with
  | nil => intro r _ h; simpa using h
  | cons c t ih =>
    intro r hl h
    have hc : Path.isWs c = true := hl c (by simp)
    simp [wsLen, hc, ih r (fun x hx => hl x (by simp [hx])) h]

/-- one iteration whose token is followed by the (possibly empty) blank string `b` -/
theorem iter_blank {st sN : St} {b more' : Bytes} (hs : lexStep st = .ok sN) (hrest : sN.rest = b ++ more')
    (hb : ∀ c ∈ b, Path.isWs c = true) (hm : wsLen more' = 0) :
    Step1 st { sN with pos := sN.pos + b.length, rest := more' } :=
  ⟨sN, hs, by simp [St.skipWs, hrest, wsLen_lead b more' hb hm]⟩

/-- a statement about every byte, checked on all 256 -/
theorem byte_forall (P : UInt8 → Bool) (h : ∀ n : Fin 256, P (UInt8.ofNat n.val) = true) (c : UInt8) : P c = true := by
  have := h ⟨c.toNat, c.toNat_lt⟩
  simpa using this

/-- the bytes after which a name ends: white space, the punctuation of `Render.punct`, `:` -/
def stopByte (c : UInt8) : Bool := Path.isWs c || punct.contains c || c == 0x3a

/-- a byte that `ly_getutf8` returns as itself -/
def asciiPlain (c : UInt8) : Bool :=
  decide (c.toNat < 128) && !(decide (c.toNat < 32) && c.toNat != 9 && c.toNat != 10 && c.toNat != 13)

theorem decodeCp_plain {c : UInt8} (r : Bytes) (h : asciiPlain c = true) : Path.decodeCp (c :: r) = some (c.toNat, 1) := by
  simp only [asciiPlain, Bool.and_eq_true, decide_eq_true_eq, Bool.not_eq_true'] at h
  simp only [Path.decodeCp, h.1, if_true]
  simp [h.2]

theorem imp_bool {a b : Bool} (h : (!a || b) = true) (ha : a = true) : b = true := by
  cases a <;> cases b <;> simp_all

set_option maxRecDepth 100000 in
theorem stopByte_facts (c : UInt8) (h : stopByte c = true) :
    asciiPlain c = true ∧ (Path.isNameCp c.toNat && c.toNat != 58) = false := by
  have := byte_forall (fun c => !stopByte c || (asciiPlain c && !(Path.isNameCp c.toNat && c.toNat != 58))) (by decide) c
  have hB := imp_bool this h
  have hB' := (Bool.and_eq_true _ _).mp hB
  refine ⟨hB'.1, ?_⟩
  cases hx : (Path.isNameCp c.toNat && c.toNat != 58) with
  | false => rfl
  | true => rw [hx] at hB'; exact absurd hB'.2 (by decide)

set_option maxRecDepth 100000 in
/-- after a Number and after `.`: not a digit, not `.` -/
theorem numFollow_facts (c : UInt8) (h : (Path.isWs c || punct.contains c || c == 0x2d) = true) : Path.isDigit c = false ∧ c ≠ 0x2e := by
  have := byte_forall (fun c => !(Path.isWs c || punct.contains c || c == 0x2d) || (!Path.isDigit c && c != 0x2e)) (by decide) c
  have hB := imp_bool this h
  have hB' := (Bool.and_eq_true _ _).mp hB
  exact ⟨by simpa using hB'.1, by simpa using hB'.2⟩

/-- one token stored by one iteration, whatever follows it within the limits of `followOk` -/
theorem seg_push (k : TK) (tx : Bytes) (htx : ∃ c r, tx = c :: r ∧ Path.isWs c = false ∧ c ≠ 0x3a) (hk : k ≠ .axisname ∧ k ≠ .dcolon)
    (p : Option Bool)
    (hstep : ∀ (st : St) (nxt : Bytes), followOk (k, tx) nxt = true → st.rest = tx ++ nxt → CtxIs p st →
      lexStep st = .ok (st.push k tx.length)) :
    Seg p [(k, tx)] (some (ctxAfter k)) := by
  have ha : (k == TK.axisname) = false := by simpa using hk.1
  have hc' : (k == TK.dcolon) = false := by simpa using hk.2
  have hd : ∀ bs, detokG [(k, tx)] bs = tx ++ bs.headD [] := by intro bs; simp [detokG, tokTextW, ha, hc']
  refine ⟨?_, ?_⟩
  · intro bs more _
    obtain ⟨c, r, rfl, hc, hc2⟩ := htx
    rw [hd]
    exact NW.cons hc hc2
  · intro st bs more hb hr hm hp
    rw [hd] at hr
    simp only [Spacing, ha, hc', Bool.false_or, detokG, List.nil_append] at hb
    obtain ⟨hws, hf, _⟩ := hb
    have hr' : st.rest = tx ++ (bs.headD [] ++ more) := by rw [hr]; simp
    have hs := hstep st _ hf hr' hp
    have hrest : (st.push k tx.length).rest = bs.headD [] ++ more := by simp [St.push, hr']
    have s1 := iter_blank hs hrest hws hm.1
    refine ⟨_, Reach.single s1, rfl, ?_, ?_⟩
    · simp [St.push, ptOf, hr']
    · intro b hb
      cases hb
      exact ctx_of_acc (k := k) (tx := tx) (r := st.acc.map ptOf) (by simp [St.push, ptOf, hr'])

/-! ### the single tokens -/

theorem seg_par2 : Seg none [tPar2] (some true) :=
  seg_push .par2 [0x29] ⟨_, _, rfl, by decide, by decide⟩ ⟨by decide, by decide⟩ none
    (fun st nxt hf hr _ => by simp [lexStep, hr, lexChar])
theorem seg_brack1 : Seg none [tBrack1] (some false) :=
  seg_push .brack1 [0x5b] ⟨_, _, rfl, by decide, by decide⟩ ⟨by decide, by decide⟩ none
    (fun st nxt hf hr _ => by simp [lexStep, hr, lexChar])
theorem seg_brack2 : Seg none [tBrack2] (some true) :=
  seg_push .brack2 [0x5d] ⟨_, _, rfl, by decide, by decide⟩ ⟨by decide, by decide⟩ none
    (fun st nxt hf hr _ => by simp [lexStep, hr, lexChar])
theorem seg_comma : Seg none [tComma] (some false) :=
  seg_push .comma [0x2c] ⟨_, _, rfl, by decide, by decide⟩ ⟨by decide, by decide⟩ none
    (fun st nxt hf hr _ => by simp [lexStep, hr, lexChar, lexChar2])
theorem seg_slash : Seg none [tSlash] (some false) :=
  seg_push .operPath [0x2f] ⟨_, _, rfl, by decide, by decide⟩ ⟨by decide, by decide⟩ none
    (fun st nxt hf hr _ => by
      cases nxt with
      | nil => simp [lexStep, hr, lexChar, lexChar2, lexChar3, Path.isDigit]
      | cons c r =>
        have : c ≠ 0x2f := by simpa [followOk, isNameTok] using hf
        simp [lexStep, hr, lexChar, lexChar2, lexChar3, Path.isDigit, this])
theorem seg_minus : Seg none [tMinus] (some false) :=
  seg_push .operMath [0x2d] ⟨_, _, rfl, by decide, by decide⟩ ⟨by decide, by decide⟩ none
    (fun st nxt hf hr _ => by simp [lexStep, hr, lexChar, lexChar2, lexChar3, lexChar4, Path.isDigit])

theorem reclassify_id {st : St} (h : operCtx st.acc = false) : reclassify st = st := by
  unfold reclassify
  cases ha : st.acc with
  | nil => rfl
  | cons t r =>
    have hk : t.kind ≠ .nametest := by
      intro e
      obtain ⟨k, p, tx⟩ := t
      simp only at e; subst e
      simp [operCtx, ha] at h
      revert h; decide
    have : (t.kind == TK.nametest) = false := by simpa using hk
    simp [this]

theorem seg_par1 : Seg (some false) [tPar1] (some false) :=
  seg_push .par1 [0x28] ⟨_, _, rfl, by decide, by decide⟩ ⟨by decide, by decide⟩ (some false)
    (fun st nxt hf hr hp => by
      have : operCtx st.acc = false := hp false rfl
      simp [lexStep, hr, lexChar, reclassify_id this])

theorem seg_lit (s : Bytes) (hw : wf (.lit s) = true) : Seg none [(.literal, quoteFor s :: (s ++ [quoteFor s]))] (some true) := by
  have hq : (quoteFor s = 0x27 ∨ quoteFor s = 0x22) ∧ quoteFor s ∉ s := by
    unfold quoteFor
    simp only [wf, Bool.not_eq_true', Bool.and_eq_false_iff] at hw
    by_cases h : s.contains 0x27 = true
    · simp only [h, if_true]
      rcases hw with hw | hw
      · rw [hw] at h; cases h
      · exact ⟨by first | trivial | exact Or.inr rfl, by simpa using hw⟩
    · simp only [h, Bool.false_eq_true, if_false]
      exact ⟨by first | trivial | exact Or.inl rfl, by simpa using h⟩
  refine seg_push .literal _ ⟨_, _, rfl, by rcases hq.1 with h | h <;> rw [h] <;> decide, by rcases hq.1 with h | h <;> rw [h] <;> decide⟩ ⟨by decide, by decide⟩ none ?_
  intro st nxt hf hr _
  have hsl := Path.scanLit_spec (quoteFor s) s nxt hq.2
  have hr' : st.rest = quoteFor s :: (s ++ quoteFor s :: nxt) := by rw [hr]; simp
  rcases hq.1 with h | h <;>
    simp [lexStep, hr', lexChar, lexChar2, h] <;> (rw [h] at hsl; simp [hsl])


/-! ### numbers -/

theorem lexChar_digit (st : St) {c : UInt8} (r : Bytes) (hc : Path.isDigit c = true) :
    lexChar st c r = .ok (st.push .number (Path.scanNum (c :: r)).1.length) := by
  have hb : 48 ≤ c.toNat ∧ c.toNat ≤ 57 := by simpa [Path.isDigit] using hc
  have n1 : (c == 40) = false := Path.beq_false_of_toNat_ne (by simp; omega)
  have n2 : (c == 41) = false := Path.beq_false_of_toNat_ne (by simp; omega)
  have n3 : (c == 91) = false := Path.beq_false_of_toNat_ne (by simp; omega)
  have n4 : (c == 93) = false := Path.beq_false_of_toNat_ne (by simp; omega)
  have n5 : (c == 46) = false := Path.beq_false_of_toNat_ne (by simp; omega)
  have n6 : (c == 64) = false := Path.beq_false_of_toNat_ne (by simp; omega)
  have n7 : (c == 44) = false := Path.beq_false_of_toNat_ne (by simp; omega)
  have n8 : (c == 39) = false := Path.beq_false_of_toNat_ne (by simp; omega)
  have n9 : (c == 34) = false := Path.beq_false_of_toNat_ne (by simp; omega)
  simp [lexChar, lexChar2, lexChar3, n1, n2, n3, n4, n5, n6, n7, n8, n9, hc]

theorem digit_not_ws {c : UInt8} (hc : Path.isDigit c = true) : Path.isWs c = false := by
  have hb : 48 ≤ c.toNat ∧ c.toNat ≤ 57 := by simpa [Path.isDigit] using hc
  have a : (c == 0x20) = false := Path.beq_false_of_toNat_ne (by simp; omega)
  have b : (c == 0x9) = false := Path.beq_false_of_toNat_ne (by simp; omega)
  have d : (c == 0xa) = false := Path.beq_false_of_toNat_ne (by simp; omega)
  have e : (c == 0xd) = false := Path.beq_false_of_toNat_ne (by simp; omega)
  simp [Path.isWs, a, b, d, e]

/-- `numText` = digits, or digits `.` digits -/
theorem numText_shape (m sc : Nat) : ∃ a b, numText m sc = a ++ b ∧ Path.AllDigits a ∧ a ≠ [] ∧
    (b = [] ∨ ∃ b', b = 0x2e :: b' ∧ Path.AllDigits b') := by
  unfold numText
  by_cases hsc : sc = 0
  · subst hsc
    exact ⟨Path.toDec m, [], by simp, Path.toDec_digits m, Path.toDec_ne_nil m, Or.inl rfl⟩
  · have hb : (sc == 0) = false := by simpa using hsc
    simp only [hb, Bool.false_eq_true, if_false]
    generalize hd : NumLex.padLeft (sc + 1) (Path.toDec m) = d
    have hdig : Path.AllDigits d := by
      subst hd
      intro c hc
      simp only [NumLex.padLeft, List.mem_append, List.mem_replicate] at hc
      rcases hc with ⟨_, rfl⟩ | hc
      · decide
      · exact Path.toDec_digits m c hc
    have hlen : d.length ≥ sc + 1 := by
      subst hd
      simp only [NumLex.padLeft, List.length_append, List.length_replicate]; omega
    refine ⟨d.take (d.length - sc), 0x2e :: d.drop (d.length - sc), rfl, fun c hc => hdig c (List.mem_of_mem_take hc), ?_,
      Or.inr ⟨_, rfl, fun c hc => hdig c (List.mem_of_mem_drop hc)⟩⟩
    intro h
    have : (d.take (d.length - sc)).length = 0 := by rw [h]; rfl
    simp only [List.length_take] at this
    omega

/-- what may follow a Number: nothing, or a byte that is neither a digit nor `.` -/
def NumEnd (nxt : Bytes) : Prop := ∀ c r, nxt = c :: r → Path.isDigit c = false ∧ c ≠ 0x2e

theorem scanNum_numText (m sc : Nat) (nxt : Bytes) (hn : NumEnd nxt) :
    Path.scanNum (numText m sc ++ nxt) = (numText m sc, nxt) := by
  have hd : nxt.head?.map Path.isDigit ≠ some true := by
    cases nxt with
    | nil => simp
    | cons c r => simp [(hn c r rfl).1]
  obtain ⟨a, b, hab, ha, _, hb⟩ := numText_shape m sc
  rw [hab]
  unfold Path.scanNum
  rcases hb with rfl | ⟨b', rfl, hb'⟩
  · have := Path.spanDigits_spec a nxt ha hd
    simp only [List.append_nil, this]
    split
    · next heq =>
      simp only [Prod.mk.injEq] at heq
      exact absurd rfl (hn _ _ heq.2).2
    · next heq => simp only [Prod.mk.injEq] at heq; rw [← heq.1, ← heq.2]
  · have h1 := Path.spanDigits_spec a (0x2e :: (b' ++ nxt)) ha (by simp [Path.isDigit])
    have h2 := Path.spanDigits_spec b' nxt hb' hd
    have e : a ++ 0x2e :: b' ++ nxt = a ++ 0x2e :: (b' ++ nxt) := by simp
    rw [e, h1]
    simp only [h2, List.append_assoc, List.cons_append]

theorem numEnd_of_follow {t : PT} (ht : t.1 = .number ∨ t.1 = .dot) {nxt : Bytes} (hf : followOk t nxt = true) : NumEnd nxt := by
  intro c r e
  subst e
  have hn : isNameTok t = false := by rcases ht with h | h <;> simp [isNameTok, h]
  have hk : (t.1 == TK.number || t.1 == TK.dot) = true := by rcases ht with h | h <;> simp [h]
  simp only [followOk, hn, Bool.false_eq_true, if_false, hk, if_true] at hf
  exact numFollow_facts c hf

theorem seg_num (m sc : Nat) : Seg none [(.number, numText m sc)] (some true) := by
  obtain ⟨a, b, hab, ha, hne, _⟩ := numText_shape m sc
  obtain ⟨c, a', rfl⟩ : ∃ c a', a = c :: a' := by
    cases a with
    | nil => exact absurd rfl hne
    | cons c a' => exact ⟨c, a', rfl⟩
  have hc : Path.isDigit c = true := ha c (by simp)
  refine seg_push .number _ ⟨c, a' ++ b, by rw [hab]; simp, digit_not_ws hc, by intro e; subst e; revert hc; decide⟩ ⟨by decide, by decide⟩ none ?_
  intro st nxt hf hr _
  have hsn := scanNum_numText m sc nxt (numEnd_of_follow (Or.inl rfl) hf)
  have hr' : st.rest = c :: (a' ++ b ++ nxt) := by rw [hr, hab]; simp
  have hsn' : Path.scanNum (c :: (a' ++ b ++ nxt)) = (numText m sc, nxt) := by
    rw [← hsn, hab]; simp
  simp only [lexStep, hr']
  rw [lexChar_digit st _ hc, hsn']

/-! ### names -/

/-- what ends a name: nothing, white space, punctuation, `:` -/
def Stop (rest : Bytes) : Prop := rest = [] ∨ ∃ c r, rest = c :: r ∧ stopByte c = true

theorem ncnameRest_stop (rest : Bytes) (hr : Stop rest) :
    ∀ (t : Bytes), (∀ d ∈ t, Path.IsIdentChar d) → ∀ fuel, t.length ≤ fuel →
      Path.ncnameRest fuel (t ++ rest) = some t.length := by
  intro t
  induction t with
  | nil =>
    intro _ fuel _
    cases fuel with
    | zero => simp [Path.ncnameRest]
    | succ f =>
      rcases hr with rfl | ⟨c, r, rfl, hc⟩
      · simp [Path.ncnameRest]
      · obtain ⟨h1, hn⟩ := stopByte_facts c hc
        have hd := decodeCp_plain r h1
        simp [Path.ncnameRest, hd, hn]
  | cons c t ih =>
    intro ht fuel hf
    cases fuel with
    | zero => simp at hf
    | succ f =>
      obtain ⟨h1, h2, h3, h4⟩ := Path.isNameCp_identChar (ht c (by simp))
      have hd : Path.decodeCp (c :: (t ++ rest)) = some (c.toNat, 1) := Path.decodeCp_ascii _ h3 h4
      have hne : (c.toNat != 58) = true := by simp [h2]
      have := ih (fun d hd => ht d (by simp [hd])) f (by simpa using hf)
      simp [Path.ncnameRest, hd, h1, hne, this]

theorem ncname_stop {nm : Bytes} (hn : Path.IsIdent nm) (rest : Bytes) (hr : Stop rest) :
    Path.ncname (nm ++ rest) = some nm.length := by
  cases hn with
  | mk c t hc ht =>
    obtain ⟨h1, h2, h3, h4⟩ := Path.isNameStartCp_identStart hc
    have hd : Path.decodeCp (c :: (t ++ rest)) = some (c.toNat, 1) := Path.decodeCp_ascii _ h3 h4
    have hne : (c.toNat == 58) = false := by simp [h2]
    have := ncnameRest_stop rest hr t ht (t.length + rest.length + 1) (by omega)
    simp [Path.ncname, hd, h1, hne, this]

theorem stop_colon (r : Bytes) : Stop (0x3a :: r) := Or.inr ⟨_, _, rfl, by decide⟩
theorem stop_byte {c : UInt8} (h : stopByte c = true) (r : Bytes) : Stop (c :: r) := Or.inr ⟨_, _, rfl, h⟩

/-- what `followOk` grants after a name-like token: the name ends there, the next byte is not `:`, and no `::` follows
the blanks -/
theorem name_follow {t : PT} (ht : isNameTok t = true) {nxt : Bytes} (hf : followOk t nxt = true) :
    Stop nxt ∧ nxt.head? ≠ some 0x3a ∧ (nxt.drop (wsLen nxt)).head? ≠ some 0x3a := by
  cases nxt with
  | nil => exact ⟨Or.inl rfl, by simp, by simp [wsLen]⟩
  | cons c r =>
    simp only [followOk, ht, if_true, Bool.and_eq_true, bne_iff_ne, ne_eq] at hf
    have hs : stopByte c = true := by simp only [stopByte]; rw [hf.1]; rfl
    refine ⟨stop_byte hs r, ?_, hf.2⟩
    intro e
    simp only [List.head?_cons, Option.some.injEq] at e
    subst e
    revert hf; simp [Path.isWs, punct]

theorem lexChar_ident (st : St) {c : UInt8} (r : Bytes) (hc : Path.IsIdentStart c) :
    lexChar st c r = if operCtx st.acc then lexOper st else lexName st := by
  obtain ⟨h1, h2, h3, h4, h5, h6, h7, h8, h9, h10, h11, h12, h13, h14, h15, h16, h17, h18, h19, _⟩ := Path.identStart_ne hc
  simp [lexChar, lexChar2, lexChar3, lexChar4, h1, h2, h3, h4, h5, h6, h7, h8, h9, h10, h11, h12, h13, h14, h15, h16, h17,
    h18, h19]

theorem lexChar_high (st : St) {c : UInt8} (r : Bytes) (hc : c.toNat ≥ 128) :
    lexChar st c r = if operCtx st.acc then lexOper st else lexName st := by
  have n : ∀ k : UInt8, k.toNat < 128 → (c == k) = false := fun k hk => Path.beq_false_of_toNat_ne (by omega)
  have d : Path.isDigit c = false := by simp [Path.isDigit]; omega
  simp [lexChar, lexChar2, lexChar3, lexChar4, d, n 0x28 (by decide), n 0x29 (by decide), n 0x5b (by decide), n 0x5d (by decide),
    n 0x2e (by decide), n 0x40 (by decide), n 0x2c (by decide), n 0x27 (by decide), n 0x22 (by decide), n 0x24 (by decide),
    n 0x2f (by decide), n 0x21 (by decide), n 0x3c (by decide), n 0x3e (by decide), n 0x7c (by decide), n 0x2b (by decide),
    n 0x2d (by decide), n 0x3d (by decide)]

/-- the first byte of an NCName is a letter, `_`, or a byte ≥ 0x80 -/
theorem ncname_first {s : Bytes} {n : Nat} (h : Path.ncname s = some n) :
    ∃ c r, s = c :: r ∧ (Path.IsIdentStart c ∨ c.toNat ≥ 128) := by
  cases s with
  | nil => simp [Path.ncname, Path.decodeCp] at h
  | cons c r =>
    refine ⟨c, r, rfl, ?_⟩
    by_cases hc : c.toNat < 128
    · left
      unfold Path.ncname at h
      have hd : Path.decodeCp (c :: r) = none ∨ Path.decodeCp (c :: r) = some (c.toNat, 1) := by
        simp only [Path.decodeCp, hc, if_true]; split <;> simp
      rcases hd with hd | hd
      · simp [hd] at h
      · simp only [hd] at h
        split at h
        · cases h
        · next hns =>
          simp only [Bool.or_eq_true, Bool.not_eq_true', beq_iff_eq, not_or, Bool.not_eq_false] at hns
          have h1 := hns.1
          simp only [Path.isNameStartCp, Bool.or_eq_true, Bool.and_eq_true, decide_eq_true_eq, beq_iff_eq, bne_iff_ne] at h1
          unfold Path.IsIdentStart
          omega
    · right; omega

theorem identStart_not_ws {c : UInt8} (hc : Path.IsIdentStart c) : Path.isWs c = false := by
  unfold Path.IsIdentStart at hc
  have a : (c == 0x20) = false := Path.beq_false_of_toNat_ne (by simp; omega)
  have b : (c == 0x9) = false := Path.beq_false_of_toNat_ne (by simp; omega)
  have d : (c == 0xa) = false := Path.beq_false_of_toNat_ne (by simp; omega)
  have e : (c == 0xd) = false := Path.beq_false_of_toNat_ne (by simp; omega)
  simp [Path.isWs, a, b, d, e]


/-- does the operator token depend on the operator context (`*` and the operator names)? -/
def opNeedsCtx : BinOp → Bool
  | .or | .and | .mul | .div | .mod => true
  | _ => false

theorem operName_true (st : St) (nm nxt : Bytes) (hs : Stop nxt)
    (hr : st.rest = nm ++ nxt) (hid : Path.IsIdent nm) : operName st nm = true := by
  have h1 : startsWith st.rest nm = true := by simp [startsWith, hr]
  have h2 : Path.ncname st.rest = some nm.length := by rw [hr]; exact ncname_stop hid _ hs
  simp [operName, h1, h2]

theorem operName_false (st : St) (nm : Bytes) (h : startsWith st.rest nm = false) : operName st nm = false := by
  simp [operName, h]

theorem seg_op (op : BinOp) : Seg (if opNeedsCtx op then some true else none) [opTok op] (some false) := by
  cases op
  case or =>
    exact seg_push .operLog [0x6f, 0x72] ⟨_, _, rfl, by decide, by decide⟩ ⟨by decide, by decide⟩ (some true)
      (fun st nxt hf hr hp => by
        have : operCtx st.acc = true := hp true rfl
        have h_or : operName st [0x6f, 0x72] = true := operName_true st _ nxt (name_follow (by decide) hf).1 hr (by decide)
        simp [lexStep, hr, lexChar, lexChar2, lexChar3, lexChar4, Path.isDigit, this, lexOper, startsWith, h_or])
  case and =>
    exact seg_push .operLog [0x61, 0x6e, 0x64] ⟨_, _, rfl, by decide, by decide⟩ ⟨by decide, by decide⟩ (some true)
      (fun st nxt hf hr hp => by
        have : operCtx st.acc = true := hp true rfl
        have h_or : operName st [0x6f, 0x72] = false := operName_false st _ (by simp [startsWith, hr, List.isPrefixOf])
        have h_and : operName st [0x61, 0x6e, 0x64] = true := operName_true st _ nxt (name_follow (by decide) hf).1 hr (by decide)
        simp [lexStep, hr, lexChar, lexChar2, lexChar3, lexChar4, Path.isDigit, this, lexOper, startsWith, h_or, h_and])
  case mul =>
    exact seg_push .operMath [0x2a] ⟨_, _, rfl, by decide, by decide⟩ ⟨by decide, by decide⟩ (some true)
      (fun st nxt hf hr hp => by
        have : operCtx st.acc = true := hp true rfl
        simp [lexStep, hr, lexChar, lexChar2, lexChar3, lexChar4, Path.isDigit, this, lexOper, startsWith])
  case div =>
    exact seg_push .operMath [0x64, 0x69, 0x76] ⟨_, _, rfl, by decide, by decide⟩ ⟨by decide, by decide⟩ (some true)
      (fun st nxt hf hr hp => by
        have : operCtx st.acc = true := hp true rfl
        have h_or : operName st [0x6f, 0x72] = false := operName_false st _ (by simp [startsWith, hr, List.isPrefixOf])
        have h_and : operName st [0x61, 0x6e, 0x64] = false := operName_false st _ (by simp [startsWith, hr, List.isPrefixOf])
        have h_mod : operName st [0x6d, 0x6f, 0x64] = false := operName_false st _ (by simp [startsWith, hr, List.isPrefixOf])
        have h_div : operName st [0x64, 0x69, 0x76] = true := operName_true st _ nxt (name_follow (by decide) hf).1 hr (by decide)
        simp [lexStep, hr, lexChar, lexChar2, lexChar3, lexChar4, Path.isDigit, this, lexOper, startsWith, h_or, h_and, h_mod, h_div])
  case mod =>
    exact seg_push .operMath [0x6d, 0x6f, 0x64] ⟨_, _, rfl, by decide, by decide⟩ ⟨by decide, by decide⟩ (some true)
      (fun st nxt hf hr hp => by
        have : operCtx st.acc = true := hp true rfl
        have h_or : operName st [0x6f, 0x72] = false := operName_false st _ (by simp [startsWith, hr, List.isPrefixOf])
        have h_and : operName st [0x61, 0x6e, 0x64] = false := operName_false st _ (by simp [startsWith, hr, List.isPrefixOf])
        have h_mod : operName st [0x6d, 0x6f, 0x64] = true := operName_true st _ nxt (name_follow (by decide) hf).1 hr (by decide)
        simp [lexStep, hr, lexChar, lexChar2, lexChar3, lexChar4, Path.isDigit, this, lexOper, startsWith, h_or, h_and, h_mod])
  case eq =>
    exact seg_push .operEqual [0x3d] ⟨_, _, rfl, by decide, by decide⟩ ⟨by decide, by decide⟩ none
      (fun st nxt hf hr _ => by simp [lexStep, hr, lexChar, lexChar2, lexChar3, lexChar4, Path.isDigit])
  case ne =>
    exact seg_push .operNequal [0x21, 0x3d] ⟨_, _, rfl, by decide, by decide⟩ ⟨by decide, by decide⟩ none
      (fun st nxt hf hr _ => by simp [lexStep, hr, lexChar, lexChar2, lexChar3, lexChar4, Path.isDigit])
  case lt =>
    exact seg_push .operComp [0x3c] ⟨_, _, rfl, by decide, by decide⟩ ⟨by decide, by decide⟩ none
      (fun st nxt hf hr _ => by
        cases nxt with
        | nil => simp [lexStep, hr, lexChar, lexChar2, lexChar3, lexChar4, Path.isDigit]
        | cons c r =>
          have : c ≠ 0x3d := by simpa [followOk, isNameTok] using hf
          simp [lexStep, hr, lexChar, lexChar2, lexChar3, lexChar4, Path.isDigit, this])
  case le =>
    exact seg_push .operComp [0x3c, 0x3d] ⟨_, _, rfl, by decide, by decide⟩ ⟨by decide, by decide⟩ none
      (fun st nxt hf hr _ => by simp [lexStep, hr, lexChar, lexChar2, lexChar3, lexChar4, Path.isDigit])
  case gt =>
    exact seg_push .operComp [0x3e] ⟨_, _, rfl, by decide, by decide⟩ ⟨by decide, by decide⟩ none
      (fun st nxt hf hr _ => by
        cases nxt with
        | nil => simp [lexStep, hr, lexChar, lexChar2, lexChar3, lexChar4, Path.isDigit]
        | cons c r =>
          have : c ≠ 0x3d := by simpa [followOk, isNameTok] using hf
          simp [lexStep, hr, lexChar, lexChar2, lexChar3, lexChar4, Path.isDigit, this])
  case ge =>
    exact seg_push .operComp [0x3e, 0x3d] ⟨_, _, rfl, by decide, by decide⟩ ⟨by decide, by decide⟩ none
      (fun st nxt hf hr _ => by simp [lexStep, hr, lexChar, lexChar2, lexChar3, lexChar4, Path.isDigit])
  case add =>
    exact seg_push .operMath [0x2b] ⟨_, _, rfl, by decide, by decide⟩ ⟨by decide, by decide⟩ none
      (fun st nxt hf hr _ => by simp [lexStep, hr, lexChar, lexChar2, lexChar3, lexChar4, Path.isDigit])
  case sub =>
    exact seg_push .operMath [0x2d] ⟨_, _, rfl, by decide, by decide⟩ ⟨by decide, by decide⟩ none
      (fun st nxt hf hr _ => by simp [lexStep, hr, lexChar, lexChar2, lexChar3, lexChar4, Path.isDigit])
  case union =>
    exact seg_push .operUni [0x7c] ⟨_, _, rfl, by decide, by decide⟩ ⟨by decide, by decide⟩ none
      (fun st nxt hf hr _ => by simp [lexStep, hr, lexChar, lexChar2, lexChar3, lexChar4, Path.isDigit])

theorem namePart_ident {nm : Bytes} (hn : Path.IsIdent nm) (rest : Bytes) (hr : Stop rest) :
    namePart (nm ++ rest) = some nm.length := by
  have hnc := ncname_stop hn rest hr
  cases hn with
  | mk c t hc ht =>
    have h42 : c ≠ 0x2a := by
      have := (Path.identStart_ne hc).2.2.2.2.2.2.2.2.2.2.2.2.2.2.2.2.2.2.2
      simpa using this
    unfold namePart
    split
    · next heq => simp only [List.cons_append, List.cons.injEq] at heq; exact absurd heq.1 h42
    · exact hnc

theorem fn_bytes_facts : ∀ g ∈ XpConsts.fnTable, Path.IsIdent g.bytes ∧ XpConsts.nodeTypeNames.contains g.bytes = false := by
  decide

theorem ident_head {nm : Bytes} (hn : Path.IsIdent nm) : ∃ c t, nm = c :: t ∧ Path.IsIdentStart c := by
  cases hn with
  | mk c t hc _ => exact ⟨c, t, rfl, hc⟩

theorem axisGap_nonws {r : Bytes} (h : wsLen r = 0) : axisGap r = 0 := by
  unfold axisGap; split
  · exact h
  · rfl

theorem allws_cons {w : UInt8} {b : Bytes} (hw : Path.isWs w = true) (hb : ∀ c ∈ b, Path.isWs c = true) :
    ∀ c ∈ w :: b, Path.isWs c = true := by
  intro c hc; simp at hc; rcases hc with rfl | hc; exact hw; exact hb c hc


theorem sw_false (l : Bytes) (h : l.head? ≠ some 0x3a) : startsWith l [0x3a, 0x3a] = false := by
  cases l with
  | nil => simp [startsWith, List.isPrefixOf]
  | cons c r =>
    have : c ≠ 0x3a := by simpa using h
    have hcb : (0x3a == c) = false := by simpa using fun e => this e.symm
    simp [startsWith, List.isPrefixOf, hcb]

/-- after a name: no `::` directly and none behind the blanks -/
theorem no_axis_gen (nxt : Bytes) (h1 : nxt.head? ≠ some 0x3a) (h2 : (nxt.drop (wsLen nxt)).head? ≠ some 0x3a) :
    startsWith (nxt.drop (axisGap nxt)) [0x3a, 0x3a] = false := by
  unfold axisGap; split
  · exact sw_false _ h2
  · exact sw_false _ (by simpa using h1)

/-- `nameTail` on an identifier after which the name ends: one NameTest -/
theorem nameTail_ident_gen (st : St) {nm : Bytes} (hn : Path.IsIdent nm) (nxt : Bytes) (hr : st.rest = nm ++ nxt)
    (h1 : nxt.head? ≠ some 0x3a) (b : Bool) :
    nameTail st nm.length b = .ok { acc := ⟨.nametest, st.pos, nm⟩ :: st.acc, ntype := true, pos := st.pos + nm.length, rest := nxt, func := !b } := by
  have hdrop : st.rest.drop nm.length = nxt := by rw [hr]; simp
  have htake : st.rest.take nm.length = nm := by rw [hr]; simp
  obtain ⟨c, t, hct, hc⟩ := ident_head hn
  have h42 : (c == 42) = false := (Path.identStart_ne hc).2.2.2.2.2.2.2.2.2.2.2.2.2.2.2.2.2.2.2
  have hhead : (st.rest.head? != some 0x2a) = true := by
    simp only [hr, hct, List.cons_append, List.head?_cons]
    simpa using h42
  simp only [nameTail, hdrop]
  split
  · simp at h1
  · simp [namePlain, hhead, St.push, htake, hdrop]

/-- the conjuncts of `Spacing` for a token that is neither an axis name nor `::` -/
theorem spacing_head {t : PT} {ts : List PT} {bs : List Bytes} {more : Bytes} (h : Spacing (t :: ts) bs more)
    (hk : (t.1 == TK.axisname || t.1 == TK.dcolon) = false) :
    (∀ c ∈ bs.headD [], Path.isWs c = true) ∧ followOk t (bs.headD [] ++ (detokG ts bs.tail ++ more)) = true ∧
      Spacing ts bs.tail more := by
  simp only [Spacing, hk, Bool.false_or] at h
  exact h

theorem seg_fn (name : String) (n : Nat) (h : fnOk name n = true) :
    Seg (some false) [(.funcname, fnBytes name), tPar1] (some false) := by
  obtain ⟨g, hg, hfb⟩ : ∃ g, g ∈ XpConsts.fnTable ∧ fnBytes name = g.bytes := by
    unfold fnOk at h
    unfold fnBytes
    cases hf : XpConsts.fnTable.find? (fun g => g.name == name) with
    | none => simp [hf] at h
    | some g => exact ⟨g, List.mem_of_find?_eq_some hf, rfl⟩
  obtain ⟨hid, hnt⟩ := fn_bytes_facts g hg
  rw [hfb]
  generalize g.bytes = fb at hid hnt
  have hd : ∀ bs more, detokG [(.funcname, fb), tPar1] bs ++ more =
      fb ++ (bs.headD [] ++ (0x28 :: (bs.tail.headD [] ++ more))) := by
    intro bs more; simp [detokG, tokTextW, tPar1]
  obtain ⟨c, t, hct, hc⟩ := ident_head hid
  refine ⟨?_, ?_⟩
  · intro bs more _
    rw [hd, hct]
    exact NW.cons (identStart_not_ws hc) (identStart_ne_colon hc)
  · intro st bs more hb hr hm hp
    rw [hd] at hr
    obtain ⟨hw1, hf1, hb2⟩ := spacing_head hb (by simp)
    obtain ⟨hw2, _, _⟩ := spacing_head hb2 (by simp [tPar1])
    have hX : detokG [tPar1] bs.tail ++ more = 0x28 :: (bs.tail.headD [] ++ more) := by simp [detokG, tokTextW, tPar1]
    rw [hX] at hf1
    generalize hb1 : bs.headD [] = b1 at hr hw1 hf1
    generalize hb2' : bs.tail.headD [] = b2 at hr hw2 hf1
    obtain ⟨hstop, hn1, hn2⟩ := name_follow (t := (.funcname, fb)) (by simp [isNameTok]) hf1
    have hctx : operCtx st.acc = false := hp false rfl
    have h1 : lexStep st = .ok { acc := ⟨.nametest, st.pos, fb⟩ :: st.acc, ntype := true, func := true, pos := st.pos + fb.length, rest := b1 ++ 0x28 :: (b2 ++ more) } := by
      have hp' := namePart_ident hid (b1 ++ 0x28 :: (b2 ++ more)) hstop
      have hdrop : st.rest.drop fb.length = b1 ++ 0x28 :: (b2 ++ more) := by rw [hr]; simp
      have hl := nameTail_ident_gen st hid _ hr hn1 false
      have e : lexStep st = lexChar st c (t ++ (b1 ++ 0x28 :: (b2 ++ more))) := by simp [lexStep, hr, hct]
      rw [e, lexChar_ident st _ hc, hctx]
      simp only [Bool.false_eq_true, if_false, lexName]
      rw [← hr] at hp'
      have hsw : startsWith (st.rest.drop (fb.length + axisGap (st.rest.drop fb.length))) [0x3a, 0x3a] = false := by
        rw [← List.drop_drop, hdrop]; exact no_axis_gen _ hn1 hn2
      simp only [hp', hsw]
      simpa using hl
    have s1 := iter_blank h1 rfl hw1 (by simp [wsLen, Path.isWs])
    have hnt' : fb ∉ XpConsts.nodeTypeNames := by simpa using hnt
    have h2 : lexStep { acc := ⟨.nametest, st.pos, fb⟩ :: st.acc, ntype := true, func := true, pos := st.pos + fb.length + b1.length, rest := 0x28 :: (b2 ++ more) } = .ok { acc := ⟨.par1, st.pos + fb.length + b1.length, [0x28]⟩ :: ⟨.funcname, st.pos, fb⟩ :: st.acc, ntype := false, func := false, pos := st.pos + fb.length + b1.length + 1, rest := b2 ++ more } := by
      simp [lexStep, lexChar, reclassify, hnt', St.push]
    have s2 := iter_blank h2 rfl hw2 hm.1
    refine ⟨_, Reach.step s1 (Reach.single s2), rfl, ?_, ?_⟩
    · simp [ptOf, tPar1]
    · intro b hb
      cases hb
      exact ctx_of_acc (k := .par1) (tx := [0x28]) (r := (.funcname, fb) :: st.acc.map ptOf) (by simp [ptOf])

/-! ### steps: `axis::test` -/

theorem axis_facts (ax : Axis) : Path.IsIdent (axisBytes ax) ∧ XpConsts.axisNames.contains (axisBytes ax) = true := by
  cases ax <;> decide

/-- state after the AxisName and `::` were stored -/
def afterAxis (st : St) (A X : Bytes) : St :=
  { acc := ⟨.dcolon, st.pos + A.length, [0x3a, 0x3a]⟩ :: ⟨.axisname, st.pos, A⟩ :: st.acc, ntype := st.ntype, func := st.func,
    pos := st.pos + A.length + 2, rest := X }

theorem lexName_axis (st : St) (ax : Axis) (X : Bytes) (hr : st.rest = axisBytes ax ++ 0x3a :: 0x3a :: X) (hX : wsLen X = 0) :
    lexName st = match namePart X with
      | none => .error (st.pos + (axisBytes ax).length + 2)
      | some n2 => nameTail (afterAxis st (axisBytes ax) X) n2 true := by
  obtain ⟨hid, hax⟩ := axis_facts ax
  have hp := namePart_ident hid (0x3a :: 0x3a :: X) (stop_colon _)
  have hdrop : st.rest.drop (axisBytes ax).length = 0x3a :: 0x3a :: X := by rw [hr]; simp
  have htake : st.rest.take (axisBytes ax).length = axisBytes ax := by rw [hr]; simp
  have hgap : axisGap (0x3a :: 0x3a :: X) = 0 := axisGap_nonws (by simp [wsLen, Path.isWs])
  have hst : axisSt st (axisBytes ax).length = afterAxis st (axisBytes ax) X := by
    unfold axisSt afterDcolon
    split <;> simp [St.skip, St.push, hdrop, htake, hgap, hX, afterAxis]
  rw [← hr] at hp
  simp only [lexName, hp, hdrop, hgap, Nat.add_zero, startsWith, htake, hax, hst]
  simp only [List.isPrefixOf, beq_self_eq_true, Bool.and_self, if_true, afterAxis]
  cases namePart X <;> rfl

theorem wsLen_nonws {c : UInt8} (r : Bytes) (hc : Path.isWs c = false) : wsLen (c :: r) = 0 := by simp [wsLen, hc]

theorem starStop_ident {st : St} {nm rest : Bytes} (hn : Path.IsIdent nm) (hr : st.rest = nm ++ rest) : starStop st = false := by
  obtain ⟨c, t, hct, hc⟩ := ident_head hn
  have h42 : (c == 42) = false := (Path.identStart_ne hc).2.2.2.2.2.2.2.2.2.2.2.2.2.2.2.2.2.2.2
  have : c ≠ 42 := by simpa using h42
  simp [starStop, hr, hct, this]

theorem isName_ident {b : Bytes} (h : isName b = true) : Path.IsIdent b := by simpa [isName] using h

theorem lexChar_star' (st : St) (r : Bytes) : lexChar st 0x2a r = if operCtx st.acc then lexOper st else lexName st := by
  simp [lexChar, lexChar2, lexChar3, lexChar4, Path.isDigit]

theorem colon_noaxis (c : UInt8) (r : Bytes) (hc : c ≠ 0x3a) :
    startsWith ((0x3a :: c :: r).drop (axisGap (0x3a :: c :: r))) [0x3a, 0x3a] = false := by
  have hg : axisGap (0x3a :: c :: r) = 0 := axisGap_nonws (by simp [wsLen, Path.isWs])
  have hcb : (0x3a == c) = false := by simpa using fun h => hc h.symm
  simp [hg, startsWith, List.isPrefixOf, hcb]


/-- a name test `tx` after which the name ends: the name-test branch measures it and stores one NameTest; no axis is seen -/
theorem name_lex (t : Test) (ht : testOk t = true) (tx : Bytes) (hrt : rtest t = [(.nametest, tx)]) (b : Bool) :
    ∀ (st2 : St) (nxt : Bytes), Stop nxt → nxt.head? ≠ some 0x3a → (nxt.drop (wsLen nxt)).head? ≠ some 0x3a →
      st2.rest = tx ++ nxt →
      ∃ n2 f1 f2, namePart st2.rest = some n2 ∧
        startsWith (st2.rest.drop (n2 + axisGap (st2.rest.drop n2))) [0x3a, 0x3a] = false ∧
        nameTail st2 n2 b = .ok { acc := ⟨.nametest, st2.pos, tx⟩ :: st2.acc, ntype := f1, func := f2, pos := st2.pos + tx.length, rest := nxt } := by
  intro st2 nxt hs h1 h2 hr
  cases t with
  | name pfx loc =>
    cases pfx with
    | none =>
      have hl : Path.IsIdent loc := isName_ident (by simpa [testOk] using ht)
      obtain rfl : loc = tx := by simpa [rtest] using hrt
      have hdrop : st2.rest.drop loc.length = nxt := by rw [hr]; simp
      refine ⟨loc.length, true, !b, by rw [hr]; exact namePart_ident hl _ hs, ?_, ?_⟩
      · rw [← List.drop_drop, hdrop]; exact no_axis_gen nxt h1 h2
      · rw [nameTail_ident_gen st2 hl nxt hr h1 b]
    | some q =>
      have hq : isName q = true ∧ isName loc = true := by simpa [testOk] using ht
      have hqi := isName_ident hq.1
      have hli := isName_ident hq.2
      obtain rfl : q ++ 0x3a :: loc = tx := by simpa [rtest] using hrt
      have hr' : st2.rest = q ++ 0x3a :: (loc ++ nxt) := by rw [hr]; simp
      have hdrop : st2.rest.drop q.length = 0x3a :: (loc ++ nxt) := by rw [hr']; simp
      obtain ⟨c, t, hct, hc⟩ := ident_head hli
      have h42 : c ≠ 0x2a := by
        have := (Path.identStart_ne hc).2.2.2.2.2.2.2.2.2.2.2.2.2.2.2.2.2.2.2
        simpa using this
      refine ⟨q.length, false, false, by rw [hr']; exact namePart_ident hqi _ (stop_colon _), ?_, ?_⟩
      · rw [← List.drop_drop, hdrop, hct]; exact colon_noaxis c _ (identStart_ne_colon hc)
      · have hnc := ncname_stop hli nxt hs
        have htake : st2.rest.take (q.length + 1 + loc.length) = q ++ 0x3a :: loc := by
          rw [hr']
          have : q ++ 0x3a :: (loc ++ nxt) = (q ++ 0x3a :: loc) ++ nxt := by simp
          rw [this, List.take_left' (by simp; omega)]
        have hdrop2 : st2.rest.drop (q.length + 1 + loc.length) = nxt := by
          rw [hr']
          have : q ++ 0x3a :: (loc ++ nxt) = (q ++ 0x3a :: loc) ++ nxt := by simp
          rw [this, List.drop_left' (by simp; omega)]
        have hss : starStop st2 = false := starStop_ident hqi hr'
        simp only [nameTail, hdrop, hss, Bool.false_eq_true, if_false]
        rw [hct] at hnc ⊢
        simp only [List.cons_append]
        split
        · next heq => simp only [List.cons.injEq] at heq; exact absurd heq.1 h42
        · simp only [List.cons_append] at hnc
          simp only [hnc]
          simp [St.push, ← hct, htake, hdrop2]
          omega
  | any =>
    obtain rfl : [0x2a] = tx := by simpa [rtest] using hrt
    have hdrop : st2.rest.drop 1 = nxt := by rw [hr]; simp
    refine ⟨1, false, false, by simp [hr, namePart], ?_, ?_⟩
    · rw [← List.drop_drop, hdrop]; exact no_axis_gen nxt h1 h2
    · simp only [nameTail, hdrop]
      split
      · simp at h1
      · simp [namePlain, hr, St.push]
  | anyIn q =>
    have hqi := isName_ident (by simpa [testOk] using ht : isName q = true)
    obtain rfl : q ++ [0x3a, 0x2a] = tx := by simpa [rtest] using hrt
    have hr' : st2.rest = q ++ 0x3a :: 0x2a :: nxt := by rw [hr]; simp
    have hdrop : st2.rest.drop q.length = 0x3a :: 0x2a :: nxt := by rw [hr']; simp
    have htake : st2.rest.take (q.length + 2) = q ++ [0x3a, 0x2a] := by
      rw [hr]; rw [List.take_left' (by simp)]
    have hdrop2 : st2.rest.drop (q.length + 2) = nxt := by
      rw [hr]; rw [List.drop_left' (by simp)]
    have hss : starStop st2 = false := starStop_ident hqi hr'
    refine ⟨q.length, false, false, by rw [hr']; exact namePart_ident hqi _ (stop_colon _), ?_, ?_⟩
    · rw [← List.drop_drop, hdrop]; exact colon_noaxis 0x2a _ (by decide)
    · simp [nameTail, hdrop, hss, St.push, htake, hdrop2]
  | node => simp [rtest] at hrt
  | text => simp [rtest] at hrt
  | comment => simp [rtest] at hrt

theorem tx_head (t : Test) (ht : testOk t = true) (tx : Bytes) (hrt : rtest t = [(.nametest, tx)]) :
    ∃ c r, tx = c :: r ∧ (Path.IsIdentStart c ∨ c = 0x2a) := by
  cases t with
  | name pfx loc =>
    cases pfx with
    | none =>
      obtain rfl : loc = tx := by simpa [rtest] using hrt
      obtain ⟨c, r, h1, h2⟩ := ident_head (isName_ident (by simpa [testOk] using ht)); exact ⟨c, r, h1, Or.inl h2⟩
    | some q =>
      obtain rfl : q ++ 0x3a :: loc = tx := by simpa [rtest] using hrt
      have hq : isName q = true ∧ isName loc = true := by simpa [testOk] using ht
      obtain ⟨c, r, h1, h2⟩ := ident_head (isName_ident hq.1); exact ⟨c, r ++ 0x3a :: loc, by simp [h1], Or.inl h2⟩
  | any => exact ⟨0x2a, [], (by simpa [rtest] using hrt : [0x2a] = tx).symm, Or.inr rfl⟩
  | anyIn q =>
    obtain rfl : q ++ [0x3a, 0x2a] = tx := by simpa [rtest] using hrt
    obtain ⟨c, r, h1, h2⟩ := ident_head (isName_ident (by simpa [testOk] using ht : isName q = true))
    exact ⟨c, r ++ [0x3a, 0x2a], by simp [h1], Or.inl h2⟩
  | node => simp [rtest] at hrt
  | text => simp [rtest] at hrt
  | comment => simp [rtest] at hrt

theorem head_not_ws {c : UInt8} (hc : Path.IsIdentStart c ∨ c = 0x2a) : Path.isWs c = false ∧ c ≠ 0x3a := by
  rcases hc with hc | rfl
  · exact ⟨identStart_not_ws hc, identStart_ne_colon hc⟩
  · exact ⟨by decide, by decide⟩

/-- `axis::nametest` -/
theorem seg_step_name (ax : Axis) (t : Test) (ht : testOk t = true) (tx : Bytes) (hrt : rtest t = [(.nametest, tx)]) :
    Seg (some false) [(.axisname, axisBytes ax), tDcolon, (.nametest, tx)] (some true) := by
  obtain ⟨hid, _⟩ := axis_facts ax
  obtain ⟨c0, t0, hct0, hc0⟩ := ident_head hid
  obtain ⟨c1, r1, hct1, hc1⟩ := tx_head t ht tx hrt
  have hd : ∀ bs more, detokG [(.axisname, axisBytes ax), tDcolon, (.nametest, tx)] bs ++ more =
      axisBytes ax ++ 0x3a :: 0x3a :: (tx ++ (bs.tail.tail.headD [] ++ more)) := by
    intro bs more; simp [detokG, tokTextW, tDcolon]
  refine ⟨?_, ?_⟩
  · intro bs more _
    rw [hd, hct0]
    exact NW.cons (identStart_not_ws hc0) (identStart_ne_colon hc0)
  · intro st bs more hb hr hm hp
    rw [hd] at hr
    have hb3 : Spacing [(.nametest, tx)] bs.tail.tail more := by
      simp only [Spacing] at hb; exact hb.2.2.2.2
    obtain ⟨hw, hf, _⟩ := spacing_head hb3 (by simp)
    simp only [detokG, List.nil_append] at hf
    generalize bs.tail.tail.headD [] = b3 at hr hw hf
    obtain ⟨hstop, hn1, hn2⟩ := name_follow (t := (.nametest, tx)) (by simp [isNameTok]) hf
    have hctx : operCtx st.acc = false := hp false rfl
    obtain ⟨n2, f1, f2, hnp, _, hnt⟩ := name_lex t ht tx hrt true (afterAxis st (axisBytes ax) (tx ++ (b3 ++ more))) (b3 ++ more) hstop hn1 hn2 rfl
    have h1 : lexStep st = .ok { acc := ⟨.nametest, st.pos + (axisBytes ax).length + 2, tx⟩ :: ⟨.dcolon, st.pos + (axisBytes ax).length, [0x3a, 0x3a]⟩ :: ⟨.axisname, st.pos, axisBytes ax⟩ :: st.acc, ntype := f1, func := f2, pos := st.pos + (axisBytes ax).length + 2 + tx.length, rest := b3 ++ more } := by
      have e : lexStep st = lexChar st c0 (t0 ++ 0x3a :: 0x3a :: (tx ++ (b3 ++ more))) := by simp [lexStep, hr, hct0]
      rw [e, lexChar_ident st _ hc0, hctx]
      simp only [Bool.false_eq_true, if_false]
      rw [lexName_axis st ax _ hr (by rw [hct1]; exact wsLen_nonws _ (head_not_ws hc1).1)]
      have hnp' : namePart (tx ++ (b3 ++ more)) = some n2 := hnp
      simp only [hnp']
      rw [hnt]
      rfl
    have s1 := iter_blank h1 rfl hw hm.1
    refine ⟨_, Reach.single s1, rfl, ?_, ?_⟩
    · simp [ptOf, tDcolon]
    · intro b hb
      cases hb
      exact ctx_of_acc (k := .nametest) (tx := tx) (r := tDcolon :: (.axisname, axisBytes ax) :: st.acc.map ptOf)
        (by simp [ptOf, tDcolon])

/-- a name test without an axis (abbreviated `child::`, or after `@`) -/
theorem seg_name_bare (t : Test) (ht : testOk t = true) (tx : Bytes) (hrt : rtest t = [(.nametest, tx)]) :
    Seg (some false) [(.nametest, tx)] (some true) := by
  obtain ⟨c, r, hct, hc⟩ := tx_head t ht tx hrt
  have hcws := head_not_ws hc
  have hd : ∀ bs more, detokG [(.nametest, tx)] bs ++ more = tx ++ (bs.headD [] ++ more) := by
    intro bs more; simp [detokG, tokTextW]
  refine ⟨?_, ?_⟩
  · intro bs more _
    rw [hd, hct]
    exact NW.cons hcws.1 hcws.2
  · intro st bs more hb hr hm hp
    rw [hd] at hr
    obtain ⟨hw, hf, _⟩ := spacing_head hb (by simp)
    simp only [detokG, List.nil_append] at hf
    generalize bs.headD [] = b1 at hr hw hf
    obtain ⟨hstop, hn1, hn2⟩ := name_follow (t := (.nametest, tx)) (by simp [isNameTok]) hf
    have hctx : operCtx st.acc = false := hp false rfl
    obtain ⟨n2, f1, f2, hnp, hsw, hnt⟩ := name_lex t ht tx hrt false st (b1 ++ more) hstop hn1 hn2 hr
    have h1 : lexStep st = .ok { acc := ⟨.nametest, st.pos, tx⟩ :: st.acc, ntype := f1, func := f2, pos := st.pos + tx.length, rest := b1 ++ more } := by
      have e : lexStep st = lexChar st c (r ++ (b1 ++ more)) := by simp [lexStep, hr, hct]
      have e2 : lexChar st c (r ++ (b1 ++ more)) = lexName st := by
        rcases hc with hc | rfl
        · rw [lexChar_ident st _ hc, hctx]; rfl
        · rw [lexChar_star', hctx]; rfl
      rw [e, e2]
      simp only [lexName, hnp, hsw, Bool.false_eq_true, if_false]
      rw [hnt]
    have s1 := iter_blank h1 rfl hw hm.1
    refine ⟨_, Reach.single s1, rfl, ?_, ?_⟩
    · simp [ptOf]
    · intro b hb
      cases hb
      exact ctx_of_acc (k := .nametest) (tx := tx) (r := st.acc.map ptOf) (by simp [ptOf])

/-- `nt ( )` with or without `axis::` in front: the three iterations after the state `s0` in which the name starts -/
theorem nodetype_tail (s0 : St) (nt : Bytes) (hid : Path.IsIdent nt) (hnt : nt ∈ XpConsts.nodeTypeNames) (b1 b2 b3 more : Bytes)
    (f2 : Bool) (hw1 : ∀ c ∈ b1, Path.isWs c = true) (hw2 : ∀ c ∈ b2, Path.isWs c = true) (hw3 : ∀ c ∈ b3, Path.isWs c = true)
    (hm : wsLen more = 0) (acc0 : List Tok) (p0 : Nat) :
    Reach { acc := ⟨.nametest, p0, nt⟩ :: acc0, ntype := true, func := f2, pos := s0.pos, rest := 0x28 :: (b2 ++ 0x29 :: (b3 ++ more)) }
      { acc := ⟨.par2, s0.pos + 1 + b2.length, [0x29]⟩ :: ⟨.par1, s0.pos, [0x28]⟩ :: ⟨.nodetype, p0, nt⟩ :: acc0, ntype := false, func := false, pos := s0.pos + 1 + b2.length + 1 + b3.length, rest := more } := by
  have h2 : lexStep { acc := ⟨.nametest, p0, nt⟩ :: acc0, ntype := true, func := f2, pos := s0.pos, rest := 0x28 :: (b2 ++ 0x29 :: (b3 ++ more)) } = .ok { acc := ⟨.par1, s0.pos, [0x28]⟩ :: ⟨.nodetype, p0, nt⟩ :: acc0, ntype := false, func := false, pos := s0.pos + 1, rest := b2 ++ 0x29 :: (b3 ++ more) } := by
    simp [lexStep, lexChar, reclassify, hnt, St.push]
  have s2 := iter_blank h2 rfl hw2 (by simp [wsLen, Path.isWs])
  have h3 : lexStep { acc := ⟨.par1, s0.pos, [0x28]⟩ :: ⟨.nodetype, p0, nt⟩ :: acc0, ntype := false, func := false, pos := s0.pos + 1 + b2.length, rest := 0x29 :: (b3 ++ more) } = .ok { acc := ⟨.par2, s0.pos + 1 + b2.length, [0x29]⟩ :: ⟨.par1, s0.pos, [0x28]⟩ :: ⟨.nodetype, p0, nt⟩ :: acc0, ntype := false, func := false, pos := s0.pos + 1 + b2.length + 1, rest := b3 ++ more } := by
    simp [lexStep, lexChar, St.push]
  have s3 := iter_blank h3 rfl hw3 hm
  exact Reach.step s2 (Reach.single s3)

theorem seg_nodetype_bare (nt : Bytes) (hid : Path.IsIdent nt) (hnt : nt ∈ XpConsts.nodeTypeNames) :
    Seg (some false) [(.nodetype, nt), tPar1, tPar2] (some true) := by
  have hd : ∀ bs more, detokG [(.nodetype, nt), tPar1, tPar2] bs ++ more =
      nt ++ (bs.headD [] ++ (0x28 :: (bs.tail.headD [] ++ (0x29 :: (bs.tail.tail.headD [] ++ more))))) := by
    intro bs more; simp [detokG, tokTextW, tPar1, tPar2]
  obtain ⟨c, t, hct, hc⟩ := ident_head hid
  refine ⟨?_, ?_⟩
  · intro bs more _
    rw [hd, hct]
    exact NW.cons (identStart_not_ws hc) (identStart_ne_colon hc)
  · intro st bs more hb hr hm hp
    rw [hd] at hr
    obtain ⟨hw1, hf1, hb2⟩ := spacing_head hb (by simp)
    obtain ⟨hw2, _, hb3⟩ := spacing_head hb2 (by simp [tPar1])
    obtain ⟨hw3, _, _⟩ := spacing_head hb3 (by simp [tPar2])
    have hX : detokG [tPar1, tPar2] bs.tail ++ more = 0x28 :: (bs.tail.headD [] ++ (0x29 :: (bs.tail.tail.headD [] ++ more))) := by
      simp [detokG, tokTextW, tPar1, tPar2]
    rw [hX] at hf1
    generalize bs.headD [] = b1 at hr hw1 hf1
    generalize bs.tail.headD [] = b2 at hr hw2 hf1
    generalize bs.tail.tail.headD [] = b3 at hr hw3 hf1
    obtain ⟨hstop, hn1, hn2⟩ := name_follow (t := (.nodetype, nt)) (by simp [isNameTok]) hf1
    have hctx : operCtx st.acc = false := hp false rfl
    have h1 : lexStep st = .ok { acc := ⟨.nametest, st.pos, nt⟩ :: st.acc, ntype := true, func := true, pos := st.pos + nt.length, rest := b1 ++ 0x28 :: (b2 ++ 0x29 :: (b3 ++ more)) } := by
      have hp' := namePart_ident hid (b1 ++ 0x28 :: (b2 ++ 0x29 :: (b3 ++ more))) hstop
      have hdrop : st.rest.drop nt.length = b1 ++ 0x28 :: (b2 ++ 0x29 :: (b3 ++ more)) := by rw [hr]; simp
      have hl := nameTail_ident_gen st hid _ hr hn1 false
      have e : lexStep st = lexChar st c (t ++ (b1 ++ 0x28 :: (b2 ++ 0x29 :: (b3 ++ more)))) := by simp [lexStep, hr, hct]
      rw [e, lexChar_ident st _ hc, hctx]
      simp only [Bool.false_eq_true, if_false, lexName]
      rw [← hr] at hp'
      have hsw : startsWith (st.rest.drop (nt.length + axisGap (st.rest.drop nt.length))) [0x3a, 0x3a] = false := by
        rw [← List.drop_drop, hdrop]; exact no_axis_gen _ hn1 hn2
      simp only [hp', hsw]
      simpa using hl
    have s1 := iter_blank h1 rfl hw1 (by simp [wsLen, Path.isWs])
    have tl := nodetype_tail { st with pos := st.pos + nt.length + b1.length } nt hid hnt b1 b2 b3 more true hw1 hw2 hw3 hm.1 st.acc st.pos
    refine ⟨_, Reach.step s1 tl, rfl, ?_, ?_⟩
    · simp [ptOf, tPar1, tPar2]
    · intro b hb
      cases hb
      exact ctx_of_acc (k := .par2) (tx := [0x29]) (r := tPar1 :: (.nodetype, nt) :: st.acc.map ptOf) (by simp [ptOf, tPar1])

theorem seg_step_nodetype (ax : Axis) (nt : Bytes) (hid : Path.IsIdent nt) (hnt : nt ∈ XpConsts.nodeTypeNames) :
    Seg (some false) [(.axisname, axisBytes ax), tDcolon, (.nodetype, nt), tPar1, tPar2] (some true) := by
  obtain ⟨haid, _⟩ := axis_facts ax
  obtain ⟨c0, t0, hct0, hc0⟩ := ident_head haid
  have hd : ∀ bs more, detokG [(.axisname, axisBytes ax), tDcolon, (.nodetype, nt), tPar1, tPar2] bs ++ more =
      axisBytes ax ++ 0x3a :: 0x3a :: (nt ++ (bs.tail.tail.headD [] ++ (0x28 :: (bs.tail.tail.tail.headD [] ++ (0x29 :: (bs.tail.tail.tail.tail.headD [] ++ more)))))) := by
    intro bs more; simp [detokG, tokTextW, tDcolon, tPar1, tPar2]
  refine ⟨?_, ?_⟩
  · intro bs more _
    rw [hd, hct0]
    exact NW.cons (identStart_not_ws hc0) (identStart_ne_colon hc0)
  · intro st bs more hb hr hm hp
    rw [hd] at hr
    have hb3 : Spacing [(.nodetype, nt), tPar1, tPar2] bs.tail.tail more := by
      simp only [Spacing] at hb; exact hb.2.2.2.2
    obtain ⟨hw1, hf1, hb4⟩ := spacing_head hb3 (by simp)
    obtain ⟨hw2, _, hb5⟩ := spacing_head hb4 (by simp [tPar1])
    obtain ⟨hw3, _, _⟩ := spacing_head hb5 (by simp [tPar2])
    have hX : detokG [tPar1, tPar2] bs.tail.tail.tail ++ more = 0x28 :: (bs.tail.tail.tail.headD [] ++ (0x29 :: (bs.tail.tail.tail.tail.headD [] ++ more))) := by
      simp [detokG, tokTextW, tPar1, tPar2]
    rw [hX] at hf1
    generalize bs.tail.tail.headD [] = b1 at hr hw1 hf1
    generalize bs.tail.tail.tail.headD [] = b2 at hr hw2 hf1
    generalize bs.tail.tail.tail.tail.headD [] = b3 at hr hw3 hf1
    obtain ⟨hstop, hn1, hn2⟩ := name_follow (t := (.nodetype, nt)) (by simp [isNameTok]) hf1
    have hctx : operCtx st.acc = false := hp false rfl
    have h1 : lexStep st = .ok { acc := ⟨.nametest, st.pos + (axisBytes ax).length + 2, nt⟩ :: ⟨.dcolon, st.pos + (axisBytes ax).length, [0x3a, 0x3a]⟩ :: ⟨.axisname, st.pos, axisBytes ax⟩ :: st.acc, ntype := true, func := false, pos := st.pos + (axisBytes ax).length + 2 + nt.length, rest := b1 ++ 0x28 :: (b2 ++ 0x29 :: (b3 ++ more)) } := by
      have e : lexStep st = lexChar st c0 (t0 ++ 0x3a :: 0x3a :: (nt ++ (b1 ++ 0x28 :: (b2 ++ 0x29 :: (b3 ++ more))))) := by
        simp [lexStep, hr, hct0]
      rw [e, lexChar_ident st _ hc0, hctx]
      simp only [Bool.false_eq_true, if_false]
      rw [lexName_axis st ax _ hr (by obtain ⟨c, t, hct, hc⟩ := ident_head hid; rw [hct]; exact wsLen_nonws _ (identStart_not_ws hc))]
      have hnp := namePart_ident hid (b1 ++ 0x28 :: (b2 ++ 0x29 :: (b3 ++ more))) hstop
      simp only [hnp]
      rw [nameTail_ident_gen (afterAxis st (axisBytes ax) _) hid _ rfl hn1 true]
      rfl
    have s1 := iter_blank h1 rfl hw1 (by simp [wsLen, Path.isWs])
    have tl := nodetype_tail { st with pos := st.pos + (axisBytes ax).length + 2 + nt.length + b1.length } nt hid hnt b1 b2 b3 more false hw1 hw2 hw3 hm.1
      (⟨.dcolon, st.pos + (axisBytes ax).length, [0x3a, 0x3a]⟩ :: ⟨.axisname, st.pos, axisBytes ax⟩ :: st.acc) (st.pos + (axisBytes ax).length + 2)
    refine ⟨_, Reach.step s1 tl, rfl, ?_, ?_⟩
    · simp [ptOf, tDcolon, tPar1, tPar2]
    · intro b hb
      cases hb
      exact ctx_of_acc (k := .par2) (tx := [0x29])
        (r := tPar1 :: (.nodetype, nt) :: tDcolon :: (.axisname, axisBytes ax) :: st.acc.map ptOf) (by simp [ptOf, tDcolon, tPar1])

theorem seg_step_test (ax : Axis) (t : Test) (ht : testOk t = true) :
    Seg (some false) ((.axisname, axisBytes ax) :: tDcolon :: rtest t) (some true) := by
  cases t with
  | name pfx loc => cases pfx <;> exact seg_step_name ax _ ht _ rfl
  | any => exact seg_step_name ax _ ht _ rfl
  | anyIn q => exact seg_step_name ax _ ht _ rfl
  | node => exact seg_step_nodetype ax _ (by decide) (by decide)
  | text => exact seg_step_nodetype ax _ (by decide) (by decide)
  | comment => exact seg_step_nodetype ax _ (by decide) (by decide)

/-- a node test without an axis -/
theorem seg_test_bare (t : Test) (ht : testOk t = true) : Seg (some false) (rtest t) (some true) := by
  cases t with
  | name pfx loc => cases pfx <;> exact seg_name_bare _ ht _ rfl
  | any => exact seg_name_bare _ ht _ rfl
  | anyIn q => exact seg_name_bare _ ht _ rfl
  | node => exact seg_nodetype_bare _ (by decide) (by decide)
  | text => exact seg_nodetype_bare _ (by decide) (by decide)
  | comment => exact seg_nodetype_bare _ (by decide) (by decide)

theorem seg_dot : Seg none [tDot] (some true) :=
  seg_push .dot [0x2e] ⟨_, _, rfl, by decide, by decide⟩ ⟨by decide, by decide⟩ none
    (fun st nxt hf hr _ => by
      cases nxt with
      | nil => simp [lexStep, hr, lexChar, lexChar2, Path.isDigit]
      | cons c r =>
        obtain ⟨h1, h2⟩ := numEnd_of_follow (t := (.dot, [0x2e])) (Or.inr rfl) hf c r rfl
        simp [lexStep, hr, lexChar, lexChar2, h1, h2])
theorem seg_ddot : Seg none [tDdot] (some true) :=
  seg_push .ddot [0x2e, 0x2e] ⟨_, _, rfl, by decide, by decide⟩ ⟨by decide, by decide⟩ none
    (fun st nxt hf hr _ => by simp [lexStep, hr, lexChar, lexChar2])
theorem seg_at : Seg none [tAt] (some false) :=
  seg_push .at [0x40] ⟨_, _, rfl, by decide, by decide⟩ ⟨by decide, by decide⟩ none
    (fun st nxt hf hr _ => by simp [lexStep, hr, lexChar, lexChar2])

/-- the head of a step (everything but the predicates) in its abbreviated form -/
def ahead (ax : Axis) (t : Test) (noPreds : Bool) : List PT :=
  if ax == .self && isNodeT t && noPreds then [tDot]
  else if ax == .parent && isNodeT t && noPreds then [tDdot]
  else if ax == .child then rtest t
  else if ax == .attribute then tAt :: rtest t
  else (.axisname, axisBytes ax) :: tDcolon :: rtest t

theorem astep_eq (ax : Axis) (t : Test) (ps : List Expr) : astep (.mk ax t ps) = ahead ax t ps.isEmpty ++ apreds ps := by
  unfold astep ahead
  split
  · next h => simp only [Bool.and_eq_true, List.isEmpty_iff] at h; simp [h.2, apreds]
  · split
    · next h => simp only [Bool.and_eq_true, List.isEmpty_iff] at h; simp [h.2, apreds]
    · split
      · rfl
      · split <;> simp

theorem seg_ahead (ax : Axis) (t : Test) (b : Bool) (ht : testOk t = true) : Seg (some false) (ahead ax t b) (some true) := by
  unfold ahead
  split
  · exact seg_dot.pre
  · split
    · exact seg_ddot.pre
    · split
      · exact seg_test_bare t ht
      · split
        · have e : tAt :: rtest t = [tAt] ++ rtest t := rfl
          rw [e]; exact (seg_at.pre).append (seg_test_bare t ht) (fun b hb => hb)
        · exact seg_step_test ax t ht

/-! ### all expressions -/

def postOf (e : Expr) : Option Bool := if levelOf e = 0 then none else some true

theorem Seg.app3 {p1 q1 p2 q2 p3 q3 : Option Bool} {t1 t2 t3 : List PT} (h1 : Seg p1 t1 q1) (h2 : Seg p2 t2 q2) (h3 : Seg p3 t3 q3)
    (hc1 : ∀ b, p2 = some b → q1 = some b) (hc2 : ∀ b, p3 = some b → q2 = some b) : Seg p1 (t1 ++ t2 ++ t3) q3 :=
  (h1.append h2 hc1).append h3 hc2

theorem no_some {α : Type} {x : α} : ∀ b, (none : Option α) = some b → some x = some b := by intro b h; cases h

/-- an operand at level `lvl` -/
theorem seg_wrap (e : Expr) (lvl : Nat) (h1 : 1 ≤ lvl) (he : Seg (some false) (atoks e) (postOf e)) :
    Seg (some false) (wrap lvl e (atoks e)) (some true) := by
  unfold wrap
  split
  · next hl =>
    have : postOf e = some true := by simp [postOf]; omega
    rw [this] at he; exact he
  · have e1 : par (atoks e) = [tPar1] ++ atoks e ++ [tPar2] := by simp [par]
    rw [e1]
    exact Seg.app3 seg_par1 he.post seg_par2 (fun b hb => hb) (fun b hb => by cases hb)

mutual
theorem lxExpr : ∀ (e : Expr), wf e = true → Seg (some false) (atoks e) (postOf e)
  | .lit s, hw => by
    have : postOf (.lit s) = some true := by simp [postOf, levelOf]
    rw [this]; exact (seg_lit s hw).pre
  | .num m sc, _ => by
    have : postOf (.num m sc) = some true := by simp [postOf, levelOf]
    rw [this]; exact (seg_num m sc).pre
  | .fn name as, hw => by
    have hw' : fnOk name as.length = true ∧ wfs as = true := by simpa [wf] using hw
    have : postOf (.fn name as) = some true := by simp [postOf, levelOf]
    rw [this]
    have e1 : atoks (.fn name as) = [(.funcname, fnBytes name), tPar1] ++ aargs false as ++ [tPar2] := by simp [atoks]
    rw [e1]
    exact Seg.app3 (seg_fn name as.length hw'.1) (lxArgs as false hw'.2) seg_par2 (by intro b hb; simpa using hb)
      (fun b hb => by cases hb)
  | .bin op a b, hw => by
    have hw' : wf a = true ∧ wf b = true := by simpa [wf] using hw
    have hp := LemmasParseA.opLevel_pos op
    have h0 : opLevel op ≠ 0 := by omega
    have : postOf (.bin op a b) = some true := by simp [postOf, levelOf, h0]
    rw [this]
    have e1 : atoks (.bin op a b) = wrap (opLevel op) a (atoks a) ++ [opTok op] ++ wrap (opLevel op + 1) b (atoks b) := by
      simp [atoks]
    rw [e1]
    refine Seg.app3 (seg_wrap a _ hp.1 (lxExpr a hw'.1)) (seg_op op) (seg_wrap b _ (by omega) (lxExpr b hw'.2)) ?_
      (fun b hb => hb)
    intro b hb
    cases op <;> simp [opNeedsCtx] at hb <;> rw [← hb]
  | .neg a, hw => by
    have : postOf (.neg a) = some true := by simp [postOf, levelOf]
    rw [this]
    have e1 : atoks (.neg a) = [tMinus] ++ wrap 7 a (atoks a) := by simp [atoks]
    rw [e1]
    exact (seg_minus.pre).append (seg_wrap a 7 (by omega) (lxExpr a (by simpa [wf] using hw))) (fun b hb => hb)
  | .path .root [], _ => by
    have : postOf (.path .root []) = none := by simp [postOf, levelOf]
    rw [this]
    have e1 : atoks (.path .root []) = [tSlash] := by simp [atoks, asteps]
    rw [e1]; exact seg_slash.pre.post
  | .path .root (s :: r), hw => by
    have : postOf (.path .root (s :: r)) = some true := by simp [postOf, levelOf]
    rw [this]
    have e1 : atoks (.path .root (s :: r)) = [tSlash] ++ asteps false (s :: r) := by simp [atoks]
    rw [e1]
    exact (seg_slash.pre).append (lxSteps (s :: r) false (by simpa [wf] using hw) (by simp)) (by intro b hb; simpa using hb)
  | .path .ctx [], hw => by simp [wf] at hw
  | .path .ctx (s :: r), hw => by
    have : postOf (.path .ctx (s :: r)) = some true := by simp [postOf, levelOf]
    rw [this]
    have e1 : atoks (.path .ctx (s :: r)) = asteps false (s :: r) := by simp [atoks]
    rw [e1]
    simpa using lxSteps (s :: r) false (by simpa [wf] using hw) (by simp)
  | .path (.expr e) [], hw => by simp [wf] at hw
  | .path (.expr e) (s :: r), hw => by
    have hw' : wf e = true ∧ wfSteps (s :: r) = true := by simpa [wf] using hw
    have : postOf (.path (.expr e) (s :: r)) = some true := by simp [postOf, levelOf]
    rw [this]
    have e1 : atoks (.path (.expr e) (s :: r)) = ([tPar1] ++ atoks e ++ [tPar2]) ++ asteps true (s :: r) := by
      simp [atoks, par]
    rw [e1]
    have hs : Seg none (asteps true (s :: r)) (some true) := by simpa using lxSteps (s :: r) true hw'.2 (by simp)
    exact Seg.append (p2 := none) (Seg.app3 seg_par1 (lxExpr e hw'.1).post seg_par2 (fun b hb => hb) (fun b hb => by cases hb)) hs
      (fun b hb => by cases hb)
  | .filter e ps, hw => by
    have hw' : (ps.isEmpty = false ∧ wf e = true) ∧ wfs ps = true := by simpa [wf] using hw
    have : postOf (.filter e ps) = some true := by simp [postOf, levelOf]
    rw [this]
    have e1 : atoks (.filter e ps) = ([tPar1] ++ atoks e ++ [tPar2]) ++ apreds ps := by simp [atoks, par]
    rw [e1]
    exact Seg.append (p2 := none) (Seg.app3 seg_par1 (lxExpr e hw'.1.2).post seg_par2 (fun b hb => hb) (fun b hb => by cases hb))
      (lxPreds ps hw'.2 (by intro h; simp [h] at hw')) (fun b hb => by cases hb)

theorem lxArgs : ∀ (as : List Expr) (sep : Bool), wfs as = true → Seg (if sep then none else some false) (aargs sep as) none
  | [], sep, _ => by simpa [aargs] using (Seg.nil).pre
  | a :: r, true, hw => by
    have hw' : wf a = true ∧ wfs r = true := by simpa [wfs] using hw
    have e1 : aargs true (a :: r) = [tComma] ++ atoks a ++ aargs true r := by simp [aargs]
    rw [e1]
    exact Seg.app3 seg_comma (lxExpr a hw'.1).post (lxArgs r true hw'.2) (fun b hb => hb) (fun b hb => by cases hb)
  | a :: r, false, hw => by
    have hw' : wf a = true ∧ wfs r = true := by simpa [wfs] using hw
    have e1 : aargs false (a :: r) = atoks a ++ aargs true r := by simp [aargs]
    rw [e1]
    exact (lxExpr a hw'.1).post.append (lxArgs r true hw'.2) (fun b hb => by cases hb)

theorem lxPreds : ∀ (ps : List Expr), wfs ps = true → ps ≠ [] → Seg none (apreds ps) (some true)
  | [], _, h => absurd rfl h
  | p :: [], hw, _ => by
    have hw' : wf p = true := by simpa [wfs] using hw
    have e1 : apreds [p] = [tBrack1] ++ atoks p ++ [tBrack2] := by simp [apreds]
    rw [e1]
    exact Seg.app3 seg_brack1 (lxExpr p hw').post seg_brack2 (fun b hb => hb) (fun b hb => by cases hb)
  | p :: p2 :: r, hw, _ => by
    have hw' : wf p = true ∧ wfs (p2 :: r) = true := by simpa [wfs] using hw
    have e1 : apreds (p :: p2 :: r) = ([tBrack1] ++ atoks p ++ [tBrack2]) ++ apreds (p2 :: r) := by simp [apreds]
    rw [e1]
    exact (Seg.app3 seg_brack1 (lxExpr p hw'.1).post seg_brack2 (fun b hb => hb) (fun b hb => by cases hb)).append
      (lxPreds (p2 :: r) hw'.2 (by simp)) (fun b hb => by cases hb)

theorem lxSteps : ∀ (l : List Step) (sep : Bool), wfSteps l = true → l ≠ [] →
    Seg (if sep then none else some false) (asteps sep l) (some true)
  | [], _, _, h => absurd rfl h
  | s :: [], sep, hw, _ => by
    have hw' : wfStep s = true := by simpa [wfSteps] using hw
    cases sep with
    | true =>
      have e1 : asteps true [s] = [tSlash] ++ astep s := by simp [asteps]
      rw [e1]; exact seg_slash.append (lxStep s hw') (by intro b hb; simpa using hb)
    | false =>
      have e1 : asteps false [s] = astep s := by simp [asteps]
      rw [e1]; exact lxStep s hw'
  | s :: s2 :: r, sep, hw, _ => by
    have hw' : wfStep s = true ∧ wfSteps (s2 :: r) = true := by simpa [wfSteps] using hw
    have ht := lxSteps (s2 :: r) true hw'.2 (by simp)
    cases sep with
    | true =>
      have e1 : asteps true (s :: s2 :: r) = [tSlash] ++ astep s ++ asteps true (s2 :: r) := by simp [asteps]
      rw [e1]; exact Seg.app3 seg_slash (lxStep s hw'.1) ht (by intro b hb; simpa using hb) (fun b hb => by cases hb)
    | false =>
      have e1 : asteps false (s :: s2 :: r) = astep s ++ asteps true (s2 :: r) := by simp [asteps]
      rw [e1]; exact (lxStep s hw'.1).append ht (fun b hb => by cases hb)

theorem lxStep : ∀ (s : Step), wfStep s = true → Seg (some false) (astep s) (some true)
  | .mk ax t [], hw => by
    have hw' : testOk t = true := by simpa [wfStep, wfs] using hw
    rw [astep_eq]; simpa [apreds] using seg_ahead ax t true hw'
  | .mk ax t (p :: r), hw => by
    have hw' : testOk t = true ∧ wfs (p :: r) = true := by simpa [wfStep] using hw
    rw [astep_eq]
    exact (seg_ahead ax t _ hw'.1).append (lxPreds (p :: r) hw'.2 (by simp)) (fun b hb => by cases hb)
end

theorem reach_from_nil {a c : St} (h : Reach a c) (ha : a.rest = []) : c = a := by
  cases h with
  | refl => rfl
  | step s _ =>
    obtain ⟨s1, hs, _⟩ := s
    obtain ⟨p, hp⟩ := lexStep_nil ha
    rw [hp] at hs; cases hs


/-- the tokenizer on the abbreviated text of `e` with any spacing that `Spacing` admits (blanks may be missing wherever
`followOk` allows), after any leading white space, stores exactly the tokens of `atoks e` -/
theorem lex_renderG_lead (e : Expr) (hw : wf e = true) (bs : List Bytes) (hb : Spacing (atoks e) bs []) (lead : Bytes)
    (hl : ∀ c ∈ lead, Path.isWs c = true) :
    (lex (lead ++ renderG bs e)).toOption.map (·.map ptOf) = some (atoks e) := by
  obtain ⟨hnw, hseg⟩ := lxExpr e hw
  let st0 : St := { acc := [], ntype := false, func := false, pos := lead.length, rest := renderG bs e }
  obtain ⟨st', hreach, hrest, hacc, _⟩ := hseg st0 bs [] hb (by simp [st0, renderG]) NW.nil (by intro b hb; cases hb; rfl)
  have htoks : atoks e ≠ [] := by
    obtain ⟨k, hk1, _, _⟩ := LemmasParseA.head_ok e hw []
    obtain ⟨tx, r, hr⟩ := LemmasParseA.hk_some hk1
    intro h; rw [h] at hr; simp at hr
  have hne : renderG bs e ≠ [] := by
    intro h
    have := reach_from_nil hreach (by simp [st0, h])
    rw [this] at hacc
    simp [st0] at hacc
    exact htoks hacc
  have hnws : wsLen (renderG bs e) = 0 := by
    have := hnw bs [] NW.nil
    simpa [renderG] using this.1
  have hinit : St.skipWs { acc := [], ntype := false, func := false, pos := 0, rest := lead ++ renderG bs e } = st0 := by
    simp [St.skipWs, wsLen_lead lead _ hl hnws, st0]
  have hlex : lex (lead ++ renderG bs e) = lexLoop ((lead ++ renderG bs e).length + 1) st0 := by
    unfold lex
    have : (lead ++ renderG bs e).isEmpty = false := by
      cases h : lead ++ renderG bs e with
      | nil => simp at h; exact absurd h.2 hne
      | cons _ _ => rfl
    simp only [this, Bool.false_eq_true, if_false, hinit]
  have hnf := lex_no_fuel (lead ++ renderG bs e)
  rcases lexLoop_of_reach hreach hrest (by simpa [st0] using hne) ((lead ++ renderG bs e).length + 1) with h | h
  · rw [hlex, h]
    simp only [Except.toOption, Option.map_some, List.map_reverse, hacc]
    simp [st0]
  · rw [hlex] at hnf; exact absurd h hnf

end LyModel.XPath.LemmasLexRtT
