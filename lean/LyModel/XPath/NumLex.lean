import LyModel.Base
/-!
# Lexical cores of the XPath number ↔ string conversions, free of any number type

* `recNumber`   — REC §4.4 `number()`: optional white space, optional `-`, a `Number` (REC §3.7 [30]), optional white space.
* `strtoldNumber` — what `cast_string_to_number` computes: glibc `strtold` on the whole string, NaN unless everything was
  consumed (finding F39).
* `fmtRec` / `fmtC` — `string(number)` on exact decimals `mant / 10^scale`: REC §4.2 versus libyang's
  `(long long)x == x ? "%lld" : "%03.1Lf"` (finding F38).
Core Lean only; the theorems about these functions are in `Props/C08.lean`.
-/
namespace LyModel.XPath.NumLex
open LyModel

/-- what a lexer recognised; `invalid` converts to NaN -/
inductive Lexed
  /-- `(-1)^neg * mant * 10^exp10` -/
  | dec (neg : Bool) (mant : Nat) (exp10 : Int)
  /-- `(-1)^neg * mant * 2^exp2` -/
  | hex (neg : Bool) (mant : Nat) (exp2 : Int)
  | inf (neg : Bool)
  | nan
  | invalid
deriving DecidableEq, Repr

def isDigit (b : UInt8) : Bool := 0x30 ≤ b && b ≤ 0x39
def isXmlWs (b : UInt8) : Bool := b == 0x20 || b == 0x09 || b == 0x0a || b == 0x0d
/-- C locale `isspace` -/
def isCSpace (b : UInt8) : Bool := b == 0x20 || (0x09 ≤ b && b ≤ 0x0d)

def dropWhile (p : UInt8 → Bool) : Bytes → Bytes
  | [] => []
  | b :: r => if p b then dropWhile p r else b :: r

/-- leading decimal digits: (value accumulated onto `acc`, number of digits, rest) -/
def takeDigits : Bytes → Nat → Nat → Nat × Nat × Bytes
  | [], acc, n => (acc, n, [])
  | b :: r, acc, n => if isDigit b then takeDigits r (acc * 10 + (b.toNat - 48)) (n + 1) else (acc, n, b :: r)

/-- `Digits ('.' Digits?)? | '.' Digits`: mantissa, number of fraction digits, rest; `none` when there is no digit -/
def decBody (s : Bytes) : Option (Nat × Nat × Bytes) :=
  let (m1, n1, r1) := takeDigits s 0 0
  match r1 with
  | 0x2e :: r2 =>
    let (m2, n2, r3) := takeDigits r2 m1 0
    if n1 + n2 == 0 then none else some (m2, n2, r3)
  | _ => if n1 == 0 then none else some (m1, 0, r1)

/-- REC: optional `-` -/
def signRec (s : Bytes) : Bool × Bytes :=
  match s with
  | 0x2d :: r => (true, r)
  | _ => (false, s)

/-- REC: a `Number`, then optional white space, then the end -/
def bodyRec (neg : Bool) (t : Bytes) : Lexed :=
  match decBody t with
  | none => .invalid
  | some (m, frac, rest) => if (dropWhile isXmlWs rest).isEmpty then .dec neg m (-(frac : Int)) else .invalid

/-- REC §4.4 -/
def recNumber (s : Bytes) : Lexed :=
  let p := signRec (dropWhile isXmlWs s)
  bodyRec p.1 p.2

def lower (b : UInt8) : UInt8 := if 0x41 ≤ b && b ≤ 0x5a then b + 0x20 else b

def startsWithCI : Bytes → Bytes → Bool
  | _, [] => true
  | [], _ :: _ => false
  | a :: s, b :: p => lower a == b && startsWithCI s p

def hexVal (b : UInt8) : Option Nat :=
  if isDigit b then some (b.toNat - 48)
  else if 0x61 ≤ lower b && lower b ≤ 0x66 then some ((lower b).toNat - 87)
  else none

def takeHex : Bytes → Nat → Nat → Nat × Nat × Bytes
  | [], acc, n => (acc, n, [])
  | b :: r, acc, n => match hexVal b with
    | some v => takeHex r (acc * 16 + v) (n + 1)
    | none => (acc, n, b :: r)

/-- optional exponent `<marker> [+-]? digits`; not consumed at all when no digit follows -/
def takeExp (marker : UInt8) (s : Bytes) : Int × Bytes :=
  match s with
  | b :: r =>
    if lower b == marker then
      let (neg, r1) := match r with
        | 0x2d :: t => (true, t)
        | 0x2b :: t => (false, t)
        | _ => (false, r)
      let (e, n, r2) := takeDigits r1 0 0
      if n == 0 then (0, s) else ((if neg then -(e : Int) else (e : Int)), r2)
    else (0, s)
  | [] => (0, s)

def isAlnumU (b : UInt8) : Bool := isDigit b || (0x61 ≤ lower b && lower b ≤ 0x7a) || b == 0x5f

/-- `strtold`: optional `-` or `+` -/
def signC (s : Bytes) : Bool × Bytes :=
  match s with
  | 0x2d :: r => (true, r)
  | 0x2b :: r => (false, r)
  | _ => (false, s)

/-- `strtold` after the sign: `inf`/`infinity`, `nan`/`nan(...)`, hexadecimal, decimal with optional exponent; then libyang's
check that the whole string was consumed -/
def bodyC (neg : Bool) (s2 : Bytes) : Lexed :=
  if startsWithCI s2 [0x69, 0x6e, 0x66, 0x69, 0x6e, 0x69, 0x74, 0x79] then
    if (s2.drop 8).isEmpty then .inf neg else .invalid
  else if startsWithCI s2 [0x69, 0x6e, 0x66] then
    if (s2.drop 3).isEmpty then .inf neg else .invalid
  else if startsWithCI s2 [0x6e, 0x61, 0x6e] then
    match s2.drop 3 with
    | [] => .nan
    | 0x28 :: r => match dropWhile isAlnumU r with
      | [0x29] => .nan
      | _ => .invalid
    | _ => .invalid
  else if startsWithCI s2 [0x30, 0x78] &&
      (match s2.drop 2 with
       | b :: _ => (hexVal b).isSome
       | [] => false) then
    -- hexadecimal: this generator never puts a radix point into a hex string; digits then optional p-exponent
    let r := takeHex (s2.drop 2) 0 0
    let e := takeExp 0x70 r.2.2
    if e.2.isEmpty then .hex neg r.1 e.1 else .invalid
  else
    match decBody s2 with
    | none => .invalid
    | some (m, frac, rest) =>
      let e := takeExp 0x65 rest
      if e.2.isEmpty then .dec neg m (e.1 - (frac : Int)) else .invalid

/-- glibc `strtold(str, &end)` followed by libyang's check `*end == 0 && end != str`; range errors are out of reach of
the strings the check generates and are not modelled -/
def strtoldNumber (s : Bytes) : Lexed :=
  let p := signC (dropWhile isCSpace s)
  bodyC p.1 p.2

/-- the lexical forms both conversions are meant to agree on: optional `-`, then digits and `.` only -/
def isPlainChar (b : UInt8) : Bool := isDigit b || b == 0x2e

def isPlain (s : Bytes) : Bool :=
  match s with
  | 0x2d :: r => r.all isPlainChar
  | _ => s.all isPlainChar

/-! ## number → string on exact decimals -/

/-- an exact decimal `(-1)^neg * mant / 10^scale` -/
structure Dec where
  neg : Bool
  mant : Nat
  scale : Nat
deriving DecidableEq, Repr

/-- decimal digits of `n`, most significant first -/
def natDigitsAux : Nat → Nat → Bytes → Bytes
  | 0, _, acc => acc
  | f + 1, n, acc => if n < 10 then UInt8.ofNat (48 + n) :: acc else natDigitsAux f (n / 10) (UInt8.ofNat (48 + n % 10) :: acc)

def natDigits (n : Nat) : Bytes := natDigitsAux (n + 1) n []

/-- strip trailing zeros of the fraction: smallest scale representing the same value -/
def normAux : Nat → Nat → Nat × Nat
  | m, 0 => (m, 0)
  | m, s + 1 => if m % 10 == 0 then normAux (m / 10) s else (m, s + 1)

def Dec.normalize (d : Dec) : Dec := ⟨d.neg, (normAux d.mant d.scale).1, (normAux d.mant d.scale).2⟩

def padLeft (n : Nat) (b : Bytes) : Bytes := List.replicate (n - b.length) 0x30 ++ b

/-- REC §4.2: integers without decimal point; otherwise at least one digit before the point and exactly as many after it
as are needed to distinguish the number (for an exact decimal: all of them) -/
def fmtRec (x : Dec) : Bytes :=
  let d := x.normalize
  if d.mant == 0 then [0x30]
  else
    let sign : Bytes := if d.neg then [0x2d] else []
    if d.scale == 0 then sign ++ natDigits d.mant
    else
      let ip := d.mant / 10 ^ d.scale
      let fp := d.mant % 10 ^ d.scale
      sign ++ natDigits ip ++ [0x2e] ++ padLeft d.scale (natDigits fp)

/-- libyang `lyxp_set_cast` to string for a finite number within `long long`: `%lld` when integral, else `%03.1Lf`,
i.e. one fractional digit, round-half-even on the exact value (glibc) -/
def fmtC (x : Dec) : Bytes :=
  let d := x.normalize
  if d.mant == 0 then [0x30]
  else
    let sign : Bytes := if d.neg then [0x2d] else []
    if d.scale == 0 then sign ++ natDigits d.mant
    else
      -- tenths = mant / 10^(scale-1), remainder decides rounding
      let p := 10 ^ (d.scale - 1)
      let t := d.mant / p
      let r := d.mant % p
      let half := p / 2
      let t' := if d.scale == 1 then t
                else if r > half || (r == half && p % 2 == 0 && t % 2 == 1) then t + 1 else t
      sign ++ natDigits (t' / 10) ++ [0x2e] ++ natDigits (t' % 10)

/-! ## floor / ceiling / round on exact decimals -/

def Dec.ipart (d : Dec) : Nat := d.mant / 10 ^ d.scale
def Dec.isInt (d : Dec) : Bool := d.mant % 10 ^ d.scale == 0
def sgn (neg : Bool) (n : Nat) : Int := if neg then -(n : Int) else (n : Int)

/-- C cast `(long long)x`: truncation toward zero -/
def truncC (d : Dec) : Int := sgn d.neg d.ipart

/-- REC §4.4 `floor`: the largest integer not greater than the argument -/
def floorRec (d : Dec) : Int := if d.neg && !d.isInt then -(d.ipart : Int) - 1 else sgn d.neg d.ipart
/-- libyang `xpath_floor`: `(long long)x` -/
def floorC (d : Dec) : Int := truncC d

/-- REC §4.4 `ceiling`: the smallest integer not less than the argument -/
def ceilRec (d : Dec) : Int := if !d.neg && !d.isInt then (d.ipart : Int) + 1 else sgn d.neg d.ipart
/-- libyang `xpath_ceiling`: `(long long)x != x ? (long long)x + 1 : x` -/
def ceilC (d : Dec) : Int := if !d.isInt then truncC d + 1 else truncC d

/-- `d + 1/2` -/
def Dec.addHalf (d : Dec) : Dec :=
  -- common scale d.scale + 1: d = ±(10 * mant) / 10^(scale+1), 1/2 = 5 * 10^scale / 10^(scale+1)
  let m := 10 * d.mant
  let h := 5 * 10 ^ d.scale
  if !d.neg then ⟨false, m + h, d.scale + 1⟩
  else if m ≤ h then ⟨false, h - m, d.scale + 1⟩ else ⟨true, m - h, d.scale + 1⟩

/-- REC §4.4 `round`: the integer closest to the argument, ties toward positive infinity = `floor(x + 0.5)` -/
def roundRec (d : Dec) : Int := floorRec d.addHalf
/-- libyang `xpath_round` (outside `[-0.5, 0]`): `xpath_floor(x + 0.5)`, i.e. truncation -/
def roundC (d : Dec) : Int := floorC d.addHalf

end LyModel.XPath.NumLex
