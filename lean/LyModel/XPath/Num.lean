import LyModel.Base
/-!
# The number type of the XPath engine, abstractly

Everything the evaluator needs from IEEE 754 doubles (REC §3.5, §4.4) is a field of `XNum`; the evaluator and all theorems
are parametric in it.  `Float` is plugged in only by the driver (`LyModel/XPath/Drv.lean`); no theorem mentions `Float`.

Number ↔ string conversion has two variants each, selected by a flag: the REC's (§4.2 `string`, §4.4 `number`) and the
ones libyang's `lyxp_set_cast` computes (`%lld` / `%03.1Lf`, finding F38; `strtold`, finding F39).  Their lexical cores
are modelled without any number type in `NumLex.lean`, where the theorems about them live.
-/
namespace LyModel.XPath

class XNum (N : Type) where
  ofNat : Nat → N
  /-- numeric literal `mant / 10^scale` -/
  ofDec : Nat → Nat → N
  nan : N
  neg : N → N
  add : N → N → N
  sub : N → N → N
  mul : N → N → N
  div : N → N → N
  mod : N → N → N
  /-- IEEE comparisons: false whenever an operand is NaN -/
  lt : N → N → Bool
  le : N → N → Bool
  eq : N → N → Bool
  isNaN : N → Bool
  isFinite : N → Bool
  /-- `+0` or `-0` -/
  isZero : N → Bool
  /-- REC §4.4 -/
  floor : N → N
  ceil : N → N
  round : N → N
  /-- C cast `(long long)x` followed by conversion back (truncation toward zero); meaningful for finite values -/
  trunc : N → N
  /-- `-0` -/
  negZero : N
  /-- `string(number)`; `true` = libyang's formatting -/
  toStr : Bool → N → Bytes
  /-- `number(string)`; `true` = `strtold` -/
  ofStr : Bool → Bytes → N

namespace XNum
variable {N : Type} [XNum N]

@[inline] def ne (a b : N) : Bool := !(eq a b)
@[inline] def gt (a b : N) : Bool := lt b a
@[inline] def ge (a b : N) : Bool := le b a
@[inline] def one : N := ofNat 1
@[inline] def zero : N := ofNat 0
def ofBool (b : Bool) : N := if b then one else zero

/-- libyang `xpath_floor` on a finite argument -/
def floorC (x : N) : N := trunc x
/-- libyang `xpath_ceiling`: `(long long)x != x ? (long long)x + 1 : x` -/
def ceilC (x : N) : N := if ne (trunc x) x then add (trunc x) one else x
/-- libyang `xpath_round` -/
def roundC (x : N) : N :=
  if (isZero x) || (lt x zero && ge x (neg (ofDec 5 1))) then negZero
  else if isFinite x then trunc (add x (ofDec 5 1)) else x

end XNum
end LyModel.XPath
