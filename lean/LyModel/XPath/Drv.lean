import LyModel.XPath.Eval
import LyModel.XPath.FloatNum
import LyModel.XPath.Set
import LyModel.XPath.Canon
import LyModel.Val.DrvBase
/-!
driver ops of component `xpath` (C08).  The driver is stateless, so every evaluation request carries the document:

* `schema <yang-hex>+`                              -> `ok`      (the model needs no schema: the dump is the XML view)
* `tree <fmt> <data-hex> <dump-hex>`                -> `ok <number of elements>`
* `eval  <ctx> <expr-hex> <ast-hex> <dump-hex> [<mask>]` -> typed result; mask = the `Quirks` switches in force (default: all),
  i.e. the deviations of libyang recorded as known findings and not yet repaired
* `find  <ctx> <expr-hex> <ast-hex> <dump-hex>`     -> node-set or `err NotNodeSet`
* `evalq <mask> <ctx> <expr-hex> <ast-hex> <dump-hex>` -> typed result with the given `Quirks` mask (0 = XPath 1.0 REC)
  In all three the expression evaluated is `<expr-hex>`, THE TEXT, parsed by `Parse.parse` (the model of `lyxp_expr_parse`);
  `<ast-hex>` (`-` = absent) is the prefix form python derived from its own AST and must denote the same tree
  (`err AstMismatch` otherwise).
* `xplex <expr-hex>`   -> `ok <n> (<kind>:<pos>:<len>)*` | `err Lex`           (`lyxp_expr_parse`, `reparse = 0`)
* `xpparse <expr-hex>` -> `ok <n> (<kind>:<pos>:<len>:<repeat>)*` | `err Lex` | `err Parse`   (`reparse = 1`; repeat = `-` or the
  digits of `exp->repeat[i]`)
* `xpast <expr-hex>`   -> `ok <hex of the prefix form of the parsed tree>` | `err Lex` | `err Parse`        (model only)
* `xprender <ast-hex>` -> `ok <hex of the canonical text>` | `err NotWf` (no canonical text: `Canon.wf`)        (model only)
* `xprendert <ast-hex>` -> `ok <hex of the tight text Render.renderT> <1 if the single-blank fallback was taken, else 0>` | `err NotWf`
-/
namespace LyModel.XPath.Drv
open LyModel LyModel.XPath

def bstr (b : Bytes) : String := String.ofList (b.map fun x => Char.ofNat x.toNat)
/-- inverse of `bstr` -/
def unbstr (s : String) : Bytes := s.toList.map fun c => UInt8.ofNat c.toNat

/-- `mod:name` split at the first colon -/
def identOfTok (t : String) : Option Val.Ident.Ident :=
  match t.splitOn ":" with
  | m :: n :: r => some ⟨m.toUTF8.toList, (":".intercalate (n :: r)).toUTF8.toList⟩
  | _ => none

def stepsOf : List Step → Option (List (Axis × Test))
  | [] => some []
  | .mk ax t [] :: r => (stepsOf r).map ((ax, t) :: ·)
  | _ => none

/-- a leafref path without predicates (`Facts.lrefs`) -/
def lrefOf (h : String) : Option (Bool × List (Axis × Test)) :=
  match (Hex.dec h).bind Parse.parse with
  | some (.path .root steps) => (stepsOf steps).map fun l => (true, l)
  | some (.path .ctx steps) => (stepsOf steps).map fun l => (false, l)
  | _ => none

/-- member of a union: the descriptors of `nodeTyOf`, `enum:<hex name>,…`, `str` -/
def umemOf (d : String) : Option UMem :=
  if d == "str" then some .str
  else if d.startsWith "enum:" then (((d.drop 5).toString.splitOn ",").mapM Hex.dec).map UMem.enm
  else if d.startsWith "idref:" then (((d.drop 6).toString.splitOn ",").mapM identOfTok).map UMem.idref
  else (Val.Drv.parseTy d).map UMem.val

def nodeTyOf (d : String) : Option NodeTy :=
  if d.startsWith "union:" then (((d.drop 6).toString.splitOn "|").mapM umemOf).map NodeTy.union else
  if d.startsWith "idref:" then
    (((d.drop 6).toString.splitOn ",").mapM identOfTok).map NodeTy.idref
  else (Val.Drv.parseTy d).map NodeTy.val

/-- one `#…` header line of the dump (schema facts, see `Yang.lean`); unknown headers are ignored -/
def addFact (f : Facts) (toks : List String) : Option Facts :=
  match toks with
  | "#mods" :: ms => some { f with mods := f.mods ++ ms.map (·.toUTF8.toList) }
  | "#ident" :: id :: bases => do
    let i ← identOfTok id
    let bs ← bases.mapM identOfTok
    pure { f with idctx := { f.idctx with defs := f.idctx.defs ++ [{ id := i, bases := bs }] } }
  | "#enum" :: path :: items => do
    let its ← items.mapM fun it =>
      match it.splitOn "=" with
      | [n, v] => v.toInt?.map fun x => (n.toUTF8.toList, x)
      | _ => none
    pure { f with enums := f.enums ++ [(path.toUTF8.toList, its)] }
  | ["#leafref", path, h] =>
    match lrefOf h with
    | some l => some { f with lrefs := f.lrefs ++ [(path.toUTF8.toList, l)] }
    | none => none
  | ["#inst", path] => some { f with insts := f.insts ++ [path.toUTF8.toList] }
  | ["#type", path, d] => (nodeTyOf d).map fun t => { f with types := f.types ++ [(path.toUTF8.toList, t)] }
  | _ => some f

/-- dump: header lines `#<kind> …` (schema facts, optional), then one line per element
`<depth> <module> <name> <kind> <value-hex> <basetype>` in document order -/
def parseDumpF (b : Bytes) : Option (Doc × Facts) := do
  let lines := ((bstr b).splitOn "\n").filter (· ≠ "")
  let mut elems : Array Elem := #[]
  let mut facts : Facts := {}
  let mut stack : Array Nat := #[]      -- stack[k] = number of the last element seen at depth k
  for l in lines do
    if l.startsWith "#" then
      facts ← addFact facts (l.splitOn " ")
    else
    match l.splitOn " " with
    | [dep, mod, name, kind, val, bt] =>
      let k ← dep.toNat?
      let v ← Hex.dec val
      let parent := if k == 0 then 0 else stack.getD (k - 1) 0
      elems := elems.push { parent, mod := mod.toUTF8.toList, name := name.toUTF8.toList, term := kind == "t", value := v,
                            btype := bt.toUTF8.toList }
      stack := (stack.extract 0 k).push elems.size
    | _ => none
  pure ({ elems }, facts)

def parseDump (b : Bytes) : Option Doc := (parseDumpF b).map (·.1)

def axisOf : String → Option Axis
  | "child" => some .child | "descendant" => some .descendant | "parent" => some .parent | "ancestor" => some .ancestor
  | "following-sibling" => some .followingSibling | "preceding-sibling" => some .precedingSibling
  | "following" => some .following | "preceding" => some .preceding | "attribute" => some .attribute
  | "self" => some .self | "descendant-or-self" => some .descendantOrSelf | "ancestor-or-self" => some .ancestorOrSelf
  | _ => none

def opOf : String → Option BinOp
  | "or" => some .or | "and" => some .and | "eq" => some .eq | "ne" => some .ne | "lt" => some .lt | "le" => some .le
  | "gt" => some .gt | "ge" => some .ge | "add" => some .add | "sub" => some .sub | "mul" => some .mul
  | "div" => some .div | "mod" => some .mod | "union" => some .union
  | _ => none

/-! prefix form of the AST (produced by `tools/checks/c08.py` from the same object the XPath text is rendered from):
`L <hex>` | `N <mant> <scale>` | `F <name> <argc> e*` | `B <op> e e` | `M e` | `P <start> <nsteps> step*` | `X e <npreds> e*`
start = `R` | `C` | `E e`;  step = `S <axis> <test> <npreds> e*`;  test = `n <pfx|_> <name>` | `a` | `m <pfx>` | `o` | `t` -/
mutual
partial def pExpr : List String → Option (Expr × List String)
  | "L" :: h :: r => do let s ← Hex.dec h; pure (.lit s, r)
  | "N" :: m :: s :: r => do pure (.num (← m.toNat?) (← s.toNat?), r)
  | "F" :: name :: n :: r => do
    let (args, r') ← pMany pExpr (← n.toNat?) r
    pure (.fn name args, r')
  | "B" :: op :: r => do
    let o ← opOf op
    let (a, r1) ← pExpr r
    let (b, r2) ← pExpr r1
    pure (.bin o a b, r2)
  | "M" :: r => do let (a, r1) ← pExpr r; pure (.neg a, r1)
  | "P" :: r => do
    let (st, r1) ← (match r with
      | "R" :: t => some (Start.root, t)
      | "C" :: t => some (Start.ctx, t)
      | "E" :: t => do let (e, t') ← pExpr t; pure (Start.expr e, t')
      | _ => none)
    match r1 with
    | n :: r2 => do
      let (steps, r3) ← pMany pStep (← n.toNat?) r2
      pure (.path st steps, r3)
    | [] => none
  | "X" :: r => do
    let (e, r1) ← pExpr r
    match r1 with
    | n :: r2 => do
      let (ps, r3) ← pMany pExpr (← n.toNat?) r2
      pure (.filter e ps, r3)
    | [] => none
  | _ => none

partial def pStep : List String → Option (Step × List String)
  | "S" :: ax :: r => do
    let a ← axisOf ax
    let (t, r1) ← (match r with
      | "n" :: p :: name :: t => some (Test.name (if p == "_" then none else some (unbstr p)) (unbstr name), t)
      | "a" :: t => some (Test.any, t)
      | "m" :: p :: t => some (Test.anyIn (unbstr p), t)
      | "o" :: t => some (Test.node, t)
      | "t" :: t => some (Test.text, t)
      | "c" :: t => some (Test.comment, t)
      | _ => none)
    match r1 with
    | n :: r2 => do
      let (ps, r3) ← pMany pExpr (← n.toNat?) r2
      pure (.mk a t ps, r3)
    | [] => none
  | _ => none

partial def pMany {α : Type} (p : List String → Option (α × List String)) : Nat → List String → Option (List α × List String)
  | 0, r => some ([], r)
  | n + 1, r => do
    let (a, r1) ← p r
    let (as, r2) ← pMany p n r1
    pure (a :: as, r2)
end

def parseAst (b : Bytes) : Option Expr :=
  match pExpr (((bstr b).splitOn " ").filter (· ≠ "")) with
  | some (e, []) => some e
  | _ => none


/-! the same prefix form, printed (ops `xpast`, and the cross-check of the two routes in `eval` / `find`) -/
def axisName : Axis → String
  | .child => "child" | .descendant => "descendant" | .parent => "parent" | .ancestor => "ancestor"
  | .followingSibling => "following-sibling" | .precedingSibling => "preceding-sibling" | .following => "following"
  | .preceding => "preceding" | .attribute => "attribute" | .self => "self" | .descendantOrSelf => "descendant-or-self"
  | .ancestorOrSelf => "ancestor-or-self"

def opName : BinOp → String
  | .or => "or" | .and => "and" | .eq => "eq" | .ne => "ne" | .lt => "lt" | .le => "le" | .gt => "gt" | .ge => "ge"
  | .add => "add" | .sub => "sub" | .mul => "mul" | .div => "div" | .mod => "mod" | .union => "union"

def showTest : Test → String
  | .name none l => "n _ " ++ bstr l
  | .name (some p) l => "n " ++ bstr p ++ " " ++ bstr l
  | .any => "a" | .anyIn p => "m " ++ bstr p | .node => "o" | .text => "t" | .comment => "c"

mutual
def showAst : Expr → String
  | .lit s => "L " ++ Hex.enc s
  | .num m sc => "N " ++ toString m ++ " " ++ toString sc
  | .fn name as => "F " ++ name ++ " " ++ toString as.length ++ showList as
  | .bin op a b => "B " ++ opName op ++ " " ++ showAst a ++ " " ++ showAst b
  | .neg a => "M " ++ showAst a
  | .path .root steps => "P R " ++ toString steps.length ++ showSteps steps
  | .path .ctx steps => "P C " ++ toString steps.length ++ showSteps steps
  | .path (.expr e) steps => "P E " ++ showAst e ++ " " ++ toString steps.length ++ showSteps steps
  | .filter e ps => "X " ++ showAst e ++ " " ++ toString ps.length ++ showList ps
def showList : List Expr → String
  | [] => ""
  | a :: r => " " ++ showAst a ++ showList r
def showSteps : List Step → String
  | [] => ""
  | .mk ax t ps :: r => " S " ++ axisName ax ++ " " ++ showTest t ++ " " ++ toString ps.length ++ showList ps ++ showSteps r
end

def showTok (t : Lex.Tok) : String := toString t.kind.code ++ ":" ++ toString t.pos ++ ":" ++ toString t.len

def showRep (l : List Nat) : String := if l.isEmpty then "-" else String.join (l.map toString)

def xplex (h : String) : String :=
  match Hex.dec h with
  | none => "err BadArg"
  | some s =>
    if s.contains 0 then "err BadArg" else
    match Lex.lex s with
    | .ok ts => "ok " ++ toString ts.length ++ String.join (ts.map fun t => " " ++ showTok t)
    | .error (.at _) => "err Lex"
    | .error .fuel => "err Fuel"

def xpparse (h : String) : String :=
  match Hex.dec h with
  | none => "err BadArg"
  | some s =>
    if s.contains 0 then "err BadArg" else
    match Parse.parseFull s with
    | .ok (ts, _, ps) =>
      "ok " ++ toString ts.length ++ String.join (ts.zipIdx.map fun (t, i) =>
        " " ++ showTok t ++ ":" ++ showRep (Parse.repeatOf ts.length ps i))
    | .error (.lex _) => "err Lex"
    | .error .fuel => "err Fuel"
    | .error .parse => "err Parse"

def xpast (h : String) : String :=
  match Hex.dec h with
  | none => "err BadArg"
  | some s =>
    match Parse.parseFull s with
    | .ok (_, e, _) => "ok " ++ Hex.enc (unbstr (showAst e))
    | .error (.lex _) => "err Lex"
    | .error .fuel => "err Fuel"
    | .error .parse => "err Parse"

def numTok (x : Float) : String :=
  if x.isNaN then "NaN"
  else if x.isInf then (if x > 0 then "Inf" else "-Inf")
  else if x.abs >= 1e12 then "big"
  else "m" ++ toString (x * 1000).round.toInt64.toInt

def render : Except Err (Value Float) → String
  | .error e => "err " ++ e.name
  | .ok (.ns l) => "ok ns" ++ String.join ((l.filter Ref.isElem).map fun r => " " ++ toString (r / 2))
  | .ok (.str s) => "ok str " ++ Hex.enc s
  | .ok (.num n) => "ok num " ++ numTok n
  | .ok (.bool b) => "ok bool " ++ (if b then "1" else "0")

def allMask : Nat := 131071

/-- the expression of an `eval` / `find` request: THE TEXT, parsed by the model of libyang's parser; when the request also
carries the pre-parsed prefix form (`ast-hex` other than `-`), both routes must give the same tree -/
def exprOf (exprH astH : String) : Except String Expr :=
  match Hex.dec exprH with
  | none => .error "err BadArg"
  | some tx =>
    match Parse.parse tx with
    | none => .error "err ParseText"
    | some e =>
      if astH == "-" then .ok e else
      match (Hex.dec astH).bind parseAst with
      | none => .error "err BadAst"
      | some e2 => if showAst e == showAst e2 then .ok e else .error ("err AstMismatch " ++ Hex.enc (unbstr (showAst e)))

def run (mask : Nat) (ctx exprH astH dumpH : String) (findOnly : Bool) : String :=
  match ctx.toNat?, Hex.dec dumpH with
  | some c, some db =>
    match exprOf exprH astH, parseDumpF db with
    | .error m, _ => m
    | .ok e, some (d, facts) =>
      if c > d.elems.size then "err NoTree" else
      let env : Env := { doc := d, q := Quirks.ofMask mask, cur := 2 * c, facts }
      let r : Except Err (Value Float) := eval env e { node := 2 * c, pos := 1, size := 1 }
      if findOnly then
        match r with
        | .ok (.ns _) => render r
        | .ok _ => "err Inval"
        | .error _ => render r
      else render r
    | _, none => "err BadDump"
  | _, _ => "err BadArg"

def parseItems (s : String) : Option (List Set.Item) :=
  if s == "-" then some [] else
  (s.splitOn ",").mapM fun it =>
    match it.splitOn ":" with
    | [p, n, t] => do
      let ty ← (match t with | "r" => some Set.NodeType.root | "e" => some .elem | "t" => some .text | _ => none)
      pure { pos := ← p.toNat?, node := ← n.toNat?, type := ty }
    | _ => none

def showItems (l : List Set.Item) : String :=
  if l.isEmpty then "-" else
  ",".intercalate (l.map fun i => toString i.pos ++ ":" ++ toString i.node ++ ":" ++
    (match i.type with | .root => "r" | .elem => "e" | .text => "t"))

def parseKeys (s : String) : Option (List Nat) :=
  if s == "-" then some [] else (s.splitOn ",").mapM String.toNat?

def showKeys (l : List Nat) : String := if l.isEmpty then "-" else ",".intercalate (l.map toString)

def keyItem (k : Nat) : Set.Item := { pos := k / 2 + 1, node := k / 2, type := if k % 2 == 1 then .text else .elem }
def itemKey (i : Set.Item) : Nat := 2 * i.node + (if i.type == .text then 1 else 0)

def handle (op : String) (args : List String) : String :=
  match op, args with
  | "sort", [a] =>
    match parseItems a with
    | some l => let r := Set.setSort Set.sortCompare l; "ok " ++ toString r.2 ++ " " ++ showItems r.1
    | none => "err BadArg"
  | "sortk", [a] =>
    match parseKeys a with
    | some l => let r := Set.setSort Set.sortCompare (l.map keyItem); "ok " ++ toString r.2 ++ " " ++ showKeys (r.1.map itemKey)
    | none => "err BadArg"
  | "mergek", [a, b] =>
    match parseKeys a, parseKeys b with
    | some t, some s =>
      match Set.sortedMerge t s with
      | some r => "ok " ++ showKeys r ++ " 1"
      | none => "err OutOfBounds"
    | _, _ => "err BadArg"
  | "schema", _ :: _ => "ok"
  | "tree", [_, _, dumpH] =>
    match Hex.dec dumpH with
    | some db => match parseDump db with
      | some d => "ok " ++ toString d.elems.size
      | none => "err BadDump"
    | none => "err BadHex"
  | "eval", [ctx, exprH, astH, dumpH] => run allMask ctx exprH astH dumpH false
  | "find", [ctx, exprH, astH, dumpH] => run allMask ctx exprH astH dumpH true
  | "eval", [ctx, exprH, astH, dumpH, mask] => run (mask.toNat?.getD allMask) ctx exprH astH dumpH false
  | "find", [ctx, exprH, astH, dumpH, mask] => run (mask.toNat?.getD allMask) ctx exprH astH dumpH true
  | "evalq", [mask, ctx, exprH, astH, dumpH] =>
    match mask.toNat? with
    | some m => run m ctx exprH astH dumpH false
    | none => "err BadArg"
  | "xplex", [h] => xplex h
  | "xpparse", [h] => xpparse h
  | "xpast", [h] => xpast h
  | "xprender", [h] =>
    match (Hex.dec h).bind parseAst with
    | some e => if Canon.wf e then "ok " ++ Hex.enc (Render.render e) else "err NotWf"
    | none => "err BadAst"
  | "xprendert", [h] =>
    match (Hex.dec h).bind parseAst with
    | some e =>
      if Canon.wf e then
        "ok " ++ Hex.enc (Render.renderT e) ++
          (if Render.spacingB (Render.atoks e) (Render.tightBs (Render.atoks e)) [] then " 0" else " 1")
      else "err NotWf"
    | none => "err BadAst"
  | _, _ => "err BadOp"

end LyModel.XPath.Drv
