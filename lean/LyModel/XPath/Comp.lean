import LyModel.XPath.Num
import LyModel.XPath.Ast
/-!
# Conversions and comparisons  (component `XpSet`, property C08): `lyxp_set_cast`, `moveto_op_comp`, `moveto_op_comp_item`

Operands are abstracted from the tree: a node-set is the list of the string-values of its nodes in document order (all that
casts and comparisons read).  `Spec.*` is the XPath 1.0 REC (§3.4 comparisons, §4.2–4.4 conversions); `C.*` mirrors the control
flow of the C functions, including the fact that `lyxp_set_cast` overwrites its argument: inside the per-node loop of
`moveto_op_comp` the scalar operand is converted *in place* by the first comparison and stays converted for the later nodes.
Parametric in the number type; core Lean only.
-/
namespace LyModel.XPath.Comp
open LyModel LyModel.XPath

inductive Opnd (N : Type)
  /-- node-set: string-values of its nodes in document order -/
  | ns (svs : List Bytes)
  | str (s : Bytes)
  | num (n : N)
  | bool (b : Bool)

/-- which variants of the number conversions are in force (`XNum.toStr` / `XNum.ofStr` flag) -/
structure Cfg where
  numFmt : Bool
  strtold : Bool

section
variable {N : Type} [XNum N]

def isCmp (op : BinOp) : Bool :=
  match op with
  | .eq | .ne | .lt | .le | .gt | .ge => true
  | _ => false

def isEqNe (op : BinOp) : Bool := op == .eq || op == .ne

def cmpNum (op : BinOp) (a b : N) : Bool :=
  match op with
  | .eq => XNum.eq a b | .ne => XNum.ne a b
  | .lt => XNum.lt a b | .le => XNum.le a b | .gt => XNum.gt a b | .ge => XNum.ge a b
  | _ => false

def cmpBool (op : BinOp) (a b : Bool) : Bool := if op == .eq then a == b else a != b
def cmpStr (op : BinOp) (a b : Bytes) : Bool := if op == .eq then a == b else a != b

def boolStr (b : Bool) : Bytes := if b then "true".toUTF8.toList else "false".toUTF8.toList

/-! ## XPath 1.0 REC -/
namespace Spec

/-- §4.2 `string()` -/
def toStr (c : Cfg) : Opnd N → Bytes
  | .ns [] => []
  | .ns (s :: _) => s
  | .str s => s
  | .num n => XNum.toStr c.numFmt n
  | .bool b => boolStr b

/-- §4.4 `number()` -/
def toNum (c : Cfg) : Opnd N → N
  | .num n => n
  | .bool b => XNum.ofBool b
  | o => XNum.ofStr c.strtold (toStr c o)

/-- §4.3 `boolean()` -/
def toBool : Opnd N → Bool
  | .ns l => !l.isEmpty
  | .str s => !s.isEmpty
  | .num n => !(XNum.isZero n || XNum.isNaN n)
  | .bool b => b

/-- §3.4, neither operand is a node-set -/
def cmpAtom (c : Cfg) (op : BinOp) (a b : Opnd N) : Bool :=
  if isEqNe op then
    match a, b with
    | .bool x, _ => cmpBool op x (toBool b)
    | _, .bool y => cmpBool op (toBool a) y
    | .num x, _ => cmpNum op x (toNum c b)
    | _, .num y => cmpNum op (toNum c a) y
    | _, _ => cmpStr op (toStr c a) (toStr c b)
  else cmpNum op (toNum c a) (toNum c b)

/-- §3.4 -/
def compare (c : Cfg) (op : BinOp) (a b : Opnd N) : Bool :=
  match a, b with
  | .ns l1, .ns l2 => l1.any fun x => l2.any fun y => cmpAtom c op (.str x : Opnd N) (.str y)
  | .ns l, .bool y => cmpAtom c op (.bool (!l.isEmpty) : Opnd N) (.bool y)
  | .bool x, .ns l => cmpAtom c op (.bool x : Opnd N) (.bool (!l.isEmpty))
  | .ns l, o => l.any fun x => cmpAtom c op (.str x) o
  | o, .ns l => l.any fun y => cmpAtom c op o (.str y)
  | a, b => cmpAtom c op a b

end Spec

/-! ## libyang -/
namespace C

inductive Ty | ns | str | num | bool
deriving DecidableEq

def tyOf : Opnd N → Ty
  | .ns _ => .ns | .str _ => .str | .num _ => .num | .bool _ => .bool

/-- `lyxp_set_cast(set, target)`; the result replaces the argument -/
def cast (c : Cfg) (o : Opnd N) (target : Ty) : Opnd N :=
  if tyOf o == target then o else
  -- to STRING (also the first half of node-set -> NUMBER)
  let o1 : Opnd N :=
    if target == .str || (target == .num && tyOf o == .ns) then
      match o with
      | .num n => .str (XNum.toStr c.numFmt n)
      | .bool b => .str (boolStr b)
      | .ns [] => .str []
      | .ns (s :: _) => .str s
      | .str s => .str s
    else o
  -- to NUMBER
  let o2 : Opnd N :=
    if target == .num then
      match o1 with
      | .str s => .num (XNum.ofStr c.strtold s)
      | .bool b => .num (XNum.ofBool b)
      | x => x
    else o1
  -- to BOOLEAN
  if target == .bool then
    match o2 with
    | .num n => .bool (!(XNum.isZero n || XNum.isNaN n))
    | .str s => .bool (!s.isEmpty)
    | .ns l => .bool (!l.isEmpty)
    | x => x
  else o2

/-- the part of `moveto_op_comp` after the node-set loop: convert both operands in place, then compare.
Returns the verdict and the two operands as they are left behind. -/
def scalarComp (c : Cfg) (op : BinOp) (s1 s2 : Opnd N) : Bool × Opnd N × Opnd N :=
  let (a, b) :=
    if isEqNe op then
      if tyOf s1 == .bool || tyOf s2 == .bool then (cast c s1 .bool, cast c s2 .bool)
      else if tyOf s1 == .num || tyOf s2 == .num then (cast c s1 .num, cast c s2 .num)
      else (s1, s2)
    else (cast c s1 .num, cast c s2 .num)
  let r :=
    match a, b with
    | .bool x, .bool y => cmpBool op x y
    | .num x, .num y => cmpNum op x y
    | .str x, .str y => cmpStr op x y
    | _, _ => false
  (r, a, b)

/-- `set_comp_cast` of the one-node set with string-value `sv`, by the type of the other operand -/
def itemCast (c : Cfg) (sv : Bytes) (other : Opnd N) : Opnd N :=
  match tyOf other with
  | .num => cast c (.ns [sv]) .num
  | .bool => cast c (.ns [sv]) .bool
  | _ => cast c (.ns [sv]) .str

/-- the loop `for (i = 0; i < set->used; ++i) moveto_op_comp_item(set, i, other, op, sw, result)` over the nodes `l`
against the scalar `o`; `sw` = `o` is the first operand.  `o` is threaded through the iterations because it is modified. -/
def nsScalar (c : Cfg) (op : BinOp) : List Bytes → Opnd N → Bool → Bool × Opnd N
  | [], o, _ => (false, o)
  | sv :: rest, o, sw =>
    let tmp := itemCast c sv o
    let r := if sw then scalarComp c op o tmp else scalarComp c op tmp o
    let o' := if sw then r.2.1 else r.2.2
    if r.1 then (true, o') else nsScalar c op rest o' sw

/-- both operands node-sets: every node of the first, converted to a string, goes through the loop over the second -/
def nsNs (c : Cfg) (op : BinOp) : List Bytes → List Bytes → Bool
  | [], _ => false
  | sv :: rest, l2 =>
    if (nsScalar c op l2 (.str sv : Opnd N) true).1 then true else nsNs c op rest l2

/-- `moveto_op_comp` -/
def opComp (c : Cfg) (op : BinOp) (a b : Opnd N) : Bool :=
  match a, b with
  | .ns l1, .ns l2 => nsNs (N := N) c op l1 l2
  | .ns l, o => (nsScalar c op l o false).1
  | o, .ns l => (nsScalar c op l o true).1
  | a, b => (scalarComp c op a b).1

end C

/-! ## libyang, with the type-aware canonisation of a string operand (`set_comp_canonize` in `moveto_op_comp_item`)

XPath 1.0 §3.4 compares the string-VALUE of a node with the string; RFC 7950 §6.4 adds nothing: `/c/n = '05'` is false when the
int32 leaf `n` holds `5`.  libyang first stores the string through the type plug-in of the node it is compared with and, when
that succeeds, compares the CANONICAL form (`'05'`, `'+5'`, `' 5 '` all become `5`): true.  This is a deliberate deviation
(finding F355, switch `Quirks.canonStr`).  The string operand is overwritten, so a later node of the same set sees the
canonised string; in node-set × node-set the string-value of each node of the first set is canonised by the types of the
nodes of the second set it meets. -/
namespace CZ

/-- one node of a node-set operand: its string-value and the canoniser of its type (identity for a node that is not a
terminal, a text node, and for string / boolean / enumeration terminals) -/
structure Item where
  sv : Bytes
  canon : Bytes → Bytes

def canonOpnd (cz : Bytes → Bytes) : Opnd N → Opnd N
  | .str s => .str (cz s)
  | o => o

/-- `C.nsScalar` with `set_comp_canonize(set2, node)` between `set_comp_cast` and the comparison -/
def nsScalar (c : Cfg) (op : BinOp) : List Item → Opnd N → Bool → Bool × Opnd N
  | [], o, _ => (false, o)
  | it :: rest, o, sw =>
    let tmp := C.itemCast c it.sv o
    let o1 := canonOpnd it.canon o
    let r := if sw then C.scalarComp c op o1 tmp else C.scalarComp c op tmp o1
    let o' := if sw then r.2.1 else r.2.2
    if r.1 then (true, o') else nsScalar c op rest o' sw

def nsNs (c : Cfg) (op : BinOp) : List Item → List Item → Bool
  | [], _ => false
  | it :: rest, l2 =>
    if (nsScalar c op l2 (.str it.sv : Opnd N) true).1 then true else nsNs c op rest l2

/-- operand with the canonisers of its nodes -/
inductive OpndZ (N : Type)
  | ns (items : List Item)
  | sc (o : Opnd N)

def OpndZ.plain : OpndZ N → Opnd N
  | .ns l => .ns (l.map (·.sv))
  | .sc o => o

/-- `moveto_op_comp`.  `nsBool = false`: node-set × boolean converts the node-set with `boolean()` first (REC §3.4, the repaired
code); `true`: per-node evaluation (finding F256). -/
def opComp (c : Cfg) (nsBool : Bool) (op : BinOp) (a b : OpndZ N) : Bool :=
  match a, b with
  | .ns l1, .ns l2 => nsNs (N := N) c op l1 l2
  | .ns l, .sc (.bool y) =>
    if nsBool then (nsScalar c op l (.bool y : Opnd N) false).1
    else (C.scalarComp c op (.bool (!l.isEmpty) : Opnd N) (.bool y)).1
  | .sc (.bool x), .ns l =>
    if nsBool then (nsScalar c op l (.bool x : Opnd N) true).1
    else (C.scalarComp c op (.bool x : Opnd N) (.bool (!l.isEmpty))).1
  | .ns l, .sc o => (nsScalar c op l o false).1
  | .sc o, .ns l => (nsScalar c op l o true).1
  | .sc a, .sc b => (C.scalarComp c op a b).1

end CZ
end
end LyModel.XPath.Comp
