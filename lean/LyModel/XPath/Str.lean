import LyModel.Base
/-!
# String functions of the XPath 1.0 core library (REC §4.2) on UTF-8 byte strings

`chars false` splits into characters (what the REC counts); `chars true` splits into bytes (what libyang's `strlen`-based
code counts, finding F41).  Core Lean only.
-/
namespace LyModel.XPath.Str
open LyModel

def isWs (b : UInt8) : Bool := b == 0x20 || b == 0x09 || b == 0x0a || b == 0x0d

@[inline] def isCont (b : UInt8) : Bool := b &&& 0xC0 == 0x80

/-- attach continuation bytes to the preceding lead byte -/
def charsAux : Bytes → List Bytes → List Bytes
  | [], acc => acc.reverse
  | b :: r, [] => charsAux r [[b]]
  | b :: r, c :: acc => if isCont b then charsAux r ((c ++ [b]) :: acc) else charsAux r ([b] :: c :: acc)

def chars (bytesMode : Bool) (s : Bytes) : List Bytes :=
  if bytesMode then s.map fun b => [b] else charsAux s []

def length (bytesMode : Bool) (s : Bytes) : Nat := (chars bytesMode s).length

def startsWith : Bytes → Bytes → Bool
  | _, [] => true
  | [], _ :: _ => false
  | a :: s, b :: p => a == b && startsWith s p

/-- (prefix before the first occurrence of `p`, rest after it) -/
def splitAt? : Bytes → Bytes → Option (Bytes × Bytes)
  | [], p => if p.isEmpty then some ([], []) else none
  | a :: s, p =>
    if startsWith (a :: s) p then some ([], (a :: s).drop p.length)
    else match splitAt? s p with
      | some (x, y) => some (a :: x, y)
      | none => none

def contains (s p : Bytes) : Bool := (splitAt? s p).isSome
def substringBefore (s p : Bytes) : Bytes := match splitAt? s p with | some (x, _) => x | none => []
def substringAfter (s p : Bytes) : Bytes := match splitAt? s p with | some (_, y) => y | none => []

/-- strip leading white space, collapse inner runs to one space, strip trailing -/
def normAux : Bytes → Bool → Bytes
  | [], _ => []
  | b :: r, pendingSpace =>
    if isWs b then normAux r true
    else (if pendingSpace then [0x20, b] else [b]) ++ normAux r false

def dropWs : Bytes → Bytes
  | [] => []
  | b :: r => if isWs b then dropWs r else b :: r

def normalizeSpace (s : Bytes) : Bytes := normAux (dropWs s) false

def indexOf? (c : Bytes) : List Bytes → Nat → Option Nat
  | [], _ => none
  | x :: r, i => if x == c then some i else indexOf? c r (i + 1)

/-- REC `translate`: characters of `s` occurring in `frm` are replaced by the character at the same position of `to`,
or removed when `to` is shorter; the first occurrence in `frm` wins. -/
def translate (bytesMode : Bool) (s frm to : Bytes) : Bytes :=
  let f := chars bytesMode frm
  let t := chars bytesMode to
  ((chars bytesMode s).map fun c =>
    match indexOf? c f 0 with
    | none => c
    | some i => match t[i]? with
      | some r => r
      | none => []).flatten

/-- keep the characters whose 1-based position satisfies `keep` -/
def selectPos (keep : Nat → Bool) : List Bytes → Nat → Bytes
  | [], _ => []
  | c :: r, i => (if keep i then c else []) ++ selectPos keep r (i + 1)

def words (s : Bytes) : List Bytes :=
  let rec go : Bytes → Bytes → List Bytes
    | [], cur => if cur.isEmpty then [] else [cur.reverse]
    | b :: r, cur => if isWs b then (if cur.isEmpty then go r [] else cur.reverse :: go r []) else go r (b :: cur)
  go s []

end LyModel.XPath.Str
