import LyModel.XPath.Set
/-! Correctness of the `set_sort` model: a sorted permutation for every input, under the order axioms the comparison must satisfy. -/
namespace LyModel.XPath.Set

variable {α : Type}

/-- what `set_sort` needs from `set_sort_compare`: the two tests of the "inverted" trick coincide, and
`a ≤ b :⇔ ¬ cmp a b > 0` is a total preorder -/
structure CmpOK (cmp : α → α → Int) : Prop where
  anti : ∀ a b, cmp b a < 0 ↔ cmp a b > 0
  total : ∀ a b, ¬ cmp a b > 0 ∨ ¬ cmp b a > 0
  trans : ∀ a b c, ¬ cmp a b > 0 → ¬ cmp b c > 0 → ¬ cmp a c > 0

/-- the order induced by the comparison function -/
def Le (cmp : α → α → Int) (a b : α) : Prop := ¬ cmp a b > 0

theorem CmpOK.refl {cmp : α → α → Int} (h : CmpOK cmp) (a : α) : Le cmp a a := by
  rcases h.total a a with h1 | h1 <;> exact h1

/-- the swap condition of the inner loop does not depend on `inverted` -/
theorem swap_cond {cmp : α → α → Int} (h : CmpOK cmp) (inv : Bool) (cur x : α) :
    ((inv && decide ((if inv then cmp x cur else cmp cur x) < 0)) ||
      (!inv && decide ((if inv then cmp x cur else cmp cur x) > 0))) = decide (cmp cur x > 0) := by
  cases inv
  · simp
  · simp only [Bool.true_and, Bool.not_true, Bool.false_and, Bool.or_false, if_true]
    exact decide_eq_decide.mpr (h.anti cur x)

theorem pass_cons {cmp : α → α → Int} (h : CmpOK cmp) (inv : Bool) (cur x : α) (rest : List α) (ch : Bool) :
    pass cmp inv cur (x :: rest) ch =
      if cmp cur x > 0 then (x :: (pass cmp inv cur rest true).1, (pass cmp inv cur rest true).2)
      else (cur :: (pass cmp (!inv) x rest ch).1, (pass cmp (!inv) x rest ch).2) := by
  rw [pass]
  simp only
  rw [swap_cond h]
  by_cases hc : cmp cur x > 0 <;> simp [hc]

/-- one pass: the result is `init ++ [m]`, a permutation of the input, and `m` is a maximum -/
theorem pass_spec {cmp : α → α → Int} (h : CmpOK cmp) :
    ∀ (rest : List α) (inv : Bool) (cur : α) (ch : Bool),
      ∃ init m, (pass cmp inv cur rest ch).1 = init ++ [m] ∧ (init ++ [m]).Perm (cur :: rest) ∧
        (∀ y ∈ init, Le cmp y m) ∧ Le cmp cur m := by
  intro rest
  induction rest with
  | nil =>
    intro inv cur ch
    exact ⟨[], cur, by simp [pass], by simp, by simp, h.refl cur⟩
  | cons x r ih =>
    intro inv cur ch
    rw [pass_cons h]
    by_cases hc : cmp cur x > 0
    · simp only [hc, if_true]
      obtain ⟨init, m, he, hp, hmax, hcm⟩ := ih inv cur true
      have hxc : Le cmp x cur := by
        rcases h.total cur x with h1 | h1
        · exact absurd hc h1
        · exact h1
      refine ⟨x :: init, m, by simp [he], ?_, ?_, hcm⟩
      · have : (x :: (init ++ [m])).Perm (x :: cur :: r) := List.Perm.cons x hp
        exact this.trans (List.Perm.swap cur x r)
      · intro y hy
        rcases List.mem_cons.mp hy with rfl | hy
        · exact h.trans _ _ _ hxc hcm
        · exact hmax y hy
    · simp only [hc, if_false]
      obtain ⟨init, m, he, hp, hmax, hxm⟩ := ih (!inv) x ch
      have hcm : Le cmp cur m := h.trans _ _ _ hc hxm
      refine ⟨cur :: init, m, by simp [he], ?_, ?_, hcm⟩
      · exact List.Perm.cons cur hp
      · intro y hy
        rcases List.mem_cons.mp hy with rfl | hy
        · exact hcm
        · exact hmax y hy

theorem pass_changed_mono {cmp : α → α → Int} (h : CmpOK cmp) :
    ∀ (rest : List α) (inv : Bool) (cur : α), (pass cmp inv cur rest true).2 = true := by
  intro rest
  induction rest with
  | nil => intro inv cur; simp [pass]
  | cons x r ih =>
    intro inv cur
    rw [pass_cons h]
    by_cases hc : cmp cur x > 0 <;> simp [hc, ih]

/-- a pass without a swap means the array was already sorted (and is returned unchanged) -/
theorem pass_unchanged {cmp : α → α → Int} (h : CmpOK cmp) :
    ∀ (rest : List α) (inv : Bool) (cur : α), (pass cmp inv cur rest false).2 = false →
      (pass cmp inv cur rest false).1 = cur :: rest ∧ (cur :: rest).Pairwise (Le cmp) := by
  intro rest
  induction rest with
  | nil => intro inv cur _; simp [pass]
  | cons x r ih =>
    intro inv cur hf
    rw [pass_cons h] at hf ⊢
    by_cases hc : cmp cur x > 0
    · simp only [hc, if_true] at hf
      rw [pass_changed_mono h] at hf
      cases hf
    · simp only [hc, if_false] at hf ⊢
      obtain ⟨he, hs⟩ := ih (!inv) x hf
      refine ⟨by rw [he], ?_⟩
      rw [List.pairwise_cons]
      refine ⟨?_, hs⟩
      intro y hy
      rcases List.mem_cons.mp hy with rfl | hy
      · exact hc
      · exact h.trans _ _ _ hc ((List.pairwise_cons.mp hs).1 y hy)

/-- the outer loop: `done` is sorted and bounds the unsorted prefix from above -/
theorem outer_spec {cmp : α → α → Int} (h : CmpOK cmp) :
    ∀ (f : Nat) (l done : List α) (ret : Nat), l.length ≤ f → done.Pairwise (Le cmp) →
      (∀ x ∈ l, ∀ y ∈ done, Le cmp x y) →
      (outer cmp f l done ret).1.Pairwise (Le cmp) ∧ (outer cmp f l done ret).1.Perm (l ++ done) := by
  intro f
  induction f with
  | zero =>
    intro l done ret hl hd _
    have : l = [] := List.length_eq_zero_iff.mp (Nat.le_zero.mp hl)
    subst this
    simp [outer, hd]
  | succ f ih =>
    intro l done ret hl hd hb
    cases l with
    | nil => simp [outer, hd]
    | cons cur rest =>
      rw [outer]
      by_cases hch : (pass cmp false cur rest false).2 = true
      · -- a swap happened: the maximum moves to `done`
        simp only [hch, Bool.not_true, Bool.false_eq_true, if_false]
        obtain ⟨init, m, he, hp, hmax, _⟩ := pass_spec h rest false cur false
        rw [he]
        simp only [List.reverse_append, List.reverse_cons, List.reverse_nil, List.nil_append, List.singleton_append,
          List.reverse_reverse]
        have hm : m ∈ cur :: rest := hp.subset (by simp)
        have hinit : ∀ x ∈ init, x ∈ cur :: rest := fun x hx => hp.subset (by simp [hx])
        have hlen : init.length ≤ f := by
          have := hp.length_eq
          simp at this hl
          omega
        have hd' : (m :: done).Pairwise (Le cmp) := by
          rw [List.pairwise_cons]
          exact ⟨fun y hy => hb m hm y hy, hd⟩
        have hb' : ∀ x ∈ init, ∀ y ∈ m :: done, Le cmp x y := by
          intro x hx y hy
          rcases List.mem_cons.mp hy with rfl | hy
          · exact hmax x hx
          · exact hb x (hinit x hx) y hy
        obtain ⟨hs, hperm⟩ := ih init (m :: done) (ret + 1) hlen hd' hb'
        refine ⟨hs, hperm.trans ?_⟩
        have : (init ++ m :: done).Perm ((init ++ [m]) ++ done) := by simp
        exact this.trans (List.Perm.append_right done hp)
      · -- no swap: sorted already
        have hf : (pass cmp false cur rest false).2 = false := by simpa using hch
        simp only [hf, Bool.not_false, if_true]
        obtain ⟨he, hs⟩ := pass_unchanged h rest false cur hf
        rw [he]
        refine ⟨?_, List.Perm.refl _⟩
        rw [List.pairwise_append]
        exact ⟨hs, hd, hb⟩

/-- `set_sort` returns a sorted permutation of its input, for every input array -/
theorem setSort_sorted_perm {cmp : α → α → Int} (h : CmpOK cmp) (l : List α) :
    (setSort cmp l).1.Pairwise (Le cmp) ∧ (setSort cmp l).1.Perm l := by
  unfold setSort
  by_cases hl : l.length < 2
  · simp only [hl, if_true]
    refine ⟨?_, List.Perm.refl _⟩
    match l, hl with
    | [], _ => exact List.Pairwise.nil
    | [a], _ => exact List.pairwise_singleton _ _
    | _ :: _ :: _, hl => simp at hl; omega
  · simp only [hl, if_false]
    have := outer_spec h l.length l [] 0 (Nat.le_refl _) List.Pairwise.nil (by simp)
    simpa using this

/-! ### `set_sort_compare` on well-formed items (position keys) satisfies the axioms -/

def keyItem (k : Nat) : Item := { pos := k / 2 + 1, node := k / 2, type := if k % 2 == 1 then .text else .elem }

/-- comparison of two items of a real node-set, identified by their keys `2 * node + (1 if text)` -/
def keyCmp (a b : Nat) : Int := sortCompare (keyItem a) (keyItem b)

theorem keyCmp_lt (a b : Nat) : keyCmp a b < 0 ↔ a < b := by
  unfold keyCmp sortCompare keyItem
  simp only
  by_cases ha : a % 2 = 1 <;> by_cases hb : b % 2 = 1 <;>
    simp only [ha, hb, beq_self_eq_true, if_true, beq_iff_eq, bne_iff_ne, ne_eq, Bool.and_eq_true, reduceCtorEq,
      not_false_eq_true, not_true_eq_false, and_true, and_false, if_false] <;>
    split <;> (try split) <;> (try split) <;> (try split) <;> (try split) <;> (try split) <;> omega

theorem keyCmp_gt (a b : Nat) : keyCmp a b > 0 ↔ b < a := by
  unfold keyCmp sortCompare keyItem
  simp only
  by_cases ha : a % 2 = 1 <;> by_cases hb : b % 2 = 1 <;>
    simp only [ha, hb, beq_self_eq_true, if_true, beq_iff_eq, bne_iff_ne, ne_eq, Bool.and_eq_true, reduceCtorEq,
      not_false_eq_true, not_true_eq_false, and_true, and_false, if_false] <;>
    split <;> (try split) <;> (try split) <;> (try split) <;> (try split) <;> (try split) <;> omega

theorem keyCmp_ok : CmpOK keyCmp where
  anti a b := by rw [keyCmp_lt, keyCmp_gt]
  total a b := by rw [keyCmp_gt, keyCmp_gt]; omega
  trans a b c := by rw [keyCmp_gt, keyCmp_gt, keyCmp_gt]; omega

end LyModel.XPath.Set
