import LyModel.XPath.Set
/-!
Correctness of the `set_sorted_merge` model with its index arithmetic: for sorted duplicate-free `trg` and `src` the result is
`some` (no index leaves the allocated `trg->used + src->used` entries) sorted duplicate-free union.

The proof relates the concrete state `(t, i, j, count, dup)` to a segmentation
`t = A ++ D ++ R`, `src = Sd ++ B ++ Sr`: `A` merged prefix, `D` the `dup` duplicates already skipped in `trg`, `R` the rest of
`trg`; `Sd` consumed part of `src`, `B` the `count` pending entries of the current block, `Sr` the rest.
-/
namespace LyModel.XPath.Set

abbrev Sorted (l : List Nat) : Prop := l.Pairwise (· < ·)

structure Inv (s T0 : List Nat) (st : MState) (A D R Sd B Sr T0d : List Nat) : Prop where
  ht : st.t = A ++ (D ++ R)
  hs : s = Sd ++ (B ++ Sr)
  hT0 : T0 = T0d ++ (D ++ R)
  hj : st.j = A.length + D.length
  hdup : st.dup = D.length
  hi : st.i = Sd.length + B.length
  hcount : st.count = B.length
  hmem : ∀ x, x ∈ A ↔ x ∈ Sd ∨ x ∈ T0d
  hA : Sorted A
  hAS : ∀ a ∈ A, ∀ y ∈ B ++ Sr, a < y
  hAT : ∀ a ∈ A, ∀ y ∈ D ++ R, a < y
  hDB : ∀ x ∈ D, x ∈ B
  hBR : ∀ b ∈ B, ∀ y ∈ R, b < y
  hDlen : D.length ≤ B.length
  hlen : A.length ≤ Sd.length + T0d.length

theorem getElem?_seg (X Y Z : List Nat) : (X ++ (Y ++ Z))[X.length + Y.length]? = Z.head? := by
  rw [List.getElem?_append_right (by omega)]
  rw [List.getElem?_append_right (by omega)]
  have : X.length + Y.length - X.length - Y.length = 0 := by omega
  rw [this]
  cases Z <;> simp

theorem take_seg (A D R : List Nat) : (A ++ (D ++ R)).take (A.length + D.length - D.length) = A := by
  have : A.length + D.length - D.length = A.length := by omega
  rw [this, List.take_append_of_le_length (Nat.le_refl _), List.take_length]

theorem drop_seg (A D R : List Nat) : (A ++ (D ++ R)).drop (A.length + D.length) = R := by
  rw [← List.append_assoc]
  have : A.length + D.length = (A ++ D).length := by simp
  rw [this, List.drop_left]

theorem block_seg (Sd B Sr : List Nat) :
    ((Sd ++ (B ++ Sr)).drop (Sd.length + B.length - B.length)).take B.length = B := by
  have : Sd.length + B.length - B.length = Sd.length := by omega
  rw [this, List.drop_left, List.take_left]

theorem sorted_append {X Y : List Nat} : Sorted (X ++ Y) ↔ Sorted X ∧ Sorted Y ∧ ∀ a ∈ X, ∀ b ∈ Y, a < b :=
  List.pairwise_append

/-- measure that decreases with every iteration of the loop -/
def mu (s : List Nat) (st : MState) : Nat :=
  2 * ((s.length - st.i) + (st.t.length - st.j)) + (if st.count > 0 then 1 else 0)

theorem inv_mu {s T0 : List Nat} {st : MState} {A D R Sd B Sr T0d : List Nat} (h : Inv s T0 st A D R Sd B Sr T0d) :
    mu s st = 2 * (Sr.length + R.length) + (if B.length > 0 then 1 else 0) := by
  unfold mu
  rw [h.hi, h.hj, h.hcount, h.ht, h.hs]
  simp only [List.length_append]
  have e1 : Sd.length + (B.length + Sr.length) - (Sd.length + B.length) = Sr.length := by omega
  have e2 : A.length + (D.length + R.length) - (A.length + D.length) = R.length := by omega
  rw [e1, e2]

/-- the block copy re-establishes the invariant with an empty pending block -/
theorem copy_inv {s T0 : List Nat} {st : MState} {A D R Sd B Sr T0d : List Nat}
    (hsS : Sorted s) (h : Inv s T0 st A D R Sd B Sr T0d) :
    ∃ st', copyNodes (T0.length + s.length) s st = some st' ∧
      Inv s T0 st' (A ++ B) [] R (Sd ++ B) [] Sr (T0d ++ D) ∧ st'.t = A ++ (B ++ R) := by
  have hsplit := h.hs ▸ hsS
  have hsB : Sorted B := (sorted_append.mp (sorted_append.mp hsplit).2.1).1
  have hBSr : ∀ b ∈ B, ∀ y ∈ Sr, b < y := (sorted_append.mp (sorted_append.mp hsplit).2.1).2.2
  have hcap : st.t.length + (st.count - st.dup) ≤ T0.length + s.length := by
    rw [h.ht, h.hcount, h.hdup, h.hT0, h.hs]
    simp only [List.length_append]
    have := h.hlen; have := h.hDlen
    omega
  have hcond : st.dup ≤ st.j ∧ st.dup ≤ st.count ∧ st.count ≤ st.i ∧ st.j ≤ st.t.length ∧ st.i ≤ s.length ∧
      st.t.length + (st.count - st.dup) ≤ T0.length + s.length := by
    refine ⟨?_, ?_, ?_, ?_, ?_, hcap⟩
    · rw [h.hdup, h.hj]; omega
    · rw [h.hdup, h.hcount]; exact h.hDlen
    · rw [h.hcount, h.hi]; omega
    · rw [h.hj, h.ht]; simp only [List.length_append]; omega
    · rw [h.hi, h.hs]; simp only [List.length_append]; omega
  refine ⟨_, by rw [copyNodes, if_pos hcond], ?_, ?_⟩
  · have et : st.t.take (st.j - st.dup) ++ ((s.drop (st.i - st.count)).take st.count ++ st.t.drop st.j) = A ++ (B ++ R) := by
      rw [h.ht, h.hj, h.hdup, h.hi, h.hcount, take_seg, drop_seg]
      conv => lhs; rw [h.hs, block_seg]
    constructor
    · simp only; rw [et]; simp
    · rw [h.hs]; simp
    · rw [h.hT0]; simp
    · simp only; rw [h.hj, h.hcount, h.hdup]; simp only [List.length_append, List.length_nil]; have := h.hDlen; omega
    · rfl
    · simp only; rw [h.hi]; simp
    · rfl
    · intro x
      simp only [List.mem_append]
      rw [h.hmem]
      constructor
      · rintro ((h1 | h1) | h1)
        · exact Or.inl (Or.inl h1)
        · exact Or.inr (Or.inl h1)
        · exact Or.inl (Or.inr h1)
      · rintro ((h1 | h1) | (h1 | h1))
        · exact Or.inl (Or.inl h1)
        · exact Or.inr h1
        · exact Or.inl (Or.inr h1)
        · exact Or.inr (h.hDB x h1)
    · rw [sorted_append]
      exact ⟨h.hA, hsB, fun a ha b hb => h.hAS a ha b (List.mem_append_left _ hb)⟩
    · intro a ha y hy
      simp only [List.nil_append] at hy
      rcases List.mem_append.mp ha with ha | ha
      · exact h.hAS a ha y (List.mem_append_right _ hy)
      · exact hBSr a ha y hy
    · intro a ha y hy
      simp only [List.nil_append] at hy
      rcases List.mem_append.mp ha with ha | ha
      · exact h.hAT a ha y (List.mem_append_right _ hy)
      · exact h.hBR a ha y hy
    · intro x hx; cases hx
    · intro b hb; cases hb
    · simp
    · simp only [List.length_append]; have := h.hlen; have := h.hDlen; omega
  · simp only
    rw [h.ht, h.hj, h.hdup, h.hi, h.hcount, take_seg, drop_seg]
    conv => lhs; rw [h.hs, block_seg]

/-- arithmetic fields of the invariant after a step -/
local macro "numfld " h:ident : tactic => `(tactic| (
  have h1 := ($h).hj; have h2 := ($h).hdup; have h3 := ($h).hi; have h4 := ($h).hcount; have h5 := ($h).hDlen
  have h6 := ($h).hlen
  (try simp only [List.length_append, List.length_cons, List.length_nil, List.length_singleton] at *) <;> omega))

/-- one loop iteration preserves the invariant (for some new segmentation) and decreases the measure -/
theorem step_inv {s T0 : List Nat} {st : MState} {A D R Sd B Sr T0d : List Nat}
    (hsS : Sorted s) (hTS : Sorted T0) (h : Inv s T0 st A D R Sd B Sr T0d) (hSr : Sr ≠ []) (hR : R ≠ []) :
    ∃ st' A' D' R' Sd' B' Sr' T0d', step (T0.length + s.length) s st = some st' ∧
      Inv s T0 st' A' D' R' Sd' B' Sr' T0d' ∧ mu s st' < mu s st := by
  obtain ⟨a, Sr1, rfl⟩ := List.exists_cons_of_ne_nil hSr
  obtain ⟨b, R1, rfl⟩ := List.exists_cons_of_ne_nil hR
  have hsa : s[st.i]? = some a := by rw [h.hi, h.hs, getElem?_seg]; rfl
  have htb : st.t[st.j]? = some b := by rw [h.hj, h.ht, getElem?_seg]; rfl
  have hsplit := h.hs ▸ hsS
  have hS2 := (sorted_append.mp hsplit).2.1          -- Sorted (B ++ a :: Sr1)
  have hBa : ∀ x ∈ B, x < a := fun x hx => (sorted_append.mp hS2).2.2 x hx a (by simp)
  have haSr : ∀ y ∈ Sr1, a < y := fun y hy => (List.pairwise_cons.mp (sorted_append.mp hS2).2.1).1 y hy
  have hTsplit := h.hT0 ▸ hTS
  have hT2 := (sorted_append.mp hTsplit).2.1         -- Sorted (D ++ b :: R1)
  have hbR : ∀ y ∈ R1, b < y := fun y hy => (List.pairwise_cons.mp (sorted_append.mp hT2).2.1).1 y hy
  have hDb : ∀ x ∈ D, x < b := fun x hx => (sorted_append.mp hT2).2.2 x hx b (by simp)
  have hmu := inv_mu h
  unfold step
  rw [hsa, htb]
  simp only
  by_cases hab : a = b
  · subst hab
    simp only [beq_self_eq_true, if_true]
    by_cases hc : st.count = 0
    · -- duplicate outside a block: skip it in both arrays
      have hB : B = [] := List.length_eq_zero_iff.mp (by rw [← h.hcount]; exact hc)
      have hD : D = [] := List.length_eq_zero_iff.mp (by have := h.hDlen; rw [hB] at this; simpa using this)
      subst hB; subst hD
      simp only [hc, beq_self_eq_true, if_true]
      refine ⟨_, A ++ [a], [], R1, Sd ++ [a], [], Sr1, T0d ++ [a], rfl, ?_, ?_⟩
      · constructor
        · simp only; rw [h.ht]; simp
        · rw [h.hs]; simp
        · rw [h.hT0]; simp
        · numfld h
        · numfld h
        · numfld h
        · numfld h
        · intro x; simp only [List.mem_append, List.mem_singleton]; rw [h.hmem]
          constructor
          · rintro ((h1 | h1) | h1)
            · exact Or.inl (Or.inl h1)
            · exact Or.inr (Or.inl h1)
            · exact Or.inl (Or.inr h1)
          · rintro ((h1 | h1) | (h1 | h1))
            · exact Or.inl (Or.inl h1)
            · exact Or.inr h1
            · exact Or.inl (Or.inr h1)
            · exact Or.inr h1
        · rw [sorted_append]
          refine ⟨h.hA, List.pairwise_singleton _ _, ?_⟩
          intro x hx y hy; rw [List.mem_singleton.mp hy]; exact h.hAT x hx a (by simp)
        · intro x hx y hy
          simp only [List.nil_append] at hy
          rcases List.mem_append.mp hx with hx | hx
          · exact h.hAS x hx y (by simp [hy])
          · rw [List.mem_singleton.mp hx]; exact haSr y hy
        · intro x hx y hy
          simp only [List.nil_append] at hy
          rcases List.mem_append.mp hx with hx | hx
          · exact h.hAT x hx y (by simp [hy])
          · rw [List.mem_singleton.mp hx]; exact hbR y hy
        · intro x hx; cases hx
        · intro x hx; cases hx
        · simp
        · simp only [List.length_append, List.length_singleton]; have := h.hlen; omega
      · rw [hmu]
        unfold mu
        simp only [hc]
        rw [h.hi, h.hj, h.ht, h.hs]
        simp only [List.length_append, List.length_cons, List.length_nil]
        omega
    · -- duplicate inside a block: it joins the block
      have hc' : ¬ (st.count == 0) = true := by simpa using hc
      simp only [hc', if_false, Bool.false_eq_true]
      refine ⟨_, A, D ++ [a], R1, Sd, B ++ [a], Sr1, T0d, rfl, ?_, ?_⟩
      · constructor
        · simp only; rw [h.ht]; simp
        · rw [h.hs]; simp
        · rw [h.hT0]; simp
        · numfld h
        · numfld h
        · numfld h
        · numfld h
        · exact h.hmem
        · exact h.hA
        · intro x hx y hy
          apply h.hAS x hx y
          have e : (B ++ [a]) ++ Sr1 = B ++ a :: Sr1 := by simp
          rw [e] at hy; exact hy
        · intro x hx y hy
          apply h.hAT x hx y
          have e : (D ++ [a]) ++ R1 = D ++ a :: R1 := by simp
          rw [e] at hy; exact hy
        · intro x hx
          rcases List.mem_append.mp hx with hx | hx
          · exact List.mem_append_left _ (h.hDB x hx)
          · exact List.mem_append_right _ hx
        · intro x hx y hy
          rcases List.mem_append.mp hx with hx | hx
          · exact h.hBR x hx y (by simp [hy])
          · rw [List.mem_singleton.mp hx]; exact hbR y hy
        · simp only [List.length_append, List.length_singleton]; have := h.hDlen; omega
        · exact h.hlen
      · rw [hmu]
        unfold mu
        simp only
        rw [h.hi, h.hj, h.ht, h.hs, h.hcount]
        simp only [List.length_append, List.length_cons, List.length_nil]
        have : B.length > 0 := by rw [← h.hcount]; omega
        simp only [this, if_true]
        have : B.length + 1 > 0 := by omega
        simp only [this, if_true]
        omega
  · have hab' : ¬ (a == b) = true := by simpa using hab
    simp only [hab', if_false, Bool.false_eq_true]
    by_cases hlt : a < b
    · -- src entry goes before trg[j]: it joins the block
      simp only [hlt, if_true]
      refine ⟨_, A, D, b :: R1, Sd, B ++ [a], Sr1, T0d, rfl, ?_, ?_⟩
      · constructor
        · exact h.ht
        · rw [h.hs]; simp
        · exact h.hT0
        · exact h.hj
        · exact h.hdup
        · numfld h
        · numfld h
        · exact h.hmem
        · exact h.hA
        · intro x hx y hy
          apply h.hAS x hx y
          have e : (B ++ [a]) ++ Sr1 = B ++ a :: Sr1 := by simp
          rw [e] at hy; exact hy
        · exact h.hAT
        · intro x hx; exact List.mem_append_left _ (h.hDB x hx)
        · intro x hx y hy
          rcases List.mem_append.mp hx with hx | hx
          · exact h.hBR x hx y hy
          · rw [List.mem_singleton.mp hx]
            rcases List.mem_cons.mp hy with rfl | hy
            · exact hlt
            · exact Nat.lt_trans hlt (hbR y hy)
        · simp only [List.length_append, List.length_singleton]; have := h.hDlen; omega
        · exact h.hlen
      · rw [hmu]
        unfold mu
        simp only
        rw [h.hi, h.hj, h.ht, h.hs, h.hcount]
        simp only [List.length_append, List.length_cons, List.length_nil]
        have : B.length + 1 > 0 := by omega
        simp only [this, if_true]
        split <;> omega
    · simp only [hlt, if_false]
      by_cases hc : st.count > 0
      · -- copy the block in front of trg[j]
        simp only [hc, if_true]
        obtain ⟨st', hcopy, hinv, ht'⟩ := copy_inv hsS h
        refine ⟨st', _, _, _, _, _, _, _, hcopy, hinv, ?_⟩
        rw [hmu, inv_mu hinv]
        have : B.length > 0 := by rw [← h.hcount]; exact hc
        simp [this]
      · -- trg[j] stays where it is
        simp only [hc, if_false]
        have hB : B = [] := List.length_eq_zero_iff.mp (by rw [← h.hcount]; omega)
        have hD : D = [] := List.length_eq_zero_iff.mp (by have := h.hDlen; rw [hB] at this; simpa using this)
        subst hB; subst hD
        have hba : b < a := by omega
        refine ⟨_, A ++ [b], [], R1, Sd, [], a :: Sr1, T0d ++ [b], rfl, ?_, ?_⟩
        · constructor
          · simp only; rw [h.ht]; simp
          · exact h.hs
          · rw [h.hT0]; simp
          · numfld h
          · exact h.hdup
          · exact h.hi
          · exact h.hcount
          · intro x; simp only [List.mem_append, List.mem_singleton]; rw [h.hmem]
            constructor
            · rintro ((h1 | h1) | h1)
              · exact Or.inl h1
              · exact Or.inr (Or.inl h1)
              · exact Or.inr (Or.inr h1)
            · rintro (h1 | (h1 | h1))
              · exact Or.inl (Or.inl h1)
              · exact Or.inl (Or.inr h1)
              · exact Or.inr h1
          · rw [sorted_append]
            refine ⟨h.hA, List.pairwise_singleton _ _, ?_⟩
            intro x hx y hy; rw [List.mem_singleton.mp hy]; exact h.hAT x hx b (by simp)
          · intro x hx y hy
            simp only [List.nil_append] at hy
            rcases List.mem_append.mp hx with hx | hx
            · exact h.hAS x hx y (by simpa using hy)
            · rw [List.mem_singleton.mp hx]
              rcases List.mem_cons.mp hy with rfl | hy
              · exact hba
              · exact Nat.lt_trans hba (haSr y hy)
          · intro x hx y hy
            simp only [List.nil_append] at hy
            rcases List.mem_append.mp hx with hx | hx
            · exact h.hAT x hx y (by simp [hy])
            · rw [List.mem_singleton.mp hx]; exact hbR y hy
          · intro x hx; cases hx
          · intro x hx; cases hx
          · simp
          · simp only [List.length_append, List.length_singleton]; have := h.hlen; omega
        · rw [hmu]
          unfold mu
          simp only
          rw [h.hi, h.hj, h.ht, h.hs, h.hcount]
          simp only [List.length_append, List.length_cons, List.length_nil]
          omega

theorem inv_i_lt {s T0 : List Nat} {st : MState} {A D R Sd B Sr T0d : List Nat} (h : Inv s T0 st A D R Sd B Sr T0d) :
    st.i < s.length ↔ Sr ≠ [] := by
  rw [h.hi, h.hs]
  simp only [List.length_append]
  cases Sr <;> simp

theorem inv_j_lt {s T0 : List Nat} {st : MState} {A D R Sd B Sr T0d : List Nat} (h : Inv s T0 st A D R Sd B Sr T0d) :
    st.j < st.t.length ↔ R ≠ [] := by
  rw [h.hj, h.ht]
  simp only [List.length_append]
  cases R <;> simp

/-- the `do … while ((i < src->used) && (j < trg->used))` loop terminates within the fuel, keeps the invariant, and stops
with one of the two arrays exhausted -/
theorem loop_spec {s T0 : List Nat} (hsS : Sorted s) (hTS : Sorted T0) :
    ∀ (f : Nat) (st : MState) (A D R Sd B Sr T0d : List Nat), Inv s T0 st A D R Sd B Sr T0d → Sr ≠ [] → R ≠ [] →
      mu s st < f →
      ∃ st' A' D' R' Sd' B' Sr' T0d', loop (T0.length + s.length) s f st = some st' ∧
        Inv s T0 st' A' D' R' Sd' B' Sr' T0d' ∧ (Sr' = [] ∨ R' = []) := by
  intro f
  induction f with
  | zero => intro st A D R Sd B Sr T0d _ _ _ hmu; omega
  | succ f ih =>
    intro st A D R Sd B Sr T0d h hSr hR hmu
    obtain ⟨st', A', D', R', Sd', B', Sr', T0d', hstep, hinv, hdec⟩ := step_inv hsS hTS h hSr hR
    rw [loop, hstep]
    simp only
    by_cases hc : (decide (st'.i < s.length) && decide (st'.j < st'.t.length)) = true
    · rw [if_pos hc]
      simp only [Bool.and_eq_true, decide_eq_true_eq] at hc
      exact ih st' A' D' R' Sd' B' Sr' T0d' hinv ((inv_i_lt hinv).mp hc.1) ((inv_j_lt hinv).mp hc.2) (by omega)
    · rw [if_neg hc]
      refine ⟨st', A', D', R', Sd', B', Sr', T0d', rfl, hinv, ?_⟩
      simp only [Bool.and_eq_true, decide_eq_true_eq] at hc
      by_cases he : Sr' = []
      · exact Or.inl he
      · right
        by_cases he2 : R' = []
        · exact he2
        · exact absurd ⟨(inv_i_lt hinv).mpr he, (inv_j_lt hinv).mpr he2⟩ hc

/-- with nothing pending the array is the sorted duplicate-free union -/
theorem inv_final {s T0 : List Nat} {st : MState} {A R Sd T0d : List Nat} (hTS : Sorted T0)
    (h : Inv s T0 st A [] R Sd [] [] T0d) :
    Sorted (A ++ R) ∧ ∀ x, x ∈ A ++ R ↔ x ∈ T0 ∨ x ∈ s := by
  have hT := h.hT0 ▸ hTS
  simp only [List.nil_append] at hT
  constructor
  · rw [sorted_append]
    exact ⟨h.hA, (sorted_append.mp hT).2.1, fun a ha b hb => h.hAT a ha b (by simpa using hb)⟩
  · intro x
    rw [List.mem_append, h.hmem, h.hT0, h.hs]
    simp only [List.nil_append, List.append_nil, List.mem_append]
    constructor
    · rintro ((h1 | h1) | h1)
      · exact Or.inr h1
      · exact Or.inl (Or.inl h1)
      · exact Or.inl (Or.inr h1)
    · rintro ((h1 | h1) | h1)
      · exact Or.inl (Or.inr h1)
      · exact Or.inr h1
      · exact Or.inl (Or.inl h1)

/-- `set_sorted_merge` on sorted duplicate-free sets: no index leaves the allocation (`some`), the result is the sorted
duplicate-free union -/
theorem sortedMerge_spec (t s : List Nat) (hTS : Sorted t) (hsS : Sorted s) :
    ∃ r, sortedMerge t s = some r ∧ Sorted r ∧ ∀ x, x ∈ r ↔ x ∈ t ∨ x ∈ s := by
  unfold sortedMerge
  by_cases hs : s = []
  · subst hs; exact ⟨t, by simp, hTS, by simp⟩
  · by_cases ht : t = []
    · subst ht
      have : s.isEmpty = false := by cases s <;> simp_all
      exact ⟨s, by simp [this], hsS, by simp⟩
    · have hs' : s.isEmpty = false := by cases s <;> simp_all
      have ht' : t.isEmpty = false := by cases t <;> simp_all
      simp only [hs', ht', Bool.false_eq_true, if_false]
      have hinit : Inv s t { t := t, i := 0, j := 0, count := 0, dup := 0 } [] [] t [] [] s [] := by
        constructor <;> simp
      obtain ⟨st, A, D, R, Sd, B, Sr, T0d, hloop, hinv, hend⟩ :=
        loop_spec hsS hTS (2 * (t.length + s.length) + 2) _ [] [] t [] [] s [] hinit hs ht (by
          unfold mu; simp only [List.length_nil]; simp; omega)
      rw [hloop]
      simp only
      by_cases hc : (decide (st.i < s.length) || decide (st.count > 0)) = true
      · rw [if_pos hc]
        -- the rest of `src` joins the pending block, which is copied to the end / in front of the rest of `trg`
        have hinv2 : Inv s t { st with count := st.count + (s.length - st.i), i := s.length } A D R Sd (B ++ Sr) [] T0d := by
          have hB : ∀ b ∈ Sr, ∀ y ∈ R, b < y := by
            rcases hend with he | he
            · subst he; intro b hb; cases hb
            · subst he; intro b _ y hy; cases hy
          constructor
          · exact hinv.ht
          · rw [hinv.hs]; simp
          · exact hinv.hT0
          · exact hinv.hj
          · exact hinv.hdup
          · simp only; rw [hinv.hs]; simp <;> omega
          · simp only; rw [hinv.hcount, hinv.hi, hinv.hs]; simp <;> omega
          · exact hinv.hmem
          · exact hinv.hA
          · intro a ha y hy; exact hinv.hAS a ha y (by simpa using hy)
          · exact hinv.hAT
          · intro x hx; exact List.mem_append_left _ (hinv.hDB x hx)
          · intro b hb y hy
            rcases List.mem_append.mp hb with hb | hb
            · exact hinv.hBR b hb y hy
            · exact hB b hb y hy
          · simp only [List.length_append]; have := hinv.hDlen; omega
          · exact hinv.hlen
        obtain ⟨st', hcopy, hinv3, ht3⟩ := copy_inv hsS hinv2
        rw [hcopy]
        refine ⟨st'.t, rfl, ?_⟩
        have := inv_final hTS hinv3
        rw [hinv3.ht]
        simpa using this
      · rw [if_neg hc]
        simp only [Bool.or_eq_true, decide_eq_true_eq, not_or] at hc
        have hSr : Sr = [] := by
          by_cases he : Sr = []
          · exact he
          · exact absurd ((inv_i_lt hinv).mpr he) hc.1
        have hB : B = [] := List.length_eq_zero_iff.mp (by rw [← hinv.hcount]; omega)
        have hD : D = [] := List.length_eq_zero_iff.mp (by have := hinv.hDlen; rw [hB] at this; simpa using this)
        subst hSr; subst hB; subst hD
        refine ⟨st.t, rfl, ?_⟩
        have := inv_final hTS hinv
        rw [hinv.ht]
        simpa using this

end LyModel.XPath.Set
