import LyModel.XPath.LemmasEval
import LyModel.XPath.LemmasComp
import LyModel.Val.LemmasIdent
import LyModel.XsdRe.Lemmas
/-! helper lemmas for `Props/C08Yang.lean`: the RFC 7950 §10 functions of the XPath engine and the canonising comparison -/
namespace LyModel.XPath
open LyModel

section
variable {N : Type} [XNum N]

/-! ## the dispatch of `callFn` on the function names (string literals) -/
theorem callFn_derived_from (env : Env) (cx : Cx) (l : List Ref) (s : Value N) :
    callFn env cx "derived-from" [.ns l, s] = derivedFn env false l (s.toStr env) := by
  simp [callFn, callYang]

theorem callFn_derived_from_or_self (env : Env) (cx : Cx) (l : List Ref) (s : Value N) :
    callFn env cx "derived-from-or-self" [.ns l, s] = derivedFn env true l (s.toStr env) := by
  simp [callFn, callYang]

theorem callFn_enum_value (env : Env) (cx : Cx) (l : List Ref) :
    callFn (N := N) env cx "enum-value" [.ns l] =
      .ok (.num (match Yang.enumValue env.facts env.doc l with | some i => XNum.ofInt i | none => XNum.nan)) := by
  simp [callFn, callYang, pure, Except.pure]
  rfl

theorem callFn_re_match (env : Env) (cx : Cx) (a b : Value N) :
    callFn env cx "re-match" [a, b] =
      (match Yang.reMatch (a.toStr env) (b.toStr env) with | some r => .ok (.bool r) | none => .error .valid) := by
  simp [callFn, callYang, pure, Except.pure, throw, throwThe, MonadExceptOf.throw]
  rfl

theorem callFn_deref (env : Env) (cx : Cx) (l : List Ref) :
    callFn (N := N) env cx "deref" [.ns l] = derefAny env l := by
  simp [callFn, callYang]

theorem callFn_current (env : Env) (cx : Cx) : callFn (N := N) env cx "current" [] = .ok (.ns [env.cur]) := by
  simp [callFn, callYang, callCore, pure, Except.pure]

theorem callFn_bit_is_set (env : Env) (cx : Cx) (l : List Ref) (b : Value N) :
    callFn env cx "bit-is-set" [.ns l, b] = .ok (.bool (Yang.bitIsSet env.doc l (b.toStr env))) := by
  simp only [callFn, callYang, callCore, Yang.bitIsSet]
  cases l with
  | nil => rfl
  | cons x r => simp only []; cases env.doc.elem? x <;> rfl

/-! ## derived-from -/
theorem derivedAny_iff (f : Facts) (hwf : f.idctx.WF) (d : Doc) (self : Bool) (id : Yang.Idn) (l : List Ref) :
    Yang.derivedAny f d self id l = true ↔
      ∃ x ∈ l, ∃ e, d.elem? x = some e ∧ e.term = true ∧ e.btype = "identityref".toUTF8.toList ∧
        ((self = true ∧ id = Yang.identOfValue e.mod e.value) ∨ Val.Ident.Derived f.idctx id (Yang.identOfValue e.mod e.value)) := by
  unfold Yang.derivedAny
  rw [List.any_eq_true]
  constructor
  · rintro ⟨x, hx, h⟩
    refine ⟨x, hx, ?_⟩
    cases he : d.elem? x with
    | none => simp [he] at h
    | some e =>
      simp only [he, Yang.elemDerived, Bool.and_eq_true, Bool.or_eq_true, beq_iff_eq] at h
      refine ⟨e, rfl, h.1.1, h.1.2, ?_⟩
      rcases h.2 with h2 | h2
      · exact Or.inl h2
      · exact Or.inr ((Val.Ident.isDerived_iff' hwf _ _).mp h2)
  · rintro ⟨x, hx, e, he, ht, hb, h⟩
    refine ⟨x, hx, ?_⟩
    simp only [he, Yang.elemDerived, Bool.and_eq_true, Bool.or_eq_true, beq_iff_eq]
    refine ⟨⟨ht, hb⟩, ?_⟩
    rcases h with h | h
    · exact Or.inl h
    · exact Or.inr ((Val.Ident.isDerived_iff' hwf _ _).mpr h)

/-! ## enum-value -/
theorem enumValue_eq_some (f : Facts) (d : Doc) (l : List Ref) (v : Int) :
    Yang.enumValue f d l = some v ↔
      ∃ x rest e items, l = x :: rest ∧ d.elem? x = some e ∧ e.term = true ∧
        f.enums.lookup (d.spath x) = some items ∧ items.lookup e.value = some v := by
  cases l with
  | nil => simp [Yang.enumValue]
  | cons x rest =>
    constructor
    · intro h
      simp only [Yang.enumValue] at h
      cases he : d.elem? x with
      | none => simp [he] at h
      | some e =>
        simp only [he] at h
        cases ht : e.term with
        | false => simp [ht] at h
        | true =>
          simp only [ht, if_true] at h
          cases hl : f.enums.lookup (d.spath x) with
          | none => simp [hl] at h
          | some items =>
            simp only [hl, Option.bind_some] at h
            exact ⟨x, rest, e, items, rfl, he, ht, hl, h⟩
    · rintro ⟨x', rest', e, items, hl0, he, ht, hl, h⟩
      cases hl0
      simp [Yang.enumValue, he, ht, hl, h]

/-! ## deref -/
theorem derefFn_leafref (env : Env) (x : Ref) (rest ts : List Ref) (h : env.leafrefTargets x = some ts) :
    derefFn (N := N) env (x :: rest) =
      if env.q.derefErr && ts.isEmpty then .error .inval else .ok (.ns (env.norm ts)) := by
  simp only [derefFn, h]
  split <;> rfl

/-! ## a leafref path is a location path -/
theorem norm_flatMap_rev (env : Env) (ax : Axis) (t : Test) (s : List Ref) :
    env.norm (s.flatMap fun c => if ax.isReverse = true then (env.candidates ax t c).reverse else env.candidates ax t c) =
      env.norm (s.flatMap (env.candidates ax t)) := by
  unfold Env.norm mkNs
  apply List.filter_congr
  intro x _
  simp only [List.contains_eq_mem, List.mem_flatMap, decide_eq_decide]
  constructor
  · rintro ⟨c, hc, hx⟩; refine ⟨c, hc, ?_⟩; split at hx <;> simpa using hx
  · rintro ⟨c, hc, hx⟩; refine ⟨c, hc, ?_⟩; split <;> simpa using hx

/-- a leafref path (`Env.walk`) is evaluated exactly like the same predicate-free location path inside an expression -/
theorem walk_eq_evalSteps (env : Env) (hq : env.q.predMerged = false) (steps : List (Axis × Test)) :
    ∀ s, evalSteps (N := N) env (steps.map fun p => .mk p.1 p.2 []) s = .ok (env.walk steps s) := by
  induction steps with
  | nil => intro s; rfl
  | cons p rest ih =>
    intro s
    obtain ⟨ax, t⟩ := p
    simp only [List.map_cons, Env.walk]
    rw [evalSteps]
    simp only [hq, Bool.false_eq_true, if_false]
    have h1 : (fun c => evalPreds (N := N) env [] (if ax.isReverse = true then (env.candidates ax t c).reverse else env.candidates ax t c)) =
        (fun c => (pure (if ax.isReverse = true then (env.candidates ax t c).reverse else env.candidates ax t c) : Except Err (List Ref))) := by
      funext c; rw [evalPreds]
    rw [h1, mapM'_pure]
    simp only [bind, Except.bind, pure, Except.pure]
    rw [norm_flatMap_rev]
    exact ih _

/-! ## canonising comparison -/
theorem compare_canon_single (env : Env) (hq : env.q.canonStr = true) (x : Ref) (s : Bytes) :
    compare (N := N) env .eq (.ns [x]) (.str s) = (env.strValue x == env.canonFor x s) := by
  simp [compare, hq, Value.toOpndZ, Comp.CZ.opComp, Comp.CZ.nsScalar, Comp.CZ.canonOpnd, Comp.C.itemCast, Comp.C.tyOf, Comp.C.cast,
    Comp.C.scalarComp, Comp.isEqNe, Comp.cmpStr]
  by_cases h : env.strValue x = env.canonFor x s <;> simp [h]

theorem compare_nocanon_single (env : Env) (hq : env.q.canonStr = false) (hb : env.q.nsBool = false) (x : Ref) (s : Bytes) :
    compare (N := N) env .eq (.ns [x]) (.str s) = (env.strValue x == s) := by
  simp [compare, hq, hb, Value.toOpnd, Comp.Spec.compare, Comp.Spec.cmpAtom, Comp.isEqNe, Comp.cmpStr, Comp.Spec.toStr]

/-- with identity canonisers the canonising loop is the plain one -/
theorem CZ_nsScalar_id (c : Comp.Cfg) (op : BinOp) (l : List Bytes) (o : Comp.Opnd N) (sw : Bool) :
    Comp.CZ.nsScalar c op (l.map fun s => ⟨s, fun t => t⟩) o sw = Comp.C.nsScalar c op l o sw := by
  induction l generalizing o with
  | nil => rfl
  | cons a r ih =>
    have hc : Comp.CZ.canonOpnd (N := N) (fun t => t) o = o := by cases o <;> rfl
    simp only [List.map_cons, Comp.CZ.nsScalar, Comp.C.nsScalar, hc]
    cases sw <;> simp only [Bool.false_eq_true, if_false, if_true] <;> split <;> first | rfl | exact ih _

theorem CZ_nsNs_id (c : Comp.Cfg) (op : BinOp) (l1 l2 : List Bytes) :
    Comp.CZ.nsNs (N := N) c op (l1.map fun s => ⟨s, fun t => t⟩) (l2.map fun s => ⟨s, fun t => t⟩) = Comp.C.nsNs (N := N) c op l1 l2 := by
  induction l1 with
  | nil => rfl
  | cons a r ih => simp only [List.map_cons, Comp.CZ.nsNs, Comp.C.nsNs, CZ_nsScalar_id, ih]

end
end LyModel.XPath
