import LyModel.XPath.Canon
/-!
Lemmas for `parse_render_roundtrip` on the token level: the recursive descent of `Parse.lean` run on `Render.rtoks e`
gives back `e`.
-/
namespace LyModel.XPath.LemmasParse
open LyModel LyModel.Generated LyModel.XPath.Lex LyModel.XPath.Parse LyModel.XPath.Render LyModel.XPath.Canon

/-! ### operators -/

theorem opAt_opTok (q : Nat) (op : BinOp) : opAt q (opTok op) = if q = opLevel op then some op else none := by
  cases op <;> (unfold opAt; split <;> simp_all [opTok, opLevel, XpConsts.orLoopLen, XpConsts.andLoopLen])

theorem opAt_par2 (q : Nat) : opAt q tPar2 = none := by unfold opAt; split <;> simp_all [tPar2]
theorem opAt_brack2 (q : Nat) : opAt q tBrack2 = none := by unfold opAt; split <;> simp_all [tBrack2]
theorem opAt_comma (q : Nat) : opAt q tComma = none := by unfold opAt; split <;> simp_all [tComma]

/-- what may follow an operand written at level `lvl`: nothing, a closing token, or an operator of a lower level -/
def Follow (lvl : Nat) (rest : List PT) : Prop :=
  ∀ t r, rest = t :: r → t = tPar2 ∨ t = tBrack2 ∨ t = tComma ∨ ∃ op, t = opTok op ∧ opLevel op < lvl

theorem Follow.mono {a b : Nat} {rest : List PT} (h : Follow a rest) (hab : a ≤ b) : Follow b rest := by
  intro t r e
  rcases h t r e with h | h | h | ⟨op, h1, h2⟩
  · exact Or.inl h
  · exact Or.inr (Or.inl h)
  · exact Or.inr (Or.inr (Or.inl h))
  · exact Or.inr (Or.inr (Or.inr ⟨op, h1, by omega⟩))

theorem Follow.nil (a : Nat) : Follow a [] := by intro t r e; cases e
theorem Follow.par2 (a : Nat) (r : List PT) : Follow a (tPar2 :: r) := by
  intro t r e; simp only [List.cons.injEq] at e; exact Or.inl e.1.symm
theorem Follow.brack2 (a : Nat) (r : List PT) : Follow a (tBrack2 :: r) := by
  intro t r e; simp only [List.cons.injEq] at e; exact Or.inr (Or.inl e.1.symm)
theorem Follow.comma (a : Nat) (r : List PT) : Follow a (tComma :: r) := by
  intro t r e; simp only [List.cons.injEq] at e; exact Or.inr (Or.inr (Or.inl e.1.symm))
theorem Follow.op (a : Nat) (op : BinOp) (r : List PT) (h : opLevel op < a) : Follow a (opTok op :: r) := by
  intro t r e; simp only [List.cons.injEq] at e; exact Or.inr (Or.inr (Or.inr ⟨op, e.1.symm, h⟩))

/-- the head of what follows is no operator of level `q ≥ lvl` -/
theorem Follow.opAt_none {lvl q : Nat} {t : PT} {r : List PT} (h : Follow lvl (t :: r)) (hq : lvl ≤ q) : opAt q t = none := by
  rcases h t r rfl with h | h | h | ⟨op, h1, h2⟩
  · subst h; exact opAt_par2 q
  · subst h; exact opAt_brack2 q
  · subst h; exact opAt_comma q
  · subst h1; rw [opAt_opTok]; split
    · omega
    · rfl

/-- kind of the head of what follows -/
theorem Follow.kind {lvl : Nat} {t : PT} {r : List PT} (h : Follow lvl (t :: r)) :
    t.1 = .par2 ∨ t.1 = .brack2 ∨ t.1 = .comma ∨ t.1 = .operLog ∨ t.1 = .operEqual ∨ t.1 = .operNequal ∨ t.1 = .operComp ∨
    t.1 = .operMath ∨ t.1 = .operUni := by
  rcases h t r rfl with h | h | h | ⟨op, h1, _⟩
  · subst h; simp [tPar2]
  · subst h; simp [tBrack2]
  · subst h; simp [tComma]
  · subst h1; cases op <;> simp [opTok]

/-- the loop of level `q` stops at what follows -/
theorem binLoop_stop {lvl q : Nat} {rest : List PT} (h : Follow lvl rest) (hq : lvl ≤ q) (f d st : Nat) (a : Expr)
    (ps : List Push) : binLoop (f + 1) q d st a ps rest = some (a, ps, rest) := by
  cases rest with
  | nil => simp [binLoop]
  | cons t r => simp [binLoop, h.opAt_none hq]

end LyModel.XPath.LemmasParse
