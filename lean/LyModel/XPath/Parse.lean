import LyModel.XPath.Ast
import LyModel.XPath.Lex
import LyModel.XPath.NumLex
/-!
# The XPath parser of libyang (`xpath.c: reparse_or_expr … reparse_path_expr`) producing the engine's AST

`reparse_*` validates the token array and fills `exp->repeat`: for the first token of every operand chain the expression
types (`enum lyxp_expr_type`) that repeat there, one entry per operator.  The evaluator (`eval_expr_select`) reads these
arrays to find out which `eval_*_expr` to enter and how many operators to consume, so the tree it evaluates is the one the
recursive descent of `reparse_*` goes through: every chain `x0 op x1 op x2 …` of one precedence level is folded to the left.
The model below is that recursive descent; it returns the tree (as the engine's `Expr`), the `exp_repeat_push` calls in the
order they are made (token index given as the number of tokens that were still unread at the first token of the chain),
and the unread tokens.

C function                          | model
------------------------------------|----------------------------------------------------------------------------------
`reparse_or_expr` (depth check)     | `orExpr`
the eight `while` loops over `or`, `and`, `= !=`, `< <= > >=`, `+ -`, `* div mod`, `\|` (in `reparse_or_expr`, `reparse_equality_expr`, `reparse_additive_expr`, `reparse_unary_expr`) | `binExpr lvl` / `binLoop lvl`, `lvl` = 1 … 6 and 8; `opAt lvl` is the loop condition
`reparse_unary_expr`, `('-')*`      | `unaryExpr` / `negLoop`
`reparse_path_expr`                 | `pathExpr`, `postP` (the `predicate:` label)
`reparse_predicate` in a loop       | `preds`
`reparse_relative_location_path`    | `relPath`, `step`, `nodeTest`
`reparse_absolute_location_path`    | `absPath`
`reparse_function_call`             | `funCall`, `args` (table `Generated.XpConsts.fnTable`)

Abbreviations are expanded as the evaluator does: `.` = `self::node()`, `..` = `parent::node()`, `@` = `attribute::`,
`//` = `/descendant-or-self::node()/`.  A variable reference `$x` has no constructor in the engine's AST; it is parsed to
the call `.fn "$" [.lit x]` of a function the engine does not have.  Structural recursion on a fuel argument that every call
decreases; `Props/C08Parse.lean` shows which fuel suffices.  Core Lean only.
-/
namespace LyModel.XPath.Parse
open LyModel LyModel.Generated LyModel.XPath.Lex

/-- kind and text of a token -/
abbrev PT := TK × Bytes
/-- one `exp_repeat_push(exp, idx, etype)`: number of unread tokens at token `idx`, `etype` -/
abbrev Push := Nat × Nat
abbrev R (α : Type) := Option (α × List Push × List PT)

/-- the loop condition of precedence level `lvl` (1 `or`, 2 `and`, 3 equality, 4 relational, 5 additive, 6 multiplicative,
8 union) and the operator the evaluator applies (`moveto_op_comp` / `moveto_op_math` look at the first bytes of the token) -/
def opAt (lvl : Nat) (t : PT) : Option BinOp :=
  match lvl, t.1 with
  | 1, .operLog => if t.2.length == XpConsts.orLoopLen then some .or else none
  | 2, .operLog => if t.2.length == XpConsts.andLoopLen then some .and else none
  | 3, .operEqual => some .eq
  | 3, .operNequal => some .ne
  | 4, .operComp =>
    if t.2.head? == some 0x3c then (if t.2.length == 1 then some .lt else some .le)
    else (if t.2.length == 1 then some .gt else some .ge)
  | 5, .operMath => if t.2.head? == some 0x2b then some .add else if t.2.head? == some 0x2d then some .sub else none
  | 6, .operMath =>
    if t.2.head? == some 0x2a then some .mul
    else if t.2.length == 3 then (if t.2.head? == some 0x64 then some .div else some .mod)
    else none
  | 8, .operUni => some .union
  | _, _ => none

/-- the `enum lyxp_expr_type` value pushed by the loop of level `lvl` -/
def etOf (lvl : Nat) : Nat :=
  match lvl with
  | 1 => XpConsts.orLoopPush | 2 => XpConsts.andLoopPush | 3 => XpConsts.etEquality | 4 => XpConsts.etRelational
  | 5 => XpConsts.etAdditive | 6 => XpConsts.etMultiplicative | _ => XpConsts.etUnion

/-- the AxisName token of an axis -/
def axisBytes : Axis → Bytes
  | .child => [99, 104, 105, 108, 100]   -- child
  | .descendant => [100, 101, 115, 99, 101, 110, 100, 97, 110, 116]   -- descendant
  | .parent => [112, 97, 114, 101, 110, 116]   -- parent
  | .ancestor => [97, 110, 99, 101, 115, 116, 111, 114]   -- ancestor
  | .followingSibling => [102, 111, 108, 108, 111, 119, 105, 110, 103, 45, 115, 105, 98, 108, 105, 110, 103]   -- following-sibling
  | .precedingSibling => [112, 114, 101, 99, 101, 100, 105, 110, 103, 45, 115, 105, 98, 108, 105, 110, 103]   -- preceding-sibling
  | .following => [102, 111, 108, 108, 111, 119, 105, 110, 103]   -- following
  | .preceding => [112, 114, 101, 99, 101, 100, 105, 110, 103]   -- preceding
  | .attribute => [97, 116, 116, 114, 105, 98, 117, 116, 101]   -- attribute
  | .self => [115, 101, 108, 102]   -- self
  | .descendantOrSelf => [100, 101, 115, 99, 101, 110, 100, 97, 110, 116, 45, 111, 114, 45, 115, 101, 108, 102]   -- descendant-or-self
  | .ancestorOrSelf => [97, 110, 99, 101, 115, 116, 111, 114, 45, 111, 114, 45, 115, 101, 108, 102]   -- ancestor-or-self

def allAxes : List Axis :=
  [.child, .descendant, .parent, .ancestor, .followingSibling, .precedingSibling, .following, .preceding, .attribute, .self, .descendantOrSelf, .ancestorOrSelf]

def axisOf (b : Bytes) : Option Axis := allAxes.find? (fun a => axisBytes a == b)

/-- bytes before the first `:` and the bytes after it -/
def splitColon : Bytes → Bytes × Option Bytes
  | [] => ([], none)
  | c :: r => if c == 0x3a then ([], some r) else let (a, b) := splitColon r; (c :: a, b)

/-- NameTest token -> node test -/
def testOf (tx : Bytes) : Test :=
  match splitColon tx with
  | (a, none) => if a == [0x2a] then .any else .name none a
  | (p, some l) => if l == [0x2a] then .anyIn p else .name (some p) l

/-- NodeType token -> node test -/
def nodeTypeOf (tx : Bytes) : Test :=
  if tx == [0x6e, 0x6f, 0x64, 0x65] then .node else if tx == [0x74, 0x65, 0x78, 0x74] then .text else .comment

/-- Number token -> `mant / 10^scale` -/
def numOf (tx : Bytes) : Expr :=
  let (m1, _, r1) := NumLex.takeDigits tx 0 0
  match r1 with
  | 0x2e :: r2 => let (m2, n2, _) := NumLex.takeDigits r2 m1 0; .num m2 n2
  | _ => .num m1 0

/-- Literal token -> its body -/
def litOf (tx : Bytes) : Expr := .lit (tx.drop 1).dropLast

def dosStep : Step := .mk .descendantOrSelf .node []

def isStepStart (k : TK) : Bool :=
  k == .dot || k == .ddot || k == .axisname || k == .at || k == .nametest || k == .nodetype

def argCountOk (f : XpConsts.Fn) (n : Nat) : Bool :=
  f.min ≤ n && (match f.max with | none => true | some m => n ≤ m)

mutual
/-- `reparse_or_expr`: `++depth`, the depth limit, then the `or` level -/
def orExpr : Nat → Nat → List PT → R Expr
  | 0, _, _ => none
  | f + 1, d, ts => if d + 1 > XpConsts.maxBlockDepth then none else binExpr f 1 (d + 1) ts

/-- the parser of precedence level `lvl`: 7 = UnaryExpr, 9 and above = PathExpr, else a binary level -/
def levelP : Nat → Nat → Nat → List PT → R Expr
  | 0, _, _, _ => none
  | f + 1, lvl, d, ts =>
    if lvl == 7 then negLoop f d ts.length ts else if lvl ≥ 9 then pathExpr f d ts else binExpr f lvl d ts

/-- first operand of a chain of level `lvl`, then the loop -/
def binExpr : Nat → Nat → Nat → List PT → R Expr
  | 0, _, _, _ => none
  | f + 1, lvl, d, ts =>
    match levelP f (lvl + 1) d ts with
    | none => none
    | some (a, p, r) => binLoop f lvl d ts.length a p r

/-- `while (operator of this level) { exp_repeat_push(exp, start, etype); ++tok_idx; operand }` -/
def binLoop : Nat → Nat → Nat → Nat → Expr → List Push → List PT → R Expr
  | 0, _, _, _, _, _, _ => none
  | f + 1, lvl, d, st, a, ps, ts =>
    match ts with
    | t :: r =>
      match opAt lvl t with
      | some op =>
        match levelP f (lvl + 1) d r with
        | none => none
        | some (b, p2, r2) => binLoop f lvl d st (.bin op a b) (ps ++ (st, etOf lvl) :: p2) r2
      | none => some (a, ps, ts)
    | [] => some (a, ps, ts)

/-- `reparse_unary_expr`: `('-')*`, every one pushing `LYXP_EXPR_UNARY` at the first `-`, then the union level -/
def negLoop : Nat → Nat → Nat → List PT → R Expr
  | 0, _, _, _ => none
  | f + 1, d, st, ts =>
    match ts with
    | (.operMath, tx) :: r =>
      if tx.head? == some 0x2d then
        match negLoop f d st r with
        | none => none
        | some (e, p, r1) => some (.neg e, (st, XpConsts.etUnary) :: p, r1)
      else levelP f 8 d ts
    | _ => levelP f 8 d ts

/-- `reparse_path_expr` -/
def pathExpr : Nat → Nat → List PT → R Expr
  | 0, _, _ => none
  | f + 1, d, ts =>
    match ts with
    | [] => none
    | (k, tx) :: r =>
      match k with
      | .par1 =>
        match orExpr f d r with
        | some (e, p, (.par2, _) :: r2) => postP f d e p r2
        | _ => none
      | .varref => postP f d (.fn "$" [.lit tx]) [] r
      | .funcname =>
        match funCall f d tx r with
        | none => none
        | some (e, p, r1) => postP f d e p r1
      | .literal => postP f d (litOf tx) [] r
      | .number => postP f d (numOf tx) [] r
      | .operPath =>
        match r with
        | [] => some (.path .root [], [], [])
        | (k2, _) :: _ =>
          if isStepStart k2 then
            match relPath f d r with
            | none => none
            | some (steps, p, r1) => some (.path .root steps, p, r1)
          else some (.path .root [], [], r)
      | .operRpath =>
        match relPath f d r with
        | none => none
        | some (steps, p, r1) => some (.path .root (dosStep :: steps), p, r1)
      | _ =>
        if isStepStart k then
          match relPath f d ts with
          | none => none
          | some (steps, p, r1) => some (.path .ctx steps, p, r1)
        else none

/-- the `predicate:` label of `reparse_path_expr`: `Predicate*`, then `('/' | '//') RelativeLocationPath` -/
def postP : Nat → Nat → Expr → List Push → List PT → R Expr
  | 0, _, _, _, _ => none
  | f + 1, d, prim, p0, ts =>
    match preds f d ts with
    | none => none
    | some (ps, p1, r1) =>
      let base := if ps.isEmpty then prim else .filter prim ps
      match r1 with
      | (.operPath, _) :: r2 =>
        match relPath f d r2 with
        | none => none
        | some (steps, p2, r3) => some (.path (.expr base) steps, p0 ++ p1 ++ p2, r3)
      | (.operRpath, _) :: r2 =>
        match relPath f d r2 with
        | none => none
        | some (steps, p2, r3) => some (.path (.expr base) (dosStep :: steps), p0 ++ p1 ++ p2, r3)
      | _ => some (base, p0 ++ p1, r1)

/-- `while (next is '[') reparse_predicate` -/
def preds : Nat → Nat → List PT → R (List Expr)
  | 0, _, _ => none
  | f + 1, d, ts =>
    match ts with
    | (.brack1, _) :: r =>
      match orExpr f d r with
      | some (e, p, (.brack2, _) :: r2) =>
        match preds f d r2 with
        | none => none
        | some (es, p2, r3) => some (e :: es, p ++ p2, r3)
      | _ => none
    | _ => some ([], [], ts)

/-- `reparse_relative_location_path` -/
def relPath : Nat → Nat → List PT → R (List Step)
  | 0, _, _ => none
  | f + 1, d, ts =>
    match step f d ts with
    | none => none
    | some (s, p, r1) =>
      match r1 with
      | (.operPath, _) :: r2 =>
        match relPath f d r2 with
        | none => none
        | some (ss, p2, r3) => some (s :: ss, p ++ p2, r3)
      | (.operRpath, _) :: r2 =>
        match relPath f d r2 with
        | none => none
        | some (ss, p2, r3) => some (s :: dosStep :: ss, p ++ p2, r3)
      | _ => some ([s], p, r1)

/-- the `switch` on the first token of a step -/
def step : Nat → Nat → List PT → R Step
  | 0, _, _ => none
  | f + 1, d, ts =>
    match ts with
    | (.dot, _) :: r => some (.mk .self .node [], [], r)
    | (.ddot, _) :: r => some (.mk .parent .node [], [], r)
    | (.axisname, ax) :: (.dcolon, _) :: r =>
      match axisOf ax with
      | none => none
      | some a => nodeTest f d a r
    | (.at, _) :: r => nodeTest f d .attribute r
    | (.nametest, _) :: _ => nodeTest f d .child ts
    | (.nodetype, _) :: _ => nodeTest f d .child ts
    | _ => none

/-- NameTest or `NodeType '(' ')'`, then `Predicate*` -/
def nodeTest : Nat → Nat → Axis → List PT → R Step
  | 0, _, _, _ => none
  | f + 1, d, ax, ts =>
    match ts with
    | (.nametest, tx) :: r =>
      match preds f d r with
      | none => none
      | some (ps, p, r1) => some (.mk ax (testOf tx) ps, p, r1)
    | (.nodetype, tx) :: (.par1, _) :: (.par2, _) :: r =>
      match preds f d r with
      | none => none
      | some (ps, p, r1) => some (.mk ax (nodeTypeOf tx) ps, p, r1)
    | _ => none

/-- `reparse_function_call` after the FunctionName token `nm` -/
def funCall : Nat → Nat → Bytes → List PT → R Expr
  | 0, _, _, _ => none
  | f + 1, d, nm, ts =>
    match XpConsts.fnTable.find? (fun g => g.bytes == nm) with
    | none => none
    | some g =>
      match ts with
      | (.par1, _) :: (.par2, _) :: r => if argCountOk g 0 then some (.fn g.name [], [], r) else none
      | (.par1, _) :: r =>
        match orExpr f d r with
        | none => none
        | some (a, p, r1) =>
          match args f d r1 with
          | some (as, p2, (.par2, _) :: r3) =>
            if argCountOk g (as.length + 1) then some (.fn g.name (a :: as), p ++ p2, r3) else none
          | _ => none
      | _ => none

/-- `while (next is ',') { ++tok_idx; reparse_or_expr }` -/
def args : Nat → Nat → List PT → R (List Expr)
  | 0, _, _ => none
  | f + 1, d, ts =>
    match ts with
    | (.comma, _) :: r =>
      match orExpr f d r with
      | none => none
      | some (e, p, r1) =>
        match args f d r1 with
        | none => none
        | some (es, p2, r2) => some (e :: es, p ++ p2, r2)
    | _ => some ([], [], ts)
end

/-- fuel that suffices for a token list of `n` tokens (`parse_fuel_sufficient` in `Props/C08Parse.lean`) -/
def fuelFor (n : Nat) : Nat := 32 * n + 64

/-- `reparse_or_expr(ctx, expr, &tok_idx, 0)` followed by the check that no token is left -/
def parseToks (ts : List PT) : Option (Expr × List Push) :=
  match orExpr (fuelFor ts.length) 0 ts with
  | some (e, p, []) => some (e, p)
  | _ => none

def ptOf (t : Tok) : PT := (t.kind, t.text)

inductive Err
  | lex (pos : Nat)
  | fuel
  | parse
deriving DecidableEq, Repr

/-- `lyxp_expr_parse(ctx, s, strlen(s), 1, …)`: tokens and the `exp_repeat_push` calls, or the reason of the rejection -/
def parseFull (s : Bytes) : Except Err (List Tok × Expr × List Push) :=
  match lex s with
  | .error (.at p) => .error (.lex p)
  | .error .fuel => .error .fuel
  | .ok ts =>
    match parseToks (ts.map ptOf) with
    | none => .error .parse
    | some (e, p) => .ok (ts, e, p)

/-- the expression a string denotes for libyang -/
def parse (s : Bytes) : Option Expr :=
  match parseFull s with
  | .ok (_, e, _) => some e
  | .error _ => none

/-- `exp->repeat[i]` from the pushes: `n` tokens in all, a push made with `rem` unread tokens belongs to token `n - rem` -/
def repeatOf (n : Nat) (ps : List Push) (i : Nat) : List Nat :=
  (ps.filter fun p => n - p.1 == i).map (·.2)

end LyModel.XPath.Parse
