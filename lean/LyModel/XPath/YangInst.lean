import LyModel.XPath.Doc
/-!
# `instance-identifier` values over the XML view  (component `XpCore`, property C08; `xpath_deref`, branch `LY_TYPE_INST`)

`deref()` of an instance-identifier terminal evaluates the stored path (`ly_path_eval(leaf->value.target, set->tree, …)`) and
returns the one node it finds.  The engine sees the CANONICAL value of the terminal (`instanceid_path2str`, LY_VALUE_JSON):

  `/mod:name[key='v'][key2="v'"]/name[.='v']/other:name`

a module name is written when it differs from the module of the step before it; predicates are key predicates (all keys of a list
entry) or the value predicate of a leaf-list entry; the quote is `'` unless the value contains one.  `parseInst` reads that form,
`Denotes` is its meaning (RFC 7950 §9.13: the XPath abbreviated syntax with these predicates, i.e. a chain of child steps from the
root whose predicates compare the string-value of a key child / of the node itself), `instDown` computes it.   Core Lean only.
-/
namespace LyModel.XPath
open LyModel

namespace Yang

/-- one step of an instance-identifier: node name with its (explicit or inherited) module, key predicates, value predicate -/
structure IStep where
  mod : Bytes
  name : Bytes
  keys : List (Bytes × Bytes) := []
  dot : Option Bytes := none
deriving DecidableEq, Inhabited

/-- the predicates of one step: `[name=Qvalue Q]*`; `.` as the name is the value predicate -/
def parsePreds : Nat → Bytes → List (Bytes × Bytes) → Option Bytes → Option (List (Bytes × Bytes) × Option Bytes × Bytes)
  | 0, _, _, _ => none
  | f + 1, s, keys, dot =>
    if s.head? != some 0x5b then some (keys, dot, s) else
    let (k, r1) := (s.drop 1).span (· != 0x3d)
    match r1 with
    | _ :: q :: r2 =>
      if q == 0x27 || q == 0x22 then
        let (v, r3) := r2.span (· != q)
        match r3 with
        | _ :: c :: r4 =>
          if c != 0x5d then none
          else if k == [0x2e] then parsePreds f r4 keys (some v) else parsePreds f r4 (keys ++ [(k, v)]) dot
        | _ => none
      else none
    | _ => none

/-- `/[mod:]name preds` … ; `prev` = module of the step before -/
def parseSteps : Nat → Option Bytes → Bytes → Option (List IStep)
  | 0, _, _ => none
  | f + 1, prev, s =>
    if s.isEmpty then some [] else
    if s.head? != some 0x2f then none else
    let (nm, r1) := (s.drop 1).span (fun c => c != 0x2f && c != 0x5b)
    let (m0, n0) := nm.span (· != 0x3a)
    let pfx : Option Bytes := if n0.isEmpty then prev else some m0
    let name : Bytes := if n0.isEmpty then m0 else n0.drop 1
    match pfx with
    | none => none
    | some m =>
      if name.isEmpty then none else
      match parsePreds (r1.length + 1) r1 [] none with
      | none => none
      | some (keys, dot, r2) =>
        match parseSteps f (some m) r2 with
        | none => none
        | some rest => some ({ mod := m, name := name, keys := keys, dot := dot } :: rest)

/-- the canonical instance-identifier value as a list of steps; `none` = not of that form (never the case for a stored value
without positional predicates) -/
def parseInst (s : Bytes) : Option (List IStep) :=
  match parseSteps (s.length + 1) none s with
  | some [] => none
  | r => r

/-- element `i` (number, `1..n`) has a terminal child `mod:k` with value `v` -/
def hasKey (d : Doc) (i : Nat) (mod k v : Bytes) : Bool :=
  d.elems.toList.any fun c => c.parent == i && c.term && c.mod == mod && c.name == k && c.value == v

/-- element number `i` with record `e` is selected by step `st` from the parent element `p` (`0` = the root node) -/
def stepOk (d : Doc) (st : IStep) (p i : Nat) (e : Elem) : Bool :=
  e.parent == p && e.mod == st.mod && e.name == st.name &&
    st.keys.all (fun kv => hasKey d i st.mod kv.1 kv.2) &&
    (match st.dot with | none => true | some v => e.term && e.value == v)

/-- MEANING of an instance-identifier: `Denotes d p steps y` — following `steps` from element `p` (0 = root) along child steps whose
predicates hold leads to element `y` -/
inductive Denotes (d : Doc) : Nat → List IStep → Nat → Prop
  | nil (p : Nat) : Denotes d p [] p
  | cons {p i y : Nat} {e : Elem} {st : IStep} {rest : List IStep} :
      i ≠ 0 → d.elems[i - 1]? = some e → stepOk d st p i e = true → Denotes d i rest y → Denotes d p (st :: rest) y

/-- all elements (numbers) the steps lead to from element `p` -/
def instDown (d : Doc) : List IStep → Nat → List Nat
  | [], p => [p]
  | st :: rest, p =>
    (((List.range d.elems.size).map (· + 1)).filter fun i =>
        match d.elems[i - 1]? with
        | some e => stepOk d st p i e
        | none => false).flatMap (instDown d rest)

/-- the node references an instance-identifier VALUE denotes (empty when the value is not a canonical path) -/
def instTargets (d : Doc) (v : Bytes) : List Ref :=
  match parseInst v with
  | some steps => (instDown d steps 0).map (2 * ·)
  | none => []

end Yang
end LyModel.XPath
