import LyModel.XPath.Canon
import LyModel.XPath.LemmasTok
import LyModel.XPath.LemmasNumTok
/-!
Lemmas for `parse_render_roundtrip` on the token level: the recursive descent of `Parse.lean` run on `Render.atoks e`
gives back `e`.
-/
namespace LyModel.XPath.LemmasParseA
open LyModel LyModel.Generated LyModel.XPath.Lex LyModel.XPath.Parse LyModel.XPath.Render LyModel.XPath.Canon

/-! ### operators -/

theorem opAt_opTok (q : Nat) (op : BinOp) : opAt q (opTok op) = if q = opLevel op then some op else none := by
  cases op <;> (unfold opAt; split <;> simp_all [opTok, opLevel, XpConsts.orLoopLen, XpConsts.andLoopLen])

theorem opAt_par2 (q : Nat) : opAt q tPar2 = none := by unfold opAt; split <;> simp_all [tPar2]
theorem opAt_brack2 (q : Nat) : opAt q tBrack2 = none := by unfold opAt; split <;> simp_all [tBrack2]
theorem opAt_comma (q : Nat) : opAt q tComma = none := by unfold opAt; split <;> simp_all [tComma]

/-- what may follow an operand written at level `lvl`: nothing, a closing token, or an operator of a lower level -/
def Follow (lvl : Nat) (rest : List PT) : Prop :=
  ∀ t r, rest = t :: r → t = tPar2 ∨ t = tBrack2 ∨ t = tComma ∨ ∃ op, t = opTok op ∧ opLevel op < lvl

theorem Follow.mono {a b : Nat} {rest : List PT} (h : Follow a rest) (hab : a ≤ b) : Follow b rest := by
  intro t r e
  rcases h t r e with h | h | h | ⟨op, h1, h2⟩
  · exact Or.inl h
  · exact Or.inr (Or.inl h)
  · exact Or.inr (Or.inr (Or.inl h))
  · exact Or.inr (Or.inr (Or.inr ⟨op, h1, by omega⟩))

theorem Follow.nil (a : Nat) : Follow a [] := by intro t r e; cases e
theorem Follow.par2 (a : Nat) (r : List PT) : Follow a (tPar2 :: r) := by
  intro t r e; simp only [List.cons.injEq] at e; exact Or.inl e.1.symm
theorem Follow.brack2 (a : Nat) (r : List PT) : Follow a (tBrack2 :: r) := by
  intro t r e; simp only [List.cons.injEq] at e; exact Or.inr (Or.inl e.1.symm)
theorem Follow.comma (a : Nat) (r : List PT) : Follow a (tComma :: r) := by
  intro t r e; simp only [List.cons.injEq] at e; exact Or.inr (Or.inr (Or.inl e.1.symm))
theorem Follow.op (a : Nat) (op : BinOp) (r : List PT) (h : opLevel op < a) : Follow a (opTok op :: r) := by
  intro t r e; simp only [List.cons.injEq] at e; exact Or.inr (Or.inr (Or.inr ⟨op, e.1.symm, h⟩))

/-- the head of what follows is no operator of level `q ≥ lvl` -/
theorem Follow.opAt_none {lvl q : Nat} {t : PT} {r : List PT} (h : Follow lvl (t :: r)) (hq : lvl ≤ q) : opAt q t = none := by
  rcases h t r rfl with h | h | h | ⟨op, h1, h2⟩
  · subst h; exact opAt_par2 q
  · subst h; exact opAt_brack2 q
  · subst h; exact opAt_comma q
  · subst h1; rw [opAt_opTok]; split
    · omega
    · rfl

/-- kind of the head of what follows -/
theorem Follow.kind {lvl : Nat} {t : PT} {r : List PT} (h : Follow lvl (t :: r)) :
    t.1 = .par2 ∨ t.1 = .brack2 ∨ t.1 = .comma ∨ t.1 = .operLog ∨ t.1 = .operEqual ∨ t.1 = .operNequal ∨ t.1 = .operComp ∨
    t.1 = .operMath ∨ t.1 = .operUni := by
  rcases h t r rfl with h | h | h | ⟨op, h1, _⟩
  · subst h; simp [tPar2]
  · subst h; simp [tBrack2]
  · subst h; simp [tComma]
  · subst h1; cases op <;> simp [opTok]

/-- the loop of level `q` stops at what follows -/
theorem binLoop_stop {lvl q : Nat} {rest : List PT} (h : Follow lvl rest) (hq : lvl ≤ q) (f d st : Nat) (a : Expr)
    (ps : List Push) : binLoop (f + 1) q d st a ps rest = some (a, ps, rest) := by
  cases rest with
  | nil => simp [binLoop]
  | cons t r => simp [binLoop, h.opAt_none hq]


/-! ### going up through the levels -/

/-- kind of the first token -/
def hk (ts : List PT) : Option TK := ts.head?.map (·.1)

theorem levelP_bin (f lvl d : Nat) (ts : List PT) (h7 : lvl ≠ 7) (h9 : lvl < 9) :
    levelP (f + 1) lvl d ts = binExpr f lvl d ts := by
  have a : (lvl == 7) = false := by simpa using h7
  have b : ¬ lvl ≥ 9 := by omega
  simp [levelP, a, b]

theorem levelP_path (f d : Nat) (ts : List PT) : levelP (f + 1) 9 d ts = pathExpr f d ts := by
  simp [levelP]

theorem negLoop_skip (f d st : Nat) (ts : List PT) (h : hk ts ≠ some .operMath) :
    negLoop (f + 1) d st ts = levelP f 8 d ts := by
  unfold negLoop
  split
  · next tx r => simp [hk] at h
  · rfl

theorem lift1 {f lvl d : Nat} {ts rest : List PT} {e : Expr} {ps : List Push}
    (hr : levelP f (lvl + 1) d ts = some (e, ps, rest)) (hF : Follow lvl rest) (hf : f ≥ 1) (hl : lvl + 1 ≤ 9)
    (hm : lvl = 7 → hk ts ≠ some .operMath) : levelP (f + 2) lvl d ts = some (e, ps, rest) := by
  by_cases h7 : lvl = 7
  · subst h7
    have : levelP (f + 2) 7 d ts = negLoop (f + 1) d ts.length ts := by simp [levelP]
    rw [this, negLoop_skip _ _ _ _ (hm rfl)]; exact hr
  · rw [levelP_bin _ _ _ _ h7 (by omega)]
    obtain ⟨f', rfl⟩ : ∃ f', f = f' + 1 := ⟨f - 1, by omega⟩
    simp only [binExpr, hr]
    exact binLoop_stop hF (Nat.le_refl _) _ _ _ _ _

theorem liftN : ∀ (k : Nat) {f lvl d : Nat} {ts rest : List PT} {e : Expr} {ps : List Push},
    levelP f (lvl + k) d ts = some (e, ps, rest) → Follow lvl rest → f ≥ 1 → lvl + k ≤ 9 →
    (lvl ≤ 7 → 7 < lvl + k → hk ts ≠ some .operMath) → levelP (f + 2 * k) lvl d ts = some (e, ps, rest) := by
  intro k
  induction k with
  | zero => intro f lvl d ts rest e ps hr _ _ _ _; simpa using hr
  | succ k ih =>
    intro f lvl d ts rest e ps hr hF hf hl hm
    have h1 : levelP (f + 2 * k) (lvl + 1) d ts = some (e, ps, rest) :=
      ih (lvl := lvl + 1) (by rw [show lvl + 1 + k = lvl + (k + 1) by omega]; exact hr) (hF.mono (by omega)) hf (by omega)
        (by intro a b; exact hm (by omega) (by omega))
    have := lift1 h1 hF (by omega) (by omega) (by intro e7; exact hm (by omega) (by omega))
    rw [show f + 2 * (k + 1) = f + 2 * k + 2 by omega]; exact this

/-! ### loops that stop -/

def NoBrack (rest : List PT) : Prop := ∀ t r, rest = t :: r → t.1 ≠ .brack1

theorem Follow.noBrack {lvl : Nat} {rest : List PT} (h : Follow lvl rest) : NoBrack rest := by
  intro t r e; subst e
  rcases h.kind with h | h | h | h | h | h | h | h | h <;> simp [h]

theorem preds_stop {rest : List PT} (h : NoBrack rest) (f d : Nat) : preds (f + 1) d rest = some ([], [], rest) := by
  unfold preds
  split
  · next tx r => exact absurd rfl (h _ _ rfl)
  · rfl

theorem postP_stop {lvl : Nat} {rest : List PT} (h : Follow lvl rest) (f d : Nat) (prim : Expr) (p0 : List Push) :
    postP (f + 2) d prim p0 rest = some (prim, p0 ++ [], rest) := by
  simp only [postP, preds_stop h.noBrack]
  cases rest with
  | nil => simp
  | cons t r =>
    rcases h.kind with h | h | h | h | h | h | h | h | h <;> (obtain ⟨k, tx⟩ := t; simp only at h; subst h; simp)


/-! ### the statements -/

abbrev MAXD : Nat := XpConsts.maxBlockDepth

/-- `e` written without parentheses is read back by the parser of every level up to its own -/
def B (e : Expr) : Prop :=
  ∀ (lvl f d : Nat) (rest : List PT), 1 ≤ lvl → lvl ≤ 9 → (lvl ≤ levelOf e ∨ levelOf e = 0) →
    Follow (min lvl (levelOf e)) rest → f ≥ 32 * (atoks e).length + 40 → d + height e ≤ MAXD + 1 →
    ∃ ps, levelP f lvl d (atoks e ++ rest) = some (e, ps, rest)

/-- `reparse_or_expr` on the full text of `e`, followed by a closing token or nothing -/
def FB (e : Expr) : Prop :=
  ∀ (f d : Nat) (rest : List PT), Follow 1 rest → f ≥ 32 * (atoks e).length + 42 → d + 1 + height e ≤ MAXD + 1 →
    ∃ ps, orExpr f d (atoks e ++ rest) = some (e, ps, rest)

/-- `e` as an operand at level `lvl` -/
def W (e : Expr) : Prop :=
  ∀ (lvl f d : Nat) (rest : List PT), 1 ≤ lvl → lvl ≤ 9 → Follow lvl rest →
    f ≥ 32 * (wrap lvl e (atoks e)).length + 42 → d + height e ≤ MAXD →
    ∃ ps, levelP f lvl d (wrap lvl e (atoks e) ++ rest) = some (e, ps, rest)

/-- the chain of a binary expression: after it the loop of its level goes on with `e` as the left operand -/
def Chain (e : Expr) : Prop :=
  ∀ (q f d : Nat) (rest : List PT), levelOf e = q → q ≠ 0 → q ≠ 7 → q ≠ 9 → Follow (q + 1) rest →
    f ≥ 32 * (atoks e).length + 16 → d + height e ≤ MAXD + 1 →
    ∃ ps f', f' + 32 * (atoks e).length + 1 ≥ f ∧ f' ≥ 1 ∧
      binExpr f q d (atoks e ++ rest) = binLoop f' q d (atoks e ++ rest).length e ps rest

/-- `e` as the operand of a unary minus -/
def C (e : Expr) : Prop :=
  ∀ (f d st : Nat) (rest : List PT), Follow 7 rest → f ≥ 32 * (wrap 7 e (atoks e)).length + 46 → d + height e ≤ MAXD →
    ∃ ps, negLoop f d st (wrap 7 e (atoks e) ++ rest) = some (e, ps, rest)

theorem height_pos (e : Expr) : height e ≥ 1 := by
  match e with
  | .lit _ | .num _ _ => simp [height]
  | .fn _ _ | .bin _ _ _ | .neg _ | .filter _ _ => simp [height]
  | .path .root _ | .path .ctx _ | .path (.expr _) _ => simp [height]

/-! ### first tokens -/

def startKinds : List TK := [.literal, .number, .funcname, .operMath, .operPath, .axisname, .par1, .dot, .ddot, .at, .nametest, .nodetype]

def stepKinds : List TK := [.dot, .ddot, .at, .nametest, .nodetype, .axisname]

theorem rtest_head (t : Test) : ∃ k tx r, rtest t = (k, tx) :: r ∧ (k = .nametest ∨ k = .nodetype) := by
  rcases t with ⟨(_ | p), loc⟩ | _ | p | _ | _ | _ <;> exact ⟨_, _, _, rfl, by simp⟩

theorem astep_head (s : Step) : ∃ k tx r, astep s = (k, tx) :: r ∧ k ∈ stepKinds := by
  obtain ⟨ax, t, ps⟩ := s
  obtain ⟨k, tx, r, hr, hk⟩ := rtest_head t
  unfold astep
  split
  · exact ⟨_, _, _, rfl, by simp [stepKinds]⟩
  · split
    · exact ⟨_, _, _, rfl, by simp [stepKinds]⟩
    · split
      · exact ⟨k, tx, r ++ apreds ps, by simp [hr], by rcases hk with rfl | rfl <;> simp [stepKinds]⟩
      · split
        · exact ⟨_, _, _, rfl, by simp [stepKinds, tAt]⟩
        · exact ⟨_, _, _, rfl, by simp [stepKinds]⟩


theorem hk_cons (t : PT) (r : List PT) : hk (t :: r) = some t.1 := rfl

theorem head_ok : ∀ (e : Expr), wf e = true → ∀ rest, ∃ k, hk (atoks e ++ rest) = some k ∧ k ∈ startKinds ∧
    (levelOf e ≥ 8 → k ≠ .operMath)
  | .lit s, _, rest => ⟨.literal, by simp [atoks, hk], by simp [startKinds], by simp⟩
  | .num m sc, _, rest => ⟨.number, by simp [atoks, hk], by simp [startKinds], by simp⟩
  | .fn n as, _, rest => ⟨.funcname, by simp [atoks, hk], by simp [startKinds], by simp⟩
  | .neg a, _, rest => ⟨.operMath, by simp [atoks, hk, tMinus], by simp [startKinds], by simp [levelOf]⟩
  | .path .root steps, _, rest => ⟨.operPath, by simp [atoks, hk, tSlash], by simp [startKinds], by simp⟩
  | .path (.expr e) steps, _, rest => ⟨.par1, by simp [atoks, hk, par, tPar1], by simp [startKinds], by simp⟩
  | .filter e ps, _, rest => ⟨.par1, by simp [atoks, hk, par, tPar1], by simp [startKinds], by simp⟩
  | .path .ctx [], h, rest => by simp [wf] at h
  | .path .ctx (s :: r), _, rest => by
    obtain ⟨k, tx, r0, hr, hk⟩ := astep_head s
    refine ⟨k, by simp [atoks, asteps, hr, hk_cons], ?_, ?_⟩
    · simp [stepKinds] at hk; rcases hk with rfl | rfl | rfl | rfl | rfl | rfl <;> simp [startKinds]
    · intro _; simp [stepKinds] at hk; rcases hk with rfl | rfl | rfl | rfl | rfl | rfl <;> simp
  | .bin op a b, h, rest => by
    have ha : wf a = true := by simp [wf] at h; exact h.1
    by_cases hl : levelOf a ≥ opLevel op
    · obtain ⟨k, h1, h2, h3⟩ := head_ok a ha (opTok op :: wrap (opLevel op + 1) b (atoks b) ++ rest)
      refine ⟨k, by simpa [atoks, wrap, hl] using h1, h2, ?_⟩
      intro h8
      apply h3
      simp only [levelOf] at h8
      omega
    · exact ⟨.par1, by simp [atoks, wrap, hl, par, hk, tPar1], by simp [startKinds], by simp⟩


/-! ### from `B` to the other forms -/

theorem Follow.one_zero {rest : List PT} (h : Follow 1 rest) : Follow 0 rest := by
  intro t r e
  rcases h t r e with h | h | h | ⟨op, _, h2⟩
  · exact Or.inl h
  · exact Or.inr (Or.inl h)
  · exact Or.inr (Or.inr (Or.inl h))
  · cases op <;> simp [opLevel] at h2

theorem opLevel_pos (op : BinOp) : 1 ≤ opLevel op ∧ opLevel op ≤ 8 ∧ opLevel op ≠ 7 := by cases op <;> simp [opLevel]

theorem levelOf_le (e : Expr) : levelOf e ≤ 9 := by
  unfold levelOf; split <;> first | omega | (have := opLevel_pos ‹_›; omega)

theorem levelOf_seven {e : Expr} (h : levelOf e = 7) : ∃ a, e = .neg a := by
  unfold levelOf at h
  split at h
  · have := opLevel_pos ‹_›; omega
  · exact ⟨_, rfl⟩
  · omega
  · omega

theorem FB_of_B {e : Expr} (hB : B e) : FB e := by
  intro f d rest hF hf hd
  obtain ⟨f', rfl⟩ : ∃ f', f = f' + 1 := ⟨f - 1, by omega⟩
  have hp := height_pos e
  have hdd : ¬ d + 1 > XpConsts.maxBlockDepth := by simp only [MAXD] at hd; omega
  simp only [orExpr, hdd, if_false]
  rw [← levelP_bin f' 1 (d + 1) _ (by omega) (by omega)]
  apply hB 1 (f' + 1) (d + 1) rest (by omega) (by omega) (by omega) _ (by omega) (by omega)
  by_cases h0 : levelOf e = 0
  · simp only [h0, Nat.min_zero]; exact hF.one_zero
  · rw [Nat.min_eq_left (by omega)]; exact hF

theorem par_append (body rest : List PT) : par body ++ rest = tPar1 :: (body ++ tPar2 :: rest) := by
  simp [par]

theorem Paren_of_FB {e : Expr} (hFB : FB e) (lvl f d : Nat) (rest : List PT) (h1 : 1 ≤ lvl) (h9 : lvl ≤ 9)
    (hF : Follow lvl rest) (hf : f ≥ 32 * ((atoks e).length + 2) + 42) (hd : d + height e ≤ MAXD) :
    ∃ ps, levelP f lvl d (par (atoks e) ++ rest) = some (e, ps, rest) := by
  obtain ⟨k, hk9⟩ : ∃ k, 9 = lvl + k := ⟨9 - lvl, by omega⟩
  obtain ⟨g, rfl⟩ : ∃ g, f = (g + 3) + 1 + 2 * k := ⟨f - 4 - 2 * k, by omega⟩
  obtain ⟨p, hp⟩ := hFB (g + 2) d (tPar2 :: rest) (Follow.par2 _ _) (by omega) (by omega)
  have hnat : levelP (g + 3 + 1) (lvl + k) d (par (atoks e) ++ rest) = some (e, p ++ [], rest) := by
    have e9 : lvl + k = 9 := by omega
    rw [e9, levelP_path, par_append]
    simp only [pathExpr, tPar1]
    rw [hp]
    simp only [tPar2]
    exact postP_stop hF _ _ _ _
  exact ⟨_, liftN k hnat hF (by omega) (by omega) (by intro _ _; simp [par_append, hk, tPar1])⟩

theorem W_of_B {e : Expr} (hB : B e) : W e := by
  intro lvl f d rest h1 h9 hF hf hd
  by_cases hl : levelOf e ≥ lvl
  · simp only [wrap, hl, if_true] at hf ⊢
    exact hB lvl f d rest h1 h9 (Or.inl hl) (by rw [Nat.min_eq_left hl]; exact hF) (by omega) (by omega)
  · simp only [wrap, hl, if_false] at hf ⊢
    exact Paren_of_FB (FB_of_B hB) lvl f d rest h1 h9 hF (by simp [par] at hf; omega) hd

theorem C_of_B {e : Expr} (hw : wf e = true) (hne : ∀ a, e ≠ .neg a) (hB : B e) : C e := by
  intro f d st rest hF hf hd
  obtain ⟨g, rfl⟩ : ∃ g, f = g + 1 := ⟨f - 1, by omega⟩
  by_cases hl : levelOf e ≥ 7
  · have h8 : levelOf e ≥ 8 := by
      by_cases h7 : levelOf e = 7
      · obtain ⟨a, rfl⟩ := levelOf_seven h7; exact absurd rfl (hne a)
      · omega
    simp only [wrap, hl, if_true] at hf ⊢
    obtain ⟨k, hk1, _, hk3⟩ := head_ok e hw rest
    rw [negLoop_skip _ _ _ _ (by rw [hk1]; intro h; exact hk3 h8 (Option.some.inj h))]
    exact hB 8 g d rest (by omega) (by omega) (Or.inl h8) (by rw [Nat.min_eq_left h8]; exact hF.mono (by omega))
      (by omega) (by omega)
  · simp only [wrap, hl, if_false] at hf ⊢
    rw [negLoop_skip _ _ _ _ (by simp [par_append, hk, tPar1])]
    exact Paren_of_FB (FB_of_B hB) 8 g d rest (by omega) (by omega) (hF.mono (by omega)) (by simp [par] at hf; omega) hd


/-! ### predicates, arguments, steps -/

theorem noBrack_brack2 (r : List PT) : NoBrack (tBrack2 :: r) := by
  intro t r' e; simp only [List.cons.injEq] at e; rw [← e.1]; simp [tBrack2]

theorem preds_of : ∀ (ps : List Expr), (∀ p ∈ ps, FB p) → ∀ (f d : Nat) (rest : List PT), NoBrack rest →
    f ≥ 32 * (apreds ps).length + 4 → d + 1 + heights ps ≤ MAXD + 1 →
    ∃ p, preds f d (apreds ps ++ rest) = some (ps, p, rest) := by
  intro ps
  induction ps with
  | nil =>
    intro _ f d rest hn hf _
    obtain ⟨g, rfl⟩ : ∃ g, f = g + 1 := ⟨f - 1, by omega⟩
    exact ⟨_, by simpa [apreds] using preds_stop hn g d⟩
  | cons a r ih =>
    intro hall f d rest hn hf hd
    obtain ⟨g, rfl⟩ : ∃ g, f = g + 1 := ⟨f - 1, by omega⟩
    simp only [apreds, List.length_cons, List.length_append, heights] at hf hd
    have e1 : apreds (a :: r) ++ rest = tBrack1 :: (atoks a ++ tBrack2 :: (apreds r ++ rest)) := by simp [apreds]
    obtain ⟨p1, h1⟩ := hall a (by simp) g d (tBrack2 :: (apreds r ++ rest)) (Follow.brack2 _ _) (by omega) (by omega)
    obtain ⟨p2, h2⟩ := ih (fun p hp => hall p (by simp [hp])) g d rest hn (by omega) (by omega)
    rw [e1]
    simp only [preds, tBrack1]
    rw [h1]
    simp only [tBrack2]
    rw [h2]
    exact ⟨_, rfl⟩

theorem follow_rargs (r : List Expr) (rest : List PT) : Follow 1 (aargs true r ++ tPar2 :: rest) := by
  cases r with
  | nil => simpa [aargs] using Follow.par2 1 rest
  | cons b t => simpa [aargs] using Follow.comma 1 _

theorem args_of : ∀ (as : List Expr), (∀ a ∈ as, FB a) → ∀ (f d : Nat) (rest : List PT),
    f ≥ 32 * (aargs true as).length + 12 → d + 1 + heights as ≤ MAXD + 1 →
    ∃ p, args f d (aargs true as ++ tPar2 :: rest) = some (as, p, tPar2 :: rest) := by
  intro as
  induction as with
  | nil =>
    intro _ f d rest hf _
    obtain ⟨g, rfl⟩ : ∃ g, f = g + 1 := ⟨f - 1, by omega⟩
    exact ⟨[], by simp [aargs, args, tPar2]⟩
  | cons a r ih =>
    intro hall f d rest hf hd
    obtain ⟨g, rfl⟩ : ∃ g, f = g + 1 := ⟨f - 1, by omega⟩
    simp only [aargs, if_true, List.length_cons, List.length_append, heights, List.length_nil] at hf hd
    have e1 : aargs true (a :: r) ++ tPar2 :: rest = tComma :: (atoks a ++ (aargs true r ++ tPar2 :: rest)) := by simp [aargs]
    obtain ⟨p1, h1⟩ := hall a (by simp) g d (aargs true r ++ tPar2 :: rest) (follow_rargs r rest) (by omega) (by omega)
    obtain ⟨p2, h2⟩ := ih (fun p hp => hall p (by simp [hp])) g d rest (by omega) (by omega)
    rw [e1]
    simp only [args, tComma]
    rw [h1]
    simp only
    rw [h2]
    exact ⟨_, rfl⟩

/-- a step is read back -/
def SL (s : Step) : Prop :=
  ∀ (f d : Nat) (rest : List PT), NoBrack rest → f ≥ 32 * (astep s).length + 6 → d + heightStep s ≤ MAXD + 1 →
    ∃ p, step f d (astep s ++ rest) = some (s, p, rest)

theorem nodeTest_rtest (f d : Nat) (ax : Axis) (t : Test) (ps : List Expr) (p : List Push) (rest : List PT)
    (ht : testOk t = true) (hp : preds f d (apreds ps ++ rest) = some (ps, p, rest)) :
    nodeTest (f + 1) d ax (rtest t ++ (apreds ps ++ rest)) = some (.mk ax t ps, p, rest) := by
  cases t with
  | name pfx loc =>
    cases pfx with
    | none =>
      have hl : isName loc = true := by simpa [testOk] using ht
      simp [rtest, nodeTest, hp, LemmasTok.testOf_name loc hl]
    | some q =>
      have hl : isName q = true ∧ isName loc = true := by simpa [testOk] using ht
      simp [rtest, nodeTest, hp, LemmasTok.testOf_pname q loc hl.1 hl.2]
  | any => simp [rtest, nodeTest, hp, LemmasTok.testOf_any]
  | anyIn q =>
    have hl : isName q = true := by simpa [testOk] using ht
    simp [rtest, nodeTest, hp, LemmasTok.testOf_anyIn q hl]
  | node => simp [rtest, nodeTest, hp, tPar1, tPar2, nodeTypeOf]
  | text => simp [rtest, nodeTest, hp, tPar1, tPar2, nodeTypeOf]
  | comment => simp [rtest, nodeTest, hp, tPar1, tPar2, nodeTypeOf]

theorem rtest_len (t : Test) : (rtest t).length ≥ 1 := by
  obtain ⟨k, tx, r, hr, _⟩ := rtest_head t; rw [hr]; simp

theorem step_of (ax : Axis) (t : Test) (ps : List Expr) (ht : testOk t = true) (hall : ∀ p ∈ ps, FB p) : SL (.mk ax t ps) := by
  intro f d rest hn hf hd
  obtain ⟨g, rfl⟩ : ∃ g, f = g + 2 := ⟨f - 2, by omega⟩
  simp only [heightStep] at hd
  have hrl := rtest_len t
  unfold astep at hf ⊢
  split at hf
  · next hc =>
    simp only [hc, if_true]
    simp only [Bool.and_eq_true, beq_iff_eq, List.isEmpty_iff] at hc
    obtain ⟨⟨rfl, hnt⟩, rfl⟩ := hc
    have : t = .node := by cases t <;> simp [isNodeT] at hnt <;> rfl
    subst this
    exact ⟨[], by simp [step, tDot]⟩
  · next hc1 =>
    simp only [hc1, Bool.false_eq_true, if_false]
    split at hf
    · next hc =>
      simp only [hc, if_true]
      simp only [Bool.and_eq_true, beq_iff_eq, List.isEmpty_iff] at hc
      obtain ⟨⟨rfl, hnt⟩, rfl⟩ := hc
      have : t = .node := by cases t <;> simp [isNodeT] at hnt <;> rfl
      subst this
      exact ⟨[], by simp [step, tDdot]⟩
    · next hc2 =>
      simp only [hc2, Bool.false_eq_true, if_false]
      split at hf
      · next hc =>
        simp only [hc, if_true]
        have hax : ax = .child := by simpa using hc
        subst hax
        simp only [List.length_append] at hf
        obtain ⟨p, hp⟩ := preds_of ps hall g d rest hn (by omega) (by omega)
        refine ⟨p, ?_⟩
        have hnt := nodeTest_rtest g d .child t ps p rest ht hp
        obtain ⟨k, tx, r, hr, hk⟩ := rtest_head t
        rw [List.append_assoc]
        rw [hr] at hnt ⊢
        rcases hk with rfl | rfl <;> simpa [step] using hnt
      · next hc3 =>
        simp only [hc3, Bool.false_eq_true, if_false]
        split at hf
        · next hc =>
          simp only [hc, if_true]
          have hax : ax = .attribute := by simpa using hc
          subst hax
          simp only [List.length_cons, List.length_append] at hf
          obtain ⟨p, hp⟩ := preds_of ps hall g d rest hn (by omega) (by omega)
          refine ⟨p, ?_⟩
          have hnt := nodeTest_rtest g d .attribute t ps p rest ht hp
          simpa [step, tAt] using hnt
        · next hc4 =>
          simp only [hc4, Bool.false_eq_true, if_false]
          simp only [List.length_cons, List.length_append] at hf
          obtain ⟨p, hp⟩ := preds_of ps hall g d rest hn (by omega) (by omega)
          refine ⟨p, ?_⟩
          have hnt := nodeTest_rtest g d ax t ps p rest ht hp
          simpa [step, tDcolon, LemmasTok.axisOf_axisBytes] using hnt

def NoCont (rest : List PT) : Prop := ∀ t r, rest = t :: r → t.1 ≠ .brack1 ∧ t.1 ≠ .operPath ∧ t.1 ≠ .operRpath

theorem Follow.noCont {lvl : Nat} {rest : List PT} (h : Follow lvl rest) : NoCont rest := by
  intro t r e; subst e
  rcases h.kind with h | h | h | h | h | h | h | h | h <;> simp [h]

theorem steps_of : ∀ (r : List Step) (s : Step), SL s → (∀ x ∈ r, SL x) → ∀ (f d : Nat) (rest : List PT), NoCont rest →
    f ≥ 32 * (astep s ++ asteps true r).length + 8 → d + heightSteps (s :: r) ≤ MAXD + 1 →
    ∃ p, relPath f d (astep s ++ asteps true r ++ rest) = some (s :: r, p, rest) := by
  intro r
  induction r with
  | nil =>
    intro s hs _ f d rest hn hf hd
    obtain ⟨g, rfl⟩ : ∃ g, f = g + 1 := ⟨f - 1, by omega⟩
    simp only [asteps, List.append_nil, heightSteps] at hf hd ⊢
    obtain ⟨p, hp⟩ := hs g d rest (fun t r e => (hn t r e).1) (by omega) (by omega)
    refine ⟨p, ?_⟩
    simp only [relPath, hp]
    cases rest with
    | nil => rfl
    | cons t r =>
      obtain ⟨k, tx⟩ := t
      have := hn (k, tx) r rfl
      cases k <;> simp_all
  | cons s2 r ih =>
    intro s hs hall f d rest hn hf hd
    obtain ⟨g, rfl⟩ : ∃ g, f = g + 1 := ⟨f - 1, by omega⟩
    simp only [asteps, if_true, heightSteps, List.length_append, List.length_cons, List.length_nil] at hf hd
    have e1 : astep s ++ asteps true (s2 :: r) ++ rest = astep s ++ tSlash :: (astep s2 ++ asteps true r ++ rest) := by
      simp [asteps]
    have hnb : NoBrack (tSlash :: (astep s2 ++ asteps true r ++ rest)) := by
      intro t r' e; simp only [List.cons.injEq] at e; rw [← e.1]; simp [tSlash]
    obtain ⟨p, hp⟩ := hs g d _ hnb (by omega) (by omega)
    obtain ⟨p2, hp2⟩ := ih s2 (hall s2 (by simp)) (fun x hx => hall x (by simp [hx])) g d rest hn
      (by simp only [List.length_append]; omega) (by simp only [heightSteps]; omega)
    rw [e1]
    simp only [relPath]
    rw [hp]
    simp only [tSlash]
    rw [hp2]
    exact ⟨_, rfl⟩

/-- a path-level expression is read back by `reparse_path_expr` -/
def N9 (e : Expr) : Prop :=
  ∀ (f d : Nat) (rest : List PT), Follow 9 rest → f ≥ 32 * (atoks e).length + 16 → d + height e ≤ MAXD + 1 →
    ∃ ps, levelP f 9 d (atoks e ++ rest) = some (e, ps, rest)

/-- from the parser of the own level of `e` to all levels below -/
theorem B_of_nat {e : Expr} (hw : wf e = true) (q : Nat) (hq : levelOf e = q) (hq1 : 1 ≤ q)
    (hN : ∀ (f d : Nat) (rest : List PT), Follow q rest → f ≥ 32 * (atoks e).length + 24 → d + height e ≤ MAXD + 1 →
      ∃ ps, levelP f q d (atoks e ++ rest) = some (e, ps, rest)) : B e := by
  intro lvl f d rest h1 hl9 hle hF hf hd
  have hlq : lvl ≤ q := by omega
  have hq9 : q ≤ 9 := by rw [← hq]; exact levelOf_le e
  rw [hq, Nat.min_eq_left hlq] at hF
  obtain ⟨k, hkq⟩ : ∃ k, q = lvl + k := ⟨q - lvl, by omega⟩
  obtain ⟨g, rfl⟩ : ∃ g, f = g + 2 * k := ⟨f - 2 * k, by omega⟩
  obtain ⟨ps, hps⟩ := hN g d rest (hF.mono hlq) (by omega) hd
  refine ⟨ps, liftN k (by rw [← hkq]; exact hps) hF (by omega) (by omega) ?_⟩
  intro _ _
  obtain ⟨kk, hk1, _, hk3⟩ := head_ok e hw rest
  rw [hk1]; intro h; exact hk3 (by omega) (Option.some.inj h)

theorem B_of_N9 {e : Expr} (hw : wf e = true) (h9 : levelOf e = 9) (hN : N9 e) : B e :=
  B_of_nat hw 9 h9 (by omega) (fun f d rest hF hf hd => hN f d rest hF (by omega) hd)

theorem N9_lit (s : Bytes) : N9 (.lit s) := by
  intro f d rest hF hf _
  obtain ⟨g, rfl⟩ : ∃ g, f = g + 4 := ⟨f - 4, by omega⟩
  refine ⟨[], ?_⟩
  rw [levelP_path]
  simp only [atoks, List.cons_append, List.nil_append, pathExpr]
  rw [postP_stop hF, LemmasTok.litOf_quoted]
  rfl

theorem N9_num (m sc : Nat) : N9 (.num m sc) := by
  intro f d rest hF hf _
  obtain ⟨g, rfl⟩ : ∃ g, f = g + 4 := ⟨f - 4, by omega⟩
  refine ⟨[], ?_⟩
  rw [levelP_path]
  simp only [atoks, List.cons_append, List.nil_append, pathExpr]
  rw [postP_stop hF, LemmasNumTok.numOf_numText]
  rfl


theorem postP_filter {lvl : Nat} {rest ts : List PT} (h : Follow lvl rest) (f d : Nat) (prim : Expr) (p0 p1 : List Push)
    (ps : List Expr) (hp : preds f d ts = some (ps, p1, rest)) :
    postP (f + 1) d prim p0 ts = some (if ps.isEmpty then prim else .filter prim ps, p0 ++ p1, rest) := by
  simp only [postP, hp]
  cases rest with
  | nil => simp
  | cons t r =>
    rcases h.kind with h | h | h | h | h | h | h | h | h <;> (obtain ⟨k, tx⟩ := t; simp only at h; subst h; simp)

theorem postP_path (f d : Nat) (prim : Expr) (p0 p2 : List Push) (R rest : List PT) (steps : List Step)
    (hr : relPath (f + 1) d R = some (steps, p2, rest)) :
    postP (f + 2) d prim p0 (tSlash :: R) = some (.path (.expr prim) steps, p0 ++ [] ++ p2, rest) := by
  have hn : NoBrack (tSlash :: R) := by
    intro t r' e; simp only [List.cons.injEq] at e; rw [← e.1]; simp [tSlash]
  simp only [postP, preds_stop hn]
  simp only [tSlash, hr, List.isEmpty_nil, if_true]

theorem funCall_nonempty (f d : Nat) (nm : Bytes) (g : XpConsts.Fn) (k : TK) (tx : Bytes) (r' : List PT)
    (hfind : XpConsts.fnTable.find? (fun x => x.bytes == nm) = some g) (hk : k ≠ .par2) :
    funCall (f + 1) d nm (tPar1 :: (k, tx) :: r') =
      match orExpr f d ((k, tx) :: r') with
      | none => none
      | some (a, p, r1) =>
        match args f d r1 with
        | some (as, p2, (.par2, _) :: r3) =>
          if argCountOk g (as.length + 1) then some (.fn g.name (a :: as), p ++ p2, r3) else none
        | _ => none := by
  simp only [funCall, hfind, tPar1]
  cases k <;> first | exact absurd rfl hk | rfl

theorem hk_some {ts : List PT} {k : TK} (h : hk ts = some k) : ∃ tx r, ts = (k, tx) :: r := by
  cases ts with
  | nil => simp [hk] at h
  | cons t r => obtain ⟨k', tx⟩ := t; simp [hk] at h; subst h; exact ⟨tx, r, rfl⟩

theorem N9_fn (name : String) (as : List Expr) (hw : wf (.fn name as) = true) (hall : ∀ a ∈ as, FB a) : N9 (.fn name as) := by
  intro f d rest hF hf hd
  obtain ⟨g, rfl⟩ : ∃ g, f = g + 5 := ⟨f - 5, by omega⟩
  have hw' : fnOk name as.length = true ∧ wfs as = true := by simpa [wf] using hw
  obtain ⟨fn, hfind, hname, hcnt⟩ := LemmasTok.fn_find name as.length hw'.1
  rw [levelP_path]
  simp only [height] at hd
  cases as with
  | nil =>
    refine ⟨[] ++ [], ?_⟩
    simp only [atoks, aargs, List.nil_append, List.cons_append, pathExpr, funCall, hfind, tPar1, tPar2]
    simp only [List.length_nil] at hcnt
    simp only [hcnt, if_true, hname]
    exact postP_stop hF _ _ _ _
  | cons a r =>
    have hwa : wf a = true := by simp [wfs] at hw'; exact hw'.2.1
    simp only [atoks, aargs, List.length_cons, List.length_append, List.length_nil, heights] at hf hd
    have e1 : atoks (.fn name (a :: r)) ++ rest =
        (.funcname, fnBytes name) :: tPar1 :: (atoks a ++ (aargs true r ++ tPar2 :: rest)) := by
      simp [atoks, aargs]
    obtain ⟨k, hk1, hk2, _⟩ := head_ok a hwa (aargs true r ++ tPar2 :: rest)
    obtain ⟨tx, r', hcons⟩ := hk_some hk1
    have hkne : k ≠ .par2 := by intro e; subst e; simp [startKinds] at hk2
    obtain ⟨p1, h1⟩ := hall a (by simp) (g + 2) d (aargs true r ++ tPar2 :: rest) (follow_rargs r rest) (by omega) (by omega)
    obtain ⟨p2, h2⟩ := args_of r (fun x hx => hall x (by simp [hx])) (g + 2) d rest (by omega) (by omega)
    refine ⟨(p1 ++ p2) ++ [], ?_⟩
    rw [e1]
    simp only [pathExpr]
    rw [hcons, funCall_nonempty _ _ _ fn k tx r' hfind hkne, ← hcons, h1]
    simp only
    rw [h2]
    simp only [tPar2]
    have hc : argCountOk fn (r.length + 1) = true := by simpa using hcnt
    simp only [hc, if_true, hname]
    exact postP_stop hF _ _ _ _


theorem N9_root (steps : List Step) (hall : ∀ s ∈ steps, SL s) : N9 (.path .root steps) := by
  intro f d rest hF hf hd
  obtain ⟨g, rfl⟩ : ∃ g, f = g + 3 := ⟨f - 3, by omega⟩
  rw [levelP_path]
  cases steps with
  | nil =>
    refine ⟨[], ?_⟩
    simp only [atoks, asteps, List.cons_append, List.nil_append, tSlash]
    cases rest with
    | nil => simp only [pathExpr]
    | cons t r =>
      rcases hF.kind with h | h | h | h | h | h | h | h | h <;>
        (obtain ⟨k, tx⟩ := t; simp only at h; subst h; simp only [pathExpr]; simp [isStepStart])
  | cons s r =>
    simp only [atoks, asteps, List.length_cons, List.length_append, List.length_nil, height, Bool.false_eq_true, if_false] at hf hd
    obtain ⟨p, hp⟩ := steps_of r s (hall s (by simp)) (fun x hx => hall x (by simp [hx])) (g + 1) d rest hF.noCont
      (by simp only [List.length_append]; omega) (by omega)
    obtain ⟨k, tx, r0, hh, hk⟩ := astep_head s
    have e1 : atoks (.path .root (s :: r)) ++ rest = tSlash :: (astep s ++ asteps true r ++ rest) := by simp [atoks, asteps]
    refine ⟨p, ?_⟩
    rw [e1]
    rw [hh] at hp ⊢
    simp only [List.cons_append, List.append_assoc, tSlash] at hp ⊢
    simp only [pathExpr]
    simp only [stepKinds, List.mem_cons, List.mem_nil_iff, or_false] at hk
    rcases hk with rfl | rfl | rfl | rfl | rfl | rfl <;> simp [isStepStart, hp]

theorem N9_ctx (s : Step) (r : List Step) (hall : ∀ x ∈ s :: r, SL x) : N9 (.path .ctx (s :: r)) := by
  intro f d rest hF hf hd
  obtain ⟨g, rfl⟩ : ∃ g, f = g + 3 := ⟨f - 3, by omega⟩
  rw [levelP_path]
  simp only [atoks, asteps, List.length_cons, List.length_append, List.length_nil, height, Bool.false_eq_true, if_false] at hf hd
  obtain ⟨p, hp⟩ := steps_of r s (hall s (by simp)) (fun x hx => hall x (by simp [hx])) (g + 1) d rest hF.noCont
    (by simp only [List.length_append]; omega) (by omega)
  obtain ⟨k, tx, r0, hh, hk⟩ := astep_head s
  have e1 : atoks (.path .ctx (s :: r)) ++ rest = astep s ++ asteps true r ++ rest := by simp [atoks, asteps]
  refine ⟨p, ?_⟩
  rw [e1]
  rw [hh] at hp ⊢
  simp only [List.cons_append, List.append_assoc] at hp ⊢
  simp only [stepKinds, List.mem_cons, List.mem_nil_iff, or_false] at hk
  rcases hk with rfl | rfl | rfl | rfl | rfl | rfl <;> (simp only [pathExpr]; simp [isStepStart, hp])

theorem N9_exprPath (e : Expr) (s : Step) (r : List Step) (hFB : FB e) (hall : ∀ x ∈ s :: r, SL x) :
    N9 (.path (.expr e) (s :: r)) := by
  intro f d rest hF hf hd
  obtain ⟨g, rfl⟩ : ∃ g, f = g + 4 := ⟨f - 4, by omega⟩
  rw [levelP_path]
  simp only [atoks, asteps, par, if_true, List.length_cons, List.length_append, List.length_nil, height] at hf hd
  obtain ⟨p, hp⟩ := steps_of r s (hall s (by simp)) (fun x hx => hall x (by simp [hx])) (g + 1) d rest hF.noCont
    (by simp only [List.length_append]; omega) (by omega)
  have e1 : atoks (.path (.expr e) (s :: r)) ++ rest =
      tPar1 :: (atoks e ++ tPar2 :: tSlash :: (astep s ++ asteps true r ++ rest)) := by simp [atoks, asteps, par]
  obtain ⟨p1, h1⟩ := hFB (g + 2) d (tPar2 :: tSlash :: (astep s ++ asteps true r ++ rest)) (Follow.par2 _ _) (by omega) (by omega)
  refine ⟨p1 ++ [] ++ p, ?_⟩
  rw [e1]
  simp only [pathExpr, tPar1]
  rw [h1]
  simp only [tPar2]
  exact postP_path g d e p1 p _ rest (s :: r) hp

theorem N9_filter (e : Expr) (ps : List Expr) (hne : ps.isEmpty = false) (hFB : FB e) (hall : ∀ p ∈ ps, FB p) :
    N9 (.filter e ps) := by
  intro f d rest hF hf hd
  obtain ⟨g, rfl⟩ : ∃ g, f = g + 4 := ⟨f - 4, by omega⟩
  rw [levelP_path]
  simp only [atoks, par, List.length_cons, List.length_append, List.length_nil, height] at hf hd
  obtain ⟨p, hp⟩ := preds_of ps hall (g + 1) d rest hF.noBrack (by omega) (by omega)
  have e1 : atoks (.filter e ps) ++ rest = tPar1 :: (atoks e ++ tPar2 :: (apreds ps ++ rest)) := by simp [atoks, par]
  obtain ⟨p1, h1⟩ := hFB (g + 2) d (tPar2 :: (apreds ps ++ rest)) (Follow.par2 _ _) (by omega) (by omega)
  refine ⟨p1 ++ p, ?_⟩
  rw [e1]
  simp only [pathExpr, tPar1]
  rw [h1]
  simp only [tPar2]
  rw [postP_filter hF (g + 1) d e p1 p ps hp, hne]
  rfl


/-! ### binary operators and unary minus -/

theorem chain_vacuous {e : Expr} (h : levelOf e = 9 ∨ levelOf e = 7 ∨ levelOf e = 0) : Chain e := by
  intro q f d rest hq h0 h7 h9; omega

theorem wrap_len_ge (lvl : Nat) (e : Expr) : (wrap lvl e (atoks e)).length ≥ (atoks e).length := by
  unfold wrap; split <;> simp [par] <;> omega

theorem chain_bin (op : BinOp) (a b : Expr) (hWa : W a) (hWb : W b) (hCa : Chain a) : Chain (.bin op a b) := by
  intro q f d rest hq h0 h7 h9 hF hf hd
  have hq' : opLevel op = q := by simpa [levelOf] using hq
  subst hq'
  obtain ⟨hp1, hp8, _⟩ := opLevel_pos op
  simp only [height] at hd
  have hlen : (atoks (.bin op a b)).length =
      (wrap (opLevel op) a (atoks a)).length + 1 + (wrap (opLevel op + 1) b (atoks b)).length := by
    simp [atoks]; omega
  have e1 : atoks (.bin op a b) ++ rest =
      wrap (opLevel op) a (atoks a) ++ opTok op :: (wrap (opLevel op + 1) b (atoks b) ++ rest) := by simp [atoks]
  have hFr : Follow (opLevel op + 1) (opTok op :: (wrap (opLevel op + 1) b (atoks b) ++ rest)) :=
    Follow.op _ op _ (by omega)
  -- the left operand, then the loop with `a` as the left operand
  have hleft : ∃ ps f', f' + 32 * (wrap (opLevel op) a (atoks a)).length + 1 ≥ f ∧
      binExpr f (opLevel op) d (atoks (.bin op a b) ++ rest) =
        binLoop f' (opLevel op) d (atoks (.bin op a b) ++ rest).length a ps
          (opTok op :: (wrap (opLevel op + 1) b (atoks b) ++ rest)) := by
    by_cases hla : levelOf a = opLevel op
    · have hw : wrap (opLevel op) a (atoks a) = atoks a := by simp [wrap, hla]
      rw [hw] at e1 hlen ⊢
      obtain ⟨ps, f', h1, _, h3⟩ := hCa (opLevel op) f d _ hla h0 h7 h9 hFr (by omega) (by omega)
      refine ⟨ps, f', h1, ?_⟩
      rw [e1, h3]
    · have hw : wrap (opLevel op) a (atoks a) = wrap (opLevel op + 1) a (atoks a) := by
        unfold wrap
        have : (levelOf a ≥ opLevel op) = (levelOf a ≥ opLevel op + 1) := by
          apply propext; constructor <;> intro h <;> omega
        simp only [this]
      obtain ⟨g, rfl⟩ : ∃ g, f = g + 1 := ⟨f - 1, by omega⟩
      rw [hw] at e1 hlen ⊢
      obtain ⟨ps, h1⟩ := hWa (opLevel op + 1) g d _ (by omega) (by omega) hFr (by omega) (by omega)
      refine ⟨ps, g, by omega, ?_⟩
      simp only [binExpr]
      rw [e1, h1]
  obtain ⟨ps, f', h1, h2⟩ := hleft
  have hwl := wrap_len_ge (opLevel op) a
  obtain ⟨g', rfl⟩ : ∃ g', f' = g' + 1 := ⟨f' - 1, by omega⟩
  obtain ⟨p2, hb⟩ := hWb (opLevel op + 1) g' d rest (by omega) (by omega) hF (by omega) (by omega)
  refine ⟨ps ++ ((atoks (.bin op a b) ++ rest).length, etOf (opLevel op)) :: p2, g', by omega, by omega, ?_⟩
  rw [h2]
  simp only [binLoop, opAt_opTok, if_true, hb]

theorem B_bin (op : BinOp) (a b : Expr) (hw : wf (.bin op a b) = true) (hC : Chain (.bin op a b)) : B (.bin op a b) := by
  obtain ⟨hp1, hp8, hp7⟩ := opLevel_pos op
  apply B_of_nat hw (opLevel op) (by simp [levelOf]) hp1
  intro f d rest hF hf hd
  obtain ⟨g, rfl⟩ : ∃ g, f = g + 1 := ⟨f - 1, by omega⟩
  rw [levelP_bin _ _ _ _ hp7 (by omega)]
  obtain ⟨ps, f', _, h2, h3⟩ := hC (opLevel op) g d rest (by simp [levelOf]) (by omega) hp7 (by omega) (hF.mono (by omega))
    (by omega) hd
  obtain ⟨g', rfl⟩ : ∃ g', f' = g' + 1 := ⟨f' - 1, by omega⟩
  exact ⟨ps, by rw [h3]; exact binLoop_stop hF (Nat.le_refl _) _ _ _ _ _⟩

theorem C_neg (a : Expr) (hC : C a) : C (.neg a) := by
  intro f d st rest hF hf hd
  obtain ⟨g, rfl⟩ : ∃ g, f = g + 1 := ⟨f - 1, by omega⟩
  have hw : wrap 7 (.neg a) (atoks (.neg a)) = tMinus :: wrap 7 a (atoks a) := by simp [wrap, levelOf, atoks]
  rw [hw] at hf ⊢
  simp only [height, List.length_cons] at hd hf
  obtain ⟨p, hp⟩ := hC g d st rest hF (by omega) (by omega)
  refine ⟨(st, XpConsts.etUnary) :: p, ?_⟩
  simp only [List.cons_append, negLoop, tMinus, List.head?_cons, hp]
  simp

theorem B_neg (a : Expr) (hw : wf (.neg a) = true) (hC : C a) : B (.neg a) := by
  apply B_of_nat hw 7 (by simp [levelOf]) (by omega)
  intro f d rest hF hf hd
  obtain ⟨g, rfl⟩ : ∃ g, f = g + 2 := ⟨f - 2, by omega⟩
  simp only [height, atoks, List.length_cons] at hd hf
  obtain ⟨p, hp⟩ := hC g d (atoks (.neg a) ++ rest).length rest hF (by omega) (by omega)
  refine ⟨((atoks (.neg a) ++ rest).length, XpConsts.etUnary) :: p, ?_⟩
  have e1 : levelP (g + 2) 7 d (atoks (.neg a) ++ rest) = negLoop (g + 1) d (atoks (.neg a) ++ rest).length (atoks (.neg a) ++ rest) := by
    simp [levelP]
  rw [e1]
  generalize (atoks (.neg a) ++ rest).length = st at hp ⊢
  simp only [atoks, List.cons_append, negLoop, tMinus, List.head?_cons, hp]
  simp


/-! ### all expressions -/

theorem B_slash : B (.path .root []) := by
  intro lvl f d rest h1 hl9 _ hF hf hd
  have hF0 : Follow 0 rest := by simpa [levelOf] using hF
  obtain ⟨k, hk9⟩ : ∃ k, 9 = lvl + k := ⟨9 - lvl, by omega⟩
  obtain ⟨g, rfl⟩ : ∃ g, f = g + 2 * k := ⟨f - 2 * k, by omega⟩
  obtain ⟨ps, hps⟩ := N9_root [] (by intro s hs; cases hs) g d rest (hF0.mono (by omega)) (by omega) hd
  refine ⟨ps, liftN k (by rw [← hk9]; exact hps) (hF0.mono (by omega)) (by omega) (by omega) ?_⟩
  intro _ _; simp [atoks, asteps, hk, tSlash]

theorem wfs_mem : ∀ (l : List Expr), wfs l = true → ∀ a ∈ l, wf a = true := by
  intro l
  induction l with
  | nil => intro _ a h; cases h
  | cons x r ih =>
    intro hw a h
    simp only [wfs, Bool.and_eq_true] at hw
    simp only [List.mem_cons] at h
    rcases h with rfl | h
    · exact hw.1
    · exact ih hw.2 a h

mutual
theorem good : ∀ (e : Expr), wf e = true → Chain e ∧ B e ∧ C e
  | .lit s, hw =>
    have hB := B_of_N9 hw rfl (N9_lit s)
    ⟨chain_vacuous (Or.inl rfl), hB, C_of_B hw (by intro a h; cases h) hB⟩
  | .num m sc, hw =>
    have hB := B_of_N9 hw rfl (N9_num m sc)
    ⟨chain_vacuous (Or.inl rfl), hB, C_of_B hw (by intro a h; cases h) hB⟩
  | .fn name as, hw =>
    have hws : wfs as = true := by simp only [wf, Bool.and_eq_true] at hw; exact hw.2
    have hB := B_of_N9 hw rfl (N9_fn name as hw (fun a ha => FB_of_B (goods as hws a ha)))
    ⟨chain_vacuous (Or.inl rfl), hB, C_of_B hw (by intro a h; cases h) hB⟩
  | .bin op a b, hw =>
    have hwa : wf a = true ∧ wf b = true := by simpa [wf] using hw
    have ga := good a hwa.1
    have gb := good b hwa.2
    have hc := chain_bin op a b (W_of_B ga.2.1) (W_of_B gb.2.1) ga.1
    have hB := B_bin op a b hw hc
    ⟨hc, hB, C_of_B hw (by intro a h; cases h) hB⟩
  | .neg a, hw =>
    have ga := good a (by simpa [wf] using hw)
    ⟨chain_vacuous (Or.inr (Or.inl rfl)), B_neg a hw ga.2.2, C_neg a ga.2.2⟩
  | .path .root [], hw => ⟨chain_vacuous (Or.inr (Or.inr rfl)), B_slash, C_of_B hw (by intro a h; cases h) B_slash⟩
  | .path .root (s :: r), hw =>
    have hB := B_of_N9 hw rfl (N9_root (s :: r) (goodSteps (s :: r) (by simpa [wf] using hw)))
    ⟨chain_vacuous (Or.inl rfl), hB, C_of_B hw (by intro a h; cases h) hB⟩
  | .path .ctx [], hw => by simp [wf] at hw
  | .path .ctx (s :: r), hw =>
    have hB := B_of_N9 hw rfl (N9_ctx s r (goodSteps (s :: r) (by simpa [wf] using hw)))
    ⟨chain_vacuous (Or.inl rfl), hB, C_of_B hw (by intro a h; cases h) hB⟩
  | .path (.expr e) [], hw => by simp [wf] at hw
  | .path (.expr e) (s :: r), hw =>
    have hw' : wf e = true ∧ wfSteps (s :: r) = true := by simpa [wf] using hw
    have hB := B_of_N9 hw rfl (N9_exprPath e s r (FB_of_B (good e hw'.1).2.1) (goodSteps (s :: r) hw'.2))
    ⟨chain_vacuous (Or.inl rfl), hB, C_of_B hw (by intro a h; cases h) hB⟩
  | .filter e ps, hw =>
    have hw' : (ps.isEmpty = false ∧ wf e = true) ∧ wfs ps = true := by simpa [wf] using hw
    have hB := B_of_N9 hw rfl (N9_filter e ps hw'.1.1 (FB_of_B (good e hw'.1.2).2.1)
      (fun p hp => FB_of_B (goods ps hw'.2 p hp)))
    ⟨chain_vacuous (Or.inl rfl), hB, C_of_B hw (by intro a h; cases h) hB⟩

theorem goods : ∀ (l : List Expr), wfs l = true → ∀ a ∈ l, B a
  | [], _, _, h => by cases h
  | x :: r, hw, a, h => by
    have hw' : wf x = true ∧ wfs r = true := by simpa [wfs] using hw
    simp only [List.mem_cons] at h
    rcases h with rfl | h
    · exact (good _ hw'.1).2.1
    · exact goods r hw'.2 a h

theorem goodSteps : ∀ (l : List Step), wfSteps l = true → ∀ s ∈ l, SL s
  | [], _, _, h => by cases h
  | x :: r, hw, a, h => by
    have hw' : wfStep x = true ∧ wfSteps r = true := by simpa [wfSteps] using hw
    simp only [List.mem_cons] at h
    rcases h with rfl | h
    · exact goodStep _ hw'.1
    · exact goodSteps r hw'.2 a h

theorem goodStep : ∀ (s : Step), wfStep s = true → SL s
  | .mk ax t ps, hw => by
    have hw' : testOk t = true ∧ wfs ps = true := by simpa [wfStep] using hw
    exact step_of ax t ps hw'.1 (fun p hp => FB_of_B (goods ps hw'.2 p hp))
end

/-- the token list of the canonical text is parsed back to the expression -/
theorem parseToks_rtoks (e : Expr) (hw : wf e = true) (hh : height e ≤ MAXD) :
    ∃ ps, parseToks (atoks e) = some (e, ps) := by
  obtain ⟨ps, h⟩ := FB_of_B (good e hw).2.1 (fuelFor (atoks e).length) 0 [] (Follow.nil 1) (by simp [fuelFor]) (by omega)
  simp only [List.append_nil] at h
  exact ⟨ps, by simp [parseToks, h]⟩

end LyModel.XPath.LemmasParseA
