import LyModel.XPath.Canon
/-!
Token-text lemmas for the round trip: the parser's readers (`axisOf`, `testOf`, `nodeTypeOf`, `litOf`, `numOf`, the function
table) invert the renderer's writers.
-/
namespace LyModel.XPath.LemmasTok
open LyModel LyModel.Generated LyModel.XPath.Lex LyModel.XPath.Parse LyModel.XPath.Render LyModel.XPath.Canon

theorem axisOf_axisBytes (a : Axis) : axisOf (axisBytes a) = some a := by cases a <;> rfl

/-! ### function table -/

theorem find_of_nodup : ∀ (l : List XpConsts.Fn), (l.map (·.bytes)).Nodup → ∀ g ∈ l, l.find? (fun x => x.bytes == g.bytes) = some g := by
  intro l
  induction l with
  | nil => intro _ g hg; cases hg
  | cons a r ih =>
    intro hn g hg
    simp only [List.map_cons, List.nodup_cons] at hn
    simp only [List.mem_cons] at hg
    rcases hg with rfl | hg
    · simp [List.find?]
    · have hne : (a.bytes == g.bytes) = false := by
        simp only [beq_eq_false_iff_ne, ne_eq]
        intro h
        exact hn.1 (by rw [h]; exact List.mem_map_of_mem hg)
      simp only [List.find?, hne]
      exact ih hn.2 g hg

theorem fnTable_nodup : (XpConsts.fnTable.map (·.bytes)).Nodup := by decide

/-- a function of the table written by the renderer is found again by the parser, with the same name -/
theorem fn_find (name : String) (n : Nat) (h : fnOk name n = true) :
    ∃ g, XpConsts.fnTable.find? (fun x => x.bytes == fnBytes name) = some g ∧ g.name = name ∧ argCountOk g n = true := by
  unfold fnOk at h
  unfold fnBytes
  cases hf : XpConsts.fnTable.find? (fun g => g.name == name) with
  | none => simp [hf] at h
  | some g =>
    simp only [hf] at h
    have hm := List.mem_of_find?_eq_some hf
    have hp := List.find?_some hf
    exact ⟨g, find_of_nodup _ fnTable_nodup g hm, by simpa using hp, h⟩

/-! ### names -/

theorem splitColon_plain : ∀ (l : Bytes), (∀ c ∈ l, c ≠ 0x3a) → splitColon l = (l, none) := by
  intro l
  induction l with
  | nil => intro _; rfl
  | cons c r ih =>
    intro h
    have hc : (c == 0x3a) = false := by simpa using h c (by simp)
    simp [splitColon, hc, ih (fun x hx => h x (by simp [hx]))]

theorem splitColon_pfx : ∀ (p l : Bytes), (∀ c ∈ p, c ≠ 0x3a) → splitColon (p ++ 0x3a :: l) = (p, some l) := by
  intro p
  induction p with
  | nil => intro l _; simp [splitColon]
  | cons c r ih =>
    intro l h
    have hc : (c == 0x3a) = false := by simpa using h c (by simp)
    simp [splitColon, hc, ih l (fun x hx => h x (by simp [hx]))]

theorem isName_facts {b : Bytes} (h : isName b = true) : (∀ c ∈ b, c ≠ 0x3a) ∧ b ≠ [0x2a] ∧ b ≠ [] := by
  have hi : Path.IsIdent b := by simpa [isName] using h
  cases hi with
  | mk c t hc ht =>
    refine ⟨?_, ?_, by simp⟩
    · intro x hx
      simp only [List.mem_cons] at hx
      rcases hx with rfl | hx
      · intro e; subst e; revert hc; decide
      · intro e; subst e; have := ht _ hx; revert this; decide
    · intro e
      simp only [List.cons.injEq] at e
      obtain ⟨rfl, _⟩ := e
      revert hc; decide

theorem testOf_name (loc : Bytes) (h : isName loc = true) : testOf loc = .name none loc := by
  obtain ⟨h1, h2, _⟩ := isName_facts h
  have : (loc == [0x2a]) = false := by simpa using h2
  simp [testOf, splitColon_plain loc h1, this]

theorem testOf_pname (p loc : Bytes) (hp : isName p = true) (h : isName loc = true) :
    testOf (p ++ 0x3a :: loc) = .name (some p) loc := by
  obtain ⟨h1, _, _⟩ := isName_facts hp
  obtain ⟨_, h2, _⟩ := isName_facts h
  have : (loc == [0x2a]) = false := by simpa using h2
  simp [testOf, splitColon_pfx p loc h1, this]

theorem testOf_anyIn (p : Bytes) (hp : isName p = true) : testOf (p ++ [0x3a, 0x2a]) = .anyIn p := by
  obtain ⟨h1, _, _⟩ := isName_facts hp
  simp [testOf, splitColon_pfx p [0x2a] h1]

theorem testOf_any : testOf [0x2a] = .any := by simp [testOf, splitColon]

theorem litOf_quoted (q : UInt8) (s : Bytes) : litOf (q :: (s ++ [q])) = .lit s := by
  simp [litOf]

end LyModel.XPath.LemmasTok
