import LyModel.Base
/-!
# Node-set ordering and merging  (component `XpSet`, property C08): models of `set_sort` and `set_sorted_merge` of `xpath.c`

* `setSort` — the bubble sort of `set_sort` with its alternating ("inverted") comparison direction and the early exit, over
  an arbitrary comparison function; `sortCompare` is `set_sort_compare` on items `(pos, node, type)` without metadata nodes.
* `sortedMerge` — `set_sorted_merge` on position keys with the original index arithmetic: `i`, `j`, `count`, `dup_count`, the
  block `memmove` + `memcpy` (`copyNodes`), the `goto copy_nodes` after the loop.  Every array access is bounds-checked
  against the allocated capacity `trg->used + src->used`; an out-of-bounds access makes the model return `none`.
Core Lean only.
-/
namespace LyModel.XPath.Set

/-! ## set_sort -/

/-- One run of the inner `for (j = 1; j < used - i; ++j)` loop over `cur :: rest`; `cur` is `nodes[j-1]`.
`inv` is the C variable `inverted`, `ch` is `change`. -/
def pass {α : Type} (cmp : α → α → Int) : Bool → α → List α → Bool → List α × Bool
  | _, cur, [], ch => ([cur], ch)
  | inv, cur, x :: rest, ch =>
    let c := if inv then cmp x cur else cmp cur x
    if (inv && c < 0) || (!inv && c > 0) then
      -- swap: nodes[j] becomes the old nodes[j-1]
      let r := pass cmp inv cur rest true
      (x :: r.1, r.2)
    else
      let r := pass cmp (!inv) x rest ch
      (cur :: r.1, r.2)

/-- The outer `for (i = 0; i < used; ++i)` loop.  `l` = `nodes[0 .. used-i)`, `done` = `nodes[used-i .. used)`,
`ret` = number of traversals so far; fuel = `used - i`. -/
def outer {α : Type} (cmp : α → α → Int) : Nat → List α → List α → Nat → List α × Nat
  | 0, l, done, ret => (l ++ done, ret)
  | f + 1, l, done, ret =>
    match l with
    | [] => (done, ret + 1)
    | cur :: rest =>
      let r := pass cmp false cur rest false
      if !r.2 then (r.1 ++ done, ret + 1)
      else match r.1.reverse with
        | [] => (done, ret + 1)
        | last :: revInit => outer cmp f revInit.reverse (last :: done) (ret + 1)

/-- `set_sort`: sorted array and the return value (traversals - 1) -/
def setSort {α : Type} (cmp : α → α → Int) (l : List α) : List α × Nat :=
  if l.length < 2 then (l, 0)
  else
    let r := outer cmp l.length l [] 0
    (r.1, r.2 - 1)

inductive NodeType
  | root | elem | text
deriving DecidableEq, Repr

structure Item where
  pos : Nat
  node : Nat
  type : NodeType
deriving DecidableEq, Repr

/-- `set_sort_compare` (metadata nodes excluded) -/
def sortCompare (a b : Item) : Int :=
  if a.pos < b.pos then -1
  else if a.pos > b.pos then 1
  else if a.node == b.node && a.type != b.type then (if a.type == .elem then -1 else 1)
  else if a.node == b.node then 0
  else if a.type == .elem then -1
  else if a.type == .text && b.type == .elem then 1
  else -1

/-! ## set_sorted_merge -/

structure MState where
  /-- `trg->val.nodes[0 .. trg->used)` -/
  t : List Nat
  i : Nat
  j : Nat
  count : Nat
  dup : Nat
deriving Repr

/-- the block at label `copy_nodes`:
`memmove(&trg[j + (count - dup)], &trg[j], used - j); memcpy(&trg[j - dup], &src[i - count], count); used += count - dup; j += count - dup` -/
def copyNodes (cap : Nat) (s : List Nat) (st : MState) : Option MState :=
  if st.dup ≤ st.j ∧ st.dup ≤ st.count ∧ st.count ≤ st.i ∧ st.j ≤ st.t.length ∧ st.i ≤ s.length ∧
      st.t.length + (st.count - st.dup) ≤ cap then
    some { t := st.t.take (st.j - st.dup) ++ ((s.drop (st.i - st.count)).take st.count ++ st.t.drop st.j),
           i := st.i, j := st.j + (st.count - st.dup), count := 0, dup := 0 }
  else none

/-- one iteration of the `do { … } while` body -/
def step (cap : Nat) (s : List Nat) (st : MState) : Option MState :=
  match s[st.i]?, st.t[st.j]? with
  | some a, some b =>
    if a == b then
      if st.count == 0 then some { st with i := st.i + 1, j := st.j + 1 }
      else some { st with count := st.count + 1, dup := st.dup + 1, i := st.i + 1, j := st.j + 1 }
    else if a < b then some { st with count := st.count + 1, i := st.i + 1 }
    else if st.count > 0 then copyNodes cap s st
    else some { st with j := st.j + 1 }
  | _, _ => none

def loop (cap : Nat) (s : List Nat) : Nat → MState → Option MState
  | 0, _ => none
  | f + 1, st =>
    match step cap s st with
    | none => none
    | some st' => if st'.i < s.length && st'.j < st'.t.length then loop cap s f st' else some st'

/-- `set_sorted_merge(trg, src)` on position keys; `none` = an index left the allocated array -/
def sortedMerge (t s : List Nat) : Option (List Nat) :=
  if s.isEmpty then some t
  else if t.isEmpty then some s
  else
    let cap := t.length + s.length
    match loop cap s (2 * cap + 2) { t := t, i := 0, j := 0, count := 0, dup := 0 } with
    | none => none
    | some st =>
      if st.i < s.length || st.count > 0 then
        match copyNodes cap s { st with count := st.count + (s.length - st.i), i := s.length } with
        | some st' => some st'.t
        | none => none
      else some st.t

end LyModel.XPath.Set
