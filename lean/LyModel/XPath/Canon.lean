import LyModel.XPath.Render
import LyModel.Path.LemmasToken
/-!
# Which expressions have a canonical text: `wf`, and the two measures the round-trip theorems are stated with

`wf e` excludes exactly what cannot be written down: a literal containing both quote characters, a function that is not in
libyang's table or is called with a wrong number of arguments, a name that is not an (ASCII) NCName, the empty relative
path, an empty predicate list of a filter, a path from an expression without steps.  `height` bounds the nesting of
`reparse_or_expr` calls (parentheses, predicates, arguments), `LYXP_MAX_BLOCK_DEPTH` limits it.
-/
namespace LyModel.XPath.Canon
open LyModel LyModel.Generated LyModel.XPath.Parse LyModel.XPath.Render

def isName (b : Bytes) : Bool := decide (Path.IsIdent b)

def testOk : Test → Bool
  | .name none loc => isName loc
  | .name (some p) loc => isName p && isName loc
  | .anyIn p => isName p
  | _ => true

def fnOk (name : String) (n : Nat) : Bool :=
  match XpConsts.fnTable.find? (fun g => g.name == name) with
  | some g => argCountOk g n
  | none => false

mutual
def wf : Expr → Bool
  | .lit s => !(s.contains 0x27 && s.contains 0x22)
  | .num _ _ => true
  | .fn name as => fnOk name as.length && wfs as
  | .bin _ a b => wf a && wf b
  | .neg a => wf a
  | .path .root steps => wfSteps steps
  | .path .ctx steps => !steps.isEmpty && wfSteps steps
  | .path (.expr e) steps => !steps.isEmpty && wf e && wfSteps steps
  | .filter e ps => !ps.isEmpty && wf e && wfs ps
def wfs : List Expr → Bool
  | [] => true
  | a :: r => wf a && wfs r
def wfSteps : List Step → Bool
  | [] => true
  | s :: r => wfStep s && wfSteps r
def wfStep : Step → Bool
  | .mk _ t ps => testOk t && wfs ps
end

mutual
/-- nesting of sub-expressions -/
def height : Expr → Nat
  | .lit _ => 1
  | .num _ _ => 1
  | .fn _ as => 1 + heights as
  | .bin _ a b => 1 + max (height a) (height b)
  | .neg a => 1 + height a
  | .path .root steps => 1 + heightSteps steps
  | .path .ctx steps => 1 + heightSteps steps
  | .path (.expr e) steps => 1 + max (height e) (heightSteps steps)
  | .filter e ps => 1 + max (height e) (heights ps)
def heights : List Expr → Nat
  | [] => 0
  | a :: r => max (height a) (heights r)
def heightSteps : List Step → Nat
  | [] => 0
  | s :: r => max (heightStep s) (heightSteps r)
def heightStep : Step → Nat
  | .mk _ _ ps => 1 + heights ps
end

end LyModel.XPath.Canon
