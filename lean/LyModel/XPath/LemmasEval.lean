import LyModel.XPath.Eval
/-! Lemmas about the evaluator: every node-set it produces is in document order without duplicates. -/
namespace LyModel.XPath
open LyModel

theorem allRefs_isNodeSet (d : Doc) (e : Bool) : IsNodeSet (d.allRefs e) := by
  unfold IsNodeSet Doc.allRefs
  exact List.Pairwise.filter _ List.pairwise_lt_range

theorem mkNs_isNodeSet (d : Doc) (e : Bool) (l : List Ref) : IsNodeSet (mkNs d e l) := by
  unfold mkNs
  exact List.Pairwise.filter _ (allRefs_isNodeSet d e)

theorem mem_mkNs (d : Doc) (e : Bool) (l : List Ref) (x : Ref) :
    x ∈ mkNs d e l ↔ x ∈ d.allRefs e ∧ x ∈ l := by
  simp [mkNs, List.mem_filter]

theorem Env.norm_isNodeSet (env : Env) (l : List Ref) : IsNodeSet (env.norm l) := mkNs_isNodeSet _ _ _

theorem isNodeSet_singleton (x : Ref) : IsNodeSet [x] := List.pairwise_singleton _ _

section
variable {N : Type} [XNum N]

/-- well-formed value: a node-set is strictly increasing in document order -/
def Value.WF : Value N → Prop
  | .ns l => IsNodeSet l
  | _ => True

theorem Except.bind_eq_ok {ε α β : Type} (x : Except ε α) (f : α → Except ε β) (b : β) :
    (x >>= f) = .ok b ↔ ∃ a, x = .ok a ∧ f a = .ok b := by
  cases x with
  | error e => simp [bind, Except.bind]
  | ok a => simp [bind, Except.bind]

theorem evalSteps_isNodeSet (env : Env) (steps : List Step) :
    ∀ (s r : List Ref), IsNodeSet s → evalSteps (N := N) env steps s = .ok r → IsNodeSet r := by
  induction steps with
  | nil =>
    intro s r hs h
    simp [evalSteps, pure, Except.pure] at h
    subst h; exact hs
  | cons st rest ih =>
    intro s r _ h
    cases st with
    | mk ax t preds =>
      rw [evalSteps] at h
      split at h
      · rw [Except.bind_eq_ok] at h
        obtain ⟨sel, _, h⟩ := h
        rw [Except.bind_eq_ok] at h
        obtain ⟨a, ha, hr⟩ := h
        simp only [pure, Except.pure, Except.ok.injEq] at ha
        subst ha
        exact ih _ r (env.norm_isNodeSet _) hr
      · rw [Except.bind_eq_ok] at h
        obtain ⟨sel, _, h⟩ := h
        rw [Except.bind_eq_ok] at h
        obtain ⟨a, ha, hr⟩ := h
        simp only [pure, Except.pure, Except.ok.injEq] at ha
        subst ha
        exact ih _ r (env.norm_isNodeSet _) hr

theorem callFn_wf (env : Env) (cx : Cx) (f : String) (args : List (Value N)) (v : Value N)
    (h : callFn env cx f args = .ok v) : v.WF := by
  unfold callFn at h
  split at h
  all_goals (first
    | (simp only [pure, Except.pure, Except.ok.injEq] at h; subst h; first | trivial | exact isNodeSet_singleton _)
    | (simp [throw, throwThe, MonadExceptOf.throw] at h; done)
    | skip)
  · simp only at h
    split at h <;> simp only [pure, Except.pure, Except.ok.injEq] at h <;> subst h
    · exact isNodeSet_singleton _
    · trivial
  · simp only at h
    split at h
    · simp only [pure, Except.pure, Except.ok.injEq] at h; subst h; trivial
    · split at h <;> simp only [pure, Except.pure, Except.ok.injEq] at h <;> subst h <;> trivial

/-- peel the binds of a `do` block whose last statement is `pure` of a non-node-set value -/
local macro "scalar " h:ident : tactic =>
  `(tactic| (repeat (rw [Except.bind_eq_ok] at $h:ident; obtain ⟨_, _, $h:ident⟩ := $h:ident)
             simp only [pure, Except.pure, Except.ok.injEq] at $h:ident
             subst $h:ident
             trivial))

theorem eval_wf (env : Env) (e : Expr) (cx : Cx) :
    ∀ v : Value N, eval env e cx = .ok v → v.WF := by
  apply eval.induct (N := N) env
    (motive_1 := fun e cx => ∀ v : Value N, eval env e cx = .ok v → v.WF)
    (motive_2 := fun _ _ => True) (motive_3 := fun _ _ => True)
    (motive_4 := fun st cx => ∀ l, evalStart (N := N) env st cx = .ok l → IsNodeSet l)
    (motive_5 := fun _ _ => True)
  all_goals (first
    | (intros; trivial; done)
    | skip)
  case case1 => intro s x v h; simp only [eval, pure, Except.pure, Except.ok.injEq] at h; subst h; trivial
  case case2 => intro m sc x v h; simp only [eval, pure, Except.pure, Except.ok.injEq] at h; subst h; trivial
  case case3 =>
    intro f args cx _ v h
    rw [eval, Except.bind_eq_ok] at h
    obtain ⟨vs, _, h⟩ := h
    exact callFn_wf env cx f vs v h
  case case4 => intro a cx _ v h; rw [eval] at h; scalar h
  case case5 =>
    intro a b cx _ _ v h
    rw [eval, Except.bind_eq_ok] at h
    obtain ⟨x, _, h⟩ := h
    split at h
    · scalar h
    · scalar h
  case case6 =>
    intro a b cx _ _ v h
    rw [eval, Except.bind_eq_ok] at h
    obtain ⟨x, _, h⟩ := h
    split at h
    · scalar h
    · scalar h
  case case7 =>
    intro a b cx _ _ v h
    rw [eval, Except.bind_eq_ok] at h
    obtain ⟨x, _, h⟩ := h
    rw [Except.bind_eq_ok] at h
    obtain ⟨y, _, h⟩ := h
    split at h
    · simp only [pure, Except.pure, Except.ok.injEq] at h; subst h; exact env.norm_isNodeSet _
    · simp [throw, throwThe, MonadExceptOf.throw] at h
  case case8 => intro a b cx _ _ v h; rw [eval] at h; scalar h
  case case9 => intro a b cx _ _ v h; rw [eval] at h; scalar h
  case case10 => intro a b cx _ _ v h; rw [eval] at h; scalar h
  case case11 => intro a b cx _ _ v h; rw [eval] at h; scalar h
  case case12 => intro a b cx _ _ v h; rw [eval] at h; scalar h
  case case13 => intro a b cx _ _ v h; rw [eval] at h; scalar h
  case case14 => intro a b cx _ _ v h; rw [eval] at h; scalar h
  case case15 => intro a b cx _ _ v h; rw [eval] at h; scalar h
  case case16 => intro a b cx _ _ v h; rw [eval] at h; scalar h
  case case17 => intro a b cx _ _ v h; rw [eval] at h; scalar h
  case case18 => intro a b cx _ _ v h; rw [eval] at h; scalar h
  case case19 =>
    intro start steps cx ihs _ v h
    rw [eval, Except.bind_eq_ok] at h
    obtain ⟨s, hs, h⟩ := h
    rw [Except.bind_eq_ok] at h
    obtain ⟨r, hr, h⟩ := h
    simp only [pure, Except.pure, Except.ok.injEq] at h; subst h
    exact evalSteps_isNodeSet env steps s r (ihs s hs) hr
  case case20 =>
    intro e preds cx _ _ v h
    rw [eval, Except.bind_eq_ok] at h
    obtain ⟨x, _, h⟩ := h
    split at h
    · rw [Except.bind_eq_ok] at h
      obtain ⟨r, _, h⟩ := h
      simp only [pure, Except.pure, Except.ok.injEq] at h; subst h; exact env.norm_isNodeSet _
    · simp [throw, throwThe, MonadExceptOf.throw] at h
  case case21 => intro x l h; simp only [evalStart, pure, Except.pure, Except.ok.injEq] at h; subst h; exact isNodeSet_singleton _
  case case22 => intro cx l h; simp only [evalStart, pure, Except.pure, Except.ok.injEq] at h; subst h; exact isNodeSet_singleton _
  case case23 =>
    intro e cx ih l h
    rw [evalStart, Except.bind_eq_ok] at h
    obtain ⟨x, hx, h⟩ := h
    split at h
    · simp only [pure, Except.pure, Except.ok.injEq] at h; subst h; exact ih _ hx
    · simp [throw, throwThe, MonadExceptOf.throw] at h

end
end LyModel.XPath
