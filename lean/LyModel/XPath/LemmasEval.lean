import LyModel.XPath.Eval
/-! Lemmas about the evaluator: every node-set it produces is in document order without duplicates. -/
namespace LyModel.XPath
open LyModel

theorem allRefs_isNodeSet (d : Doc) (e : Bool) : IsNodeSet (d.allRefs e) := by
  unfold IsNodeSet Doc.allRefs
  exact List.Pairwise.filter _ List.pairwise_lt_range

theorem mkNs_isNodeSet (d : Doc) (e : Bool) (l : List Ref) : IsNodeSet (mkNs d e l) := by
  unfold mkNs
  exact List.Pairwise.filter _ (allRefs_isNodeSet d e)

theorem mem_mkNs (d : Doc) (e : Bool) (l : List Ref) (x : Ref) :
    x ∈ mkNs d e l ↔ x ∈ d.allRefs e ∧ x ∈ l := by
  simp [mkNs, List.mem_filter]

theorem Env.norm_isNodeSet (env : Env) (l : List Ref) : IsNodeSet (env.norm l) := mkNs_isNodeSet _ _ _

theorem isNodeSet_singleton (x : Ref) : IsNodeSet [x] := List.pairwise_singleton _ _

section
variable {N : Type} [XNum N]

/-- well-formed value: a node-set is strictly increasing in document order -/
def Value.WF : Value N → Prop
  | .ns l => IsNodeSet l
  | _ => True

theorem Except.bind_eq_ok {ε α β : Type} (x : Except ε α) (f : α → Except ε β) (b : β) :
    (x >>= f) = .ok b ↔ ∃ a, x = .ok a ∧ f a = .ok b := by
  cases x with
  | error e => simp [bind, Except.bind]
  | ok a => simp [bind, Except.bind]

theorem evalSteps_isNodeSet (env : Env) (steps : List Step) :
    ∀ (s r : List Ref), IsNodeSet s → evalSteps (N := N) env steps s = .ok r → IsNodeSet r := by
  induction steps with
  | nil =>
    intro s r hs h
    simp [evalSteps, pure, Except.pure] at h
    subst h; exact hs
  | cons st rest ih =>
    intro s r _ h
    cases st with
    | mk ax t preds =>
      rw [evalSteps] at h
      split at h
      · rw [Except.bind_eq_ok] at h
        obtain ⟨sel, _, h⟩ := h
        rw [Except.bind_eq_ok] at h
        obtain ⟨a, ha, hr⟩ := h
        simp only [pure, Except.pure, Except.ok.injEq] at ha
        subst ha
        exact ih _ r (env.norm_isNodeSet _) hr
      · rw [Except.bind_eq_ok] at h
        obtain ⟨sel, _, h⟩ := h
        rw [Except.bind_eq_ok] at h
        obtain ⟨a, ha, hr⟩ := h
        simp only [pure, Except.pure, Except.ok.injEq] at ha
        subst ha
        exact ih _ r (env.norm_isNodeSet _) hr

theorem callCore_wf (env : Env) (cx : Cx) (f : String) (args : List (Value N)) (v : Value N)
    (h : callCore env cx f args = .ok v) : v.WF := by
  unfold callCore at h
  split at h
  all_goals (first
    | (simp only [pure, Except.pure, Except.ok.injEq] at h; subst h; first | trivial | exact isNodeSet_singleton _)
    | (simp [throw, throwThe, MonadExceptOf.throw] at h; done)
    | skip)
  · simp only at h
    split at h <;> simp only [pure, Except.pure, Except.ok.injEq] at h <;> subst h
    · exact isNodeSet_singleton _
    · trivial
  · simp only at h
    split at h
    · simp only [pure, Except.pure, Except.ok.injEq] at h; subst h; trivial
    · split at h <;> simp only [pure, Except.pure, Except.ok.injEq] at h <;> subst h <;> trivial

theorem derivedFn_wf (env : Env) (self : Bool) (l : List Ref) (name : Bytes) (v : Value N)
    (h : derivedFn env self l name = .ok v) : v.WF := by
  unfold derivedFn at h
  split at h
  · simp only [pure, Except.pure, Except.ok.injEq] at h; subst h; trivial
  all_goals first
    | (simp [throw, throwThe, MonadExceptOf.throw] at h; done)
    | (split at h <;> simp [throw, throwThe, MonadExceptOf.throw] at h)

theorem derefFn_wf (env : Env) (l : List Ref) (v : Value N) (h : derefFn env l = .ok v) : v.WF := by
  unfold derefFn at h
  split at h
  · simp only [pure, Except.pure, Except.ok.injEq] at h; subst h; exact List.Pairwise.nil
  · split at h
    · simp only [pure, Except.pure, Except.ok.injEq] at h; subst h; exact List.Pairwise.nil
    · split at h
      · simp [throw, throwThe, MonadExceptOf.throw] at h
      · simp only [pure, Except.pure, Except.ok.injEq] at h; subst h; exact env.norm_isNodeSet _

theorem instTarget_isNodeSet (env : Env) (x : Ref) (ts : List Ref) (h : env.instTarget x = some ts) : IsNodeSet ts := by
  unfold Env.instTarget at h
  split at h
  · split at h
    · simp only [Option.some.injEq] at h; subst h
      exact List.Pairwise.sublist (List.take_sublist _ _) (env.norm_isNodeSet _)
    · cases h
  · cases h

theorem derefAny_wf (env : Env) (l : List Ref) (v : Value N) (h : derefAny env l = .ok v) : v.WF := by
  cases l with
  | nil => simp only [derefAny, pure, Except.pure, Except.ok.injEq] at h; subst h; exact List.Pairwise.nil
  | cons x rest =>
    simp only [derefAny] at h
    cases hl : env.leafrefTargets x with
    | some ts => rw [hl] at h; exact derefFn_wf _ _ _ h
    | none =>
      rw [hl] at h; simp only at h
      cases hi : env.instTarget x with
      | none => rw [hi] at h; simp only [pure, Except.pure, Except.ok.injEq] at h; subst h; exact List.Pairwise.nil
      | some ts =>
        rw [hi] at h; simp only at h
        split at h
        · simp [throw, throwThe, MonadExceptOf.throw] at h
        · simp only [pure, Except.pure, Except.ok.injEq] at h; subst h; exact instTarget_isNodeSet env x ts hi

theorem callYang_wf (env : Env) (f : String) (args : List (Value N)) (r : Except Err (Value N)) (v : Value N)
    (h : callYang env f args = some r) (hv : r = .ok v) : v.WF := by
  unfold callYang at h
  split at h
  all_goals (first
    | (simp only [Option.some.injEq] at h; subst h
       first
        | exact derivedFn_wf _ _ _ _ _ hv
        | exact derefAny_wf _ _ _ hv
        | (simp [throw, throwThe, MonadExceptOf.throw] at hv; done)
        | (simp only [pure, Except.pure, Except.ok.injEq] at hv; subst hv; trivial)
        | (split at hv
           · simp only [pure, Except.pure, Except.ok.injEq] at hv; subst hv; trivial
           · simp [throw, throwThe, MonadExceptOf.throw] at hv))
    | (simp at h; done))

theorem callFn_wf (env : Env) (cx : Cx) (f : String) (args : List (Value N)) (v : Value N)
    (h : callFn env cx f args = .ok v) : v.WF := by
  unfold callFn at h
  split at h
  · rename_i r hr; exact callYang_wf env f args r v hr h
  · exact callCore_wf env cx f args v h

theorem mapM'_pure (g : Ref → List Ref) : ∀ s : List Ref, mapM' (fun c => (pure (g c) : Except Err (List Ref))) s = .ok (s.flatMap g) := by
  intro s
  induction s with
  | nil => rfl
  | cons a r ih =>
    rw [mapM']
    simp only [pure, Except.pure, bind, Except.bind] at ih ⊢
    rw [ih]
    rfl

/-- A step without predicates, XPath 1.0 semantics (every switch off): the result contains exactly the nodes of the document that
are on the axis of some context node and pass the node test. -/
theorem step_exact (env : Env) (hq : env.q.predMerged = false) (ax : Axis) (t : Test) (s : List Ref) :
    ∃ r, evalSteps (N := N) env [.mk ax t []] s = .ok r ∧ IsNodeSet r ∧
      ∀ x, x ∈ r ↔ x ∈ env.all ∧ ∃ c ∈ s, env.inAxis ax c x = true ∧ env.matchTest ax t x = true := by
  refine ⟨env.norm (s.flatMap (env.candidates ax t)), ?_, env.norm_isNodeSet _, ?_⟩
  · rw [evalSteps]
    simp only [hq, Bool.false_eq_true, if_false]
    have h1 : (fun c => evalPreds (N := N) env [] (if ax.isReverse = true then (env.candidates ax t c).reverse else env.candidates ax t c)) =
        (fun c => (pure (if ax.isReverse = true then (env.candidates ax t c).reverse else env.candidates ax t c) : Except Err (List Ref))) := by
      funext c; rw [evalPreds]
    rw [h1, mapM'_pure]
    simp only [bind, Except.bind, pure, Except.pure, evalSteps]
    congr 1
    -- normalisation forgets the axis order
    unfold Env.norm mkNs
    apply List.filter_congr
    intro x _
    simp only [List.contains_eq_mem, List.mem_flatMap, decide_eq_decide]
    constructor
    · rintro ⟨c, hc, hx⟩; refine ⟨c, hc, ?_⟩; split at hx <;> simpa using hx
    · rintro ⟨c, hc, hx⟩; refine ⟨c, hc, ?_⟩; split <;> simpa using hx
  · intro x
    unfold Env.norm
    rw [mem_mkNs]
    simp only [Env.all, List.mem_flatMap, Env.candidates, List.mem_filter, Bool.and_eq_true]
    constructor
    · rintro ⟨hx, c, hc, _, h1, h2⟩; exact ⟨hx, c, hc, h1, h2⟩
    · rintro ⟨hx, c, hc, h1, h2⟩; exact ⟨hx, c, hc, hx, h1, h2⟩

/-- `|`: exactly the nodes of either operand -/
theorem union_exact (env : Env) (a b : Expr) (cx : Cx) (l1 l2 : List Ref)
    (ha : eval (N := N) env a cx = .ok (.ns l1)) (hb : eval (N := N) env b cx = .ok (.ns l2)) :
    ∃ r, eval (N := N) env (.bin .union a b) cx = .ok (.ns r) ∧ IsNodeSet r ∧
      ∀ x, x ∈ r ↔ x ∈ env.all ∧ (x ∈ l1 ∨ x ∈ l2) := by
  refine ⟨env.norm (l1 ++ l2), ?_, env.norm_isNodeSet _, ?_⟩
  · rw [eval, ha, hb]; rfl
  · intro x
    unfold Env.norm
    rw [mem_mkNs]
    simp [Env.all]

/-- peel the binds of a `do` block whose last statement is `pure` of a non-node-set value -/
local macro "scalar " h:ident : tactic =>
  `(tactic| (repeat (rw [Except.bind_eq_ok] at $h:ident; obtain ⟨_, _, $h:ident⟩ := $h:ident)
             simp only [pure, Except.pure, Except.ok.injEq] at $h:ident
             subst $h:ident
             trivial))

theorem eval_wf (env : Env) (e : Expr) (cx : Cx) :
    ∀ v : Value N, eval env e cx = .ok v → v.WF := by
  apply eval.induct (N := N) env
    (motive_1 := fun e cx => ∀ v : Value N, eval env e cx = .ok v → v.WF)
    (motive_2 := fun _ _ => True) (motive_3 := fun _ _ => True)
    (motive_4 := fun st cx => ∀ l, evalStart (N := N) env st cx = .ok l → IsNodeSet l)
    (motive_5 := fun _ _ => True)
  all_goals (first
    | (intros; trivial; done)
    | skip)
  case case1 => intro s x v h; simp only [eval, pure, Except.pure, Except.ok.injEq] at h; subst h; trivial
  case case2 => intro m sc x v h; simp only [eval, pure, Except.pure, Except.ok.injEq] at h; subst h; trivial
  case case3 =>
    intro f args cx _ v h
    rw [eval, Except.bind_eq_ok] at h
    obtain ⟨vs, _, h⟩ := h
    exact callFn_wf env cx f vs v h
  case case4 => intro a cx _ v h; rw [eval] at h; scalar h
  case case5 =>
    intro a b cx _ _ v h
    rw [eval, Except.bind_eq_ok] at h
    obtain ⟨x, _, h⟩ := h
    split at h
    · scalar h
    · scalar h
  case case6 =>
    intro a b cx _ _ v h
    rw [eval, Except.bind_eq_ok] at h
    obtain ⟨x, _, h⟩ := h
    split at h
    · scalar h
    · scalar h
  case case7 =>
    intro a b cx _ _ v h
    rw [eval, Except.bind_eq_ok] at h
    obtain ⟨x, _, h⟩ := h
    rw [Except.bind_eq_ok] at h
    obtain ⟨y, _, h⟩ := h
    split at h
    · simp only [pure, Except.pure, Except.ok.injEq] at h; subst h; exact env.norm_isNodeSet _
    · simp [throw, throwThe, MonadExceptOf.throw] at h
  case case8 => intro a b cx _ _ v h; rw [eval] at h; scalar h
  case case9 => intro a b cx _ _ v h; rw [eval] at h; scalar h
  case case10 => intro a b cx _ _ v h; rw [eval] at h; scalar h
  case case11 => intro a b cx _ _ v h; rw [eval] at h; scalar h
  case case12 => intro a b cx _ _ v h; rw [eval] at h; scalar h
  case case13 => intro a b cx _ _ v h; rw [eval] at h; scalar h
  case case14 => intro a b cx _ _ v h; rw [eval] at h; scalar h
  case case15 => intro a b cx _ _ v h; rw [eval] at h; scalar h
  case case16 => intro a b cx _ _ v h; rw [eval] at h; scalar h
  case case17 => intro a b cx _ _ v h; rw [eval] at h; scalar h
  case case18 => intro a b cx _ _ v h; rw [eval] at h; scalar h
  case case19 =>
    intro start steps cx ihs _ v h
    rw [eval, Except.bind_eq_ok] at h
    obtain ⟨s, hs, h⟩ := h
    rw [Except.bind_eq_ok] at h
    obtain ⟨r, hr, h⟩ := h
    simp only [pure, Except.pure, Except.ok.injEq] at h; subst h
    exact evalSteps_isNodeSet env steps s r (ihs s hs) hr
  case case20 =>
    intro e preds cx _ _ v h
    rw [eval, Except.bind_eq_ok] at h
    obtain ⟨x, _, h⟩ := h
    split at h
    · rw [Except.bind_eq_ok] at h
      obtain ⟨r, _, h⟩ := h
      simp only [pure, Except.pure, Except.ok.injEq] at h; subst h; exact env.norm_isNodeSet _
    · simp [throw, throwThe, MonadExceptOf.throw] at h
  case case21 => intro x l h; simp only [evalStart, pure, Except.pure, Except.ok.injEq] at h; subst h; exact isNodeSet_singleton _
  case case22 => intro cx l h; simp only [evalStart, pure, Except.pure, Except.ok.injEq] at h; subst h; exact isNodeSet_singleton _
  case case23 =>
    intro e cx ih l h
    rw [evalStart, Except.bind_eq_ok] at h
    obtain ⟨x, hx, h⟩ := h
    split at h
    · simp only [pure, Except.pure, Except.ok.injEq] at h; subst h; exact ih _ hx
    · simp [throw, throwThe, MonadExceptOf.throw] at h

end
end LyModel.XPath
