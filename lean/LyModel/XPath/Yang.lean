import LyModel.XPath.Doc
import LyModel.XPath.Ast
import LyModel.XPath.Str
import LyModel.Val.Ident
import LyModel.XsdRe.Parse
import LyModel.XPath.YangInst
/-!
# Schema facts and the tree-independent parts of the RFC 7950 §10 XPath functions  (component `XpCore`, property C08)

The XML view of a data tree (`Doc`) does not carry what `derived-from`, `enum-value`, `deref` and the type-aware comparison
need from the schema.  `Facts` is that part of the schema, written by the python side FROM THE YANG TEXT of the test modules
(never asked from libyang) and sent as `#…` header lines in front of the dump (format: `Drv.parseDump`):

* `#mods <module>*`                                   the implemented modules (a prefix of an XPath literal is a module name)
* `#ident <mod>:<name> <base mod:name>*`              one line per `identity`, bases before the identities derived from them
* `#enum <schema-path> <enum-name>=<int>*`            leaves whose type IS an enumeration (not a leafref to one)
* `#leafref <schema-path> <hex of the path text>`     `type leafref { path … }`
* `#type <schema-path> <descriptor>`                  value type of a terminal that is neither string, boolean nor enumeration:
                                                      the descriptors of `Val.Drv.parseTy` (`i32`, `u8`, `d2`, `bits:<hex>=<pos>,…`)
                                                      or `idref:<mod>:<name>,…` (the bases)
                                                      or `union:<member>|<member>…` in the order of the `type` statements, member = one of
                                                      the above, `enum:<hex name>,…` or `str`
* `#inst <schema-path>`                               `type instance-identifier` (`deref()`, `YangInst.lean`)

`<schema-path>` = `/mod:name/mod:name…` of the data node without predicates (choice / case are not part of it).

Reused models: identity derivation `Val.Ident.isDerived` (transitive, irreflexive; `Val/LemmasIdent.lean`), the value
canonisers `Val.store` / `Val.canon` and `Val.Ident.storeId` / `canonId` (property C03), the XSD regular expression parser
and derivative matcher `XsdRe.parseXsd` / `Regex.matches` (property C18).   Core Lean only.
-/
namespace LyModel.XPath
open LyModel

/-- member type of a union, as far as the comparison canonisation needs it -/
inductive UMem
  | val (t : Val.Ty)
  | idref (bases : List Val.Ident.Ident)
  | enm (names : List Bytes)
  | str

/-- value type of a terminal, as far as the comparison canonisation needs it -/
inductive NodeTy
  | val (t : Val.Ty)
  | idref (bases : List Val.Ident.Ident)
  /-- `type union`: the member types in the order of the `type` statements -/
  | union (ms : List UMem)

structure Facts where
  mods : List Bytes := []
  idctx : Val.Ident.IdCtx := { defs := [] }
  enums : List (Bytes × List (Bytes × Int)) := []
  /-- leafref path: absolute?, steps (axis, node test) — paths with predicates are not represented -/
  lrefs : List (Bytes × Bool × List (Axis × Test)) := []
  types : List (Bytes × NodeTy) := []
  /-- schema paths of the terminals of type `instance-identifier` (`#inst <schema-path>`) -/
  insts : List Bytes := []

namespace Doc

def spathFuel (d : Doc) : Nat → Nat → Bytes
  | 0, _ => []
  | f + 1, i =>
    if i == 0 then [] else
    match d.elems[i - 1]? with
    | some e => spathFuel d f e.parent ++ [0x2f] ++ e.mod ++ [0x3a] ++ e.name
    | none => []

/-- schema path `/mod:name/…` of an element node; empty for the root and for text nodes -/
def spath (d : Doc) (r : Ref) : Bytes := if r.isElem then d.spathFuel (d.elems.size + 1) (r / 2) else []

end Doc

namespace Yang
/-- an identity `(module, name)` -/
abbrev Idn := Val.Ident.Ident

/-- identity a canonical identityref value `module:name` denotes (`dflt` = module of the node, never needed for canonical values) -/
def identOfValue (dflt : Bytes) (v : Bytes) : Idn :=
  match Val.Ident.splitPrefix v with
  | (some m, n) => ⟨m, n⟩
  | (none, n) => ⟨dflt, n⟩

/-- outcome of looking up the identity named by the second argument of `derived-from(-or-self)` -/
inductive IdLookup
  | ok (i : Idn)
  /-- prefix is not an implemented module (`moveto_resolve_model`: LY_EVALID "Unknown/non-implemented module") -/
  | noModule
  /-- no such identity in the module (LY_EVALID "Identity … not found") -/
  | notFound
  /-- no prefix and no current node: `xpath_derived_ident_module` falls back to `set->cur_mod`, which is NULL for JSON-format
      expressions evaluated at the root (finding F353: NULL dereference) -/
  | nullMod
deriving DecidableEq

/-- `xpath_derived_ident_module` + the search loop of `xpath_derived_`: the name is split at the FIRST colon; the prefix is a module
name (LY_VALUE_JSON); without a prefix the module is that of the `current()` node (`curMod`) -/
def lookupIdent (f : Facts) (curMod : Option Bytes) (s : Bytes) : IdLookup :=
  let (pfx, name) := Val.Ident.splitPrefix s
  let m : Option (Option Bytes) :=
    match pfx with
    | some p => if f.mods.contains p then some (some p) else none
    | none => if name == [0x2a] then some none else some curMod      -- a lone `*` means "all modules" to moveto_resolve_model: NULL
  match m with
  | none => .noModule
  | some none => .nullMod
  | some (some mod) =>
    match f.idctx.defs.find? fun d => d.id.mod == mod && d.id.name == name with
    | some d => .ok d.id
    | none => .notFound

/-- is element `e` an identityref terminal whose identity is (equal to, when `self`, or) derived from `id`? -/
def elemDerived (f : Facts) (self : Bool) (id : Idn) (e : Elem) : Bool :=
  e.term && e.btype == "identityref".toUTF8.toList &&
    ((self && id == identOfValue e.mod e.value) || Val.Ident.isDerived f.idctx id (identOfValue e.mod e.value))

/-- the loop of `xpath_derived_` over the node-set (text nodes and the root node are skipped) -/
def derivedAny (f : Facts) (d : Doc) (self : Bool) (id : Idn) (l : List Ref) : Bool :=
  l.any fun x => match d.elem? x with
    | some e => elemDerived f self id e
    | none => false

/-- `xpath_enum_value`: the integer of the first node's enum, when the first node is a terminal whose TYPE IS an enumeration -/
def enumValue (f : Facts) (d : Doc) (l : List Ref) : Option Int :=
  match l with
  | [] => none
  | x :: _ =>
    match d.elem? x with
    | some e => if e.term then (f.enums.lookup (d.spath x)).bind fun items => items.lookup e.value else none
    | none => none

/-- `xpath_bit_is_set`: first node is a `bits` terminal and the bit name is one of the words of its canonical value -/
def bitIsSet (d : Doc) (l : List Ref) (bit : Bytes) : Bool :=
  match l with
  | [] => false
  | x :: _ =>
    match d.elem? x with
    | some e => e.term && e.btype == "bits".toUTF8.toList && (Str.words e.value).contains bit
    | none => false

/-- `xpath_re_match`: the pattern is an XSD regular expression (RFC 7950 §10.2.1), matched against the whole string;
`none` = the pattern does not compile (LY_EVALID) -/
def reMatch (s p : Bytes) : Option Bool :=
  match XsdRe.parseXsd p with
  | .error _ => none
  | .ok pat =>
    match XsdRe.decodeUtf8 s with
    | none => none
    | some cs => some (pat.toRegex.matches cs)

/-- one member type applied to the string: `some` canonical form when the member's store callback accepts it (LYD_HINT_DATA, JSON
prefixes, default module = module of the node); enumeration and string members have no canonical form other than the string itself -/
def canonMem (f : Facts) (nodeMod : Bytes) (m : UMem) (s : Bytes) : Option Bytes :=
  match m with
  | .val t =>
    match Val.store t Generated.LYD_HINT_DATA s with
    | .ok v => some (Val.canon t v)
    | .error _ => none
  | .idref bases =>
    match Val.Ident.storeId f.idctx bases { table := f.mods.map fun m => (m, m), dflt := some nodeMod } Generated.LYD_HINT_DATA s with
    | .ok i => some (Val.Ident.canonId i)
    | .error _ => none
  | .enm names => if names.contains s then some s else none
  | .str => some s

/-- `lyplg_type_store_union` + canonical value of the result: the members are tried in order, the first that accepts the string wins;
the string stays as it is when no member accepts it -/
def canonUnion (f : Facts) (nodeMod : Bytes) : List UMem → Bytes → Bytes
  | [], s => s
  | m :: ms, s =>
    match canonMem f nodeMod m s with
    | some c => c
    | none => canonUnion f nodeMod ms s

/-- `set_comp_canonize` for a node of type `ty`: the string is stored through the type plugin (hints of data values, JSON prefixes,
default module = module of the node); on success it is replaced by the canonical value, otherwise it stays as it is -/
def canonize (f : Facts) (nodeMod : Bytes) (ty : NodeTy) (s : Bytes) : Bytes :=
  match ty with
  | .union ms => canonUnion f nodeMod ms s
  | .val t =>
    match Val.store t Generated.LYD_HINT_DATA s with
    | .ok v => Val.canon t v
    | .error _ => s
  | .idref bases =>
    match Val.Ident.storeId f.idctx bases { table := f.mods.map fun m => (m, m), dflt := some nodeMod } Generated.LYD_HINT_DATA s with
    | .ok i => Val.Ident.canonId i
    | .error _ => s

end Yang
end LyModel.XPath
