import LyModel.XPath.NumLex
import LyModel.XPath.Str
import LyModel.XPath.Comp
/-! Lemmas about the conversion cells: number formatting, number lexing, floor/ceiling/round, string-length, lyxp_set_cast. -/
namespace LyModel.XPath
open LyModel

namespace NumLex

/-- integers and numbers with one fractional digit are printed as the REC demands -/
theorem fmtC_eq_fmtRec_of_scale_le_one (d : Dec) (h : d.normalize.scale ≤ 1) : fmtC d = fmtRec d := by
  unfold fmtC fmtRec
  simp only
  by_cases h0 : d.normalize.mant = 0
  · simp [h0]
  · have h0' : (d.normalize.mant == 0) = false := by simpa using h0
    simp only [h0', Bool.false_eq_true, if_false]
    by_cases h1 : d.normalize.scale = 0
    · simp [h1]
    · have h2 : d.normalize.scale = 1 := by omega
      have h1' : (d.normalize.scale == 0) = false := by simpa using h1
      simp only [h1', h2, Bool.false_eq_true, if_false, beq_self_eq_true, if_true, Nat.pow_one, Nat.sub_self, Nat.pow_zero,
        Nat.div_one]
      congr 1
      congr 1
      -- one fraction digit: padLeft 1 of a single digit string is the string itself
      have hlt : d.normalize.mant % 10 < 10 := Nat.mod_lt _ (by decide)
      generalize d.normalize.mant % 10 = r at hlt
      have : r = 0 ∨ r = 1 ∨ r = 2 ∨ r = 3 ∨ r = 4 ∨ r = 5 ∨ r = 6 ∨ r = 7 ∨ r = 8 ∨ r = 9 := by omega
      rcases this with rfl | rfl | rfl | rfl | rfl | rfl | rfl | rfl | rfl | rfl <;> rfl

theorem fmtC_ne_fmtRec_witness : fmtC ⟨false, 25, 2⟩ ≠ fmtRec ⟨false, 25, 2⟩ := by decide

theorem floorC_ne_witness : floorC ⟨true, 15, 1⟩ ≠ floorRec ⟨true, 15, 1⟩ := by decide
theorem ceilC_ne_witness : ceilC ⟨true, 15, 1⟩ ≠ ceilRec ⟨true, 15, 1⟩ := by decide
theorem roundC_ne_witness : roundC ⟨true, 1, 0⟩ ≠ roundRec ⟨true, 1, 0⟩ := by decide

/-- truncation is `floor` on non-negative numbers and on integers -/
theorem floorC_eq (d : Dec) (h : d.neg = false ∨ d.isInt = true) : floorC d = floorRec d := by
  unfold floorC floorRec truncC
  rcases h with h | h <;> simp [h]

/-- truncation + 1 is `ceiling` on non-negative numbers; on integers both are the identity -/
theorem ceilC_eq (d : Dec) (h : d.neg = false ∨ d.isInt = true) : ceilC d = ceilRec d := by
  unfold ceilC ceilRec truncC
  rcases h with h | h
  · cases hi : d.isInt <;> simp [h, hi, sgn]
  · simp [h]

/-- `round` by truncation of `x + 0.5` is right for non-negative numbers -/
theorem roundC_eq (d : Dec) (h : d.neg = false) : roundC d = roundRec d := by
  unfold roundC roundRec
  apply floorC_eq
  left
  unfold Dec.addHalf
  simp [h]

theorem strtold_ne_rec_witnesses :
    strtoldNumber [0x31, 0x65, 0x33] ≠ recNumber [0x31, 0x65, 0x33] ∧          -- "1e3"
    strtoldNumber [0x2b, 0x31] ≠ recNumber [0x2b, 0x31] ∧                      -- "+1"
    strtoldNumber [0x30, 0x78, 0x31, 0x30] ≠ recNumber [0x30, 0x78, 0x31, 0x30] ∧ -- "0x10"
    strtoldNumber [0x31, 0x32, 0x20] ≠ recNumber [0x31, 0x32, 0x20] ∧          -- "12 "
    strtoldNumber [0x69, 0x6e, 0x66] ≠ recNumber [0x69, 0x6e, 0x66] := by       -- "inf"
  decide

/-! ### string → number on the common lexical subset -/

def plainFacts (b : UInt8) : Bool :=
  !isCSpace b && !isXmlWs b && b != 0x2d && b != 0x2b && lower b != 0x69 && lower b != 0x6e && lower b != 0x65 &&
    lower b != 0x78

set_option maxRecDepth 20000 in
theorem plain_facts_fin :
    ∀ i : Fin 256, isPlainChar (UInt8.ofNat i.val) = true → plainFacts (UInt8.ofNat i.val) = true := by decide

theorem plain_facts (b : UInt8) (h : isPlainChar b = true) :
    isCSpace b = false ∧ isXmlWs b = false ∧ b ≠ 0x2d ∧ b ≠ 0x2b ∧ lower b ≠ 0x69 ∧ lower b ≠ 0x6e ∧ lower b ≠ 0x65 ∧
      lower b ≠ 0x78 := by
  have := plain_facts_fin ⟨b.toNat, b.toNat_lt⟩
  simp only [UInt8.ofNat_toNat] at this
  have hf := this h
  simp only [plainFacts, Bool.and_eq_true, Bool.not_eq_true', bne_iff_ne, ne_eq] at hf
  obtain ⟨⟨⟨⟨⟨⟨⟨h1, h2⟩, h3⟩, h4⟩, h5⟩, h6⟩, h7⟩, h8⟩ := hf
  exact ⟨h1, h2, h3, h4, h5, h6, h7, h8⟩

theorem dropWhile_of_head (p : UInt8 → Bool) (s : Bytes) (h : ∀ b r, s = b :: r → p b = false) : dropWhile p s = s := by
  cases s with
  | nil => rfl
  | cons b r => simp [dropWhile, h b r rfl]

theorem takeDigits_rest_plain : ∀ (t : Bytes) (acc n : Nat), t.all isPlainChar = true →
    (takeDigits t acc n).2.2.all isPlainChar = true := by
  intro t
  induction t with
  | nil => intro acc n _; simp [takeDigits]
  | cons b r ih =>
    intro acc n h
    rw [takeDigits]
    have hr : r.all isPlainChar = true := by
      simp only [List.all_cons, Bool.and_eq_true] at h; exact h.2
    by_cases hd : isDigit b = true
    · simp only [hd, if_true]; exact ih _ _ hr
    · simp only [hd, Bool.false_eq_true, if_false]; exact h

theorem decBody_rest_plain (t : Bytes) (h : t.all isPlainChar = true) (m f : Nat) (rest : Bytes)
    (hd : decBody t = some (m, f, rest)) : rest.all isPlainChar = true := by
  unfold decBody at hd
  have h1 := takeDigits_rest_plain t 0 0 h
  generalize takeDigits t 0 0 = r at hd h1
  obtain ⟨m1, n1, r1⟩ := r
  simp only at hd h1
  split at hd
  · rename_i r2
    have h2 : r2.all isPlainChar = true := by
      simp only [List.all_cons, Bool.and_eq_true] at h1; exact h1.2
    have h3 := takeDigits_rest_plain r2 m1 0 h2
    generalize takeDigits r2 m1 0 = q at hd h3
    obtain ⟨m2, n2, r3⟩ := q
    simp only at hd h3
    split at hd
    · cases hd
    · simp only [Option.some.injEq, Prod.mk.injEq] at hd
      rw [← hd.2.2]; exact h3
  · split at hd
    · cases hd
    · simp only [Option.some.injEq, Prod.mk.injEq] at hd
      rw [← hd.2.2]; exact h1

theorem startsWithCI_plain (t : Bytes) (h : t.all isPlainChar = true) (c : UInt8) (p : Bytes)
    (hc : c = 0x69 ∨ c = 0x6e) : startsWithCI t (c :: p) = false := by
  cases t with
  | nil => rfl
  | cons b r =>
    have hb : isPlainChar b = true := by simp only [List.all_cons, Bool.and_eq_true] at h; exact h.1
    obtain ⟨_, _, _, _, h5, h6, _, _⟩ := plain_facts b hb
    rw [startsWithCI]
    rcases hc with rfl | rfl
    · simp [h5]
    · simp [h6]

theorem hexPrefix_plain (t : Bytes) (h : t.all isPlainChar = true) : startsWithCI t [0x30, 0x78] = false := by
  match t, h with
  | [], _ => rfl
  | [_], _ => simp [startsWithCI]
  | a :: b :: r, h =>
    have hb : isPlainChar b = true := by simp only [List.all_cons, Bool.and_eq_true] at h; exact h.2.1
    obtain ⟨_, _, _, _, _, _, _, h8⟩ := plain_facts b hb
    simp [startsWithCI, h8]

theorem takeExp_plain (rest : Bytes) (h : rest.all isPlainChar = true) : takeExp 0x65 rest = (0, rest) := by
  cases rest with
  | nil => rfl
  | cons b r =>
    have hb : isPlainChar b = true := by simp only [List.all_cons, Bool.and_eq_true] at h; exact h.1
    obtain ⟨_, _, _, _, _, _, h7, _⟩ := plain_facts b hb
    simp [takeExp, h7]

/-- on digits and `.` (no sign): the same lexeme, the same value -/
theorem body_agree (neg : Bool) (t : Bytes) (h : t.all isPlainChar = true) : bodyC neg t = bodyRec neg t := by
  unfold bodyC bodyRec
  rw [startsWithCI_plain t h _ _ (Or.inl rfl), startsWithCI_plain t h _ _ (Or.inl rfl),
    startsWithCI_plain t h _ _ (Or.inr rfl), hexPrefix_plain t h]
  simp only [Bool.false_eq_true, if_false, Bool.false_and]
  cases hd : decBody t with
  | none => rfl
  | some v =>
    obtain ⟨m, frac, rest⟩ := v
    have hr := decBody_rest_plain t h m frac rest hd
    simp only [takeExp_plain rest hr]
    have hw : dropWhile isXmlWs rest = rest := by
      apply dropWhile_of_head
      intro b r hbr
      have hb : isPlainChar b = true := by rw [hbr] at hr; simp only [List.all_cons, Bool.and_eq_true] at hr; exact hr.1
      exact (plain_facts b hb).2.1
    rw [hw]
    simp

/-- `strtold` and the REC agree on every string made of an optional `-`, digits and `.` -/
theorem strtold_eq_rec_of_plain (s : Bytes) (h : isPlain s = true) : strtoldNumber s = recNumber s := by
  cases s with
  | nil => decide
  | cons b r =>
    by_cases hb : b = 0x2d
    · subst hb
      have hr : r.all isPlainChar = true := by simpa [isPlain] using h
      unfold strtoldNumber recNumber
      simp only [dropWhile, (by decide : isCSpace 0x2d = false), (by decide : isXmlWs 0x2d = false), Bool.false_eq_true,
        if_false, signC, signRec]
      exact body_agree true r hr
    · have ht : (b :: r).all isPlainChar = true := by
        unfold isPlain at h
        split at h
        · rename_i heq; simp only [List.cons.injEq] at heq; exact absurd heq.1 hb
        · exact h
      have hpb : isPlainChar b = true := by simp only [List.all_cons, Bool.and_eq_true] at ht; exact ht.1
      obtain ⟨h1, h2, h3, h4, _, _, _, _⟩ := plain_facts b hpb
      have e1 : signC (b :: r) = (false, b :: r) := by
        unfold signC
        split
        · rename_i heq; simp only [List.cons.injEq] at heq; exact absurd heq.1 h3
        · rename_i heq; simp only [List.cons.injEq] at heq; exact absurd heq.1 h4
        · rfl
      have e2 : signRec (b :: r) = (false, b :: r) := by
        unfold signRec
        split
        · rename_i heq; simp only [List.cons.injEq] at heq; exact absurd heq.1 h3
        · rfl
      unfold strtoldNumber recNumber
      simp only [dropWhile, h1, h2, Bool.false_eq_true, if_false, e1, e2]
      exact body_agree false (b :: r) ht

end NumLex

namespace Str

theorem isCont_ascii (b : UInt8) (h : b.toNat < 128) : isCont b = false := by
  unfold isCont
  rw [beq_eq_false_iff_ne]
  intro he
  have h2 := congrArg UInt8.toNat he
  simp only [UInt8.toNat_and] at h2
  have hle : b.toNat &&& (0xC0 : UInt8).toNat ≤ b.toNat := Nat.and_le_left
  have e1 : (0x80 : UInt8).toNat = 128 := by decide
  omega

theorem charsAux_length_ascii : ∀ (s : Bytes) (acc : List Bytes), (∀ b ∈ s, b.toNat < 128) →
    (charsAux s acc).length = acc.length + s.length := by
  intro s
  induction s with
  | nil => intro acc _; simp [charsAux]
  | cons b r ih =>
    intro acc h
    have hb : isCont b = false := isCont_ascii b (h b (by simp))
    have hr : ∀ x ∈ r, x.toNat < 128 := fun x hx => h x (by simp [hx])
    cases acc with
    | nil => rw [charsAux, ih _ hr]; simp; omega
    | cons c acc => rw [charsAux]; simp only [hb, Bool.false_eq_true, if_false]; rw [ih _ hr]; simp; omega

/-- on ASCII strings bytes and characters coincide -/
theorem length_bytes_eq_chars_of_ascii (s : Bytes) (h : ∀ b ∈ s, b.toNat < 128) : length true s = length false s := by
  unfold length chars
  simp only [if_true, Bool.false_eq_true, if_false, List.length_map]
  rw [charsAux_length_ascii s [] h]; simp

theorem length_bytes_ne_chars_witness : length true [0xc3, 0xbc] ≠ length false [0xc3, 0xbc] := by decide

end Str

namespace Comp
variable {N : Type} [XNum N]

/-- `lyxp_set_cast(…, LYXP_SET_BOOLEAN)` is REC §4.3 `boolean()` for every operand type -/
theorem cast_bool_eq (c : Cfg) (o : Opnd N) : C.cast c o .bool = .bool (Spec.toBool o) := by
  cases o with
  | ns l => cases l <;> simp [C.cast, C.tyOf, Spec.toBool]
  | str s => simp [C.cast, C.tyOf, Spec.toBool]
  | num n => simp [C.cast, C.tyOf, Spec.toBool]
  | bool b => simp [C.cast, C.tyOf, Spec.toBool]

/-- `lyxp_set_cast(…, LYXP_SET_STRING)`: a node-set converts to the string-value of its first node in document order -/
theorem cast_str_eq (c : Cfg) (o : Opnd N) : C.cast c o .str = .str (Spec.toStr c o) := by
  cases o with
  | ns l => cases l <;> simp [C.cast, C.tyOf, Spec.toStr]
  | str s => simp [C.cast, C.tyOf, Spec.toStr]
  | num n => simp [C.cast, C.tyOf, Spec.toStr]
  | bool b => simp [C.cast, C.tyOf, Spec.toStr]

/-- `lyxp_set_cast(…, LYXP_SET_NUMBER)`: node-sets go through their string-value -/
theorem cast_num_eq (c : Cfg) (o : Opnd N) : C.cast c o .num = .num (Spec.toNum c o) := by
  cases o with
  | ns l => cases l <;> simp [C.cast, C.tyOf, Spec.toNum, Spec.toStr]
  | str s => simp [C.cast, C.tyOf, Spec.toNum, Spec.toStr]
  | num n => simp [C.cast, C.tyOf, Spec.toNum]
  | bool b => simp [C.cast, C.tyOf, Spec.toNum]

end Comp
end LyModel.XPath
