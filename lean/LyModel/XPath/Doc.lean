import LyModel.Base
/-!
# XPath 1.0 data model over the XML view of a YANG data tree  (component `XpCore`, property C08)

Written from the XPath 1.0 REC §5 and RFC 7950 §6.4.1, not from libyang: the document is the ordered tree of element
nodes `(module, name, children)`; a terminal element (leaf / leaf-list instance) has one text child holding its
canonical value.  Elements are numbered `1..n` in document order (preorder); the root node is not an element.

A node reference is a natural number: `0` = root, `2*i` = element `i`, `2*i+1` = the text child of element `i`.
Document order is `<` on references; a node-set is a strictly increasing list of references.   Core Lean only.
-/
namespace LyModel.XPath

structure Elem where
  /-- element number of the parent, `0` for a top-level element (child of the root node) -/
  parent : Nat
  mod : Bytes
  name : Bytes
  /-- leaf or leaf-list instance -/
  term : Bool
  /-- canonical value of a terminal -/
  value : Bytes
  /-- YANG base type of a terminal (`bits`, `string`, …), used by `bit-is-set` only -/
  btype : Bytes
deriving Inhabited

structure Doc where
  elems : Array Elem

abbrev Ref := Nat

namespace Ref
@[inline] def isRoot (r : Ref) : Bool := r == 0
@[inline] def isText (r : Ref) : Bool := r % 2 == 1
@[inline] def isElem (r : Ref) : Bool := r != 0 && r % 2 == 0
end Ref

namespace Doc

def elem? (d : Doc) (r : Ref) : Option Elem :=
  if r.isElem then d.elems[r / 2 - 1]? else none

/-- the element a text reference belongs to -/
def textOwner? (d : Doc) (r : Ref) : Option Elem :=
  if r.isText then d.elems[r / 2 - 1]? else none

/-- Is `r` a node of the document?  `emptyText`: a terminal with the empty value still has a text child
(REC §5.7 says it has none; libyang's `text()` yields one). -/
def valid (d : Doc) (emptyText : Bool) (r : Ref) : Bool :=
  if r == 0 then true
  else if r % 2 == 0 then r / 2 ≤ d.elems.size
  else match d.elems[r / 2 - 1]? with
    | some e => r / 2 ≥ 1 && e.term && (emptyText || !e.value.isEmpty)
    | none => false

/-- all nodes in document order -/
def allRefs (d : Doc) (emptyText : Bool) : List Ref :=
  (List.range (2 * d.elems.size + 2)).filter (d.valid emptyText)

def parentRef (d : Doc) (r : Ref) : Option Ref :=
  if r == 0 then none
  else if r % 2 == 1 then some (r - 1)
  else match d.elems[r / 2 - 1]? with
    | some e => some (2 * e.parent)
    | none => none

/-- `a` is a proper ancestor of `x` (walk up from `x`; fuel bounds the depth) -/
def isAncFuel (d : Doc) : Nat → Ref → Ref → Bool
  | 0, _, _ => false
  | f + 1, a, x =>
    match d.parentRef x with
    | none => false
    | some p => p == a || isAncFuel d f a p

def isAnc (d : Doc) (a x : Ref) : Bool := d.isAncFuel (d.elems.size + 2) a x

/-- children of `r` in document order (REC §5: the children of the root are the top-level elements) -/
def children (d : Doc) (emptyText : Bool) (r : Ref) : List Ref :=
  (d.allRefs emptyText).filter fun x => d.parentRef x == some r

end Doc

/-- strictly increasing = document order without duplicates -/
abbrev IsNodeSet (l : List Ref) : Prop := l.Pairwise (· < ·)

/-- normalise an arbitrary list of node references into a node-set: document order, no duplicates -/
def mkNs (d : Doc) (emptyText : Bool) (l : List Ref) : List Ref :=
  (d.allRefs emptyText).filter fun x => l.contains x

end LyModel.XPath
