import LyModel.Conc.Lock
/-! Mutual exclusion from the lock discipline, for every number of threads and every interleaving. -/
namespace LyModel.Conc

theorem getElem?_set_cases {α} (l : List α) (i j : Nat) (a b : α) (h : (l.set i a)[j]? = some b) :
    (i = j ∧ b = a) ∨ (i ≠ j ∧ l[j]? = some b) := by
  rw [List.getElem?_set] at h
  by_cases hij : i = j
  · simp only [hij, if_true] at h
    split at h
    · left; exact ⟨hij, (Option.some.inj h).symm⟩
    · cases h
  · simp only [hij, if_false] at h
    right; exact ⟨hij, h⟩

theorem inv_step {pol : Policy} {ts ts' : List Thread} (hinv : Inv pol ts) (s : Step ts ts') : Inv pol ts' := by
  cases s with
  | lock i h m r hi hfree =>
    have hr := hinv.rest i _ hi
    simp only [restOk, Bool.and_eq_true, Bool.not_eq_true', List.contains_eq_mem, decide_eq_false_iff_not] at hr
    refine ⟨?_, ?_, ?_⟩
    · intro j t hj
      rcases getElem?_set_cases _ _ _ _ _ hj with ⟨_, rfl⟩ | ⟨_, hj'⟩
      · exact hr.2
      · exact hinv.rest j t hj'
    · intro j t hj
      rcases getElem?_set_cases _ _ _ _ _ hj with ⟨_, rfl⟩ | ⟨_, hj'⟩
      · exact List.nodup_cons.mpr ⟨hr.1, hinv.nodup i _ hi⟩
      · exact hinv.nodup j t hj'
    · intro j k a b hj hk hjk x hx
      rcases getElem?_set_cases _ _ _ _ _ hj with ⟨e1, rfl⟩ | ⟨n1, hj'⟩ <;>
      rcases getElem?_set_cases _ _ _ _ _ hk with ⟨e2, rfl⟩ | ⟨n2, hk'⟩
      · exact absurd (e1.symm.trans e2) hjk
      · rcases List.mem_cons.mp hx with rfl | hx'
        · exact hfree b (List.mem_of_getElem? hk')
        · exact hinv.excl i k _ b hi hk' n2 x hx'
      · intro hb
        rcases List.mem_cons.mp hb with rfl | hb'
        · exact hfree a (List.mem_of_getElem? hj') hx
        · exact hinv.excl j i a _ hj' hi (Ne.symm n1) x hx hb'
      · exact hinv.excl j k a b hj' hk' hjk x hx
  | unlock i h m r hi =>
    have hr := hinv.rest i _ hi
    simp only [restOk, Bool.and_eq_true] at hr
    refine ⟨?_, ?_, ?_⟩
    · intro j t hj
      rcases getElem?_set_cases _ _ _ _ _ hj with ⟨_, rfl⟩ | ⟨_, hj'⟩
      · exact hr.2
      · exact hinv.rest j t hj'
    · intro j t hj
      rcases getElem?_set_cases _ _ _ _ _ hj with ⟨_, rfl⟩ | ⟨_, hj'⟩
      · exact (hinv.nodup i _ hi).erase m
      · exact hinv.nodup j t hj'
    · intro j k a b hj hk hjk x hx
      rcases getElem?_set_cases _ _ _ _ _ hj with ⟨e1, rfl⟩ | ⟨n1, hj'⟩ <;>
      rcases getElem?_set_cases _ _ _ _ _ hk with ⟨e2, rfl⟩ | ⟨n2, hk'⟩
      · exact absurd (e1.symm.trans e2) hjk
      · exact hinv.excl i k _ b hi hk' n2 x (List.mem_of_mem_erase hx)
      · intro hb
        exact hinv.excl j i a _ hj' hi (Ne.symm n1) x hx (List.mem_of_mem_erase hb)
      · exact hinv.excl j k a b hj' hk' hjk x hx
  | other i h e r hi hnl hnu =>
    have hr := hinv.rest i _ hi
    have hr' : restOk pol h r = true := by
      cases e with
      | lock m => exact absurd rfl (hnl m)
      | unlock m => exact absurd rfl (hnu m)
      | access f w => simp only [restOk, Bool.and_eq_true] at hr; exact hr.2
      | call g => simp [restOk] at hr
      | ret => simpa [restOk] using hr
    have hn := hinv.nodup i _ hi
    refine ⟨?_, ?_, ?_⟩
    · intro j t hj
      rcases getElem?_set_cases _ _ _ _ _ hj with ⟨_, rfl⟩ | ⟨_, hj'⟩
      · exact hr'
      · exact hinv.rest j t hj'
    · intro j t hj
      rcases getElem?_set_cases _ _ _ _ _ hj with ⟨_, rfl⟩ | ⟨_, hj'⟩
      · exact hn
      · exact hinv.nodup j t hj'
    · intro j k a b hj hk hjk x hx
      rcases getElem?_set_cases _ _ _ _ _ hj with ⟨e1, rfl⟩ | ⟨n1, hj'⟩ <;>
      rcases getElem?_set_cases _ _ _ _ _ hk with ⟨e2, rfl⟩ | ⟨n2, hk'⟩
      · exact absurd (e1.symm.trans e2) hjk
      · exact hinv.excl i k _ b hi hk' n2 x hx
      · exact hinv.excl j i a _ hj' hi (Ne.symm n1) x hx
      · exact hinv.excl j k a b hj' hk' hjk x hx

theorem inv_reach {pol : Policy} {ts ts' : List Thread} (hinv : Inv pol ts) (r : Reach ts ts') : Inv pol ts' := by
  induction r with
  | refl => exact hinv
  | tail _ s ih => exact inv_step ih s

/-- Threads that start with no lock and a path accepted by `restOk` satisfy the invariant. -/
theorem inv_init (pol : Policy) (ps : List (List Ev)) (h : ∀ p ∈ ps, restOk pol [] p = true) :
    Inv pol (ps.map (fun p => ⟨[], p⟩)) := by
  refine ⟨?_, ?_, ?_⟩
  · intro i t hi
    rw [List.getElem?_map] at hi
    cases hp : ps[i]? with
    | none => simp [hp] at hi
    | some p =>
      simp only [hp, Option.map_some, Option.some.injEq] at hi
      subst hi
      exact h p (List.mem_of_getElem? hp)
  · intro i t hi
    rw [List.getElem?_map] at hi
    cases hp : ps[i]? with
    | none => simp [hp] at hi
    | some p =>
      simp only [hp, Option.map_some, Option.some.injEq] at hi
      subst hi
      exact List.nodup_nil
  · intro i j a b hi _ _ m hm
    rw [List.getElem?_map] at hi
    cases hp : ps[i]? with
    | none => simp [hp] at hi
    | some p =>
      simp only [hp, Option.map_some, Option.some.injEq] at hi
      subst hi
      cases hm

/-- A call-free path accepted by the modular walker (started without assumptions) is accepted by the flat
    thread-local check the mutual-exclusion invariant uses. -/
theorem walk_restOk (pol : Policy) (fns : List Fn) (h : Held) (p : List Ev) (hb : h.base = [])
    (hw : walk pol fns h p = true) (hnc : ∀ e ∈ p, ∀ g, e ≠ .call g) : restOk pol h.stack p = true := by
  fun_induction walk pol fns h p with
  | case1 h => simp [restOk]
  | case2 h => cases hw
  | case3 h e rest hne h' hstep ih =>
    have hnc' : ∀ e ∈ rest, ∀ g, e ≠ .call g := fun e he => hnc e (List.mem_cons_of_mem _ he)
    cases e with
    | lock m =>
      simp only [stepEv, Held.all, hb, List.append_nil] at hstep
      split at hstep
      · rename_i hall
        cases hstep
        simp only [restOk, Bool.and_eq_true, Bool.not_eq_true', List.contains_eq_mem, decide_eq_false_iff_not]
        refine ⟨?_, ih rfl hw hnc'⟩
        intro hm
        have := List.all_eq_true.mp hall m hm
        simp at this
      · cases hstep
    | unlock m =>
      simp only [stepEv] at hstep
      split at hstep
      · rename_i t r hst
        split at hstep
        · rename_i htm
          cases hstep
          subst htm
          simp only [restOk, hst, Bool.and_eq_true, List.contains_eq_mem, List.mem_cons, true_or, decide_true, true_and,
            List.erase_cons_head]
          exact ih hb hw hnc'
        · cases hstep
      · cases hstep
    | access f w =>
      simp only [stepEv, Held.all, hb, List.append_nil] at hstep
      simp only [restOk, Bool.and_eq_true]
      cases hp : pol f w with
      | none =>
        simp only [hp] at hstep
        cases hstep
        exact ⟨rfl, ih hb hw hnc'⟩
      | some m =>
        simp only [hp] at hstep
        split at hstep
        · rename_i hc
          cases hstep
          exact ⟨hc, ih hb hw hnc'⟩
        · cases hstep
    | call g => exact absurd rfl (hnc _ List.mem_cons_self g)
    | ret => simp [stepEv] at hstep
  | case4 h e rest hne hstep => cases hw

end LyModel.Conc
