import LyModel.Conc.Interleave
/-!
The dictionary as the threads see it (C16 (b)): what happens between `lock` and `unlock` of `ctx->dict.lock` is one
operation on the reference-count map (`lock_discipline`: all accesses of `lydict_insert/_zc/remove/dup` to the table
and to its records lie inside that section).  Pointer identity is abstracted to the string.
-/
namespace LyModel.Conc

inductive DOp where
  | insert (s : String)     -- lydict_insert / lydict_insert_zc
  | remove (s : String)     -- lydict_remove
  | dup (s : String)        -- lydict_dup with the dictionary's pointer of `s`
  deriving DecidableEq, Repr

inductive DRet where
  | ptr (s : String)        -- LY_SUCCESS, *str_p = the dictionary's pointer of `s`
  | success                 -- LY_SUCCESS (remove)
  | enotfound               -- LY_ENOTFOUND
  deriving DecidableEq, Repr

/-- reference counts; 0 = not in the dictionary -/
abbrev Dict := String → Nat

def bump (d : Dict) (s : String) : Dict := fun x => if x = s then d x + 1 else d x
def drop (d : Dict) (s : String) : Dict := fun x => if x = s then d x - 1 else d x

/-- One atomic section. -/
def dstep (d : Dict) : DOp → Dict × DRet
  | .insert s => (bump d s, .ptr s)
  | .remove s => if d s = 0 then (d, .enotfound) else (drop d s, .success)
  | .dup s => if d s = 0 then (d, .enotfound) else (bump d s, .ptr s)

/-- A thread step: an atomic dictionary section or an unprotected step that does not touch the dictionary. -/
inductive TStep where
  | atomic (op : DOp)
  | loc
  deriving DecidableEq, Repr

/-- Run a schedule; the output lists, in schedule order, the return value of every atomic section with its thread. -/
def exec (d : Dict) : List (Nat × TStep) → Dict × List (Nat × DRet)
  | [] => (d, [])
  | (_, .loc) :: r => exec d r
  | (i, .atomic op) :: r => ((exec (dstep d op).1 r).1, (i, (dstep d op).2) :: (exec (dstep d op).1 r).2)

/-- Return values thread `i` saw. -/
def retsOf (i : Nat) (out : List (Nat × DRet)) : List DRet := proj i out

/-- What thread `l` gets when it runs alone. -/
def alone (d : Dict) (l : List TStep) : List DRet := retsOf 0 (exec d (tagged 0 l)).2

/-- The reference discipline of a dictionary user: a thread removes / dups only strings it holds a reference to
    (obtained by its own earlier insert or dup). `bal` = references the thread holds now. -/
def ownedFrom (bal : Dict) : List TStep → Bool
  | [] => true
  | .loc :: r => ownedFrom bal r
  | .atomic (.insert s) :: r => ownedFrom (bump bal s) r
  | .atomic (.dup s) :: r => decide (1 ≤ bal s) && ownedFrom (bump bal s) r
  | .atomic (.remove s) :: r => decide (1 ≤ bal s) && ownedFrom (drop bal s) r

def noRefs : Dict := fun _ => 0

/-- The return value of an operation that succeeds. -/
def okRet : DOp → DRet
  | .insert s => .ptr s
  | .remove _ => .success
  | .dup s => .ptr s

def okRets : List TStep → List DRet
  | [] => []
  | .loc :: r => okRets r
  | .atomic op :: r => okRet op :: okRets r

/-- references added to / released from `s` by a step list -/
def adds (s : String) : List TStep → Nat
  | [] => 0
  | .atomic (.insert x) :: r => (if s = x then 1 else 0) + adds s r
  | .atomic (.dup x) :: r => (if s = x then 1 else 0) + adds s r
  | _ :: r => adds s r

def rems (s : String) : List TStep → Nat
  | [] => 0
  | .atomic (.remove x) :: r => (if s = x then 1 else 0) + rems s r
  | _ :: r => rems s r

end LyModel.Conc
