import LyModel.Conc.ErrLemmas
/-!
A thread's view of its error record does not depend on the other threads: in every run that does not dereference a
stale pointer, what thread `t` observes is what it observes when only its own steps are executed.
-/
namespace LyModel.Conc

/-- the error list stored for thread `t` -/
def recOf (t : Nat) : Recs → Option (List Nat)
  | [] => none
  | (u, es) :: r => if u = t then some es else recOf t r

theorem recOf_none {t : Nat} {recs : Recs} : recOf t recs = none ↔ t ∉ recs.map (·.1) := by
  induction recs with
  | nil => simp [recOf]
  | cons x r ih =>
    obtain ⟨u, es⟩ := x
    simp only [recOf, List.map_cons, List.mem_cons, not_or]
    by_cases hu : u = t
    · simp [hu]
    · simp only [hu, if_false, ih]
      exact ⟨fun h => ⟨fun e => hu e.symm, h⟩, fun h => h.2⟩

theorem recOf_mem {t : Nat} {es : List Nat} {recs : Recs} (h : recOf t recs = some es) : (t, es) ∈ recs := by
  induction recs with
  | nil => simp [recOf] at h
  | cons x r ih =>
    obtain ⟨u, es'⟩ := x
    simp only [recOf] at h
    split at h
    · rename_i hu; cases h; subst hu; exact List.mem_cons_self
    · exact List.mem_cons_of_mem _ (ih h)

theorem recOf_of_mem {t : Nat} {es : List Nat} {recs : Recs} (hnd : (recs.map (·.1)).Nodup) (h : (t, es) ∈ recs) :
    recOf t recs = some es := by
  induction recs with
  | nil => cases h
  | cons x r ih =>
    obtain ⟨u, es'⟩ := x
    simp only [List.map_cons, List.nodup_cons] at hnd
    simp only [recOf]
    rcases List.mem_cons.mp h with he | hm
    · cases he; simp
    · have : u ≠ t := by
        intro e; subst e
        exact hnd.1 (List.mem_map.mpr ⟨(u, es), hm, rfl⟩)
      simp only [this, if_false]
      exact ih hnd.2 hm

/-- `recOf` only depends on the set of records when thread ids are unique. -/
theorem recOf_perm {t : Nat} {a b : Recs} (hnd : (a.map (·.1)).Nodup) (hp : a.Perm b) : recOf t a = recOf t b := by
  have hndb : (b.map (·.1)).Nodup := (hp.map _).nodup_iff.mp hnd
  cases ha : recOf t a with
  | none =>
    have := recOf_none.mp ha
    exact (recOf_none.mpr (fun h => this ((hp.map _).mem_iff.mpr h))).symm
  | some es => exact (recOf_of_mem hndb (hp.mem_iff.mp (recOf_mem ha))).symm

theorem recOf_append_fresh {t u : Nat} {recs : Recs} (hu : u ∉ recs.map (·.1)) :
    recOf t (recs ++ [(u, [])]) = if t = u then some [] else recOf t recs := by
  induction recs with
  | nil => simp only [List.nil_append, recOf]; by_cases h : u = t <;> simp [h, Ne.symm]
  | cons x r ih =>
    obtain ⟨v, es⟩ := x
    simp only [List.map_cons, List.mem_cons, not_or] at hu
    simp only [List.cons_append, recOf, ih hu.2]
    by_cases hv : v = t
    · have : t ≠ u := fun e => hu.1 (e ▸ hv.symm)
      simp [hv, this]
    · simp [hv]

theorem setErrs_cons_succ (x : Nat × List Nat) (r : Recs) (k : Nat) (f : List Nat → List Nat) :
    setErrs (x :: r) (k + 1) f = x :: setErrs r k f := by
  simp only [setErrs, List.getElem?_cons_succ]
  split <;> simp

theorem recOf_setErrs {t u : Nat} {recs : Recs} {i : Nat} (f : List Nat → List Nat) (hnd : (recs.map (·.1)).Nodup)
    (hi : tidAt recs i = some u) :
    recOf t (setErrs recs i f) = if t = u then (recOf t recs).map f else recOf t recs := by
  induction recs generalizing i with
  | nil => simp [tidAt] at hi
  | cons x r ih =>
    obtain ⟨v, es⟩ := x
    simp only [List.map_cons, List.nodup_cons] at hnd
    cases i with
    | zero =>
      simp only [tidAt, List.getElem?_cons_zero, Option.map_some, Option.some.injEq] at hi
      subst hi
      simp only [setErrs, List.getElem?_cons_zero, List.set_cons_zero, recOf]
      by_cases hv : v = t
      · simp [hv]
      · have : t ≠ v := fun e => hv e.symm
        simp [hv, this]
    | succ k =>
      have hk : tidAt r k = some u := by simpa [tidAt] using hi
      rw [setErrs_cons_succ]
      simp only [recOf]
      by_cases hv : v = t
      · -- then u ≠ t, since u occurs in r
        have hur : u ∈ r.map (·.1) := by
          simp only [tidAt] at hk
          cases hx : r[k]? with
          | none => simp [hx] at hk
          | some y =>
            simp only [hx, Option.map_some, Option.some.injEq] at hk
            exact List.mem_map.mpr ⟨y, List.mem_of_getElem? hx, hk⟩
        have : t ≠ u := fun e => hnd.1 (hv ▸ e ▸ hur)
        simp [hv, this]
      · simp only [hv, if_false]
        exact ih hnd.2 hk

theorem findSlot_isSome_iff {t : Nat} {recs : Recs} : (findSlot t recs).isSome = (recOf t recs).isSome := by
  induction recs with
  | nil => rfl
  | cons x r ih =>
    obtain ⟨u, es⟩ := x
    simp only [findSlot, recOf]
    by_cases hu : u = t
    · simp [hu]
    · simp only [hu, if_false, Option.isSome_map, ih]

/-- what is stored at a slot whose thread id is `t` is `recOf t` -/
theorem recOf_of_slot {t : Nat} {recs : Recs} {i : Nat} {o : Nat} {es : List Nat} (hnd : (recs.map (·.1)).Nodup)
    (hi : tidAt recs i = some t) (hx : recs[i]? = some (o, es)) : o = t ∧ recOf t recs = some es := by
  have ho : o = t := by simpa [tidAt, hx] using hi
  subst ho
  exact ⟨rfl, recOf_of_mem hnd (List.mem_of_getElem? hx)⟩

/-! ### simulation of the interleaved run by the run of thread `t` alone -/

def obsOf (t : Nat) (obs : List Obs) : List Obs := obs.filter (fun o => o.thread == t)

/-- only the steps of thread `t` -/
def mine (t : Nat) (sched : List (Nat × ErrStep)) : List (Nat × ErrStep) := sched.filter (fun x => x.1 == t)

structure Sim (inl : Bool) (t : Nat) (s a : ErrState) : Prop where
  view : recOf t s.tab.recs = recOf t a.tab.recs
  obs : obsOf t s.obs = obsOf t a.obs
  ptr : (s.ptr t).isSome = (a.ptr t).isSome
  cur : ∀ p, a.ptr t = some p → inl = true → p.gen = a.tab.gen

theorem obsOf_append_other {t : Nat} (obs : List Obs) (o : Obs) (h : o.thread ≠ t) : obsOf t (obs ++ [o]) = obsOf t obs := by
  simp [obsOf, List.filter_append, h]

theorem obsOf_append_own {t : Nat} (obs : List Obs) (o : Obs) (h : o.thread = t) :
    obsOf t (obs ++ [o]) = obsOf t obs ++ [o] := by
  simp [obsOf, List.filter_append, h]

/-- the record list after an insert, whatever happens to the array -/
theorem insertRec_perm (inl : Bool) (tab : ErrTable) (u : Nat) : (tab.recs ++ [(u, [])]).Perm (insertRec inl tab u).recs := by
  rcases insertRec_gen inl tab u with ⟨_, hr⟩ | ⟨_, _, hr⟩
  · rw [hr]
  · rw [hr]; exact (List.reverse_perm _).symm

/-- A step of another thread leaves thread `t`'s view alone. -/
theorem sim_other {inl : Bool} {t u : Nat} {s s1 a : ErrState} {st : ErrStep} (hu : u ≠ t) (hinv : EInv inl s)
    (hsim : Sim inl t s a) (h : estep inl s u st = .ok s1) : Sim inl t s1 a := by
  have hptr : ∀ (x : ErrState) (q : Option Ptr), (setPtr x u q).ptr t = x.ptr t := by
    intro x q; simp [setPtr_ptr, Ne.symm hu]
  cases st with
  | getRec =>
    simp only [estep, Except.ok.injEq] at h; subst h
    exact ⟨hsim.view, hsim.obs, by rw [hptr]; exact hsim.ptr, hsim.cur⟩
  | newRecIfNull =>
    simp only [estep] at h
    split at h
    · cases h; exact hsim
    · split at h
      · cases h; exact hsim
      · rename_i hfs
        simp only [Except.ok.injEq] at h; subst h
        have hfresh := findSlot_none hfs
        have hnd : ((s.tab.recs ++ [(u, ([] : List Nat))]).map (·.1)).Nodup := by
          rw [List.map_append, List.nodup_append]
          refine ⟨hinv.nodup, by simp, ?_⟩
          intro x hx y hy
          simp only [List.map_cons, List.map_nil, List.mem_singleton] at hy
          subst hy
          exact fun e => hfresh (e ▸ hx)
        refine ⟨?_, hsim.obs, by rw [hptr]; exact hsim.ptr, hsim.cur⟩
        simp only [setPtr_tab]
        rw [← recOf_perm hnd (insertRec_perm inl s.tab u), recOf_append_fresh hfresh]
        simp only [Ne.symm hu, if_false]
        exact hsim.view
  | read =>
    simp only [estep] at h
    split at h
    · cases h
      exact ⟨hsim.view, by rw [obsOf_append_other _ _ hu]; exact hsim.obs, hsim.ptr, hsim.cur⟩
    · rename_i p hp
      split at h
      · cases h
      · split at h
        · cases h
          exact ⟨hsim.view, by rw [obsOf_append_other _ _ hu]; exact hsim.obs, hsim.ptr, hsim.cur⟩
        · cases h; exact hsim
  | store e =>
    simp only [estep] at h
    split at h
    · cases h; exact hsim
    · rename_i p hp
      split at h
      · cases h
      · rename_i hg
        cases h
        have hg' : inl = false ∨ p.gen = s.tab.gen := by
          cases inl
          · exact Or.inl rfl
          · right; simpa using hg
        refine ⟨?_, hsim.obs, hsim.ptr, hsim.cur⟩
        simp only
        rw [recOf_setErrs _ hinv.nodup (hinv.ptrOk u p hp hg')]
        simp only [Ne.symm hu, if_false]
        exact hsim.view
  | clean =>
    simp only [estep] at h
    split at h
    · cases h; exact hsim
    · rename_i p hp
      split at h
      · cases h
      · rename_i hg
        cases h
        have hg' : inl = false ∨ p.gen = s.tab.gen := by
          cases inl
          · exact Or.inl rfl
          · right; simpa using hg
        refine ⟨?_, hsim.obs, hsim.ptr, hsim.cur⟩
        simp only
        rw [recOf_setErrs _ hinv.nodup (hinv.ptrOk u p hp hg')]
        simp only [Ne.symm hu, if_false]
        exact hsim.view

theorem cur_valid {inl : Bool} {t : Nat} {a : ErrState} {q : Ptr} (hcur : ∀ p, a.ptr t = some p → inl = true → p.gen = a.tab.gen)
    (hq : a.ptr t = some q) : (inl = false ∨ q.gen = a.tab.gen) ∧ (inl && decide (q.gen ≠ a.tab.gen)) = false := by
  cases inl
  · exact ⟨Or.inl rfl, rfl⟩
  · have := hcur q hq rfl
    exact ⟨Or.inr this, by simp [this]⟩

theorem slot_content {inl : Bool} {t : Nat} {x : ErrState} {p : Ptr} (hinv : EInv inl x) (hp : x.ptr t = some p)
    (hv : inl = false ∨ p.gen = x.tab.gen) : ∃ es, x.tab.recs[p.slot]? = some (t, es) ∧ recOf t x.tab.recs = some es := by
  have ht := hinv.ptrOk t p hp hv
  cases hx : x.tab.recs[p.slot]? with
  | none => simp [tidAt, hx] at ht
  | some y =>
    obtain ⟨o, es⟩ := y
    obtain ⟨ho, hr⟩ := recOf_of_slot hinv.nodup ht hx
    subst ho
    exact ⟨es, rfl, hr⟩

theorem newPtr_isSome {t g : Nat} {recs : Recs} (h : (recOf t recs).isSome = true) :
    ((findSlot t recs).map (fun i => (⟨g, i⟩ : Ptr))).isSome = true := by
  rw [Option.isSome_map, findSlot_isSome_iff]; exact h

/-- A step of thread `t` itself is mirrored by the run of `t` alone. -/
theorem sim_own {inl : Bool} {t : Nat} {s s1 a : ErrState} {st : ErrStep} (hinv : EInv inl s) (hinva : EInv inl a)
    (hsim : Sim inl t s a) (h : estep inl s t st = .ok s1) : ∃ a1, estep inl a t st = .ok a1 ∧ Sim inl t s1 a1 := by
  cases st with
  | getRec =>
    simp only [estep, Except.ok.injEq] at h; subst h
    refine ⟨_, rfl, hsim.view, hsim.obs, ?_, ?_⟩
    · simp only [setPtr_ptr, if_true, Option.isSome_map, findSlot_isSome_iff, hsim.view]
    · intro p hp _
      simp only [setPtr_ptr, if_true] at hp
      cases hf : findSlot t a.tab.recs with
      | none => simp [hf] at hp
      | some i => simp only [hf, Option.map_some, Option.some.injEq] at hp; subst hp; rfl
  | newRecIfNull =>
    simp only [estep] at h ⊢
    cases hps : s.ptr t with
    | some p =>
      have hpa : (a.ptr t).isSome = true := by rw [← hsim.ptr, hps]; rfl
      obtain ⟨q, hq⟩ := Option.isSome_iff_exists.mp hpa
      simp only [hps] at h; cases h
      simp only [hq]
      exact ⟨a, rfl, hsim⟩
    | none =>
      have hpa : a.ptr t = none := by
        have := hsim.ptr; rw [hps] at this
        cases hx : a.ptr t with
        | none => rfl
        | some _ => rw [hx] at this; cases this
      simp only [hps] at h
      simp only [hpa]
      have hfs : (findSlot t s.tab.recs).isSome = (findSlot t a.tab.recs).isSome := by
        rw [findSlot_isSome_iff, findSlot_isSome_iff, hsim.view]
      cases hf : findSlot t s.tab.recs with
      | some i =>
        simp only [hf] at h; cases h
        cases hfa : findSlot t a.tab.recs with
        | none => rw [hf, hfa] at hfs; cases hfs
        | some j => exact ⟨a, rfl, hsim⟩
      | none =>
        simp only [hf, Except.ok.injEq] at h; subst h
        cases hfa : findSlot t a.tab.recs with
        | some j => rw [hf, hfa] at hfs; cases hfs
        | none =>
          have fr_s := findSlot_none hf
          have fr_a := findSlot_none hfa
          have nd_s : ((s.tab.recs ++ [(t, ([] : List Nat))]).map (·.1)).Nodup := by
            rw [List.map_append, List.nodup_append]
            refine ⟨hinv.nodup, by simp, ?_⟩
            intro x hx y hy
            simp only [List.map_cons, List.map_nil, List.mem_singleton] at hy
            subst hy
            exact fun e => fr_s (e ▸ hx)
          have nd_a : ((a.tab.recs ++ [(t, ([] : List Nat))]).map (·.1)).Nodup := by
            rw [List.map_append, List.nodup_append]
            refine ⟨hinva.nodup, by simp, ?_⟩
            intro x hx y hy
            simp only [List.map_cons, List.map_nil, List.mem_singleton] at hy
            subst hy
            exact fun e => fr_a (e ▸ hx)
          have vs : recOf t (insertRec inl s.tab t).recs = some [] := by
            rw [← recOf_perm nd_s (insertRec_perm inl s.tab t), recOf_append_fresh fr_s]; simp
          have va : recOf t (insertRec inl a.tab t).recs = some [] := by
            rw [← recOf_perm nd_a (insertRec_perm inl a.tab t), recOf_append_fresh fr_a]; simp
          refine ⟨_, rfl, ?_, hsim.obs, ?_, ?_⟩
          · simp only [setPtr_tab, vs, va]
          · simp only [setPtr_ptr, if_true]
            rw [newPtr_isSome (by rw [vs]; rfl), newPtr_isSome (by rw [va]; rfl)]
          · intro p hp _
            simp only [setPtr_ptr, if_true] at hp
            cases hf2 : findSlot t (insertRec inl a.tab t).recs with
            | none => simp [hf2] at hp
            | some i => simp only [hf2, Option.map_some, Option.some.injEq] at hp; subst hp; rfl
  | read =>
    simp only [estep] at h ⊢
    cases hps : s.ptr t with
    | none =>
      have hpa : a.ptr t = none := by
        have := hsim.ptr; rw [hps] at this
        cases hx : a.ptr t with
        | none => rfl
        | some _ => rw [hx] at this; cases this
      simp only [hps, Except.ok.injEq] at h; subst h
      simp only [hpa]
      refine ⟨_, rfl, hsim.view, ?_, by simp [hps, hpa], hsim.cur⟩
      show obsOf t (s.obs ++ [⟨t, t, []⟩]) = obsOf t (a.obs ++ [⟨t, t, []⟩])
      rw [obsOf_append_own s.obs ⟨t, t, []⟩ rfl, obsOf_append_own a.obs ⟨t, t, []⟩ rfl, hsim.obs]
    | some p =>
      have hpa : (a.ptr t).isSome = true := by rw [← hsim.ptr, hps]; rfl
      obtain ⟨q, hq⟩ := Option.isSome_iff_exists.mp hpa
      simp only [hps] at h
      split at h
      · cases h
      · rename_i hg
        have hg' : inl = false ∨ p.gen = s.tab.gen := by
          cases inl
          · exact Or.inl rfl
          · right; simpa using hg
        obtain ⟨es, hxs, hrs⟩ := slot_content hinv hps hg'
        obtain ⟨hva, hna⟩ := cur_valid hsim.cur hq
        obtain ⟨es', hxa, hra⟩ := slot_content hinva hq hva
        have hes : es = es' := by
          have := hsim.view; rw [hrs, hra] at this; exact Option.some.inj this
        subst hes
        simp only [hxs, Except.ok.injEq] at h; subst h
        simp only [hq, ne_eq, hna, Bool.false_eq_true, if_false, hxa]
        refine ⟨_, rfl, hsim.view, ?_, by simp [hps, hq], hsim.cur⟩
        show obsOf t (s.obs ++ [⟨t, t, es⟩]) = obsOf t (a.obs ++ [⟨t, t, es⟩])
        rw [obsOf_append_own s.obs ⟨t, t, es⟩ rfl, obsOf_append_own a.obs ⟨t, t, es⟩ rfl, hsim.obs]
  | store e =>
    simp only [estep] at h ⊢
    cases hps : s.ptr t with
    | none =>
      have hpa : a.ptr t = none := by
        have := hsim.ptr; rw [hps] at this
        cases hx : a.ptr t with
        | none => rfl
        | some _ => rw [hx] at this; cases this
      simp only [hps, Except.ok.injEq] at h; subst h
      simp only [hpa]
      exact ⟨a, rfl, hsim⟩
    | some p =>
      have hpa : (a.ptr t).isSome = true := by rw [← hsim.ptr, hps]; rfl
      obtain ⟨q, hq⟩ := Option.isSome_iff_exists.mp hpa
      simp only [hps] at h
      split at h
      · cases h
      · rename_i hg
        have hg' : inl = false ∨ p.gen = s.tab.gen := by
          cases inl
          · exact Or.inl rfl
          · right; simpa using hg
        obtain ⟨hva, hna⟩ := cur_valid hsim.cur hq
        simp only [Except.ok.injEq] at h; subst h
        simp only [hq, ne_eq, hna, Bool.false_eq_true, if_false]
        refine ⟨_, rfl, ?_, hsim.obs, by simp [hps, hq], hsim.cur⟩
        simp only
        rw [recOf_setErrs _ hinv.nodup (hinv.ptrOk t p hps hg'), recOf_setErrs _ hinva.nodup (hinva.ptrOk t q hq hva)]
        simp only [if_true, hsim.view]
  | clean =>
    simp only [estep] at h ⊢
    cases hps : s.ptr t with
    | none =>
      have hpa : a.ptr t = none := by
        have := hsim.ptr; rw [hps] at this
        cases hx : a.ptr t with
        | none => rfl
        | some _ => rw [hx] at this; cases this
      simp only [hps, Except.ok.injEq] at h; subst h
      simp only [hpa]
      exact ⟨a, rfl, hsim⟩
    | some p =>
      have hpa : (a.ptr t).isSome = true := by rw [← hsim.ptr, hps]; rfl
      obtain ⟨q, hq⟩ := Option.isSome_iff_exists.mp hpa
      simp only [hps] at h
      split at h
      · cases h
      · rename_i hg
        have hg' : inl = false ∨ p.gen = s.tab.gen := by
          cases inl
          · exact Or.inl rfl
          · right; simpa using hg
        obtain ⟨hva, hna⟩ := cur_valid hsim.cur hq
        simp only [Except.ok.injEq] at h; subst h
        simp only [hq, ne_eq, hna, Bool.false_eq_true, if_false]
        refine ⟨_, rfl, ?_, hsim.obs, by simp [hps, hq], hsim.cur⟩
        simp only
        rw [recOf_setErrs _ hinv.nodup (hinv.ptrOk t p hps hg'), recOf_setErrs _ hinva.nodup (hinva.ptrOk t q hq hva)]
        simp only [if_true, hsim.view]

/-- The interleaved run, restricted to what thread `t` sees, is the run of thread `t` alone. -/
theorem errRun_sim {inl : Bool} {t : Nat} (sched : List (Nat × ErrStep)) :
    ∀ (s a s' : ErrState), EInv inl s → EInv inl a → Sim inl t s a → errRun inl s sched = .ok s' →
      ∃ a', errRun inl a (mine t sched) = .ok a' ∧ Sim inl t s' a' := by
  induction sched with
  | nil =>
    intro s a s' _ _ hsim h
    simp only [errRun, Except.ok.injEq] at h; subst h
    exact ⟨a, rfl, hsim⟩
  | cons x r ih =>
    intro s a s' hinv hinva hsim h
    obtain ⟨u, st⟩ := x
    simp only [errRun] at h
    split at h
    · rename_i s1 h1
      by_cases hu : u = t
      · subst hu
        obtain ⟨a1, ha1, hsim1⟩ := sim_own hinv hinva hsim h1
        obtain ⟨a', ha', hsim'⟩ := ih s1 a1 s' (estep_inv hinv h1) (estep_inv hinva ha1) hsim1 h
        refine ⟨a', ?_, hsim'⟩
        simp only [mine, List.filter_cons, beq_self_eq_true, if_true, errRun, ha1]
        exact ha'
      · obtain ⟨a', ha', hsim'⟩ := ih s1 a s' (estep_inv hinv h1) hinva (sim_other hu hinv hsim h1) h
        refine ⟨a', ?_, hsim'⟩
        have : ((u, st).1 == t) = false := by simpa using hu
        simp only [mine, List.filter_cons, this, Bool.false_eq_true, if_false]
        exact ha'
    · cases h

theorem estep_obs {inl : Bool} {s s' : ErrState} {u : Nat} {st : ErrStep} (h : estep inl s u st = .ok s') :
    ∀ o ∈ s'.obs, o ∈ s.obs ∨ o.thread = u := by
  intro o ho
  cases st with
  | getRec => simp only [estep, Except.ok.injEq] at h; subst h; exact Or.inl ho
  | newRecIfNull =>
    simp only [estep] at h
    split at h
    · cases h; exact Or.inl ho
    · split at h
      · cases h; exact Or.inl ho
      · simp only [Except.ok.injEq] at h; subst h; exact Or.inl ho
  | read =>
    simp only [estep] at h
    split at h
    · cases h
      rcases List.mem_append.mp ho with ho | ho
      · exact Or.inl ho
      · simp only [List.mem_singleton] at ho; subst ho; exact Or.inr rfl
    · split at h
      · cases h
      · split at h
        · cases h
          rcases List.mem_append.mp ho with ho | ho
          · exact Or.inl ho
          · simp only [List.mem_singleton] at ho; subst ho; exact Or.inr rfl
        · cases h; exact Or.inl ho
  | store e =>
    simp only [estep] at h
    split at h
    · cases h; exact Or.inl ho
    · split at h
      · cases h
      · cases h; exact Or.inl ho
  | clean =>
    simp only [estep] at h
    split at h
    · cases h; exact Or.inl ho
    · split at h
      · cases h
      · cases h; exact Or.inl ho

theorem errRun_obs {inl : Bool} (sched : List (Nat × ErrStep)) : ∀ (s s' : ErrState), errRun inl s sched = .ok s' →
    ∀ o ∈ s'.obs, o ∈ s.obs ∨ ∃ x ∈ sched, x.1 = o.thread := by
  induction sched with
  | nil => intro s s' h o ho; simp only [errRun, Except.ok.injEq] at h; subst h; exact Or.inl ho
  | cons x r ih =>
    intro s s' h o ho
    obtain ⟨u, st⟩ := x
    simp only [errRun] at h
    split at h
    · rename_i s1 h1
      rcases ih s1 s' h o ho with h2 | ⟨y, hy, hyo⟩
      · rcases estep_obs h1 o h2 with h3 | h3
        · exact Or.inl h3
        · exact Or.inr ⟨(u, st), List.mem_cons_self, h3.symm⟩
      · exact Or.inr ⟨y, List.mem_cons_of_mem _ hy, hyo⟩
    · cases h

/-- In a run of thread `t` alone every observation is by `t`. -/
theorem obsOf_mine {inl : Bool} {t : Nat} {sched : List (Nat × ErrStep)} {a : ErrState}
    (h : errRun inl errInit (mine t sched) = .ok a) : obsOf t a.obs = a.obs := by
  apply List.filter_eq_self.mpr
  intro o ho
  rcases errRun_obs _ _ _ h o ho with h1 | ⟨x, hx, hxo⟩
  · cases h1
  · have := (List.mem_filter.mp hx).2
    simp only [beq_iff_eq] at this ⊢
    rw [← hxo]; exact this

theorem sim_init (inl : Bool) (t : Nat) : Sim inl t errInit errInit :=
  ⟨rfl, rfl, rfl, fun _ h => by cases h⟩

end LyModel.Conc
