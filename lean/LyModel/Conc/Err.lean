import LyModel.Conc.Interleave
import LyModel.Generated.Consts
import LyModel.Generated.LockPaths
/-!
Per-thread error records (C16 (c)): `ctx->err_ht` is a hash table of `struct ly_ctx_err_rec {err; tid}` *stored in the
table's record array*.  `ly_err_get_rec` / `ly_err_new_rec` look the calling thread's record up (or insert it) under
`lyb_hash_lock` and return a pointer **into the array**; the callers (`ly_err_first/last/clean`, `log_store`,
`ly_err_move`) dereference it after the unlock.  The table is created with resizing enabled, records are never
removed, and an insert that reaches `LYHT_ENLARGE_PERCENTAGE` replaces the array (`lyht_resize`: new array, records
re-inserted, old array freed).  The model keeps a generation counter for the array; a pointer remembers the
generation it was taken in.
-/
namespace LyModel.Conc
open LyModel.Generated

inductive ConcErr where
  | stalePointer          -- dereference of a pointer into a freed record array (heap-use-after-free, F8)
  deriving DecidableEq, Repr

structure ErrTable where
  size : Nat
  used : Nat
  resize : Nat                      -- `ht->resize`: 0 never, 1 enlarge only so far, 2 shrinking enabled too
  gen : Nat                         -- how often the record array was replaced
  recs : List (Nat × List Nat)      -- slot ↦ (tid, the thread's error list); slots are never vacated
  deriving Repr

/-- pointer into the record array -/
structure Ptr where
  gen : Nat
  slot : Nat
  deriving DecidableEq, Repr

/-- an observation made by dereferencing: who read, whose record it was, what was in it -/
structure Obs where
  thread : Nat
  owner : Nat
  errs : List Nat
  deriving DecidableEq, Repr

structure ErrState where
  tab : ErrTable
  ptr : Nat → Option Ptr            -- the local `rec` of each thread
  obs : List Obs

/-- `lyht_new(size, …, resize)`: the size is raised to `LYHT_MIN_SIZE`. -/
def newTable (size resize : Nat) : ErrTable :=
  { size := if size < LYHT_MIN_SIZE then LYHT_MIN_SIZE else size, used := 0, resize := resize, gen := 0, recs := [] }

/-- `ctx->err_ht` as `ly_ctx_new` creates it (arguments read from context.c). -/
def errInit : ErrState := { tab := newTable ERR_HT_NEW_SIZE ERR_HT_NEW_RESIZE, ptr := fun _ => none, obs := [] }

/-- slot of the record of thread `t` (`lyht_find` with `ly_ctx_ht_err_equal_cb`: equal tid) -/
def findSlot (t : Nat) : List (Nat × List Nat) → Option Nat
  | [] => none
  | (u, _) :: r => if u = t then some 0 else (findSlot t r).map (· + 1)

/-- The bookkeeping at the end of `_lyht_insert_with_resize_cb` after `++ht->used`; returns the new `resize` state and
    whether the array is replaced. -/
def afterInsert (size used resize : Nat) : Nat × Bool :=
  if resize = 0 then (resize, false)
  else
    let r := used * 100 / size
    let resize' := if resize = 1 ∧ r ≥ LYHT_FIRST_SHRINK_PERCENTAGE then 2 else resize
    (resize', decide (resize' = 2 ∧ r ≥ LYHT_ENLARGE_PERCENTAGE))

/-- `lyht_resize(ht, 1, …)` re-inserts the records hash list by hash list: slots are reassigned.  Any fixed
    rearrangement serves; the model reverses. -/
def rehash (recs : List (Nat × List Nat)) : List (Nat × List Nat) := recs.reverse

/-- `lyht_insert` of a fresh record for `t` (the caller has checked that there is none).  `inl`: the table stores the
    records themselves (`Generated.ERR_REC_INLINE`, the pinned tree); otherwise it stores pointers to separately
    allocated records, which a resize does not move. -/
def insertRec (inl : Bool) (tab : ErrTable) (t : Nat) : ErrTable :=
  let used := tab.used + 1
  let recs := tab.recs ++ [(t, [])]
  let (resize', enl) := afterInsert tab.size used tab.resize
  if enl then { size := tab.size * 2, used := used, resize := resize', gen := tab.gen + 1,
                recs := if inl then rehash recs else recs }
  else { tab with used := used, resize := resize', recs := recs }

inductive ErrStep where
  | getRec                -- rec = ly_err_get_rec(ctx);                        (locked section)
  | newRecIfNull          -- if (!rec) rec = ly_err_new_rec(ctx);              (locked section, may replace the array)
  | read                  -- … rec->err …            after the unlock (ly_err_first / ly_err_last)
  | store (e : Nat)       -- append to rec->err       after the unlock (log_store)
  | clean                 -- rec->err = NULL          after the unlock (ly_err_clean)
  deriving DecidableEq, Repr

def setPtr (s : ErrState) (t : Nat) (p : Option Ptr) : ErrState :=
  { s with ptr := fun u => if u = t then p else s.ptr u }

def setErrs (recs : List (Nat × List Nat)) (slot : Nat) (f : List Nat → List Nat) : List (Nat × List Nat) :=
  match recs[slot]? with
  | some (o, es) => recs.set slot (o, f es)
  | none => recs

/-- One step of thread `t`. -/
def estep (inl : Bool) (s : ErrState) (t : Nat) : ErrStep → Except ConcErr ErrState
  | .getRec => .ok (setPtr s t ((findSlot t s.tab.recs).map (fun i => ⟨s.tab.gen, i⟩)))
  | .newRecIfNull =>
    match s.ptr t with
    | some _ => .ok s
    | none =>
      match findSlot t s.tab.recs with
      | some _ => .ok s                                   -- LY_EEXIST: ly_err_new_rec returns NULL
      | none =>
        let tab := insertRec inl s.tab t
        .ok (setPtr { s with tab := tab } t ((findSlot t tab.recs).map (fun i => ⟨tab.gen, i⟩)))
  | .read =>
    match s.ptr t with
    | none => .ok { s with obs := s.obs ++ [⟨t, t, []⟩] }        -- NULL: "no error stored"
    | some p =>
      if inl && p.gen ≠ s.tab.gen then .error .stalePointer
      else match s.tab.recs[p.slot]? with
        | some (o, es) => .ok { s with obs := s.obs ++ [⟨t, o, es⟩] }
        | none => .ok s
  | .store e =>
    match s.ptr t with
    | none => .ok s
    | some p =>
      if inl && p.gen ≠ s.tab.gen then .error .stalePointer
      else .ok { s with tab := { s.tab with recs := setErrs s.tab.recs p.slot (· ++ [e]) } }
  | .clean =>
    match s.ptr t with
    | none => .ok s
    | some p =>
      if inl && p.gen ≠ s.tab.gen then .error .stalePointer
      else .ok { s with tab := { s.tab with recs := setErrs s.tab.recs p.slot (fun _ => []) } }

def errRun (inl : Bool) (s : ErrState) : List (Nat × ErrStep) → Except ConcErr ErrState
  | [] => .ok s
  | (t, st) :: r =>
    match estep inl s t st with
    | .ok s' => errRun inl s' r
    | .error e => .error e

/-! ### API calls as step lists -/

inductive ErrCall where
  | log (e : Nat)         -- any LOGERR/LOGVAL… with a context: log_store
  | last                  -- ly_err_last / ly_err_first
  | clean                 -- ly_err_clean(ctx, NULL)
  deriving DecidableEq, Repr

def ErrCall.steps : ErrCall → List ErrStep
  | .log e => [.getRec, .newRecIfNull, .store e]
  | .last => [.getRec, .read]
  | .clean => [.getRec, .clean]

def prog (calls : List ErrCall) : List ErrStep := (calls.map ErrCall.steps).flatten

/-! ### the schedule of F8 -/

/-- Number of records at which the first insert replaces the array: simulate inserts into the initial table. -/
def thresholdFrom : Nat → ErrTable → Option Nat
  | 0, _ => none
  | fuel + 1, tab =>
    let tab' := insertRec true tab tab.used  -- tids 0,1,2,… are fresh
    if tab'.gen ≠ tab.gen then some tab'.used else thresholdFrom fuel tab'

def staleThreshold : Nat := (thresholdFrom 64 errInit.tab).getD 0

/-- `k` threads; thread 0 logs an error and later asks for it, the others log an error. -/
def stalePrograms (k : Nat) : List (List ErrStep) :=
  prog [.log 100, .last] :: (List.range (k - 1)).map (fun i => prog [.log (101 + i)])

/-- Thread 0 logs; threads 1 … k-2 log; thread 0 enters `ly_err_last` and obtains its pointer; thread k-1 logs (its
    insert is the one that replaces the array); thread 0 dereferences. -/
def staleSchedule (k : Nat) : List (Nat × ErrStep) :=
  tagged 0 (prog [.log 100]) ++
  ((List.range (k - 2)).map (fun i => tagged (i + 1) (prog [.log (101 + i)]))).flatten ++
  [(0, .getRec)] ++
  tagged (k - 1) (prog [.log (101 + (k - 2))]) ++
  [(0, .read)]

end LyModel.Conc
