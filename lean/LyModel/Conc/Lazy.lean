import LyModel.Conc.Interleave
/-!
Lazy fill of `value->_canonical` in the print callbacks (C16 (d); `Generated.lazyCanonSites` lists them):

    if (!value->_canonical) {                          -- check     (unprotected read)
        … build the string …
        lydict_insert_zc(ctx, ret, &value->_canonical) -- insert    (one dictionary section: refcount + 1)
    }                                                  -- set       (unprotected write of the returned pointer)
    return value->_canonical;                          -- ret

on a `const struct lyd_value *` of a tree the caller only reads.  The value's free callback releases one reference.
-/
namespace LyModel.Conc

structure LazyState where
  canon : Option String        -- value->_canonical
  refs : Nat                   -- reference count of the canonical string in the dictionary
  passed : Nat → Bool          -- per thread: it is inside the `if`
  out : List (Nat × String)    -- what each call returned

inductive LStep where
  | check | insert | set | ret
  deriving DecidableEq, Repr

/-- the canonical string of the value (what `bits_items2canon` etc. compute) is a parameter -/
def lstep (c : String) (s : LazyState) (t : Nat) : LStep → LazyState
  | .check => { s with passed := fun u => if u = t then s.canon.isNone else s.passed u }
  | .insert => if s.passed t then { s with refs := s.refs + 1 } else s
  | .set => if s.passed t then { s with canon := some c, passed := fun u => if u = t then false else s.passed u } else s
  | .ret => { s with out := s.out ++ [(t, s.canon.getD "")] }

def lrun (c : String) (s : LazyState) : List (Nat × LStep) → LazyState
  | [] => s
  | (t, st) :: r => lrun c (lstep c s t st) r

/-- one call of a print callback -/
def reader : List LStep := [.check, .insert, .set, .ret]

/-- `lyplg_type_free_*`: `lydict_remove(ctx, value->_canonical)` -/
def lfree (s : LazyState) : LazyState :=
  match s.canon with
  | some _ => { s with canon := none, refs := s.refs - 1 }
  | none => s

def lazyInit (canon : Option String) (refs : Nat) : LazyState :=
  { canon := canon, refs := refs, passed := fun _ => false, out := [] }

/-- both readers pass the check before either stores the pointer -/
def raceSchedule : List (Nat × LStep) :=
  [(0, .check), (1, .check), (0, .insert), (1, .insert), (0, .set), (1, .set), (0, .ret), (1, .ret)]

theorem lrun_append (c : String) (s : LazyState) (a b : List (Nat × LStep)) :
    lrun c s (a ++ b) = lrun c (lrun c s a) b := by
  induction a generalizing s with
  | nil => rfl
  | cons x r ih => obtain ⟨t, st⟩ := x; simp only [List.cons_append, lrun, ih]

/-- With the canonical string already cached, no schedule of any threads' steps changes anything. -/
theorem lrun_filled (c : String) (sched : List (Nat × LStep)) (s : LazyState)
    (hc : s.canon = some c) (hp : ∀ t, s.passed t = false) :
    (lrun c s sched).canon = some c ∧ (lrun c s sched).refs = s.refs ∧ (∀ t, (lrun c s sched).passed t = false) ∧
    ∀ o ∈ (lrun c s sched).out, o ∈ s.out ∨ o.2 = c := by
  induction sched generalizing s with
  | nil => exact ⟨hc, rfl, hp, fun o ho => Or.inl ho⟩
  | cons x r ih =>
    obtain ⟨t, st⟩ := x
    simp only [lrun]
    cases st with
    | check =>
      have := ih (lstep c s t .check) hc (by intro u; simp only [lstep, hc, Option.isNone_some]; split <;> simp [hp u])
      exact this
    | insert =>
      have : lstep c s t .insert = s := by simp [lstep, hp t]
      rw [this]; exact ih s hc hp
    | set =>
      have : lstep c s t .set = s := by simp [lstep, hp t]
      rw [this]; exact ih s hc hp
    | ret =>
      obtain ⟨h1, h2, h3, h4⟩ := ih (lstep c s t .ret) hc hp
      refine ⟨h1, h2, h3, ?_⟩
      intro o ho
      rcases h4 o ho with h | h
      · simp only [lstep, hc, Option.getD_some, List.mem_append, List.mem_singleton] at h
        rcases h with h | rfl
        · exact Or.inl h
        · exact Or.inr rfl
      · exact Or.inr h

end LyModel.Conc
