import LyModel.Conc.Dict
import LyModel.Conc.Err
import LyModel.Conc.Lazy
/-! driver ops of component `conc` (same request lines as harness/wb_log.c and harness/wb_canon.c) -/
namespace LyModel.Conc.Drv
open LyModel.Conc

def parseCall (s : String) : Option ErrCall :=
  match s.toList with
  | 'L' :: ds => (String.ofList ds).toNat?.map ErrCall.log
  | ['F'] => some .last
  | ['C'] => some .clean
  | _ => none

def parseProg (s : String) : Option (List ErrStep) :=
  if s == "-" then some []
  else (s.splitOn ".").mapM parseCall |>.map prog

def parseNats (s : String) : Option (List Nat) :=
  if s == "-" then some [] else (s.splitOn ".").mapM String.toNat?

/-- turn a list of thread indices into a tagged schedule by consuming the threads' step lists -/
def mkSched {α : Type} : List (List α) → List Nat → Option (List (Nat × α))
  | ts, [] => if ts.all List.isEmpty then some [] else none
  | ts, t :: r =>
    match ts[t]? with
    | some (a :: rest) => (mkSched (ts.set t rest) r).map ((t, a) :: ·)
    | _ => none

def dots (l : List String) : String := if l.isEmpty then "-" else ".".intercalate l

def showObs (o : Obs) : String :=
  if o.errs.isEmpty then s!"{o.thread}/-/-" else s!"{o.thread}/{o.owner}/{dots (o.errs.map toString)}"

def errsched (args : List String) : String :=
  match args with
  | n :: rest =>
    match n.toNat? with
    | some k =>
      if k < 1 || k > 64 || rest.length ≠ k + 1 then "err BadArgs" else
      match (rest.take k).mapM parseProg, parseNats (rest.getD k "") with
      | some progs, some order =>
        match mkSched progs order with
        | none => "err BadSched"
        | some sched =>
          match errRun LyModel.Generated.ERR_REC_INLINE errInit sched with
          | .error .stalePointer => "err Stale"
          | .ok s => " ".intercalate (["ok", toString s.tab.gen, toString s.tab.recs.length] ++ s.obs.map showObs)
      | _, _ => "err BadArgs"
    | none => "err BadArgs"
  | [] => "err BadArgs"

def parseDictOp (tok : String) : Option (Nat × TStep × String) :=
  match tok.splitOn ":" with
  | [h, s] =>
    match h.toList with
    | k :: ds =>
      match (String.ofList ds).toNat? with
      | some t =>
        if k == 'i' then some (t, .atomic (.insert s), s)
        else if k == 'r' then some (t, .atomic (.remove s), s)
        else if k == 'd' then some (t, .atomic (.dup s), s)
        else none
      | none => none
    | [] => none
  | _ => none

def showRet : DRet → String
  | .ptr _ => "P"
  | .success => "S"
  | .enotfound => "N"

def dictsched (args : List String) : String :=
  match args.mapM parseDictOp with
  | none => "err BadArgs"
  | some ops =>
    let sched := ops.map (fun x => (x.1, x.2.1))
    let strs := (ops.map (·.2.2)).eraseDups
    let (d, out) := exec noRefs sched
    "ok " ++ dots (out.map (fun x => showRet x.2)) ++ " " ++ dots (strs.map (fun s => toString (d s)))

/-- `k` readers of one value that all pass the check before any of them stores (`prefilled`: canonical cached before) -/
def lazy (k : Nat) (prefilled : Bool) : String :=
  let c := "c"
  let ids := List.range k
  let sched := ids.map (·, LStep.check) ++ ids.map (·, LStep.insert) ++ ids.map (·, LStep.set) ++ ids.map (·, LStep.ret)
  let s0 := if prefilled then lrun c (lazyInit none 0) (tagged 0 reader) else lazyInit none 0
  let s := lrun c { s0 with out := [] } sched
  let same := s.out.all (·.2 == c)
  s!"ok {s.refs} {(lfree s).refs} {if same then 1 else 0}"

def handle (op : String) (args : List String) : String :=
  match op, args with
  | "errsched", _ => errsched args
  | "dictsched", _ => dictsched args
  | "lazy", [k, pre] =>
    match k.toNat? with
    | some n => if n < 1 || n > 32 then "err BadArgs" else lazy n (pre == "1")
    | none => "err BadArgs"
  | _, _ => "err BadOp"

end LyModel.Conc.Drv
