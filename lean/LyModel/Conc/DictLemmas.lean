import LyModel.Conc.Dict
import LyModel.Conc.LockLemmas
/-! Proof of schedule independence of the dictionary under the reference discipline. -/
namespace LyModel.Conc

/-! ### generic facts about interleavings -/

/-- The steps of thread `i` in any interleaving are exactly its list. -/
theorem proj_interleaving {α : Type} {ts : List (List α)} {sched : List (Nat × α)} (h : Interleaving ts sched)
    (i : Nat) : proj i sched = ts[i]?.getD [] := by
  induction h with
  | done ts hall =>
    cases hi : ts[i]? with
    | none => rfl
    | some l => simp [proj, hall l (List.mem_of_getElem? hi)]
  | step ts j a rest sched hj _ ih =>
    by_cases hji : j = i
    · subst hji
      have : (ts.set j rest)[j]? = some rest := by
        rw [List.getElem?_set]
        have : j < ts.length := (List.getElem?_eq_some_iff.mp hj).1
        simp [this]
      simp only [proj, List.filter_cons, beq_self_eq_true, if_true, List.map_cons] at ih ⊢
      rw [ih, this, hj]; rfl
    · have : (ts.set j rest)[i]? = ts[i]? := by
        rw [List.getElem?_set]; simp [hji]
      have hb : ((j, a).1 == i) = false := by simpa using hji
      simp only [proj, List.filter_cons, hb, Bool.false_eq_true, if_false] at ih ⊢
      rw [ih, this]

/-- Sum of a per-thread measure over the thread lists. -/
def sumOver {α : Type} (f : List α → Nat) (ts : List (List α)) : Nat := (ts.map f).sum

theorem sumOver_set {α : Type} (f : List α → Nat) (ts : List (List α)) (i : Nat) (old new : List α)
    (h : ts[i]? = some old) : sumOver f (ts.set i new) + f old = sumOver f ts + f new := by
  induction ts generalizing i with
  | nil => simp at h
  | cons t r ih =>
    cases i with
    | zero =>
      simp only [List.getElem?_cons_zero, Option.some.injEq] at h
      subst h
      simp only [sumOver, List.set_cons_zero, List.map_cons, List.sum_cons]; omega
    | succ k =>
      simp only [List.getElem?_cons_succ] at h
      have := ih k h
      simp only [sumOver, List.set_cons_succ, List.map_cons, List.sum_cons] at this ⊢; omega

theorem sumOver_zero {α : Type} (f : List α → Nat) (hf : f [] = 0) (ts : List (List α)) (h : ∀ l ∈ ts, l = []) :
    sumOver f ts = 0 := by
  induction ts with
  | nil => rfl
  | cons t r ih =>
    have ht : t = [] := h t List.mem_cons_self
    subst ht
    simp only [sumOver, List.map_cons, List.sum_cons, hf, Nat.zero_add]
    exact ih (fun l hl => h l (List.mem_cons_of_mem _ hl))

/-! ### balances -/

def total : Nat → (Nat → Dict) → String → Nat
  | 0, _, _ => 0
  | n + 1, b, s => total n b s + b n s

def upd (b : Nat → Dict) (i : Nat) (v : Dict) : Nat → Dict := fun j => if j = i then v else b j

theorem total_upd_ge (n i : Nat) (b : Nat → Dict) (v : Dict) (s : String) (h : n ≤ i) :
    total n (upd b i v) s = total n b s := by
  induction n with
  | zero => rfl
  | succ k ih =>
    have hk : k ≠ i := by omega
    show total k (upd b i v) s + upd b i v k s = total k b s + b k s
    rw [ih (by omega)]
    simp [upd, hk]

theorem total_upd (n i : Nat) (b : Nat → Dict) (v : Dict) (s : String) (h : i < n) :
    total n (upd b i v) s + b i s = total n b s + v s := by
  induction n with
  | zero => omega
  | succ k ih =>
    by_cases hk : k = i
    · subst hk
      show total k (upd b k v) s + upd b k v k s + b k s = total k b s + b k s + v s
      rw [total_upd_ge k k b v s (Nat.le_refl k)]
      simp [upd]; omega
    · have := ih (by omega)
      show total k (upd b i v) s + upd b i v k s + b i s = total k b s + b k s + v s
      simp only [upd, hk, if_false]
      omega

theorem total_ge (n i : Nat) (b : Nat → Dict) (s : String) (h : i < n) : b i s ≤ total n b s := by
  induction n with
  | zero => omega
  | succ k ih =>
    by_cases hk : k = i
    · subst hk; simp only [total]; omega
    · have := ih (by omega); simp only [total]; omega

/-! ### the main invariant -/

def okOut : List (Nat × TStep) → List (Nat × DRet)
  | [] => []
  | (_, .loc) :: r => okOut r
  | (i, .atomic op) :: r => (i, okRet op) :: okOut r

def addsS (s : String) (sched : List (Nat × TStep)) : Nat := adds s (sched.map (·.2))
def remsS (s : String) (sched : List (Nat × TStep)) : Nat := rems s (sched.map (·.2))

theorem owned_set {ts : List (List TStep)} {bals : Nat → Dict} (i : Nat) {rest : List TStep} {v : Dict}
    (hown : ∀ j l, ts[j]? = some l → ownedFrom (bals j) l = true)
    (hv : ownedFrom v rest = true) :
    ∀ j l, (ts.set i rest)[j]? = some l → ownedFrom (upd bals i v j) l = true := by
  intro j l hj
  rcases getElem?_set_cases _ _ _ _ _ hj with ⟨e, rfl⟩ | ⟨ne, hj'⟩
  · subst e; simpa [upd] using hv
  · have : (upd bals i v) j = bals j := by simp [upd, Ne.symm ne]
    rw [this]; exact hown j l hj'

theorem exec_owned {ts : List (List TStep)} {sched : List (Nat × TStep)} (h : Interleaving ts sched) :
    ∀ (bals : Nat → Dict) (d : Dict),
      (∀ j l, ts[j]? = some l → ownedFrom (bals j) l = true) →
      (∀ s, total ts.length bals s ≤ d s) →
      (exec d sched).2 = okOut sched ∧
      ∀ s, (exec d sched).1 s + remsS s sched = d s + addsS s sched := by
  induction h with
  | done ts _ =>
    intro bals d _ _
    exact ⟨rfl, fun s => rfl⟩
  | step ts i a rest sched hi _ ih =>
    intro bals d hown htot
    have hilt : i < ts.length := (List.getElem?_eq_some_iff.mp hi).1
    have hown_i := hown i _ hi
    cases a with
    | loc =>
      have hv : ownedFrom (bals i) rest = true := by simpa [ownedFrom] using hown_i
      have hown' := owned_set i hown hv
      have hu : upd bals i (bals i) = bals := by funext j; simp only [upd]; split <;> simp_all
      rw [hu] at hown'
      have := ih bals d hown' (by simpa using htot)
      simpa [exec, okOut, addsS, remsS, adds, rems] using this
    | atomic op =>
      cases op with
      | insert x =>
        have hv : ownedFrom (bump (bals i) x) rest = true := by simpa [ownedFrom] using hown_i
        have hown' := owned_set i hown hv
        have htot' : ∀ s, total (ts.set i rest).length (upd bals i (bump (bals i) x)) s ≤ bump d x s := by
          intro s
          have h1 := total_upd ts.length i bals (bump (bals i) x) s hilt
          have h2 := htot s
          simp only [List.length_set]
          simp only [bump] at h1 ⊢
          by_cases hs : s = x
          · subst hs; simp only [if_true] at h1 ⊢; omega
          · simp only [hs, if_false] at h1 ⊢; omega
        obtain ⟨ih1, ih2⟩ := ih _ (bump d x) hown' htot'
        refine ⟨?_, ?_⟩
        · simp only [exec, dstep, okOut, okRet, ih1]
        · intro s
          have := ih2 s
          simp only [exec, dstep, addsS, remsS, List.map_cons, adds, rems, bump] at this ⊢
          by_cases hs : s = x
          · subst hs; simp only [if_true] at this ⊢; omega
          · simp only [hs, if_false] at this ⊢; omega
      | remove x =>
        have hv : 1 ≤ bals i x ∧ ownedFrom (drop (bals i) x) rest = true := by simpa [ownedFrom] using hown_i
        have hown' := owned_set i hown hv.2
        have hge := total_ge ts.length i bals x hilt
        have hdx : d x ≠ 0 := by have := htot x; omega
        have htot' : ∀ s, total (ts.set i rest).length (upd bals i (drop (bals i) x)) s ≤ drop d x s := by
          intro s
          have h1 := total_upd ts.length i bals (drop (bals i) x) s hilt
          have h2 := htot s
          simp only [List.length_set]
          simp only [drop] at h1 ⊢
          by_cases hs : s = x
          · subst hs; simp only [if_true] at h1 ⊢; omega
          · simp only [hs, if_false] at h1 ⊢; omega
        obtain ⟨ih1, ih2⟩ := ih _ (drop d x) hown' htot'
        refine ⟨?_, ?_⟩
        · simp only [exec, dstep, hdx, if_false, okOut, okRet, ih1]
        · intro s
          have := ih2 s
          simp only [exec, dstep, hdx, if_false, addsS, remsS, List.map_cons, adds, rems, drop] at this ⊢
          by_cases hs : s = x
          · subst hs; simp only [if_true] at this ⊢; omega
          · simp only [hs, if_false] at this ⊢; omega
      | dup x =>
        have hv : 1 ≤ bals i x ∧ ownedFrom (bump (bals i) x) rest = true := by simpa [ownedFrom] using hown_i
        have hown' := owned_set i hown hv.2
        have hge := total_ge ts.length i bals x hilt
        have hdx : d x ≠ 0 := by have := htot x; omega
        have htot' : ∀ s, total (ts.set i rest).length (upd bals i (bump (bals i) x)) s ≤ bump d x s := by
          intro s
          have h1 := total_upd ts.length i bals (bump (bals i) x) s hilt
          have h2 := htot s
          simp only [List.length_set]
          simp only [bump] at h1 ⊢
          by_cases hs : s = x
          · subst hs; simp only [if_true] at h1 ⊢; omega
          · simp only [hs, if_false] at h1 ⊢; omega
        obtain ⟨ih1, ih2⟩ := ih _ (bump d x) hown' htot'
        refine ⟨?_, ?_⟩
        · simp only [exec, dstep, hdx, if_false, okOut, okRet, ih1]
        · intro s
          have := ih2 s
          simp only [exec, dstep, hdx, if_false, addsS, remsS, List.map_cons, adds, rems, bump] at this ⊢
          by_cases hs : s = x
          · subst hs; simp only [if_true] at this ⊢; omega
          · simp only [hs, if_false] at this ⊢; omega

/-! ### counting, projections, serial schedules -/

theorem adds_interleaving (s : String) {ts : List (List TStep)} {sched : List (Nat × TStep)}
    (h : Interleaving ts sched) : addsS s sched = sumOver (adds s) ts := by
  induction h with
  | done ts hall => exact (sumOver_zero (adds s) rfl ts hall).symm
  | step ts i a rest sched hi _ ih =>
    have := sumOver_set (adds s) ts i (a :: rest) rest hi
    simp only [addsS, List.map_cons] at ih ⊢
    cases a with
    | loc => simp only [adds] at this ⊢; omega
    | atomic op => cases op <;> simp only [adds] at this ⊢ <;> omega

theorem rems_interleaving (s : String) {ts : List (List TStep)} {sched : List (Nat × TStep)}
    (h : Interleaving ts sched) : remsS s sched = sumOver (rems s) ts := by
  induction h with
  | done ts hall => exact (sumOver_zero (rems s) rfl ts hall).symm
  | step ts i a rest sched hi _ ih =>
    have := sumOver_set (rems s) ts i (a :: rest) rest hi
    simp only [remsS, List.map_cons] at ih ⊢
    cases a with
    | loc => simp only [rems] at this ⊢; omega
    | atomic op => cases op <;> simp only [rems] at this ⊢ <;> omega

theorem proj_okOut (i : Nat) (sched : List (Nat × TStep)) : proj i (okOut sched) = okRets (proj i sched) := by
  induction sched with
  | nil => rfl
  | cons p r ih =>
    obtain ⟨j, a⟩ := p
    cases a with
    | loc =>
      simp only [okOut, ih]
      by_cases hj : (j == i) = true
      · simp [proj, hj, okRets]
      · simp [proj, hj]
    | atomic op =>
      simp only [proj, okOut, List.filter_cons] at ih ⊢
      by_cases hj : (j == i) = true
      · simp only [hj, if_true, List.map_cons, okRets, ih]
      · simp only [hj, Bool.false_eq_true, if_false, ih]

theorem set_nil_of_getElem? {α : Type} (ts : List (List α)) (i : Nat) (h : ts[i]? = some []) : ts.set i [] = ts := by
  induction ts generalizing i with
  | nil => rfl
  | cons t r ih =>
    cases i with
    | zero => simp only [List.getElem?_cons_zero, Option.some.injEq] at h; subst h; rfl
    | succ k => simp only [List.getElem?_cons_succ] at h; simp only [List.set_cons_succ, ih k h]

/-- Running one thread to completion is a legal prefix of an interleaving. -/
theorem run_thread {α : Type} (l : List α) : ∀ (ts : List (List α)) (i : Nat) (sched : List (Nat × α)),
    ts[i]? = some l → Interleaving (ts.set i []) sched → Interleaving ts (tagged i l ++ sched) := by
  induction l with
  | nil =>
    intro ts i sched hi h
    rw [set_nil_of_getElem? ts i hi] at h
    exact h
  | cons a r ih =>
    intro ts i sched hi h
    have hlt : i < ts.length := (List.getElem?_eq_some_iff.mp hi).1
    refine Interleaving.step ts i a r _ hi ?_
    apply ih (ts.set i r) i sched
    · rw [List.getElem?_set]; simp [hlt]
    · rw [List.set_set]; exact h

theorem serialSched_set {α : Type} (ts : List (List α)) (i : Nat) (v : List α) (σ : List Nat) (hi : i ∉ σ) :
    serialSched (ts.set i v) σ = serialSched ts σ := by
  induction σ with
  | nil => rfl
  | cons j σ ih =>
    have hji : i ≠ j := fun e => hi (e ▸ List.mem_cons_self)
    have : (ts.set i v)[j]? = ts[j]? := by rw [List.getElem?_set]; simp [hji]
    simp only [serialSched, this, ih (fun h => hi (List.mem_cons_of_mem _ h))]

/-- Every order of running the threads one after the other is an interleaving. -/
theorem serial_interleaving {α : Type} (σ : List Nat) (hnd : σ.Nodup) : ∀ (ts : List (List α)),
    (∀ i l, ts[i]? = some l → i ∉ σ → l = []) → Interleaving ts (serialSched ts σ) := by
  induction σ with
  | nil =>
    intro ts h
    refine Interleaving.done ts ?_
    intro l hl
    obtain ⟨i, hi⟩ := List.getElem?_of_mem hl
    exact h i l hi (by simp)
  | cons i σ ih =>
    intro ts h
    have hnd' := (List.nodup_cons.mp hnd)
    cases hi : ts[i]? with
    | none =>
      simp only [serialSched, hi, Option.getD_none, tagged, List.map_nil, List.nil_append]
      apply ih hnd'.2
      intro j l hj hjs
      apply h j l hj
      intro hm
      rcases List.mem_cons.mp hm with rfl | hm
      · rw [hi] at hj; cases hj
      · exact hjs hm
    | some l =>
      simp only [serialSched, hi, Option.getD_some]
      apply run_thread l ts i _ hi
      rw [← serialSched_set ts i [] σ hnd'.1]
      apply ih hnd'.2
      intro j l' hj hjs
      rcases getElem?_set_cases _ _ _ _ _ hj with ⟨_, rfl⟩ | ⟨ne, hj'⟩
      · rfl
      · apply h j l' hj'
        intro hm
        rcases List.mem_cons.mp hm with rfl | hm
        · exact ne rfl
        · exact hjs hm

theorem serial_interleaving_perm {α : Type} (ts : List (List α)) (σ : List Nat) (hσ : σ.Perm (List.range ts.length)) :
    Interleaving ts (serialSched ts σ) := by
  apply serial_interleaving σ (hσ.nodup_iff.mpr List.nodup_range)
  intro i l hi hn
  exact absurd (hσ.mem_iff.mpr (List.mem_range.mpr (List.getElem?_eq_some_iff.mp hi).1)) hn

theorem total_noRefs (n : Nat) (s : String) : total n (fun _ => noRefs) s = 0 := by
  induction n with
  | zero => rfl
  | succ k ih => simp [total, ih, noRefs]

end LyModel.Conc
