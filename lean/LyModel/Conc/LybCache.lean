/-!
The LYB schema-hash cache (C16): `lyb_cache_module_hash` fills `lysc_node.hash[]` of a module's nodes under
`ctx->lyb_hash_lock`, once (`if (node->hash[0]) return LY_EEXIST`); `lyb_get_hash` reads the cache without the lock.
`Props.C16.lock_discipline` shows the writes are inside the section; this model shows why the unlocked reads are fine:
every reader has called `lyb_cache_module_hash` itself before (printer_lyb.c / parser_lyb.c do so per module).
-/
namespace LyModel.Conc

structure CacheState where
  hash : Option Nat               -- none = `hash[0] == 0`, not cached yet
  writes : Nat                    -- how often the cache was written
  cached : Nat → Bool             -- threads that have been through `lyb_cache_module_hash`
  reads : List (Nat × Option Nat) -- what `lyb_get_hash` returned, per thread

inductive CStep where
  | cache      -- lyb_cache_module_hash(mod): one locked section
  | read       -- lyb_get_hash(node, i): unprotected read
  deriving DecidableEq, Repr

/-- `v` = the hash the node gets (a function of module and node name only) -/
def cstep (v : Nat) (s : CacheState) (t : Nat) : CStep → CacheState
  | .cache =>
    let s' := { s with cached := fun u => if u = t then true else s.cached u }
    if s.hash.isNone then { s' with hash := some v, writes := s.writes + 1 } else s'
  | .read => { s with reads := s.reads ++ [(t, s.hash)] }

def crun (v : Nat) (s : CacheState) : List (Nat × CStep) → CacheState
  | [] => s
  | (t, st) :: r => crun v (cstep v s t st) r

def cacheInit : CacheState := { hash := none, writes := 0, cached := fun _ => false, reads := [] }

/-- every read of a thread comes after a `cache` step of the same thread -/
def readsAfterOwnCache (done : Nat → Bool) : List (Nat × CStep) → Bool
  | [] => true
  | (t, .cache) :: r => readsAfterOwnCache (fun u => if u = t then true else done u) r
  | (t, .read) :: r => done t && readsAfterOwnCache done r

structure CInv (v : Nat) (s : CacheState) : Prop where
  once : (s.hash = none ∧ s.writes = 0) ∨ (s.hash = some v ∧ s.writes = 1)
  pub : ∀ t, s.cached t = true → s.hash = some v
  reads : ∀ r ∈ s.reads, r.2 = some v

theorem crun_inv (v : Nat) (sched : List (Nat × CStep)) : ∀ (s : CacheState), CInv v s →
    readsAfterOwnCache s.cached sched = true → CInv v (crun v s sched) := by
  induction sched with
  | nil => intro s h _; exact h
  | cons x r ih =>
    intro s h hr
    obtain ⟨t, st⟩ := x
    cases st with
    | cache =>
      simp only [readsAfterOwnCache] at hr
      simp only [crun]
      apply ih
      · rcases h.once with ⟨hn, hw⟩ | ⟨hs, hw⟩
        · refine ⟨Or.inr ⟨by simp [cstep, hn], by simp [cstep, hn, hw]⟩, ?_, ?_⟩
          · intro u _; simp [cstep, hn]
          · intro q hq; simp only [cstep, hn, Option.isNone_none, if_true] at hq; exact h.reads q hq
        · refine ⟨Or.inr ⟨by simp [cstep, hs], by simp [cstep, hs, hw]⟩, ?_, ?_⟩
          · intro u _; simp [cstep, hs]
          · intro q hq; simp only [cstep, hs, Option.isNone_some, Bool.false_eq_true, if_false] at hq; exact h.reads q hq
      · have : (cstep v s t .cache).cached = fun u => if u = t then true else s.cached u := by
          simp only [cstep]; split <;> rfl
        rw [this]; exact hr
    | read =>
      simp only [readsAfterOwnCache, Bool.and_eq_true] at hr
      simp only [crun]
      apply ih
      · refine ⟨h.once, h.pub, ?_⟩
        intro q hq
        simp only [cstep, List.mem_append, List.mem_singleton] at hq
        rcases hq with hq | rfl
        · exact h.reads q hq
        · exact h.pub t hr.1
      · exact hr.2

end LyModel.Conc
