import LyModel.Conc.Ev
/-!
Lock discipline over enumerated control-flow paths (C16 (a)).

The check is modular (assume/guarantee), so that recursion in the call graph (`ly_log → log_vprintf → ly_log`) needs
no unfolding: a `static` helper may assume the mutexes in `Fn.held`; every call site has to provide them; every
non-static function assumes nothing.  `Fn.acquires` over-approximates what a call may lock and is closed under calls,
which gives the lock *order* check (a mutex may only be taken while all held ones are smaller: no self-deadlock, no
order inversion).
-/
namespace LyModel.Conc

/-- `pol field write? = some m`: such an access needs mutex `m`; `none`: unconstrained. -/
abbrev Policy := Nat → Bool → Option Nat

/-- A mutex number nobody ever holds: accesses to fields the policy does not know are rejected. -/
def noMutex : Nat := 1000

/-- The protection the code documents.  `full = true` additionally demands that the `->err` member of a thread's
    error record — storage *inside the err_ht record array* — is only touched under the lock that protects the
    array (false on the code: finding F8).  Reads of the LYB hash cache are unconstrained: the cache is write-once
    and a reader has itself called `lyb_cache_module_hash` (lock/unlock) before its first read. -/
def guard (full : Bool) : Policy
  | 0, _ => some 0
  | 1, _ => some 0
  | 2, _ => some 1
  | 3, _ => if full then some 1 else none
  | 4, true => some 1
  | 4, false => none
  | _, _ => some noMutex

/-- State while walking a path: mutexes held on entry (`base`) and those taken since, innermost first. -/
structure Held where
  base : List Nat
  stack : List Nat
  deriving Repr, DecidableEq

def Held.all (h : Held) : List Nat := h.stack ++ h.base

/-- One event. `none` = discipline broken here. -/
def stepEv (pol : Policy) (fns : List Fn) (h : Held) : Ev → Option Held
  | .lock m => if h.all.all (· < m) then some { h with stack := m :: h.stack } else none
  | .unlock m =>
    match h.stack with
    | t :: r => if t = m then some { h with stack := r } else none
    | [] => none
  | .access f w =>
    match pol f w with
    | none => some h
    | some m => if h.all.contains m then some h else none
  | .call g =>
    match fns[g]? with
    | none => none
    | some c =>
      if c.held.all (h.all.contains ·) && c.acquires.all (fun a => h.all.all (· < a)) then some h else none
  | .ret => none     -- `ret` is only legal as the last event, handled by `walk`

/-- Walk a path; it has to end in `ret` with everything taken here released again. -/
def walk (pol : Policy) (fns : List Fn) : Held → List Ev → Bool
  | h, [.ret] => h.stack.isEmpty
  | _, [] => false
  | h, e :: rest =>
    match stepEv pol fns h e with
    | some h' => walk pol fns h' rest
    | none => false

/-- All paths of one function are fine. -/
def pathsOk (pol : Policy) (fns : List Fn) (f : Fn) : Bool :=
  f.paths.all (walk pol fns ⟨f.held, []⟩)

/-- The summaries are consistent: only a static function assumes locks; `acquires` contains the direct locks and
    is closed under calls. -/
def summaryOk (fns : List Fn) (f : Fn) : Bool :=
  (f.linkage == 2 || f.held.isEmpty) &&
  f.paths.all (fun p => p.all (fun e =>
    match e with
    | .lock m => f.acquires.contains m
    | .call g => match fns[g]? with
                 | some c => c.acquires.all (f.acquires.contains ·)
                 | none => false
    | _ => true))

/-- Functions that only run while no other thread can use the context (creation / destruction). -/
def exclusivePhase : List String := ["ly_ctx_new", "ly_ctx_destroy", "lydict_init", "lydict_clean"]

def disciplineOk (pol : Policy) (fns : List Fn) : Bool :=
  fns.all (fun f => exclusivePhase.contains f.name || (pathsOk pol fns f && summaryOk fns f))

/-- Names of the functions with a path that breaks the policy. -/
def violators (pol : Policy) (fns : List Fn) : List String :=
  (fns.filter (fun f => !(exclusivePhase.contains f.name) && !(pathsOk pol fns f && summaryOk fns f))).map (·.name)

/-- Every place of the library that mentions a lock or a shared field is either analysed or exclusive-phase. -/
def sitesCovered (fns : List Fn) (sites : List (String × String)) : Bool :=
  sites.all (fun s => exclusivePhase.contains s.2 || fns.any (fun f => f.name == s.2 && f.file == s.1))

/-! ## What the discipline buys: mutual exclusion of guarded accesses in every interleaving

Threads run call-free paths (a path with its calls inlined); `lock m` is enabled only while no thread holds `m`
(the pthread mutex assumption, DESIGN §3).  A *race* is a state in which two different threads both have an access to
the same field as their next event, at least one of them a write. -/

structure Thread where
  held : List Nat
  todo : List Ev
  deriving Repr

/-- Thread-local check used as the invariant: the rest of the path respects the policy from the current lock set
    (calls are not allowed here: inlined paths). -/
def restOk (pol : Policy) : List Nat → List Ev → Bool
  | _, [] => true
  | h, .lock m :: r => !h.contains m && restOk pol (m :: h) r
  | h, .unlock m :: r => h.contains m && restOk pol (h.erase m) r
  | h, .access f w :: r => (match pol f w with | none => true | some m => h.contains m) && restOk pol h r
  | _, .call _ :: _ => false
  | h, .ret :: r => restOk pol h r

/-- One step of the machine: thread `i` performs its next event. -/
inductive Step : List Thread → List Thread → Prop
  | lock (ts : List Thread) (i : Nat) (h : List Nat) (m : Nat) (r : List Ev) :
      ts[i]? = some ⟨h, .lock m :: r⟩ → (∀ t ∈ ts, m ∉ t.held) → Step ts (ts.set i ⟨m :: h, r⟩)
  | unlock (ts : List Thread) (i : Nat) (h : List Nat) (m : Nat) (r : List Ev) :
      ts[i]? = some ⟨h, .unlock m :: r⟩ → Step ts (ts.set i ⟨h.erase m, r⟩)
  | other (ts : List Thread) (i : Nat) (h : List Nat) (e : Ev) (r : List Ev) :
      ts[i]? = some ⟨h, e :: r⟩ → (∀ m, e ≠ .lock m) → (∀ m, e ≠ .unlock m) → Step ts (ts.set i ⟨h, r⟩)

inductive Reach : List Thread → List Thread → Prop
  | refl (ts) : Reach ts ts
  | tail {a b c} : Reach a b → Step b c → Reach a c

/-- Invariant: every thread's remaining path is fine from its lock set, lock sets have no duplicates, and no mutex
    is in the lock sets of two different threads. -/
structure Inv (pol : Policy) (ts : List Thread) : Prop where
  rest : ∀ (i : Nat) (t : Thread), ts[i]? = some t → restOk pol t.held t.todo = true
  nodup : ∀ (i : Nat) (t : Thread), ts[i]? = some t → t.held.Nodup
  excl : ∀ (i j : Nat) (a b : Thread), ts[i]? = some a → ts[j]? = some b → i ≠ j → ∀ m, m ∈ a.held → m ∉ b.held

end LyModel.Conc
