/-!
Interleavings of N threads' step lists (C16): the schedule is any merge of the lists that keeps each thread's own
order. No bound on the number of threads or on the lengths.
-/
namespace LyModel.Conc

/-- `Interleaving ts sched`: `sched` (steps tagged with the index of the thread that performs them) is a complete
    merge of the step lists `ts`. -/
inductive Interleaving {α : Type} : List (List α) → List (Nat × α) → Prop
  | done (ts : List (List α)) : (∀ l ∈ ts, l = []) → Interleaving ts []
  | step (ts : List (List α)) (i : Nat) (a : α) (rest : List α) (sched : List (Nat × α)) :
      ts[i]? = some (a :: rest) → Interleaving (ts.set i rest) sched → Interleaving ts ((i, a) :: sched)

/-- The steps of thread `i` in a schedule, in order. -/
def proj {α : Type} (i : Nat) (sched : List (Nat × α)) : List α :=
  (sched.filter (fun p => p.1 == i)).map (·.2)

/-- Thread `i` runs to completion, tagged. -/
def tagged {α : Type} (i : Nat) (l : List α) : List (Nat × α) := l.map (fun a => (i, a))

/-- The serial schedule that runs the threads one after the other in the order `σ` (a list of thread indices). -/
def serialSched {α : Type} (ts : List (List α)) : List Nat → List (Nat × α)
  | [] => []
  | i :: σ => tagged i (ts[i]?.getD []) ++ serialSched ts σ

end LyModel.Conc
