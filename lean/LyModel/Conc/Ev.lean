/-!
Events of a control-flow path (component `Conc`, property C16).  `tools/extractors/conc.py` writes the paths of
dict.c / log.c / lyb.c in this vocabulary into `LyModel/Generated/LockPaths.lean` on every run.
-/
namespace LyModel.Conc

/-- One event on a control-flow path of a C function. Mutexes, fields and callees are small numbers; their
    meaning is fixed in the header comment of `Generated/LockPaths.lean`. -/
inductive Ev where
  | lock (m : Nat)
  | unlock (m : Nat)
  | access (field : Nat) (write : Bool)
  | call (g : Nat)
  | ret
  deriving DecidableEq, Repr, Inhabited

/-- A function with its enumerated paths and the two summaries the modular check relies on (both re-checked). -/
structure Fn where
  name : String
  file : String
  /-- 0 = exported API, 1 = non-static internal, 2 = static -/
  linkage : Nat
  /-- mutexes assumed to be held on entry (only a `static` function may assume any) -/
  held : List Nat := []
  /-- mutexes the function may lock, directly or in a callee -/
  acquires : List Nat := []
  paths : List (List Ev)
  deriving Repr, Inhabited

end LyModel.Conc
