import LyModel.Conc.Err
import LyModel.Conc.LockLemmas
/-! Invariants of the error-record model. -/
namespace LyModel.Conc
open LyModel.Generated

abbrev Recs := List (Nat × List Nat)

def tidAt (recs : Recs) (i : Nat) : Option Nat := (recs[i]?).map (·.1)

theorem findSlot_some {t : Nat} {recs : Recs} {i : Nat} (h : findSlot t recs = some i) : tidAt recs i = some t := by
  induction recs generalizing i with
  | nil => cases h
  | cons x r ih =>
    obtain ⟨u, es⟩ := x
    simp only [findSlot] at h
    split at h
    · rename_i hu; cases h; simp [tidAt, hu]
    · cases hf : findSlot t r with
      | none => simp [hf] at h
      | some k =>
        simp only [hf, Option.map_some, Option.some.injEq] at h
        subst h
        simpa [tidAt] using ih hf

theorem findSlot_none {t : Nat} {recs : Recs} (h : findSlot t recs = none) : t ∉ recs.map (·.1) := by
  induction recs with
  | nil => simp
  | cons x r ih =>
    obtain ⟨u, es⟩ := x
    simp only [findSlot] at h
    split at h
    · cases h
    · rename_i hu
      cases hf : findSlot t r with
      | none =>
        simp only [List.map_cons, List.mem_cons, not_or]
        exact ⟨fun e => hu e.symm, ih hf⟩
      | some k => simp [hf] at h

theorem findSlot_isSome_of_mem {t : Nat} {recs : Recs} (h : t ∈ recs.map (·.1)) : (findSlot t recs).isSome = true := by
  cases hf : findSlot t recs with
  | none => exact absurd h (findSlot_none hf)
  | some _ => rfl

theorem setErrs_map_fst (recs : Recs) (slot : Nat) (f : List Nat → List Nat) :
    (setErrs recs slot f).map (·.1) = recs.map (·.1) := by
  unfold setErrs
  split
  · rename_i o es h
    rw [List.map_set]
    apply List.ext_getElem?
    intro j
    rw [List.getElem?_set]
    by_cases hj : slot = j
    · subst hj
      obtain ⟨hlt, heq⟩ := List.getElem?_eq_some_iff.mp h
      simp [hlt, heq]
    · simp [hj]
  · rfl

theorem setErrs_tidAt (recs : Recs) (slot : Nat) (f : List Nat → List Nat) (j : Nat) :
    tidAt (setErrs recs slot f) j = tidAt recs j := by
  have := congrArg (fun l => l[j]?) (setErrs_map_fst recs slot f)
  simpa [tidAt, List.getElem?_map] using this

@[simp] theorem setPtr_tab (s : ErrState) (t : Nat) (p : Option Ptr) : (setPtr s t p).tab = s.tab := rfl
@[simp] theorem setPtr_obs (s : ErrState) (t : Nat) (p : Option Ptr) : (setPtr s t p).obs = s.obs := rfl
theorem setPtr_ptr (s : ErrState) (t : Nat) (p : Option Ptr) (u : Nat) :
    (setPtr s t p).ptr u = if u = t then p else s.ptr u := rfl

structure EInv (inl : Bool) (s : ErrState) : Prop where
  nodup : (s.tab.recs.map (·.1)).Nodup
  ptrOk : ∀ t p, s.ptr t = some p → (inl = false ∨ p.gen = s.tab.gen) → tidAt s.tab.recs p.slot = some t
  ptrLe : ∀ t p, s.ptr t = some p → p.gen ≤ s.tab.gen
  obsOk : ∀ o ∈ s.obs, o.owner = o.thread

theorem einv_init (inl : Bool) (tab : ErrTable) (h : tab.recs = []) : EInv inl { tab := tab, ptr := fun _ => none, obs := [] } :=
  ⟨by simp [h], fun _ _ hp => (by cases hp), fun _ _ hp => (by cases hp), fun _ ho => (by cases ho)⟩

theorem insertRec_gen (inl : Bool) (tab : ErrTable) (t : Nat) :
    ((insertRec inl tab t).gen = tab.gen ∨ inl = false ∧ (insertRec inl tab t).gen = tab.gen + 1) ∧
      (insertRec inl tab t).recs = tab.recs ++ [(t, [])] ∨
    inl = true ∧ (insertRec inl tab t).gen = tab.gen + 1 ∧ (insertRec inl tab t).recs = (tab.recs ++ [(t, [])]).reverse := by
  unfold insertRec
  simp only
  cases inl <;> split <;> simp [rehash]

theorem ptr_of_find {s : ErrState} {t u : Nat} {p : Ptr} {recs : Recs} {g : Nat}
    (hp : (if u = t then (findSlot t recs).map (fun i => (⟨g, i⟩ : Ptr)) else s.ptr u) = some p) :
    (u = t ∧ p.gen = g ∧ tidAt recs p.slot = some t) ∨ (u ≠ t ∧ s.ptr u = some p) := by
  split at hp
  · rename_i hu
    cases hf : findSlot t recs with
    | none => simp [hf] at hp
    | some i =>
      simp only [hf, Option.map_some, Option.some.injEq] at hp
      subst hp
      exact Or.inl ⟨hu, rfl, findSlot_some hf⟩
  · rename_i hu
    exact Or.inr ⟨hu, hp⟩

theorem estep_inv {inl : Bool} {s s' : ErrState} {t : Nat} {st : ErrStep} (hinv : EInv inl s)
    (h : estep inl s t st = .ok s') : EInv inl s' := by
  cases st with
  | getRec =>
    simp only [estep, Except.ok.injEq] at h
    subst h
    refine ⟨hinv.nodup, ?_, ?_, hinv.obsOk⟩
    · intro u p hp hg
      rw [setPtr_ptr] at hp
      rcases ptr_of_find hp with ⟨hu, _, hok⟩ | ⟨_, hp'⟩
      · subst hu; exact hok
      · exact hinv.ptrOk u p hp' hg
    · intro u p hp
      rw [setPtr_ptr] at hp
      rcases ptr_of_find hp with ⟨_, hgen, _⟩ | ⟨_, hp'⟩
      · simp only [setPtr_tab]; omega
      · exact hinv.ptrLe u p hp'
  | newRecIfNull =>
    simp only [estep] at h
    split at h
    · cases h; exact hinv
    · split at h
      · cases h; exact hinv
      · rename_i hfs
        simp only [Except.ok.injEq] at h
        subst h
        have hfresh := findSlot_none hfs
        have hnd : ((s.tab.recs ++ [(t, ([] : List Nat))]).map (·.1)).Nodup := by
          rw [List.map_append, List.nodup_append]
          refine ⟨hinv.nodup, by simp, ?_⟩
          intro a ha b hb
          simp only [List.map_cons, List.map_nil, List.mem_singleton] at hb
          subst hb
          exact fun e => hfresh (e ▸ ha)
        rcases insertRec_gen inl s.tab t with ⟨hg, hr⟩ | ⟨hinl, hg, hr⟩
        · -- records stay where they are
          refine ⟨?_, ?_, ?_, hinv.obsOk⟩
          · simpa [hr] using hnd
          · intro u p hp hpg
            simp only [setPtr_tab] at hpg ⊢
            rw [setPtr_ptr] at hp
            rcases ptr_of_find hp with ⟨hu, _, hok⟩ | ⟨_, hp'⟩
            · subst hu; exact hok
            · have hle := hinv.ptrLe u p hp'
              have h1 := hinv.ptrOk u p hp' (by
                rcases hpg with h0 | h0
                · exact Or.inl h0
                · rcases hg with hg | ⟨hf, _⟩
                  · exact Or.inr (by omega)
                  · exact Or.inl hf)
              simp only [hr, tidAt] at h1 ⊢
              cases hx : s.tab.recs[p.slot]? with
              | none => simp [hx] at h1
              | some x =>
                have hlt : p.slot < s.tab.recs.length := (List.getElem?_eq_some_iff.mp hx).1
                rw [List.getElem?_append_left hlt, hx]
                simpa [hx] using h1
          · intro u p hp
            rw [setPtr_ptr] at hp
            simp only [setPtr_tab]
            rcases ptr_of_find hp with ⟨_, hgen, _⟩ | ⟨_, hp'⟩
            · omega
            · have := hinv.ptrLe u p hp'
              rcases hg with hg | ⟨_, hg⟩ <;> omega
        · -- inline records: the array is replaced, every older pointer is out of date
          refine ⟨?_, ?_, ?_, hinv.obsOk⟩
          · simp only [setPtr_tab, hr, List.map_reverse]; exact (List.reverse_perm _).nodup_iff.mpr hnd
          · intro u p hp hpg
            simp only [setPtr_tab] at hpg ⊢
            rw [setPtr_ptr] at hp
            rcases ptr_of_find hp with ⟨hu, _, hok⟩ | ⟨_, hp'⟩
            · subst hu; exact hok
            · have := hinv.ptrLe u p hp'
              rcases hpg with h0 | h0
              · rw [hinl] at h0; cases h0
              · omega
          · intro u p hp
            rw [setPtr_ptr] at hp
            simp only [setPtr_tab]
            rcases ptr_of_find hp with ⟨_, hgen, _⟩ | ⟨_, hp'⟩
            · omega
            · have := hinv.ptrLe u p hp'; omega
  | read =>
    simp only [estep] at h
    split at h
    · cases h
      refine ⟨hinv.nodup, hinv.ptrOk, hinv.ptrLe, ?_⟩
      intro ob hob
      rcases List.mem_append.mp hob with hob | hob
      · exact hinv.obsOk ob hob
      · simp only [List.mem_singleton] at hob; subst hob; rfl
    · rename_i p hp
      split at h
      · cases h
      · rename_i hg
        have hg' : inl = false ∨ p.gen = s.tab.gen := by
          cases inl
          · exact Or.inl rfl
          · right; simpa using hg
        split at h
        · rename_i o es hx
          cases h
          refine ⟨hinv.nodup, hinv.ptrOk, hinv.ptrLe, ?_⟩
          intro ob hob
          rcases List.mem_append.mp hob with hob | hob
          · exact hinv.obsOk ob hob
          · simp only [List.mem_singleton] at hob
            subst hob
            have := hinv.ptrOk t p hp hg'
            simpa [tidAt, hx] using this
        · cases h; exact hinv
  | store e =>
    simp only [estep] at h
    split at h
    · cases h; exact hinv
    · split at h
      · cases h
      · cases h
        refine ⟨?_, ?_, hinv.ptrLe, hinv.obsOk⟩
        · simpa [setErrs_map_fst] using hinv.nodup
        · intro u q hq hqg
          simp only [setErrs_tidAt]
          exact hinv.ptrOk u q hq hqg
  | clean =>
    simp only [estep] at h
    split at h
    · cases h; exact hinv
    · split at h
      · cases h
      · cases h
        refine ⟨?_, ?_, hinv.ptrLe, hinv.obsOk⟩
        · simpa [setErrs_map_fst] using hinv.nodup
        · intro u q hq hqg
          simp only [setErrs_tidAt]
          exact hinv.ptrOk u q hq hqg

theorem errRun_inv {inl : Bool} {s s' : ErrState} {sched : List (Nat × ErrStep)} (hinv : EInv inl s)
    (h : errRun inl s sched = .ok s') : EInv inl s' := by
  induction sched generalizing s with
  | nil => simp only [errRun, Except.ok.injEq] at h; subst h; exact hinv
  | cons x r ih =>
    obtain ⟨t, st⟩ := x
    simp only [errRun] at h
    split at h
    · rename_i s1 h1
      exact ih (estep_inv hinv h1) h
    · cases h

/-- With separately allocated records no step can fail. -/
theorem estep_heap (s : ErrState) (t : Nat) (st : ErrStep) : ∃ s', estep false s t st = .ok s' := by
  cases st <;> simp only [estep, Bool.false_and, Bool.false_eq_true, if_false] <;> repeat (first | exact ⟨_, rfl⟩ | split)

theorem errRun_heap (s : ErrState) (sched : List (Nat × ErrStep)) : ∃ s', errRun false s sched = .ok s' := by
  induction sched generalizing s with
  | nil => exact ⟨s, rfl⟩
  | cons x r ih =>
    obtain ⟨t, st⟩ := x
    obtain ⟨s1, h1⟩ := estep_heap s t st
    obtain ⟨s2, h2⟩ := ih s1
    exact ⟨s2, by simp only [errRun, h1, h2]⟩

/-! ### below the threshold the array is never replaced -/

def initSize : Nat := errInit.tab.size

theorem afterInsert_no_enlarge (size used resize : Nat) (h : used * 100 / size < LYHT_ENLARGE_PERCENTAGE) :
    (afterInsert size used resize).2 = false := by
  unfold afterInsert
  split
  · rfl
  · simp only [decide_eq_false_iff_not, not_and]
    intro _ hge
    omega

theorem small_no_enlarge : ∀ u, u < staleThreshold → u * 100 / initSize < LYHT_ENLARGE_PERCENTAGE := by decide

structure Small (T : List Nat) (s : ErrState) : Prop where
  gen0 : s.tab.gen = 0
  size : s.tab.size = initSize
  used : s.tab.used = s.tab.recs.length
  nodup : (s.tab.recs.map (·.1)).Nodup
  sub : s.tab.recs.map (·.1) ⊆ T
  ptr0 : ∀ t p, s.ptr t = some p → p.gen = 0

theorem small_init (T : List Nat) : Small T errInit :=
  ⟨rfl, rfl, rfl, List.nodup_nil, (by intro x hx; cases hx), fun _ _ h => (by cases h)⟩

theorem estep_small (inl : Bool) {T : List Nat} (hT : T.length < staleThreshold) {s : ErrState} {t : Nat} (ht : t ∈ T)
    (st : ErrStep) (h : Small T s) : ∃ s', estep inl s t st = .ok s' ∧ Small T s' := by
  cases st with
  | getRec =>
    refine ⟨_, rfl, h.gen0, h.size, h.used, h.nodup, h.sub, ?_⟩
    intro u p hp
    rw [setPtr_ptr] at hp
    split at hp
    · cases hf : findSlot t s.tab.recs with
      | none => simp [hf] at hp
      | some i =>
        simp only [hf, Option.map_some, Option.some.injEq] at hp
        subst hp; exact h.gen0
    · exact h.ptr0 u p hp
  | newRecIfNull =>
    simp only [estep]
    split
    · exact ⟨s, rfl, h⟩
    · split
      · exact ⟨s, rfl, h⟩
      · rename_i hfs
        have hfresh := findSlot_none hfs
        have hnd : ((s.tab.recs ++ [(t, ([] : List Nat))]).map (·.1)).Nodup := by
          rw [List.map_append, List.nodup_append]
          refine ⟨h.nodup, by simp, ?_⟩
          intro a ha b hb
          simp only [List.map_cons, List.map_nil, List.mem_singleton] at hb
          subst hb
          exact fun e => hfresh (e ▸ ha)
        have hsub : (s.tab.recs ++ [(t, ([] : List Nat))]).map (·.1) ⊆ T := by
          intro x hx
          simp only [List.map_append, List.map_cons, List.map_nil, List.mem_append, List.mem_singleton] at hx
          rcases hx with hx | rfl
          · exact h.sub hx
          · exact ht
        have hlen := List.Nodup.length_le_of_subset hnd hsub
        simp only [List.map_append, List.length_append, List.length_map, List.length_cons, List.length_nil] at hlen
        have hno : (afterInsert s.tab.size (s.tab.used + 1) s.tab.resize).2 = false := by
          apply afterInsert_no_enlarge
          rw [h.size, h.used]
          exact small_no_enlarge _ (by omega)
        have hins : insertRec inl s.tab t = ErrTable.mk s.tab.size (s.tab.used + 1)
            (afterInsert s.tab.size (s.tab.used + 1) s.tab.resize).1 s.tab.gen (s.tab.recs ++ [(t, [])]) := by
          unfold insertRec
          simp only [hno, Bool.false_eq_true, if_false]
        refine ⟨_, rfl, ?_⟩
        rw [hins]
        refine ⟨h.gen0, h.size, ?_, hnd, hsub, ?_⟩
        · simp [h.used]
        · intro u p hp
          rw [setPtr_ptr] at hp
          split at hp
          · cases hf : findSlot t (s.tab.recs ++ [(t, ([] : List Nat))]) with
            | none => simp [hf] at hp
            | some i =>
              simp only [hf, Option.map_some, Option.some.injEq] at hp
              subst hp; exact h.gen0
          · exact h.ptr0 u p hp
  | read =>
    simp only [estep]
    split
    · exact ⟨_, rfl, h.gen0, h.size, h.used, h.nodup, h.sub, h.ptr0⟩
    · rename_i p hp
      have hg : p.gen = s.tab.gen := by rw [h.ptr0 t p hp, h.gen0]
      simp only [hg, ne_eq, not_true_eq_false, decide_false, Bool.and_false, Bool.false_eq_true, if_false]
      split
      · exact ⟨_, rfl, h.gen0, h.size, h.used, h.nodup, h.sub, h.ptr0⟩
      · exact ⟨s, rfl, h⟩
  | store e =>
    simp only [estep]
    split
    · exact ⟨s, rfl, h⟩
    · rename_i p hp
      have hg : p.gen = s.tab.gen := by rw [h.ptr0 t p hp, h.gen0]
      simp only [hg, ne_eq, not_true_eq_false, decide_false, Bool.and_false, Bool.false_eq_true, if_false]
      refine ⟨_, rfl, h.gen0, h.size, ?_, ?_, ?_, h.ptr0⟩
      · have := congrArg List.length (setErrs_map_fst s.tab.recs p.slot (· ++ [e]))
        simp only [List.length_map] at this
        simp [h.used, this]
      · simpa [setErrs_map_fst] using h.nodup
      · simpa [setErrs_map_fst] using h.sub
  | clean =>
    simp only [estep]
    split
    · exact ⟨s, rfl, h⟩
    · rename_i p hp
      have hg : p.gen = s.tab.gen := by rw [h.ptr0 t p hp, h.gen0]
      simp only [hg, ne_eq, not_true_eq_false, decide_false, Bool.and_false, Bool.false_eq_true, if_false]
      refine ⟨_, rfl, h.gen0, h.size, ?_, ?_, ?_, h.ptr0⟩
      · have := congrArg List.length (setErrs_map_fst s.tab.recs p.slot (fun _ => []))
        simp only [List.length_map] at this
        simp [h.used, this]
      · simpa [setErrs_map_fst] using h.nodup
      · simpa [setErrs_map_fst] using h.sub

theorem errRun_small (inl : Bool) {T : List Nat} (hT : T.length < staleThreshold) (sched : List (Nat × ErrStep))
    (hs : ∀ x ∈ sched, x.1 ∈ T) {s : ErrState} (h : Small T s) : ∃ s', errRun inl s sched = .ok s' ∧ Small T s' := by
  induction sched generalizing s with
  | nil => exact ⟨s, rfl, h⟩
  | cons x r ih =>
    obtain ⟨t, st⟩ := x
    obtain ⟨s1, h1, hs1⟩ := estep_small inl hT (hs (t, st) List.mem_cons_self) st h
    obtain ⟨s2, h2, hs2⟩ := ih (fun y hy => hs y (List.mem_cons_of_mem _ hy)) hs1
    exact ⟨s2, by simp only [errRun, h1, h2], hs2⟩

end LyModel.Conc
