import LyModel.Sib.RbDel
/-!
# Sib.RbMerge (stage 2) — `lyds_merge`: a whole (leaf-)list moved into a sibling list that has instances of it

`lyd_insert_child/sibling` of a node with siblings → `lyd_move_nodes` → `lyd_move_nodes_by_schema` → `lyds_merge(first_dst,
&leader_dst, &first_src, leader_src, &next)` for every system-ordered (leaf-)list that has a leader in the destination.
Four cases, by which side has a red-black tree:

* neither         → the destination tree is built (`lyds_additionally_create_rb_tree`), then `lyds_merge_nodes1`;
* destination only → `lyds_merge_nodes1`: the source instances, in SIBLING order, are `rb_insert`ed one by one;
* source only      → `lyds_merge_nodes2`: the DESTINATION instances, in sibling order, are `rb_insert`ed into the SOURCE tree
                     (`_front`: the leader, `_among`: the others), the source data nodes are linked around them following the
                     tree, and the source metadata — with that tree — moves to the destination leader;
* both             → `lyds_merge_nodes3`: the source tree is taken apart by `rb_iter_begin/rb_iter_next` (always down to the
                     left, else right; the leaf reached is returned and cut off: POST-order) and every node is
                     `rb_insert_node`d into the destination tree; the source metadata is freed.

In all cases the data nodes end up in the in-order sequence of the resulting tree (`lyds_link_data_node`).
-/
namespace LyModel.Sib.Rb

variable {α : Type}

/-- the order in which `rb_iter_begin` / `rb_iter_next` (`rb_iter_traversal`) hand out the nodes -/
def iterOrder : T α → List α
  | .nil => []
  | .node _ l d r => iterOrder l ++ iterOrder r ++ [d]

/-- `lyds_merge`; `dl` / `sl` = destination / source instances in sibling order (both non-empty), `dst` / `src` their trees
    (`nil` = none).  Result: the tree the destination leader's metadata points to afterwards. -/
def mergeTree (gt : α → α → Bool) (dst : T α) (dl : List α) (src : T α) (sl : List α) : T α :=
  match dst, src with
  | .nil, .node c l d r =>
    -- lyds_merge_nodes2: destination instances into the source tree
    dl.foldl (fun t x => Rb.insert gt x t) (.node c l d r)
  | .node c l d r, .node c' l' d' r' =>
    -- lyds_merge_nodes3: source nodes in iterator order into the destination tree
    (iterOrder (T.node c' l' d' r')).foldl (fun t x => Rb.insert gt x t) (.node c l d r)
  | _, .nil =>
    -- lyds_merge_nodes1 (after lyds_additionally_create_rb_tree if needed): source instances in sibling order
    sl.foldl (fun t x => Rb.insert gt x t) (Lyds.base gt dst dl)

end LyModel.Sib.Rb
